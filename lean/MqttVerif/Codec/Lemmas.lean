import MqttVerif.Codec.Wf
/-!
# L1 Codec — Hoare-style lemmas for the parsers (C04) : framework and primitives

`Sat x Q` : the parser result `x` is not a panic and, if it is `ok a c`, then `Q a c`.
Each Rust index / slice / unwrap site (`idx`, `slice`, `sliceFrom`, `vbiOf`, `usub`) has a rule
whose premise is the guard that makes the site safe.
-/
namespace MqttVerif.Codec

/-- no panic, and the postcondition on acceptance -/
def Sat {α : Type} (x : PRes α) (Q : α → Nat → Prop) : Prop :=
  match x with
  | .ok a c => Q a c
  | .err _ => True
  | .panic _ => False

@[simp] theorem sat_ok {α : Type} (a : α) (c : Nat) (Q : α → Nat → Prop) : Sat (.ok a c) Q ↔ Q a c := Iff.rfl
@[simp] theorem sat_err {α : Type} (e : Err) (Q : α → Nat → Prop) : Sat (.err e : PRes α) Q ↔ True := Iff.rfl
@[simp] theorem sat_panic {α : Type} (s : String) (Q : α → Nat → Prop) : Sat (.panic s : PRes α) Q ↔ False := Iff.rfl

theorem Sat.noPanic {α : Type} {x : PRes α} {Q : α → Nat → Prop} (h : Sat x Q) : ∀ s, x ≠ .panic s := by
  intro s e; subst e; exact h

theorem Sat.post {α : Type} {x : PRes α} {Q : α → Nat → Prop} (h : Sat x Q) : ∀ a c, x = .ok a c → Q a c := by
  intro a c e; subst e; exact h

theorem Sat.mono {α : Type} {x : PRes α} {P Q : α → Nat → Prop} (h : Sat x P) (hpq : ∀ a c, P a c → Q a c) :
    Sat x Q := by
  cases x with
  | ok a c => exact hpq a c h
  | err e => trivial
  | panic s => exact h

theorem sat_bind {α β : Type} {x : PRes α} {f : α → Nat → PRes β} {P : α → Nat → Prop} {Q : β → Nat → Prop}
    (hx : Sat x P) (hf : ∀ a c, P a c → Sat (f a c) Q) : Sat (x.bind f) Q := by
  cases x with
  | ok a c => exact hf a c hx
  | err e => trivial
  | panic s => exact hx

theorem sat_mapErr {α : Type} {x : PRes α} {e : Err} {Q : α → Nat → Prop} (h : Sat x Q) : Sat (x.mapErr e) Q := by
  cases x with
  | ok a c => exact h
  | err e => trivial
  | panic s => exact h

theorem sat_map {α β : Type} {x : PRes α} {f : α → β} {P : α → Nat → Prop} {Q : β → Nat → Prop}
    (hx : Sat x P) (hf : ∀ a c, P a c → Q (f a) c) : Sat (x.map f) Q :=
  sat_bind hx (fun a c h => hf a c h)

theorem sat_idx {α : Type} {site : String} {data : List Nat} {i : Nat} {k : Nat → PRes α} {Q : α → Nat → Prop}
    (hi : i < data.length) (hk : ∀ b, Sat (k b) Q) : Sat (idx site data i k) Q := by
  unfold idx
  rw [List.getElem?_eq_getElem hi]
  exact hk _

theorem sat_sliceFrom {α : Type} {site : String} {data : List Nat} {a : Nat} {k : List Nat → PRes α}
    {Q : α → Nat → Prop} (ha : a ≤ data.length) (hk : ∀ d, d.length = data.length - a → Sat (k d) Q) :
    Sat (sliceFrom site data a k) Q := by
  unfold sliceFrom
  rw [if_pos ha]
  exact hk _ (by simp)

theorem sat_slice {α : Type} {site : String} {data : List Nat} {a b : Nat} {k : List Nat → PRes α}
    {Q : α → Nat → Prop} (hab : a ≤ b) (hb : b ≤ data.length) (hk : ∀ d, d.length = b - a → Sat (k d) Q) :
    Sat (slice site data a b k) Q := by
  unfold slice
  rw [if_pos ⟨hab, hb⟩]
  exact hk _ (by simp; omega)

theorem sat_vbiOf {α : Type} {site : String} {n : Nat} {k : Nat → PRes α} {Q : α → Nat → Prop}
    (hn : n ≤ vbiMax) (hk : Sat (k n) Q) : Sat (vbiOf site n k) Q := by
  unfold vbiOf
  rw [if_pos hn]
  exact hk

theorem sat_usub {α : Type} {site : String} {a b : Nat} {k : Nat → PRes α} {Q : α → Nat → Prop}
    (hb : b ≤ a) (hk : Sat (k (a - b)) Q) : Sat (usub site a b k) Q := by
  unfold usub
  rw [if_pos hb]
  exact hk

/-! ### VariableByteInteger -/

theorem vbiSize_pos (v : Nat) : 1 ≤ vbiSize v := by unfold vbiSize; split <;> (try split) <;> (try split) <;> omega
theorem vbiSize_le (v : Nat) : vbiSize v ≤ 4 := by unfold vbiSize; split <;> (try split) <;> (try split) <;> omega
theorem vbiSize_mono {a b : Nat} (h : a ≤ b) : vbiSize a ≤ vbiSize b := by
  unfold vbiSize
  repeat' split
  all_goals omega

/-- postcondition of `decode_stream`: the value is in range, exactly its canonical size was
    read (non-minimal encodings are rejected), at most 4 bytes and at most the buffer -/
def VRes.Post (r : VRes) (len : Nat) : Prop :=
  match r with
  | .ok v c => v ≤ vbiMax ∧ vbiSize v = c ∧ c ≤ len ∧ c ≤ 4
  | _ => True

theorem vbiDecAux_post (fuel : Nat) (buf : List Nat) (mult value i len : Nat)
    (hf : i + fuel = 4) (hl : i + buf.length ≤ len) :
    (vbiDecAux fuel buf mult value i len).Post len := by
  induction fuel generalizing buf mult value i with
  | zero => unfold vbiDecAux; split <;> trivial
  | succ fuel ih =>
    cases buf with
    | nil => unfold vbiDecAux; split <;> trivial
    | cons b rest =>
      unfold vbiDecAux
      simp only
      simp only [List.length_cons] at hl
      split
      · trivial
      · rename_i hle
        split
        · split
          · rename_i hs
            exact ⟨by omega, hs, by omega, by omega⟩
          · trivial
        · exact ih rest (mult * 128) _ (i + 1) (by omega) (by omega)

theorem vbiDec_post (buf : List Nat) : (vbiDec buf).Post buf.length := by
  unfold vbiDec
  exact vbiDecAux_post 4 buf 1 0 0 buf.length (by omega) (by omega)

theorem vbiDec_ok {buf : List Nat} {v c : Nat} (h : vbiDec buf = .ok v c) :
    v ≤ vbiMax ∧ vbiSize v = c ∧ c ≤ buf.length ∧ c ≤ 4 := by
  have := vbiDec_post buf
  rw [h] at this
  exact this

/-! ### MqttString / MqttBinary -/

theorem decBin_sat (data : List Nat) :
    Sat (decBin data) (fun s c => c = 2 + s.length ∧ c ≤ data.length) := by
  unfold decBin
  split
  · trivial
  · refine sat_idx (by omega) fun b0 => sat_idx (by omega) fun b1 => ?_
    simp only
    split
    · trivial
    · refine sat_slice (by omega) (by omega) fun d hd => ?_
      simp only [sat_ok]
      omega

theorem decStr_sat (data : List Nat) :
    Sat (decStr data) (fun s c => c = 2 + s.length ∧ c ≤ data.length ∧ utf8Ok s = true) := by
  unfold decStr
  split
  · trivial
  · refine sat_idx (by omega) fun b0 => sat_idx (by omega) fun b1 => ?_
    simp only
    split
    · trivial
    · refine sat_slice (by omega) (by omega) fun d hd => ?_
      split
      · rename_i hu
        simp only [sat_ok]
        exact ⟨by omega, by omega, hu⟩
      · trivial

theorem SubEntry.parse_sat (data : List Nat) :
    Sat (SubEntry.parse data) (fun e c => c = e.size ∧ c ≤ data.length ∧ utf8Ok e.topic = true) := by
  unfold SubEntry.parse
  refine sat_sliceFrom (by omega) fun d hd => ?_
  refine sat_bind (decStr_sat d) fun topic c ⟨hc, hle, hu⟩ => ?_
  simp only
  split
  · trivial
  · refine sat_idx (by omega) fun o => ?_
    split
    · simp only [sat_ok, SubEntry.size, strSize]
      exact ⟨by omega, by omega, hu⟩
    · trivial

/-! ### Property / Properties -/

theorem parseVbi_sat (id : Nat) (bytes : List Nat) :
    Sat (parseVbi id bytes) (fun p c => p.size = c + 1 ∧ c ≤ bytes.length ∧ 1 ≤ c) := by
  unfold parseVbi
  split
  · rename_i v len h
    have := vbiDec_ok h
    split
    · simp only [sat_ok, Property.size]
      have := vbiSize_pos v
      omega
    · trivial
  · trivial
  · trivial

theorem parseU8_sat (id : Nat) (rest : List Nat) :
    Sat (parseU8 id rest) (fun p c => p.size = c + 1 ∧ c ≤ rest.length ∧ 1 ≤ c) := by
  unfold parseU8
  split
  · trivial
  · refine sat_idx (by omega) fun v => ?_
    split
    · simp only [sat_ok, Property.size, true_and]; omega
    · trivial

theorem parseU16_sat (id : Nat) (rest : List Nat) :
    Sat (parseU16 id rest) (fun p c => p.size = c + 1 ∧ c ≤ rest.length ∧ 1 ≤ c) := by
  unfold parseU16
  split
  · trivial
  · refine sat_idx (by omega) fun b0 => sat_idx (by omega) fun b1 => ?_
    simp only
    split
    · simp only [sat_ok, Property.size, true_and]; omega
    · trivial

theorem parseU32_sat (id : Nat) (rest : List Nat) :
    Sat (parseU32 id rest) (fun p c => p.size = c + 1 ∧ c ≤ rest.length ∧ 1 ≤ c) := by
  unfold parseU32
  split
  · trivial
  · refine sat_idx (by omega) fun b0 => sat_idx (by omega) fun b1 =>
      sat_idx (by omega) fun b2 => sat_idx (by omega) fun b3 => ?_
    simp only
    split
    · simp only [sat_ok, Property.size, true_and]; omega
    · trivial

theorem parsePStr_sat (id : Nat) (rest : List Nat) :
    Sat (parsePStr id rest) (fun p c => p.size = c + 1 ∧ c ≤ rest.length ∧ 1 ≤ c) := by
  unfold parsePStr
  refine sat_bind (decStr_sat rest) fun s c ⟨h1, h2, _⟩ => ?_
  simp only [sat_ok, Property.size, strSize]; omega

theorem parsePBin_sat (id : Nat) (rest : List Nat) :
    Sat (parsePBin id rest) (fun p c => p.size = c + 1 ∧ c ≤ rest.length ∧ 1 ≤ c) := by
  unfold parsePBin
  refine sat_bind (decBin_sat rest) fun s c ⟨h1, h2⟩ => ?_
  simp only [sat_ok, Property.size, strSize]; omega

theorem parsePair_sat (id : Nat) (rest : List Nat) :
    Sat (parsePair id rest) (fun p c => p.size = c + 1 ∧ c ≤ rest.length ∧ 1 ≤ c) := by
  unfold parsePair
  refine sat_bind (decStr_sat rest) fun k kc ⟨h1, h2, _⟩ => ?_
  refine sat_sliceFrom (by omega) fun d hd => ?_
  refine sat_bind (decStr_sat d) fun v vc ⟨h3, h4, _⟩ => ?_
  simp only [sat_ok, Property.size, strSize]; omega

theorem Property.parse_sat (bytes : List Nat) :
    Sat (Property.parse bytes) (fun p c => p.size = c ∧ c ≤ bytes.length ∧ 1 ≤ c) := by
  unfold Property.parse
  split
  · trivial
  · rename_i hne
    have hpos : 0 < bytes.length := by
      cases bytes with
      | nil => simp at hne
      | cons _ _ => simp
    refine sat_idx hpos fun id => ?_
    split
    · trivial
    · rename_i sh _
      refine sat_sliceFrom (by omega) fun rest hr => ?_
      simp only
      refine sat_bind (P := fun p c => p.size = c + 1 ∧ c ≤ rest.length ∧ 1 ≤ c) ?_ fun p c ⟨h1, h2, h3⟩ => ?_
      · cases sh
        · exact parseU8_sat id rest
        · exact parseU16_sat id rest
        · exact parseU32_sat id rest
        · exact parseVbi_sat id rest
        · exact parsePStr_sat id rest
        · exact parsePBin_sat id rest
        · exact parsePair_sat id rest
      · simp only [sat_ok]; omega

theorem Props.size_cons (p : Property) (ps : Props) : Props.size (p :: ps) = p.size + Props.size ps := by
  simp [Props.size]

theorem propsLoop_sat (fuel : Nat) (region : List Nat) (hf : region.length ≤ fuel) :
    Sat (propsLoop fuel region) (fun ps c => ps.size = c ∧ c = region.length) := by
  induction fuel generalizing region with
  | zero =>
    unfold propsLoop
    have : region = [] := List.eq_nil_of_length_eq_zero (by omega)
    subst this
    simp [Props.size]
  | succ fuel ih =>
    unfold propsLoop
    split
    · rename_i he
      have : region = [] := by simpa using he
      subst this
      simp [Props.size]
    · refine sat_bind (Property.parse_sat region) fun p c ⟨h1, h2, h3⟩ => ?_
      refine sat_bind (ih (region.drop c) (by simp; omega)) fun ps c' ⟨h4, h5⟩ => ?_
      simp only [sat_ok, Props.size_cons]
      simp only [List.length_drop] at h5
      omega

theorem Props.parse_sat (data : List Nat) :
    Sat (Props.parse data)
      (fun ps c => vbiSize ps.size + ps.size = c ∧ c ≤ data.length ∧ ps.size ≤ vbiMax ∧ 1 ≤ c) := by
  unfold Props.parse
  split
  · trivial
  · split
    · rename_i v cons h
      obtain ⟨hv, hs, hc, _⟩ := vbiDec_ok h
      have hpos := vbiSize_pos v
      split
      · rename_i h0
        subst h0
        simp only [sat_ok, Props.size, List.map_nil, List.sum_nil]
        omega
      · simp only
        split
        · trivial
        · refine sat_slice (by omega) (by omega) fun region hr => ?_
          refine sat_bind (propsLoop_sat region.length region (Nat.le_refl _)) fun ps c ⟨h1, h2⟩ => ?_
          simp only [sat_ok]
          have : ps.size = v := by omega
          rw [this]
          omega
    · trivial

theorem parsePropsAt_sat (site : String) (validate : Props → Option Err) (data : List Nat) (cursor : Nat)
    (hc : cursor ≤ data.length) :
    Sat (parsePropsAt site validate data cursor)
      (fun pp c => vbiSize pp.2 + pp.1.size = c ∧ cursor + c ≤ data.length ∧ pp.2 = pp.1.size ∧ 1 ≤ c
                    ∧ validate pp.1 = none) := by
  unfold parsePropsAt
  refine sat_sliceFrom hc fun d hd => ?_
  refine sat_bind (Props.parse_sat d) fun ps c ⟨h1, h2, h3, h4⟩ => ?_
  split
  · trivial
  · rename_i hv
    refine sat_vbiOf h3 ?_
    rw [sat_ok]
    exact ⟨h1, by omega, rfl, h4, hv⟩

/-! ### entry / topic loops -/

theorem entriesSize_cons (e : SubEntry) (es : List SubEntry) : entriesSize (e :: es) = e.size + entriesSize es := by
  simp [entriesSize]
theorem topicsSize_cons (t : List Nat) (ts : List (List Nat)) : topicsSize (t :: ts) = strSize t + topicsSize ts := by
  simp [topicsSize]

theorem entriesLoop_sat (fuel : Nat) (rest : List Nat) (hf : rest.length ≤ fuel) :
    Sat (entriesLoop fuel rest) (fun es c => entriesSize es = c ∧ c ≤ rest.length) := by
  induction fuel generalizing rest with
  | zero =>
    unfold entriesLoop
    have : rest = [] := List.eq_nil_of_length_eq_zero (by omega)
    subst this
    simp [entriesSize]
  | succ fuel ih =>
    unfold entriesLoop
    split
    · simp [entriesSize]
    · refine sat_bind (SubEntry.parse_sat rest) fun e c ⟨h1, h2, _⟩ => ?_
      have hpos : 1 ≤ c := by simp only [SubEntry.size, strSize] at h1; omega
      refine sat_bind (ih (rest.drop c) (by simp; omega)) fun es c' ⟨h4, h5⟩ => ?_
      simp only [sat_ok, entriesSize_cons]
      simp only [List.length_drop] at h5
      omega

theorem topicsLoop_sat (fuel : Nat) (rest : List Nat) (hf : rest.length ≤ fuel) :
    Sat (topicsLoop fuel rest) (fun ts c => topicsSize ts = c ∧ c ≤ rest.length) := by
  induction fuel generalizing rest with
  | zero =>
    unfold topicsLoop
    have : rest = [] := List.eq_nil_of_length_eq_zero (by omega)
    subst this
    simp [topicsSize]
  | succ fuel ih =>
    unfold topicsLoop
    split
    · simp [topicsSize]
    · refine sat_bind (decStr_sat rest) fun t c ⟨h1, h2, _⟩ => ?_
      refine sat_bind (ih (rest.drop c) (by simp; omega)) fun ts c' ⟨h4, h5⟩ => ?_
      simp only [sat_ok, topicsSize_cons, strSize]
      simp only [List.length_drop] at h5
      omega

end MqttVerif.Codec
