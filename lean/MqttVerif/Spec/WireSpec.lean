/-!
# WireSpec — an independent, declarative reference encoder (C03)

Written from the OASIS MQTT v3.1.1 / v5.0 specifications, **not** from the Rust source and not
from `MqttVerif.Codec`: abstract packets without cached lengths, own constants (control packet
types and fixed flags from Table 2-1 / 2-2, property identifiers and data types from Table 2-4,
CONNECT flag bits from §3.1.2.3, subscription option bits from §3.8.3.1).

    encode pkt = (type * 16 + flags) :: vbi |body pkt| ++ body pkt

`idw` is the width of a packet identifier in bytes (2 in the standard; the library also offers 4
for broker clusters).  No imports: the trace driver evaluates it as a monitor.
-/
namespace MqttVerif.Spec.Wire

/-! ## §1.5 data representation -/

/-- §1.5.2 Two Byte Integer: big-endian, most significant byte first -/
def twoByte (n : Nat) : List Nat := [n / 256, n % 256]

/-- §1.5.3 Four Byte Integer -/
def fourByte (n : Nat) : List Nat := [n / 16777216, n / 65536 % 256, n / 256 % 256, n % 256]

/-- §1.5.5 Variable Byte Integer, the encoding algorithm of the specification:
    `do { encodedByte = X MOD 128; X = X DIV 128; if X > 0 then encodedByte |= 128; output } while X > 0` -/
def varInt (x : Nat) : List Nat :=
  if h : x < 128 then [x] else (x % 128 + 128) :: varInt (x / 128)
termination_by x
decreasing_by omega

/-- §1.5.4 UTF-8 Encoded String / §1.5.6 Binary Data: two byte length, then the bytes -/
def lenPrefixed (bs : List Nat) : List Nat := twoByte bs.length ++ bs

/-- packet identifier of `idw` bytes, big-endian -/
def packetId (idw id : Nat) : List Nat := if idw = 2 then twoByte id else fourByte id

/-! ## §2.1 fixed header -/

/-- Table 2-1 MQTT Control Packet types -/
inductive CPType
  | CONNECT | CONNACK | PUBLISH | PUBACK | PUBREC | PUBREL | PUBCOMP | SUBSCRIBE | SUBACK
  | UNSUBSCRIBE | UNSUBACK | PINGREQ | PINGRESP | DISCONNECT | AUTH
deriving DecidableEq, Repr

def CPType.value : CPType → Nat
  | .CONNECT => 1 | .CONNACK => 2 | .PUBLISH => 3 | .PUBACK => 4 | .PUBREC => 5 | .PUBREL => 6
  | .PUBCOMP => 7 | .SUBSCRIBE => 8 | .SUBACK => 9 | .UNSUBSCRIBE => 10 | .UNSUBACK => 11
  | .PINGREQ => 12 | .PINGRESP => 13 | .DISCONNECT => 14 | .AUTH => 15

/-- Table 2-2 flag bits: "Reserved" values (PUBLISH has DUP / QoS / RETAIN instead) -/
def CPType.reservedFlags : CPType → Nat
  | .PUBREL | .SUBSCRIBE | .UNSUBSCRIBE => 2
  | _ => 0

def b2n (b : Bool) : Nat := if b then 1 else 0

/-! ## §2.2.2 properties -/

/-- Table 2-4: data type of a property value -/
inductive PData | byte | twoByteInt | fourByteInt | varByteInt | utf8 | binary | utf8Pair
deriving DecidableEq, Repr

/-- Table 2-4 Properties: identifier (decimal), name, type -/
def propertyTable : List (Nat × String × PData) :=
  [(1, "Payload Format Indicator", .byte), (2, "Message Expiry Interval", .fourByteInt),
   (3, "Content Type", .utf8), (8, "Response Topic", .utf8), (9, "Correlation Data", .binary),
   (11, "Subscription Identifier", .varByteInt), (17, "Session Expiry Interval", .fourByteInt),
   (18, "Assigned Client Identifier", .utf8), (19, "Server Keep Alive", .twoByteInt),
   (21, "Authentication Method", .utf8), (22, "Authentication Data", .binary),
   (23, "Request Problem Information", .byte), (24, "Will Delay Interval", .fourByteInt),
   (25, "Request Response Information", .byte), (26, "Response Information", .utf8),
   (28, "Server Reference", .utf8), (31, "Reason String", .utf8), (33, "Receive Maximum", .twoByteInt),
   (34, "Topic Alias Maximum", .twoByteInt), (35, "Topic Alias", .twoByteInt), (36, "Maximum QoS", .byte),
   (37, "Retain Available", .byte), (38, "User Property", .utf8Pair), (39, "Maximum Packet Size", .fourByteInt),
   (40, "Wildcard Subscription Available", .byte), (41, "Subscription Identifier Available", .byte),
   (42, "Shared Subscription Available", .byte)]

def propertyType (id : Nat) : Option PData := (propertyTable.find? (·.1 == id)).map (·.2.2)

/-- a property value -/
inductive PVal
  | num (n : Nat)                      -- byte / two byte / four byte / variable byte integer
  | bytes (b : List Nat)               -- UTF-8 string or binary data
  | pair (k v : List Nat)              -- UTF-8 string pair
deriving DecidableEq, Repr

structure AProp where
  id : Nat
  val : PVal
deriving DecidableEq, Repr

/-- identifier (a Variable Byte Integer; all defined identifiers are < 128) followed by the value
    in the representation Table 2-4 prescribes for that identifier -/
def encodeProp (p : AProp) : List Nat :=
  varInt p.id ++
    match propertyType p.id, p.val with
    | some .byte, .num n => [n]
    | some .twoByteInt, .num n => twoByte n
    | some .fourByteInt, .num n => fourByte n
    | some .varByteInt, .num n => varInt n
    | some .utf8, .bytes b => lenPrefixed b
    | some .binary, .bytes b => lenPrefixed b
    | some .utf8Pair, .pair k v => lenPrefixed k ++ lenPrefixed v
    | _, _ => []

def propsBytes (ps : List AProp) : List Nat := (ps.map encodeProp).flatten

/-- §2.2.2.1 Property Length (a Variable Byte Integer) followed by the properties -/
def propertiesField (ps : List AProp) : List Nat := varInt (propsBytes ps).length ++ propsBytes ps

/-- v3.1.1 has no properties (`none`) -/
def optProperties : Option (List AProp) → List Nat
  | some ps => propertiesField ps
  | none => []

/-! ## abstract packets -/

structure AWill where
  qos : Nat
  retain : Bool
  props : Option (List AProp)          -- v5.0 Will Properties
  topic : List Nat
  payload : List Nat
deriving DecidableEq, Repr

inductive APkt
  /-- §3.1: protocol level 4 / 5 -/
  | connect (level : Nat) (cleanStart : Bool) (keepAlive : Nat) (props : Option (List AProp)) (clientId : List Nat)
      (will : Option AWill) (userName : Option (List Nat)) (password : Option (List Nat))
  | connack (sessionPresent : Bool) (code : Nat) (props : Option (List AProp))
  | publish (dup : Bool) (qos : Nat) (retain : Bool) (topic : List Nat) (pid : Option Nat)
      (props : Option (List AProp)) (payload : List Nat)
  /-- PUBACK, PUBREC, PUBREL, PUBCOMP: v3.1.1 has only the id; v5.0 may omit reason code and properties -/
  | ack (t : CPType) (pid : Nat) (code : Option Nat) (props : Option (List AProp))
  | subscribe (pid : Nat) (props : Option (List AProp)) (filters : List (List Nat × Nat))
  | suback (pid : Nat) (props : Option (List AProp)) (codes : List Nat)
  | unsubscribe (pid : Nat) (props : Option (List AProp)) (filters : List (List Nat))
  | unsuback (pid : Nat) (props : Option (List AProp)) (codes : List Nat)
  | pingreq | pingresp
  | disconnect (code : Option Nat) (props : Option (List AProp))
  | auth (code : Option Nat) (props : Option (List AProp))
deriving Repr

def optByte : Option Nat → List Nat
  | some b => [b]
  | none => []

def optLenPrefixed : Option (List Nat) → List Nat
  | some b => lenPrefixed b
  | none => []

/-- §3.1.2.3 Connect Flags: bit 7 User Name, 6 Password, 5 Will Retain, 4–3 Will QoS, 2 Will Flag,
    1 Clean Start, 0 reserved (0) -/
def connectFlags (cleanStart : Bool) (will : Option AWill) (userName password : Option (List Nat)) : Nat :=
  128 * b2n userName.isSome + 64 * b2n password.isSome
    + (match will with
       | some w => 32 * b2n w.retain + 8 * w.qos + 4
       | none => 0)
    + 2 * b2n cleanStart

def willBytes : Option AWill → List Nat
  | some w => optProperties w.props ++ lenPrefixed w.topic ++ lenPrefixed w.payload
  | none => []

def APkt.type : APkt → CPType
  | .connect .. => .CONNECT | .connack .. => .CONNACK | .publish .. => .PUBLISH | .ack t .. => t
  | .subscribe .. => .SUBSCRIBE | .suback .. => .SUBACK | .unsubscribe .. => .UNSUBSCRIBE
  | .unsuback .. => .UNSUBACK | .pingreq => .PINGREQ | .pingresp => .PINGRESP
  | .disconnect .. => .DISCONNECT | .auth .. => .AUTH

/-- flags nibble of the fixed header -/
def APkt.flags : APkt → Nat
  | .publish dup qos retain .. => 8 * b2n dup + 2 * qos + b2n retain      -- §3.3.1
  | p => p.type.reservedFlags

/-- variable header and payload -/
def APkt.body (idw : Nat) : APkt → List Nat
  | .connect level cs ka props cid will user pass =>
    lenPrefixed [77, 81, 84, 84] ++ [level] ++ [connectFlags cs will user pass] ++ twoByte ka     -- "MQTT"
      ++ optProperties props ++ lenPrefixed cid ++ willBytes will ++ optLenPrefixed user ++ optLenPrefixed pass
  | .connack sp code props => [b2n sp, code] ++ optProperties props
  | .publish _ _ _ topic pid props payload =>
    lenPrefixed topic ++ (match pid with | some id => packetId idw id | none => []) ++ optProperties props ++ payload
  | .ack _ pid code props => packetId idw pid ++ optByte code ++ optProperties props
  | .subscribe pid props filters =>
    packetId idw pid ++ optProperties props ++ (filters.map fun f => lenPrefixed f.1 ++ [f.2]).flatten
  | .suback pid props codes => packetId idw pid ++ optProperties props ++ codes
  | .unsubscribe pid props filters => packetId idw pid ++ optProperties props ++ (filters.map lenPrefixed).flatten
  | .unsuback pid props codes => packetId idw pid ++ optProperties props ++ codes
  | .pingreq => [] | .pingresp => []
  | .disconnect code props => optByte code ++ optProperties props
  | .auth code props => optByte code ++ optProperties props

/-- §2.1: fixed header (type, flags, Remaining Length) then variable header and payload -/
def APkt.encode (idw : Nat) (p : APkt) : List Nat :=
  (p.type.value * 16 + p.flags) :: varInt (p.body idw).length ++ p.body idw

end MqttVerif.Spec.Wire
