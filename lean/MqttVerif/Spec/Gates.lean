import MqttVerif.Conn.Types
/-!
# Specification side of C11 / C17: who may send / receive which control packet, and when

Hand-written from the MQTT rules as quoted in `properties.jsonl` (C11, C17); nothing here
mentions a function of the connection model (`Conn/Model.lean`) — only the interface types
(`Role`, `Kind`, `Status`, `Pkt`).

MQTT v3.1.1 §3 / v5.0 §3 (direction of flow of each control packet):

| packet | sender |
|---|---|
| CONNECT, SUBSCRIBE, UNSUBSCRIBE, PINGREQ | client → server |
| CONNACK, SUBACK, UNSUBACK, PINGRESP | server → client |
| PUBLISH, PUBACK, PUBREC, PUBREL, PUBCOMP | both |
| DISCONNECT | v3.1.1: client → server only; v5.0: both |
| AUTH | v5.0 only, both |
-/
namespace MqttVerif.Spec
open MqttVerif.Conn

/-- the 29 packet types that exist: 15 kinds × {v3.1.1, v5.0} minus v3.1.1 AUTH -/
def pktExists (pver : Nat) (k : Kind) : Bool :=
  (pver == 4 || pver == 5) && !(pver == 4 && k == .auth)

/-- a packet value an application can construct: it is one of the 29 types, and a PUBLISH with
    QoS 1/2 carries a packet identifier -/
structure PktWf (p : Pkt) : Prop where
  ver : p.ver = 4 ∨ p.ver = 5
  auth : p.kind = .auth → p.ver = 5
  pubId : p.kind = .publish → p.qos > 0 → p.pid.isSome = true

instance (p : Pkt) : Decidable (PktWf p) :=
  if h : (p.ver = 4 ∨ p.ver = 5) ∧ (p.kind = .auth → p.ver = 5) ∧
         (p.kind = .publish → p.qos > 0 → p.pid.isSome = true)
  then isTrue ⟨h.1, h.2.1, h.2.2⟩ else isFalse (fun w => h ⟨w.ver, w.auth, w.pubId⟩)

/-! ## C11 — sending -/

/-- does the role include the client side / the server side of the protocol? -/
def actsAsClient : Role → Bool
  | .client => true | .server => false | .any => true
def actsAsServer : Role → Bool
  | .client => false | .server => true | .any => true

/-- direction rule: may an endpoint of this role ever send this kind (in packet version `pver`)? -/
def roleMaySend (r : Role) (k : Kind) (pver : Nat) : Bool :=
  match k with
  | .connect | .subscribe | .unsubscribe | .pingreq => actsAsClient r
  | .connack | .suback | .unsuback | .pingresp => actsAsServer r
  | .disconnect => if pver = 4 then actsAsClient r else true
  | .publish | .puback | .pubrec | .pubrel | .pubcomp | .auth => true

/-- connection-state rule.  `needStore` = the session is persistent (packets are kept for
    redelivery), `offline` = offline publishing was switched on. -/
def stateMaySend (status : Status) (k : Kind) (qos : Nat) (needStore offline : Bool) : Bool :=
  match k with
  | .connect => status == .disconnected
  | .connack => status == .connecting
  | .auth => status == .connecting || status == .connected
  | .publish =>
      status == .connected ||
      (decide (qos > 0) && needStore && (status != .disconnected || offline))
  | .pubrel => status == .connected || needStore
  | _ => status == .connected

/-- version rule: the packet's version is the connection's; a connection whose version is not
    yet determined (0) sends nothing -/
def versionMaySend (connVer pver : Nat) : Bool :=
  connVer == pver && (connVer == 4 || connVer == 5)

/-- **the C11 specification**: may this packet be passed to the transport (or be stored for
    later transmission) by an endpoint of this role, on a connection of this version, in this
    connection state? -/
def mayTransmit (role : Role) (connVer : Nat) (status : Status) (p : Pkt)
    (needStore offline : Bool) : Bool :=
  versionMaySend connVer p.ver && roleMaySend role p.kind p.ver &&
  stateMaySend status p.kind p.qos needStore offline

/-! ### the compile-time table (`checked_send`): what the design says the trait bounds admit -/

/-- `T: Sendable<Role, _>` as described in DESIGN §5 C11: Client — everything except
    CONNACK/SUBACK/UNSUBACK/PINGRESP; Server — everything except
    CONNECT/SUBSCRIBE/UNSUBSCRIBE/PINGREQ/v3.1.1 DISCONNECT; Any — everything. -/
def compileTimeOk (role : Role) (k : Kind) (pver : Nat) : Bool :=
  match role, k with
  | .any, _ => true
  | .client, .connack | .client, .suback | .client, .unsuback | .client, .pingresp => false
  | .client, _ => true
  | .server, .connect | .server, .subscribe | .server, .unsubscribe | .server, .pingreq => false
  | .server, .disconnect => pver != 4
  | .server, _ => true

def allRoles : List Role := [.client, .server, .any]
def allKinds : List Kind :=
  [.connect, .connack, .publish, .puback, .pubrec, .pubrel, .pubcomp, .subscribe, .suback,
   .unsubscribe, .unsuback, .pingreq, .pingresp, .disconnect, .auth]
def allStatuses : List Status := [.disconnected, .connecting, .connected]

/-- the 29 packet types as (kind, version), in the order of `GenericPacket`'s variants per kind -/
def allPktTypes : List (Kind × Nat) :=
  (allKinds.flatMap fun k => [(k, 4), (k, 5)]).filter fun kv => pktExists kv.2 kv.1

/-- full enumeration role × 29 packet types (87 rows) of `compileTimeOk` -/
def compileTimeTable : List (Role × Kind × Nat × Bool) :=
  allRoles.flatMap fun r => allPktTypes.map fun kv => (r, kv.1, kv.2, compileTimeOk r kv.1 kv.2)

/-! ## C17 — receiving -/

/-- control packet type nibbles -/
def tCONNECT : Nat := 1
def tCONNACK : Nat := 2
def tSUBSCRIBE : Nat := 8
def tSUBACK : Nat := 9
def tUNSUBSCRIBE : Nat := 10
def tUNSUBACK : Nat := 11
def tPINGREQ : Nat := 12
def tPINGRESP : Nat := 13
def tDISCONNECT : Nat := 14
def tAUTH : Nat := 15

/-- **the C17 gate**: may the remote side of an endpoint of this role ever send a packet with
    this type nibble under this version?  A client's peer is a server: never CONNECT, SUBSCRIBE,
    UNSUBSCRIBE, PINGREQ, and under v3.1.1 neither DISCONNECT nor AUTH.  A server's peer is a
    client: never CONNACK, SUBACK, UNSUBACK, PINGRESP, and under v3.1.1 no AUTH.  Role Any
    accepts both directions. -/
def mayReceive (role : Role) (ver : Nat) (t : Nat) : Bool :=
  match role with
  | .client =>
      !(t == tCONNECT || t == tSUBSCRIBE || t == tUNSUBSCRIBE || t == tPINGREQ ||
        (ver == 4 && (t == tDISCONNECT || t == tAUTH)))
  | .server =>
      !(t == tCONNACK || t == tSUBACK || t == tUNSUBACK || t == tPINGRESP ||
        (ver == 4 && t == tAUTH))
  | .any => true

/-- type nibbles that denote no control packet of the version: 0 (reserved), anything above 15
    (not a nibble), and 15 (AUTH) unless the version is v5.0 -/
def typeImpossible (ver : Nat) (t : Nat) : Bool :=
  t == 0 || decide (t > 15) || (t == tAUTH && ver != 5)

end MqttVerif.Spec
