/-!
# L0 — stream framing (`src/mqtt/connection/packet_builder.rs`), impl-shaped model + byte-step spec

`feed` is written like the Rust `loop { match self.state { … } }` including the bulk copy in
the payload state; `stepByte`/`runSpec` is the byte-at-a-time specification.
No imports: linked into `mqttdrv`.
-/
namespace MqttVerif.Framing

inductive RS | fixedHeader | remLen | payload
deriving DecidableEq, Repr, Inhabited

structure PB where
  st : RS := .fixedHeader
  header : List Nat := []       -- header_buf
  remaining : Nat := 0          -- remaining_length
  mult : Nat := 1               -- multiplier
  buf : List Nat := []          -- raw_buf contents (raw_buf_offset = buf.length)
deriving DecidableEq, Repr, Inhabited

def PB.reset : PB := {}

inductive Out
  | complete (fh : Nat) (data : List Nat)
  | error
deriving DecidableEq, Repr

/-- One byte through the state machine (specification-level step). -/
def stepByte (pb : PB) (b : Nat) : PB × Option Out :=
  match pb.st with
  | .fixedHeader => ({ pb with header := pb.header ++ [b], st := .remLen }, none)
  | .remLen =>
    if pb.mult = 128 * 128 * 128 ∧ b ≥ 128 then (PB.reset, some .error)
    else
      let rem := pb.remaining + (b % 128) * pb.mult
      let pb' := { pb with header := pb.header ++ [b], remaining := rem, mult := pb.mult * 128 }
      if b < 128 then
        if rem = 0 then (PB.reset, some (.complete (pb.header.headD 0) []))
        else ({ pb' with buf := [], st := .payload }, none)
      else (pb', none)
  | .payload =>
    let buf := pb.buf ++ [b]
    if pb.remaining = 1 then (PB.reset, some (.complete (pb.header.headD 0) buf))
    else ({ pb with buf := buf, remaining := pb.remaining - 1 }, none)

/-- `feed` as written in Rust: loop over states; bulk copy in the payload state.
    Returns new state, result (`none` = `Incomplete`), unread input. -/
def feedLoop : Nat → PB → List Nat → PB × Option Out × List Nat
  | 0, pb, inp => (pb, none, inp)
  | fuel + 1, pb, inp =>
    match pb.st with
    | .fixedHeader =>
      match inp with
      | [] => (pb, none, [])
      | b :: rest => feedLoop fuel { pb with header := pb.header ++ [b], st := .remLen } rest
    | .remLen =>
      match inp with
      | [] => (pb, none, [])
      | b :: rest =>
        if pb.mult = 128 * 128 * 128 ∧ b ≥ 128 then (PB.reset, some .error, rest)
        else
          let rem := pb.remaining + (b % 128) * pb.mult
          let pb' := { pb with header := pb.header ++ [b], remaining := rem, mult := pb.mult * 128 }
          if b < 128 then
            if rem = 0 then (PB.reset, some (.complete (pb.header.headD 0) []), rest)
            else feedLoop fuel { pb' with buf := [], st := .payload } rest
          else feedLoop fuel pb' rest
    | .payload =>
      let n := min pb.remaining inp.length
      if n = 0 then (pb, none, inp)
      else
        let buf := pb.buf ++ inp.take n
        if pb.remaining - n = 0 then (PB.reset, some (.complete (pb.header.headD 0) buf), inp.drop n)
        else ({ pb with buf := buf, remaining := pb.remaining - n }, none, inp.drop n)

/-- `PacketBuilder::feed` (fuel `input.length + 2`; `feedLoop_eq_spec` shows it suffices) -/
def feed (pb : PB) (inp : List Nat) : PB × Option Out × List Nat :=
  if inp = [] then (pb, none, []) else feedLoop (inp.length + 2) pb inp

/-- spec: run bytes until the first output. -/
def feedSpec : PB → List Nat → PB × Option Out × List Nat
  | pb, [] => (pb, none, [])
  | pb, b :: rest =>
    match stepByte pb b with
    | (pb', some o) => (pb', some o, rest)
    | (pb', none) => feedSpec pb' rest

/-- all outputs of a byte stream (spec level), final state -/
def runSpec : PB → List Nat → PB × List Out
  | pb, [] => (pb, [])
  | pb, b :: rest =>
    match stepByte pb b with
    | (pb', some o) => let r := runSpec pb' rest; (r.1, o :: r.2)
    | (pb', none) => runSpec pb' rest

/-- what an application does with one receive buffer: call `feed` until the buffer is
    exhausted (each call yields at most one result). -/
def feedAll : Nat → PB → List Nat → PB × List Out
  | 0, pb, _ => (pb, [])
  | fuel + 1, pb, inp =>
    if inp = [] then (pb, [])
    else
      match feed pb inp with
      | (pb', none, _) => (pb', [])     -- Incomplete: `feed` has consumed everything
      | (pb', some o, rest) => let r := feedAll fuel pb' rest; (r.1, o :: r.2)

/-- feeding a list of chunks, one after the other -/
def feedChunks : PB → List (List Nat) → PB × List Out
  | pb, [] => (pb, [])
  | pb, c :: cs =>
    let r1 := feedAll (c.length + 1) pb c
    let r2 := feedChunks r1.1 cs
    (r2.1, r1.2 ++ r2.2)

end MqttVerif.Framing
