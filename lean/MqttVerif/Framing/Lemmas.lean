import MqttVerif.Framing.Model
/-! # Helper lemmas for C09 -/
set_option linter.unusedSimpArgs false
set_option linter.unusedVariables false
namespace MqttVerif.Framing

/-- builder invariant: in the payload state at least one byte is still expected -/
def Inv (pb : PB) : Prop := pb.st = .payload → 0 < pb.remaining

theorem inv_reset : Inv PB.reset := by intro h; simp [PB.reset] at h

theorem stepByte_inv (pb : PB) (b : Nat) (h : Inv pb) : Inv (stepByte pb b).1 := by
  unfold stepByte
  cases hst : pb.st with
  | fixedHeader => intro h'; simp at h'
  | remLen =>
    simp only
    (repeat' split) <;> first | exact inv_reset | (intro h'; simp at h' ⊢; try omega)
  | payload =>
    simp only
    have := h hst
    split
    · exact inv_reset
    · intro _; simp; omega

theorem runSpec_append (pb : PB) (a b : List Nat) :
    runSpec pb (a ++ b) =
      ((runSpec (runSpec pb a).1 b).1, (runSpec pb a).2 ++ (runSpec (runSpec pb a).1 b).2) := by
  induction a generalizing pb with
  | nil => simp [runSpec]
  | cons x xs ih =>
    simp only [List.cons_append, runSpec]
    cases h : stepByte pb x with
    | mk pb' o =>
      cases o with
      | none => simp only [ih]
      | some o => simp only [ih, List.cons_append]

/-- payload state, fewer bytes than needed: the spec just accumulates them -/
theorem feedSpec_payload_partial (n : Nat) (pb : PB) (inp : List Nat)
    (hst : pb.st = .payload) (hn : n ≤ inp.length) (hr : n < pb.remaining) :
    feedSpec pb inp =
      feedSpec { pb with buf := pb.buf ++ inp.take n, remaining := pb.remaining - n } (inp.drop n) := by
  induction n generalizing pb inp with
  | zero => simp
  | succ k ih =>
    cases inp with
    | nil => simp at hn
    | cons b rest =>
      have h1 : pb.remaining ≠ 1 := by omega
      rw [feedSpec]
      simp only [stepByte, hst, h1, if_false]
      rw [ih _ rest rfl (by simpa using hn) (by simp; omega)]
      simp only [List.take_succ_cons, List.drop_succ_cons, List.append_assoc, List.singleton_append]
      congr 2
      omega

/-- payload state, enough bytes: the spec completes the frame after exactly `remaining` bytes -/
theorem feedSpec_payload_complete (pb : PB) (inp : List Nat)
    (hst : pb.st = .payload) (hr : 0 < pb.remaining) (hn : pb.remaining ≤ inp.length) :
    feedSpec pb inp =
      (PB.reset, some (.complete (pb.header.headD 0) (pb.buf ++ inp.take pb.remaining)),
       inp.drop pb.remaining) := by
  have hk : pb.remaining - 1 < pb.remaining := by omega
  rw [feedSpec_payload_partial (pb.remaining - 1) pb inp hst (by omega) hk]
  have hlen : (inp.drop (pb.remaining - 1)).length ≥ 1 := by simp; omega
  cases hd : inp.drop (pb.remaining - 1) with
  | nil => simp [hd] at hlen
  | cons b rest =>
    rw [feedSpec]
    have e1 : pb.remaining - (pb.remaining - 1) = 1 := by omega
    simp only [stepByte, hst, e1, if_true]
    have e2 : inp.take pb.remaining = inp.take (pb.remaining - 1) ++ [b] := by
      have : pb.remaining = (pb.remaining - 1) + 1 := by omega
      rw [this, List.take_succ]
      simp only [Nat.add_sub_cancel]
      congr 1
      have := congrArg List.head? hd
      simp only [List.head?_drop, List.head?_cons] at this
      simp [this]
    have e3 : inp.drop pb.remaining = rest := by
      have e : inp.drop pb.remaining = (inp.drop (pb.remaining - 1)).drop 1 := by
        rw [List.drop_drop]; congr 1; omega
      rw [e, hd]; rfl
    rw [e2, e3, List.append_assoc]

theorem feedLoop_eq_spec (fuel : Nat) (pb : PB) (inp : List Nat)
    (hinv : Inv pb) (hf : inp.length < fuel) :
    feedLoop fuel pb inp = feedSpec pb inp := by
  induction fuel generalizing pb inp with
  | zero => omega
  | succ fuel ih =>
    unfold feedLoop
    cases hst : pb.st with
    | fixedHeader =>
      simp only
      cases inp with
      | nil => simp [feedSpec]
      | cons b rest =>
        simp only
        rw [ih _ rest (by intro h; simp at h) (by simpa using hf)]
        simp [feedSpec, stepByte, hst]
    | remLen =>
      simp only
      cases inp with
      | nil => simp [feedSpec]
      | cons b rest =>
        simp only
        have hr : rest.length < fuel := by simpa using hf
        by_cases herr : pb.mult = 128 * 128 * 128 ∧ b ≥ 128
        · simp [feedSpec, stepByte, hst, herr]
        · simp only [herr, if_false]
          by_cases hb : b < 128
          · simp only [hb, if_true]
            by_cases hz : pb.remaining + b % 128 * pb.mult = 0
            · simp [feedSpec, stepByte, hst, herr, hb, hz]
            · simp only [hz, if_false]
              rw [ih _ rest (by intro _; simp; omega) hr]
              have hz' : ¬ (pb.remaining = 0 ∧ b % 128 * pb.mult = 0) := by
                intro c; exact hz (by omega)
              simp [feedSpec, stepByte, hst, herr, hb, hz']
          · simp only [hb, if_false]
            rw [ih _ rest (by intro h; simp [hst] at h) hr]
            simp [feedSpec, stepByte, hst, herr, hb]
    | payload =>
      simp only
      have hpos := hinv hst
      by_cases hn0 : min pb.remaining inp.length = 0
      · have : inp = [] := by
          cases inp with
          | nil => rfl
          | cons _ _ => simp at hn0; omega
        subst this
        simp [feedSpec]
      · simp only [hn0, if_false]
        by_cases hle : pb.remaining ≤ inp.length
        · have hmin : min pb.remaining inp.length = pb.remaining := by omega
          simp only [hmin, Nat.sub_self, if_true]
          rw [feedSpec_payload_complete pb inp hst hpos hle]
        · have hmin : min pb.remaining inp.length = inp.length := by omega
          have hne : pb.remaining - inp.length ≠ 0 := by omega
          simp only [hmin, hne, if_false]
          rw [feedSpec_payload_partial inp.length pb inp hst (Nat.le_refl _) (by omega)]
          simp [feedSpec, hst]

/-- the Rust-shaped `feed` is the byte-at-a-time specification (the fuel is sufficient) -/
theorem feed_eq_spec (pb : PB) (inp : List Nat) (hinv : Inv pb) :
    feed pb inp = feedSpec pb inp := by
  unfold feed
  split
  · rename_i h; subst h; simp [feedSpec]
  · exact feedLoop_eq_spec _ pb inp hinv (by omega)

/-- `feedSpec` consumes a prefix, returns a strictly shorter rest when the input is non-empty,
    keeps the invariant, and is one "first output" slice of `runSpec`. -/
theorem feedSpec_props (pb : PB) (inp : List Nat) (h : Inv pb) :
    Inv (feedSpec pb inp).1 ∧
    (∃ pre, inp = pre ++ (feedSpec pb inp).2.2) ∧
    (inp ≠ [] → (feedSpec pb inp).2.2.length < inp.length) ∧
    ((feedSpec pb inp).2.1 = none → (feedSpec pb inp).2.2 = [] ∧
        runSpec pb inp = ((feedSpec pb inp).1, [])) ∧
    (∀ o, (feedSpec pb inp).2.1 = some o →
        runSpec pb inp = ((runSpec (feedSpec pb inp).1 (feedSpec pb inp).2.2).1,
                          o :: (runSpec (feedSpec pb inp).1 (feedSpec pb inp).2.2).2)) := by
  induction inp generalizing pb with
  | nil => simp [feedSpec, runSpec, h]
  | cons b rest ih =>
    have hi := stepByte_inv pb b h
    simp only [feedSpec, runSpec]
    cases hs : stepByte pb b with
    | mk pb' o =>
      rw [hs] at hi
      cases o with
      | some o =>
        simp only
        exact ⟨hi, ⟨[b], rfl⟩, fun _ => by simp, fun c => by simp at c,
          fun o' ho => by simp at ho; subst ho; rfl⟩
      | none =>
        simp only
        obtain ⟨a1, ⟨pre, a2⟩, a3, a4, a5⟩ := ih pb' hi
        refine ⟨a1, ⟨b :: pre, by rw [List.cons_append, ← a2]⟩, fun _ => ?_, a4, a5⟩
        by_cases hr : rest = []
        · subst hr; simp [feedSpec]
        · have := a3 hr; simp; omega

end MqttVerif.Framing
