import MqttVerif.Alloc.Model
import MqttVerif.Framing.Model
/-!
# L2 — connection state machine (`src/mqtt/connection/core.rs`): types

L2 sees packets only through the *interface* the connection logic uses (`Pkt`): kind, version,
identifier, QoS/DUP, topic, Topic Alias, reason code, the five connection-relevant properties,
flags of CONNECT/CONNACK, and the sizes.  The byte-level codec is layer L1; the harness prints,
next to every packet, this interface view taken from the real packet's accessors.

Machine integers are `Nat`; every `u16` counter update that can overflow is modelled with an
explicit test whose failure sets the sticky `panic` field (debug-build semantics).
No imports outside the model: linked into `mqttdrv`.
-/
namespace MqttVerif.Conn
open MqttVerif

inductive Role | client | server | any
deriving DecidableEq, Repr, Inhabited

inductive Kind
  | connect | connack | publish | puback | pubrec | pubrel | pubcomp | subscribe | suback
  | unsubscribe | unsuback | pingreq | pingresp | disconnect | auth
deriving DecidableEq, Repr, Inhabited

/-- the MQTT control packet type nibble -/
def Kind.nibble : Kind → Nat
  | .connect => 1 | .connack => 2 | .publish => 3 | .puback => 4 | .pubrec => 5 | .pubrel => 6
  | .pubcomp => 7 | .subscribe => 8 | .suback => 9 | .unsubscribe => 10 | .unsuback => 11
  | .pingreq => 12 | .pingresp => 13 | .disconnect => 14 | .auth => 15

def Kind.ofNibble : Nat → Option Kind
  | 1 => some .connect | 2 => some .connack | 3 => some .publish | 4 => some .puback
  | 5 => some .pubrec | 6 => some .pubrel | 7 => some .pubcomp | 8 => some .subscribe
  | 9 => some .suback | 10 => some .unsubscribe | 11 => some .unsuback | 12 => some .pingreq
  | 13 => some .pingresp | 14 => some .disconnect | 15 => some .auth | _ => none

/-- property identifiers the connection logic looks at -/
def pSEI : Nat := 17    -- Session Expiry Interval
def pSKA : Nat := 19    -- Server Keep Alive
def pRM : Nat := 33     -- Receive Maximum
def pTAM : Nat := 34    -- Topic Alias Maximum
def pMPS : Nat := 39    -- Maximum Packet Size

/-- interface view of a packet -/
structure Pkt where
  ver : Nat                      -- 4 = v3.1.1, 5 = v5.0
  kind : Kind
  size : Nat := 0                -- `size()`; for a v5.0 PUBLISH it is *derived* (`Pkt.pubSize`)
  pid : Option Nat := none
  qos : Nat := 0
  dup : Bool := false
  retain : Bool := false
  topic : List Nat := []         -- topic name bytes (PUBLISH)
  alias : Option Nat := none     -- Topic Alias property (v5.0 PUBLISH)
  rc : Option Nat := none        -- reason code / return code byte, when present
  keepAlive : Nat := 0           -- CONNECT
  clean : Bool := false          -- CONNECT clean start / clean session
  sp : Bool := false             -- CONNACK session present
  props : List (Nat × Nat) := [] -- (id, value) of SEI/SKA/RM/TAM/MPS in packet order
  otherLen : Nat := 0            -- v5.0 PUBLISH: bytes of all properties except Topic Alias
  payloadLen : Nat := 0          -- PUBLISH
  extracted : Bool := false      -- v5.0 PUBLISH: topic_name_extracted
  tag : Nat := 0                 -- opaque fingerprint of everything else (payload, other props)
deriving DecidableEq, Repr, Inhabited

def vbiLen (n : Nat) : Nat :=
  if n < 128 then 1 else if n < 16384 then 2 else if n < 2097152 then 3 else 4

/-- `remaining_length_to_total_size` -/
def totalSize (rem : Nat) : Nat := 1 + vbiLen rem + rem

/-- size of a v5.0 PUBLISH from its parts (`recalculate_lengths` + `size()`), `pw` = id width -/
def Pkt.pubPropLen (p : Pkt) : Nat := p.otherLen + (if p.alias.isSome then 3 else 0)
def Pkt.pubRemLen (pw : Nat) (p : Pkt) : Nat :=
  2 + p.topic.length + (if p.qos > 0 then pw else 0) + vbiLen p.pubPropLen + p.pubPropLen + p.payloadLen
def Pkt.pubSize (pw : Nat) (p : Pkt) : Nat := totalSize (p.pubRemLen pw)

/-- `size()` as the connection sees it -/
def Pkt.sz (pw : Nat) (p : Pkt) : Nat :=
  if p.ver = 5 ∧ p.kind = .publish then p.pubSize pw else p.size

inductive Timer | pingreqSend | pingreqRecv | pingrespRecv
deriving DecidableEq, Repr, Inhabited

inductive Ev
  | send (p : Pkt) (rel : Option Nat)      -- RequestSendPacket
  | recv (p : Pkt)                          -- NotifyPacketReceived
  | released (id : Nat)                     -- NotifyPacketIdReleased
  | timerReset (k : Timer) (ms : Nat)       -- RequestTimerReset
  | timerCancel (k : Timer)                 -- RequestTimerCancel
  | error (e : Nat)                         -- NotifyError (MqttError discriminant)
  | close                                   -- RequestClose
deriving DecidableEq, Repr, Inhabited

inductive Status | disconnected | connecting | connected
deriving DecidableEq, Repr, Inhabited

/-- `TopicAliasSend` -/
structure TAS where
  max : Nat
  a2t : List (Nat × List Nat) := []            -- alias → topic, LRU order (front = least recent)
  t2a : List (List Nat × List Nat) := []       -- topic → aliases (a hash map: order irrelevant)
  alloc : Alloc.A
deriving DecidableEq, Repr, Inhabited

/-- `TopicAliasRecv` -/
structure TAR where
  max : Nat
  m : List (Nat × List Nat) := []              -- alias → topic (a hash map)
deriving DecidableEq, Repr, Inhabited

/-- MqttError discriminants used by the connection logic -/
def eMalformed : Nat := 0x81
def eProtocol : Nat := 0x82
def eUnsupportedVersion : Nat := 0x84
def eClientId : Nat := 0x85
def eBadUser : Nat := 0x86
def eKeepAliveTimeout : Nat := 0x8D
def eRMExceeded : Nat := 0x93
def eAliasInvalid : Nat := 0x94
def eTooLarge : Nat := 0x95
def ePidFull : Nat := 0x181
def ePidConflict : Nat := 0x182
def ePidInvalid : Nat := 0x183
def eNotAllowed : Nat := 0x184
def eNotRegulated : Nat := 0x186
def eVersionMismatch : Nat := 0x189

def noLimit : Nat := 268435461      -- MQTT_PACKET_SIZE_NO_LIMIT = 1 + 4 + 128^4

/-- compile-time configuration of a `GenericConnection<Role, PacketIdType>` -/
structure Cfg where
  role : Role
  pw : Nat                  -- bytes of a packet identifier: 2 or 4
deriving DecidableEq, Repr, Inhabited

def Cfg.idMax (c : Cfg) : Nat := 256 ^ c.pw - 1

/-- the 35 fields of `GenericConnection` (+ the sticky `panic`) -/
structure St where
  ver : Nat                                  -- protocol_version: 0 undetermined, 4, 5
  pidMan : Alloc.A                           -- pid_man (ValueAllocator 1..=MAX)
  suback : List Nat := []                    -- pid_suback
  unsuback : List Nat := []
  puback : List Nat := []
  pubrec : List Nat := []
  pubcomp : List Nat := []
  needStore : Bool := false
  store : List (Nat × Pkt) := []             -- insertion order
  offline : Bool := false
  autoPub : Bool := false
  autoPing : Bool := false
  autoMap : Bool := false
  autoReplace : Bool := false
  tar : Option TAR := none
  tas : Option TAS := none
  sendMax : Option Nat := none               -- publish_send_max
  recvMax : Option Nat := none               -- publish_recv_max
  sendCount : Nat := 0                       -- publish_send_count (u32 since fix ab9a1ec)
  publishRecv : List Nat := []
  mpsSend : Nat := noLimit
  mpsRecv : Nat := noLimit
  status : Status := .disconnected
  userInterval : Option Nat := none          -- pingreq_user_send_interval_ms
  keepAliveMs : Nat := 0
  serverKeepAliveMs : Option Nat := none
  recvTimeoutMs : Nat := 0                   -- pingreq_recv_timeout_ms
  respTimeoutMs : Nat := 0                   -- pingresp_recv_timeout_ms
  handled : List Nat := []                   -- qos2_publish_handled
  sendSet : Bool := false                    -- pingreq_send_set
  recvSet : Bool := false
  respSet : Bool := false
  pb : Framing.PB := {}
  isClient : Bool := false
  panic : Option String := none
deriving DecidableEq, Repr, Inhabited

def St.init (cfg : Cfg) (ver : Nat) : St :=
  { ver := ver, pidMan := Alloc.new 1 cfg.idMax cfg.idMax }

/-- working context of one API call: state and the events pushed so far -/
structure C where
  cfg : Cfg
  s : St
  ev : List Ev := []
deriving Repr, Inhabited

def C.push (c : C) (e : Ev) : C := { c with ev := c.ev ++ [e] }
def C.err (c : C) (e : Nat) : C := c.push (.error e)
def C.setPanic (c : C) (site : String) : C :=
  { c with s := { c.s with panic := some (c.s.panic.getD site) } }

/-- set-like lists -/
def ins (x : Nat) (l : List Nat) : List Nat := if x ∈ l then l else x :: l
def del (x : Nat) (l : List Nat) : List Nat := l.filter (· ≠ x)

end MqttVerif.Conn
