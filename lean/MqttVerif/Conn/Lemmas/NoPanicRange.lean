import MqttVerif.Conn.Lemmas.NoPanic
import MqttVerif.Conn.Lemmas.Pigeon
/-!
# C05 helper — stored identifiers stay inside the allocator's range

`SR L H (K c)`: the packet-id allocator of `c` manages `[L, H]` and every stored packet's
identifier lies in `[L, H]`.  Kept by every model function (unconditionally, except
`restore_packets`, which needs the allocator's representation invariant): an entry enters the
store only behind an `is_used_id` test (`process_send_*_publish`, `process_send_pubrel`) or a
successful `register_packet_id` (`restore_packets`), and the allocator never changes its range.

Together with "store identifiers are pairwise distinct" (`StoreInv`) this bounds the number of
stored packets by `H` (pigeonhole, `Pigeon.keys_length_le`): the `u32` counter
`publish_send_count` cannot overflow in `send_stored` when `H ≤ u32::MAX` (`Headroom`).
-/
set_option linter.unusedSimpArgs false
set_option linter.unusedVariables false
namespace MqttVerif.Conn.Rng
open MqttVerif MqttVerif.Conn

/-- what the range invariant looks at: allocator bounds and the store -/
def K (c : C) : Nat × Nat × List (Nat × Pkt) := (c.s.pidMan.lowest, c.s.pidMan.highest, c.s.store)

def SR (L H : Nat) (k : Nat × Nat × List (Nat × Pkt)) : Prop :=
  k.1 = L ∧ k.2.1 = H ∧ ∀ x ∈ k.2.2, L ≤ x.1 ∧ x.1 ≤ H

theorem SR.sub {L H l h : Nat} {st st' : List (Nat × Pkt)} (hs : SR L H (l, h, st))
    (hsub : ∀ x ∈ st', x ∈ st) : SR L H (l, h, st') :=
  ⟨hs.1, hs.2.1, fun x hx => hs.2.2 x (hsub x hx)⟩

theorem SR.nil {L H l h : Nat} {st : List (Nat × Pkt)} (hs : SR L H (l, h, st)) : SR L H (l, h, []) :=
  hs.sub (by simp)

theorem SR.add {L H l h : Nat} {st : List (Nat × Pkt)} (hs : SR L H (l, h, st)) {id : Nat} (q : Pkt)
    (hr : l ≤ id ∧ id ≤ h) : SR L H (l, h, st ++ [(id, q)]) := by
  obtain ⟨h1, h2, h3⟩ := hs
  refine ⟨h1, h2, ?_⟩
  intro x hx
  simp only [List.mem_append, List.mem_singleton] at hx
  rcases hx with hx | rfl
  · exact h3 x hx
  · simp only at h1 h2; subst h1 h2; exact hr

theorem ite_K (p : Prop) {_ : Decidable p} (a b : C) : K (if p then a else b) = if p then K a else K b :=
  apply_ite _ _ _ _
theorem ite_SR (L H : Nat) (p : Prop) {_ : Decidable p} (a b : Nat × Nat × List (Nat × Pkt)) :
    SR L H (if p then a else b) = if p then SR L H a else SR L H b := apply_ite _ _ _ _
theorem ite_fst' {α β : Type} (p : Prop) {_ : Decidable p} (a b : α × β) :
    (if p then a else b).1 = if p then a.1 else b.1 := apply_ite _ _ _ _
theorem ite_snd' {α β : Type} (p : Prop) {_ : Decidable p} (a b : α × β) :
    (if p then a else b).2 = if p then a.2 else b.2 := apply_ite _ _ _ _

/-! ## the allocator never changes its range -/

theorem dealloc_bounds (a : Alloc.A) (v : Nat) :
    (Alloc.deallocate a v).2.lowest = a.lowest ∧ (Alloc.deallocate a v).2.highest = a.highest :=
  Alloc.step_bounds a (.deallocate v)
theorem alloc_bounds (a : Alloc.A) :
    (Alloc.allocate a).2.lowest = a.lowest ∧ (Alloc.allocate a).2.highest = a.highest :=
  Alloc.step_bounds a .allocate
theorem use_bounds (a : Alloc.A) (v : Nat) :
    (Alloc.useValue a v).2.lowest = a.lowest ∧ (Alloc.useValue a v).2.highest = a.highest :=
  Alloc.step_bounds a (.useValue v)

theorem isUsed_range {s : St} {id : Nat} (h : isUsed s id = true) :
    s.pidMan.lowest ≤ id ∧ id ≤ s.pidMan.highest := by
  simp only [isUsed, Alloc.isUsed, Bool.and_eq_true, decide_eq_true_eq] at h
  exact ⟨h.1.1, h.1.2⟩

/-! ## functions that leave allocator range and store alone -/

@[simp] theorem K_push (c : C) (e : Ev) : K (c.push e) = K c := rfl
@[simp] theorem K_err (c : C) (e : Nat) : K (c.err e) = K c := rfl
@[simp] theorem K_setPanic (c : C) (x : String) : K (c.setPanic x) = K c := rfl

macro "k_tac" : tactic =>
  `(tactic| simp [K, ite_K, ite_fst', ite_snd', apply_ite C.s, apply_ite St.pidMan, apply_ite St.store,
      apply_ite Alloc.A.lowest, apply_ite Alloc.A.highest])

macro "kk" : tactic =>
  `(tactic| first
      | (simp [ite_K]; done)
      | (simp [ite_K]; simp [K]; done)
      | (simp [ite_K]; k_tac; done)
      | ((repeat' (first | split | (simp only []; split))) <;>
          first | rfl | (simp; done) | (simp; rfl) | (simp; simp [K]; done) | (simp [K]; done) | (k_tac; done)))

@[simp] theorem K_cancelTimers (c : C) : K (cancelTimers c) = K c := by unfold cancelTimers; k_tac
@[simp] theorem K_sendPostProcess (c : C) : K (sendPostProcess c) = K c := by
  rcases sendPostProcess_s_cases c with h | h <;> simp [K, h]
@[simp] theorem K_refreshPingreqRecv (c : C) : K (refreshPingreqRecv c) = K c := by
  unfold refreshPingreqRecv; k_tac
@[simp] theorem K_initConn (c : C) (b : Bool) : K (initConn c b) = K c := rfl
@[simp] theorem K_decSendCount (c : C) : K (decSendCount c) = K c := by unfold decSendCount; k_tac
@[simp] theorem K_releaseId (c : C) (id : Nat) : K (releaseId c id) = K c := by
  have := dealloc_bounds c.s.pidMan id
  unfold releaseId
  cases h : (Alloc.deallocate c.s.pidMan id).1 <;> simp [K, h, this, C.setPanic]
@[simp] theorem K_releaseIfUsed (c : C) (id : Nat) : K (releaseIfUsed c id) = K c := by
  unfold releaseIfUsed; split <;> simp
@[simp] theorem K_releaseAll (l : List Nat) : ∀ c, K (releaseAll c l) = K c := by
  induction l with
  | nil => intro c; rfl
  | cons x rest ih => intro c; rw [releaseAll, ih]; simp
@[simp] theorem K_validateTopicAlias (c : C) (ao : Option Nat) : K (validateTopicAlias c ao).2 = K c := by
  unfold validateTopicAlias; (repeat' split) <;> rfl
@[simp] theorem K_psV5Disconnect (c : C) (p : Pkt) : K (psV5Disconnect c p) = K c := by
  unfold psV5Disconnect; kk
@[simp] theorem K_psV3Disconnect (c : C) (p : Pkt) : K (psV3Disconnect c p) = K c := by
  unfold psV3Disconnect; kk
@[simp] theorem K_handleV3Error (c : C) (e : Nat) : K (handleV3Error c e) = K c := rfl
@[simp] theorem K_v5DisconnectOrClose (c : C) (p : Pkt) : K (v5DisconnectOrClose c p) = K c := by
  unfold v5DisconnectOrClose; kk
@[simp] theorem K_handleV5Error (c : C) (e : Nat) : K (handleV5Error c e) = K c := by
  unfold handleV5Error; simp
@[simp] theorem K_vErr (c : C) (e : Nat) : K (vErr c e) = K c := by unfold vErr; split <;> simp

theorem K_propsFold (f : C → Nat → Nat → C) (hf : ∀ c id v, K (f c id v) = K c) (c : C)
    (l : List (Nat × Nat)) : K (propsFold f c l) = K c := by
  induction l generalizing c with
  | nil => rfl
  | cons x rest ih => obtain ⟨i, v⟩ := x; rw [propsFold, ih, hf]

@[simp] theorem K_connectSendProp (c : C) (id v : Nat) : K (connectSendProp c id v) = K c := by
  unfold connectSendProp; (repeat' split) <;> rfl
@[simp] theorem K_connackSendProp (c : C) (id v : Nat) : K (connackSendProp c id v) = K c := by
  unfold connackSendProp; (repeat' split) <;> rfl
@[simp] theorem K_connectRecvProp (c : C) (id v : Nat) : K (connectRecvProp c id v) = K c := by
  unfold connectRecvProp; (repeat' split) <;> rfl
@[simp] theorem K_fold_connectSendProp (c : C) (l : List (Nat × Nat)) :
    K (propsFold connectSendProp c l) = K c := K_propsFold _ K_connectSendProp c l
@[simp] theorem K_fold_connackSendProp (c : C) (l : List (Nat × Nat)) :
    K (propsFold connackSendProp c l) = K c := K_propsFold _ K_connackSendProp c l
@[simp] theorem K_fold_connectRecvProp (c : C) (l : List (Nat × Nat)) :
    K (propsFold connectRecvProp c l) = K c := K_propsFold _ K_connectRecvProp c l

@[simp] theorem K_tasInsert (c : C) (t : List Nat) (a : Nat) (x : String) : K (tasInsert c t a x) = K c := by
  unfold tasInsert; (repeat' split) <;> rfl
@[simp] theorem K_autoAlias (c : C) (p : Pkt) : K (autoAlias c p).1 = K c := by
  unfold autoAlias; kk
@[simp] theorem K_psV5PublishTail (c : C) (p : Pkt) (r : Option Nat) : K (psV5PublishTail c p r) = K c := by
  unfold psV5PublishTail; kk
@[simp] theorem K_psV3Simple (c : C) (p : Pkt) : K (psV3Simple c p) = K c := by
  unfold psV3Simple; kk
@[simp] theorem K_psV5Simple (c : C) (p : Pkt) : K (psV5Simple c p) = K c := by
  unfold psV5Simple; kk
@[simp] theorem K_psV5Puback (c : C) (p : Pkt) : K (psV5Puback c p) = K c := by
  unfold psV5Puback; kk
@[simp] theorem K_psV5Pubrec (c : C) (p : Pkt) : K (psV5Pubrec c p) = K c := by
  unfold psV5Pubrec; kk
@[simp] theorem K_psV5Pubcomp (c : C) (p : Pkt) : K (psV5Pubcomp c p) = K c := K_psV5Puback c p
@[simp] theorem K_psPingreq (c : C) (p : Pkt) : K (psPingreq c p) = K c := by
  unfold psPingreq; kk
@[simp] theorem K_psV5Auth (c : C) (p : Pkt) : K (psV5Auth c p) = K c := by
  unfold psV5Auth; kk
@[simp] theorem K_psSubUnsub (c : C) (p : Pkt) : K (psSubUnsub c p) = K c := by
  unfold psSubUnsub; kk
@[simp] theorem K_refuseSend (c : C) (e : Nat) (p : Pkt) : K (refuseSend c e p) = K c := by
  unfold refuseSend; kk


/-! ## functions that shrink the store -/

theorem K_eq (c : C) : K c = (c.s.pidMan.lowest, c.s.pidMan.highest, c.s.store) := rfl

theorem sr_of_sub {L H : Nat} {c c' : C} (h : SR L H (K c))
    (h1 : c'.s.pidMan.lowest = c.s.pidMan.lowest) (h2 : c'.s.pidMan.highest = c.s.pidMan.highest)
    (h3 : ∀ x ∈ c'.s.store, x ∈ c.s.store) : SR L H (K c') := by
  rw [K_eq, h1, h2]; exact SR.sub h h3

theorem sr_clearStoreRelated {L H : Nat} {c : C} (h : SR L H (K c)) : SR L H (K (clearStoreRelated c)) :=
  sr_of_sub h rfl rfl (by simp [clearStoreRelated])

theorem K_sendStoredLoop (l : List (Nat × Pkt)) : ∀ c, K (sendStoredLoop c l).1 = K c := by
  induction l with
  | nil => intro c; rfl
  | cons x rest ih =>
    intro c
    obtain ⟨id, p⟩ := x
    rw [sendStoredLoop]
    split
    · simp only []; rw [ih]; simp; rfl
    · simp only []; rw [ih]; kk

theorem sendStoredLoop_sub (l : List (Nat × Pkt)) : ∀ c, (sendStoredLoop c l).2.Sublist l := by
  induction l with
  | nil => intro c; exact List.Sublist.refl _
  | cons x rest ih =>
    intro c
    obtain ⟨id, p⟩ := x
    rw [sendStoredLoop]
    split
    · exact (ih _).cons _
    · exact (ih _).cons_cons _

theorem sr_sendStored {L H : Nat} {c : C} (h : SR L H (K c)) : SR L H (K (sendStored c)) := by
  let c1 : C := if c.s.sendMax.isSome then { c with s := { c.s with sendCount := 0 } } else c
  have e : K c1 = K c := by simp only [c1]; kk
  have e1 : K (sendStoredLoop c1 c1.s.store).1 = K c := (K_sendStoredLoop _ _).trans e
  have hs : (sendStoredLoop c1 c1.s.store).2.Sublist c.s.store := by
    have : c1.s.store = c.s.store := congrArg (·.2.2) e
    rw [← this]; exact sendStoredLoop_sub _ _
  have p1 : (sendStored c).s.pidMan = (sendStoredLoop c1 c1.s.store).1.s.pidMan := rfl
  have p2 : (sendStored c).s.store = (sendStoredLoop c1 c1.s.store).2 := rfl
  simp only [K_eq, Prod.mk.injEq] at e1
  exact sr_of_sub h (by rw [p1]; exact e1.1) (by rw [p1]; exact e1.2.1) (fun x hx => hs.subset (p2 ▸ hx))

theorem sr_resendStored {L H : Nat} {c : C} (h : SR L H (K c)) : SR L H (K (resendStored c)) :=
  resendStored_ind (Q := fun x => SR L H (K x)) c (sr_sendStored h) (fun h' => by rw [K_sendPostProcess]; exact h')

theorem mem_erase' {k : Nat} {l : List (Nat × Pkt)} {x : Nat × Pkt} (h : x ∈ erase k l) : x ∈ l :=
  (List.mem_filter.1 h).1
theorem mem_storeErase {v : Nat} {r : Kind} {k : Nat} {l : List (Nat × Pkt)} {x : Nat × Pkt}
    (h : x ∈ storeErase v r k l) : x ∈ l := storeErase_sub.subset h
theorem mem_storeErasePublish {k : Nat} {l : List (Nat × Pkt)} {x : Nat × Pkt}
    (h : x ∈ (storeErasePublish k l).2) : x ∈ l := by
  unfold storeErasePublish at h
  (repeat' split at h) <;> first | exact h | exact mem_erase' h

/-- the only way into the store: `store.add`, behind a range fact -/
theorem sr_storeAdd {L H : Nat} {c : C} (h : SR L H (K c)) {id : Nat} (q : Pkt) (x : String)
    (hr : c.s.pidMan.lowest ≤ id ∧ id ≤ c.s.pidMan.highest) : SR L H (K (storeAdd c id q x)) := by
  unfold storeAdd
  split
  · exact h
  · exact SR.add h q hr

theorem sr_storeAdd_used {L H : Nat} {c : C} (h : SR L H (K c)) {id : Nat} (q : Pkt) (x : String)
    (hu : isUsed c.s id = true) : SR L H (K (storeAdd c id q x)) :=
  sr_storeAdd h q x (isUsed_range hu)

theorem K_storeAdd_bounds (c : C) (id : Nat) (q : Pkt) (x : String) :
    (storeAdd c id q x).s.pidMan = c.s.pidMan := by
  unfold storeAdd; split <;> rfl

theorem sr_upd {L H : Nat} {c : C} (h : SR L H (K c)) (c' : C) (e : K c' = K c := by rfl) : SR L H (K c') := by
  rw [e]; exact h


/-! ## the send side -/

macro "sr_tac" : tactic =>
  `(tactic| (simp_all [ite_K, ite_SR, sr_clearStoreRelated, sr_sendStored, sr_resendStored]))

/-- close `SR L H (K e)` from `h : SR L H (K c)` where `K e` reduces to `K c` -/
macro "sr_close" h:ident : tactic =>
  `(tactic| first
      | exact $h
      | exact sr_upd $h _
      | (simp [ite_K]; first | exact $h | exact sr_upd $h _ | (simpa [K] using $h))
      | (simpa [K] using $h))

/-- close `SR L H (K e)` where `K e` reduces (by the `K_` lemmas, splitting ifs) to `K c1` -/
macro "kk_sr" h:ident : tactic =>
  `(tactic| ((repeat' (first | split | (simp only []; split))) <;>
      sr_close $h))

macro "sr_split" : tactic => `(tactic| (repeat' (first | split | (simp only []; split))))

theorem sr_psV3Connect {L H : Nat} {c : C} (h : SR L H (K c)) (p : Pkt) : SR L H (K (psV3Connect c p)) := by
  unfold psV3Connect
  split
  · sr_close h
  · simp only [K_sendPostProcess, K_push]
    split
    · exact sr_upd (sr_clearStoreRelated (c := initConn c true) (by sr_close h)) _
    · exact h

theorem sr_psV5Connect {L H : Nat} {c : C} (h : SR L H (K c)) (p : Pkt) : SR L H (K (psV5Connect c p)) := by
  unfold psV5Connect
  split
  · sr_close h
  split
  · sr_close h
  · simp only [K_sendPostProcess, K_push, K_fold_connectSendProp]
    split
    · exact sr_upd (sr_clearStoreRelated (c := initConn c true) (by sr_close h)) _
    · exact h

theorem sr_connackTail {L H : Nat} {c : C} (h : SR L H (K c)) (p : Pkt) :
    SR L H (K (sendPostProcess (if p.sp then sendStored c else clearStoreRelated c))) := by
  rw [K_sendPostProcess]
  split
  · exact sr_sendStored h
  · exact sr_clearStoreRelated h

theorem sr_psV3Connack {L H : Nat} {c : C} (h : SR L H (K c)) (p : Pkt) : SR L H (K (psV3Connack c p)) := by
  unfold psV3Connack
  split
  · sr_close h
  · simp only []
    split
    · simp only [K_push, K_cancelTimers]; exact h
    · exact sr_connackTail (c := { (c.push (.send p none)) with s := { c.s with status := .connected } }) h p

theorem sr_psV5Connack {L H : Nat} {c : C} (h : SR L H (K c)) (p : Pkt) : SR L H (K (psV5Connack c p)) := by
  unfold psV5Connack
  split
  · sr_close h
  split
  · sr_close h
  · simp only []
    have h1 : SR L H (K (if p.rc = some 0 then propsFold connackSendProp c p.props else c)) := by
      split
      · rw [K_fold_connackSendProp]; exact h
      · exact h
    generalize (if p.rc = some 0 then propsFold connackSendProp c p.props else c) = c1 at h1
    split
    · simp only [K_push, K_cancelTimers]; exact h1
    · exact sr_connackTail (c := { (c1.push (.send p none)) with s := { c1.s with status := .connected } }) h1 p


theorem sr_psV3Publish {L H : Nat} {c : C} (h : SR L H (K c)) (p : Pkt) : SR L H (K (psV3Publish c p)) := by
  unfold psV3Publish
  split
  · split
    · sr_close h
    · rename_i id _
      split
      · sr_close h
      split
      · sr_close h
      · rename_i hu
        have hu' : isUsed c.s id = true := by sr_close hu
        simp only []
        have h1 : SR L H (K (if willStore c.s = true then
            storeAdd c id { p with dup := true } "core.rs:process_send_v3_1_1_publish:store.add().unwrap()" else c)) := by
          split
          · exact sr_storeAdd_used h _ _ hu'
          · exact h
        generalize (if willStore c.s = true then
            storeAdd c id { p with dup := true } "core.rs:process_send_v3_1_1_publish:store.add().unwrap()" else c) = c1 at h1
        kk_sr h1
  · split
    · sr_close h
    · sr_close h


theorem sr_pubRefuseCleanup {L H : Nat} {c : C} (h : SR L H (K c)) (pid : Option Nat) :
    SR L H (K (pubRefuseCleanup c pid)) := by
  unfold pubRefuseCleanup
  split
  · exact h
  · rename_i id
    split
    · simp only [K_push]
      have h1 : SR L H (K (releaseId c id)) := by sr_close h
      exact sr_of_sub h1 rfl rfl (fun x hx => mem_storeErasePublish hx)
    · exact h

theorem sr_psV5PublishAlias {L H : Nat} {c : C} (h : SR L H (K c)) (p : Pkt) (rel : Option Nat) (v : Bool) :
    SR L H (K (psV5PublishAlias c p rel v)) := by
  unfold psV5PublishAlias
  (repeat' (first | split | (simp only []; split))) <;>
    first
    | (apply sr_pubRefuseCleanup; sr_close h)
    | (sr_close h)

theorem sr_psV5Publish {L H : Nat} {c : C} (h : SR L H (K c)) (p : Pkt) : SR L H (K (psV5Publish c p)) := by
  unfold psV5Publish
  split
  · split <;> sr_close h
  split
  · split
    · sr_close h
    · rename_i id _
      split
      · sr_close h
      split
      · sr_close h
      · rename_i hu
        have hu' : isUsed c.s id = true := by sr_close hu
        split
        · split
          · simp only []
            split
            · sr_close h
            · rename_i t _
              apply sr_psV5PublishAlias
              have hv : K (validateTopicAlias c p.alias).2 = K c := K_validateTopicAlias c p.alias
              generalize (validateTopicAlias c p.alias).2 = c1 at hv ⊢
              have hu1 : c1.s.pidMan.lowest ≤ id ∧ id ≤ c1.s.pidMan.highest := by
                have := isUsed_range hu'
                simp only [K_eq, Prod.mk.injEq] at hv
                rw [hv.1, hv.2.1]; exact this
              have h1 : SR L H (K c1) := by rw [hv]; exact h
              have h2 : SR L H (K (if hasWildcard t = true then
                  c1.setPanic "core.rs:process_send_v5_0_publish:remove_topic_alias_add_topic().unwrap()" else c1)) := by
                split <;> sr_close h1
              have hb : (if hasWildcard t = true then
                  c1.setPanic "core.rs:process_send_v5_0_publish:remove_topic_alias_add_topic().unwrap()" else c1).s.pidMan
                    = c1.s.pidMan := by split <;> rfl
              generalize (if hasWildcard t = true then
                  c1.setPanic "core.rs:process_send_v5_0_publish:remove_topic_alias_add_topic().unwrap()" else c1) = c2 at h2 hb
              have h3 := sr_storeAdd h2 { p with topic := t, alias := none, dup := true }
                "core.rs:process_send_v5_0_publish:store.add().unwrap()" (id := id) (by rw [hb]; exact hu1)
              kk_sr h3
          · apply sr_psV5PublishAlias
            have h3 := sr_storeAdd_used h { p with alias := none, dup := true }
                "core.rs:process_send_v5_0_publish:store.add().unwrap()" hu'
            kk_sr h3
        · apply sr_psV5PublishAlias
          kk_sr h
  · split
    · sr_close h
    · exact sr_psV5PublishAlias h _ _ _

theorem sr_psPubrel {L H : Nat} {c : C} (h : SR L H (K c)) (p : Pkt) : SR L H (K (psPubrel c p)) := by
  unfold psPubrel
  split
  · sr_close h
  split
  · sr_close h
  · simp only []
    split
    · sr_close h
    · rename_i hu
      have hu' : isUsed c.s (p.pid.getD 0) = true := by sr_close hu
      have h1 : SR L H (K (if c.s.needStore = true then
          storeAdd c (p.pid.getD 0) p "core.rs:process_send_pubrel:store.add().unwrap()" else c)) := by
        split
        · exact sr_storeAdd_used h _ _ hu'
        · exact h
      generalize (if c.s.needStore = true then
          storeAdd c (p.pid.getD 0) p "core.rs:process_send_pubrel:store.add().unwrap()" else c) = c1 at h1
      kk_sr h1

theorem sr_processSend {L H : Nat} {c : C} (h : SR L H (K c)) (p : Pkt) : SR L H (K (processSend c p)) := by
  unfold processSend
  by_cases hv : p.ver = 4 <;> cases hk : p.kind <;> simp only [hv, if_true, if_false] <;>
    first
    | exact sr_psV3Connect h p
    | exact sr_psV5Connect h p
    | exact sr_psV3Connack h p
    | exact sr_psV5Connack h p
    | exact sr_psV3Publish h p
    | exact sr_psV5Publish h p
    | exact sr_psPubrel h p
    | exact h
    | (sr_close h)

theorem sr_send {L H : Nat} {c : C} (h : SR L H (K c)) (p : Pkt) : SR L H (K (send c p)) := by
  unfold send
  split
  · sr_close h
  split
  · sr_close h
  · exact sr_processSend h p


end MqttVerif.Conn.Rng
