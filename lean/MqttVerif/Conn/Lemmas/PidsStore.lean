import MqttVerif.Conn.Lemmas.PidsInv
/-!
# Helper lemmas for C08 — part 8: store ids stay pairwise distinct (unconditionally)
-/
set_option linter.unusedSimpArgs false
set_option linter.unusedVariables false
namespace MqttVerif.Conn
open MqttVerif

/-- the function leaves the store alone -/
abbrev SS (c c' : C) : Prop := c'.s.store = c.s.store

@[simp] theorem setPanic_store (c : C) (x : String) : (c.setPanic x).s.store = c.s.store := by cases c; rfl

macro "store_tac" : tactic => `(tactic| simp [SS, ite_s, ite_store, ite_fst, ite_snd])

@[simp] theorem cancelTimers_ss (c : C) : SS c (cancelTimers c) := by unfold cancelTimers; store_tac
@[simp] theorem sendPostProcess_ss (c : C) : SS c (sendPostProcess c) := by unfold sendPostProcess; store_tac
@[simp] theorem refreshPingreqRecv_ss (c : C) : SS c (refreshPingreqRecv c) := by unfold refreshPingreqRecv; store_tac
@[simp] theorem initConn_ss (c : C) (b : Bool) : SS c (initConn c b) := by unfold initConn; store_tac
@[simp] theorem validateTopicAlias_ss (c : C) (ao : Option Nat) : SS c (validateTopicAlias c ao).2 := by
  unfold validateTopicAlias; (repeat' split) <;> store_tac
@[simp] theorem decSendCount_ss (c : C) : SS c (decSendCount c) := by unfold decSendCount; store_tac
@[simp] theorem psV5Disconnect_ss (c : C) (p : Pkt) : SS c (psV5Disconnect c p) := by unfold psV5Disconnect; store_tac
@[simp] theorem psV3Disconnect_ss (c : C) (p : Pkt) : SS c (psV3Disconnect c p) := by unfold psV3Disconnect; store_tac
@[simp] theorem handleV3Error_ss (c : C) (e : Nat) : SS c (handleV3Error c e) := by unfold handleV3Error; store_tac
@[simp] theorem v5DisconnectOrClose_ss (c : C) (p : Pkt) : SS c (v5DisconnectOrClose c p) := by
  unfold v5DisconnectOrClose; store_tac
@[simp] theorem handleV5Error_ss (c : C) (e : Nat) : SS c (handleV5Error c e) := by unfold handleV5Error; store_tac
@[simp] theorem vErr_ss (c : C) (e : Nat) : SS c (vErr c e) := by unfold vErr; store_tac

theorem propsFold_ss (f : C → Nat → Nat → C) (hf : ∀ c id v, SS c (f c id v)) (c : C)
    (l : List (Nat × Nat)) : SS c (propsFold f c l) := by
  induction l generalizing c with
  | nil => rfl
  | cons x rest ih => exact (ih _).trans (hf c x.1 x.2)

@[simp] theorem connectSendProp_ss (c : C) (id v : Nat) : SS c (connectSendProp c id v) := by
  unfold connectSendProp; store_tac
@[simp] theorem connackSendProp_ss (c : C) (id v : Nat) : SS c (connackSendProp c id v) := by
  unfold connackSendProp; store_tac
@[simp] theorem connectRecvProp_ss (c : C) (id v : Nat) : SS c (connectRecvProp c id v) := by
  unfold connectRecvProp; store_tac
@[simp] theorem propsFold_connectSendProp_ss (c : C) (l : List (Nat × Nat)) :
    SS c (propsFold connectSendProp c l) := propsFold_ss _ connectSendProp_ss c l
@[simp] theorem propsFold_connackSendProp_ss (c : C) (l : List (Nat × Nat)) :
    SS c (propsFold connackSendProp c l) := propsFold_ss _ connackSendProp_ss c l
@[simp] theorem propsFold_connectRecvProp_ss (c : C) (l : List (Nat × Nat)) :
    SS c (propsFold connectRecvProp c l) := propsFold_ss _ connectRecvProp_ss c l

@[simp] theorem tasInsert_ss (c : C) (t : List Nat) (a : Nat) (x : String) : SS c (tasInsert c t a x) := by
  unfold tasInsert; (repeat' split) <;> store_tac
@[simp] theorem autoAlias_ss (c : C) (p : Pkt) : SS c (autoAlias c p).1 := by
  unfold autoAlias; (repeat' split) <;> store_tac
@[simp] theorem psV5PublishTail_ss (c : C) (p : Pkt) (r : Option Nat) : SS c (psV5PublishTail c p r) := by
  unfold psV5PublishTail; store_tac
@[simp] theorem psV3Simple_ss (c : C) (p : Pkt) : SS c (psV3Simple c p) := by unfold psV3Simple; store_tac
@[simp] theorem psV5Simple_ss (c : C) (p : Pkt) : SS c (psV5Simple c p) := by unfold psV5Simple; store_tac
@[simp] theorem psV5Puback_ss (c : C) (p : Pkt) : SS c (psV5Puback c p) := by unfold psV5Puback; store_tac
@[simp] theorem psV5Pubrec_ss (c : C) (p : Pkt) : SS c (psV5Pubrec c p) := by unfold psV5Pubrec; store_tac
@[simp] theorem psV5Pubcomp_ss (c : C) (p : Pkt) : SS c (psV5Pubcomp c p) := by unfold psV5Pubcomp; store_tac
@[simp] theorem psPingreq_ss (c : C) (p : Pkt) : SS c (psPingreq c p) := by unfold psPingreq; store_tac
@[simp] theorem psV5Auth_ss (c : C) (p : Pkt) : SS c (psV5Auth c p) := by unfold psV5Auth; store_tac
@[simp] theorem prV3Publish_ss (c : C) (x : Except Nat Pkt) : SS c (prV3Publish c x) := by
  unfold prV3Publish; (repeat' split) <;> store_tac
@[simp] theorem prV5PublishAlias_ss (c : C) (p : Pkt) : SS c (prV5PublishAlias c p).1 := by
  unfold prV5PublishAlias; (repeat' split) <;> store_tac
@[simp] theorem prV5Publish_ss (c : C) (x : Except Nat Pkt) : SS c (prV5Publish c x) := by
  unfold prV5Publish
  split
  · store_tac
  · have h := prV5PublishAlias_ss c ‹Pkt›
    generalize prV5PublishAlias c ‹Pkt› = r at h ⊢
    obtain ⟨c1, o⟩ := r
    cases o with
    | none => exact h
    | some p' =>
      refine Eq.trans ?_ h
      store_tac
@[simp] theorem prPubrel_ss (c : C) (x : Except Nat Pkt) : SS c (prPubrel c x) := by
  unfold prPubrel; (repeat' split) <;> store_tac
@[simp] theorem prPlain_ss (c : C) (x : Except Nat Pkt) : SS c (prPlain c x) := by
  unfold prPlain; (repeat' split) <;> store_tac
@[simp] theorem prPingreq_ss (c : C) (x : Except Nat Pkt) : SS c (prPingreq c x) := by
  unfold prPingreq; (repeat' split) <;> store_tac
@[simp] theorem prPingresp_ss (c : C) (x : Except Nat Pkt) : SS c (prPingresp c x) := by
  unfold prPingresp; (repeat' split) <;> store_tac
@[simp] theorem prDisconnect_ss (c : C) (x : Except Nat Pkt) : SS c (prDisconnect c x) := by
  unfold prDisconnect; (repeat' split) <;> store_tac
@[simp] theorem notifyTimerFired_ss (c : C) (k : Timer) : SS c (notifyTimerFired c k) := by
  unfold notifyTimerFired; (repeat' split) <;> store_tac
@[simp] theorem setPingreqSendInterval_ss (c : C) (d : Option Nat) : SS c (setPingreqSendInterval c d) := by
  unfold setPingreqSendInterval; (repeat' split) <;> store_tac
@[simp] theorem releaseId_ss (c : C) (id : Nat) : SS c (releaseId c id) := by
  cases h : (Alloc.deallocate c.s.pidMan id).1 <;> simp [releaseId, h, SS]
@[simp] theorem releaseIfUsed_ss (c : C) (id : Nat) : SS c (releaseIfUsed c id) := by
  unfold releaseIfUsed; store_tac
@[simp] theorem refuseSend_ss (c : C) (e : Nat) (p : Pkt) : SS c (refuseSend c e p) := by
  unfold refuseSend; split <;> store_tac
@[simp] theorem psSubUnsub_ss (c : C) (p : Pkt) : SS c (psSubUnsub c p) := by
  unfold psSubUnsub; store_tac

@[simp] theorem releasePacketId_ss (c : C) (id : Nat) : SS c (releasePacketId c id) :=
  releasePacketId_ind (Q := fun c' => SS c c') c id (releaseIfUsed_ss c id) (fun h => h)
    (fun h => (decSendCount_ss _).trans h)

theorem releaseAll_ss (l : List Nat) : ∀ c, SS c (releaseAll c l) := by
  induction l with
  | nil => intro c; rfl
  | cons x rest ih => intro c; rw [releaseAll]; exact (ih _).trans (releaseIfUsed_ss c x)

/-- store keys pairwise distinct -/
def KN (l : List (Nat × Pkt)) : Prop := (l.map (·.1)).Nodup

theorem KN_nil : KN [] := List.nodup_nil

theorem KN.sublist {l l' : List (Nat × Pkt)} (h : KN l) (hs : l'.Sublist l) : KN l' :=
  List.Pairwise.sublist (hs.map _) h

theorem KN_erase {l : List (Nat × Pkt)} (h : KN l) (k : Nat) : KN (erase k l) :=
  h.sublist List.filter_sublist

theorem KN_storeErase {l : List (Nat × Pkt)} (h : KN l) (v : Nat) (r : Kind) (k : Nat) :
    KN (storeErase v r k l) := by
  unfold storeErase; (repeat' split) <;> first | exact h | exact KN_erase h k

theorem KN_storeErasePublish {l : List (Nat × Pkt)} (h : KN l) (k : Nat) :
    KN (storeErasePublish k l).2 := by
  unfold storeErasePublish; (repeat' split) <;> first | exact h | exact KN_erase h k

theorem KN_add {l : List (Nat × Pkt)} (h : KN l) (id : Nat) (p : Pkt) :
    KN (if storeHas id l = true then l else l ++ [(id, p)]) := by
  split
  · exact h
  · rename_i hn
    unfold KN at *
    rw [List.map_append, List.nodup_append]
    refine ⟨h, by simp, ?_⟩
    intro a ha b hb e
    simp only [List.map_cons, List.map_nil, List.mem_singleton] at hb
    subst hb e
    apply hn
    simp only [storeHas, List.any_eq_true, decide_eq_true_eq]
    obtain ⟨x, hx, rfl⟩ := List.mem_map.1 ha
    exact ⟨x, hx, rfl⟩

theorem storeAdd_store (c : C) (id : Nat) (p : Pkt) (x : String) :
    (storeAdd c id p x).s.store = if storeHas id c.s.store = true then c.s.store else c.s.store ++ [(id, p)] := by
  unfold storeAdd; split <;> simp

@[simp] theorem clearStoreRelated_store (c : C) : (clearStoreRelated c).s.store = [] := by cases c; rfl

theorem sendStoredLoop_store (l : List (Nat × Pkt)) : ∀ c, (sendStoredLoop c l).1.s.store = c.s.store := by
  induction l with
  | nil => intro c; rfl
  | cons x rest ih =>
    intro c
    obtain ⟨id, p⟩ := x
    rw [sendStoredLoop]
    split
    · simp only []; rw [ih]; store_tac
    · simp only []; rw [ih]; store_tac

theorem sendStoredLoop_sublist (l : List (Nat × Pkt)) : ∀ c, (sendStoredLoop c l).2.Sublist l := by
  induction l with
  | nil => intro c; exact List.Sublist.refl _
  | cons x rest ih =>
    intro c
    obtain ⟨id, p⟩ := x
    rw [sendStoredLoop]
    split
    · exact (ih _).cons _
    · exact (ih _).cons_cons _

theorem sendStored_kn {c : C} (h : KN c.s.store) : KN (sendStored c).s.store := by
  rw [sendStored_eq]
  have e : (ssReset c).s.store = c.s.store := by unfold ssReset; store_tac
  show KN (sendStoredLoop (ssReset c) (ssReset c).s.store).2
  rw [e]
  exact h.sublist (sendStoredLoop_sublist _ _)

/-! ## `restore_packets` keeps the ownership invariant (finding #24 fixed) -/

theorem mem_ins {x a : Nat} {l : List Nat} : x ∈ ins a l ↔ (x = a ∨ x ∈ l) := by
  unfold ins; split <;> simp_all

theorem restoreOne_inv {c : C} (h : Wf c) (i : PidInv c.s) (p : Pkt) : PidInv (restoreOne c p).s := by
  unfold restoreOne
  split
  · exact i
  · simp only []
    obtain ⟨i1, i2, i3⟩ := i
    obtain ⟨_, _, u⟩ := h.2.w.use (p.pid.getD 0)
    have u' : ∀ x, isUsed (register c (p.pid.getD 0)).2.s x = true ↔
        (isUsed c.s x = true ∨ ((register c (p.pid.getD 0)).1 = true ∧ x = p.pid.getD 0)) := u
    split
    · rename_i hr
      -- the id is now in use; it enters one wait set and (if absent) the store
      have hused : ∀ x, (x = p.pid.getD 0 ∨ isUsed c.s x = true) →
          isUsed (register c (p.pid.getD 0)).2.s x = true := by
        intro x hx
        rcases hx with hx | hx
        · exact (u' x).2 (Or.inr ⟨hr, hx⟩)
        · exact (u' x).2 (Or.inl hx)
      refine ⟨?_, ?_, ?_⟩
      · intro x hx
        have : x = p.pid.getD 0 ∨ x ∈ waitIds c.s := by
          revert hx
          by_cases hk : p.kind = .pubrel <;> by_cases hq : p.qos = 2 <;>
            simp only [hk, hq, if_true, if_false, waitIds, register, ite_s, ite_suback, ite_unsuback,
              ite_puback, ite_pubrec, ite_pubcomp, List.mem_append, mem_ins, apply_ite St.suback] <;>
            (repeat' split) <;> simp only [waitIds, List.mem_append, mem_ins] <;> grind
        have hu : isUsed (register c (p.pid.getD 0)).2.s x = true :=
          hused x (this.imp id (i1 x))
        rw [← hu]
        apply isUsed_congr
        (repeat' split) <;> rfl
      · intro x hx
        have : x.1 = p.pid.getD 0 ∨ x ∈ c.s.store := by
          revert hx
          (repeat' split) <;> simp only [register, List.mem_append, List.mem_singleton] <;> grind
        have hu : isUsed (register c (p.pid.getD 0)).2.s x.1 = true :=
          hused x.1 (this.imp id (i2 x))
        rw [← hu]
        apply isUsed_congr
        (repeat' split) <;> rfl
      · have k := KN_add (l := c.s.store) i3 (p.pid.getD 0) p
        unfold KN at k
        (repeat' split) <;> simp_all [register]
    · refine ⟨fun x hx => (u' x).2 (Or.inl (i1 x hx)), fun x hx => (u' x.1).2 (Or.inl (i2 x hx)), i3⟩

theorem restorePackets_inv (ps : List Pkt) : ∀ c, Wf c → PidInv c.s → PidInv (restorePackets c ps).s := by
  induction ps with
  | nil => intro c _ i; exact i
  | cons p rest ih =>
    intro c h i
    rw [restorePackets]
    exact ih _ (restoreOne_grow h p).wf (restoreOne_inv h i p)

/-! ## store ids stay pairwise distinct under every model function -/

theorem resendStored_kn {c : C} (h : KN c.s.store) : KN (resendStored c).s.store :=
  resendStored_ind (Q := fun x => KN x.s.store) c (sendStored_kn h)
    (fun h' => by rw [sendPostProcess_ss]; exact h')

theorem ite_KN (p : Prop) {_ : Decidable p} (a b : List (Nat × Pkt)) :
    KN (if p then a else b) = if p then KN a else KN b := apply_ite _ _ _ _

theorem KN_add' {l : List (Nat × Pkt)} (h : KN l) (id : Nat) (p : Pkt) (hn : storeHas id l = false) :
    KN (l ++ [(id, p)]) := by
  have := KN_add h id p
  simpa [hn] using this

macro "kn_tac" : tactic =>
  `(tactic| simp_all [ite_s, ite_store, ite_fst, ite_snd, ite_KN, storeAdd_store, KN_nil, KN_add, KN_add', KN_erase,
      KN_storeErase, KN_storeErasePublish, sendStored_kn, resendStored_kn])

theorem storeAdd_kn {c : C} (h : KN c.s.store) (id : Nat) (p : Pkt) (x : String) :
    KN (storeAdd c id p x).s.store := by
  rw [storeAdd_store]; exact KN_add h id p

theorem psV3Connect_kn {c : C} (h : KN c.s.store) (p : Pkt) : KN (psV3Connect c p).s.store := by
  unfold psV3Connect; (repeat' (first | split | (simp only []; split))) <;> kn_tac
theorem psV5Connect_kn {c : C} (h : KN c.s.store) (p : Pkt) : KN (psV5Connect c p).s.store := by
  unfold psV5Connect; (repeat' (first | split | (simp only []; split))) <;> kn_tac
theorem psV3Connack_kn {c : C} (h : KN c.s.store) (p : Pkt) : KN (psV3Connack c p).s.store := by
  unfold psV3Connack; (repeat' (first | split | (simp only []; split))) <;> kn_tac
theorem psV5Connack_kn {c : C} (h : KN c.s.store) (p : Pkt) : KN (psV5Connack c p).s.store := by
  unfold psV5Connack; (repeat' (first | split | (simp only []; split))) <;> kn_tac
theorem psV3Publish_kn {c : C} (h : KN c.s.store) (p : Pkt) : KN (psV3Publish c p).s.store := by
  unfold psV3Publish; (repeat' (first | split | (simp only []; split))) <;> kn_tac

theorem pubRefuseCleanup_kn {c : C} (h : KN c.s.store) (pid : Option Nat) : KN (pubRefuseCleanup c pid).s.store := by
  unfold pubRefuseCleanup; (repeat' (first | split | (simp only []; split))) <;> kn_tac
theorem psV5PublishAlias_kn {c : C} (h : KN c.s.store) (p : Pkt) (r : Option Nat) (v : Bool) :
    KN (psV5PublishAlias c p r v).s.store := by
  unfold psV5PublishAlias
  (repeat' (first | split | (simp only []; split))) <;>
    first
    | (kn_tac; done)
    | (apply pubRefuseCleanup_kn; kn_tac; done)
theorem psV5Publish_kn {c : C} (h : KN c.s.store) (p : Pkt) : KN (psV5Publish c p).s.store := by
  unfold psV5Publish
  (repeat' (first | split | (simp only []; split))) <;>
    first
    | (kn_tac; done)
    | (apply psV5PublishAlias_kn; kn_tac; done)
theorem psPubrel_kn {c : C} (h : KN c.s.store) (p : Pkt) : KN (psPubrel c p).s.store := by
  unfold psPubrel; (repeat' (first | split | (simp only []; split))) <;> kn_tac

theorem processSend_kn {c : C} (h : KN c.s.store) (p : Pkt) : KN (processSend c p).s.store := by
  unfold processSend
  by_cases hv : p.ver = 4 <;> cases hk : p.kind <;> simp only [hv, if_true, if_false] <;>
    first
    | exact psV3Connect_kn h p
    | exact psV5Connect_kn h p
    | exact psV3Connack_kn h p
    | exact psV5Connack_kn h p
    | exact psV3Publish_kn h p
    | exact psV5Publish_kn h p
    | exact psPubrel_kn h p
    | exact h
    | (kn_tac; done)

theorem send_kn {c : C} (h : KN c.s.store) (p : Pkt) : KN (send c p).s.store := by
  unfold send
  split
  · kn_tac
  split
  · kn_tac
  · exact processSend_kn h p

/-! ### receive side -/
theorem prV3Connect_kn {c : C} (h : KN c.s.store) (x : Except Nat Pkt) : KN (prV3Connect c x).s.store := by
  unfold prV3Connect
  (repeat' (first | split | (simp only []; split))) <;>
    first
    | (kn_tac; done)
    | (simp only [err_s]; apply psV3Connack_kn; kn_tac; done)
theorem prV5Connect_kn {c : C} (h : KN c.s.store) (x : Except Nat Pkt) : KN (prV5Connect c x).s.store := by
  unfold prV5Connect
  (repeat' (first | split | (simp only []; split))) <;>
    first
    | (kn_tac; done)
    | (simp only [err_s]; apply psV5Connack_kn; kn_tac; done)
theorem prV3Connack_kn {c : C} (h : KN c.s.store) (x : Except Nat Pkt) : KN (prV3Connack c x).s.store := by
  unfold prV3Connack; (repeat' (first | split | (simp only []; split))) <;> kn_tac
theorem connackRecvProp_kn {c : C} (h : KN c.s.store) (id v : Nat) : KN (connackRecvProp c id v).s.store := by
  unfold connackRecvProp; (repeat' (first | split | (simp only []; split))) <;> kn_tac
theorem propsFold_connackRecvProp_kn (l : List (Nat × Nat)) :
    ∀ c : C, KN c.s.store → KN (propsFold connackRecvProp c l).s.store := by
  induction l with
  | nil => intro c h; exact h
  | cons x rest ih => intro c h; exact ih _ (connackRecvProp_kn h x.1 x.2)
theorem prV5Connack_kn {c : C} (h : KN c.s.store) (x : Except Nat Pkt) : KN (prV5Connack c x).s.store := by
  unfold prV5Connack
  (repeat' (first | split | (simp only []; split))) <;>
    first
    | (kn_tac; done)
    | (simp only [push_s]; apply resendStored_kn; apply propsFold_connackRecvProp_kn; kn_tac; done)
theorem prPuback_kn {c : C} (h : KN c.s.store) (x : Except Nat Pkt) : KN (prPuback c x).s.store := by
  unfold prPuback; (repeat' (first | split | (simp only []; split))) <;> kn_tac
theorem prPubcomp_kn {c : C} (h : KN c.s.store) (x : Except Nat Pkt) : KN (prPubcomp c x).s.store := by
  unfold prPubcomp; (repeat' (first | split | (simp only []; split))) <;> kn_tac
theorem prSubUnsuback_kn {c : C} (h : KN c.s.store) (b : Bool) (x : Except Nat Pkt) :
    KN (prSubUnsuback c b x).s.store := by
  unfold prSubUnsuback; (repeat' (first | split | (simp only []; split))) <;> kn_tac
theorem prPubrec_kn {c : C} (h : KN c.s.store) (x : Except Nat Pkt) : KN (prPubrec c x).s.store := by
  unfold prPubrec
  (repeat' (first | split | (simp only []; split))) <;>
    first
    | (kn_tac; done)
    | (simp only [push_s, refreshPingreqRecv_ss]; apply psPubrel_kn; kn_tac; done)

theorem dispatchRecv_kn {c : C} (h : KN c.s.store) (t : Nat) (x : Except Nat Pkt) :
    KN (dispatchRecv c t x).s.store := by
  unfold dispatchRecv
  (repeat' split) <;>
    first
    | exact prV3Connect_kn h x | exact prV5Connect_kn h x | exact prV3Connack_kn h x
    | exact prV5Connack_kn h x | exact prPuback_kn h x | exact prPubrec_kn h x
    | exact prPubcomp_kn h x | exact prSubUnsuback_kn h _ x
    | (kn_tac; done)

theorem processRecvPacket_kn {c : C} (h : KN c.s.store) (fh : Nat) (data : List Nat)
    (parse : Nat → Except Nat Pkt) : KN (processRecvPacket c fh data parse).s.store := by
  unfold processRecvPacket
  (repeat' (first | split | (simp only []; split))) <;>
    first
    | (kn_tac; done)
    | exact dispatchRecv_kn h _ _
    | (apply prV3Connect_kn; exact h)
    | (apply prV5Connect_kn; exact h)

theorem recv_kn {c : C} (h : KN c.s.store) (inp : List Nat) (parse : Nat → Nat → List Nat → Except Nat Pkt) :
    KN (recv c inp parse).1.s.store := by
  unfold recv
  obtain ⟨pb, out, rest⟩ := Framing.feed c.s.pb inp
  simp only []
  cases out with
  | none => exact h
  | some o =>
    cases o with
    | complete fh data => exact processRecvPacket_kn (c := { c with s := { c.s with pb := pb } }) h _ _ _
    | error => kn_tac

/-! ### the rest -/
theorem notifyClosed_kn {c : C} (h : KN c.s.store) : KN (notifyClosed c).s.store := by
  unfold notifyClosed
  simp only [cancelTimers_ss]
  split
  · exact KN_nil
  · simp only [releaseAll_ss]; exact h

theorem eraseStoredPublish_kn {c : C} (h : KN c.s.store) (id : Nat) : KN (eraseStoredPublish c id).s.store := by
  unfold eraseStoredPublish; (repeat' (first | split | (simp only []; split))) <;> kn_tac

theorem restoreOne_kn {c : C} (h : KN c.s.store) (p : Pkt) : KN (restoreOne c p).s.store := by
  unfold restoreOne register
  (repeat' (first | split | (simp only []; split))) <;> kn_tac

theorem restorePackets_kn (ps : List Pkt) : ∀ c : C, KN c.s.store → KN (restorePackets c ps).s.store := by
  induction ps with
  | nil => intro c h; exact h
  | cons p rest ih => intro c h; rw [restorePackets]; exact ih _ (restoreOne_kn h p)

theorem step_kn {cfg : Cfg} {s : St} (h : KN s.store) (op : Op) : KN (step cfg s op).s.store := by
  cases op with
  | send p => exact send_kn (c := { cfg := cfg, s := s }) h p
  | recv inp parse => exact recv_kn (c := { cfg := cfg, s := s }) h inp parse
  | timer k => simp only [step, notifyTimerFired_ss]; exact h
  | closed => exact notifyClosed_kn (c := { cfg := cfg, s := s }) h
  | setInterval d => simp only [step, setPingreqSendInterval_ss]; exact h
  | setFlag f b => cases f <;> exact h
  | setRespTimeout ms => exact h
  | acquire => exact h
  | register id => exact h
  | release id => simp only [step, releasePacketId_ss]; exact h
  | erase id => exact eraseStoredPublish_kn (c := { cfg := cfg, s := s }) h id
  | restoreHandled ids => exact h
  | restorePackets ps => exact restorePackets_kn ps { cfg := cfg, s := s } h

/-! ## `release_packet_id` (fix ba1a812): the exact effect, and the ownership invariant -/

theorem releasePacketId_unused {c : C} {id : Nat} (hu : isUsed c.s id = false) : releasePacketId c id = c := by
  rw [releasePacketId_def, hu]; rfl

/-- the counter after `release id`: one less if the identifier was awaited by PUBACK / PUBREC
    (`decSendCount`: only under a Receive Maximum, never below zero) -/
def countAfterRelease (s : St) (id : Nat) : Nat :=
  if (id ∈ s.puback ∨ id ∈ s.pubrec) ∧ s.sendMax.isSome = true ∧ s.sendCount > 0 then s.sendCount - 1 else s.sendCount

theorem releasePacketId_used {c : C} (h : Wf c) {id : Nat} (hu : isUsed c.s id = true) :
    releasePacketId c id =
      ({ c with s := { c.s with pidMan := (Alloc.deallocate c.s.pidMan id).2, suback := del id c.s.suback, unsuback := del id c.s.unsuback, puback := del id c.s.puback, pubrec := del id c.s.pubrec, sendCount := countAfterRelease c.s id } } : C).push (.released id) := by
  rw [releasePacketId_def, if_pos hu, releaseIfUsed_used h hu]
  unfold countAfterRelease
  by_cases ha : id ∈ c.s.puback ∨ id ∈ c.s.pubrec
  · rw [if_pos (by exact ha)]
    by_cases hc : c.s.sendMax.isSome = true ∧ c.s.sendCount > 0
    · rw [if_pos ⟨ha, hc⟩]
      unfold decSendCount
      rw [if_pos (by exact hc)]
      rfl
    · rw [if_neg (fun x => hc x.2)]
      unfold decSendCount
      rw [if_neg (by exact hc)]
      rfl
  · rw [if_neg (by exact ha), if_neg (fun x => ha x.1)]
    rfl

theorem mem_del' {x a : Nat} {l : List Nat} : x ∈ del a l ↔ (x ∈ l ∧ x ≠ a) := by simp [del]

/-- `release id` keeps the ownership invariant when `id` is not awaited by PUBCOMP and carried by
    no stored packet -/
theorem releasePacketId_inv {c : C} (h : Wf c) (i : PidInv c.s) {id : Nat} (hpc : id ∉ c.s.pubcomp)
    (hst : storeHas id c.s.store = false) : PidInv (releasePacketId c id).s := by
  cases hu : isUsed c.s id with
  | false => rw [releasePacketId_unused hu]; exact i
  | true =>
    rw [releasePacketId_used h hu]
    obtain ⟨i1, i2, i3⟩ := i
    have d3 := (h.2.w.dealloc hu).2.2
    have keep : ∀ x, x ≠ id → isUsed c.s x = true →
        Alloc.isUsed (Alloc.deallocate c.s.pidMan id).2 x = true := fun x hx hux => (d3 x).2 ⟨hux, hx⟩
    have hne : ∀ x ∈ c.s.store, x.1 ≠ id := by
      simpa only [storeHas, List.any_eq_false, decide_eq_true_eq] using hst
    refine ⟨?_, ?_, i3⟩
    · intro x hx
      simp only [waitIds, push_s, List.mem_append, mem_del'] at hx
      have hx' : x ∈ waitIds c.s ∧ x ≠ id := by
        simp only [waitIds, List.mem_append]
        rcases hx with (((hx | hx) | hx) | hx) | hx
        · exact ⟨.inl (.inl (.inl (.inl hx.1))), hx.2⟩
        · exact ⟨.inl (.inl (.inl (.inr hx.1))), hx.2⟩
        · exact ⟨.inl (.inl (.inr hx.1)), hx.2⟩
        · exact ⟨.inl (.inr hx.1), hx.2⟩
        · exact ⟨.inr hx, fun e => hpc (e ▸ hx)⟩
      exact keep x hx'.2 (i1 x hx'.1)
    · intro x hx
      exact keep x.1 (hne x hx) (i2 x hx)

end MqttVerif.Conn
