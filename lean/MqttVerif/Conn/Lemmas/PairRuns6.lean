import MqttVerif.Conn.Lemmas.PairExchange4
/-!
# Helpers for `Props/C01L2c.lean` (T4, T6): two opposite exchanges in flight, no loss / one loss after `k` deliveries

`l2c_t4`: the loss-free run `drain 8 (startBoth v P1 P2)`; `l2c_t6_k<k>`, `k = 0 … 8`: the run
`drain 8 (resume v (lose (drain k (startBoth v P1 P2))))`; for both versions and the four QoS combinations,
computed with the step lemmas (`run4`, `PairExchange4.lean`).
-/
set_option linter.unusedSimpArgs false
set_option linter.unusedVariables false
namespace MqttVerif.Conn.Pair
open MqttVerif MqttVerif.Conn
section
variable {v q1 q2 : Nat} {P1 P2 : Pkt}

theorem l2c_t4 (hv : v = 4 ∨ v = 5) (h1 : q1 = 1 ∨ q1 = 2) (h2 : q2 = 1 ∨ q2 = 2)
    (hA : IsPub v q1 P1) (hB : IsPub v q2 P2) :
    Obs2 (established v) [P1] [P2] [1] [1] (drain 8 (startBoth v P1 P2)) := by
  have hv' := hv; have h1' := h1; have h2' := h2
  rcases hv' with rfl | rfl <;> rcases h1' with rfl | rfl <;> rcases h2' with rfl | rfl <;>
    run4 hv h1 hA h2 hB []

theorem l2c_t6_k0 (hv : v = 4 ∨ v = 5) (h1 : q1 = 1 ∨ q1 = 2) (h2 : q2 = 1 ∨ q2 = 2)
    (hA : IsPub v q1 P1) (hB : IsPub v q2 P2) :
    Obs2 (established v) (t6notesS q1 0 P1) (t6notesC q2 0 P2) [1] [1]
      (drain 8 (resume v (lose (drain 0 (startBoth v P1 P2))))) := by
  have hv' := hv; have h1' := h1; have h2' := h2
  rcases hv' with rfl | rfl <;> rcases h1' with rfl | rfl <;> rcases h2' with rfl | rfl <;>
    run4 hv h1 hA h2 hB [t6notesS, t6notesC]

theorem l2c_t6_k1 (hv : v = 4 ∨ v = 5) (h1 : q1 = 1 ∨ q1 = 2) (h2 : q2 = 1 ∨ q2 = 2)
    (hA : IsPub v q1 P1) (hB : IsPub v q2 P2) :
    Obs2 (established v) (t6notesS q1 1 P1) (t6notesC q2 1 P2) [1] [1]
      (drain 8 (resume v (lose (drain 1 (startBoth v P1 P2))))) := by
  have hv' := hv; have h1' := h1; have h2' := h2
  rcases hv' with rfl | rfl <;> rcases h1' with rfl | rfl <;> rcases h2' with rfl | rfl <;>
    run4 hv h1 hA h2 hB [t6notesS, t6notesC]

theorem l2c_t6_k2 (hv : v = 4 ∨ v = 5) (h1 : q1 = 1 ∨ q1 = 2) (h2 : q2 = 1 ∨ q2 = 2)
    (hA : IsPub v q1 P1) (hB : IsPub v q2 P2) :
    Obs2 (established v) (t6notesS q1 2 P1) (t6notesC q2 2 P2) [1] [1]
      (drain 8 (resume v (lose (drain 2 (startBoth v P1 P2))))) := by
  have hv' := hv; have h1' := h1; have h2' := h2
  rcases hv' with rfl | rfl <;> rcases h1' with rfl | rfl <;> rcases h2' with rfl | rfl <;>
    run4 hv h1 hA h2 hB [t6notesS, t6notesC]

theorem l2c_t6_k3 (hv : v = 4 ∨ v = 5) (h1 : q1 = 1 ∨ q1 = 2) (h2 : q2 = 1 ∨ q2 = 2)
    (hA : IsPub v q1 P1) (hB : IsPub v q2 P2) :
    Obs2 (established v) (t6notesS q1 3 P1) (t6notesC q2 3 P2) [1] [1]
      (drain 8 (resume v (lose (drain 3 (startBoth v P1 P2))))) := by
  have hv' := hv; have h1' := h1; have h2' := h2
  rcases hv' with rfl | rfl <;> rcases h1' with rfl | rfl <;> rcases h2' with rfl | rfl <;>
    run4 hv h1 hA h2 hB [t6notesS, t6notesC]

theorem l2c_t6_k4 (hv : v = 4 ∨ v = 5) (h1 : q1 = 1 ∨ q1 = 2) (h2 : q2 = 1 ∨ q2 = 2)
    (hA : IsPub v q1 P1) (hB : IsPub v q2 P2) :
    Obs2 (established v) (t6notesS q1 4 P1) (t6notesC q2 4 P2) [1] [1]
      (drain 8 (resume v (lose (drain 4 (startBoth v P1 P2))))) := by
  have hv' := hv; have h1' := h1; have h2' := h2
  rcases hv' with rfl | rfl <;> rcases h1' with rfl | rfl <;> rcases h2' with rfl | rfl <;>
    run4 hv h1 hA h2 hB [t6notesS, t6notesC]

theorem l2c_t6_k5 (hv : v = 4 ∨ v = 5) (h1 : q1 = 1 ∨ q1 = 2) (h2 : q2 = 1 ∨ q2 = 2)
    (hA : IsPub v q1 P1) (hB : IsPub v q2 P2) :
    Obs2 (established v) (t6notesS q1 5 P1) (t6notesC q2 5 P2) [1] [1]
      (drain 8 (resume v (lose (drain 5 (startBoth v P1 P2))))) := by
  have hv' := hv; have h1' := h1; have h2' := h2
  rcases hv' with rfl | rfl <;> rcases h1' with rfl | rfl <;> rcases h2' with rfl | rfl <;>
    run4 hv h1 hA h2 hB [t6notesS, t6notesC]

theorem l2c_t6_k6 (hv : v = 4 ∨ v = 5) (h1 : q1 = 1 ∨ q1 = 2) (h2 : q2 = 1 ∨ q2 = 2)
    (hA : IsPub v q1 P1) (hB : IsPub v q2 P2) :
    Obs2 (established v) (t6notesS q1 6 P1) (t6notesC q2 6 P2) [1] [1]
      (drain 8 (resume v (lose (drain 6 (startBoth v P1 P2))))) := by
  have hv' := hv; have h1' := h1; have h2' := h2
  rcases hv' with rfl | rfl <;> rcases h1' with rfl | rfl <;> rcases h2' with rfl | rfl <;>
    run4 hv h1 hA h2 hB [t6notesS, t6notesC]

theorem l2c_t6_k7 (hv : v = 4 ∨ v = 5) (h1 : q1 = 1 ∨ q1 = 2) (h2 : q2 = 1 ∨ q2 = 2)
    (hA : IsPub v q1 P1) (hB : IsPub v q2 P2) :
    Obs2 (established v) (t6notesS q1 7 P1) (t6notesC q2 7 P2) [1] [1]
      (drain 8 (resume v (lose (drain 7 (startBoth v P1 P2))))) := by
  have hv' := hv; have h1' := h1; have h2' := h2
  rcases hv' with rfl | rfl <;> rcases h1' with rfl | rfl <;> rcases h2' with rfl | rfl <;>
    run4 hv h1 hA h2 hB [t6notesS, t6notesC]

theorem l2c_t6_k8 (hv : v = 4 ∨ v = 5) (h1 : q1 = 1 ∨ q1 = 2) (h2 : q2 = 1 ∨ q2 = 2)
    (hA : IsPub v q1 P1) (hB : IsPub v q2 P2) :
    Obs2 (established v) (t6notesS q1 8 P1) (t6notesC q2 8 P2) [1] [1]
      (drain 8 (resume v (lose (drain 8 (startBoth v P1 P2))))) := by
  have hv' := hv; have h1' := h1; have h2' := h2
  rcases hv' with rfl | rfl <;> rcases h1' with rfl | rfl <;> rcases h2' with rfl | rfl <;>
    run4 hv h1 hA h2 hB [t6notesS, t6notesC]

end
end MqttVerif.Conn.Pair
