import MqttVerif.Conn.Lemmas.TimersAccept
import MqttVerif.Conn.Lemmas.TimersSend
/-!
# Helper lemmas for C15, part 6: after every packet a connected client requests for sending — in
# **every** call, not only `send` — the PINGREQ timer is re-armed (fix 999e935)

`Cover ms l`: every `RequestSendPacket` of `l` is followed, later in `l`, by
`RequestTimerReset(PingreqSend, ms)`.  `RS c`: if the endpoint is a client, not disconnected and
its interval (by priority) is non-zero, the events pushed so far are covered with that interval.

`RS` holds of everything that ends in `send_post_process` (unconditionally), of everything that
has not sent anything, of every disconnected or non-client endpoint, and is kept by the steps
that push no `RequestSendPacket` and leave `is_client` / the interval sources / the status alone.
-/
set_option linter.unusedSimpArgs false
set_option linter.unusedVariables false
namespace MqttVerif.Conn
open MqttVerif Mon

def Cover (ms : Nat) (l : List Ev) : Prop :=
  ∀ pre post q rel, l = pre ++ .send q rel :: post → .timerReset .pingreqSend ms ∈ post

theorem Cover.of_ns {ms : Nat} {l : List Ev} (h : sends l = []) : Cover ms l := by
  intro pre post q rel e
  subst e
  simp at h

theorem Cover.append_reset (ms : Nat) (l : List Ev) : Cover ms (l ++ [.timerReset .pingreqSend ms]) := by
  intro pre post q rel e
  rcases List.eq_nil_or_concat post with hp | ⟨post', x, hp⟩
  · subst hp
    have := List.append_inj_right' (t₁ := [Ev.timerReset .pingreqSend ms]) (t₂ := [Ev.send q rel]) e rfl
    simp at this
  · subst hp
    have h' : l ++ [.timerReset .pingreqSend ms] = (pre ++ .send q rel :: post') ++ [x] := by
      simpa using e
    have := List.append_inj_right' h' rfl
    simp only [List.cons.injEq, and_true] at this
    simp [← this]

theorem Cover.append_nosend {ms : Nat} {l t : List Ev} (h : Cover ms l) (ht : sends t = []) :
    Cover ms (l ++ t) := by
  intro pre post q rel e
  rcases List.append_eq_append_iff.1 e with ⟨a', h1, h2⟩ | ⟨c', h1, h2⟩
  · subst h2; simp at ht
  · cases c' with
    | nil =>
      simp only [List.nil_append] at h2
      subst h2; simp at ht
    | cons x c'' =>
      simp only [List.cons_append, List.cons.injEq] at h2
      obtain ⟨hx, hp⟩ := h2
      subst hx
      have := h pre c'' q rel h1
      rw [hp]; exact List.mem_append_left _ this

/-- rearm-sound -/
def RS (c : C) : Prop :=
  c.s.isClient = true → c.s.status ≠ .disconnected → pingInterval c.s > 0 →
    Cover (pingInterval c.s) c.ev

theorem RS.of_ns {c : C} (h : sends c.ev = []) : RS c := fun _ _ _ => Cover.of_ns h
theorem RS.disc {c : C} (h : c.s.status = .disconnected) : RS c := fun _ hs _ => absurd h hs
theorem RS.notClient {c : C} (h : c.s.isClient = false) : RS c := fun hc _ _ => by simp [h] at hc

/-- whatever came before: after `send_post_process` every send is covered -/
theorem RS.spp (c : C) : RS (sendPostProcess c) := by
  intro hc hs hi
  have e1 : (sendPostProcess c).s.isClient = c.s.isClient := (sendPostProcess_tv c).2.2.2.2.1
  rw [pingInterval_spp] at hi ⊢
  rw [e1] at hc
  rw [sendPostProcess_ev]
  simp only [rearmSend, hc, hi, and_self, if_true]
  exact Cover.append_reset _ _

/-- a step that appends events none of which is a send and keeps `is_client`, the interval and
    the status -/
theorem RS.ext {c c' : C} (h : RS c) (t : List Ev) (he : c'.ev = c.ev ++ t) (ht : sends t = [])
    (h1 : c'.s.isClient = c.s.isClient) (h2 : pingInterval c'.s = pingInterval c.s)
    (h3 : c'.s.status = c.s.status) : RS c' := by
  intro hc hs hi
  rw [h1] at hc; rw [h3] at hs; rw [h2] at hi ⊢
  rw [he]
  exact (h hc hs hi).append_nosend ht

theorem RS.frame {c c' : C} (h : RS c) (he : c'.ev = c.ev)
    (h1 : c'.s.isClient = c.s.isClient) (h2 : pingInterval c'.s = pingInterval c.s)
    (h3 : c'.s.status = c.s.status) : RS c' :=
  h.ext [] (by simp [he]) rfl h1 h2 h3

theorem RS.push {c : C} (h : RS c) (e : Ev) (he : isSendEv e = false) : RS (c.push e) :=
  h.ext [e] rfl (by simp [he]) rfl rfl rfl
theorem RS.err {c : C} (h : RS c) (e : Nat) : RS (c.err e) := h.push _ rfl
theorem RS.setPanic {c : C} (h : RS c) (m : String) : RS (c.setPanic m) := h.frame rfl rfl rfl rfl

theorem RS.refresh {c : C} (h : RS c) : RS (refreshPingreqRecv c) := by
  have tv := refreshPingreqRecv_tv c
  refine h.ext (rearmRecv c.s) (refresh_ev c) ?_ tv.2.2.2.2.1 ?_ tv.2.2.2.1
  · unfold rearmRecv; split <;> simp
  · simp [pingInterval, tv]

/-! ## the sending functions the receive handlers call: every path is an error push or ends in
`send_post_process` -/

macro "rs_ps" h:term : tactic =>
  `(tactic| ((repeat' (first | split | simp only [])) <;> first
    | exact RS.err $h _
    | exact RS.spp _))

theorem psV3Simple_rs {c : C} (h : RS c) (p : Pkt) : RS (psV3Simple c p) := by
  unfold psV3Simple; rs_ps h
theorem psV5Simple_rs {c : C} (h : RS c) (p : Pkt) : RS (psV5Simple c p) := by
  unfold psV5Simple; rs_ps h
theorem psV5Puback_rs {c : C} (h : RS c) (p : Pkt) : RS (psV5Puback c p) := by
  unfold psV5Puback; rs_ps h
theorem psV5Pubcomp_rs {c : C} (h : RS c) (p : Pkt) : RS (psV5Pubcomp c p) := psV5Puback_rs h p
theorem psV5Pubrec_rs {c : C} (h : RS c) (p : Pkt) : RS (psV5Pubrec c p) := by
  unfold psV5Pubrec; rs_ps h

/-! ## more `sends` frames -/

@[simp] theorem refresh_sends (c : C) : sends (refreshPingreqRecv c).ev = sends c.ev := by
  rw [refresh_ev]; unfold rearmRecv; split <;> simp
@[simp] theorem cancelTimers_sends (c : C) : sends (cancelTimers c).ev = sends c.ev := by
  rw [cancelTimers_ev]; unfold cancelEvs; (repeat' split) <;> simp
@[simp] theorem spp_sends (c : C) : sends (sendPostProcess c).ev = sends c.ev := by
  rw [sendPostProcess_ev]; unfold rearmSend; split <;> simp
@[simp] theorem decSendCount_sends (c : C) : sends (decSendCount c).ev = sends c.ev := by
  unfold decSendCount; split <;> simp
@[simp] theorem handleV3Error_sends (c : C) (e : Nat) : sends (handleV3Error c e).ev = sends c.ev := by
  simp [handleV3Error]
@[simp] theorem connectRecvProp_sends (c : C) (id v : Nat) : sends (connectRecvProp c id v).ev = sends c.ev := by
  simp
@[simp] theorem propsFold_connectRecvProp_sends (c : C) (l : List (Nat × Nat)) :
    sends (propsFold connectRecvProp c l).ev = sends c.ev := by simp
@[simp] theorem connackRecvProp_sends (c : C) (id v : Nat) : sends (connackRecvProp c id v).ev = sends c.ev := by
  unfold connackRecvProp; (repeat' (first | split | simp only [])) <;> simp
@[simp] theorem propsFold_connackRecvProp_sends (c : C) (l : List (Nat × Nat)) :
    sends (propsFold connackRecvProp c l).ev = sends c.ev := by
  induction l generalizing c with
  | nil => rfl
  | cons x l ih => obtain ⟨id, v⟩ := x; simp [propsFold, ih]
@[simp] theorem releaseAll_sends (c : C) (l : List Nat) : sends (releaseAll c l).ev = sends c.ev := by
  induction l generalizing c with
  | nil => rfl
  | cons x l ih => simp [releaseAll, ih]
@[simp] theorem initConn_ev' (c : C) (b : Bool) : (initConn c b).ev = c.ev := rfl

/-! ## continuation steps: more events, none a send; `is_client`, interval, status kept -/

structure Cont (c c' : C) : Prop where
  ev : ∃ t, c'.ev = c.ev ++ t ∧ sends t = []
  cl : c'.s.isClient = c.s.isClient
  pi : pingInterval c'.s = pingInterval c.s
  st : c'.s.status = c.s.status

theorem Cont.refl (c : C) : Cont c c := ⟨⟨[], by simp, rfl⟩, rfl, rfl, rfl⟩
theorem Cont.trans {a b c : C} (h1 : Cont a b) (h2 : Cont b c) : Cont a c := by
  obtain ⟨t1, e1, n1⟩ := h1.ev
  obtain ⟨t2, e2, n2⟩ := h2.ev
  exact ⟨⟨t1 ++ t2, by rw [e2, e1, List.append_assoc], by simp [n1, n2]⟩,
    h2.cl.trans h1.cl, h2.pi.trans h1.pi, h2.st.trans h1.st⟩

theorem RS.cont {c c' : C} (h : RS c) (k : Cont c c') : RS c' := by
  obtain ⟨t, e, n⟩ := k.ev
  exact h.ext t e n k.cl k.pi k.st

theorem Cont.sends {c c' : C} (k : Cont c c') : sends c'.ev = sends c.ev := by
  obtain ⟨t, e, n⟩ := k.ev
  rw [e]; simp [n]

/-- a step that leaves the events and the timer-related fields alone -/
theorem Cont.of_tv {c c' : C} (he : c'.ev = c.ev) (h1 : c'.s.isClient = c.s.isClient)
    (h2 : c'.s.userInterval = c.s.userInterval) (h3 : c'.s.serverKeepAliveMs = c.s.serverKeepAliveMs)
    (h4 : c'.s.keepAliveMs = c.s.keepAliveMs) (h5 : c'.s.status = c.s.status) : Cont c c' :=
  ⟨⟨[], by simp [he], rfl⟩, h1, by simp [pingInterval, h2, h3, h4], h5⟩

theorem storeAdd_cont (c : C) (id : Nat) (p : Pkt) (m : String) : Cont c (storeAdd c id p m) := by
  unfold storeAdd; split
  · exact Cont.of_tv rfl rfl rfl rfl rfl rfl
  · exact Cont.of_tv rfl rfl rfl rfl rfl rfl

theorem releaseIfUsed_cont (c : C) (id : Nat) : Cont c (releaseIfUsed c id) := by
  have tv := releaseIfUsed_tv c id
  unfold releaseIfUsed at tv ⊢
  split
  · rename_i hu
    simp only [hu, if_true] at tv
    refine ⟨⟨[.released id], ?_, by simp⟩, tv.2.2.2.2.2.2.1, by simp [pingInterval, tv], tv.2.2.2.2.2.1⟩
    cases h : (Alloc.deallocate c.s.pidMan id).1 <;> simp [releaseId, h]
  · exact Cont.refl c

theorem decSendCount_cont (c : C) : Cont c (decSendCount c) := by
  unfold decSendCount; split
  · exact Cont.of_tv rfl rfl rfl rfl rfl rfl
  · exact Cont.refl c

theorem refresh_cont (c : C) : Cont c (refreshPingreqRecv c) := by
  have tv := refreshPingreqRecv_tv c
  exact ⟨⟨rearmRecv c.s, refresh_ev c, by unfold rearmRecv; split <;> simp⟩, tv.2.2.2.2.1,
    by simp [pingInterval, tv], tv.2.2.2.1⟩

theorem cancelTimers_cont (c : C) : Cont c (cancelTimers c) := by
  have tv := cancelTimers_tv c
  exact ⟨⟨cancelEvs (flagsOf c.s), cancelTimers_ev c, by unfold cancelEvs; (repeat' split) <;> simp⟩,
    tv.2.2.2.2.2.1, by simp [pingInterval, tv], tv.2.2.2.2.1⟩

theorem push_cont (c : C) (e : Ev) (he : isSendEv e = false) : Cont c (c.push e) :=
  ⟨⟨[e], rfl, by simp [he]⟩, rfl, rfl, rfl⟩

theorem releaseAll_cont (c : C) (l : List Nat) : Cont c (releaseAll c l) := by
  induction l generalizing c with
  | nil => exact Cont.refl c
  | cons x l ih => exact (releaseIfUsed_cont c x).trans (ih _)

/-! ## `psPubrel`, the closing functions -/

theorem psPubrel_rs {c : C} (h : RS c) (p : Pkt) : RS (psPubrel c p) := by
  unfold psPubrel
  split
  · exact h.err _
  split
  · exact h.err _
  extract_lets id c1 src c2
  split
  · exact h.err _
  have k1 : Cont c c1 := by
    simp only [c1]; split
    · exact storeAdd_cont _ _ _ _
    · exact Cont.refl c
  have k2 : Cont c c2 := k1.trans (Cont.of_tv rfl rfl rfl rfl rfl rfl)
  split
  · exact RS.spp _
  · exact h.cont k2

/-- nothing sent so far: the closing functions send only when they end `disconnected` -/
theorem psV5Disconnect_rs {c : C} (h : RS c) (p : Pkt) : RS (psV5Disconnect c p) := by
  unfold psV5Disconnect
  (repeat' split)
  · exact h.err _
  · exact h.err _
  · exact RS.disc (by simp)

theorem v5DisconnectOrClose_rs {c : C} (h : RS c) (d : Pkt) : RS (v5DisconnectOrClose c d) := by
  unfold v5DisconnectOrClose
  split
  · exact RS.disc (by simp)
  · exact psV5Disconnect_rs h d

theorem handleV5Error_rs {c : C} (h : RS c) (e : Nat) : RS (handleV5Error c e) :=
  (v5DisconnectOrClose_rs h _).err e

theorem handleV3Error_rs {c : C} (h : RS c) (e : Nat) : RS (handleV3Error c e) :=
  (h.push _ rfl).err e

theorem vErr_rs {c : C} (h : RS c) (e : Nat) : RS (vErr c e) := by
  unfold vErr; split
  · exact handleV3Error_rs h e
  · exact handleV5Error_rs h e

/-! ## CONNECT / CONNACK -/

theorem RS.of_sendok {c c' : C} (h : SendOK c c') (hn : sends c.ev = []) : RS c' := by
  rcases h with ⟨a, _⟩ | h | ⟨m, hm, _⟩
  · exact RS.of_ns (a.trans hn)
  · exact RS.disc h
  · rw [hm]; exact RS.spp m

/-- a record update of fields the timers do not depend on -/
theorem RS.upd {c c' : C} (h : RS c) (he : c'.ev = c.ev := by rfl) (h1 : c'.s.isClient = c.s.isClient := by rfl)
    (h2 : c'.s.userInterval = c.s.userInterval := by rfl)
    (h3 : c'.s.serverKeepAliveMs = c.s.serverKeepAliveMs := by rfl)
    (h4 : c'.s.keepAliveMs = c.s.keepAliveMs := by rfl) (h5 : c'.s.status = c.s.status := by rfl) : RS c' :=
  h.cont (Cont.of_tv he h1 h2 h3 h4 h5)

theorem prV3Connect_rs {c : C} (hn : sends c.ev = []) (pp : Except Nat Pkt) : RS (prV3Connect c pp) := by
  by_cases hs : c.s.status = .disconnected
  · cases pp with
    | ok p => exact RS.notClient (prV3Connect_ok c p hs).2.2.2
    | error e =>
      unfold prV3Connect; rw [if_neg (by simp [hs])]
      exact (RS.of_sendok (psV3Connack_sendok _ _) (by simpa using hn)).err _
  · unfold prV3Connect; rw [if_pos hs]; exact handleV3Error_rs (RS.of_ns hn) _

theorem prV5Connect_rs {c : C} (hn : sends c.ev = []) (pp : Except Nat Pkt) : RS (prV5Connect c pp) := by
  by_cases hs : c.s.status = .disconnected
  · cases pp with
    | ok p => exact RS.notClient (prV5Connect_ok c p hs).2.2.2
    | error e =>
      unfold prV5Connect; rw [if_neg (by simp [hs])]
      exact (RS.of_sendok (psV5Connack_sendok _ _) (by simpa using hn)).err _
  · unfold prV5Connect; rw [if_pos hs]; exact handleV5Error_rs (RS.of_ns hn) _

theorem sendStoredLoop_prefix (l : List (Nat × Pkt)) : ∀ c : C, ∃ t, (sendStoredLoop c l).1.ev = c.ev ++ t := by
  induction l with
  | nil => intro c; exact ⟨[], by simp [sendStoredLoop]⟩
  | cons x l ih =>
    intro c
    obtain ⟨id, p⟩ := x
    simp only [sendStoredLoop]
    split
    · obtain ⟨t, e⟩ := ih (releaseIfUsed
        { c with s := { c.s with puback := del id c.s.puback, pubrec := del id c.s.pubrec,
                                  pubcomp := del id c.s.pubcomp } } id)
      obtain ⟨t0, e0, _⟩ := (releaseIfUsed_cont
        { c with s := { c.s with puback := del id c.s.puback, pubrec := del id c.s.pubrec,
                                  pubcomp := del id c.s.pubcomp } } id).ev
      exact ⟨t0 ++ t, by rw [e, e0]; simp⟩
    · simp only []
      split
      · split
        · obtain ⟨t, e⟩ := ih (({ c.setPanic "core.rs:send_stored:publish_send_count+=1" with s := { (c.setPanic "core.rs:send_stored:publish_send_count+=1").s with sendCount := ((c.setPanic "core.rs:send_stored:publish_send_count+=1").s.sendCount + 1) % 4294967296 } } : C).push (.send p none))
          exact ⟨Ev.send p none :: t, by rw [e]; simp⟩
        · obtain ⟨t, e⟩ := ih (({ c with s := { c.s with sendCount := (c.s.sendCount + 1) % 4294967296 } } : C).push (.send p none))
          exact ⟨Ev.send p none :: t, by rw [e]; simp⟩
      · obtain ⟨t, e⟩ := ih (c.push (.send p none))
        exact ⟨Ev.send p none :: t, by rw [e]; simp⟩

theorem sendStored_prefix (c : C) : ∃ t, (sendStored c).ev = c.ev ++ t := by
  simp only [sendStored]
  split
  · exact sendStoredLoop_prefix c.s.store _
  · exact sendStoredLoop_prefix c.s.store c

/-- fix 999e935: after the retransmission on a received CONNACK the keep-alive timer is re-armed -/
theorem resendStored_rs {c : C} (hn : sends c.ev = []) : RS (resendStored c) := by
  rcases resendStored_eq_cond c with ⟨_, e⟩ | ⟨hc, e⟩
  · rw [e]; exact RS.spp _
  · rw [e]
    obtain ⟨t, ht⟩ := sendStored_prefix c
    rw [ht, List.drop_left] at hc
    refine RS.of_ns ?_
    rw [ht, sends_append, hn, List.nil_append]
    simp only [sends, List.filter_eq_nil_iff]
    intro x hx
    have := List.any_eq_false.1 hc x hx
    simpa using this

theorem prV3Connack_rs {c : C} (hn : sends c.ev = []) (pp : Except Nat Pkt) : RS (prV3Connack c pp) := by
  unfold prV3Connack
  split
  · exact handleV3Error_rs (RS.of_ns hn) _
  split
  · refine RS.push ?_ _ rfl
    split
    · split
      · exact resendStored_rs (by simpa using hn)
      · exact RS.of_ns (by simpa using hn)
    · exact RS.of_ns hn
  · exact handleV3Error_rs (RS.of_ns hn) _

theorem prV5Connack_rs {c : C} (hn : sends c.ev = []) (pp : Except Nat Pkt) : RS (prV5Connack c pp) := by
  unfold prV5Connack
  split
  · exact handleV5Error_rs (RS.of_ns hn) _
  split
  · refine RS.push ?_ _ rfl
    split
    · split
      · exact resendStored_rs (by simpa using hn)
      · exact RS.of_ns (by simpa using hn)
    · exact RS.of_ns hn
  · first
      | exact (RS.of_ns hn).err _
      | (split
         · exact handleV5Error_rs (RS.of_ns hn) _
         · exact (RS.of_ns hn).err _)

/-! ## the other receive handlers: `RS` is carried through (no hypothesis on what was sent before) -/

theorem RS.setHandled {c : C} (h : RS c) (l : List Nat) :
    RS { c with s := { c.s with handled := l } } := RS.upd h
theorem RS.setPublishRecv {c : C} (h : RS c) (l : List Nat) :
    RS { c with s := { c.s with publishRecv := l } } := RS.upd h
theorem RS.setTar {c : C} (h : RS c) (t : Option TAR) :
    RS { c with s := { c.s with tar := t } } := RS.upd h
theorem RS.setRespSet {c : C} (h : RS c) (b : Bool) :
    RS { c with s := { c.s with respSet := b } } := RS.upd h

/-- the automatic-response step: `if cond then (panic?) |> send else c` -/
theorem autoResp_rs {c : C} (h : RS c) (cond : Prop) [Decidable cond] (z : Prop) [Decidable z] (m : String)
    (f : C → C) (hf : ∀ x, RS x → RS (f x)) :
    RS (if cond then f (if z then c.setPanic m else c) else c) := by
  split
  · split
    · exact hf _ (h.setPanic _)
    · exact hf _ h
  · exact h

theorem prV3Publish_rs {c : C} (h : RS c) (pp : Except Nat Pkt) : RS (prV3Publish c pp) := by
  unfold prV3Publish
  split
  · exact handleV3Error_rs h _
  rename_i p
  split
  · exact h.refresh.push _ rfl
  split
  · exact h.setPanic _
  rename_i id _
  split
  · refine RS.push (RS.refresh ?_) _ rfl
    exact autoResp_rs h _ _ _ (fun x => psV3Simple x (mkAck x.cfg 4 .puback id)) (fun x hx => psV3Simple_rs hx _)
  · extract_lets already src c1 c2 c3
    have h1 : RS c1 := h.setHandled _
    have h2 : RS c2 :=
      autoResp_rs h1 _ _ _ (fun x => psV3Simple x (mkAck x.cfg 4 .pubrec id)) (fun x hx => psV3Simple_rs hx _)
    have h3 : RS c3 := h2.refresh
    split
    · exact h3.push _ rfl
    · exact h3

theorem prV5PublishAlias_rs {c : C} (h : RS c) (p : Pkt) : RS (prV5PublishAlias c p).1 := by
  unfold prV5PublishAlias
  (repeat' (first | split | simp only []))
  all_goals first
    | exact handleV5Error_rs h _
    | exact h
    | exact h.setTar _

theorem prV5Publish_rs {c : C} (h : RS c) (pp : Except Nat Pkt) : RS (prV5Publish c pp) := by
  unfold prV5Publish
  split
  · split
    · exact handleV5Error_rs h _
    · exact h.err _
  rename_i p
  extract_lets r c1 rmx id already src1 c2 src2 c3 pubackSend pubrecSend c4 c5 c6
  have h1 : RS c1 := prV5PublishAlias_rs h p
  split
  · exact h1
  have i2 : RS c2 := by
    simp only [c2, src1]; split
    · exact h1.setPublishRecv _
    · exact h1
  have i3 : RS c3 := by
    simp only [c3, src2]; split
    · exact i2.setHandled _
    · exact i2
  have i4 : RS c4 := by
    simp only [c4]; split
    · split
      · exact psV5Puback_rs (i3.setPanic _) _
      · exact psV5Puback_rs i3 _
    · exact i3
  have i5 : RS c5 := by
    simp only [c5]; split
    · split
      · exact psV5Pubrec_rs (i4.setPanic _) _
      · exact psV5Pubrec_rs i4 _
    · exact i4
  have i6 : RS c6 := i5.refresh
  split
  · exact h1.setPanic _
  split
  · exact handleV5Error_rs h1 _
  split
  · exact i6.push _ rfl
  · exact i6

theorem prPuback_rs {c : C} (h : RS c) (pp : Except Nat Pkt) : RS (prPuback c pp) := by
  unfold prPuback
  split
  · exact vErr_rs h _
  simp only []
  split
  · refine RS.push (RS.refresh ?_) _ rfl
    split
    · refine RS.cont (RS.cont ?_ (releaseIfUsed_cont _ _)) (decSendCount_cont _); exact RS.upd h
    · refine RS.cont ?_ (releaseIfUsed_cont _ _); exact RS.upd h
  · exact vErr_rs h _

theorem prPubcomp_rs {c : C} (h : RS c) (pp : Except Nat Pkt) : RS (prPubcomp c pp) := by
  unfold prPubcomp
  split
  · exact vErr_rs h _
  simp only []
  split
  · refine RS.push (RS.refresh ?_) _ rfl
    split
    · refine RS.cont (RS.cont ?_ (releaseIfUsed_cont _ _)) (decSendCount_cont _); exact RS.upd h
    · refine RS.cont ?_ (releaseIfUsed_cont _ _); exact RS.upd h
  · exact vErr_rs h _

theorem prPlain_rs {c : C} (h : RS c) (pp : Except Nat Pkt) : RS (prPlain c pp) := by
  unfold prPlain
  split
  · exact vErr_rs h _
  · exact h.refresh.push _ rfl

theorem prSubUnsuback_rs {c : C} (h : RS c) (b : Bool) (pp : Except Nat Pkt) :
    RS (prSubUnsuback c b pp) := by
  unfold prSubUnsuback
  split
  · exact vErr_rs h _
  cases b <;> simp only [if_true, if_false, Bool.false_eq_true]
  · split
    · refine RS.push (RS.refresh ?_) _ rfl
      refine RS.cont ?_ (releaseIfUsed_cont _ _)
      exact RS.upd h
    · exact vErr_rs h _
  · split
    · refine RS.push (RS.refresh ?_) _ rfl
      refine RS.cont ?_ (releaseIfUsed_cont _ _)
      exact RS.upd h
    · exact vErr_rs h _

theorem prPubrec_rs {c : C} (h : RS c) (pp : Except Nat Pkt) : RS (prPubrec c pp) := by
  unfold prPubrec
  split
  · exact vErr_rs h _
  simp only []
  split
  · refine RS.push (RS.refresh ?_) _ rfl
    split
    · split
      · refine psPubrel_rs ?_ _; exact RS.upd h
      · exact RS.upd h
    · refine RS.cont (RS.cont ?_ (releaseIfUsed_cont _ _)) (decSendCount_cont _); exact RS.upd h
  · exact vErr_rs h _

theorem prPubrel_rs {c : C} (h : RS c) (pp : Except Nat Pkt) : RS (prPubrel c pp) := by
  unfold prPubrel
  split
  · exact vErr_rs h _
  simp only []
  refine RS.push (RS.refresh ?_) _ rfl
  have h1 : RS { c with s := { c.s with handled := del (‹Pkt›.pid.getD 0) c.s.handled } } := h.setHandled _
  split
  · split
    · exact psV3Simple_rs h1 _
    · split
      · exact psV5Pubcomp_rs h1 _
      · exact psV5Pubcomp_rs h1 _
  · exact h1

theorem prPingreq_rs {c : C} (h : RS c) (pp : Except Nat Pkt) : RS (prPingreq c pp) := by
  unfold prPingreq
  split
  · exact vErr_rs h _
  simp only []
  refine RS.push (RS.refresh ?_) _ rfl
  split
  · split
    · exact psV3Simple_rs h _
    · exact psV5Simple_rs h _
  · exact h

theorem prPingresp_rs {c : C} (h : RS c) (pp : Except Nat Pkt) : RS (prPingresp c pp) := by
  unfold prPingresp
  split
  · exact vErr_rs h _
  simp only []
  refine RS.push ?_ _ rfl
  split
  · exact (h.setRespSet _).push _ rfl
  · exact h

theorem prDisconnect_rs {c : C} (h : RS c) (pp : Except Nat Pkt) : RS (prDisconnect c pp) := by
  unfold prDisconnect
  split
  · exact vErr_rs h _
  · exact (h.cont (cancelTimers_cont c)).push _ rfl

@[simp] theorem restoreOne_ev (c : C) (p : Pkt) : (restoreOne c p).ev = c.ev := by
  simp only [restoreOne]; (repeat' split) <;> simp [register]
  all_goals ((repeat' split) <;> simp)

theorem restorePackets_sends (c : C) (l : List Pkt) : sends (restorePackets c l).ev = sends c.ev := by
  induction l generalizing c with
  | nil => rfl
  | cons x l ih => simp [restorePackets, ih]

theorem dispatchRecv_rs {c : C} (hn : sends c.ev = []) (t : Nat) (pp : Except Nat Pkt) :
    RS (dispatchRecv c t pp) := by
  have h : RS c := RS.of_ns hn
  unfold dispatchRecv
  (repeat' split)
  all_goals first
    | exact prV3Connect_rs hn _
    | exact prV5Connect_rs hn _
    | exact prV3Connack_rs hn _
    | exact prV5Connack_rs hn _
    | exact prV3Publish_rs h _
    | exact prV5Publish_rs h _
    | exact prPuback_rs h _
    | exact prPubrec_rs h _
    | exact prPubrel_rs h _
    | exact prPubcomp_rs h _
    | exact prPlain_rs h _
    | exact prSubUnsuback_rs h _ _
    | exact prPingreq_rs h _
    | exact prPingresp_rs h _
    | exact prDisconnect_rs h _
    | exact h.err _

theorem processRecvPacket_rs {c : C} (hn : sends c.ev = []) (fh : Nat) (data : List Nat)
    (parse : Nat → Except Nat Pkt) : RS (processRecvPacket c fh data parse) := by
  have h : RS c := RS.of_ns hn
  unfold processRecvPacket
  (repeat' (first | split | simp only []))
  all_goals first
    | exact (v5DisconnectOrClose_rs h _).err _
    | exact h.err _
    | exact prV3Connect_rs (by simpa using hn) _
    | exact prV5Connect_rs (by simpa using hn) _
    | exact dispatchRecv_rs hn _ _

theorem recv_rs {c : C} (hn : sends c.ev = []) (inp : List Nat)
    (parse : Nat → Nat → List Nat → Except Nat Pkt) : RS (recv c inp parse).1 := by
  unfold recv
  (repeat' (first | split | simp only []))
  · exact RS.of_ns (by simpa using hn)
  · exact processRecvPacket_rs (by simpa using hn) _ _ _
  · exact RS.of_ns (by simpa using hn)

/-! ## the remaining public calls, `step` -/

theorem psPingreq_rs' {c : C} (hn : sends c.ev = []) (p : Pkt) : RS (psPingreq c p) :=
  RS.of_sendok (psPingreq_sendok c p) hn

theorem notifyTimerFired_rs {c : C} (hn : sends c.ev = []) (k : Timer) : RS (notifyTimerFired c k) := by
  cases k
  · simp only [notifyTimerFired]
    (repeat' (first | split | simp only []))
    all_goals first
      | exact psPingreq_rs' (by simpa using hn) _
      | exact RS.of_ns (by simpa using hn)
  · simp only [notifyTimerFired, if_true]
    (repeat' (first | split | simp only []))
    all_goals first
      | exact v5DisconnectOrClose_rs (RS.of_ns (by simpa using hn)) _
      | exact RS.of_ns (by simpa using hn)
  · simp only [notifyTimerFired, reduceCtorEq, if_false]
    (repeat' (first | split | simp only []))
    all_goals first
      | exact v5DisconnectOrClose_rs (RS.of_ns (by simpa using hn)) _
      | exact RS.of_ns (by simpa using hn)

theorem step_rs (cfg : Cfg) (s : St) (op : Op) : RS (step cfg s op) := by
  cases op with
  | send p => exact RS.of_sendok (send_sendok { cfg := cfg, s := s } p) rfl
  | recv inp parse => exact recv_rs rfl inp parse
  | timer k => exact notifyTimerFired_rs rfl k
  | closed => exact RS.disc (by simp [step, notifyClosed_eq])
  | setInterval d =>
    refine RS.of_ns ?_
    simp only [step, setPingreqSendInterval]
    (repeat' (first | split | simp only [])) <;> simp
  | setFlag f b => exact RS.of_ns rfl
  | setRespTimeout ms => exact RS.of_ns rfl
  | acquire => exact RS.of_ns rfl
  | register id => exact RS.of_ns rfl
  | release id => exact RS.of_ns (by simp [step, releasePacketId_ev'])
  | erase id =>
    refine RS.of_ns ?_
    simp only [step, eraseStoredPublish]
    split <;> simp
  | restoreHandled ids => exact RS.of_ns rfl
  | restorePackets ps =>
    refine RS.of_ns ?_
    simp only [step]
    exact restorePackets_sends _ ps

end MqttVerif.Conn
