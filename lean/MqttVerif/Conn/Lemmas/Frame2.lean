import MqttVerif.Conn.Lemmas.Send
/-!
# Frame lemmas (`cfg`, `mpsSend`) for the composite functions
-/
namespace MqttVerif.Conn
open MqttVerif

@[simp] theorem propsFold_connectSendProp_cfg (c : C) (l) : (propsFold connectSendProp c l).cfg = c.cfg :=
  (propsFold_fr connectSendProp_fr c l).1
@[simp] theorem propsFold_connectSendProp_mps (c : C) (l) : (propsFold connectSendProp c l).s.mpsSend = c.s.mpsSend :=
  (propsFold_fr connectSendProp_fr c l).2
@[simp] theorem propsFold_connackSendProp_cfg (c : C) (l) : (propsFold connackSendProp c l).cfg = c.cfg :=
  (propsFold_fr connackSendProp_fr c l).1
@[simp] theorem propsFold_connackSendProp_mps (c : C) (l) : (propsFold connackSendProp c l).s.mpsSend = c.s.mpsSend :=
  (propsFold_fr connackSendProp_fr c l).2

theorem psV5Disconnect_fr (c : C) (p : Pkt) : Fr c (psV5Disconnect c p) := by
  unfold psV5Disconnect
  (repeat' split) <;> simp [Fr, apply_ite C.cfg, apply_ite C.s, apply_ite St.mpsSend]
@[simp] theorem psV5Disconnect_cfg (c : C) (p : Pkt) : (psV5Disconnect c p).cfg = c.cfg := (psV5Disconnect_fr c p).1
@[simp] theorem psV5Disconnect_mps (c : C) (p : Pkt) : (psV5Disconnect c p).s.mpsSend = c.s.mpsSend := (psV5Disconnect_fr c p).2

theorem psV3Disconnect_fr (c : C) (p : Pkt) : Fr c (psV3Disconnect c p) := by
  unfold psV3Disconnect
  (repeat' split) <;> simp [Fr, apply_ite C.cfg, apply_ite C.s, apply_ite St.mpsSend]
@[simp] theorem psV3Disconnect_cfg (c : C) (p : Pkt) : (psV3Disconnect c p).cfg = c.cfg := (psV3Disconnect_fr c p).1
@[simp] theorem psV3Disconnect_mps (c : C) (p : Pkt) : (psV3Disconnect c p).s.mpsSend = c.s.mpsSend := (psV3Disconnect_fr c p).2

theorem handleV3Error_fr (c : C) (e : Nat) : Fr c (handleV3Error c e) := by
  unfold handleV3Error
  (repeat' split) <;> simp [Fr, apply_ite C.cfg, apply_ite C.s, apply_ite St.mpsSend]
@[simp] theorem handleV3Error_cfg (c : C) (e : Nat) : (handleV3Error c e).cfg = c.cfg := (handleV3Error_fr c e).1
@[simp] theorem handleV3Error_mps (c : C) (e : Nat) : (handleV3Error c e).s.mpsSend = c.s.mpsSend := (handleV3Error_fr c e).2

theorem v5DisconnectOrClose_fr (c : C) (d : Pkt) : Fr c (v5DisconnectOrClose c d) := by
  unfold v5DisconnectOrClose
  (repeat' split) <;> simp [Fr, apply_ite C.cfg, apply_ite C.s, apply_ite St.mpsSend]
@[simp] theorem v5DisconnectOrClose_cfg (c : C) (d : Pkt) : (v5DisconnectOrClose c d).cfg = c.cfg := (v5DisconnectOrClose_fr c d).1
@[simp] theorem v5DisconnectOrClose_mps (c : C) (d : Pkt) : (v5DisconnectOrClose c d).s.mpsSend = c.s.mpsSend := (v5DisconnectOrClose_fr c d).2

theorem handleV5Error_fr (c : C) (e : Nat) : Fr c (handleV5Error c e) := by
  unfold handleV5Error
  (repeat' split) <;> simp [Fr, apply_ite C.cfg, apply_ite C.s, apply_ite St.mpsSend]
@[simp] theorem handleV5Error_cfg (c : C) (e : Nat) : (handleV5Error c e).cfg = c.cfg := (handleV5Error_fr c e).1
@[simp] theorem handleV5Error_mps (c : C) (e : Nat) : (handleV5Error c e).s.mpsSend = c.s.mpsSend := (handleV5Error_fr c e).2

theorem vErr_fr (c : C) (e : Nat) : Fr c (vErr c e) := by
  unfold vErr
  (repeat' split) <;> simp [Fr, apply_ite C.cfg, apply_ite C.s, apply_ite St.mpsSend]
@[simp] theorem vErr_cfg (c : C) (e : Nat) : (vErr c e).cfg = c.cfg := (vErr_fr c e).1
@[simp] theorem vErr_mps (c : C) (e : Nat) : (vErr c e).s.mpsSend = c.s.mpsSend := (vErr_fr c e).2

theorem psV3Connect_fr (c : C) (p : Pkt) : Fr c (psV3Connect c p) := by
  unfold psV3Connect
  (repeat' split) <;> simp [Fr, apply_ite C.cfg, apply_ite C.s, apply_ite St.mpsSend]
@[simp] theorem psV3Connect_cfg (c : C) (p : Pkt) : (psV3Connect c p).cfg = c.cfg := (psV3Connect_fr c p).1
@[simp] theorem psV3Connect_mps (c : C) (p : Pkt) : (psV3Connect c p).s.mpsSend = c.s.mpsSend := (psV3Connect_fr c p).2

theorem psV5Connect_fr (c : C) (p : Pkt) : Fr c (psV5Connect c p) := by
  unfold psV5Connect
  (repeat' split) <;> simp [Fr, apply_ite C.cfg, apply_ite C.s, apply_ite St.mpsSend]
@[simp] theorem psV5Connect_cfg (c : C) (p : Pkt) : (psV5Connect c p).cfg = c.cfg := (psV5Connect_fr c p).1
@[simp] theorem psV5Connect_mps (c : C) (p : Pkt) : (psV5Connect c p).s.mpsSend = c.s.mpsSend := (psV5Connect_fr c p).2

theorem psV3Connack_fr (c : C) (p : Pkt) : Fr c (psV3Connack c p) := by
  unfold psV3Connack
  (repeat' split) <;> simp [Fr, apply_ite C.cfg, apply_ite C.s, apply_ite St.mpsSend]
@[simp] theorem psV3Connack_cfg (c : C) (p : Pkt) : (psV3Connack c p).cfg = c.cfg := (psV3Connack_fr c p).1
@[simp] theorem psV3Connack_mps (c : C) (p : Pkt) : (psV3Connack c p).s.mpsSend = c.s.mpsSend := (psV3Connack_fr c p).2

theorem psV5Connack_fr (c : C) (p : Pkt) : Fr c (psV5Connack c p) := by
  unfold psV5Connack
  (repeat' split) <;> simp [Fr, apply_ite C.cfg, apply_ite C.s, apply_ite St.mpsSend]
@[simp] theorem psV5Connack_cfg (c : C) (p : Pkt) : (psV5Connack c p).cfg = c.cfg := (psV5Connack_fr c p).1
@[simp] theorem psV5Connack_mps (c : C) (p : Pkt) : (psV5Connack c p).s.mpsSend = c.s.mpsSend := (psV5Connack_fr c p).2

theorem psV3Publish_fr (c : C) (p : Pkt) : Fr c (psV3Publish c p) := by
  unfold psV3Publish
  (repeat' split) <;> simp [Fr, apply_ite C.cfg, apply_ite C.s, apply_ite St.mpsSend]
@[simp] theorem psV3Publish_cfg (c : C) (p : Pkt) : (psV3Publish c p).cfg = c.cfg := (psV3Publish_fr c p).1
@[simp] theorem psV3Publish_mps (c : C) (p : Pkt) : (psV3Publish c p).s.mpsSend = c.s.mpsSend := (psV3Publish_fr c p).2

theorem psV5PublishTail_fr (c : C) (p : Pkt) (rel : Option Nat) : Fr c (psV5PublishTail c p rel) := by
  unfold psV5PublishTail
  (repeat' split) <;> simp [Fr, apply_ite C.cfg, apply_ite C.s, apply_ite St.mpsSend]
@[simp] theorem psV5PublishTail_cfg (c : C) (p : Pkt) (rel : Option Nat) : (psV5PublishTail c p rel).cfg = c.cfg := (psV5PublishTail_fr c p rel).1
@[simp] theorem psV5PublishTail_mps (c : C) (p : Pkt) (rel : Option Nat) : (psV5PublishTail c p rel).s.mpsSend = c.s.mpsSend := (psV5PublishTail_fr c p rel).2

theorem psV5PublishAlias_fr (c : C) (p : Pkt) (rel : Option Nat) (v : Bool) : Fr c (psV5PublishAlias c p rel v) := by
  unfold psV5PublishAlias
  (repeat' split) <;> simp [Fr, apply_ite C.cfg, apply_ite C.s, apply_ite St.mpsSend]
@[simp] theorem psV5PublishAlias_cfg (c : C) (p : Pkt) (rel : Option Nat) (v : Bool) : (psV5PublishAlias c p rel v).cfg = c.cfg := (psV5PublishAlias_fr c p rel v).1
@[simp] theorem psV5PublishAlias_mps (c : C) (p : Pkt) (rel : Option Nat) (v : Bool) : (psV5PublishAlias c p rel v).s.mpsSend = c.s.mpsSend := (psV5PublishAlias_fr c p rel v).2

theorem psV5Publish_fr (c : C) (p : Pkt) : Fr c (psV5Publish c p) := by
  unfold psV5Publish
  (repeat' split) <;> (try simp only []) <;> (repeat' split) <;>
    simp [Fr, apply_ite C.cfg, apply_ite C.s, apply_ite St.mpsSend]
@[simp] theorem psV5Publish_cfg (c : C) (p : Pkt) : (psV5Publish c p).cfg = c.cfg := (psV5Publish_fr c p).1
@[simp] theorem psV5Publish_mps (c : C) (p : Pkt) : (psV5Publish c p).s.mpsSend = c.s.mpsSend := (psV5Publish_fr c p).2

theorem psV3Simple_fr (c : C) (p : Pkt) : Fr c (psV3Simple c p) := by
  unfold psV3Simple
  (repeat' split) <;> simp [Fr, apply_ite C.cfg, apply_ite C.s, apply_ite St.mpsSend]
@[simp] theorem psV3Simple_cfg (c : C) (p : Pkt) : (psV3Simple c p).cfg = c.cfg := (psV3Simple_fr c p).1
@[simp] theorem psV3Simple_mps (c : C) (p : Pkt) : (psV3Simple c p).s.mpsSend = c.s.mpsSend := (psV3Simple_fr c p).2

theorem psV5Simple_fr (c : C) (p : Pkt) : Fr c (psV5Simple c p) := by
  unfold psV5Simple
  (repeat' split) <;> simp [Fr, apply_ite C.cfg, apply_ite C.s, apply_ite St.mpsSend]
@[simp] theorem psV5Simple_cfg (c : C) (p : Pkt) : (psV5Simple c p).cfg = c.cfg := (psV5Simple_fr c p).1
@[simp] theorem psV5Simple_mps (c : C) (p : Pkt) : (psV5Simple c p).s.mpsSend = c.s.mpsSend := (psV5Simple_fr c p).2

theorem psV5Puback_fr (c : C) (p : Pkt) : Fr c (psV5Puback c p) := by
  unfold psV5Puback
  (repeat' split) <;> simp [Fr, apply_ite C.cfg, apply_ite C.s, apply_ite St.mpsSend]
@[simp] theorem psV5Puback_cfg (c : C) (p : Pkt) : (psV5Puback c p).cfg = c.cfg := (psV5Puback_fr c p).1
@[simp] theorem psV5Puback_mps (c : C) (p : Pkt) : (psV5Puback c p).s.mpsSend = c.s.mpsSend := (psV5Puback_fr c p).2

theorem psV5Pubrec_fr (c : C) (p : Pkt) : Fr c (psV5Pubrec c p) := by
  unfold psV5Pubrec
  (repeat' split) <;> simp [Fr, apply_ite C.cfg, apply_ite C.s, apply_ite St.mpsSend]
@[simp] theorem psV5Pubrec_cfg (c : C) (p : Pkt) : (psV5Pubrec c p).cfg = c.cfg := (psV5Pubrec_fr c p).1
@[simp] theorem psV5Pubrec_mps (c : C) (p : Pkt) : (psV5Pubrec c p).s.mpsSend = c.s.mpsSend := (psV5Pubrec_fr c p).2

theorem psV5Pubcomp_fr (c : C) (p : Pkt) : Fr c (psV5Pubcomp c p) := by
  unfold psV5Pubcomp
  (repeat' split) <;> simp [Fr, apply_ite C.cfg, apply_ite C.s, apply_ite St.mpsSend]
@[simp] theorem psV5Pubcomp_cfg (c : C) (p : Pkt) : (psV5Pubcomp c p).cfg = c.cfg := (psV5Pubcomp_fr c p).1
@[simp] theorem psV5Pubcomp_mps (c : C) (p : Pkt) : (psV5Pubcomp c p).s.mpsSend = c.s.mpsSend := (psV5Pubcomp_fr c p).2

theorem psPubrel_fr (c : C) (p : Pkt) : Fr c (psPubrel c p) := by
  unfold psPubrel
  (repeat' split) <;> simp [Fr, apply_ite C.cfg, apply_ite C.s, apply_ite St.mpsSend]
@[simp] theorem psPubrel_cfg (c : C) (p : Pkt) : (psPubrel c p).cfg = c.cfg := (psPubrel_fr c p).1
@[simp] theorem psPubrel_mps (c : C) (p : Pkt) : (psPubrel c p).s.mpsSend = c.s.mpsSend := (psPubrel_fr c p).2

theorem psSubUnsub_fr (c : C) (p : Pkt) : Fr c (psSubUnsub c p) := by
  unfold psSubUnsub
  (repeat' split) <;> simp [Fr, apply_ite C.cfg, apply_ite C.s, apply_ite St.mpsSend]
@[simp] theorem psSubUnsub_cfg (c : C) (p : Pkt) : (psSubUnsub c p).cfg = c.cfg := (psSubUnsub_fr c p).1
@[simp] theorem psSubUnsub_mps (c : C) (p : Pkt) : (psSubUnsub c p).s.mpsSend = c.s.mpsSend := (psSubUnsub_fr c p).2

theorem psPingreq_fr (c : C) (p : Pkt) : Fr c (psPingreq c p) := by
  unfold psPingreq
  (repeat' split) <;> simp [Fr, apply_ite C.cfg, apply_ite C.s, apply_ite St.mpsSend]
@[simp] theorem psPingreq_cfg (c : C) (p : Pkt) : (psPingreq c p).cfg = c.cfg := (psPingreq_fr c p).1
@[simp] theorem psPingreq_mps (c : C) (p : Pkt) : (psPingreq c p).s.mpsSend = c.s.mpsSend := (psPingreq_fr c p).2

theorem psV5Auth_fr (c : C) (p : Pkt) : Fr c (psV5Auth c p) := by
  unfold psV5Auth
  (repeat' split) <;> simp [Fr, apply_ite C.cfg, apply_ite C.s, apply_ite St.mpsSend]
@[simp] theorem psV5Auth_cfg (c : C) (p : Pkt) : (psV5Auth c p).cfg = c.cfg := (psV5Auth_fr c p).1
@[simp] theorem psV5Auth_mps (c : C) (p : Pkt) : (psV5Auth c p).s.mpsSend = c.s.mpsSend := (psV5Auth_fr c p).2

theorem processSend_fr (c : C) (p : Pkt) : Fr c (processSend c p) := by
  unfold processSend
  (repeat' split) <;> simp [Fr, apply_ite C.cfg, apply_ite C.s, apply_ite St.mpsSend]
@[simp] theorem processSend_cfg (c : C) (p : Pkt) : (processSend c p).cfg = c.cfg := (processSend_fr c p).1
@[simp] theorem processSend_mps (c : C) (p : Pkt) : (processSend c p).s.mpsSend = c.s.mpsSend := (processSend_fr c p).2

theorem refuseSend_fr (c : C) (e : Nat) (p : Pkt) : Fr c (refuseSend c e p) := by
  unfold refuseSend
  (repeat' split) <;> simp [Fr, apply_ite C.cfg, apply_ite C.s, apply_ite St.mpsSend]
@[simp] theorem refuseSend_cfg (c : C) (e : Nat) (p : Pkt) : (refuseSend c e p).cfg = c.cfg := (refuseSend_fr c e p).1
@[simp] theorem refuseSend_mps (c : C) (e : Nat) (p : Pkt) : (refuseSend c e p).s.mpsSend = c.s.mpsSend := (refuseSend_fr c e p).2

theorem send_fr (c : C) (p : Pkt) : Fr c (send c p) := by
  unfold send
  (repeat' split) <;> simp [Fr, apply_ite C.cfg, apply_ite C.s, apply_ite St.mpsSend]
@[simp] theorem send_cfg (c : C) (p : Pkt) : (send c p).cfg = c.cfg := (send_fr c p).1
@[simp] theorem send_mps (c : C) (p : Pkt) : (send c p).s.mpsSend = c.s.mpsSend := (send_fr c p).2

end MqttVerif.Conn
