import MqttVerif.Conn.Lemmas.NoPanicRange
/-!
# C05 helper — stored identifiers stay inside the allocator's range (receive side, other calls)
-/
set_option linter.unusedSimpArgs false
set_option linter.unusedVariables false
namespace MqttVerif.Conn.Rng
open MqttVerif MqttVerif.Conn

/-! ## the receive side -/

@[simp] theorem K_prV3Publish (c : C) (x : Except Nat Pkt) : K (prV3Publish c x) = K c := by
  unfold prV3Publish; kk
@[simp] theorem K_prV5PublishAlias (c : C) (p : Pkt) : K (prV5PublishAlias c p).1 = K c := by
  unfold prV5PublishAlias; kk
@[simp] theorem K_prV5Publish (c : C) (x : Except Nat Pkt) : K (prV5Publish c x) = K c := by
  unfold prV5Publish
  split
  · kk
  · have h := K_prV5PublishAlias c ‹Pkt›
    generalize prV5PublishAlias c ‹Pkt› = r at h ⊢
    obtain ⟨c1, o⟩ := r
    cases o with
    | none => exact h
    | some p' =>
      refine Eq.trans ?_ h
      simp only []
      simp [ite_K]
      k_tac
@[simp] theorem K_prPubrel (c : C) (x : Except Nat Pkt) : K (prPubrel c x) = K c := by
  unfold prPubrel; kk
@[simp] theorem K_prPlain (c : C) (x : Except Nat Pkt) : K (prPlain c x) = K c := by
  unfold prPlain; kk
@[simp] theorem K_prPingreq (c : C) (x : Except Nat Pkt) : K (prPingreq c x) = K c := by
  unfold prPingreq; kk
@[simp] theorem K_prPingresp (c : C) (x : Except Nat Pkt) : K (prPingresp c x) = K c := by
  unfold prPingresp; kk
@[simp] theorem K_prDisconnect (c : C) (x : Except Nat Pkt) : K (prDisconnect c x) = K c := by
  unfold prDisconnect; kk
@[simp] theorem K_prSubUnsuback (c : C) (b : Bool) (x : Except Nat Pkt) : K (prSubUnsuback c b x) = K c := by
  unfold prSubUnsuback; kk
@[simp] theorem K_notifyTimerFired (c : C) (k : Timer) : K (notifyTimerFired c k) = K c := by
  unfold notifyTimerFired; kk
@[simp] theorem K_setPingreqSendInterval (c : C) (d : Option Nat) : K (setPingreqSendInterval c d) = K c := by
  unfold setPingreqSendInterval; kk

theorem sr_prV3Connect {L H : Nat} {c : C} (h : SR L H (K c)) (x : Except Nat Pkt) :
    SR L H (K (prV3Connect c x)) := by
  unfold prV3Connect
  split
  · sr_close h
  · simp only []
    split
    · simp only [K_push, K_refreshPingreqRecv]
      split
      · apply sr_clearStoreRelated; kk_sr h
      · kk_sr h
    · rw [K_err]; exact sr_psV3Connack (by sr_close h) _

theorem sr_prV5Connect {L H : Nat} {c : C} (h : SR L H (K c)) (x : Except Nat Pkt) :
    SR L H (K (prV5Connect c x)) := by
  unfold prV5Connect
  split
  · sr_close h
  · simp only []
    split
    · simp only [K_push, K_refreshPingreqRecv, K_fold_connectRecvProp]
      split
      · apply sr_clearStoreRelated; kk_sr h
      · kk_sr h
    · rw [K_err]; exact sr_psV5Connack (by sr_close h) _

theorem sr_prV3Connack {L H : Nat} {c : C} (h : SR L H (K c)) (x : Except Nat Pkt) :
    SR L H (K (prV3Connack c x)) := by
  unfold prV3Connack
  split
  · sr_close h
  · split
    · rw [K_push]
      split
      · split
        · exact sr_resendStored (by sr_close h)
        · exact sr_clearStoreRelated (by sr_close h)
      · exact h
    · sr_close h

theorem sr_connackRecvProp {L H : Nat} {c : C} (h : SR L H (K c)) (id v : Nat) :
    SR L H (K (connackRecvProp c id v)) := by
  unfold connackRecvProp
  (repeat' (first | split | (simp only []; split))) <;>
    first
    | exact h
    | (apply sr_clearStoreRelated; exact h)
    | (sr_close h)

theorem sr_fold_connackRecvProp {L H : Nat} (l : List (Nat × Nat)) :
    ∀ c : C, SR L H (K c) → SR L H (K (propsFold connackRecvProp c l)) := by
  induction l with
  | nil => intro c h; exact h
  | cons x rest ih => intro c h; exact ih _ (sr_connackRecvProp h x.1 x.2)

theorem sr_prV5Connack {L H : Nat} {c : C} (h : SR L H (K c)) (x : Except Nat Pkt) :
    SR L H (K (prV5Connack c x)) := by
  unfold prV5Connack
  split
  · sr_close h
  · split
    · rename_i p
      rw [K_push]
      split
      · simp only []
        have h1 := sr_fold_connackRecvProp (L := L) (H := H) p.props
          { c with s := { c.s with status := .connected } } h
        split
        · exact sr_resendStored h1
        · exact sr_clearStoreRelated h1
      · exact h
    · first | sr_close h | (split <;> sr_close h)

theorem sr_prPuback {L H : Nat} {c : C} (h : SR L H (K c)) (x : Except Nat Pkt) :
    SR L H (K (prPuback c x)) := by
  unfold prPuback
  split
  · sr_close h
  · rename_i p
    simp only []
    split
    · have h1 : SR L H (K { c with s := { c.s with puback := del (p.pid.getD 0) c.s.puback, store := storeErase p.ver Kind.puback (p.pid.getD 0) c.s.store } }) :=
        sr_of_sub h rfl rfl (fun x hx => mem_storeErase hx)
      kk_sr h1
    · sr_close h

theorem sr_prPubcomp {L H : Nat} {c : C} (h : SR L H (K c)) (x : Except Nat Pkt) :
    SR L H (K (prPubcomp c x)) := by
  unfold prPubcomp
  split
  · sr_close h
  · rename_i p
    simp only []
    split
    · have h1 : SR L H (K { c with s := { c.s with pubcomp := del (p.pid.getD 0) c.s.pubcomp, store := storeErase p.ver Kind.pubcomp (p.pid.getD 0) c.s.store } }) :=
        sr_of_sub h rfl rfl (fun x hx => mem_storeErase hx)
      kk_sr h1
    · sr_close h

theorem sr_prPubrec {L H : Nat} {c : C} (h : SR L H (K c)) (x : Except Nat Pkt) :
    SR L H (K (prPubrec c x)) := by
  unfold prPubrec
  split
  · sr_close h
  · rename_i p
    simp only []
    split
    · have h1 : SR L H (K { c with s := { c.s with pubrec := del (p.pid.getD 0) c.s.pubrec, store := storeErase p.ver Kind.pubrec (p.pid.getD 0) c.s.store } }) :=
        sr_of_sub h rfl rfl (fun x hx => mem_storeErase hx)
      generalize ({ c with s := { c.s with pubrec := del (p.pid.getD 0) c.s.pubrec, store := storeErase p.ver Kind.pubrec (p.pid.getD 0) c.s.store } } : C) = c1 at h1
      simp only [K_push, K_refreshPingreqRecv]
      split
      · split
        · exact sr_psPubrel h1 _
        · exact h1
      · sr_close h1
    · sr_close h

theorem sr_dispatchRecv {L H : Nat} {c : C} (h : SR L H (K c)) (t : Nat) (x : Except Nat Pkt) :
    SR L H (K (dispatchRecv c t x)) := by
  unfold dispatchRecv
  (repeat' split) <;>
    first
    | exact sr_prV3Connect h x | exact sr_prV5Connect h x | exact sr_prV3Connack h x
    | exact sr_prV5Connack h x | exact sr_prPuback h x | exact sr_prPubrec h x
    | exact sr_prPubcomp h x
    | (sr_close h)

theorem sr_processRecvPacket {L H : Nat} {c : C} (h : SR L H (K c)) (fh : Nat) (data : List Nat)
    (parse : Nat → Except Nat Pkt) : SR L H (K (processRecvPacket c fh data parse)) := by
  unfold processRecvPacket
  (repeat' (first | split | (simp only []; split))) <;>
    first
    | exact sr_dispatchRecv h _ _
    | (apply sr_prV3Connect; exact h)
    | (apply sr_prV5Connect; exact h)
    | (sr_close h)

theorem sr_recv {L H : Nat} {c : C} (h : SR L H (K c)) (inp : List Nat)
    (parse : Nat → Nat → List Nat → Except Nat Pkt) : SR L H (K (recv c inp parse).1) := by
  unfold recv
  obtain ⟨pb, out, rest⟩ := Framing.feed c.s.pb inp
  simp only []
  cases out with
  | none => exact h
  | some o =>
    cases o with
    | complete fh data => exact sr_processRecvPacket (c := { c with s := { c.s with pb := pb } }) h _ _ _
    | error =>
      simp only [K_err, K_push, K_cancelTimers]; exact h


/-! ## the remaining calls -/

theorem releaseAll_lowest (c : C) (l : List Nat) : (releaseAll c l).s.pidMan.lowest = c.s.pidMan.lowest :=
  congrArg (·.1) (K_releaseAll l c)
theorem releaseAll_highest (c : C) (l : List Nat) : (releaseAll c l).s.pidMan.highest = c.s.pidMan.highest :=
  congrArg (·.2.1) (K_releaseAll l c)
theorem releaseAll_store (c : C) (l : List Nat) : (releaseAll c l).s.store = c.s.store :=
  congrArg (·.2.2) (K_releaseAll l c)

theorem sr_notifyClosed {L H : Nat} {c : C} (h : SR L H (K c)) : SR L H (K (notifyClosed c)) := by
  unfold notifyClosed
  simp only [K_cancelTimers]
  split
  · refine sr_of_sub h ?_ ?_ (by simp)
    · simp [releaseAll_lowest]
    · simp [releaseAll_highest]
  · refine sr_of_sub h ?_ ?_ ?_
    · simp [releaseAll_lowest]
    · simp [releaseAll_highest]
    · simp [releaseAll_store]

theorem sr_eraseStoredPublish {L H : Nat} {c : C} (h : SR L H (K c)) (id : Nat) :
    SR L H (K (eraseStoredPublish c id)) := by
  unfold eraseStoredPublish
  simp only []
  split
  · rw [K_releaseIfUsed, K_decSendCount]
    exact sr_of_sub h rfl rfl (fun x hx => mem_storeErasePublish hx)
  · exact h

/-- a successful `register_packet_id` is for an identifier inside the allocator's range (needs
    the allocator's representation invariant: free intervals lie inside the range) -/
theorem useValue_range {a : Alloc.A} (hp : PidWf a) {v : Nat} (h : (Alloc.useValue a v).1 = true) :
    a.lowest ≤ v ∧ v ≤ a.highest := by
  obtain ⟨sp, r⟩ := hp
  have hfree : Alloc.Free a.pool v := by
    unfold Alloc.useValue at h
    cases hu : Alloc.useValueP v a.pool with
    | none => simp [hu] at h
    | some p' => exact (Alloc.useValueP_some r.ok hu).1
  have := (r.free v).1 hfree
  unfold Alloc.S.free at this
  have := r.lo; have := r.hi
  omega

theorem sr_restoreOne {L H : Nat} {c : C} (hp : PidWf c.s.pidMan) (h : SR L H (K c)) (p : Pkt) :
    SR L H (K (restoreOne c p)) ∧ PidWf (restoreOne c p).s.pidMan := by
  unfold restoreOne
  split
  · exact ⟨h, hp⟩
  · simp only []
    have hb := use_bounds c.s.pidMan (p.pid.getD 0)
    have h0 : SR L H (K (register c (p.pid.getD 0)).2) := by
      have : K (register c (p.pid.getD 0)).2 = K c := by
        simp only [K_eq, register, hb.1, hb.2]
      rw [this]; exact h
    have hp0 : PidWf (register c (p.pid.getD 0)).2.s.pidMan := hp.useValue _
    split
    · rename_i hr
      have hrng : c.s.pidMan.lowest ≤ p.pid.getD 0 ∧ p.pid.getD 0 ≤ c.s.pidMan.highest := useValue_range hp hr
      have hrng' : (register c (p.pid.getD 0)).2.s.pidMan.lowest ≤ p.pid.getD 0 ∧
          p.pid.getD 0 ≤ (register c (p.pid.getD 0)).2.s.pidMan.highest := by
        simp only [register, hb.1, hb.2]; exact hrng
      generalize (register c (p.pid.getD 0)).2 = c1 at h0 hp0 hrng'
      have h1 : ∀ c2 : C, K c2 = K c1 → c2.s.pidMan = c1.s.pidMan →
          SR L H (K (if storeHas (p.pid.getD 0) c2.s.store = true then c2
            else { c2 with s := { c2.s with store := c2.s.store ++ [(p.pid.getD 0, p)] } })) ∧
          PidWf (if storeHas (p.pid.getD 0) c2.s.store = true then c2
            else { c2 with s := { c2.s with store := c2.s.store ++ [(p.pid.getD 0, p)] } }).s.pidMan := by
        intro c2 e ep
        have h2 : SR L H (K c2) := by rw [e]; exact h0
        split
        · exact ⟨h2, by rw [ep]; exact hp0⟩
        · refine ⟨?_, by show PidWf c2.s.pidMan; rw [ep]; exact hp0⟩
          have := SR.add (L := L) (H := H) (l := c2.s.pidMan.lowest) (h := c2.s.pidMan.highest) (st := c2.s.store)
            h2 p (id := p.pid.getD 0) (by rw [ep]; exact hrng')
          exact this
      split
      · exact h1 _ rfl rfl
      split
      · exact h1 _ rfl rfl
      · exact h1 _ rfl rfl
    · exact ⟨h0, hp0⟩

theorem sr_restorePackets {L H : Nat} (ps : List Pkt) :
    ∀ c : C, PidWf c.s.pidMan → SR L H (K c) → SR L H (K (restorePackets c ps)) := by
  induction ps with
  | nil => intro c _ h; exact h
  | cons p rest ih =>
    intro c hp h
    rw [restorePackets]
    exact ih _ (sr_restoreOne hp h p).2 (sr_restoreOne hp h p).1

/-- **every API call keeps the range invariant** (`hp`: the allocator's representation
    invariant, needed for `restorePackets` only) -/
theorem sr_step {L H : Nat} {cfg : Cfg} {s : St} (hp : PidWf s.pidMan)
    (h : SR L H (K { cfg := cfg, s := s })) (op : Op) : SR L H (K (step cfg s op)) := by
  cases op with
  | send p => exact sr_send h p
  | recv inp parse => exact sr_recv h inp parse
  | timer k => simp only [step, K_notifyTimerFired]; exact h
  | closed => exact sr_notifyClosed h
  | setInterval d => simp only [step, K_setPingreqSendInterval]; exact h
  | setFlag f b => cases f <;> exact h
  | setRespTimeout ms => exact h
  | acquire =>
    have := alloc_bounds s.pidMan
    show SR L H (K (acquire _).2)
    have e : K (acquire { cfg := cfg, s := s }).2 = K { cfg := cfg, s := s } := by
      simp only [K_eq, acquire, this.1, this.2]
    rw [e]; exact h
  | register id =>
    have := use_bounds s.pidMan id
    have e : K (register { cfg := cfg, s := s } id).2 = K { cfg := cfg, s := s } := by
      simp only [K_eq, register, this.1, this.2]
    show SR L H (K (register _ id).2)
    rw [e]; exact h
  | release id =>
    have e : K (releasePacketId { cfg := cfg, s := s } id) = K { cfg := cfg, s := s } :=
      releasePacketId_ind (Q := fun c' => K c' = K { cfg := cfg, s := s }) _ id
        (K_releaseIfUsed _ _) (fun h => h) (fun h => (K_decSendCount _).trans h)
    show SR L H (K (releasePacketId _ id))
    rw [e]; exact h
  | erase id => exact sr_eraseStoredPublish h id
  | restoreHandled ids => exact h
  | restorePackets ps => exact sr_restorePackets ps _ hp h

end MqttVerif.Conn.Rng
