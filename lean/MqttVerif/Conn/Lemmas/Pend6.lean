import MqttVerif.Conn.Lemmas.Pend5
/-!
# C08 helper — the ghost `pend` against the model: PUBLISH received, the acknowledgement handlers,
CONNECT / CONNACK received
-/
set_option linter.unusedSimpArgs false
set_option linter.unusedVariables false
namespace MqttVerif.Conn.Pend
open MqttVerif MqttVerif.Conn

/-- the part of `process_recv_v5_0_publish` after the alias stage (copied from the model) -/
def pubTail (c : C) (p p' : Pkt) : C :=
      let rmExceeded : Bool := match c.s.recvMax with
        | some m => decide (c.s.publishRecv.length ≥ m)
        | none => false
      if p.qos > 0 ∧ p.pid.isNone then c.setPanic "core.rs:process_recv_v5_0_publish:packet_id().unwrap()"
      else if p.qos > 0 ∧ rmExceeded then handleV5Error c eRMExceeded
      else
        let id := p.pid.getD 0
        let already := p.qos = 2 ∧ id ∈ c.s.handled
        let c := if p.qos > 0 then { c with s := { c.s with publishRecv := ins id c.s.publishRecv } } else c
        let c := if p.qos = 2 then { c with s := { c.s with handled := ins id c.s.handled } } else c
        let pubackSend := p.qos = 1 ∧ c.s.autoPub ∧ c.s.status = .connected
        let pubrecSend := p.qos = 2 ∧ c.s.status = .connected ∧ (c.s.autoPub ∨ already)
        let c := if pubackSend then
            (if id = 0 then c.setPanic "core.rs:process_recv_v5_0_publish:puback.build().unwrap()" else c)
            |> fun c => psV5Puback c (mkAck c.cfg 5 .puback id)
          else c
        let c := if pubrecSend then
            (if id = 0 then c.setPanic "core.rs:process_recv_v5_0_publish:pubrec.build().unwrap()" else c)
            |> fun c => psV5Pubrec c (mkAck c.cfg 5 .pubrec id)
          else c
        let c := refreshPingreqRecv c
        if !already then c.push (.recv p') else c

theorem prV5Publish_ok (c : C) (p : Pkt) :
    prV5Publish c (.ok p) = match (prV5PublishAlias c p).2 with
      | none => (prV5PublishAlias c p).1
      | some p' => pubTail (prV5PublishAlias c p).1 p p' := rfl

theorem fr_pubTail (c : C) (p p' : Pkt) : Fr c (pubTail c p p') := by
  unfold pubTail
  extract_lets rmExceeded id already s1 c1 s2 c2 pubackSend pubrecSend c3 c4 c5
  have f1 : Fr c c1 := by simp only [c1]; split <;> first | exact fr_of_eq rfl rfl rfl | exact Fr.refl _
  have f2 : Fr c1 c2 := by simp only [c2]; split <;> first | exact fr_of_eq rfl rfl rfl | exact Fr.refl _
  have f3 : Fr c2 c3 := by
    simp only [c3]
    split
    · refine Fr.trans ?_ (fr_psV5Puback _ _ (by simp))
      split
      · exact fr_setPanic _ _
      · exact Fr.refl _
    · exact Fr.refl _
  have f4 : Fr c3 c4 := by
    simp only [c4]
    split
    · refine Fr.trans ?_ (fr_psV5Pubrec _ _ (by simp))
      split
      · exact fr_setPanic _ _
      · exact Fr.refl _
    · exact Fr.refl _
  have f5 : Fr c c5 := (f1.trans (f2.trans (f3.trans f4))).trans (fr_refreshPingreqRecv _)
  clear_value c5 rmExceeded
  split
  · exact fr_setPanic _ _
  split
  · exact fr_handleV5Error _ _
  split
  · exact f5.trans (fr_push (fun g => pendEv_recv_sub g _))
  · exact f5

theorem fr_prV5Publish (c : C) (x : Except Nat Pkt) : Fr c (prV5Publish c x) := by
  cases x with
  | error e =>
    unfold prV5Publish
    simp only []
    split
    · exact fr_handleV5Error _ _
    · exact fr_err _ _
  | ok p =>
    rw [prV5Publish_ok]
    split
    · exact fr_prV5PublishAlias c p
    · exact (fr_prV5PublishAlias c p).trans (fr_pubTail _ _ _)

/-! ## PUBACK / PUBREC / PUBCOMP received -/

/-- an entry with key `id` that survived `Store::erase(k, id)` awaits another response packet -/
theorem erase_survivor {c : C} (hs : StoreOk c.s) {v : Nat} {k : Kind} {id : Nat} (hv : v = c.s.ver)
    {x : Nat × Pkt} (hx : x ∈ storeErase v k id c.s.store) (hid : x.1 = id)
    (hk : x.2.kind = .publish ∨ x.2.kind = .pubrel) :
    respOf x.2 ≠ k ∧ x.1 ∈ waitOf c.s (respOf x.2) := by
  have hm := (storeErase_sublist v k id c.s.store).subset hx
  obtain ⟨_, e3, _, e5⟩ := hs.ent x hm hk
  have := storeErase_keeps hs.nodup hx hid
  refine ⟨fun e => this ⟨e, e3.trans hv.symm⟩, e5⟩

theorem respOf_cases (p : Pkt) : respOf p = .pubcomp ∨ respOf p = .pubrec ∨ respOf p = .puback := by
  unfold respOf; (repeat' split) <;> simp

theorem inv_prPuback {g : Gh} {c : C} (h : Inv g c) (x : Except Nat Pkt)
    (hx : ∀ p, x = .ok p → p.ver = c.s.ver ∧ isAck p = true) : Inv g (prPuback c x) := by
  unfold prPuback
  split
  · exact h.fr (fr_vErr _ _)
  · rename_i p
    obtain ⟨hv, hack⟩ := hx p rfl
    simp only []
    split
    · have h1 : InvM (some (p.pid.getD 0)) g ({ c with s := { c.s with puback := del (p.pid.getD 0) c.s.puback, store := storeErase p.ver .puback (p.pid.getD 0) c.s.store } } : C) := by
        refine InvM.del h rfl rfl rfl (fun i hi hm => mem_del.2 ⟨hm, hi⟩) (fun i hi hm => hm) (fun i hi hm => hm)
          (storeErase_sublist _ _ _ _) ?_
        intro y hy hid hky
        obtain ⟨a, b⟩ := erase_survivor h.store hv hy hid hky
        rcases respOf_cases y.2 with e | e | e
        · rw [e] at b ⊢; exact b
        · rw [e] at b ⊢; exact b
        · exact absurd e a
      refine InvM.unmask_recv (InvM.fr ?_ h1) p hack rfl
      refine Fr.trans ?_ (fr_refreshPingreqRecv _)
      split
      · exact (fr_releaseIfUsed _ _).trans (fr_decSendCount _)
      · exact fr_releaseIfUsed _ _
    · exact h.fr (fr_vErr _ _)

theorem inv_prPubcomp {g : Gh} {c : C} (h : Inv g c) (x : Except Nat Pkt)
    (hx : ∀ p, x = .ok p → p.ver = c.s.ver ∧ isAck p = true) : Inv g (prPubcomp c x) := by
  unfold prPubcomp
  split
  · exact h.fr (fr_vErr _ _)
  · rename_i p
    obtain ⟨hv, hack⟩ := hx p rfl
    simp only []
    split
    · have h1 : InvM (some (p.pid.getD 0)) g ({ c with s := { c.s with pubcomp := del (p.pid.getD 0) c.s.pubcomp, store := storeErase p.ver .pubcomp (p.pid.getD 0) c.s.store } } : C) := by
        refine InvM.del h rfl rfl rfl (fun i hi hm => hm) (fun i hi hm => hm) (fun i hi hm => mem_del.2 ⟨hm, hi⟩)
          (storeErase_sublist _ _ _ _) ?_
        intro y hy hid hky
        obtain ⟨a, b⟩ := erase_survivor h.store hv hy hid hky
        rcases respOf_cases y.2 with e | e | e
        · exact absurd e a
        · rw [e] at b ⊢; exact b
        · rw [e] at b ⊢; exact b
      refine InvM.unmask_recv (InvM.fr ?_ h1) p hack rfl
      refine Fr.trans ?_ (fr_refreshPingreqRecv _)
      split
      · exact (fr_releaseIfUsed _ _).trans (fr_decSendCount _)
      · exact fr_releaseIfUsed _ _
    · exact h.fr (fr_vErr _ _)

theorem inv_prPubrec {g : Gh} {c : C} (h : Inv g c) (x : Except Nat Pkt) (hv0 : c.s.ver ≠ 0)
    (hx : ∀ p, x = .ok p → p.ver = c.s.ver ∧ isAck p = true) : Inv g (prPubrec c x) := by
  unfold prPubrec
  split
  · exact h.fr (fr_vErr _ _)
  · rename_i p
    obtain ⟨hv, hack⟩ := hx p rfl
    simp only []
    split
    · have h1 : InvM (some (p.pid.getD 0)) g ({ c with s := { c.s with pubrec := del (p.pid.getD 0) c.s.pubrec, store := storeErase p.ver .pubrec (p.pid.getD 0) c.s.store } } : C) := by
        refine InvM.del h rfl rfl rfl (fun i hi hm => hm) (fun i hi hm => mem_del.2 ⟨hm, hi⟩) (fun i hi hm => hm)
          (storeErase_sublist _ _ _ _) ?_
        intro y hy hid hky
        obtain ⟨a, b⟩ := erase_survivor h.store hv hy hid hky
        rcases respOf_cases y.2 with e | e | e
        · rw [e] at b ⊢; exact b
        · exact absurd e a
        · rw [e] at b ⊢; exact b
      refine InvM.unmask_recv (InvM.fr (fr_refreshPingreqRecv _) ?_) p hack rfl
      split
      · split
        · exact inv_psPubrel h1 _ rfl hv hv0
        · exact h1
      · exact h1.fr ((fr_releaseIfUsed _ _).trans (fr_decSendCount _))
    · exact h.fr (fr_vErr _ _)


/-! ## CONNECT / CONNACK received -/

/-- `Good` relative to a restriction `P` on the ghost the call starts from -/
def GoodP (P : Gh → Prop) (c c' : C) : Prop :=
  (∀ g, P g → Inv g c → Inv g c') ∨ (Resets c'.ev ∧ (StoreOk c.s → Inv [] c'))

theorem Good.toP {P : Gh → Prop} {c c' : C} (h : Good c c') : GoodP P c c' := by
  rcases h with h | h
  · exact .inl (fun g _ => h g)
  · exact .inr h

theorem GoodP.of_fr {P : Gh → Prop} {c c' : C} (f : Fr c c') : GoodP P c c' := (Good.of_fr f).toP

theorem v3ConnectErrRc_ne (e : Nat) : v3ConnectErrRc e ≠ 0 := by
  unfold v3ConnectErrRc; (repeat' split) <;> simp
theorem v5ConnectErrRc_ne (e : Nat) : v5ConnectErrRc e ≠ 0 := by
  unfold v5ConnectErrRc; (repeat' split) <;> simp

theorem mem_push_of_mem {c : C} {e e' : Ev} (h : e ∈ c.ev) : e ∈ (c.push e').ev := by
  simp [h]

theorem good_prV3Connect (c : C) (x : Except Nat Pkt) (hev : c.ev = [])
    (hx : ∀ p, x = .ok p → p.kind = .connect) : Good c (prV3Connect c x) := by
  unfold prV3Connect
  split
  · exact .of_fr (fr_handleV3Error _ _)
  · simp only []
    split
    · rename_i p
      right
      refine ⟨.inr (connectionStart_of_mem_recv (.inl (hx p rfl)) (mem_push_self _ _)), ?_⟩
      intro hs
      refine InvM.fr ((fr_refreshPingreqRecv _).trans (fr_push (fun g => pendEv_recv_sub g _))) ?_
      have hY : ∀ Y : C, Y.ev = c.ev → W Y = W c →
          Inv [] (if p.clean = true then clearStoreRelated Y else { Y with s := { Y.s with needStore := true } }) := by
        intro Y h1 h2
        have hg : pendStep [] Y.ev = [] := by rw [h1, hev]; rfl
        split
        · exact inv_clear hg
        · exact inv_of_empty (c := { Y with s := { Y.s with needStore := true } }) hg (hs.congr (c := c) h2)
      apply hY
      · split <;> rfl
      · split <;> rfl
    · rename_i e
      left
      intro g h
      refine InvM.fr (fr_err _ _) (inv_psV3Connack _ (by simp) h.agree (h.store.congr (c := c) rfl) ?_)
      intro _ hrc
      simp only [mkV3Connack, Option.some.injEq] at hrc
      exact absurd hrc (v3ConnectErrRc_ne e)

theorem good_prV5Connect (c : C) (x : Except Nat Pkt) (hev : c.ev = [])
    (hx : ∀ p, x = .ok p → p.kind = .connect) :
    GoodP (fun g => g = [] ∨ 5 ≤ c.s.mpsSend) c (prV5Connect c x) := by
  unfold prV5Connect
  split
  · exact .of_fr (fr_handleV5Error _ _)
  · simp only []
    split
    · rename_i p
      right
      refine ⟨.inr (connectionStart_of_mem_recv (.inl (hx p rfl)) (mem_push_self _ _)), ?_⟩
      intro hs
      refine InvM.fr ((fr_propsFold _ fr_connectRecvProp _ _).trans ((fr_refreshPingreqRecv _).trans (fr_push (fun g => pendEv_recv_sub g _)))) ?_
      have hY : ∀ Y : C, Y.ev = c.ev → W Y = W c →
          Inv [] (if p.clean = true then clearStoreRelated Y else Y) := by
        intro Y h1 h2
        have hg : pendStep [] Y.ev = [] := by rw [h1, hev]; rfl
        split
        · exact inv_clear hg
        · exact inv_of_empty hg (hs.congr (c := c) h2)
      apply hY
      · split <;> rfl
      · split <;> rfl
    · rename_i e
      left
      intro g hP h
      refine InvM.fr (fr_err _ _) (inv_psV5Connack _ (by simp) h.agree (h.store.congr (c := c) rfl) ?_)
      intro _ hrc
      rcases hrc with hrc | hsz
      · simp only [mkV5Connack, Option.some.injEq] at hrc
        exact absurd hrc (v5ConnectErrRc_ne e)
      · rcases hP with rfl | hP
        · show pendStep [] c.ev = []; rw [hev]; rfl
        · exfalso
          simp only [sizeOk, Pkt.sz, mkV5Connack, Bool.not_eq_false', decide_eq_true_eq] at hsz
          simp at hsz
          omega

theorem good_prV3Connack (c : C) (x : Except Nat Pkt) (hev : c.ev = [])
    (hx : ∀ p, x = .ok p → p.kind = .connack) : Good c (prV3Connack c x) := by
  unfold prV3Connack
  split
  · exact .of_fr (fr_handleV3Error _ _)
  split
  · rename_i p
    simp only []
    by_cases hrc : p.rc = some 0
    · right
      refine ⟨.inr (connectionStart_of_mem_recv (.inr ⟨hx p rfl, hrc⟩) (mem_push_self _ _)), ?_⟩
      intro hs
      refine InvM.fr (fr_push (fun g => pendEv_recv_sub g _)) ?_
      simp only [hrc, if_true]
      have hg : pendStep [] c.ev = [] := by rw [hev]; rfl
      split
      · exact inv_resendStored (c := { c with s := { c.s with status := .connected } })
          (inv_of_empty hg (hs.congr (c := c) rfl)) rfl hg
      · exact inv_clear (c := { c with s := { c.s with status := .connected } }) hg
    · simp only [hrc, if_false]
      exact .of_fr (fr_push (fun g => pendEv_recv_sub g _))
  · exact .of_fr (fr_handleV3Error _ _)

theorem connackRecvProp_status (c : C) (id v : Nat) : (connackRecvProp c id v).s.status = c.s.status := by
  unfold connackRecvProp clearStoreRelated
  (repeat' (first | split | (simp only []; split))) <;> rfl

/-- one CONNACK property: a frame, or the session reset (Session Expiry Interval 0) -/
theorem connackRecvProp_cases (c : C) (id v : Nat) :
    Fr c (connackRecvProp c id v) ∨
      connackRecvProp c id v = clearStoreRelated { c with s := { c.s with needStore := false } } := by
  unfold connackRecvProp
  (repeat' (first | split | (simp only []; split))) <;>
    first
    | exact .inr rfl
    | (left; fr_peel)

theorem inv_fold_connackRecvProp {g : Gh} : ∀ (l : List (Nat × Nat)) (c : C), Inv g c → pendStep g c.ev = [] →
    c.s.status = .connected →
    Inv g (propsFold connackRecvProp c l) ∧ pendStep g (propsFold connackRecvProp c l).ev = [] ∧
      (propsFold connackRecvProp c l).s.status = .connected := by
  intro l
  induction l with
  | nil => intro c h hg hst; exact ⟨h, hg, hst⟩
  | cons y rest ih =>
    intro c h hg hst
    obtain ⟨i, v⟩ := y
    rw [propsFold]
    have hst' := (connackRecvProp_status c i v).trans hst
    rcases connackRecvProp_cases c i v with f | e
    · refine ih _ (h.fr f) ?_ hst'
      have := f.gh g
      rw [hg] at this
      exact List.eq_nil_of_subset_nil this
    · refine ih _ ?_ ?_ hst'
      · rw [e]; exact inv_clear (c := { c with s := { c.s with needStore := false } }) hg
      · rw [e]; exact hg

theorem good_prV5Connack (c : C) (x : Except Nat Pkt) (hev : c.ev = [])
    (hx : ∀ p, x = .ok p → p.kind = .connack) : Good c (prV5Connack c x) := by
  unfold prV5Connack
  split
  · exact .of_fr (fr_handleV5Error _ _)
  split
  · rename_i p
    simp only []
    by_cases hrc : p.rc = some 0
    · right
      refine ⟨.inr (connectionStart_of_mem_recv (.inr ⟨hx p rfl, hrc⟩) (mem_push_self _ _)), ?_⟩
      intro hs
      refine InvM.fr (fr_push (fun g => pendEv_recv_sub g _)) ?_
      simp only [hrc, if_true]
      have hg : pendStep [] c.ev = [] := by rw [hev]; rfl
      obtain ⟨k1, k2, k3⟩ := inv_fold_connackRecvProp (g := []) p.props { c with s := { c.s with status := .connected } }
        (inv_of_empty hg (hs.congr (c := c) rfl)) hg rfl
      split
      · exact inv_resendStored k1 k3 k2
      · exact inv_clear k2
    · simp only [hrc, if_false]
      exact .of_fr (fr_push (fun g => pendEv_recv_sub g _))
  · exact .of_fr (fr_err _ _)

end MqttVerif.Conn.Pend
