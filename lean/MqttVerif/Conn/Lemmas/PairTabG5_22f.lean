import MqttVerif.Conn.Lemmas.PairSched
/-!
# Generated phase table (helper for `Props/C01L2c.lean`)

Two SAME-direction exchanges in flight: `startTwo v false P1 P2`, `P1` QoS 2 (identifier 1), `P2` QoS 2 (identifier 2).
`Ph`: the 39 shapes (with the notification / release counters) the pair passes through under ANY schedule of
`Act4` actions (found by a breadth-first search on concrete packets; that the table is right for arbitrary
packets and both versions is what `closure` proves, one lemma `cl_p<i>` per phase, by the step lemmas).
`sysOf`: the shape; `next`: the successor; `nS nC rC rS`: the PUBLISH notifications at the server / client application and
the identifiers released by the client / server in that step; `c1 c2 r1 r2`: has message 1 / 2 been notified, identifier
released (1 = yes; for a QoS 2 message and for the releases the counters are exact: `c?x`, `r?_step`).
-/
set_option linter.unusedSimpArgs false
set_option linter.unusedVariables false
namespace MqttVerif.Conn.Pair.G5_22f
open MqttVerif MqttVerif.Conn MqttVerif.Conn.Pair

inductive Ph
  | p0
  | p1
  | p2
  | p3
  | p4
  | p5
  | p6
  | p7
  | p8
  | p9
  | p10
  | p11
  | p12
  | p13
  | p14
  | p15
  | p16
  | p17
  | p18
  | p19
  | p20
  | p21
  | p22
  | p23
  | p24
  | p25
  | p26
  | p27
  | p28
  | p29
  | p30
  | p31
  | p32
  | p33
  | p34
  | p35
  | p36
  | p37
  | p38
deriving DecidableEq, Repr

def sysOf (v : Nat) (P1 P2 : Pkt) : Ph → Sys
  | .p0 =>
    { c := mkSt v true .connected [⟨1, 65535⟩] [] [] [] [] [] [],
      s := mkSt v false .connected [⟨3, 65535⟩] [(1, P1.asDup), (2, P2.asDup)] [] [2, 1] [] [] [],
      c2s := [], s2c := [P1, P2] }
  | .p1 =>
    { c := mkSt v true .connected [⟨1, 65535⟩] [] [] [] [] [1] (prl v [1]),
      s := mkSt v false .connected [⟨3, 65535⟩] [(1, P1.asDup), (2, P2.asDup)] [] [2, 1] [] [] [],
      c2s := [(ackN v .pubrec 1)], s2c := [P2] }
  | .p2 =>
    { c := mkSt v true .connected [⟨1, 65535⟩] [] [] [] [] [] [],
      s := mkSt v false .connected [⟨3, 65535⟩] [(1, P1.asDup), (2, P2.asDup)] [] [2, 1] [] [] [],
      c2s := [], s2c := [P1.asDup, P2.asDup] }
  | .p3 =>
    { c := mkSt v true .connected [⟨1, 65535⟩] [] [] [] [] [1] (prl v [1]),
      s := mkSt v false .connected [⟨3, 65535⟩] [(2, P2.asDup), (1, (ackN v .pubrel 1))] [] [2] [1] [] [],
      c2s := [], s2c := [P2, (ackN v .pubrel 1)] }
  | .p4 =>
    { c := mkSt v true .connected [⟨1, 65535⟩] [] [] [] [] [2, 1] (prl v [2, 1]),
      s := mkSt v false .connected [⟨3, 65535⟩] [(1, P1.asDup), (2, P2.asDup)] [] [2, 1] [] [] [],
      c2s := [(ackN v .pubrec 1), (ackN v .pubrec 2)], s2c := [] }
  | .p5 =>
    { c := mkSt v true .connected [⟨1, 65535⟩] [] [] [] [] [1] [],
      s := mkSt v false .connected [⟨3, 65535⟩] [(1, P1.asDup), (2, P2.asDup)] [] [2, 1] [] [] [],
      c2s := [], s2c := [P1.asDup, P2.asDup] }
  | .p6 =>
    { c := mkSt v true .connected [⟨1, 65535⟩] [] [] [] [] [1] (prl v [1]),
      s := mkSt v false .connected [⟨3, 65535⟩] [(1, P1.asDup), (2, P2.asDup)] [] [2, 1] [] [] [],
      c2s := [(ackN v .pubrec 1)], s2c := [P2.asDup] }
  | .p7 =>
    { c := mkSt v true .connected [⟨1, 65535⟩] [] [] [] [] [2, 1] (prl v [2, 1]),
      s := mkSt v false .connected [⟨3, 65535⟩] [(2, P2.asDup), (1, (ackN v .pubrel 1))] [] [2] [1] [] [],
      c2s := [(ackN v .pubrec 2)], s2c := [(ackN v .pubrel 1)] }
  | .p8 =>
    { c := mkSt v true .connected [⟨1, 65535⟩] [] [] [] [] [1] [],
      s := mkSt v false .connected [⟨3, 65535⟩] [(2, P2.asDup), (1, (ackN v .pubrel 1))] [] [2] [1] [] [],
      c2s := [], s2c := [P2.asDup, (ackN v .pubrel 1)] }
  | .p9 =>
    { c := mkSt v true .connected [⟨1, 65535⟩] [] [] [] [] [2, 1] [],
      s := mkSt v false .connected [⟨3, 65535⟩] [(1, P1.asDup), (2, P2.asDup)] [] [2, 1] [] [] [],
      c2s := [], s2c := [P1.asDup, P2.asDup] }
  | .p10 =>
    { c := mkSt v true .connected [⟨1, 65535⟩] [] [] [] [] [1] (prl v [1]),
      s := mkSt v false .connected [⟨3, 65535⟩] [(2, P2.asDup), (1, (ackN v .pubrel 1))] [] [2] [1] [] [],
      c2s := [], s2c := [P2.asDup, (ackN v .pubrel 1)] }
  | .p11 =>
    { c := mkSt v true .connected [⟨1, 65535⟩] [] [] [] [] [2, 1] (prl v [2, 1]),
      s := mkSt v false .connected [⟨3, 65535⟩] [(1, (ackN v .pubrel 1)), (2, (ackN v .pubrel 2))] [] [] [2, 1] [] [],
      c2s := [], s2c := [(ackN v .pubrel 1), (ackN v .pubrel 2)] }
  | .p12 =>
    { c := mkSt v true .connected [⟨1, 65535⟩] [] [] [] [] [2] (prl v [2]),
      s := mkSt v false .connected [⟨3, 65535⟩] [(2, P2.asDup), (1, (ackN v .pubrel 1))] [] [2] [1] [] [],
      c2s := [(ackN v .pubrec 2), (ackN v .pubcomp 1)], s2c := [] }
  | .p13 =>
    { c := mkSt v true .connected [⟨1, 65535⟩] [] [] [] [] [2, 1] [],
      s := mkSt v false .connected [⟨3, 65535⟩] [(2, P2.asDup), (1, (ackN v .pubrel 1))] [] [2] [1] [] [],
      c2s := [], s2c := [P2.asDup, (ackN v .pubrel 1)] }
  | .p14 =>
    { c := mkSt v true .connected [⟨1, 65535⟩] [] [] [] [] [2, 1] (prl v [2]),
      s := mkSt v false .connected [⟨3, 65535⟩] [(2, P2.asDup), (1, (ackN v .pubrel 1))] [] [2] [1] [] [],
      c2s := [(ackN v .pubrec 2)], s2c := [(ackN v .pubrel 1)] }
  | .p15 =>
    { c := mkSt v true .connected [⟨1, 65535⟩] [] [] [] [] [2, 1] (prl v [1]),
      s := mkSt v false .connected [⟨3, 65535⟩] [(1, P1.asDup), (2, P2.asDup)] [] [2, 1] [] [] [],
      c2s := [(ackN v .pubrec 1)], s2c := [P2.asDup] }
  | .p16 =>
    { c := mkSt v true .connected [⟨1, 65535⟩] [] [] [] [] [2] (prl v [2]),
      s := mkSt v false .connected [⟨3, 65535⟩] [(1, (ackN v .pubrel 1)), (2, (ackN v .pubrel 2))] [] [] [2, 1] [] [],
      c2s := [(ackN v .pubcomp 1)], s2c := [(ackN v .pubrel 2)] }
  | .p17 =>
    { c := mkSt v true .connected [⟨1, 65535⟩] [] [] [] [] [2, 1] [],
      s := mkSt v false .connected [⟨3, 65535⟩] [(1, (ackN v .pubrel 1)), (2, (ackN v .pubrel 2))] [] [] [2, 1] [] [],
      c2s := [], s2c := [(ackN v .pubrel 1), (ackN v .pubrel 2)] }
  | .p18 =>
    { c := mkSt v true .connected [⟨1, 65535⟩] [] [] [] [] [2] [],
      s := mkSt v false .connected [⟨3, 65535⟩] [(2, P2.asDup), (1, (ackN v .pubrel 1))] [] [2] [1] [] [],
      c2s := [], s2c := [P2.asDup, (ackN v .pubrel 1)] }
  | .p19 =>
    { c := mkSt v true .connected [⟨1, 65535⟩] [] [] [] [] [2, 1] (prl v [2]),
      s := mkSt v false .connected [⟨3, 65535⟩] [(1, (ackN v .pubrel 1)), (2, (ackN v .pubrel 2))] [] [] [2, 1] [] [],
      c2s := [], s2c := [(ackN v .pubrel 1), (ackN v .pubrel 2)] }
  | .p20 =>
    { c := mkSt v true .connected [⟨1, 65535⟩] [] [] [] [] [2, 1] (prl v [1]),
      s := mkSt v false .connected [⟨3, 65535⟩] [(2, P2.asDup), (1, (ackN v .pubrel 1))] [] [2] [1] [] [],
      c2s := [], s2c := [P2.asDup, (ackN v .pubrel 1)] }
  | .p21 =>
    { c := mkSt v true .connected [⟨1, 65535⟩] [] [] [] [] [2] (prl v [2]),
      s := mkSt v false .connected [⟨1, 1⟩, ⟨3, 65535⟩] [(2, (ackN v .pubrel 2))] [] [] [2] [] [],
      c2s := [], s2c := [(ackN v .pubrel 2)] }
  | .p22 =>
    { c := mkSt v true .connected [⟨1, 65535⟩] [] [] [] [] [] [],
      s := mkSt v false .connected [⟨3, 65535⟩] [(1, (ackN v .pubrel 1)), (2, (ackN v .pubrel 2))] [] [] [2, 1] [] [],
      c2s := [(ackN v .pubcomp 1), (ackN v .pubcomp 2)], s2c := [] }
  | .p23 =>
    { c := mkSt v true .connected [⟨1, 65535⟩] [] [] [] [] [2] [],
      s := mkSt v false .connected [⟨3, 65535⟩] [(1, (ackN v .pubrel 1)), (2, (ackN v .pubrel 2))] [] [] [2, 1] [] [],
      c2s := [], s2c := [(ackN v .pubrel 1), (ackN v .pubrel 2)] }
  | .p24 =>
    { c := mkSt v true .connected [⟨1, 65535⟩] [] [] [] [] [2] [],
      s := mkSt v false .connected [⟨3, 65535⟩] [(1, (ackN v .pubrel 1)), (2, (ackN v .pubrel 2))] [] [] [2, 1] [] [],
      c2s := [(ackN v .pubcomp 1)], s2c := [(ackN v .pubrel 2)] }
  | .p25 =>
    { c := mkSt v true .connected [⟨1, 65535⟩] [] [] [] [] [2] (prl v [2]),
      s := mkSt v false .connected [⟨3, 65535⟩] [(2, P2.asDup), (1, (ackN v .pubrel 1))] [] [2] [1] [] [],
      c2s := [(ackN v .pubrec 2)], s2c := [(ackN v .pubrel 1)] }
  | .p26 =>
    { c := mkSt v true .connected [⟨1, 65535⟩] [] [] [] [] [] [],
      s := mkSt v false .connected [⟨1, 1⟩, ⟨3, 65535⟩] [(2, (ackN v .pubrel 2))] [] [] [2] [] [],
      c2s := [(ackN v .pubcomp 2)], s2c := [] }
  | .p27 =>
    { c := mkSt v true .connected [⟨1, 65535⟩] [] [] [] [] [2] [],
      s := mkSt v false .connected [⟨1, 1⟩, ⟨3, 65535⟩] [(2, (ackN v .pubrel 2))] [] [] [2] [] [],
      c2s := [], s2c := [(ackN v .pubrel 2)] }
  | .p28 =>
    { c := mkSt v true .connected [⟨1, 65535⟩] [] [] [] [] [] [],
      s := mkSt v false .connected [⟨3, 65535⟩] [(1, (ackN v .pubrel 1)), (2, (ackN v .pubrel 2))] [] [] [2, 1] [] [],
      c2s := [], s2c := [(ackN v .pubrel 1), (ackN v .pubrel 2)] }
  | .p29 =>
    { c := mkSt v true .connected [⟨1, 65535⟩] [] [] [] [] [2] [],
      s := mkSt v false .connected [⟨3, 65535⟩] [(1, (ackN v .pubrel 1)), (2, (ackN v .pubrel 2))] [] [] [2, 1] [] [],
      c2s := [(pcA v 1)], s2c := [(ackN v .pubrel 2)] }
  | .p30 =>
    { c := mkSt v true .connected [⟨1, 65535⟩] [] [] [] [] [2] (prl v [2]),
      s := mkSt v false .connected [⟨3, 65535⟩] [(1, (ackN v .pubrel 1)), (2, (ackN v .pubrel 2))] [] [] [2, 1] [] [],
      c2s := [], s2c := [(ackN v .pubrel 1), (ackN v .pubrel 2)] }
  | .p31 =>
    { c := mkSt v true .connected [⟨1, 65535⟩] [] [] [] [] [2] (prl v [2]),
      s := mkSt v false .connected [⟨3, 65535⟩] [(2, P2.asDup), (1, (ackN v .pubrel 1))] [] [2] [1] [] [],
      c2s := [(ackN v .pubrec 2), (pcA v 1)], s2c := [] }
  | .p32 =>
    { c := mkSt v true .connected [⟨1, 65535⟩] [] [] [] [] [] [],
      s := mkSt v false .connected [⟨1, 65535⟩] [] [] [] [] [] [],
      c2s := [], s2c := [] }
  | .p33 =>
    { c := mkSt v true .connected [⟨1, 65535⟩] [] [] [] [] [] [],
      s := mkSt v false .connected [⟨1, 1⟩, ⟨3, 65535⟩] [(2, (ackN v .pubrel 2))] [] [] [2] [] [],
      c2s := [], s2c := [(ackN v .pubrel 2)] }
  | .p34 =>
    { c := mkSt v true .connected [⟨1, 65535⟩] [] [] [] [] [] [],
      s := mkSt v false .connected [⟨3, 65535⟩] [(1, (ackN v .pubrel 1)), (2, (ackN v .pubrel 2))] [] [] [2, 1] [] [],
      c2s := [(pcA v 1)], s2c := [(ackN v .pubrel 2)] }
  | .p35 =>
    { c := mkSt v true .connected [⟨1, 65535⟩] [] [] [] [] [] [],
      s := mkSt v false .connected [⟨3, 65535⟩] [(1, (ackN v .pubrel 1)), (2, (ackN v .pubrel 2))] [] [] [2, 1] [] [],
      c2s := [(pcA v 1), (ackN v .pubcomp 2)], s2c := [] }
  | .p36 =>
    { c := mkSt v true .connected [⟨1, 65535⟩] [] [] [] [] [2] (prl v [2]),
      s := mkSt v false .connected [⟨3, 65535⟩] [(1, (ackN v .pubrel 1)), (2, (ackN v .pubrel 2))] [] [] [2, 1] [] [],
      c2s := [(pcA v 1)], s2c := [(ackN v .pubrel 2)] }
  | .p37 =>
    { c := mkSt v true .connected [⟨1, 65535⟩] [] [] [] [] [] [],
      s := mkSt v false .connected [⟨1, 1⟩, ⟨3, 65535⟩] [(2, (ackN v .pubrel 2))] [] [] [2] [] [],
      c2s := [(pcA v 2)], s2c := [] }
  | .p38 =>
    { c := mkSt v true .connected [⟨1, 65535⟩] [] [] [] [] [] [],
      s := mkSt v false .connected [⟨3, 65535⟩] [(1, (ackN v .pubrel 1)), (2, (ackN v .pubrel 2))] [] [] [2, 1] [] [],
      c2s := [(pcA v 1), (pcA v 2)], s2c := [] }

def next (ph : Ph) (a : Act4) : Ph :=
  match ph with
  | .p0 => sel a .p0 .p1 .p1 .p2
  | .p1 => sel a .p3 .p4 .p3 .p5
  | .p2 => sel a .p2 .p6 .p6 .p2
  | .p3 => sel a .p3 .p7 .p7 .p8
  | .p4 => sel a .p7 .p4 .p7 .p9
  | .p5 => sel a .p5 .p6 .p6 .p5
  | .p6 => sel a .p10 .p4 .p10 .p5
  | .p7 => sel a .p11 .p12 .p11 .p13
  | .p8 => sel a .p8 .p14 .p14 .p8
  | .p9 => sel a .p9 .p15 .p15 .p9
  | .p10 => sel a .p10 .p7 .p7 .p8
  | .p11 => sel a .p11 .p16 .p16 .p17
  | .p12 => sel a .p16 .p12 .p16 .p18
  | .p13 => sel a .p13 .p14 .p14 .p13
  | .p14 => sel a .p19 .p12 .p19 .p13
  | .p15 => sel a .p20 .p4 .p20 .p9
  | .p16 => sel a .p21 .p22 .p21 .p23
  | .p17 => sel a .p17 .p24 .p24 .p17
  | .p18 => sel a .p18 .p25 .p25 .p18
  | .p19 => sel a .p19 .p16 .p16 .p17
  | .p20 => sel a .p20 .p7 .p7 .p13
  | .p21 => sel a .p21 .p26 .p26 .p27
  | .p22 => sel a .p26 .p22 .p26 .p28
  | .p23 => sel a .p23 .p29 .p29 .p23
  | .p24 => sel a .p27 .p22 .p27 .p23
  | .p25 => sel a .p30 .p31 .p30 .p18
  | .p26 => sel a .p32 .p26 .p32 .p33
  | .p27 => sel a .p27 .p26 .p26 .p27
  | .p28 => sel a .p28 .p34 .p34 .p28
  | .p29 => sel a .p27 .p35 .p27 .p23
  | .p30 => sel a .p30 .p36 .p36 .p23
  | .p31 => sel a .p36 .p31 .p36 .p18
  | .p32 => sel a .p32 .p32 .p32 .p32
  | .p33 => sel a .p33 .p37 .p37 .p33
  | .p34 => sel a .p33 .p38 .p33 .p28
  | .p35 => sel a .p26 .p35 .p26 .p28
  | .p36 => sel a .p21 .p35 .p21 .p23
  | .p37 => sel a .p32 .p37 .p32 .p33
  | .p38 => sel a .p37 .p38 .p37 .p28

def nS (P1 P2 : Pkt) (ph : Ph) (a : Act4) : List Pkt := []

def nC (P1 P2 : Pkt) (ph : Ph) (a : Act4) : List Pkt :=
  match ph with
  | .p0 => sel a [] [P1] [P1] []
  | .p1 => sel a [] [P2] [] []
  | .p2 => sel a [] [P1.asDup] [P1.asDup] []
  | .p3 => sel a [] [P2] [P2] []
  | .p6 => sel a [] [P2.asDup] [] []
  | .p8 => sel a [] [P2.asDup] [P2.asDup] []
  | .p10 => sel a [] [P2.asDup] [P2.asDup] []
  | _ => []

def rC (ph : Ph) (a : Act4) : List Nat := []

def rS (ph : Ph) (a : Act4) : List Nat :=
  match ph with
  | .p16 => sel a [1] [] [1] []
  | .p22 => sel a [1] [] [1] []
  | .p24 => sel a [1] [] [1] []
  | .p26 => sel a [2] [] [2] []
  | .p29 => sel a [1] [] [1] []
  | .p34 => sel a [1] [] [1] []
  | .p35 => sel a [1] [] [1] []
  | .p36 => sel a [1] [] [1] []
  | .p37 => sel a [2] [] [2] []
  | .p38 => sel a [1] [] [1] []
  | _ => []

def c1 : Ph → Nat
  | .p1 => 1
  | .p3 => 1
  | .p4 => 1
  | .p5 => 1
  | .p6 => 1
  | .p7 => 1
  | .p8 => 1
  | .p9 => 1
  | .p10 => 1
  | .p11 => 1
  | .p12 => 1
  | .p13 => 1
  | .p14 => 1
  | .p15 => 1
  | .p16 => 1
  | .p17 => 1
  | .p18 => 1
  | .p19 => 1
  | .p20 => 1
  | .p21 => 1
  | .p22 => 1
  | .p23 => 1
  | .p24 => 1
  | .p25 => 1
  | .p26 => 1
  | .p27 => 1
  | .p28 => 1
  | .p29 => 1
  | .p30 => 1
  | .p31 => 1
  | .p32 => 1
  | .p33 => 1
  | .p34 => 1
  | .p35 => 1
  | .p36 => 1
  | .p37 => 1
  | .p38 => 1
  | _ => 0

def c2 : Ph → Nat
  | .p4 => 1
  | .p7 => 1
  | .p9 => 1
  | .p11 => 1
  | .p12 => 1
  | .p13 => 1
  | .p14 => 1
  | .p15 => 1
  | .p16 => 1
  | .p17 => 1
  | .p18 => 1
  | .p19 => 1
  | .p20 => 1
  | .p21 => 1
  | .p22 => 1
  | .p23 => 1
  | .p24 => 1
  | .p25 => 1
  | .p26 => 1
  | .p27 => 1
  | .p28 => 1
  | .p29 => 1
  | .p30 => 1
  | .p31 => 1
  | .p32 => 1
  | .p33 => 1
  | .p34 => 1
  | .p35 => 1
  | .p36 => 1
  | .p37 => 1
  | .p38 => 1
  | _ => 0

def r1 : Ph → Nat
  | .p21 => 1
  | .p26 => 1
  | .p27 => 1
  | .p32 => 1
  | .p33 => 1
  | .p37 => 1
  | _ => 0

def r2 : Ph → Nat
  | .p32 => 1
  | _ => 0

def done : Ph := .p32

section
variable {v : Nat} {P1 P2 : Pkt} (hv : v = 4 ∨ v = 5) (hA : IsPub v 2 P1) (hB : IsPubN v 2 2 P2)
include hv hA hB

theorem cl_p0 (a : Act4) :
    Obs2 (sysOf v P1 P2 (next .p0 a)) (nS P1 P2 .p0 a) (nC P1 P2 .p0 a) (rC .p0 a) (rS .p0 a) (act4 v (sysOf v P1 P2 .p0) a) := by
  have hv' := hv; have h1 : (2 : Nat) = 1 ∨ (2 : Nat) = 2 := Or.inr rfl; have h2 : (2 : Nat) = 1 ∨ (2 : Nat) = 2 := Or.inr rfl
  rcases hv' with rfl | rfl <;> cases a <;> run5 hv h1 hA h2 hB [sysOf, next, sel, nS, nC, rC, rS, act4, pcA, prl]

theorem cl_p1 (a : Act4) :
    Obs2 (sysOf v P1 P2 (next .p1 a)) (nS P1 P2 .p1 a) (nC P1 P2 .p1 a) (rC .p1 a) (rS .p1 a) (act4 v (sysOf v P1 P2 .p1) a) := by
  have hv' := hv; have h1 : (2 : Nat) = 1 ∨ (2 : Nat) = 2 := Or.inr rfl; have h2 : (2 : Nat) = 1 ∨ (2 : Nat) = 2 := Or.inr rfl
  rcases hv' with rfl | rfl <;> cases a <;> run5 hv h1 hA h2 hB [sysOf, next, sel, nS, nC, rC, rS, act4, pcA, prl]

theorem cl_p2 (a : Act4) :
    Obs2 (sysOf v P1 P2 (next .p2 a)) (nS P1 P2 .p2 a) (nC P1 P2 .p2 a) (rC .p2 a) (rS .p2 a) (act4 v (sysOf v P1 P2 .p2) a) := by
  have hv' := hv; have h1 : (2 : Nat) = 1 ∨ (2 : Nat) = 2 := Or.inr rfl; have h2 : (2 : Nat) = 1 ∨ (2 : Nat) = 2 := Or.inr rfl
  rcases hv' with rfl | rfl <;> cases a <;> run5 hv h1 hA h2 hB [sysOf, next, sel, nS, nC, rC, rS, act4, pcA, prl]

theorem cl_p3 (a : Act4) :
    Obs2 (sysOf v P1 P2 (next .p3 a)) (nS P1 P2 .p3 a) (nC P1 P2 .p3 a) (rC .p3 a) (rS .p3 a) (act4 v (sysOf v P1 P2 .p3) a) := by
  have hv' := hv; have h1 : (2 : Nat) = 1 ∨ (2 : Nat) = 2 := Or.inr rfl; have h2 : (2 : Nat) = 1 ∨ (2 : Nat) = 2 := Or.inr rfl
  rcases hv' with rfl | rfl <;> cases a <;> run5 hv h1 hA h2 hB [sysOf, next, sel, nS, nC, rC, rS, act4, pcA, prl]

theorem cl_p4 (a : Act4) :
    Obs2 (sysOf v P1 P2 (next .p4 a)) (nS P1 P2 .p4 a) (nC P1 P2 .p4 a) (rC .p4 a) (rS .p4 a) (act4 v (sysOf v P1 P2 .p4) a) := by
  have hv' := hv; have h1 : (2 : Nat) = 1 ∨ (2 : Nat) = 2 := Or.inr rfl; have h2 : (2 : Nat) = 1 ∨ (2 : Nat) = 2 := Or.inr rfl
  rcases hv' with rfl | rfl <;> cases a <;> run5 hv h1 hA h2 hB [sysOf, next, sel, nS, nC, rC, rS, act4, pcA, prl]

theorem cl_p5 (a : Act4) :
    Obs2 (sysOf v P1 P2 (next .p5 a)) (nS P1 P2 .p5 a) (nC P1 P2 .p5 a) (rC .p5 a) (rS .p5 a) (act4 v (sysOf v P1 P2 .p5) a) := by
  have hv' := hv; have h1 : (2 : Nat) = 1 ∨ (2 : Nat) = 2 := Or.inr rfl; have h2 : (2 : Nat) = 1 ∨ (2 : Nat) = 2 := Or.inr rfl
  rcases hv' with rfl | rfl <;> cases a <;> run5 hv h1 hA h2 hB [sysOf, next, sel, nS, nC, rC, rS, act4, pcA, prl]

theorem cl_p6 (a : Act4) :
    Obs2 (sysOf v P1 P2 (next .p6 a)) (nS P1 P2 .p6 a) (nC P1 P2 .p6 a) (rC .p6 a) (rS .p6 a) (act4 v (sysOf v P1 P2 .p6) a) := by
  have hv' := hv; have h1 : (2 : Nat) = 1 ∨ (2 : Nat) = 2 := Or.inr rfl; have h2 : (2 : Nat) = 1 ∨ (2 : Nat) = 2 := Or.inr rfl
  rcases hv' with rfl | rfl <;> cases a <;> run5 hv h1 hA h2 hB [sysOf, next, sel, nS, nC, rC, rS, act4, pcA, prl]

theorem cl_p7 (a : Act4) :
    Obs2 (sysOf v P1 P2 (next .p7 a)) (nS P1 P2 .p7 a) (nC P1 P2 .p7 a) (rC .p7 a) (rS .p7 a) (act4 v (sysOf v P1 P2 .p7) a) := by
  have hv' := hv; have h1 : (2 : Nat) = 1 ∨ (2 : Nat) = 2 := Or.inr rfl; have h2 : (2 : Nat) = 1 ∨ (2 : Nat) = 2 := Or.inr rfl
  rcases hv' with rfl | rfl <;> cases a <;> run5 hv h1 hA h2 hB [sysOf, next, sel, nS, nC, rC, rS, act4, pcA, prl]

theorem cl_p8 (a : Act4) :
    Obs2 (sysOf v P1 P2 (next .p8 a)) (nS P1 P2 .p8 a) (nC P1 P2 .p8 a) (rC .p8 a) (rS .p8 a) (act4 v (sysOf v P1 P2 .p8) a) := by
  have hv' := hv; have h1 : (2 : Nat) = 1 ∨ (2 : Nat) = 2 := Or.inr rfl; have h2 : (2 : Nat) = 1 ∨ (2 : Nat) = 2 := Or.inr rfl
  rcases hv' with rfl | rfl <;> cases a <;> run5 hv h1 hA h2 hB [sysOf, next, sel, nS, nC, rC, rS, act4, pcA, prl]

theorem cl_p9 (a : Act4) :
    Obs2 (sysOf v P1 P2 (next .p9 a)) (nS P1 P2 .p9 a) (nC P1 P2 .p9 a) (rC .p9 a) (rS .p9 a) (act4 v (sysOf v P1 P2 .p9) a) := by
  have hv' := hv; have h1 : (2 : Nat) = 1 ∨ (2 : Nat) = 2 := Or.inr rfl; have h2 : (2 : Nat) = 1 ∨ (2 : Nat) = 2 := Or.inr rfl
  rcases hv' with rfl | rfl <;> cases a <;> run5 hv h1 hA h2 hB [sysOf, next, sel, nS, nC, rC, rS, act4, pcA, prl]

theorem cl_p10 (a : Act4) :
    Obs2 (sysOf v P1 P2 (next .p10 a)) (nS P1 P2 .p10 a) (nC P1 P2 .p10 a) (rC .p10 a) (rS .p10 a) (act4 v (sysOf v P1 P2 .p10) a) := by
  have hv' := hv; have h1 : (2 : Nat) = 1 ∨ (2 : Nat) = 2 := Or.inr rfl; have h2 : (2 : Nat) = 1 ∨ (2 : Nat) = 2 := Or.inr rfl
  rcases hv' with rfl | rfl <;> cases a <;> run5 hv h1 hA h2 hB [sysOf, next, sel, nS, nC, rC, rS, act4, pcA, prl]

theorem cl_p11 (a : Act4) :
    Obs2 (sysOf v P1 P2 (next .p11 a)) (nS P1 P2 .p11 a) (nC P1 P2 .p11 a) (rC .p11 a) (rS .p11 a) (act4 v (sysOf v P1 P2 .p11) a) := by
  have hv' := hv; have h1 : (2 : Nat) = 1 ∨ (2 : Nat) = 2 := Or.inr rfl; have h2 : (2 : Nat) = 1 ∨ (2 : Nat) = 2 := Or.inr rfl
  rcases hv' with rfl | rfl <;> cases a <;> run5 hv h1 hA h2 hB [sysOf, next, sel, nS, nC, rC, rS, act4, pcA, prl]

theorem cl_p12 (a : Act4) :
    Obs2 (sysOf v P1 P2 (next .p12 a)) (nS P1 P2 .p12 a) (nC P1 P2 .p12 a) (rC .p12 a) (rS .p12 a) (act4 v (sysOf v P1 P2 .p12) a) := by
  have hv' := hv; have h1 : (2 : Nat) = 1 ∨ (2 : Nat) = 2 := Or.inr rfl; have h2 : (2 : Nat) = 1 ∨ (2 : Nat) = 2 := Or.inr rfl
  rcases hv' with rfl | rfl <;> cases a <;> run5 hv h1 hA h2 hB [sysOf, next, sel, nS, nC, rC, rS, act4, pcA, prl]

theorem cl_p13 (a : Act4) :
    Obs2 (sysOf v P1 P2 (next .p13 a)) (nS P1 P2 .p13 a) (nC P1 P2 .p13 a) (rC .p13 a) (rS .p13 a) (act4 v (sysOf v P1 P2 .p13) a) := by
  have hv' := hv; have h1 : (2 : Nat) = 1 ∨ (2 : Nat) = 2 := Or.inr rfl; have h2 : (2 : Nat) = 1 ∨ (2 : Nat) = 2 := Or.inr rfl
  rcases hv' with rfl | rfl <;> cases a <;> run5 hv h1 hA h2 hB [sysOf, next, sel, nS, nC, rC, rS, act4, pcA, prl]

theorem cl_p14 (a : Act4) :
    Obs2 (sysOf v P1 P2 (next .p14 a)) (nS P1 P2 .p14 a) (nC P1 P2 .p14 a) (rC .p14 a) (rS .p14 a) (act4 v (sysOf v P1 P2 .p14) a) := by
  have hv' := hv; have h1 : (2 : Nat) = 1 ∨ (2 : Nat) = 2 := Or.inr rfl; have h2 : (2 : Nat) = 1 ∨ (2 : Nat) = 2 := Or.inr rfl
  rcases hv' with rfl | rfl <;> cases a <;> run5 hv h1 hA h2 hB [sysOf, next, sel, nS, nC, rC, rS, act4, pcA, prl]

theorem cl_p15 (a : Act4) :
    Obs2 (sysOf v P1 P2 (next .p15 a)) (nS P1 P2 .p15 a) (nC P1 P2 .p15 a) (rC .p15 a) (rS .p15 a) (act4 v (sysOf v P1 P2 .p15) a) := by
  have hv' := hv; have h1 : (2 : Nat) = 1 ∨ (2 : Nat) = 2 := Or.inr rfl; have h2 : (2 : Nat) = 1 ∨ (2 : Nat) = 2 := Or.inr rfl
  rcases hv' with rfl | rfl <;> cases a <;> run5 hv h1 hA h2 hB [sysOf, next, sel, nS, nC, rC, rS, act4, pcA, prl]

theorem cl_p16 (a : Act4) :
    Obs2 (sysOf v P1 P2 (next .p16 a)) (nS P1 P2 .p16 a) (nC P1 P2 .p16 a) (rC .p16 a) (rS .p16 a) (act4 v (sysOf v P1 P2 .p16) a) := by
  have hv' := hv; have h1 : (2 : Nat) = 1 ∨ (2 : Nat) = 2 := Or.inr rfl; have h2 : (2 : Nat) = 1 ∨ (2 : Nat) = 2 := Or.inr rfl
  rcases hv' with rfl | rfl <;> cases a <;> run5 hv h1 hA h2 hB [sysOf, next, sel, nS, nC, rC, rS, act4, pcA, prl]

theorem cl_p17 (a : Act4) :
    Obs2 (sysOf v P1 P2 (next .p17 a)) (nS P1 P2 .p17 a) (nC P1 P2 .p17 a) (rC .p17 a) (rS .p17 a) (act4 v (sysOf v P1 P2 .p17) a) := by
  have hv' := hv; have h1 : (2 : Nat) = 1 ∨ (2 : Nat) = 2 := Or.inr rfl; have h2 : (2 : Nat) = 1 ∨ (2 : Nat) = 2 := Or.inr rfl
  rcases hv' with rfl | rfl <;> cases a <;> run5 hv h1 hA h2 hB [sysOf, next, sel, nS, nC, rC, rS, act4, pcA, prl]

theorem cl_p18 (a : Act4) :
    Obs2 (sysOf v P1 P2 (next .p18 a)) (nS P1 P2 .p18 a) (nC P1 P2 .p18 a) (rC .p18 a) (rS .p18 a) (act4 v (sysOf v P1 P2 .p18) a) := by
  have hv' := hv; have h1 : (2 : Nat) = 1 ∨ (2 : Nat) = 2 := Or.inr rfl; have h2 : (2 : Nat) = 1 ∨ (2 : Nat) = 2 := Or.inr rfl
  rcases hv' with rfl | rfl <;> cases a <;> run5 hv h1 hA h2 hB [sysOf, next, sel, nS, nC, rC, rS, act4, pcA, prl]

theorem cl_p19 (a : Act4) :
    Obs2 (sysOf v P1 P2 (next .p19 a)) (nS P1 P2 .p19 a) (nC P1 P2 .p19 a) (rC .p19 a) (rS .p19 a) (act4 v (sysOf v P1 P2 .p19) a) := by
  have hv' := hv; have h1 : (2 : Nat) = 1 ∨ (2 : Nat) = 2 := Or.inr rfl; have h2 : (2 : Nat) = 1 ∨ (2 : Nat) = 2 := Or.inr rfl
  rcases hv' with rfl | rfl <;> cases a <;> run5 hv h1 hA h2 hB [sysOf, next, sel, nS, nC, rC, rS, act4, pcA, prl]

theorem cl_p20 (a : Act4) :
    Obs2 (sysOf v P1 P2 (next .p20 a)) (nS P1 P2 .p20 a) (nC P1 P2 .p20 a) (rC .p20 a) (rS .p20 a) (act4 v (sysOf v P1 P2 .p20) a) := by
  have hv' := hv; have h1 : (2 : Nat) = 1 ∨ (2 : Nat) = 2 := Or.inr rfl; have h2 : (2 : Nat) = 1 ∨ (2 : Nat) = 2 := Or.inr rfl
  rcases hv' with rfl | rfl <;> cases a <;> run5 hv h1 hA h2 hB [sysOf, next, sel, nS, nC, rC, rS, act4, pcA, prl]

theorem cl_p21 (a : Act4) :
    Obs2 (sysOf v P1 P2 (next .p21 a)) (nS P1 P2 .p21 a) (nC P1 P2 .p21 a) (rC .p21 a) (rS .p21 a) (act4 v (sysOf v P1 P2 .p21) a) := by
  have hv' := hv; have h1 : (2 : Nat) = 1 ∨ (2 : Nat) = 2 := Or.inr rfl; have h2 : (2 : Nat) = 1 ∨ (2 : Nat) = 2 := Or.inr rfl
  rcases hv' with rfl | rfl <;> cases a <;> run5 hv h1 hA h2 hB [sysOf, next, sel, nS, nC, rC, rS, act4, pcA, prl]

theorem cl_p22 (a : Act4) :
    Obs2 (sysOf v P1 P2 (next .p22 a)) (nS P1 P2 .p22 a) (nC P1 P2 .p22 a) (rC .p22 a) (rS .p22 a) (act4 v (sysOf v P1 P2 .p22) a) := by
  have hv' := hv; have h1 : (2 : Nat) = 1 ∨ (2 : Nat) = 2 := Or.inr rfl; have h2 : (2 : Nat) = 1 ∨ (2 : Nat) = 2 := Or.inr rfl
  rcases hv' with rfl | rfl <;> cases a <;> run5 hv h1 hA h2 hB [sysOf, next, sel, nS, nC, rC, rS, act4, pcA, prl]

theorem cl_p23 (a : Act4) :
    Obs2 (sysOf v P1 P2 (next .p23 a)) (nS P1 P2 .p23 a) (nC P1 P2 .p23 a) (rC .p23 a) (rS .p23 a) (act4 v (sysOf v P1 P2 .p23) a) := by
  have hv' := hv; have h1 : (2 : Nat) = 1 ∨ (2 : Nat) = 2 := Or.inr rfl; have h2 : (2 : Nat) = 1 ∨ (2 : Nat) = 2 := Or.inr rfl
  rcases hv' with rfl | rfl <;> cases a <;> run5 hv h1 hA h2 hB [sysOf, next, sel, nS, nC, rC, rS, act4, pcA, prl]

theorem cl_p24 (a : Act4) :
    Obs2 (sysOf v P1 P2 (next .p24 a)) (nS P1 P2 .p24 a) (nC P1 P2 .p24 a) (rC .p24 a) (rS .p24 a) (act4 v (sysOf v P1 P2 .p24) a) := by
  have hv' := hv; have h1 : (2 : Nat) = 1 ∨ (2 : Nat) = 2 := Or.inr rfl; have h2 : (2 : Nat) = 1 ∨ (2 : Nat) = 2 := Or.inr rfl
  rcases hv' with rfl | rfl <;> cases a <;> run5 hv h1 hA h2 hB [sysOf, next, sel, nS, nC, rC, rS, act4, pcA, prl]

theorem cl_p25 (a : Act4) :
    Obs2 (sysOf v P1 P2 (next .p25 a)) (nS P1 P2 .p25 a) (nC P1 P2 .p25 a) (rC .p25 a) (rS .p25 a) (act4 v (sysOf v P1 P2 .p25) a) := by
  have hv' := hv; have h1 : (2 : Nat) = 1 ∨ (2 : Nat) = 2 := Or.inr rfl; have h2 : (2 : Nat) = 1 ∨ (2 : Nat) = 2 := Or.inr rfl
  rcases hv' with rfl | rfl <;> cases a <;> run5 hv h1 hA h2 hB [sysOf, next, sel, nS, nC, rC, rS, act4, pcA, prl]

theorem cl_p26 (a : Act4) :
    Obs2 (sysOf v P1 P2 (next .p26 a)) (nS P1 P2 .p26 a) (nC P1 P2 .p26 a) (rC .p26 a) (rS .p26 a) (act4 v (sysOf v P1 P2 .p26) a) := by
  have hv' := hv; have h1 : (2 : Nat) = 1 ∨ (2 : Nat) = 2 := Or.inr rfl; have h2 : (2 : Nat) = 1 ∨ (2 : Nat) = 2 := Or.inr rfl
  rcases hv' with rfl | rfl <;> cases a <;> run5 hv h1 hA h2 hB [sysOf, next, sel, nS, nC, rC, rS, act4, pcA, prl]

theorem cl_p27 (a : Act4) :
    Obs2 (sysOf v P1 P2 (next .p27 a)) (nS P1 P2 .p27 a) (nC P1 P2 .p27 a) (rC .p27 a) (rS .p27 a) (act4 v (sysOf v P1 P2 .p27) a) := by
  have hv' := hv; have h1 : (2 : Nat) = 1 ∨ (2 : Nat) = 2 := Or.inr rfl; have h2 : (2 : Nat) = 1 ∨ (2 : Nat) = 2 := Or.inr rfl
  rcases hv' with rfl | rfl <;> cases a <;> run5 hv h1 hA h2 hB [sysOf, next, sel, nS, nC, rC, rS, act4, pcA, prl]

theorem cl_p28 (a : Act4) :
    Obs2 (sysOf v P1 P2 (next .p28 a)) (nS P1 P2 .p28 a) (nC P1 P2 .p28 a) (rC .p28 a) (rS .p28 a) (act4 v (sysOf v P1 P2 .p28) a) := by
  have hv' := hv; have h1 : (2 : Nat) = 1 ∨ (2 : Nat) = 2 := Or.inr rfl; have h2 : (2 : Nat) = 1 ∨ (2 : Nat) = 2 := Or.inr rfl
  rcases hv' with rfl | rfl <;> cases a <;> run5 hv h1 hA h2 hB [sysOf, next, sel, nS, nC, rC, rS, act4, pcA, prl]

theorem cl_p29 (a : Act4) :
    Obs2 (sysOf v P1 P2 (next .p29 a)) (nS P1 P2 .p29 a) (nC P1 P2 .p29 a) (rC .p29 a) (rS .p29 a) (act4 v (sysOf v P1 P2 .p29) a) := by
  have hv' := hv; have h1 : (2 : Nat) = 1 ∨ (2 : Nat) = 2 := Or.inr rfl; have h2 : (2 : Nat) = 1 ∨ (2 : Nat) = 2 := Or.inr rfl
  rcases hv' with rfl | rfl <;> cases a <;> run5 hv h1 hA h2 hB [sysOf, next, sel, nS, nC, rC, rS, act4, pcA, prl]

theorem cl_p30 (a : Act4) :
    Obs2 (sysOf v P1 P2 (next .p30 a)) (nS P1 P2 .p30 a) (nC P1 P2 .p30 a) (rC .p30 a) (rS .p30 a) (act4 v (sysOf v P1 P2 .p30) a) := by
  have hv' := hv; have h1 : (2 : Nat) = 1 ∨ (2 : Nat) = 2 := Or.inr rfl; have h2 : (2 : Nat) = 1 ∨ (2 : Nat) = 2 := Or.inr rfl
  rcases hv' with rfl | rfl <;> cases a <;> run5 hv h1 hA h2 hB [sysOf, next, sel, nS, nC, rC, rS, act4, pcA, prl]

theorem cl_p31 (a : Act4) :
    Obs2 (sysOf v P1 P2 (next .p31 a)) (nS P1 P2 .p31 a) (nC P1 P2 .p31 a) (rC .p31 a) (rS .p31 a) (act4 v (sysOf v P1 P2 .p31) a) := by
  have hv' := hv; have h1 : (2 : Nat) = 1 ∨ (2 : Nat) = 2 := Or.inr rfl; have h2 : (2 : Nat) = 1 ∨ (2 : Nat) = 2 := Or.inr rfl
  rcases hv' with rfl | rfl <;> cases a <;> run5 hv h1 hA h2 hB [sysOf, next, sel, nS, nC, rC, rS, act4, pcA, prl]

theorem cl_p32 (a : Act4) :
    Obs2 (sysOf v P1 P2 (next .p32 a)) (nS P1 P2 .p32 a) (nC P1 P2 .p32 a) (rC .p32 a) (rS .p32 a) (act4 v (sysOf v P1 P2 .p32) a) := by
  have hv' := hv; have h1 : (2 : Nat) = 1 ∨ (2 : Nat) = 2 := Or.inr rfl; have h2 : (2 : Nat) = 1 ∨ (2 : Nat) = 2 := Or.inr rfl
  rcases hv' with rfl | rfl <;> cases a <;> run5 hv h1 hA h2 hB [sysOf, next, sel, nS, nC, rC, rS, act4, pcA, prl]

theorem cl_p33 (a : Act4) :
    Obs2 (sysOf v P1 P2 (next .p33 a)) (nS P1 P2 .p33 a) (nC P1 P2 .p33 a) (rC .p33 a) (rS .p33 a) (act4 v (sysOf v P1 P2 .p33) a) := by
  have hv' := hv; have h1 : (2 : Nat) = 1 ∨ (2 : Nat) = 2 := Or.inr rfl; have h2 : (2 : Nat) = 1 ∨ (2 : Nat) = 2 := Or.inr rfl
  rcases hv' with rfl | rfl <;> cases a <;> run5 hv h1 hA h2 hB [sysOf, next, sel, nS, nC, rC, rS, act4, pcA, prl]

theorem cl_p34 (a : Act4) :
    Obs2 (sysOf v P1 P2 (next .p34 a)) (nS P1 P2 .p34 a) (nC P1 P2 .p34 a) (rC .p34 a) (rS .p34 a) (act4 v (sysOf v P1 P2 .p34) a) := by
  have hv' := hv; have h1 : (2 : Nat) = 1 ∨ (2 : Nat) = 2 := Or.inr rfl; have h2 : (2 : Nat) = 1 ∨ (2 : Nat) = 2 := Or.inr rfl
  rcases hv' with rfl | rfl <;> cases a <;> run5 hv h1 hA h2 hB [sysOf, next, sel, nS, nC, rC, rS, act4, pcA, prl]

theorem cl_p35 (a : Act4) :
    Obs2 (sysOf v P1 P2 (next .p35 a)) (nS P1 P2 .p35 a) (nC P1 P2 .p35 a) (rC .p35 a) (rS .p35 a) (act4 v (sysOf v P1 P2 .p35) a) := by
  have hv' := hv; have h1 : (2 : Nat) = 1 ∨ (2 : Nat) = 2 := Or.inr rfl; have h2 : (2 : Nat) = 1 ∨ (2 : Nat) = 2 := Or.inr rfl
  rcases hv' with rfl | rfl <;> cases a <;> run5 hv h1 hA h2 hB [sysOf, next, sel, nS, nC, rC, rS, act4, pcA, prl]

theorem cl_p36 (a : Act4) :
    Obs2 (sysOf v P1 P2 (next .p36 a)) (nS P1 P2 .p36 a) (nC P1 P2 .p36 a) (rC .p36 a) (rS .p36 a) (act4 v (sysOf v P1 P2 .p36) a) := by
  have hv' := hv; have h1 : (2 : Nat) = 1 ∨ (2 : Nat) = 2 := Or.inr rfl; have h2 : (2 : Nat) = 1 ∨ (2 : Nat) = 2 := Or.inr rfl
  rcases hv' with rfl | rfl <;> cases a <;> run5 hv h1 hA h2 hB [sysOf, next, sel, nS, nC, rC, rS, act4, pcA, prl]

theorem cl_p37 (a : Act4) :
    Obs2 (sysOf v P1 P2 (next .p37 a)) (nS P1 P2 .p37 a) (nC P1 P2 .p37 a) (rC .p37 a) (rS .p37 a) (act4 v (sysOf v P1 P2 .p37) a) := by
  have hv' := hv; have h1 : (2 : Nat) = 1 ∨ (2 : Nat) = 2 := Or.inr rfl; have h2 : (2 : Nat) = 1 ∨ (2 : Nat) = 2 := Or.inr rfl
  rcases hv' with rfl | rfl <;> cases a <;> run5 hv h1 hA h2 hB [sysOf, next, sel, nS, nC, rC, rS, act4, pcA, prl]

theorem cl_p38 (a : Act4) :
    Obs2 (sysOf v P1 P2 (next .p38 a)) (nS P1 P2 .p38 a) (nC P1 P2 .p38 a) (rC .p38 a) (rS .p38 a) (act4 v (sysOf v P1 P2 .p38) a) := by
  have hv' := hv; have h1 : (2 : Nat) = 1 ∨ (2 : Nat) = 2 := Or.inr rfl; have h2 : (2 : Nat) = 1 ∨ (2 : Nat) = 2 := Or.inr rfl
  rcases hv' with rfl | rfl <;> cases a <;> run5 hv h1 hA h2 hB [sysOf, next, sel, nS, nC, rC, rS, act4, pcA, prl]

theorem closure (ph : Ph) (a : Act4) :
    Obs2 (sysOf v P1 P2 (next ph a)) (nS P1 P2 ph a) (nC P1 P2 ph a) (rC ph a) (rS ph a) (act4 v (sysOf v P1 P2 ph) a) := by
  cases ph
  · exact cl_p0 hv hA hB a
  · exact cl_p1 hv hA hB a
  · exact cl_p2 hv hA hB a
  · exact cl_p3 hv hA hB a
  · exact cl_p4 hv hA hB a
  · exact cl_p5 hv hA hB a
  · exact cl_p6 hv hA hB a
  · exact cl_p7 hv hA hB a
  · exact cl_p8 hv hA hB a
  · exact cl_p9 hv hA hB a
  · exact cl_p10 hv hA hB a
  · exact cl_p11 hv hA hB a
  · exact cl_p12 hv hA hB a
  · exact cl_p13 hv hA hB a
  · exact cl_p14 hv hA hB a
  · exact cl_p15 hv hA hB a
  · exact cl_p16 hv hA hB a
  · exact cl_p17 hv hA hB a
  · exact cl_p18 hv hA hB a
  · exact cl_p19 hv hA hB a
  · exact cl_p20 hv hA hB a
  · exact cl_p21 hv hA hB a
  · exact cl_p22 hv hA hB a
  · exact cl_p23 hv hA hB a
  · exact cl_p24 hv hA hB a
  · exact cl_p25 hv hA hB a
  · exact cl_p26 hv hA hB a
  · exact cl_p27 hv hA hB a
  · exact cl_p28 hv hA hB a
  · exact cl_p29 hv hA hB a
  · exact cl_p30 hv hA hB a
  · exact cl_p31 hv hA hB a
  · exact cl_p32 hv hA hB a
  · exact cl_p33 hv hA hB a
  · exact cl_p34 hv hA hB a
  · exact cl_p35 hv hA hB a
  · exact cl_p36 hv hA hB a
  · exact cl_p37 hv hA hB a
  · exact cl_p38 hv hA hB a

theorem start_obs : Obs2 (sysOf v P1 P2 .p0) [] [] [] [] (startTwo v false P1 P2) := by
  have hv' := hv; have h1 : (2 : Nat) = 1 ∨ (2 : Nat) = 2 := Or.inr rfl; have h2 : (2 : Nat) = 1 ∨ (2 : Nat) = 2 := Or.inr rfl
  rcases hv' with rfl | rfl <;> run5 hv h1 hA h2 hB [sysOf]

omit hA hB in
theorem sys_done : sysOf v P1 P2 done = established v := by
  rw [established_eq v hv]; rfl
end

theorem sysOf_logs (v : Nat) (P1 P2 : Pkt) (ph : Ph) : (sysOf v P1 P2 ph).logC = [] ∧ (sysOf v P1 P2 ph).logS = [] := by
  cases ph <;> exact ⟨rfl, rfl⟩

theorem h8 (ph : Ph) : phRunG next ph (List.replicate 8 .deliver) = done := by
  cases ph <;> rfl

section
variable {P1 P2 : Pkt} (a1 : P1.pid = some 1) (a2 : P2.pid = some 2)
include a1 a2

theorem hok : ∀ ph a, ∀ Q ∈ nC P1 P2 ph a, (Q.pid = some 1 ∧ sameMsg P1 Q) ∨ (Q.pid = some 2 ∧ sameMsg P2 Q) := by
  intro ph a; cases ph <;> cases a <;> simp [next, sel, nS, nC, rC, rS, c1, c2, r1, r2, cntOf, notesOf, sameMsg, a1, a2]

omit a1 a2 in
theorem hrel : ∀ ph a, ∀ id ∈ rS ph a, id = 1 ∨ id = 2 := by
  intro ph a; cases ph <;> cases a <;> simp [next, sel, nS, nC, rC, rS, c1, c2, r1, r2, cntOf, notesOf, sameMsg]

theorem c1_le : ∀ ph a, c1 (next ph a) ≤ c1 ph + cntOf 1 (nC P1 P2 ph a) := by
  intro ph a; cases ph <;> cases a <;> simp [next, sel, nS, nC, rC, rS, c1, c2, r1, r2, cntOf, notesOf, sameMsg, a1, a2]

theorem c2_le : ∀ ph a, c2 (next ph a) ≤ c2 ph + cntOf 2 (nC P1 P2 ph a) := by
  intro ph a; cases ph <;> cases a <;> simp [next, sel, nS, nC, rC, rS, c1, c2, r1, r2, cntOf, notesOf, sameMsg, a1, a2]

theorem c1x : ∀ ph a, c1 (next ph a) = c1 ph + cntOf 1 (nC P1 P2 ph a) := by
  intro ph a; cases ph <;> cases a <;> simp [next, sel, nS, nC, rC, rS, c1, c2, r1, r2, cntOf, notesOf, sameMsg, a1, a2]

theorem c2x : ∀ ph a, c2 (next ph a) = c2 ph + cntOf 2 (nC P1 P2 ph a) := by
  intro ph a; cases ph <;> cases a <;> simp [next, sel, nS, nC, rC, rS, c1, c2, r1, r2, cntOf, notesOf, sameMsg, a1, a2]

omit a1 a2 in
theorem r1_step : ∀ ph a, r1 (next ph a) = r1 ph + (rS ph a).count 1 := by
  intro ph a; cases ph <;> cases a <;> simp [next, sel, nS, nC, rC, rS, c1, c2, r1, r2, cntOf, notesOf, sameMsg]

omit a1 a2 in
theorem r2_step : ∀ ph a, r2 (next ph a) = r2 ph + (rS ph a).count 2 := by
  intro ph a; cases ph <;> cases a <;> simp [next, sel, nS, nC, rC, rS, c1, c2, r1, r2, cntOf, notesOf, sameMsg]
end

section
variable {v : Nat} {P1 P2 : Pkt} (hv : v = 4 ∨ v = 5) (hA : IsPub v 2 P1) (hB : IsPubN v 2 2 P2)
include hv hA hB

/-- at any moment of any schedule: no `.error` event at either side -/
theorem safe (acts : List Act4) :
    errFree (runActs4 v (startTwo v false P1 P2) acts).logC ∧ errFree (runActs4 v (startTwo v false P1 P2) acts).logS :=
  sched_safe (sysOf v P1 P2) next (nS P1 P2) (nC P1 P2) rC rS .p0 _ (sysOf_logs v P1 P2) (closure hv hA hB) (start_obs hv hA hB) acts

/-- every schedule, then everything delivered -/
theorem main (acts : List Act4) (n : Nat) (hn : 8 ≤ n) :
    let y := drain n (runActs4 v (startTwo v false P1 P2) acts)
    Quiet v y ∧ errFree y.logC ∧ errFree y.logS ∧ pubNotes (sendLog false y) = [] ∧ releasedIds (recvLog false y) = [] ∧
    DeliverySpec 2 2 P1 P2 (pubNotes (recvLog false y)) ∧ RelSpec (releasedIds (sendLog false y)) :=
  sched5_main (sysOf v P1 P2) next (nS P1 P2) (nC P1 P2) rC rS .p0 done _ hv false (nC P1 P2) (nS P1 P2) rS rC (Or.inr ⟨rfl, rfl, rfl, rfl, rfl⟩) c1 c2 r1 r2
    (sysOf_logs v P1 P2) (closure hv hA hB) (start_obs hv hA hB) (sys_done hv) h8 rfl (fun _ _ => rfl) (fun _ _ => rfl)
    (hok hA.pid hB.pid) hrel (c1_le hA.pid hB.pid) (c2_le hA.pid hB.pid) (fun _ => c1x hA.pid hB.pid) (fun _ => c2x hA.pid hB.pid) r1_step r2_step
    ⟨rfl, rfl, rfl, rfl⟩ ⟨rfl, rfl, rfl, rfl⟩ acts n hn
end

end MqttVerif.Conn.Pair.G5_22f
