import MqttVerif.Conn.Lemmas.NoPanicStep
import MqttVerif.Monitors
/-!
# C05 helpers — every complete frame is accounted for (`Mon.frameAccounted`)
-/
set_option linter.unusedSimpArgs false
set_option linter.unusedVariables false
namespace MqttVerif.Conn
open MqttVerif

/-- the event list contains a delivery, an error, or a PUBREC -/
def Acc (c : C) : Prop := Mon.frameAccounted c.ev = true

theorem acc_push_recv (c : C) (p : Pkt) : Acc (c.push (.recv p)) := by
  simp [Acc, Mon.frameAccounted, C.push]

theorem acc_err (c : C) (e : Nat) : Acc (c.err e) := by
  simp [Acc, Mon.frameAccounted, C.push, C.err]

theorem acc_push_pubrec (c : C) (p : Pkt) (rel : Option Nat) (h : p.kind = .pubrec) :
    Acc (c.push (.send p rel)) := by
  simp [Acc, Mon.frameAccounted, C.push, h]

theorem acc_of_append {c c' : C} (h : Acc c) (he : ∃ t, c'.ev = c.ev ++ t) : Acc c' := by
  obtain ⟨t, e⟩ := he
  unfold Acc Mon.frameAccounted at *
  rw [e, List.any_append, h]; rfl

theorem refreshPingreqRecv_ev (c : C) : ∃ t, (refreshPingreqRecv c).ev = c.ev ++ t := by
  unfold refreshPingreqRecv
  split
  · exact ⟨_, rfl⟩
  · exact ⟨[], by simp⟩

theorem acc_refresh {c : C} (h : Acc c) : Acc (refreshPingreqRecv c) :=
  acc_of_append h (refreshPingreqRecv_ev c)

theorem acc_spp {c : C} (h : Acc c) : Acc (sendPostProcess c) :=
  acc_of_append h (sendPostProcess_ev c)

theorem acc_handleV3Error (c : C) (e : Nat) : Acc (handleV3Error c e) := acc_err _ _
theorem acc_handleV5Error (c : C) (e : Nat) : Acc (handleV5Error c e) := acc_err _ _

theorem acc_vErr (c : C) (e : Nat) : Acc (vErr c e) := by
  unfold vErr; split
  · exact acc_handleV3Error _ _
  · exact acc_handleV5Error _ _

/-- an automatic PUBREC on an established connection is sent or refused with an error -/
theorem acc_psV3Simple_pubrec {c : C} (p : Pkt) (hk : p.kind = .pubrec) : Acc (psV3Simple c p) := by
  unfold psV3Simple
  split
  · exact acc_err _ _
  · exact acc_spp (acc_push_pubrec _ _ _ hk)

theorem acc_psV5Pubrec {c : C} (p : Pkt) (hk : p.kind = .pubrec) : Acc (psV5Pubrec c p) := by
  unfold psV5Pubrec
  split
  · exact acc_err _ _
  · split
    · exact acc_err _ _
    · dsimp only
      exact acc_spp (acc_push_pubrec _ _ _ hk)

theorem acc_prPuback (c : C) (parsed : Except Nat Pkt) : Acc (prPuback c parsed) := by
  unfold prPuback
  split
  · exact acc_vErr _ _
  · dsimp only
    split
    · exact acc_push_recv _ _
    · exact acc_vErr _ _

theorem acc_prPubrec (c : C) (parsed : Except Nat Pkt) : Acc (prPubrec c parsed) := by
  unfold prPubrec
  split
  · exact acc_vErr _ _
  · dsimp only
    split
    · exact acc_push_recv _ _
    · exact acc_vErr _ _

theorem acc_prPubrel (c : C) (parsed : Except Nat Pkt) : Acc (prPubrel c parsed) := by
  unfold prPubrel
  split
  · exact acc_vErr _ _
  · exact acc_push_recv _ _

theorem acc_prPubcomp (c : C) (parsed : Except Nat Pkt) : Acc (prPubcomp c parsed) := by
  unfold prPubcomp
  split
  · exact acc_vErr _ _
  · dsimp only
    split
    · exact acc_push_recv _ _
    · exact acc_vErr _ _

theorem acc_prPlain (c : C) (parsed : Except Nat Pkt) : Acc (prPlain c parsed) := by
  unfold prPlain
  split
  · exact acc_vErr _ _
  · exact acc_push_recv _ _

theorem acc_prSubUnsuback (c : C) (b : Bool) (parsed : Except Nat Pkt) : Acc (prSubUnsuback c b parsed) := by
  unfold prSubUnsuback
  split
  · exact acc_vErr _ _
  · dsimp only
    cases b <;> simp only [Bool.false_eq_true, if_false, if_true] <;> split <;>
      first | exact acc_push_recv _ _ | exact acc_vErr _ _

theorem acc_prPingreq (c : C) (parsed : Except Nat Pkt) : Acc (prPingreq c parsed) := by
  unfold prPingreq
  split
  · exact acc_vErr _ _
  · exact acc_push_recv _ _

theorem acc_prPingresp (c : C) (parsed : Except Nat Pkt) : Acc (prPingresp c parsed) := by
  unfold prPingresp
  split
  · exact acc_vErr _ _
  · exact acc_push_recv _ _

theorem acc_prDisconnect (c : C) (parsed : Except Nat Pkt) : Acc (prDisconnect c parsed) := by
  unfold prDisconnect
  split
  · exact acc_vErr _ _
  · exact acc_push_recv _ _

theorem acc_prV3Connect (c : C) (parsed : Except Nat Pkt) : Acc (prV3Connect c parsed) := by
  unfold prV3Connect
  split
  · exact acc_handleV3Error _ _
  · dsimp only
    split
    · exact acc_push_recv _ _
    · exact acc_err _ _

theorem acc_prV5Connect (c : C) (parsed : Except Nat Pkt) : Acc (prV5Connect c parsed) := by
  unfold prV5Connect
  split
  · exact acc_handleV5Error _ _
  · dsimp only
    split
    · exact acc_push_recv _ _
    · exact acc_err _ _

theorem acc_prV3Connack (c : C) (parsed : Except Nat Pkt) : Acc (prV3Connack c parsed) := by
  unfold prV3Connack
  split
  · exact acc_handleV3Error _ _
  · split
    · exact acc_push_recv _ _
    · exact acc_handleV3Error _ _

theorem acc_prV5Connack (c : C) (parsed : Except Nat Pkt) : Acc (prV5Connack c parsed) := by
  unfold prV5Connack
  split
  · exact acc_handleV5Error _ _
  · split
    · exact acc_push_recv _ _
    · exact acc_err _ _

/-! ## PUBLISH: the one exception (known finding #27) -/

/-- a QoS 2 PUBLISH whose identifier is already in `qos2_publish_handled` arrives while the
    connection is not established -/
def dupNotConnected (s : St) (fh : Nat) (parsed : Except Nat Pkt) : Prop :=
  fh / 16 = 3 ∧ s.status ≠ .connected ∧
    ∃ p, parsed = .ok p ∧ p.qos = 2 ∧ p.pid.getD 0 ∈ s.handled

theorem acc_prV3Publish {c : C} {parsed : Except Nat Pkt}
    (hp : ∀ p, parsed = .ok p → PubParsedOk p ∧ p.qos ≤ 2)
    (hx : ¬ (c.s.status ≠ .connected ∧ ∃ p, parsed = .ok p ∧ p.qos = 2 ∧ p.pid.getD 0 ∈ c.s.handled)) :
    Acc (prV3Publish c parsed) := by
  unfold prV3Publish
  split
  · exact acc_handleV3Error _ _
  · rename_i p
    obtain ⟨hw, hq2⟩ := hp p rfl
    split
    · exact acc_push_recv _ _
    · rename_i hq
      obtain ⟨id, hpid, hid⟩ := hw (by omega)
      simp only [hpid]
      split
      · exact acc_push_recv _ _
      · rename_i hq1
        have hq : p.qos = 2 := by omega
        dsimp only
        split
        · exact acc_push_recv _ _
        · rename_i hal
          have hal' : id ∈ c.s.handled := by simpa using hal
          have hconn : c.s.status = .connected := by
            by_cases hs : c.s.status = .connected
            · exact hs
            · exact absurd ⟨hs, p, rfl, hq, by simp [hpid, hal']⟩ hx
          apply acc_refresh
          simp only [hconn, hal', or_true, and_self, if_true]
          exact acc_psV3Simple_pubrec _ rfl

theorem prV5PublishAlias_none {c : C} {p : Pkt} (h : (prV5PublishAlias c p).2 = none) :
    Acc (prV5PublishAlias c p).1 := by
  revert h
  unfold prV5PublishAlias
  dsimp only
  (repeat' split) <;> intro h <;> first | exact acc_handleV5Error _ _ | (simp at h)

theorem prV5PublishAlias_some {c : C} {p p' : Pkt} (h : (prV5PublishAlias c p).2 = some p') :
    (prV5PublishAlias c p).1.s.handled = c.s.handled ∧ (prV5PublishAlias c p).1.s.status = c.s.status ∧
    (prV5PublishAlias c p).1.s.autoPub = c.s.autoPub := by
  revert h
  unfold prV5PublishAlias
  dsimp only
  (repeat' split) <;> intro h <;> first | exact ⟨rfl, rfl, rfl⟩ | (simp at h)

theorem acc_prV5Publish {c : C} {parsed : Except Nat Pkt}
    (hp : ∀ p, parsed = .ok p → PubParsedOk p ∧ p.qos ≤ 2)
    (hx : ¬ (c.s.status ≠ .connected ∧ ∃ p, parsed = .ok p ∧ p.qos = 2 ∧ p.pid.getD 0 ∈ c.s.handled)) :
    Acc (prV5Publish c parsed) := by
  unfold prV5Publish
  split
  · split
    · exact acc_handleV5Error _ _
    · exact acc_err _ _
  · rename_i p
    obtain ⟨hw, hq2⟩ := hp p rfl
    extract_lets r c0 rmEx id already src1 c1 src2 c2 pubackSend pubrecSend c3 c4 c5
    split
    · rename_i hn
      exact prV5PublishAlias_none hn
    · rename_i p' hs
      obtain ⟨e1, e2, e3⟩ := prV5PublishAlias_some hs
      split
      · rename_i hc
        obtain ⟨id', hid', _⟩ := hw hc.1
        rw [hid'] at hc
        exact absurd hc.2 (by simp)
      · split
        · exact acc_handleV5Error _ _
        · split
          · exact acc_push_recv _ _
          · rename_i hal
            have hal' : already := by simpa using hal
            have hq : p.qos = 2 := hal'.1
            have hconn : c.s.status = .connected := by
              by_cases hs' : c.s.status = .connected
              · exact hs'
              · refine absurd ⟨hs', p, rfl, hq, ?_⟩ hx
                have := hal'.2
                rw [← e1]; exact this
            have hc1 : c1.s.status = c0.s.status := by simp only [c1]; split <;> rfl
            have hc2 : c2.s.status = c1.s.status := by simp only [c2]; split <;> rfl
            have hst : c2.s.status = .connected := by rw [hc2, hc1]; show r.1.s.status = _; rw [e2]; exact hconn
            have h3 : c3 = c2 := by
              simp only [c3]
              have : ¬ pubackSend := by intro hh; have := hh.1; omega
              simp only [this, if_false]
            have hps : pubrecSend := ⟨hq, hst, Or.inr hal'⟩
            apply acc_refresh
            simp only [c4, hps, if_true]
            exact acc_psV5Pubrec _ rfl


theorem acc_dispatchRecv {c : C} {t : Nat} {parsed : Except Nat Pkt}
    (hp : t = 3 → ∀ p, parsed = .ok p → PubParsedOk p ∧ p.qos ≤ 2)
    (hx : ¬ (t = 3 ∧ c.s.status ≠ .connected ∧ ∃ p, parsed = .ok p ∧ p.qos = 2 ∧ p.pid.getD 0 ∈ c.s.handled)) :
    Acc (dispatchRecv c t parsed) := by
  unfold dispatchRecv
  split
  · split
    · exact acc_prV3Connect _ _
    · exact acc_prV5Connect _ _
  · split
    · exact acc_prV3Connack _ _
    · exact acc_prV5Connack _ _
  · split
    · exact acc_prV3Publish (hp rfl) (fun h => hx ⟨rfl, h⟩)
    · exact acc_prV5Publish (hp rfl) (fun h => hx ⟨rfl, h⟩)
  · exact acc_prPuback _ _
  · exact acc_prPubrec _ _
  · exact acc_prPubrel _ _
  · exact acc_prPubcomp _ _
  · exact acc_prPlain _ _
  · exact acc_prSubUnsuback _ _ _
  · exact acc_prPlain _ _
  · exact acc_prSubUnsuback _ _ _
  · exact acc_prPingreq _ _
  · exact acc_prPingresp _ _
  · exact acc_prDisconnect _ _
  · split
    · exact acc_prPlain _ _
    · exact acc_err _ _
  · exact acc_err _ _

/-- **no wedge**: every complete frame handed to `process_recv_packet` is delivered, reported
    through an error event, or answered with PUBREC — except in the situation of known
    finding #27 (`dupNotConnected`) -/
theorem acc_processRecvPacket {c : C} {fh : Nat} {data : List Nat} {parse : Nat → Except Nat Pkt}
    (hp : fh / 16 = 3 → ∀ p, parse c.s.ver = .ok p → PubParsedOk p ∧ p.qos ≤ 2)
    (hx : ¬ dupNotConnected c.s fh (parse c.s.ver)) :
    Acc (processRecvPacket c fh data parse) := by
  unfold processRecvPacket
  split
  · exact acc_err _ _
  · dsimp only
    split
    · exact acc_err _ _
    · split
      · split
        · split
          · exact acc_err _ _
          · split
            · exact acc_prV3Connect _ _
            · split
              · exact acc_prV5Connect _ _
              · exact acc_err _ _
        · exact acc_err _ _
      · exact acc_dispatchRecv hp hx

end MqttVerif.Conn
