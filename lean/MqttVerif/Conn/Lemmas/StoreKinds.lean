import MqttVerif.Conn.Step
import MqttVerif.Conn.Lemmas.Resend
/-!
# helper — the kinds of the stored packets

`SK okk c`: every stored packet's kind satisfies `okk`.  An entry enters the store only through
`store.add` in `process_send_*_publish` / `process_send_pubrel` (the packet being sent, same kind)
and through `restore_packets`; every other function leaves the store alone or shrinks it.  So, for
every `okk` that holds of PUBLISH and PUBREL, `SK okk` is kept by every call whose `restore_packets`
argument satisfies it (`sk_step`) — the Rust type of that argument (`GenericStorePacket`) admits
PUBLISH and PUBREL only.
Own namespace: may be imported next to any other lemma chain.
-/
set_option linter.unusedSimpArgs false
set_option linter.unusedVariables false
namespace MqttVerif.Conn.SKn
open MqttVerif MqttVerif.Conn

@[simp] theorem push_store (c : C) (e : Ev) : (c.push e).s.store = c.s.store := rfl
@[simp] theorem err_store (c : C) (e : Nat) : (c.err e).s.store = c.s.store := rfl
@[simp] theorem setPanic_store (c : C) (x : String) : (c.setPanic x).s.store = c.s.store := rfl

theorem ite_store (p : Prop) {_ : Decidable p} (a b : C) :
    (if p then a else b).s.store = if p then a.s.store else b.s.store := apply_ite (fun x : C => x.s.store) _ _ _

macro "st_tac" : tactic =>
  `(tactic| first
      | rfl
      | (simp [ite_store]; done)
      | ((repeat' (first | split | (simp only []; split))) <;> simp_all [ite_store]; done))

@[simp] theorem store_releaseId (c : C) (id : Nat) : (releaseId c id).s.store = c.s.store := by
  unfold releaseId; st_tac
@[simp] theorem store_releaseIfUsed (c : C) (id : Nat) : (releaseIfUsed c id).s.store = c.s.store := by
  unfold releaseIfUsed; st_tac
@[simp] theorem store_cancelTimers (c : C) : (cancelTimers c).s.store = c.s.store := by
  unfold cancelTimers; st_tac
@[simp] theorem store_sendPostProcess (c : C) : (sendPostProcess c).s.store = c.s.store := by
  rcases sendPostProcess_s_cases c with h | h <;> rw [h]
@[simp] theorem store_refreshPingreqRecv (c : C) : (refreshPingreqRecv c).s.store = c.s.store := by
  unfold refreshPingreqRecv; st_tac
@[simp] theorem store_initConn (c : C) (b : Bool) : (initConn c b).s.store = c.s.store := rfl
@[simp] theorem store_releasePacketId (c : C) (id : Nat) : (releasePacketId c id).s.store = c.s.store := by
  refine releasePacketId_ind (Q := fun c' => c'.s.store = c.s.store) c id (store_releaseIfUsed c id) (fun h => h) (fun h => ?_)
  rcases decSendCount_s_cases (dropWaits (releaseIfUsed c id) id) with e | e <;> rw [e] <;> exact h
@[simp] theorem store_decSendCount (c : C) : (decSendCount c).s.store = c.s.store := by
  unfold decSendCount; st_tac
@[simp] theorem store_releaseAll (l : List Nat) : ∀ c, (releaseAll c l).s.store = c.s.store := by
  induction l with
  | nil => intro c; rfl
  | cons x rest ih => intro c; rw [releaseAll, ih]; simp
@[simp] theorem store_validateTopicAlias (c : C) (ao : Option Nat) :
    (validateTopicAlias c ao).2.s.store = c.s.store := by
  unfold validateTopicAlias; (repeat' split) <;> rfl
@[simp] theorem store_tasInsert (c : C) (t : List Nat) (a : Nat) (x : String) :
    (tasInsert c t a x).s.store = c.s.store := by
  unfold tasInsert; (repeat' split) <;> rfl
@[simp] theorem store_autoAlias (c : C) (p : Pkt) : (autoAlias c p).1.s.store = c.s.store := by
  unfold autoAlias; (repeat' (first | split | (simp only []; split))) <;> simp
@[simp] theorem store_connectSendProp (c : C) (id v : Nat) : (connectSendProp c id v).s.store = c.s.store := by
  unfold connectSendProp; (repeat' split) <;> rfl
@[simp] theorem store_connectRecvProp (c : C) (id v : Nat) : (connectRecvProp c id v).s.store = c.s.store := by
  unfold connectRecvProp; (repeat' split) <;> rfl
@[simp] theorem store_connackSendProp (c : C) (id v : Nat) : (connackSendProp c id v).s.store = c.s.store := by
  unfold connackSendProp; st_tac
theorem store_propsFold (f : C → Nat → Nat → C) (hf : ∀ c id v, (f c id v).s.store = c.s.store) (c : C)
    (l : List (Nat × Nat)) : (propsFold f c l).s.store = c.s.store := by
  induction l generalizing c with
  | nil => rfl
  | cons x rest ih => obtain ⟨i, v⟩ := x; rw [propsFold, ih, hf]
@[simp] theorem store_fold_connectSendProp (c : C) (l : List (Nat × Nat)) :
    (propsFold connectSendProp c l).s.store = c.s.store := store_propsFold _ store_connectSendProp c l
@[simp] theorem store_fold_connectRecvProp (c : C) (l : List (Nat × Nat)) :
    (propsFold connectRecvProp c l).s.store = c.s.store := store_propsFold _ store_connectRecvProp c l
@[simp] theorem store_fold_connackSendProp (c : C) (l : List (Nat × Nat)) :
    (propsFold connackSendProp c l).s.store = c.s.store := store_propsFold _ store_connackSendProp c l
@[simp] theorem store_psV5Disconnect (c : C) (p : Pkt) : (psV5Disconnect c p).s.store = c.s.store := by
  unfold psV5Disconnect; st_tac
@[simp] theorem store_psV3Disconnect (c : C) (p : Pkt) : (psV3Disconnect c p).s.store = c.s.store := by
  unfold psV3Disconnect; st_tac
@[simp] theorem store_handleV3Error (c : C) (e : Nat) : (handleV3Error c e).s.store = c.s.store := by
  unfold handleV3Error; st_tac
@[simp] theorem store_v5DisconnectOrClose (c : C) (p : Pkt) : (v5DisconnectOrClose c p).s.store = c.s.store := by
  unfold v5DisconnectOrClose; st_tac
@[simp] theorem store_handleV5Error (c : C) (e : Nat) : (handleV5Error c e).s.store = c.s.store := by
  unfold handleV5Error; st_tac
@[simp] theorem store_vErr (c : C) (e : Nat) : (vErr c e).s.store = c.s.store := by unfold vErr; st_tac

@[simp] theorem store_psV5PublishTail (c : C) (p : Pkt) (r : Option Nat) :
    (psV5PublishTail c p r).s.store = c.s.store := by unfold psV5PublishTail; st_tac
@[simp] theorem store_psV3Simple (c : C) (p : Pkt) : (psV3Simple c p).s.store = c.s.store := by
  unfold psV3Simple; st_tac
@[simp] theorem store_psV5Simple (c : C) (p : Pkt) : (psV5Simple c p).s.store = c.s.store := by
  unfold psV5Simple; st_tac
@[simp] theorem store_psV5Puback (c : C) (p : Pkt) : (psV5Puback c p).s.store = c.s.store := by
  unfold psV5Puback; st_tac
@[simp] theorem store_psV5Pubrec (c : C) (p : Pkt) : (psV5Pubrec c p).s.store = c.s.store := by
  unfold psV5Pubrec; st_tac
@[simp] theorem store_psV5Pubcomp (c : C) (p : Pkt) : (psV5Pubcomp c p).s.store = c.s.store := store_psV5Puback c p
@[simp] theorem store_psSubUnsub (c : C) (p : Pkt) : (psSubUnsub c p).s.store = c.s.store := by
  unfold psSubUnsub; st_tac
@[simp] theorem store_psPingreq (c : C) (p : Pkt) : (psPingreq c p).s.store = c.s.store := by
  unfold psPingreq; st_tac
@[simp] theorem store_psV5Auth (c : C) (p : Pkt) : (psV5Auth c p).s.store = c.s.store := by
  unfold psV5Auth; st_tac
@[simp] theorem store_refuseSend (c : C) (e : Nat) (p : Pkt) : (refuseSend c e p).s.store = c.s.store := by
  unfold refuseSend; st_tac
@[simp] theorem store_prV3Publish (c : C) (x : Except Nat Pkt) : (prV3Publish c x).s.store = c.s.store := by
  unfold prV3Publish; st_tac
@[simp] theorem store_prV5PublishAlias (c : C) (p : Pkt) : (prV5PublishAlias c p).1.s.store = c.s.store := by
  unfold prV5PublishAlias; st_tac
@[simp] theorem store_prV5Publish (c : C) (x : Except Nat Pkt) : (prV5Publish c x).s.store = c.s.store := by
  unfold prV5Publish
  split
  · simp [ite_store]
  · rename_i p
    have h1 := store_prV5PublishAlias c p
    generalize prV5PublishAlias c p = r at h1 ⊢
    obtain ⟨c1, o⟩ := r
    cases o with
    | none => exact h1
    | some p' =>
      simp only [] at h1 ⊢
      rw [← h1]
      first
        | (simp [ite_store]; done)
        | ((repeat' (first | split | (simp only []; split))) <;> simp [ite_store])
@[simp] theorem store_prPubrel (c : C) (x : Except Nat Pkt) : (prPubrel c x).s.store = c.s.store := by
  unfold prPubrel; st_tac
@[simp] theorem store_prPlain (c : C) (x : Except Nat Pkt) : (prPlain c x).s.store = c.s.store := by
  unfold prPlain; st_tac
@[simp] theorem store_prSubUnsuback (c : C) (b : Bool) (x : Except Nat Pkt) :
    (prSubUnsuback c b x).s.store = c.s.store := by unfold prSubUnsuback; st_tac
@[simp] theorem store_prPingreq (c : C) (x : Except Nat Pkt) : (prPingreq c x).s.store = c.s.store := by
  unfold prPingreq; st_tac
@[simp] theorem store_prPingresp (c : C) (x : Except Nat Pkt) : (prPingresp c x).s.store = c.s.store := by
  unfold prPingresp; st_tac
@[simp] theorem store_prDisconnect (c : C) (x : Except Nat Pkt) : (prDisconnect c x).s.store = c.s.store := by
  unfold prDisconnect; st_tac
@[simp] theorem store_notifyTimerFired (c : C) (k : Timer) : (notifyTimerFired c k).s.store = c.s.store := by
  unfold notifyTimerFired; st_tac
@[simp] theorem store_setPingreqSendInterval (c : C) (d : Option Nat) :
    (setPingreqSendInterval c d).s.store = c.s.store := by unfold setPingreqSendInterval; st_tac

/-! ## the invariant -/

def SKl (okk : Kind → Prop) (l : List (Nat × Pkt)) : Prop := ∀ x ∈ l, okk x.2.kind
def SK (okk : Kind → Prop) (c : C) : Prop := SKl okk c.s.store

variable {okk : Kind → Prop}

theorem SKl.nil : SKl okk [] := fun _ h => by cases h
theorem SKl.sub {l l' : List (Nat × Pkt)} (h : SKl okk l) (hs : ∀ x ∈ l', x ∈ l) : SKl okk l' :=
  fun x hx => h x (hs x hx)
theorem SKl.erase {l : List (Nat × Pkt)} (h : SKl okk l) (k : Nat) : SKl okk (Conn.erase k l) :=
  h.sub fun x hx => (List.mem_filter.1 hx).1
theorem SKl.storeErase {l : List (Nat × Pkt)} (h : SKl okk l) (v : Nat) (r : Kind) (k : Nat) :
    SKl okk (storeErase v r k l) := by
  unfold Conn.storeErase; (repeat' split) <;> first | exact h | exact h.erase _
theorem SKl.storeErasePublish {l : List (Nat × Pkt)} (h : SKl okk l) (k : Nat) :
    SKl okk (storeErasePublish k l).2 := by
  unfold Conn.storeErasePublish; (repeat' split) <;> first | exact h | exact h.erase _
theorem SKl.add {l : List (Nat × Pkt)} (h : SKl okk l) {id : Nat} {p : Pkt} (hp : okk p.kind) :
    SKl okk (l ++ [(id, p)]) := by
  intro x hx
  rcases List.mem_append.1 hx with hx | hx
  · exact h x hx
  · simp only [List.mem_singleton] at hx; subst hx; exact hp

/-- `SK` reads the store only -/
theorem sk_congr {c c' : C} (h : SK okk c) (e : c'.s.store = c.s.store) : SK okk c' := by
  unfold SK; rw [e]; exact h

theorem sk_of_cases {c c' : C} (h : SK okk c) (e : c'.s.store = [] ∨ c'.s.store = c.s.store) : SK okk c' := by
  unfold SK
  rcases e with e | e <;> rw [e]
  · exact SKl.nil
  · exact h

theorem sk_clearStoreRelated (c : C) : SK okk (clearStoreRelated c) := SKl.nil

theorem sk_storeAdd {c : C} (h : SK okk c) (id : Nat) {p : Pkt} (hp : okk p.kind) (x : String) :
    SK okk (storeAdd c id p x) := by
  unfold storeAdd; split
  · exact h
  · exact SKl.add h hp

theorem sk_connackRecvProp {c : C} (h : SK okk c) (id v : Nat) : SK okk (connackRecvProp c id v) := by
  unfold connackRecvProp
  (repeat' (first | split | (simp only []; split))) <;>
    first | exact h | exact sk_clearStoreRelated _ | exact sk_congr h rfl

theorem sk_fold_connackRecvProp (l : List (Nat × Nat)) : ∀ {c : C}, SK okk c → SK okk (propsFold connackRecvProp c l) := by
  induction l with
  | nil => intro c h; exact h
  | cons x rest ih => intro c h; obtain ⟨i, v⟩ := x; rw [propsFold]; exact ih (sk_connackRecvProp h i v)

theorem sendStoredLoop_sub (l : List (Nat × Pkt)) : ∀ c, ∀ x ∈ (sendStoredLoop c l).2, x ∈ l := by
  induction l with
  | nil => intro c x hx; simp [sendStoredLoop] at hx
  | cons y rest ih =>
    intro c x hx
    obtain ⟨id, p⟩ := y
    rw [sendStoredLoop] at hx
    split at hx
    · exact List.mem_cons_of_mem _ (ih _ x hx)
    · simp only [List.mem_cons] at hx
      rcases hx with e | hx
      · subst e; exact List.mem_cons_self
      · exact List.mem_cons_of_mem _ (ih _ x hx)

theorem sk_sendStored {c : C} (h : SK okk c) : SK okk (sendStored c) := by
  unfold sendStored
  simp only []
  refine SKl.sub h ?_
  intro x hx
  have := sendStoredLoop_sub _ _ x hx
  revert this
  split <;> exact id

theorem sk_resendStored {c : C} (h : SK okk c) : SK okk (resendStored c) :=
  resendStored_ind (Q := fun x => SK okk x) c (sk_sendStored h)
    (fun h' => sk_congr h' (store_sendPostProcess _))

/-- closing tactic for the composite handlers: the result's store is the argument's -/
macro "sk_same" h:ident : tactic =>
  `(tactic| first
      | exact $h
      | (refine sk_congr $h ?_; first | rfl | (simp [ite_store]; done)))

theorem sk_psV3Connect {c : C} (h : SK okk c) (p : Pkt) : SK okk (psV3Connect c p) := by
  unfold psV3Connect
  split
  · sk_same h
  · refine sk_of_cases h ?_
    simp only [store_sendPostProcess, push_store]
    by_cases hc : p.clean = true <;> simp [hc, clearStoreRelated, initConn]

theorem sk_psV5Connect {c : C} (h : SK okk c) (p : Pkt) : SK okk (psV5Connect c p) := by
  unfold psV5Connect
  split
  · sk_same h
  split
  · sk_same h
  · refine sk_of_cases h ?_
    simp only [store_sendPostProcess, push_store, store_fold_connectSendProp]
    by_cases hc : p.clean = true <;> simp [hc, clearStoreRelated, initConn]

theorem sk_connackTail {c : C} (h : SK okk c) (sp : Bool) :
    SK okk (sendPostProcess (if sp then sendStored c else clearStoreRelated c)) := by
  refine sk_congr (c := if sp then sendStored c else clearStoreRelated c) ?_ (by simp)
  split
  · exact sk_sendStored h
  · exact sk_clearStoreRelated _

theorem sk_psV3Connack {c : C} (h : SK okk c) (p : Pkt) : SK okk (psV3Connack c p) := by
  unfold psV3Connack
  split
  · sk_same h
  · simp only []
    split
    · sk_same h
    · exact sk_connackTail (c := _) (by exact h) _

theorem sk_psV5Connack {c : C} (h : SK okk c) (p : Pkt) : SK okk (psV5Connack c p) := by
  unfold psV5Connack
  split
  · sk_same h
  split
  · sk_same h
  · simp only []
    have h1 : SK okk (if p.rc = some 0 then propsFold connackSendProp c p.props else c) :=
      sk_congr h (by split <;> simp)
    generalize (if p.rc = some 0 then propsFold connackSendProp c p.props else c) = c1 at h1
    split
    · sk_same h1
    · exact sk_connackTail (c := _) (by exact h1) _

theorem sk_pubRefuseCleanup {c : C} (h : SK okk c) (pid : Option Nat) : SK okk (pubRefuseCleanup c pid) := by
  unfold pubRefuseCleanup
  split
  · exact h
  · split
    · simp only []
      show SKl okk (storeErasePublish _ (releaseId c _).s.store).2
      rw [store_releaseId]
      exact SKl.storeErasePublish h _
    · exact h

theorem sk_psV5PublishAlias {c : C} (h : SK okk c) (p : Pkt) (rel : Option Nat) (v : Bool) :
    SK okk (psV5PublishAlias c p rel v) := by
  unfold psV5PublishAlias
  (repeat' (first | split | (simp only []; split))) <;>
    first
      | exact sk_pubRefuseCleanup (sk_congr h (by simp)) _
      | (refine sk_congr h ?_; simp [ite_store]; done)
      | (refine sk_congr h ?_; (repeat' split) <;> simp [ite_store])

theorem sk_ins {c : C} (h : SK okk c) (q2 : Prop) [Decidable q2] (id : Nat) :
    SK okk (if q2 then ({ c with s := { c.s with pubrec := ins id c.s.pubrec } } : C) else { c with s := { c.s with puback := ins id c.s.puback } }) := by
  split <;> exact h

theorem sk_psV3Publish {c : C} (h : SK okk c) (p : Pkt) (hp : okk p.kind) : SK okk (psV3Publish c p) := by
  unfold psV3Publish
  split
  · split
    · sk_same h
    · split
      · sk_same h
      split
      · sk_same h
      · rename_i id _ _ _
        simp only []
        have h1 : SK okk (if willStore c.s = true then storeAdd c id { p with dup := true } "core.rs:process_send_v3_1_1_publish:store.add().unwrap()" else c) := by
          split
          · exact sk_storeAdd h _ (by exact hp) _
          · exact h
        refine sk_congr h1 ?_
        (repeat' split) <;> simp
  · split <;> sk_same h

theorem sk_psV5Publish {c : C} (h : SK okk c) (p : Pkt) (hp : okk p.kind) : SK okk (psV5Publish c p) := by
  unfold psV5Publish
  split
  · split <;> sk_same h
  split
  · split
    · sk_same h
    · split
      · sk_same h
      split
      · sk_same h
      split
      · split
        · have hv : SK okk (validateTopicAlias c p.alias).2 := sk_congr h (by simp)
          generalize validateTopicAlias c p.alias = r at hv
          obtain ⟨o, c1⟩ := r
          simp only [] at hv ⊢
          split
          · sk_same hv
          · rename_i t _
            refine sk_psV5PublishAlias ?_ _ _ _
            refine sk_ins ?_ _ _
            refine sk_storeAdd ?_ _ (by exact hp) _
            split <;> exact hv
        · simp only []
          refine sk_psV5PublishAlias ?_ _ _ _
          refine sk_ins ?_ _ _
          exact sk_storeAdd h _ (by exact hp) _
      · simp only []
        exact sk_psV5PublishAlias (sk_ins h _ _) _ _ _
  · split
    · sk_same h
    · exact sk_psV5PublishAlias h _ _ _

theorem sk_psPubrel {c : C} (h : SK okk c) (p : Pkt) (hp : okk p.kind) : SK okk (psPubrel c p) := by
  unfold psPubrel
  split
  · sk_same h
  split
  · sk_same h
  · simp only []
    split
    · sk_same h
    · have h1 : SK okk (if c.s.needStore = true then storeAdd c (p.pid.getD 0) p "core.rs:process_send_pubrel:store.add().unwrap()" else c) := by
        split
        · exact sk_storeAdd h _ hp _
        · exact h
      generalize (if c.s.needStore = true then storeAdd c (p.pid.getD 0) p "core.rs:process_send_pubrel:store.add().unwrap()" else c) = c1 at h1
      split
      · sk_same h1
      · exact h1

theorem sk_processSend {c : C} (h : SK okk c) (p : Pkt) (hpub : okk .publish) (hrel : okk .pubrel) :
    SK okk (processSend c p) := by
  unfold processSend
  (repeat' split) <;>
    first
      | exact sk_psV3Connect h p | exact sk_psV5Connect h p | exact sk_psV3Connack h p | exact sk_psV5Connack h p
      | (refine sk_psV3Publish h p ?_; simp_all; done) | (refine sk_psV5Publish h p ?_; simp_all; done)
      | (refine sk_psPubrel h p ?_; simp_all; done)
      | exact h
      | (refine sk_congr h ?_; simp; done)

theorem sk_send {c : C} (h : SK okk c) (p : Pkt) (hpub : okk .publish) (hrel : okk .pubrel) :
    SK okk (send c p) := by
  unfold send
  split
  · sk_same h
  split
  · sk_same h
  · exact sk_processSend h p hpub hrel

/-! ## receive side -/

theorem sk_prV3Connect {c : C} (h : SK okk c) (x : Except Nat Pkt) : SK okk (prV3Connect c x) := by
  unfold prV3Connect
  split
  · sk_same h
  · simp only []
    split
    · rename_i p
      refine sk_of_cases h ?_
      simp only [push_store, store_refreshPingreqRecv]
      by_cases hc : p.clean = true <;> simp [hc, clearStoreRelated, initConn, ite_store]
    · exact sk_congr (sk_psV3Connack (c := { c with s := { c.s with status := .connecting } }) h _) rfl

theorem sk_prV5Connect {c : C} (h : SK okk c) (x : Except Nat Pkt) : SK okk (prV5Connect c x) := by
  unfold prV5Connect
  split
  · sk_same h
  · simp only []
    split
    · rename_i p
      refine sk_of_cases h ?_
      simp only [push_store, store_refreshPingreqRecv, store_fold_connectRecvProp]
      by_cases hc : p.clean = true <;> simp [hc, clearStoreRelated, initConn, ite_store]
    · exact sk_congr (sk_psV5Connack (c := { c with s := { c.s with status := .connecting } }) h _) rfl

theorem sk_prV3Connack {c : C} (h : SK okk c) (x : Except Nat Pkt) : SK okk (prV3Connack c x) := by
  unfold prV3Connack
  split
  · sk_same h
  · split
    · rename_i p
      show SK okk (if p.rc = some 0 then _ else c)
      split
      · split
        · exact sk_resendStored (c := _) (by exact h)
        · exact sk_clearStoreRelated _
      · exact h
    · sk_same h

theorem sk_prV5Connack {c : C} (h : SK okk c) (x : Except Nat Pkt) : SK okk (prV5Connack c x) := by
  unfold prV5Connack
  split
  · sk_same h
  · split
    · rename_i p
      show SK okk (if p.rc = some 0 then _ else c)
      split
      · simp only []
        have h1 := sk_fold_connackRecvProp (okk := okk) (c := { c with s := { c.s with status := .connected } }) p.props h
        split
        · exact sk_resendStored h1
        · exact sk_clearStoreRelated _
      · exact h
    · first | (sk_same h) | (split <;> sk_same h)

theorem sk_prPuback {c : C} (h : SK okk c) (x : Except Nat Pkt) : SK okk (prPuback c x) := by
  unfold prPuback
  split
  · sk_same h
  · simp only []
    split
    · rename_i p _
      have h1 : SK okk ({ c with s := { c.s with puback := del (p.pid.getD 0) c.s.puback, store := storeErase p.ver .puback (p.pid.getD 0) c.s.store } } : C) :=
        SKl.storeErase h _ _ _
      refine sk_congr h1 ?_
      simp [ite_store]
    · sk_same h

theorem sk_prPubcomp {c : C} (h : SK okk c) (x : Except Nat Pkt) : SK okk (prPubcomp c x) := by
  unfold prPubcomp
  split
  · sk_same h
  · simp only []
    split
    · rename_i p _
      have h1 : SK okk ({ c with s := { c.s with pubcomp := del (p.pid.getD 0) c.s.pubcomp, store := storeErase p.ver .pubcomp (p.pid.getD 0) c.s.store } } : C) :=
        SKl.storeErase h _ _ _
      refine sk_congr h1 ?_
      simp [ite_store]
    · sk_same h

theorem sk_prPubrec {c : C} (h : SK okk c) (x : Except Nat Pkt) (hrel : okk .pubrel) : SK okk (prPubrec c x) := by
  unfold prPubrec
  split
  · sk_same h
  · simp only []
    split
    · rename_i p _
      have h1 : SK okk ({ c with s := { c.s with pubrec := del (p.pid.getD 0) c.s.pubrec, store := storeErase p.ver .pubrec (p.pid.getD 0) c.s.store } } : C) :=
        SKl.storeErase h _ _ _
      generalize ({ c with s := { c.s with pubrec := del (p.pid.getD 0) c.s.pubrec, store := storeErase p.ver .pubrec (p.pid.getD 0) c.s.store } } : C) = c1 at h1
      refine sk_congr (c := (if p.ver = 4 ∨ p.rc = none ∨ p.rc = some 0 then (if c.s.autoPub = true ∧ c.s.status = Status.connected then psPubrel c1 (mkAck c.cfg p.ver .pubrel (p.pid.getD 0)) else c1) else decSendCount (releaseIfUsed c1 (p.pid.getD 0)))) ?_ (by simp only [push_store, store_refreshPingreqRecv])
      -- = true ∧ c.s.status = Status.connected then psPubrel c1 (mkAck c.cfg p.ver .pubrel (p.pid.getD 0)) else c1) else decSendCount (releaseIfUsed c1 (p.pid.getD 0)))
      split
      · split
        · exact sk_psPubrel h1 _ hrel
        · exact h1
      · exact sk_congr h1 (by simp)
    · sk_same h

theorem sk_dispatchRecv {c : C} (h : SK okk c) (t : Nat) (x : Except Nat Pkt) (hrel : okk .pubrel) :
    SK okk (dispatchRecv c t x) := by
  unfold dispatchRecv
  (repeat' split) <;>
    first
      | exact sk_prV3Connect h x | exact sk_prV5Connect h x | exact sk_prV3Connack h x
      | exact sk_prV5Connack h x | exact sk_prPuback h x | exact sk_prPubrec h x hrel | exact sk_prPubcomp h x
      | (refine sk_congr h ?_; simp; done)

theorem sk_processRecvPacket {c : C} (h : SK okk c) (fh : Nat) (d : List Nat) (parse : Nat → Except Nat Pkt)
    (hrel : okk .pubrel) : SK okk (processRecvPacket c fh d parse) := by
  unfold processRecvPacket
  split
  · sk_same h
  · simp only []
    split
    · sk_same h
    split
    · split
      · split
        · sk_same h
        · split
          · exact sk_prV3Connect (c := { c with s := { c.s with ver := 4 } }) h _
          split
          · exact sk_prV5Connect (c := { c with s := { c.s with ver := 5 } }) h _
          · sk_same h
      · sk_same h
    · exact sk_dispatchRecv h _ _ hrel

theorem sk_recv {c : C} (h : SK okk c) (inp : List Nat) (parse : Nat → Nat → List Nat → Except Nat Pkt)
    (hrel : okk .pubrel) : SK okk (recv c inp parse).1 := by
  unfold recv
  obtain ⟨pb, out, rest⟩ := Framing.feed c.s.pb inp
  simp only []
  cases out with
  | none => exact h
  | some o =>
    cases o with
    | complete fh data => exact sk_processRecvPacket (c := { c with s := { c.s with pb := pb } }) h fh data _ hrel
    | error => refine sk_congr h ?_; simp

/-! ## the remaining calls -/

theorem sk_notifyClosed {c : C} (h : SK okk c) : SK okk (notifyClosed c) := by
  unfold notifyClosed
  extract_lets s8 c8 sub s7 c7 unsub s6 c6 s5 c5 a s4 c4 b s3 c3 d s2 c2 s1 c1 s0 c0
  refine sk_congr (c := c1) ?_ (by rw [store_cancelTimers])
  have e6 : SK okk c6 := by
    refine sk_congr h ?_
    simp only [c6]; rw [store_releaseAll]
    show c7.s.store = _
    simp only [c7]; rw [store_releaseAll]
  simp only [c1]
  split
  · exact SKl.nil
  · exact e6

theorem sk_eraseStoredPublish {c : C} (h : SK okk c) (id : Nat) : SK okk (eraseStoredPublish c id) := by
  unfold eraseStoredPublish
  simp only []
  split
  · have h1 : SK okk ({ c with s := { c.s with store := (storeErasePublish id c.s.store).2, puback := del id c.s.puback, pubrec := del id c.s.pubrec } } : C) :=
      SKl.storeErasePublish h _
    exact sk_congr h1 (by simp)
  · exact h

/-- contract of `restore_packets`: the kinds of the restored packets (the Rust argument type
    `GenericStorePacket` holds PUBLISH and PUBREL only) -/
theorem sk_restoreOne {c : C} (h : SK okk c) (p : Pkt) (hp : okk p.kind) : SK okk (restoreOne c p) := by
  unfold restoreOne register
  (repeat' (first | split | (simp only []; split))) <;>
    first
      | exact h
      | exact sk_congr h rfl
      | exact SKl.add h hp

theorem sk_restorePackets (l : List Pkt) : ∀ {c : C}, SK okk c → (∀ p ∈ l, okk p.kind) → SK okk (restorePackets c l) := by
  induction l with
  | nil => intro c h _; exact h
  | cons p rest ih =>
    intro c h hl
    rw [restorePackets]
    exact ih (sk_restoreOne h p (hl p (by simp))) (fun q hq => hl q (by simp [hq]))

/-- **every call keeps the stored kinds** inside any class containing PUBLISH and PUBREL, provided
    `restore_packets` is given packets of that class -/
theorem sk_step (cfg : Cfg) (s : St) (op : Op) (hpub : okk .publish) (hrel : okk .pubrel)
    (h : SKl okk s.store) (hr : ∀ ps, op = .restorePackets ps → ∀ p ∈ ps, okk p.kind) :
    SKl okk (step cfg s op).s.store := by
  have g : SK okk ({ cfg := cfg, s := s } : C) := h
  cases op with
  | send p => exact sk_send g p hpub hrel
  | recv inp parse => exact sk_recv g inp parse hrel
  | timer k => exact sk_congr g (store_notifyTimerFired _ k)
  | closed => exact sk_notifyClosed g
  | setInterval d => exact sk_congr g (store_setPingreqSendInterval _ d)
  | setFlag f b => cases f <;> exact g
  | setRespTimeout ms => exact g
  | acquire => exact g
  | register id => exact g
  | release id => exact sk_congr g (store_releasePacketId _ id)
  | erase id => exact sk_eraseStoredPublish g id
  | restoreHandled ids => exact g
  | restorePackets ps => exact sk_restorePackets ps g (hr ps rfl)

end MqttVerif.Conn.SKn
