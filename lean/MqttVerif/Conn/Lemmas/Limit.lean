import MqttVerif.Conn.Lemmas.SizeStep
/-!
# C14 helper lemmas: where `mpsSend` is written
-/
namespace MqttVerif.Conn
open MqttVerif

/-- the value a property list leaves in the limit: the last Maximum Packet Size property wins -/
def mpsOf : List (Nat × Nat) → Nat → Nat
  | [], d => d
  | (id, v) :: rest, d => mpsOf rest (if id = pMPS then v else d)

theorem connectRecvProp_mps (c : C) (id v) :
    (connectRecvProp c id v).s.mpsSend = if id = pMPS then v else c.s.mpsSend := by
  unfold connectRecvProp
  (repeat' split) <;> simp_all [pTAM, pRM, pMPS, pSEI]

theorem connackRecvProp_mps (c : C) (id v) :
    (connackRecvProp c id v).s.mpsSend = if id = pMPS then v else c.s.mpsSend := by
  unfold connackRecvProp
  (repeat' split) <;> simp_all [pTAM, pRM, pMPS, pSEI, pSKA, clearStoreRelated, C.setPanic, apply_ite C.s, apply_ite St.mpsSend]

theorem propsFold_mps {f : C → Nat → Nat → C}
    (hf : ∀ c id v, (f c id v).s.mpsSend = if id = pMPS then v else c.s.mpsSend) (c : C) (l) :
    (propsFold f c l).s.mpsSend = mpsOf l c.s.mpsSend := by
  induction l generalizing c with
  | nil => rfl
  | cons x rest ih =>
    obtain ⟨id, v⟩ := x
    simp only [propsFold, mpsOf]
    rw [ih, hf]

theorem prV5Connect_ok_mps (c : C) (p : Pkt) (hd : c.s.status = .disconnected) :
    (prV5Connect c (.ok p)).s.mpsSend = mpsOf p.props c.s.mpsSend := by
  by_cases h1 : p.keepAlive > 0 <;> by_cases h2 : p.clean = true <;>
    simp [prV5Connect, hd, h1, h2, propsFold_mps connectRecvProp_mps]

theorem prV5Connack_acc_mps (c : C) (p : Pkt) (hn : c.s.status ≠ .connected) (hr : p.rc = some 0) :
    (prV5Connack c (.ok p)).s.mpsSend = mpsOf p.props c.s.mpsSend := by
  by_cases h2 : p.sp = true <;>
    simp [prV5Connack, hn, hr, h2, propsFold_mps connackRecvProp_mps]

/-- the only sources of a new limit: property 39 of a received CONNECT, or of a received
    CONNACK with reason code 0 -/
def LimitSrc (old : Nat) (t : Nat) (parsed : Except Nat Pkt) (m : Nat) : Prop :=
  m = old ∨ ∃ p, parsed = .ok p ∧ (t = 1 ∨ (t = 2 ∧ p.rc = some 0)) ∧ m = mpsOf p.props old

theorem dispatchRecv_limit (c : C) (t parsed) :
    LimitSrc c.s.mpsSend t parsed (dispatchRecv c t parsed).s.mpsSend := by
  unfold dispatchRecv
  split
  · split
    · exact .inl (prV3Connect_mps c _)
    · by_cases hn : c.s.status = .disconnected ∧ ∃ p, parsed = .ok p
      · obtain ⟨hd, p, rfl⟩ := hn
        exact .inr ⟨p, rfl, .inl rfl, prV5Connect_ok_mps c p hd⟩
      · exact .inl (prV5Connect_other_fr c parsed hn).2
  · split
    · exact .inl (prV3Connack_mps c _)
    · by_cases hn : c.s.status ≠ .connected ∧ ∃ p, parsed = .ok p ∧ p.rc = some 0
      · obtain ⟨hd, p, rfl, hr⟩ := hn
        exact .inr ⟨p, rfl, .inr ⟨rfl, hr⟩, prV5Connack_acc_mps c p hd hr⟩
      · exact .inl (prV5Connack_other_fr c parsed hn).2
  · split
    · exact .inl (prV3Publish_mps c _)
    · exact .inl (prV5Publish_mps c _)
  · exact .inl (prPuback_mps c _)
  · exact .inl (prPubrec_mps c _)
  · exact .inl (prPubrel_mps c _)
  · exact .inl (prPubcomp_mps c _)
  · exact .inl (prPlain_mps c _)
  · exact .inl (prSubUnsuback_mps c _ _)
  · exact .inl (prPlain_mps c _)
  · exact .inl (prSubUnsuback_mps c _ _)
  · exact .inl (prPingreq_mps c _)
  · exact .inl (prPingresp_mps c _)
  · exact .inl (prDisconnect_mps c _)
  · split
    · exact .inl (prPlain_mps c _)
    · exact .inl (by simp)
  · exact .inl (by simp)

theorem processRecvPacket_limit (c : C) (fh data parse) :
    ∃ v, LimitSrc c.s.mpsSend (fh / 16) (parse v) (processRecvPacket c fh data parse).s.mpsSend := by
  unfold processRecvPacket
  split
  · exact ⟨0, .inl (by simp)⟩
  · simp only []
    split
    · exact ⟨0, .inl (by simp)⟩
    · split
      · split
        · rename_i ht
          split
          · exact ⟨0, .inl (by simp)⟩
          · split
            · exact ⟨0, .inl (by simp)⟩
            · split
              · refine ⟨5, ?_⟩
                have := dispatchRecv_limit { c with s := { c.s with ver := 5 } } 1 (parse 5)
                simpa [dispatchRecv, ht] using this
              · exact ⟨0, .inl (by simp)⟩
        · exact ⟨0, .inl (by simp)⟩
      · exact ⟨c.s.ver, dispatchRecv_limit c _ _⟩

theorem recv_limit (c : C) (inp parse) :
    (recv c inp parse).1.s.mpsSend = c.s.mpsSend ∨
    ∃ fh data v, (Framing.feed c.s.pb inp).2.1 = some (.complete fh data) ∧
      LimitSrc c.s.mpsSend (fh / 16) (parse v fh data) (recv c inp parse).1.s.mpsSend := by
  unfold recv
  split
  rename_i pb out rest heq
  simp only [heq]
  split
  · exact .inl rfl
  · rename_i fh data
    obtain ⟨v, hv⟩ := processRecvPacket_limit { c with s := { c.s with pb := pb } } fh data (fun v => parse v fh data)
    exact .inr ⟨fh, data, v, rfl, hv⟩
  · exact .inl (by simp)

theorem notifyTimerFired_fr (c : C) (k) : Fr c (notifyTimerFired c k) := by
  cases k <;> simp only [notifyTimerFired] <;> (repeat' split) <;> simp [Fr]

theorem setFlag_mps (s : St) (f b) : (setFlag s f b).mpsSend = s.mpsSend := by
  cases f <;> rfl

theorem notifyClosed_mps (c : C) : (notifyClosed c).s.mpsSend = noLimit := by
  unfold notifyClosed
  simp [apply_ite C.s, apply_ite St.mpsSend, (releaseAll_fr _ _).2]

end MqttVerif.Conn
