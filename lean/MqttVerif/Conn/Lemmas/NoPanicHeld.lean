import MqttVerif.Conn.Lemmas.NoPanicRange2
/-!
# C06 / C05 helper — a stored packet keeps its identifier in use

`Held s`: every stored packet's identifier is in use (the driver's monitor
`VIOL sig=C06 stored_id_not_held`).  `Disj s`: no identifier awaited by a SUBACK / UNSUBACK is
awaited by a PUBACK / PUBREC / PUBCOMP.  Both are kept by every call in the invariant class `Good`
under the contract `Legal` **plus** the ownership rule `LegalIds`: the application does not
release, or hand to `send` with a packet that starts an exchange, an identifier that is still
owned by an exchange (`NoPanicHeld3.lean`, `Props/C05.lean`).  Without `LegalIds` the statement is
false (`release id` of a stored packet's identifier is unrestricted in `Legal`).
-/
set_option linter.unusedSimpArgs false
set_option linter.unusedVariables false
namespace MqttVerif.Conn.Hd
open MqttVerif MqttVerif.Conn

/-! ## the allocator as a set -/

theorem isUsed_iff {a : Alloc.A} {sp : Alloc.S} (r : Alloc.R a sp) (x : Nat) :
    Alloc.isUsed a x = true ↔ (a.lowest ≤ x ∧ x ≤ a.highest ∧ x ∈ sp.used) := by
  have hf := r.free x
  have := r.lo; have := r.hi
  simp only [Alloc.isUsed, Bool.and_eq_true, decide_eq_true_eq, Bool.not_eq_true', decide_eq_false_iff_not, hf,
    Alloc.S.free]
  constructor
  · rintro ⟨⟨h1, h2⟩, h3⟩
    refine ⟨h1, h2, ?_⟩
    cases hd : decide (x ∈ sp.used) with
    | true => exact of_decide_eq_true hd
    | false => exact absurd ⟨by omega, by omega, of_decide_eq_false hd⟩ h3
  · rintro ⟨h1, h2, h3⟩
    exact ⟨⟨h1, h2⟩, fun h => h.2.2 h3⟩

/-- releasing an identifier in use frees exactly that identifier -/
theorem dealloc_used {a : Alloc.A} (h : PidWf a) {v : Nat} (hv : Alloc.isUsed a v = true) (x : Nat) :
    Alloc.isUsed (Alloc.deallocate a v).2 x = true ↔ (Alloc.isUsed a x = true ∧ x ≠ v) := by
  obtain ⟨sp, r⟩ := h
  have hr : a.lowest ≤ v ∧ v ≤ a.highest := by
    simp only [Alloc.isUsed, Bool.and_eq_true, decide_eq_true_eq] at hv; exact ⟨hv.1.1, hv.1.2⟩
  have hs := (Alloc.step_refines r (.deallocate v)).2
  have hl := r.lo; have hh := r.hi
  have hstep : (sp.step (.deallocate v)).1 = { sp with used := sp.used.filter (· ≠ v) } := by
    simp only [Alloc.S.step]
    rw [if_neg]; simp; omega
  have hb := Alloc.step_bounds a (.deallocate v)
  rw [show (Alloc.step a (.deallocate v)).1 = (Alloc.deallocate a v).2 from rfl] at hs hb
  rw [hstep] at hs
  rw [isUsed_iff hs, isUsed_iff r, hb.1, hb.2]
  simp only [List.mem_filter, decide_eq_true_eq]
  constructor
  · rintro ⟨h1, h2, h3, h4⟩; exact ⟨⟨h1, h2, h3⟩, h4⟩
  · rintro ⟨⟨h1, h2, h3⟩, h4⟩; exact ⟨h1, h2, h3, h4⟩

theorem alloc_mono {a : Alloc.A} (h : PidWf a) (x : Nat) (hx : Alloc.isUsed a x = true) :
    Alloc.isUsed (Alloc.allocate a).2 x = true := by
  obtain ⟨sp, r⟩ := h
  have hs := (Alloc.step_refines r .allocate).2
  have hb := Alloc.step_bounds a .allocate
  rw [show (Alloc.step a .allocate).1 = (Alloc.allocate a).2 from rfl] at hs hb
  rw [isUsed_iff hs, hb.1, hb.2]
  obtain ⟨h1, h2, h3⟩ := (isUsed_iff r x).1 hx
  refine ⟨h1, h2, ?_⟩
  simp only [Alloc.S.step]
  split
  · exact h3
  · exact List.mem_cons_of_mem _ h3

theorem use_mono {a : Alloc.A} (h : PidWf a) (v x : Nat) (hx : Alloc.isUsed a x = true) :
    Alloc.isUsed (Alloc.useValue a v).2 x = true := by
  obtain ⟨sp, r⟩ := h
  have hs := (Alloc.step_refines r (.useValue v)).2
  have hb := Alloc.step_bounds a (.useValue v)
  rw [show (Alloc.step a (.useValue v)).1 = (Alloc.useValue a v).2 from rfl] at hs hb
  rw [isUsed_iff hs, hb.1, hb.2]
  obtain ⟨h1, h2, h3⟩ := (isUsed_iff r x).1 hx
  refine ⟨h1, h2, ?_⟩
  simp only [Alloc.S.step]
  split
  · exact List.mem_cons_of_mem _ h3
  · exact h3

/-- a successful `register_packet_id` leaves the identifier in use -/
theorem use_true {a : Alloc.A} (h : PidWf a) {v : Nat} (hv : (Alloc.useValue a v).1 = true) :
    Alloc.isUsed (Alloc.useValue a v).2 v = true := by
  obtain ⟨sp, r⟩ := h
  have hst := Alloc.step_refines r (.useValue v)
  have hs := hst.2
  have hb := Alloc.step_bounds a (.useValue v)
  have hans : (Alloc.step a (.useValue v)).2 = .bool true := by simp [Alloc.step, hv]
  rw [show (Alloc.step a (.useValue v)).1 = (Alloc.useValue a v).2 from rfl] at hs hb
  rw [isUsed_iff hs, hb.1, hb.2]
  have hfree : sp.free v := by
    have := hst.1
    rw [hans] at this
    simp only [Alloc.S.step] at this
    split at this
    · assumption
    · simp at this
  have hl := r.lo; have hh := r.hi
  refine ⟨by have := hfree.1; omega, by have := hfree.2.1; omega, ?_⟩
  simp only [Alloc.S.step, hfree, if_true]
  exact List.mem_cons_self


/-! ## the invariant and what it looks at -/

/-- what the ownership invariant looks at: allocator, store, the five wait sets -/
def K2 (c : C) : Alloc.A × List (Nat × Pkt) × List Nat × List Nat × List Nat × List Nat × List Nat :=
  (c.s.pidMan, c.s.store, c.s.suback, c.s.unsuback, c.s.puback, c.s.pubrec, c.s.pubcomp)

/-- every stored packet's identifier is in use -/
def Held (s : St) : Prop := ∀ x ∈ s.store, isUsed s x.1 = true
/-- an identifier awaited by SUBACK / UNSUBACK is not awaited by PUBACK / PUBREC / PUBCOMP -/
def Disj (s : St) : Prop :=
  ∀ id, (id ∈ s.suback ∨ id ∈ s.unsuback) → id ∉ s.puback ∧ id ∉ s.pubrec ∧ id ∉ s.pubcomp
def HD (s : St) : Prop := Held s ∧ Disj s

theorem HD.congr {c c' : C} (h : HD c.s) (e : K2 c' = K2 c) : HD c'.s := by
  simp only [K2, Prod.mk.injEq] at e
  obtain ⟨e1, e2, e3, e4, e5, e6, e7⟩ := e
  obtain ⟨h1, h2⟩ := h
  refine ⟨?_, ?_⟩
  · intro x hx; rw [e2] at hx; have := h1 x hx; simp only [isUsed] at this ⊢; rw [e1]; exact this
  · intro id hid; rw [e3, e4] at hid; rw [e5, e6, e7]; exact h2 id hid

theorem ite_K2 (p : Prop) {_ : Decidable p} (a b : C) : K2 (if p then a else b) = if p then K2 a else K2 b :=
  apply_ite _ _ _ _

/-! ## functions that leave allocator, store and wait sets alone -/

@[simp] theorem K2_push (c : C) (e : Ev) : K2 (c.push e) = K2 c := rfl
@[simp] theorem K2_err (c : C) (e : Nat) : K2 (c.err e) = K2 c := rfl
@[simp] theorem K2_setPanic (c : C) (x : String) : K2 (c.setPanic x) = K2 c := rfl

macro "k2_tac" : tactic =>
  `(tactic| simp [K2, ite_K2, Rng.ite_fst', Rng.ite_snd', apply_ite C.s, apply_ite St.pidMan, apply_ite St.store,
      apply_ite St.suback, apply_ite St.unsuback, apply_ite St.puback, apply_ite St.pubrec, apply_ite St.pubcomp])

macro "kk2" : tactic =>
  `(tactic| first
      | (simp [ite_K2]; done)
      | (simp [ite_K2]; simp [K2]; done)
      | (simp [ite_K2]; k2_tac; done)
      | ((repeat' (first | split | (simp only []; split))) <;>
          first | rfl | (simp; done) | (simp; rfl) | (simp; simp [K2]; done) | (simp [K2]; done) | (k2_tac; done)))

@[simp] theorem K2_cancelTimers (c : C) : K2 (cancelTimers c) = K2 c := by unfold cancelTimers; k2_tac
@[simp] theorem K2_sendPostProcess (c : C) : K2 (sendPostProcess c) = K2 c := by
  rcases sendPostProcess_s_cases c with h | h <;> simp [K2, h]
@[simp] theorem K2_refreshPingreqRecv (c : C) : K2 (refreshPingreqRecv c) = K2 c := by
  unfold refreshPingreqRecv; k2_tac
@[simp] theorem K2_decSendCount (c : C) : K2 (decSendCount c) = K2 c := by unfold decSendCount; k2_tac
@[simp] theorem K2_validateTopicAlias (c : C) (ao : Option Nat) : K2 (validateTopicAlias c ao).2 = K2 c := by
  unfold validateTopicAlias; (repeat' split) <;> rfl
@[simp] theorem K2_psV5Disconnect (c : C) (p : Pkt) : K2 (psV5Disconnect c p) = K2 c := by
  unfold psV5Disconnect; kk2
@[simp] theorem K2_psV3Disconnect (c : C) (p : Pkt) : K2 (psV3Disconnect c p) = K2 c := by
  unfold psV3Disconnect; kk2
@[simp] theorem K2_handleV3Error (c : C) (e : Nat) : K2 (handleV3Error c e) = K2 c := rfl
@[simp] theorem K2_v5DisconnectOrClose (c : C) (p : Pkt) : K2 (v5DisconnectOrClose c p) = K2 c := by
  unfold v5DisconnectOrClose; kk2
@[simp] theorem K2_handleV5Error (c : C) (e : Nat) : K2 (handleV5Error c e) = K2 c := by
  unfold handleV5Error; simp
@[simp] theorem K2_vErr (c : C) (e : Nat) : K2 (vErr c e) = K2 c := by unfold vErr; split <;> simp

theorem K2_propsFold (f : C → Nat → Nat → C) (hf : ∀ c id v, K2 (f c id v) = K2 c) (c : C)
    (l : List (Nat × Nat)) : K2 (propsFold f c l) = K2 c := by
  induction l generalizing c with
  | nil => rfl
  | cons x rest ih => obtain ⟨i, v⟩ := x; rw [propsFold, ih, hf]

@[simp] theorem K2_connectSendProp (c : C) (id v : Nat) : K2 (connectSendProp c id v) = K2 c := by
  unfold connectSendProp; (repeat' split) <;> rfl
@[simp] theorem K2_connackSendProp (c : C) (id v : Nat) : K2 (connackSendProp c id v) = K2 c := by
  unfold connackSendProp; (repeat' split) <;> rfl
@[simp] theorem K2_connectRecvProp (c : C) (id v : Nat) : K2 (connectRecvProp c id v) = K2 c := by
  unfold connectRecvProp; (repeat' split) <;> rfl
@[simp] theorem K2_fold_connectSendProp (c : C) (l : List (Nat × Nat)) :
    K2 (propsFold connectSendProp c l) = K2 c := K2_propsFold _ K2_connectSendProp c l
@[simp] theorem K2_fold_connackSendProp (c : C) (l : List (Nat × Nat)) :
    K2 (propsFold connackSendProp c l) = K2 c := K2_propsFold _ K2_connackSendProp c l
@[simp] theorem K2_fold_connectRecvProp (c : C) (l : List (Nat × Nat)) :
    K2 (propsFold connectRecvProp c l) = K2 c := K2_propsFold _ K2_connectRecvProp c l

@[simp] theorem K2_tasInsert (c : C) (t : List Nat) (a : Nat) (x : String) : K2 (tasInsert c t a x) = K2 c := by
  unfold tasInsert; (repeat' split) <;> rfl
@[simp] theorem K2_autoAlias (c : C) (p : Pkt) : K2 (autoAlias c p).1 = K2 c := by
  unfold autoAlias; kk2
@[simp] theorem K2_psV5PublishTail (c : C) (p : Pkt) (r : Option Nat) : K2 (psV5PublishTail c p r) = K2 c := by
  unfold psV5PublishTail; kk2
@[simp] theorem K2_psV3Simple (c : C) (p : Pkt) : K2 (psV3Simple c p) = K2 c := by
  unfold psV3Simple; kk2
@[simp] theorem K2_psV5Simple (c : C) (p : Pkt) : K2 (psV5Simple c p) = K2 c := by
  unfold psV5Simple; kk2
@[simp] theorem K2_psV5Puback (c : C) (p : Pkt) : K2 (psV5Puback c p) = K2 c := by
  unfold psV5Puback; kk2
@[simp] theorem K2_psV5Pubrec (c : C) (p : Pkt) : K2 (psV5Pubrec c p) = K2 c := by
  unfold psV5Pubrec; kk2
@[simp] theorem K2_psV5Pubcomp (c : C) (p : Pkt) : K2 (psV5Pubcomp c p) = K2 c := K2_psV5Puback c p
@[simp] theorem K2_psPingreq (c : C) (p : Pkt) : K2 (psPingreq c p) = K2 c := by
  unfold psPingreq; kk2
@[simp] theorem K2_psV5Auth (c : C) (p : Pkt) : K2 (psV5Auth c p) = K2 c := by
  unfold psV5Auth; kk2

end MqttVerif.Conn.Hd
