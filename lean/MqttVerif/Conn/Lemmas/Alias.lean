import MqttVerif.Conn.Lemmas.FrameP6b
/-!
# Topic-alias containers: lookup algebra and the `TAS` consistency invariant (C13 helpers)
-/
set_option linter.unusedSimpArgs false
set_option linter.unusedVariables false
namespace MqttVerif.Conn
open MqttVerif

/-! ## `lookup` / `erase` -/

theorem lookup_erase {α : Type} (k a : Nat) (l : List (Nat × α)) :
    lookup k (erase a l) = if k = a then none else lookup k l := by
  induction l with
  | nil => simp [erase, lookup]
  | cons x r ih =>
    obtain ⟨k', v⟩ := x
    simp only [erase, List.filter_cons] at ih ⊢
    by_cases h : k' = a
    · subst h; simp only [ne_eq, not_true_eq_false, decide_false, Bool.false_eq_true, if_false, ih, lookup]
      split <;> simp_all
    · simp only [ne_eq, h, not_false_eq_true, decide_true, if_true, lookup, ih]
      split <;> split <;> simp_all

theorem lookup_append {α : Type} (k : Nat) (l m : List (Nat × α)) :
    lookup k (l ++ m) = match lookup k l with | some v => some v | none => lookup k m := by
  induction l with
  | nil => simp [lookup]
  | cons x r ih =>
    obtain ⟨k', v⟩ := x
    simp only [List.cons_append, lookup]
    split <;> simp_all

/-- the effect of "remove the key, append the new binding" on `lookup` -/
theorem lookup_upd {α : Type} (k a : Nat) (v : α) (l : List (Nat × α)) :
    lookup k (erase a l ++ [(a, v)]) = if k = a then some v else lookup k l := by
  rw [lookup_append, lookup_erase]
  by_cases h : k = a
  · simp [h, lookup]
  · simp only [h, if_false]
    cases lookup k l <;> simp [lookup, h]

theorem lookup_some_mem {α : Type} {k : Nat} {v : α} {l : List (Nat × α)} (h : lookup k l = some v) :
    (k, v) ∈ l := by
  induction l with
  | nil => simp [lookup] at h
  | cons x r ih =>
    obtain ⟨k', v'⟩ := x
    simp only [lookup] at h
    split at h
    · simp_all
    · simp [ih h]

theorem lookup_none_iff {α : Type} (k : Nat) (l : List (Nat × α)) :
    lookup k l = none ↔ ∀ x ∈ l, x.1 ≠ k := by
  induction l with
  | nil => simp [lookup]
  | cons x r ih =>
    obtain ⟨k', v'⟩ := x
    simp only [lookup]
    split
    · simp_all
    · simp_all [eq_comm]

theorem mem_erase {α : Type} {x : Nat × α} {a : Nat} {l : List (Nat × α)} :
    x ∈ erase a l ↔ x ∈ l ∧ x.1 ≠ a := by
  simp [erase]

theorem erase_sub {α : Type} {x : Nat × α} {a : Nat} {l : List (Nat × α)} (h : x ∈ erase a l) : x ∈ l :=
  (mem_erase.1 h).1

theorem keys_erase {α : Type} (a : Nat) (l : List (Nat × α)) :
    (erase a l).map (·.1) = (l.map (·.1)).filter (· ≠ a) := by
  induction l with
  | nil => rfl
  | cons x r ih =>
    simp only [erase, List.filter_cons, List.map_cons] at ih ⊢
    split <;> simp_all

theorem keys_nodup_upd {α : Type} (a : Nat) (v : α) (l : List (Nat × α)) (h : (l.map (·.1)).Nodup) :
    ((erase a l ++ [(a, v)]).map (·.1)).Nodup := by
  rw [List.map_append, keys_erase]
  simp only [List.map_cons, List.map_nil]
  rw [List.nodup_append]
  refine ⟨h.filter _, by simp, ?_⟩
  intro x hx y hy
  simp at hx hy
  omega

/-! ## `topic_to_aliases` -/

theorem t2aPush_key {tp : List Nat} {a : Nat} {X : List (List Nat × List Nat)} {x : List Nat}
    (h : x ∈ (t2aPush tp a X).map (·.1)) : x ∈ X.map (·.1) ∨ x = tp := by
  induction X with
  | nil => simp [t2aPush] at h; simp [h]
  | cons e r ih =>
    obtain ⟨t, v⟩ := e
    simp only [t2aPush] at h
    split at h
    · simp at h ⊢; grind
    · simp only [List.map_cons, List.mem_cons] at h ⊢
      rcases h with h | h
      · simp [h]
      · rcases ih h with h | h <;> simp [h]

theorem t2aPush_nodup {tp : List Nat} {a : Nat} {X : List (List Nat × List Nat)}
    (h : (X.map (·.1)).Nodup) : ((t2aPush tp a X).map (·.1)).Nodup := by
  induction X with
  | nil => simp [t2aPush]
  | cons e r ih =>
    obtain ⟨t, v⟩ := e
    simp only [List.map_cons, List.nodup_cons] at h
    simp only [t2aPush]
    split
    · simpa using h
    · rename_i hne
      simp only [List.map_cons, List.nodup_cons]
      refine ⟨?_, ih h.2⟩
      intro hm
      rcases t2aPush_key hm with h' | h'
      · exact h.1 h'
      · exact hne h'

theorem t2aPush_mem {tp : List Nat} {a : Nat} {X : List (List Nat × List Nat)} {t v : List Nat}
    (h : (t, v) ∈ t2aPush tp a X) :
    ∀ a' ∈ v, (a' = a ∧ t = tp) ∨ ∃ v0, (t, v0) ∈ X ∧ a' ∈ v0 := by
  induction X with
  | nil => simp [t2aPush] at h; obtain ⟨rfl, rfl⟩ := h; simp
  | cons e r ih =>
    obtain ⟨t0, v0⟩ := e
    simp only [t2aPush] at h
    split at h
    · rename_i heq
      rcases List.mem_cons.1 h with h | h
      · simp only [Prod.mk.injEq] at h
        obtain ⟨rfl, rfl⟩ := h
        intro a' ha'
        rcases List.mem_append.1 ha' with h1 | h1
        · exact Or.inr ⟨v0, by simp, h1⟩
        · simp at h1; exact Or.inl ⟨h1, heq⟩
      · intro a' ha'; exact Or.inr ⟨v, by simp [h], ha'⟩
    · rcases List.mem_cons.1 h with h | h
      · simp only [Prod.mk.injEq] at h
        obtain ⟨rfl, rfl⟩ := h
        intro a' ha'; exact Or.inr ⟨v, by simp, ha'⟩
      · intro a' ha'
        rcases ih h a' ha' with h1 | ⟨w, hw, hw'⟩
        · exact Or.inl h1
        · exact Or.inr ⟨w, by simp [hw], hw'⟩

theorem t2aRemove_key {old : List Nat} {a : Nat} {X : List (List Nat × List Nat)} {x : List Nat}
    (h : x ∈ (t2aRemove old a X).map (·.1)) : x ∈ X.map (·.1) := by
  induction X with
  | nil => simp [t2aRemove] at h
  | cons e r ih =>
    obtain ⟨t, v⟩ := e
    simp only [t2aRemove] at h
    split at h
    · split at h
      · simp at h ⊢; grind
      · simpa using h
    · simp only [List.map_cons, List.mem_cons] at h ⊢
      rcases h with h | h
      · simp [h]
      · simp [ih h]

theorem t2aRemove_nodup {old : List Nat} {a : Nat} {X : List (List Nat × List Nat)}
    (h : (X.map (·.1)).Nodup) : ((t2aRemove old a X).map (·.1)).Nodup := by
  induction X with
  | nil => simp [t2aRemove]
  | cons e r ih =>
    obtain ⟨t, v⟩ := e
    simp only [List.map_cons, List.nodup_cons] at h
    simp only [t2aRemove]
    split
    · split
      · exact h.2
      · simpa using h
    · simp only [List.map_cons, List.nodup_cons]
      exact ⟨fun hm => h.1 (t2aRemove_key hm), ih h.2⟩

theorem t2aRemove_mem {old : List Nat} {a : Nat} {X : List (List Nat × List Nat)} {t v : List Nat}
    (hn : (X.map (·.1)).Nodup) (h : (t, v) ∈ t2aRemove old a X) :
    (∃ v0, (t, v0) ∈ X ∧ ∀ a' ∈ v, a' ∈ v0) ∧ (t = old → a ∉ v) := by
  induction X with
  | nil => simp [t2aRemove] at h
  | cons e r ih =>
    obtain ⟨t0, v0⟩ := e
    simp only [List.map_cons, List.nodup_cons] at hn
    simp only [t2aRemove] at h
    split at h
    · rename_i heq
      have hrest : (t, v) ∈ r → (∃ v0', (t, v0') ∈ (t0, v0) :: r ∧ ∀ a' ∈ v, a' ∈ v0') ∧ (t = old → a ∉ v) := by
        intro hm
        refine ⟨⟨v, by simp [hm], fun _ h => h⟩, ?_⟩
        intro ht
        exfalso; apply hn.1
        rw [heq, ← ht]
        exact List.mem_map.2 ⟨(t, v), hm, rfl⟩
      split at h
      · exact hrest h
      · rcases List.mem_cons.1 h with h | h
        · simp only [Prod.mk.injEq] at h
          obtain ⟨rfl, rfl⟩ := h
          refine ⟨⟨v0, by simp, ?_⟩, ?_⟩
          · intro a' ha'; exact (List.mem_filter.1 ha').1
          · intro _ hm; simp at hm
        · exact hrest h
    · rename_i hne
      rcases List.mem_cons.1 h with h | h
      · simp only [Prod.mk.injEq] at h
        obtain ⟨rfl, rfl⟩ := h
        exact ⟨⟨v, by simp, fun _ h => h⟩, fun ht => absurd ht hne⟩
      · obtain ⟨⟨w, hw, hw'⟩, h2⟩ := ih hn.2 h
        exact ⟨⟨w, by simp [hw], hw'⟩, h2⟩

/-! ## the `TopicAliasSend` consistency invariant -/

/-- internal consistency of `TopicAliasSend`: Topic Alias Maximum ≥ 1; the alias → topic map has
    pairwise distinct keys inside `[1, max]` and no empty topic; every alias listed under a topic
    in `topic_to_aliases` is bound to that topic; the allocator's free set is `[1,max] \ keys`
    and its interval representation is well formed (`Alloc.Ok`, as in C20). -/
structure TasOk (t : TAS) : Prop where
  max1 : 1 ≤ t.max
  rng : ∀ a tp, (a, tp) ∈ t.a2t → 1 ≤ a ∧ a ≤ t.max ∧ tp ≠ []
  nodup : (t.a2t.map (·.1)).Nodup
  t2a : ∀ tp v a, (tp, v) ∈ t.t2a → a ∈ v → lookup a t.a2t = some tp
  t2aNodup : (t.t2a.map (·.1)).Nodup
  ok : Alloc.Ok 1 t.alloc.pool
  free : ∀ v, Alloc.Free t.alloc.pool v ↔ (1 ≤ v ∧ v ≤ t.max ∧ lookup v t.a2t = none)

theorem TasOk.new (v : Nat) (h : 1 ≤ v) : TasOk (TAS.new v) where
  max1 := h
  rng := by simp [TAS.new]
  nodup := by simp [TAS.new]
  t2a := by simp [TAS.new]
  t2aNodup := by simp [TAS.new]
  ok := ⟨Nat.le_refl _, h, trivial⟩
  free := by intro w; simp [TAS.new, Alloc.new, Alloc.Free, lookup]

@[simp] theorem insertOrUpdate_max (t : TAS) (topic : List Nat) (a : Nat) :
    (t.insertOrUpdate topic a).max = t.max := by
  unfold TAS.insertOrUpdate; simp only []

theorem insertOrUpdate_lookup (t : TAS) (topic : List Nat) (a k : Nat) :
    lookup k (t.insertOrUpdate topic a).a2t = if k = a then some topic else lookup k t.a2t := by
  unfold TAS.insertOrUpdate; simp only []
  (repeat' split) <;> simp_all [lookup_upd, lookup_erase] <;> (split <;> simp_all)


theorem erase_keys_nodup {α : Type} (a : Nat) (l : List (Nat × α)) (h : (l.map (·.1)).Nodup) :
    ((erase a l).map (·.1)).Nodup := by
  rw [keys_erase]; exact h.filter _

theorem TasOk.insertOrUpdate {t : TAS} (h : TasOk t) {topic : List Nat} {a : Nat}
    (ht : topic ≠ []) (ha : 1 ≤ a ∧ a ≤ t.max) : TasOk (t.insertOrUpdate topic a) := by
  have hlk := insertOrUpdate_lookup t topic a
  cases hu : Alloc.useValueP a t.alloc.pool with
  | some p' =>
    obtain ⟨f1, f2, f3⟩ := Alloc.useValueP_some h.ok hu
    have hnone : lookup a t.a2t = none := ((h.free a).1 f1).2.2
    have heq : t.insertOrUpdate topic a =
        { t with alloc := { t.alloc with pool := p' }, a2t := erase a t.a2t ++ [(a, topic)],
                 t2a := t2aPush topic a t.t2a } := by
      simp [TAS.insertOrUpdate, Alloc.useValue, hu]
    rw [heq] at hlk ⊢
    refine ⟨h.max1, ?_, keys_nodup_upd _ _ _ h.nodup, ?_, t2aPush_nodup h.t2aNodup, f3, ?_⟩
    · intro a' tp hm
      simp only [List.mem_append, List.mem_singleton, Prod.mk.injEq] at hm
      rcases hm with hm | ⟨rfl, rfl⟩
      · exact h.rng _ _ (erase_sub hm)
      · exact ⟨ha.1, ha.2, ht⟩
    · intro tp v a' hm ha'
      simp only at hlk ⊢
      rw [hlk]
      rcases t2aPush_mem hm a' ha' with ⟨rfl, rfl⟩ | ⟨v0, hv0, hv0'⟩
      · simp
      · have := h.t2a _ _ _ hv0 hv0'
        have hne : a' ≠ a := by intro he; subst he; simp [hnone] at this
        simp [hne, this]
    · intro w
      simp only at hlk ⊢
      rw [f2, h.free w, hlk]
      by_cases hw : w = a <;> simp [hw]
  | none =>
    have hnf := Alloc.useValueP_none hu
    have hsome : lookup a t.a2t ≠ none := fun hn => hnf ((h.free a).2 ⟨ha.1, ha.2, hn⟩)
    cases hold : lookup a t.a2t with
    | none => exact absurd hold hsome
    | some old =>
      have heq : t.insertOrUpdate topic a =
          { t with a2t := erase a (erase a t.a2t) ++ [(a, topic)],
                   t2a := t2aPush topic a (t2aRemove old a t.t2a) } := by
        simp [TAS.insertOrUpdate, Alloc.useValue, hu, hold]
      rw [heq] at hlk ⊢
      refine ⟨h.max1, ?_, keys_nodup_upd _ _ _ (erase_keys_nodup _ _ h.nodup), ?_,
        t2aPush_nodup (t2aRemove_nodup h.t2aNodup), h.ok, ?_⟩
      · intro a' tp hm
        simp only [List.mem_append, List.mem_singleton, Prod.mk.injEq] at hm
        rcases hm with hm | ⟨rfl, rfl⟩
        · exact h.rng _ _ (erase_sub (erase_sub hm))
        · exact ⟨ha.1, ha.2, ht⟩
      · intro tp v a' hm ha'
        simp only at hlk ⊢
        rw [hlk]
        rcases t2aPush_mem hm a' ha' with ⟨rfl, rfl⟩ | ⟨v0, hv0, hv0'⟩
        · simp
        · obtain ⟨⟨v1, hv1, hsub⟩, hnot⟩ := t2aRemove_mem h.t2aNodup hv0
          have := h.t2a _ _ _ hv1 (hsub _ hv0')
          have hne : a' ≠ a := by
            intro he; subst he
            rw [hold] at this
            simp only [Option.some.injEq] at this
            exact hnot this.symm hv0'
          simp [hne, this]
      · intro w
        simp only at hlk ⊢
        rw [h.free w, hlk]
        by_cases hw : w = a
        · subst hw; simp [hold]
        · simp [hw]

/-! ## `get` (LRU touch), `find_by_topic`, `get_lru_alias` -/

theorem TAS.get_some {t : TAS} {a : Nat} {tp : List Nat} (h : (t.get a).1 = some tp) :
    1 ≤ a ∧ a ≤ t.max ∧ lookup a t.a2t = some tp ∧
      (t.get a).2 = { t with a2t := erase a t.a2t ++ [(a, tp)] } := by
  unfold TAS.get at h ⊢
  split at h
  · rename_i hr
    split at h
    · rename_i tp' hl
      simp only [Option.some.injEq] at h; subst h
      simp [hr, hl]
    · simp at h
  · simp at h

theorem TAS.get_none {t : TAS} {a : Nat} (h : (t.get a).1 = none) : (t.get a).2 = t := by
  unfold TAS.get at h ⊢
  split
  · split
    · rename_i hr _ tp hl; simp [hr, hl] at h
    · rfl
  · rfl

@[simp] theorem TAS.get_max (t : TAS) (a : Nat) : (t.get a).2.max = t.max := by
  unfold TAS.get; (repeat' split) <;> rfl

theorem TAS.get_lookup (t : TAS) (a k : Nat) : lookup k (t.get a).2.a2t = lookup k t.a2t := by
  cases h : (t.get a).1 with
  | none => rw [TAS.get_none h]
  | some tp =>
    obtain ⟨_, _, hl, he⟩ := TAS.get_some h
    rw [he]; simp only [lookup_upd]
    split
    · rename_i hk; subst hk; exact hl.symm
    · rfl

theorem TasOk.get {t : TAS} (h : TasOk t) (a : Nat) : TasOk (t.get a).2 := by
  cases hg : (t.get a).1 with
  | none => rw [TAS.get_none hg]; exact h
  | some tp =>
    obtain ⟨h1, h2, hl, he⟩ := TAS.get_some hg
    have hlk := TAS.get_lookup t a
    rw [he] at hlk ⊢
    simp only at hlk
    refine ⟨h.max1, ?_, keys_nodup_upd _ _ _ h.nodup, ?_, h.t2aNodup, h.ok, ?_⟩
    · intro a' tp' hm
      simp only [List.mem_append, List.mem_singleton, Prod.mk.injEq] at hm
      rcases hm with hm | ⟨rfl, rfl⟩
      · exact h.rng _ _ (erase_sub hm)
      · exact h.rng _ _ (lookup_some_mem hl)
    · intro tp' v a' hm ha'
      simp only; rw [hlk]; exact h.t2a _ _ _ hm ha'
    · intro w; simp only; rw [hlk]; exact h.free w

theorem TasOk.findByTopic {t : TAS} (h : TasOk t) {topic : List Nat} {a : Nat}
    (hf : t.findByTopic topic = some a) : lookup a t.a2t = some topic := by
  unfold TAS.findByTopic at hf
  split at hf
  · rename_i tp v hfind
    have hm := List.mem_of_find?_eq_some hfind
    have hp := List.find?_some hfind
    simp only [decide_eq_true_eq] at hp
    subst hp
    exact h.t2a _ _ _ hm (List.mem_of_mem_head? hf)
  · simp at hf

theorem TasOk.lookup_range {t : TAS} (h : TasOk t) {a : Nat} {tp : List Nat}
    (hl : lookup a t.a2t = some tp) : 1 ≤ a ∧ a ≤ t.max ∧ tp ≠ [] :=
  h.rng _ _ (lookup_some_mem hl)

theorem TasOk.lruAlias {t : TAS} (h : TasOk t) : 1 ≤ t.lruAlias ∧ t.lruAlias ≤ t.max := by
  unfold TAS.lruAlias
  split
  · rename_i a hv
    unfold Alloc.firstVacant at hv
    cases hp : t.alloc.pool with
    | nil => simp [hp] at hv
    | cons iv rest =>
      simp only [hp, List.head?_cons, Option.map_some, Option.some.injEq] at hv
      have hok := h.ok
      rw [hp] at hok
      have : Alloc.Free t.alloc.pool a := by
        rw [hp]; simp only [Alloc.free_cons]; left; subst hv; exact ⟨Nat.le_refl _, hok.2.1⟩
      have := (h.free a).1 this
      exact ⟨this.1, this.2.1⟩
  · split
    · rename_i a tp hh
      have hm : (a, tp) ∈ t.a2t := List.mem_of_mem_head? hh
      have := h.rng _ _ hm
      exact ⟨this.1, this.2.1⟩
    · exact ⟨Nat.le_refl _, h.max1⟩
/-! ## receive side: the alias stage of `process_recv_v5_0_publish` -/

/-- the alias is unusable on this connection: zero, above our Topic Alias Maximum, or no table -/
def RecvAliasBad (s : St) (a : Nat) : Prop :=
  ∀ t, s.tar = some t → (a = 0 ∨ a > t.max)

theorem TAR.get_eq {t : TAR} {a : Nat} (h : ¬ (a = 0 ∨ a > t.max)) : t.get a = lookup a t.m := by
  unfold TAR.get; rw [if_pos]; omega

theorem TAR.insertOrUpdate_lookup (t : TAR) (topic : List Nat) (a k : Nat) :
    lookup k (t.insertOrUpdate topic a).m = if k = a then some topic else lookup k t.m := by
  simp [TAR.insertOrUpdate, lookup_upd]

theorem prvAlias_empty_noalias (c : C) (p : Pkt) (ht : p.topic = []) (ha : p.alias = none) :
    prV5PublishAlias c p = (handleV5Error c eAliasInvalid, none) := by
  unfold prV5PublishAlias; simp [ht, ha]

theorem prvAlias_bad (c : C) (p : Pkt) (a : Nat) (ha : p.alias = some a) (hb : RecvAliasBad c.s a) :
    prV5PublishAlias c p = (handleV5Error c eAliasInvalid, none) := by
  unfold prV5PublishAlias RecvAliasBad at *
  cases htar : c.s.tar with
  | none => simp [ha]
  | some t => have := hb t htar; simp [ha, this]

theorem prvAlias_empty_unbound (c : C) (p : Pkt) (a : Nat) (t : TAR) (ht : p.topic = []) (ha : p.alias = some a)
    (htar : c.s.tar = some t) (hl : lookup a t.m = none) :
    prV5PublishAlias c p = (handleV5Error c eAliasInvalid, none) := by
  by_cases hb : a = 0 ∨ a > t.max
  · exact prvAlias_bad c p a ha (by intro t' h'; rw [htar] at h'; cases h'; exact hb)
  · unfold prV5PublishAlias; simp [ht, ha, htar, hb, TAR.get_eq hb, hl]

theorem prvAlias_empty_wildcard (c : C) (p : Pkt) (a : Nat) (t : TAR) (topic : List Nat) (ht : p.topic = [])
    (ha : p.alias = some a) (htar : c.s.tar = some t) (hl : lookup a t.m = some topic)
    (hw : hasWildcard topic = true) :
    prV5PublishAlias c p = (handleV5Error c eAliasInvalid, none) := by
  by_cases hb : a = 0 ∨ a > t.max
  · exact prvAlias_bad c p a ha (by intro t' h'; rw [htar] at h'; cases h'; exact hb)
  · unfold prV5PublishAlias; simp [ht, ha, htar, hb, TAR.get_eq hb, hl, hw]

theorem prvAlias_empty_bound (c : C) (p : Pkt) (a : Nat) (t : TAR) (topic : List Nat) (ht : p.topic = [])
    (ha : p.alias = some a) (htar : c.s.tar = some t) (h0 : a ≠ 0) (hm : a ≤ t.max)
    (hl : lookup a t.m = some topic) (hw : hasWildcard topic = false) :
    prV5PublishAlias c p = (c, some { p with topic := topic, extracted := true }) := by
  have hb : ¬ (a = 0 ∨ a > t.max) := by omega
  unfold prV5PublishAlias; simp [ht, ha, htar, hb, TAR.get_eq hb, hl, hw]

theorem prvAlias_register (c : C) (p : Pkt) (a : Nat) (t : TAR) (ht : p.topic ≠ [])
    (ha : p.alias = some a) (htar : c.s.tar = some t) (h0 : a ≠ 0) (hm : a ≤ t.max) :
    prV5PublishAlias c p =
      ({ c with s := { c.s with tar := some (t.insertOrUpdate p.topic a) } }, some p) := by
  have hb : ¬ (a = 0 ∨ a > t.max) := by omega
  unfold prV5PublishAlias; simp [ht, ha, htar, hb]

theorem prvAlias_plain (c : C) (p : Pkt) (ht : p.topic ≠ []) (ha : p.alias = none) :
    prV5PublishAlias c p = (c, some p) := by
  unfold prV5PublishAlias; simp [ht, ha]
/-! ## state-level alias invariant and the ghost receiver table -/

/-- a packet that, if it is a v5.0 PUBLISH, carries the full topic and no alias -/
def PktQuiet (p : Pkt) : Prop := p.ver = 5 → p.kind = .publish → p.alias = none ∧ p.topic ≠ []
instance (p : Pkt) : Decidable (PktQuiet p) := by unfold PktQuiet; infer_instance

/-- every stored v5.0 PUBLISH has no Topic Alias and a non-empty topic -/
def StoreInv (s : St) : Prop := ∀ e ∈ s.store, PktQuiet e.2
def TasOkS (s : St) : Prop := ∀ t, s.tas = some t → TasOk t
/-- the sender's alias → topic binding -/
def slookup (s : St) (a : Nat) : Option (List Nat) :=
  match s.tas with
  | some t => lookup a t.a2t
  | none => none
def Agree (s : St) (peer : Mon.PeerTable) : Prop :=
  ∀ a tp, slookup s a = some tp → Mon.peerLookup a peer = some tp
def peerMaxOf (s : St) : Nat :=
  match s.tas with
  | some t => t.max
  | none => 0

/-- **C13 invariant**: the sender's table is internally consistent, the store is alias-free,
    and every binding of the sender is a binding of the (ghost) receiver -/
structure AliasInv (s : St) (peer : Mon.PeerTable) : Prop where
  tasOk : TasOkS s
  store : StoreInv s
  agree : Agree s peer

/-- `Mon.peerStepEvs` only looks at the v5.0 PUBLISH packets -/
def peerPubs (pm : Nat) : Mon.PeerTable → List Pkt → Option Mon.PeerTable
  | t, [] => some t
  | t, p :: rest =>
    match Mon.peerStep pm t p with
    | some t' => peerPubs pm t' rest
    | none => none

theorem peerStepEvs_eq (pm : Nat) (t : Mon.PeerTable) (evs : List Ev) :
    Mon.peerStepEvs pm t evs = peerPubs pm t (pubs evs) := by
  induction evs generalizing t with
  | nil => rfl
  | cons e r ih =>
    cases e with
    | send p rel =>
      simp only [Mon.peerStepEvs, pubs_cons, pubsOf_send]
      split
      · simp only [List.cons_append, List.nil_append, peerPubs]
        split <;> simp_all
      · simp [ih]
    | _ => simp [Mon.peerStepEvs, ih]

theorem peerPubs_append (pm : Nat) (t : Mon.PeerTable) (l m : List Pkt) :
    peerPubs pm t (l ++ m) = match peerPubs pm t l with | some t' => peerPubs pm t' m | none => none := by
  induction l generalizing t with
  | nil => rfl
  | cons p r ih =>
    simp only [List.cons_append, peerPubs]
    split <;> simp_all

theorem peerStep_quiet (pm : Nat) (t : Mon.PeerTable) (p : Pkt) (h : p.alias = none ∧ p.topic ≠ []) :
    Mon.peerStep pm t p = some t := by
  simp [Mon.peerStep, h.1, h.2]

theorem peerPubs_quiet (pm : Nat) (t : Mon.PeerTable) (l : List Pkt)
    (h : ∀ p ∈ l, p.alias = none ∧ p.topic ≠ []) : peerPubs pm t l = some t := by
  induction l with
  | nil => rfl
  | cons p r ih =>
    simp only [peerPubs, peerStep_quiet pm t p (h p (by simp))]
    exact ih (fun q hq => h q (by simp [hq]))

theorem peerLookup_cons_filter (a k : Nat) (v : List Nat) (t : Mon.PeerTable) :
    Mon.peerLookup k ((a, v) :: t.filter (·.1 ≠ a)) = if k = a then some v else Mon.peerLookup k t := by
  by_cases h : k = a
  · subst h; simp [Mon.peerLookup]
  · have h' : ¬ a = k := fun e => h e.symm
    simp only [Mon.peerLookup, h, h', if_false]
    induction t with
    | nil => rfl
    | cons x r ih =>
      obtain ⟨k', v'⟩ := x
      simp only [List.filter_cons]
      by_cases hk : k' = a
      · subst hk; simp only [ne_eq, not_true_eq_false, decide_false, Bool.false_eq_true, if_false, Mon.peerLookup, h']; simpa using ih
      · simp only [ne_eq, hk, not_false_eq_true, decide_true, if_true, Mon.peerLookup, ih]

/-! ## "quiet" calls: no binding is added, only alias-free PUBLISH packets are emitted -/

structure Quiet (c c' : C) : Prop where
  tasOk : TasOkS c.s → TasOkS c'.s
  store : StoreInv c.s → StoreInv c'.s
  look : ∀ a tp, slookup c'.s a = some tp → slookup c.s a = some tp
  evs : ∃ l, pubs c'.ev = pubs c.ev ++ l ∧ (StoreInv c.s → ∀ q ∈ l, q.alias = none ∧ q.topic ≠ [])

theorem Quiet.refl (c : C) : Quiet c c :=
  ⟨id, id, fun _ _ h => h, [], by simp, by simp⟩

theorem Quiet.trans {a b c : C} (h1 : Quiet a b) (h2 : Quiet b c) : Quiet a c := by
  obtain ⟨l1, e1, q1⟩ := h1.evs
  obtain ⟨l2, e2, q2⟩ := h2.evs
  refine ⟨fun h => h2.tasOk (h1.tasOk h), fun h => h2.store (h1.store h),
    fun x tp h => h1.look _ _ (h2.look _ _ h), l1 ++ l2, by rw [e2, e1, List.append_assoc], ?_⟩
  intro hs q hq
  rcases List.mem_append.1 hq with hq | hq
  · exact q1 hs q hq
  · exact q2 (h1.store hs) q hq

/-- the usual way to be quiet: same table, store only shrinks or gains quiet packets, no v5.0
    PUBLISH emitted -/
theorem Quiet.of_frames {c c' : C} (htas : c'.s.tas = c.s.tas)
    (hstore : ∀ e ∈ c'.s.store, e ∈ c.s.store ∨ PktQuiet e.2) (hpubs : pubs c'.ev = pubs c.ev) :
    Quiet c c' := by
  refine ⟨?_, ?_, ?_, [], by simp [hpubs], by simp⟩
  · intro h t ht; exact h t (by rw [← htas]; exact ht)
  · intro h e he
    rcases hstore e he with h' | h'
    · exact h e h'
    · exact h'
  · intro a tp h; simpa [slookup, htas] using h

/-- a fresh or absent table is quiet as well -/
theorem Quiet.of_reset {c c' : C} (htas : c'.s.tas = c.s.tas ∨ c'.s.tas = none ∨ ∃ v, 1 ≤ v ∧ c'.s.tas = some (TAS.new v))
    (hstore : ∀ e ∈ c'.s.store, e ∈ c.s.store ∨ PktQuiet e.2)
    (hpubs : ∃ l, pubs c'.ev = pubs c.ev ++ l ∧ (StoreInv c.s → ∀ q ∈ l, q.alias = none ∧ q.topic ≠ [])) :
    Quiet c c' := by
  refine ⟨?_, ?_, ?_, hpubs⟩
  · intro h t ht
    rcases htas with h1 | h1 | ⟨v, hv, h1⟩
    · exact h t (by rw [← h1]; exact ht)
    · rw [h1] at ht; cases ht
    · rw [h1] at ht; cases ht; exact TasOk.new v hv
  · intro h e he
    rcases hstore e he with h' | h'
    · exact h e h'
    · exact h'
  · intro a tp h
    rcases htas with h1 | h1 | ⟨v, hv, h1⟩
    · simpa [slookup, h1] using h
    · simp [slookup, h1] at h
    · simp [slookup, h1, TAS.new, lookup] at h
/-! ## what the handlers do to the store -/

theorem storeErase_sub {ver : Nat} {k : Kind} {id : Nat} {st : List (Nat × Pkt)} {e : Nat × Pkt}
    (h : e ∈ storeErase ver k id st) : e ∈ st := by
  unfold storeErase at h
  (repeat' split at h) <;> first | exact h | exact erase_sub h

theorem storeErasePublish_sub {id : Nat} {st : List (Nat × Pkt)} {e : Nat × Pkt}
    (h : e ∈ (storeErasePublish id st).2) : e ∈ st := by
  unfold storeErasePublish at h
  (repeat' split at h) <;> first | exact h | exact erase_sub h

theorem notPub_quiet {p : Pkt} (h : NotPub p) : PktQuiet p := by
  intro h1 h2; exact absurd ⟨h1, h2⟩ h

theorem storeAdd_store_sub (c : C) (id : Nat) (p : Pkt) (site : String) :
    ∀ e ∈ (storeAdd c id p site).s.store, e ∈ c.s.store ∨ e.2 = p := by
  unfold storeAdd; split <;> simp [C.setPanic] <;> grind

theorem prPuback_store_sub (c : C) (x : Except Nat Pkt) : ∀ e ∈ (prPuback c x).s.store, e ∈ c.s.store := by
  unfold prPuback
  cases x with
  | error e => simp
  | ok p =>
    dsimp only
    by_cases h : p.pid.getD 0 ∈ c.s.puback
    · simp only [h, if_true]
      split <;> simp <;> (intro a b h; exact storeErase_sub h)
    · simp [h]

theorem prPubcomp_store_sub (c : C) (x : Except Nat Pkt) : ∀ e ∈ (prPubcomp c x).s.store, e ∈ c.s.store := by
  unfold prPubcomp
  cases x with
  | error e => simp
  | ok p =>
    dsimp only
    by_cases h : p.pid.getD 0 ∈ c.s.pubcomp
    · simp only [h, if_true]
      split <;> simp <;> (intro a b h; exact storeErase_sub h)
    · simp [h]

theorem psPubrel_store_sub (c : C) (p : Pkt) :
    ∀ e ∈ (psPubrel c p).s.store, e ∈ c.s.store ∨ e.2 = p := by
  unfold psPubrel; dsimp only
  (repeat' split) <;> simp <;> first | (intro a b h; exact storeAdd_store_sub _ _ _ _ _ h) | grind

theorem prPubrec_store_sub (c : C) (x : Except Nat Pkt) :
    ∀ e ∈ (prPubrec c x).s.store, e ∈ c.s.store ∨ NotPub e.2 := by
  unfold prPubrec
  split
  · simp; grind
  · dsimp only
    split
    · split
      · split
        · intro e he
          simp only [refreshPingreqRecv_store, push_s] at he
          rcases psPubrel_store_sub _ _ e he with h | h
          · exact Or.inl (storeErase_sub h)
          · right; rw [h]; exact notPub_mkAck _ _ _ _ (by decide)
        · simp; intro a b h; exact Or.inl (storeErase_sub h)
      · simp; intro a b h; exact Or.inl (storeErase_sub h)
    · simp; grind

theorem psV3Publish_store_sub (c : C) (p : Pkt) :
    ∀ e ∈ (psV3Publish c p).s.store, e ∈ c.s.store ∨ e.2 = { p with dup := true } := by
  unfold psV3Publish; dsimp only
  (repeat' split) <;> simp <;> first | (intro a b h; exact storeAdd_store_sub _ _ _ _ _ h) | grind

theorem eraseStoredPublish_store_sub (c : C) (id : Nat) :
    ∀ e ∈ (eraseStoredPublish c id).s.store, e ∈ c.s.store := by
  unfold eraseStoredPublish; dsimp only
  split <;> simp
  intro a b h; exact storeErasePublish_sub h

theorem notifyClosed_store_sub (c : C) : ∀ e ∈ (notifyClosed c).s.store, e ∈ c.s.store := by
  unfold notifyClosed; dsimp only
  split <;> simp

theorem restoreOne_store_sub (c : C) (p : Pkt) :
    ∀ e ∈ (restoreOne c p).s.store, e ∈ c.s.store ∨ e.2 = p := by
  unfold restoreOne; dsimp only
  (repeat' split) <;> simp [register] <;> grind

theorem restorePackets_store_sub (c : C) (ps : List Pkt) :
    ∀ e ∈ (restorePackets c ps).s.store, e ∈ c.s.store ∨ e.2 ∈ ps := by
  induction ps generalizing c with
  | nil => simp [restorePackets]
  | cons p r ih =>
    intro e he
    simp only [restorePackets] at he
    rcases ih _ e he with h | h
    · rcases restoreOne_store_sub c p e h with h | h
      · exact Or.inl h
      · right; simp [h]
    · right; simp [h]
/-! ## quiet handlers -/

/-- close a `Quiet` goal from the frame lemmas (same table, same store, no PUBLISH) -/
macro "quiet_frames" : tactic =>
  `(tactic| exact Quiet.of_frames (by simp) (by intro e he; exact Or.inl (by simpa using he)) (by simp [*]))

theorem quiet_err (c : C) (e : Nat) : Quiet c (c.err e) := by quiet_frames
theorem quiet_push_notPub (c : C) (p : Pkt) (r : Option Nat) (h : NotPub p) : Quiet c (c.push (.send p r)) := by
  exact Quiet.of_frames (by simp) (by intro e he; exact Or.inl (by simpa using he)) (by simp [pubsOf_notPub h])
theorem quiet_setPanic (c : C) (x : String) : Quiet c (c.setPanic x) := by quiet_frames
theorem quiet_releaseIfUsed (c : C) (id : Nat) : Quiet c (releaseIfUsed c id) := by quiet_frames
theorem quiet_sendPostProcess (c : C) : Quiet c (sendPostProcess c) := by quiet_frames
theorem quiet_refuseSend (c : C) (e : Nat) (p : Pkt) : Quiet c (refuseSend c e p) := by quiet_frames
theorem quiet_cancelTimers (c : C) : Quiet c (cancelTimers c) := by quiet_frames
theorem quiet_refresh (c : C) : Quiet c (refreshPingreqRecv c) := by quiet_frames
theorem quiet_psV3Simple (c : C) (p : Pkt) (h : NotPub p) : Quiet c (psV3Simple c p) := by quiet_frames
theorem quiet_psV5Simple (c : C) (p : Pkt) (h : NotPub p) : Quiet c (psV5Simple c p) := by quiet_frames
theorem quiet_psSubUnsub (c : C) (p : Pkt) (h : NotPub p) : Quiet c (psSubUnsub c p) := by quiet_frames
theorem quiet_psPingreq (c : C) (p : Pkt) (h : NotPub p) : Quiet c (psPingreq c p) := by quiet_frames
theorem quiet_psV5Auth (c : C) (p : Pkt) (h : NotPub p) : Quiet c (psV5Auth c p) := by quiet_frames
theorem quiet_psV5Puback (c : C) (p : Pkt) (h : NotPub p) : Quiet c (psV5Puback c p) := by quiet_frames
theorem quiet_psV5Pubrec (c : C) (p : Pkt) (h : NotPub p) : Quiet c (psV5Pubrec c p) := by quiet_frames
theorem quiet_psV5Pubcomp (c : C) (p : Pkt) (h : NotPub p) : Quiet c (psV5Pubcomp c p) := by quiet_frames
theorem quiet_psV5Disconnect (c : C) (p : Pkt) (h : NotPub p) : Quiet c (psV5Disconnect c p) := by quiet_frames
theorem quiet_psV3Disconnect (c : C) (p : Pkt) (h : NotPub p) : Quiet c (psV3Disconnect c p) := by quiet_frames
theorem quiet_handleV3Error (c : C) (e : Nat) : Quiet c (handleV3Error c e) := by quiet_frames
theorem quiet_handleV5Error (c : C) (e : Nat) : Quiet c (handleV5Error c e) := by quiet_frames
theorem quiet_v5DisconnectOrClose (c : C) (d : Pkt) (h : NotPub d) : Quiet c (v5DisconnectOrClose c d) := by quiet_frames
theorem quiet_vErr (c : C) (e : Nat) : Quiet c (vErr c e) := by quiet_frames
theorem quiet_prPlain (c : C) (x : Except Nat Pkt) : Quiet c (prPlain c x) := by quiet_frames
theorem quiet_prSubUnsuback (c : C) (b : Bool) (x : Except Nat Pkt) : Quiet c (prSubUnsuback c b x) := by quiet_frames
theorem quiet_prPingreq (c : C) (x : Except Nat Pkt) : Quiet c (prPingreq c x) := by quiet_frames
theorem quiet_prPingresp (c : C) (x : Except Nat Pkt) : Quiet c (prPingresp c x) := by quiet_frames
theorem quiet_prDisconnect (c : C) (x : Except Nat Pkt) : Quiet c (prDisconnect c x) := by quiet_frames
theorem quiet_prV3Publish (c : C) (x : Except Nat Pkt) : Quiet c (prV3Publish c x) := by quiet_frames
theorem quiet_prV5Publish (c : C) (x : Except Nat Pkt) : Quiet c (prV5Publish c x) := by quiet_frames
theorem quiet_prPubrel (c : C) (x : Except Nat Pkt) : Quiet c (prPubrel c x) := by quiet_frames
theorem quiet_notifyTimerFired (c : C) (k : Timer) : Quiet c (notifyTimerFired c k) := by quiet_frames
theorem quiet_setInterval (c : C) (d : Option Nat) : Quiet c (setPingreqSendInterval c d) := by quiet_frames
theorem quiet_acquire (c : C) : Quiet c (acquire c).2 := by quiet_frames
theorem quiet_register (c : C) (id : Nat) : Quiet c (register c id).2 := by quiet_frames
theorem quiet_release (c : C) (id : Nat) : Quiet c (releasePacketId c id) := by quiet_frames

theorem quiet_prPuback (c : C) (x : Except Nat Pkt) : Quiet c (prPuback c x) :=
  Quiet.of_frames (by simp) (fun e he => Or.inl (prPuback_store_sub c x e he)) (by simp)
theorem quiet_prPubcomp (c : C) (x : Except Nat Pkt) : Quiet c (prPubcomp c x) :=
  Quiet.of_frames (by simp) (fun e he => Or.inl (prPubcomp_store_sub c x e he)) (by simp)
theorem quiet_prPubrec (c : C) (x : Except Nat Pkt) : Quiet c (prPubrec c x) :=
  Quiet.of_frames (by simp) (fun e he => (prPubrec_store_sub c x e he).imp id notPub_quiet) (by simp)
theorem quiet_psPubrel (c : C) (p : Pkt) (h : NotPub p) : Quiet c (psPubrel c p) :=
  Quiet.of_frames (by simp) (fun e he => (psPubrel_store_sub c p e he).imp id (fun h' => by rw [h']; exact notPub_quiet h))
    (by simp [h])
theorem quiet_psV3Publish (c : C) (p : Pkt) (h : NotPub p) : Quiet c (psV3Publish c p) :=
  Quiet.of_frames (by simp) (fun e he => (psV3Publish_store_sub c p e he).imp id
    (fun h' => by rw [h']; exact notPub_quiet (by simpa [NotPub] using h))) (by simp [h])
theorem quiet_erase (c : C) (id : Nat) : Quiet c (eraseStoredPublish c id) :=
  Quiet.of_frames (by simp) (fun e he => Or.inl (eraseStoredPublish_store_sub c id e he)) (by simp)
/-! ## quiet: connection establishment, close, restore -/

theorem quiet_sendStored (c : C) : Quiet c (sendStored c) := by
  have hsub := sendStoredLoop_sub (resetCount c) c.s.store
  have hpubs := sendStoredLoop_pubs (resetCount c) c.s.store
  rw [sendStored_eq]
  refine Quiet.of_reset (Or.inl (by simp)) ?_
    ⟨pubs (storeEvs (sendStoredLoop (resetCount c) c.s.store).2), ?_, ?_⟩
  · intro e he
    exact Or.inl (hsub.subset he)
  · simpa using hpubs
  · intro hs q hq
    generalize (sendStoredLoop (resetCount c) c.s.store).2 = kept at hsub hq
    have : ∀ l : List (Nat × Pkt), (∀ e ∈ l, PktQuiet e.2) → ∀ q ∈ pubs (storeEvs l), q.alias = none ∧ q.topic ≠ [] := by
      intro l
      induction l with
      | nil => simp [storeEvs]
      | cons e r ih =>
        intro hl q hq
        simp only [storeEvs, List.map_cons, pubs_cons, List.mem_append, pubsOf_send] at hq
        rcases hq with hq | hq
        · split at hq
          · rename_i hc
            simp only [List.mem_singleton] at hq; subst hq
            exact hl e (by simp) hc.1 hc.2
          · simp at hq
        · exact ih (fun e' he' => hl e' (by simp [he'])) q hq
    exact this kept (fun e he => hs e (hsub.subset he)) q hq

theorem quiet_resendStored (c : C) : Quiet c (resendStored c) :=
  resendStored_ind (Q := fun x => Quiet c x) c (quiet_sendStored c) (fun h => h.trans (quiet_sendPostProcess _))

theorem quiet_initConn (c : C) (b : Bool) : Quiet c (initConn c b) :=
  Quiet.of_reset (Or.inr (Or.inl (by simp [initConn]))) (fun e he => Or.inl (by simpa [initConn] using he))
    ⟨[], by simp [initConn], by simp⟩

theorem quiet_clearStoreRelated (c : C) : Quiet c (clearStoreRelated c) :=
  Quiet.of_frames (by simp [clearStoreRelated]) (by simp [clearStoreRelated]) (by simp [clearStoreRelated])

theorem quiet_propsFold (f : C → Nat → Nat → C) (hf : ∀ c id v, Quiet c (f c id v)) (c : C)
    (l : List (Nat × Nat)) : Quiet c (propsFold f c l) := by
  induction l generalizing c with
  | nil => exact Quiet.refl c
  | cons e r ih => obtain ⟨id, v⟩ := e; exact Quiet.trans (hf c id v) (ih _)

theorem quiet_connectSendProp (c : C) (id v : Nat) : Quiet c (connectSendProp c id v) := by
  unfold connectSendProp
  (repeat' split) <;> first | exact Quiet.refl _ | exact Quiet.of_frames rfl (fun e he => Or.inl he) rfl

theorem quiet_connackSendProp (c : C) (id v : Nat) : Quiet c (connackSendProp c id v) := by
  unfold connackSendProp; dsimp only
  (repeat' split) <;> first | exact Quiet.refl _ | exact Quiet.of_frames rfl (fun e he => Or.inl he) (by simp)

theorem quiet_connectRecvProp (c : C) (id v : Nat) : Quiet c (connectRecvProp c id v) := by
  unfold connectRecvProp
  split
  · split
    · rename_i hv
      exact Quiet.of_reset (Or.inr (Or.inr ⟨v, by omega, rfl⟩)) (fun e he => Or.inl he) ⟨[], by simp, by simp⟩
    · exact Quiet.refl _
  · (repeat' split) <;> first | exact Quiet.refl _ | exact Quiet.of_frames rfl (fun e he => Or.inl he) rfl

theorem quiet_connackRecvProp (c : C) (id v : Nat) : Quiet c (connackRecvProp c id v) := by
  unfold connackRecvProp
  split
  · split
    · rename_i hv
      exact Quiet.of_reset (Or.inr (Or.inr ⟨v, by omega, rfl⟩)) (fun e he => Or.inl he) ⟨[], by simp, by simp⟩
    · exact Quiet.refl _
  · dsimp only
    (repeat' split) <;>
      first
      | exact Quiet.refl _
      | exact Quiet.of_frames (by simp) (fun e he => Or.inl (by simpa [C.setPanic] using he)) (by simp)
      | exact Quiet.of_frames (by simp [clearStoreRelated]) (by simp [clearStoreRelated]) (by simp [clearStoreRelated])

/-! ## quiet: CONNECT / CONNACK in both directions, close, restore -/

theorem Quiet.upd {a c : C} (s' : St) (h : Quiet a c) (h1 : s'.tas = c.s.tas ∨ s'.tas = none) (h2 : s'.store = c.s.store) :
    Quiet a { cfg := c.cfg, s := s', ev := c.ev } :=
  Quiet.trans h (Quiet.of_reset (h1.imp id Or.inl) (fun e he => Or.inl (by simpa [h2] using he)) ⟨[], by simp, by simp⟩)

theorem quiet_push_other (c : C) (e : Ev) (h : pubsOf e = []) : Quiet c (c.push e) :=
  Quiet.of_frames rfl (fun e he => Or.inl he) (by simp [h])

theorem Quiet.ite {a : C} {p : Prop} [Decidable p] {x y : C} (hx : Quiet a x) (hy : Quiet a y) :
    Quiet a (if p then x else y) := by split <;> assumption

theorem quiet_psV3Connect (c : C) (p : Pkt) (h : NotPub p) : Quiet c (psV3Connect c p) := by
  unfold psV3Connect
  split
  · exact quiet_err _ _
  · let c1 := initConn c true
    have h1 : Quiet c c1 := quiet_initConn c true
    let c2 : C := { c1 with s := { c1.s with status := .connecting, keepAliveMs := p.keepAlive * 1000 } }
    have h2 : Quiet c c2 := Quiet.upd _ h1 (Or.inl rfl) rfl
    let c3 : C := if p.clean then clearStoreRelated c2 else { c2 with s := { c2.s with needStore := true } }
    have h3 : Quiet c c3 :=
      Quiet.ite (Quiet.trans h2 (quiet_clearStoreRelated c2)) (Quiet.upd _ h2 (Or.inl rfl) rfl)
    let c4 : C := { c3 with s := { c3.s with tas := none } }
    have h4 : Quiet c c4 := Quiet.upd _ h3 (Or.inr rfl) rfl
    exact Quiet.trans (Quiet.trans h4 (quiet_push_notPub c4 p none h)) (quiet_sendPostProcess _)

theorem quiet_psV5Connect (c : C) (p : Pkt) (h : NotPub p) : Quiet c (psV5Connect c p) := by
  unfold psV5Connect
  split
  · exact quiet_err _ _
  split
  · exact quiet_err _ _
  · let c1 := initConn c true
    have h1 : Quiet c c1 := quiet_initConn c true
    let c2 : C := { c1 with s := { c1.s with status := .connecting, keepAliveMs := p.keepAlive * 1000 } }
    have h2 : Quiet c c2 := Quiet.upd _ h1 (Or.inl rfl) rfl
    let c3 : C := if p.clean then clearStoreRelated c2 else c2
    have h3 : Quiet c c3 := Quiet.ite (Quiet.trans h2 (quiet_clearStoreRelated c2)) h2
    let c4 := propsFold connectSendProp c3 p.props
    have h4 : Quiet c c4 := Quiet.trans h3 (quiet_propsFold _ quiet_connectSendProp _ _)
    exact Quiet.trans (Quiet.trans h4 (quiet_push_notPub c4 p none h)) (quiet_sendPostProcess _)

theorem quiet_connackTail (c0 c : C) (p : Pkt) (h0 : Quiet c0 c) :
    Quiet c0 (if p.rc ≠ some 0 then
      (cancelTimers { c with s := { c.s with status := .disconnected } }).push .close
    else sendPostProcess (if p.sp then sendStored { c with s := { c.s with status := .connected } }
      else clearStoreRelated { c with s := { c.s with status := .connected } })) := by
  let ca : C := { c with s := { c.s with status := .disconnected } }
  have ha : Quiet c0 ca := Quiet.upd _ h0 (Or.inl rfl) rfl
  let cb : C := { c with s := { c.s with status := .connected } }
  have hb : Quiet c0 cb := Quiet.upd _ h0 (Or.inl rfl) rfl
  exact Quiet.ite (Quiet.trans (Quiet.trans ha (quiet_cancelTimers ca)) (quiet_push_other _ _ rfl))
    (Quiet.trans (Quiet.ite (Quiet.trans hb (quiet_sendStored cb)) (Quiet.trans hb (quiet_clearStoreRelated cb)))
      (quiet_sendPostProcess _))

theorem quiet_psV3Connack (c : C) (p : Pkt) (h : NotPub p) : Quiet c (psV3Connack c p) := by
  unfold psV3Connack
  split
  · exact quiet_err _ _
  · exact quiet_connackTail c (c.push (.send p none)) p (quiet_push_notPub c p none h)

theorem quiet_psV5Connack (c : C) (p : Pkt) (h : NotPub p) : Quiet c (psV5Connack c p) := by
  unfold psV5Connack
  split
  · exact quiet_err _ _
  split
  · exact quiet_err _ _
  · let c1 : C := if p.rc = some 0 then propsFold connackSendProp c p.props else c
    have h1 : Quiet c c1 := Quiet.ite (quiet_propsFold _ quiet_connackSendProp _ _) (Quiet.refl c)
    exact quiet_connackTail c (c1.push (.send p none)) p (Quiet.trans h1 (quiet_push_notPub c1 p none h))

theorem quiet_prV3Connect (c : C) (x : Except Nat Pkt) : Quiet c (prV3Connect c x) := by
  unfold prV3Connect
  split
  · exact quiet_handleV3Error _ _
  · let c0 : C := { c with s := { c.s with status := .connecting } }
    have h0 : Quiet c c0 := Quiet.upd _ (Quiet.refl c) (Or.inl rfl) rfl
    cases x with
    | error e => exact Quiet.trans (Quiet.trans h0 (quiet_psV3Connack c0 _ (by simp))) (quiet_err _ _)
    | ok p =>
      let c1 := initConn c0 false
      have h1 : Quiet c c1 := Quiet.trans h0 (quiet_initConn c0 false)
      let c2 : C := if p.keepAlive > 0 then { c1 with s := { c1.s with recvTimeoutMs := p.keepAlive * 1000 * 3 / 2 } } else c1
      have h2 : Quiet c c2 := Quiet.ite (Quiet.upd _ h1 (Or.inl rfl) rfl) h1
      let c3 : C := if p.clean then clearStoreRelated c2 else { c2 with s := { c2.s with needStore := true } }
      have h3 : Quiet c c3 :=
        Quiet.ite (Quiet.trans h2 (quiet_clearStoreRelated c2)) (Quiet.upd _ h2 (Or.inl rfl) rfl)
      exact Quiet.trans (Quiet.trans h3 (quiet_refresh c3)) (quiet_push_other _ _ rfl)

theorem quiet_prV5Connect (c : C) (x : Except Nat Pkt) : Quiet c (prV5Connect c x) := by
  unfold prV5Connect
  split
  · exact quiet_handleV5Error _ _
  · let c0 : C := { c with s := { c.s with status := .connecting } }
    have h0 : Quiet c c0 := Quiet.upd _ (Quiet.refl c) (Or.inl rfl) rfl
    cases x with
    | error e => exact Quiet.trans (Quiet.trans h0 (quiet_psV5Connack c0 _ (by simp))) (quiet_err _ _)
    | ok p =>
      let c1 := initConn c0 false
      have h1 : Quiet c c1 := Quiet.trans h0 (quiet_initConn c0 false)
      let c2 : C := if p.keepAlive > 0 then { c1 with s := { c1.s with recvTimeoutMs := p.keepAlive * 1000 * 3 / 2 } } else c1
      have h2 : Quiet c c2 := Quiet.ite (Quiet.upd _ h1 (Or.inl rfl) rfl) h1
      let c3 : C := if p.clean then clearStoreRelated c2 else c2
      have h3 : Quiet c c3 := Quiet.ite (Quiet.trans h2 (quiet_clearStoreRelated c2)) h2
      let c4 := propsFold connectRecvProp c3 p.props
      have h4 : Quiet c c4 := Quiet.trans h3 (quiet_propsFold _ quiet_connectRecvProp _ _)
      exact Quiet.trans (Quiet.trans h4 (quiet_refresh c4)) (quiet_push_other _ _ rfl)

theorem quiet_prV3Connack (c : C) (x : Except Nat Pkt) : Quiet c (prV3Connack c x) := by
  unfold prV3Connack
  split
  · exact quiet_handleV3Error _ _
  · cases x with
    | error e => exact quiet_handleV3Error _ _
    | ok p =>
      let c0 : C := { c with s := { c.s with status := .connected } }
      have h0 : Quiet c c0 := Quiet.upd _ (Quiet.refl c) (Or.inl rfl) rfl
      let c1 : C := if p.rc = some 0 then (if p.sp then resendStored c0 else clearStoreRelated c0) else c
      have h1 : Quiet c c1 :=
        Quiet.ite (Quiet.ite (Quiet.trans h0 (quiet_resendStored c0)) (Quiet.trans h0 (quiet_clearStoreRelated c0)))
          (Quiet.refl c)
      exact Quiet.trans h1 (quiet_push_other _ _ rfl)

theorem quiet_prV5Connack (c : C) (x : Except Nat Pkt) : Quiet c (prV5Connack c x) := by
  unfold prV5Connack
  split
  · exact quiet_handleV5Error _ _
  · cases x with
    | error e => exact quiet_err _ _
    | ok p =>
      let c0 : C := { c with s := { c.s with status := .connected } }
      have h0 : Quiet c c0 := Quiet.upd _ (Quiet.refl c) (Or.inl rfl) rfl
      let c1 := propsFold connackRecvProp c0 p.props
      have h1 : Quiet c c1 := Quiet.trans h0 (quiet_propsFold _ quiet_connackRecvProp _ _)
      let c2 : C := if p.rc = some 0 then (if p.sp then resendStored c1 else clearStoreRelated c1) else c
      have h2 : Quiet c c2 :=
        Quiet.ite (Quiet.ite (Quiet.trans h1 (quiet_resendStored c1)) (Quiet.trans h1 (quiet_clearStoreRelated c1)))
          (Quiet.refl c)
      exact Quiet.trans h2 (quiet_push_other _ _ rfl)

theorem notifyClosed_tas_none (c : C) : (notifyClosed c).s.tas = none := by
  unfold notifyClosed; dsimp only; split <;> simp
theorem notifyClosed_tar_none (c : C) : (notifyClosed c).s.tar = none := by
  unfold notifyClosed; dsimp only; split <;> simp

theorem quiet_notifyClosed (c : C) : Quiet c (notifyClosed c) :=
  Quiet.of_reset (Or.inr (Or.inl (notifyClosed_tas_none c)))
    (fun e he => Or.inl (notifyClosed_store_sub c e he)) ⟨[], by simp, by simp⟩

theorem quiet_restorePackets (c : C) (ps : List Pkt) (h : ∀ p ∈ ps, PktQuiet p) :
    Quiet c (restorePackets c ps) := by
  refine Quiet.of_frames ?_ ?_ ?_
  · clear h
    induction ps generalizing c with
    | nil => rfl
    | cons p r ih => simp only [restorePackets]; rw [ih]; simp
  · intro e he
    rcases restorePackets_store_sub c ps e he with h' | h'
    · exact Or.inl h'
    · exact Or.inr (h _ h')
  · clear h
    induction ps generalizing c with
    | nil => rfl
    | cons p r ih => simp only [restorePackets]; rw [ih]; simp
end MqttVerif.Conn
