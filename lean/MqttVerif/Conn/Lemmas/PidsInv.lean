import MqttVerif.Conn.Lemmas.PidsRelease
/-!
# Helper lemmas for C08 — part 7: the ownership invariant (what is provable of it)
-/
set_option linter.unusedSimpArgs false
set_option linter.unusedVariables false
namespace MqttVerif.Conn
open MqttVerif

/-- ids owned by an in-flight exchange -/
def waitIds (s : St) : List Nat := s.suback ++ s.unsuback ++ s.puback ++ s.pubrec ++ s.pubcomp

/-- **ownership invariant** (no dangling owner): (i) every id in a wait set is in use,
    (ii) every stored packet's id is in use, (iii) store ids are pairwise distinct -/
def PidInv (s : St) : Prop :=
  (∀ id ∈ waitIds s, isUsed s id = true) ∧ (∀ x ∈ s.store, isUsed s x.1 = true) ∧
    (s.store.map (·.1)).Nodup

instance (s : St) : Decidable (PidInv s) := by unfold PidInv; infer_instance

instance (cfg : Cfg) (s : St) : Decidable (PidWf cfg s) := by unfold PidWf; infer_instance

/-- the id is owned by an exchange (wait set) or by a stored packet -/
def owned (s : St) (id : Nat) : Prop := id ∈ waitIds s ∨ storeHas id s.store = true

instance (s : St) (id : Nat) : Decidable (owned s id) := by unfold owned; infer_instance

/-- the function leaves the five wait sets and the store alone -/
abbrev Still (c c' : C) : Prop :=
  c'.s.suback = c.s.suback ∧ c'.s.unsuback = c.s.unsuback ∧ c'.s.puback = c.s.puback ∧
    c'.s.pubrec = c.s.pubrec ∧ c'.s.pubcomp = c.s.pubcomp ∧ c'.s.store = c.s.store

theorem ite_suback (p : Prop) {_ : Decidable p} (a b : St) : (if p then a else b).suback = if p then a.suback else b.suback := apply_ite _ _ _ _
theorem ite_unsuback (p : Prop) {_ : Decidable p} (a b : St) : (if p then a else b).unsuback = if p then a.unsuback else b.unsuback := apply_ite _ _ _ _
theorem ite_puback (p : Prop) {_ : Decidable p} (a b : St) : (if p then a else b).puback = if p then a.puback else b.puback := apply_ite _ _ _ _
theorem ite_pubrec (p : Prop) {_ : Decidable p} (a b : St) : (if p then a else b).pubrec = if p then a.pubrec else b.pubrec := apply_ite _ _ _ _
theorem ite_pubcomp (p : Prop) {_ : Decidable p} (a b : St) : (if p then a else b).pubcomp = if p then a.pubcomp else b.pubcomp := apply_ite _ _ _ _
theorem ite_store (p : Prop) {_ : Decidable p} (a b : St) : (if p then a else b).store = if p then a.store else b.store := apply_ite _ _ _ _

@[simp] theorem setPanic_s_sets (c : C) (x : String) :
    (c.setPanic x).s.suback = c.s.suback ∧ (c.setPanic x).s.unsuback = c.s.unsuback ∧
    (c.setPanic x).s.puback = c.s.puback ∧ (c.setPanic x).s.pubrec = c.s.pubrec ∧
    (c.setPanic x).s.pubcomp = c.s.pubcomp ∧ (c.setPanic x).s.store = c.s.store := by
  cases c; exact ⟨rfl, rfl, rfl, rfl, rfl, rfl⟩

macro "still_tac" : tactic =>
  `(tactic| simp [Still, ite_s, ite_suback, ite_unsuback, ite_puback, ite_pubrec, ite_pubcomp, ite_store])

@[simp] theorem cancelTimers_still (c : C) : Still c (cancelTimers c) := by
  unfold cancelTimers; still_tac
@[simp] theorem sendPostProcess_still (c : C) : Still c (sendPostProcess c) := by
  unfold sendPostProcess; still_tac
@[simp] theorem psV5Disconnect_still (c : C) (p : Pkt) : Still c (psV5Disconnect c p) := by
  unfold psV5Disconnect; still_tac
@[simp] theorem v5DisconnectOrClose_still (c : C) (p : Pkt) : Still c (v5DisconnectOrClose c p) := by
  unfold v5DisconnectOrClose; still_tac
@[simp] theorem psPingreq_still (c : C) (p : Pkt) : Still c (psPingreq c p) := by
  unfold psPingreq; still_tac
@[simp] theorem notifyTimerFired_still (c : C) (k : Timer) : Still c (notifyTimerFired c k) := by
  unfold notifyTimerFired; (repeat' split) <;> still_tac
@[simp] theorem setPingreqSendInterval_still (c : C) (d : Option Nat) : Still c (setPingreqSendInterval c d) := by
  unfold setPingreqSendInterval; (repeat' split) <;> still_tac

/-- wait sets and store unchanged, and every owned id keeps being in use ⇒ invariant kept -/
theorem PidInv.of_still {c c' : C} (i : PidInv c.s) (st : Still c c')
    (hu : ∀ id, owned c.s id → isUsed c.s id = true → isUsed c'.s id = true) : PidInv c'.s := by
  obtain ⟨s1, s2, s3, s4, s5, s6⟩ := st
  obtain ⟨i1, i2, i3⟩ := i
  have hw : waitIds c'.s = waitIds c.s := by simp only [waitIds, s1, s2, s3, s4, s5]
  refine ⟨?_, ?_, ?_⟩
  · intro id hm
    rw [hw] at hm
    exact hu id (Or.inl hm) (i1 id hm)
  · intro x hx
    rw [s6] at hx
    refine hu x.1 (Or.inr ?_) (i2 x hx)
    simp only [storeHas, List.any_eq_true, decide_eq_true_eq]
    exact ⟨x, hx, rfl⟩
  · rw [s6]; exact i3

theorem releaseIfUsed_keeps {c : C} (h : Wf c) {id x : Nat} (hne : x ≠ id) (hx : isUsed c.s x = true) :
    isUsed (releaseIfUsed c id).s x = true := by
  cases hu : isUsed c.s id with
  | false => rw [releaseIfUsed_unused hu]; exact hx
  | true =>
    rw [releaseIfUsed_used h hu]
    exact ((h.2.w.dealloc hu).2.2 x).2 ⟨hx, hne⟩

theorem releaseIfUsed_still {c : C} (h : Wf c) (id : Nat) : Still c (releaseIfUsed c id) := by
  rw [Still, releaseIfUsed_s c h id]; exact ⟨rfl, rfl, rfl, rfl, rfl, rfl⟩

theorem dSub_fields {c : C} (h : Wf c) : (dSub c).s.suback = [] ∧ (dSub c).s.unsuback = c.s.unsuback ∧ (dSub c).s.puback = c.s.puback ∧ (dSub c).s.pubrec = c.s.pubrec ∧ (dSub c).s.pubcomp = c.s.pubcomp ∧ (dSub c).s.store = c.s.store := by
  have e : (dSub c).s = _ := dSub_s h
  refine ⟨?_, ?_, ?_, ?_, ?_, ?_⟩ <;> rw [e]
theorem dUnsub_fields {c : C} (h : Wf c) : (dUnsub c).s.suback = c.s.suback ∧ (dUnsub c).s.unsuback = [] ∧ (dUnsub c).s.puback = c.s.puback ∧ (dUnsub c).s.pubrec = c.s.pubrec ∧ (dUnsub c).s.pubcomp = c.s.pubcomp ∧ (dUnsub c).s.store = c.s.store := by
  have e : (dUnsub c).s = _ := dUnsub_s h
  refine ⟨?_, ?_, ?_, ?_, ?_, ?_⟩ <;> rw [e]
theorem dPuback_fields {c : C} (h : Wf c) : (dPuback c).s.suback = c.s.suback ∧ (dPuback c).s.unsuback = c.s.unsuback ∧ (dPuback c).s.puback = [] ∧ (dPuback c).s.pubrec = c.s.pubrec ∧ (dPuback c).s.pubcomp = c.s.pubcomp ∧ (dPuback c).s.store = c.s.store := by
  have e : (dPuback c).s = _ := dPuback_s h
  refine ⟨?_, ?_, ?_, ?_, ?_, ?_⟩ <;> rw [e]
theorem dPubrec_fields {c : C} (h : Wf c) : (dPubrec c).s.suback = c.s.suback ∧ (dPubrec c).s.unsuback = c.s.unsuback ∧ (dPubrec c).s.puback = c.s.puback ∧ (dPubrec c).s.pubrec = [] ∧ (dPubrec c).s.pubcomp = c.s.pubcomp ∧ (dPubrec c).s.store = c.s.store := by
  have e : (dPubrec c).s = _ := dPubrec_s h
  refine ⟨?_, ?_, ?_, ?_, ?_, ?_⟩ <;> rw [e]
theorem dPubcomp_fields {c : C} (h : Wf c) : (dPubcomp c).s.suback = c.s.suback ∧ (dPubcomp c).s.unsuback = c.s.unsuback ∧ (dPubcomp c).s.puback = c.s.puback ∧ (dPubcomp c).s.pubrec = c.s.pubrec ∧ (dPubcomp c).s.pubcomp = [] ∧ (dPubcomp c).s.store = c.s.store := by
  have e : (dPubcomp c).s = _ := dPubcomp_s h
  refine ⟨?_, ?_, ?_, ?_, ?_, ?_⟩ <;> rw [e]

theorem ncS_suback (c : C) : (ncS c).s.suback = c.s.suback := rfl
theorem ncS_unsuback (c : C) : (ncS c).s.unsuback = c.s.unsuback := rfl
theorem ncS_puback (c : C) : (ncS c).s.puback = c.s.puback := rfl
theorem ncS_pubrec (c : C) : (ncS c).s.pubrec = c.s.pubrec := rfl
theorem ncS_pubcomp (c : C) : (ncS c).s.pubcomp = c.s.pubcomp := rfl
theorem ncS_store (c : C) : (ncS c).s.store = [] := rfl
theorem ncH_suback (c : C) : (ncH c).s.suback = c.s.suback := rfl
theorem ncH_unsuback (c : C) : (ncH c).s.unsuback = c.s.unsuback := rfl
theorem ncH_puback (c : C) : (ncH c).s.puback = c.s.puback := rfl
theorem ncH_pubrec (c : C) : (ncH c).s.pubrec = c.s.pubrec := rfl
theorem ncH_pubcomp (c : C) : (ncH c).s.pubcomp = c.s.pubcomp := rfl
theorem ncH_store (c : C) : (ncH c).s.store = c.s.store := rfl
theorem ncP_suback (c : C) : (ncP c).s.suback = c.s.suback := rfl
theorem ncP_unsuback (c : C) : (ncP c).s.unsuback = c.s.unsuback := rfl
theorem ncP_puback (c : C) : (ncP c).s.puback = c.s.puback := rfl
theorem ncP_pubrec (c : C) : (ncP c).s.pubrec = c.s.pubrec := rfl
theorem ncP_pubcomp (c : C) : (ncP c).s.pubcomp = c.s.pubcomp := rfl
theorem ncP_store (c : C) : (ncP c).s.store = c.s.store := rfl
theorem ncA_suback (c : C) : (ncA c).s.suback = c.s.suback := rfl
theorem ncA_unsuback (c : C) : (ncA c).s.unsuback = c.s.unsuback := rfl
theorem ncA_puback (c : C) : (ncA c).s.puback = c.s.puback := rfl
theorem ncA_pubrec (c : C) : (ncA c).s.pubrec = c.s.pubrec := rfl
theorem ncA_pubcomp (c : C) : (ncA c).s.pubcomp = c.s.pubcomp := rfl
theorem ncA_store (c : C) : (ncA c).s.store = c.s.store := rfl

theorem ncC_fields {c : C} (h : Wf c) :
    (ncC c).s.suback = c.s.suback ∧ (ncC c).s.unsuback = c.s.unsuback ∧ (ncC c).s.puback = [] ∧
      (ncC c).s.pubrec = [] ∧ (ncC c).s.pubcomp = [] ∧ (ncC c).s.store = [] := by
  have h0 : Wf (ncH c) := h.congr rfl rfl
  have f1 := dPuback_eff h0
  have f2 := dPubrec_eff f1.wf
  obtain ⟨c1, c2, c3, c4, c5, c6⟩ := dPuback_fields h0
  obtain ⟨d1, d2, d3, d4, d5, d6⟩ := dPubrec_fields f1.wf
  obtain ⟨g1, g2, g3, g4, g5, g6⟩ := dPubcomp_fields f2.wf
  unfold ncC
  simp only [ncS_suback, ncS_unsuback, ncS_puback, ncS_pubrec, ncS_pubcomp, ncS_store, ncH_suback, ncH_unsuback, ncH_puback, ncH_pubrec, ncH_pubcomp, ncH_store, ncP_suback, ncP_unsuback, ncP_puback, ncP_pubrec, ncP_pubcomp, ncP_store, ncA_suback, ncA_unsuback, ncA_puback, ncA_pubrec, ncA_pubcomp, ncA_store, g1, g2, g3, g4, g5, d1, d2, d3, d4, c1, c2, c3, and_self]

theorem notifyClosed_nonpersistent {c : C} (h : Wf c) (hn : c.s.needStore = false) :
    waitIds (notifyClosed c).s = [] ∧ (notifyClosed c).s.store = [] := by
  rw [notifyClosed_eq]
  have hA : Wf (ncA c) := h.congr rfl rfl
  have eB := ncB_eff hA
  have hns : (ncB (ncA c)).s.needStore = false := by rw [(ncB_frame hA).1]; exact hn
  simp only [hns, Bool.not_false, if_true]
  obtain ⟨s1, s2, s3, s4, s5, s6⟩ := cancelTimers_still (ncP (ncC (ncB (ncA c))))
  have e1 := dSub_eff hA
  obtain ⟨a1, a2, a3, a4, a5, a6⟩ := dSub_fields hA
  obtain ⟨b1, b2, b3, b4, b5, b6⟩ := dUnsub_fields e1.wf
  obtain ⟨k1, k2, k3, k4, k5, k6⟩ := ncC_fields eB.wf
  have b1' : (ncB (ncA c)).s.suback = (dSub (ncA c)).s.suback := b1
  have b2' : (ncB (ncA c)).s.unsuback = [] := b2
  simp only [waitIds, s1, s2, s3, s4, s5, s6, ncS_suback, ncS_unsuback, ncS_puback, ncS_pubrec, ncS_pubcomp, ncS_store, ncH_suback, ncH_unsuback, ncH_puback, ncH_pubrec, ncH_pubcomp, ncH_store, ncP_suback, ncP_unsuback, ncP_puback, ncP_pubrec, ncP_pubcomp, ncP_store, ncA_suback, ncA_unsuback, ncA_puback, ncA_pubrec, ncA_pubcomp, ncA_store, k1, k2, k3, k4, k5, k6, b1', b2', a1,
    List.append_nil, and_self]

end MqttVerif.Conn
