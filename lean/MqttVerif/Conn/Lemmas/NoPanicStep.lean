import MqttVerif.Conn.Lemmas.NoPanicRecv
import MqttVerif.Conn.Lemmas.NoPanicRange2
/-!
# C05 helpers — the remaining public calls, the contract `Legal`, and `step` keeps `Good`
-/
set_option linter.unusedSimpArgs false
set_option linter.unusedVariables false
namespace MqttVerif.Conn
open MqttVerif

/-! ## the remaining public calls -/

/-- `Good` without the ownership part (which `notify_closed` breaks and re-establishes) -/
def GoodNS (s : St) : Prop :=
  PidWf s.pidMan ∧ TasOptInv s.tas ∧ Credit s.sendMax ∧ Framing.Inv s.pb ∧ s.panic = none ∧
  VerTimer s.ver s.status s.sendSet s.recvSet s.respSet

theorem Good.ns {s : St} (h : Good s) : GoodNS s :=
  ⟨h.1.1, h.1.2.2.1, h.1.2.2.2.1, h.1.2.2.2.2.1, h.1.2.2.2.2.2, h.2⟩

theorem GoodNS.good {s : St} (h : GoodNS s) (hs : StoreInv s.ver s.store s.puback s.pubrec s.pubcomp) :
    Good s :=
  ⟨⟨h.1, hs, h.2.1, h.2.2.1, h.2.2.2.1, h.2.2.2.2.1⟩, h.2.2.2.2.2⟩

theorem releaseAll_ns {c : C} (h : GoodNS c.s) (ids : List Nat) : GoodNS (releaseAll c ids).s := by
  obtain ⟨a, ha, e⟩ := releaseAll_s h.1 ids
  rw [e]; exact ⟨ha, h.2⟩

theorem releaseAll_frame {c : C} (hp : PidWf c.s.pidMan) (ids : List Nat) :
    (releaseAll c ids).s.store = c.s.store ∧ (releaseAll c ids).s.puback = c.s.puback ∧
    (releaseAll c ids).s.pubrec = c.s.pubrec ∧ (releaseAll c ids).s.pubcomp = c.s.pubcomp ∧
    (releaseAll c ids).s.ver = c.s.ver ∧ (releaseAll c ids).s.needStore = c.s.needStore := by
  obtain ⟨a, ha, e⟩ := releaseAll_s hp ids
  rw [e]; exact ⟨rfl, rfl, rfl, rfl, rfl, rfl⟩

theorem VerTimer.disconnect {v : Nat} {st : Status} {a b d : Bool} (h : VerTimer v st a b d) :
    VerTimer v .disconnected a b d := by
  unfold VerTimer at *
  rcases h with e | e | e
  · exact Or.inl e
  · exact Or.inr (Or.inl e)
  · exact Or.inr (Or.inr ⟨e.1, rfl, e.2.2⟩)

theorem VerTimer.clear {v : Nat} {st : Status} {a b d : Bool} (h : VerTimer v st a b d) :
    VerTimer v st false false false := by
  unfold VerTimer at *
  rcases h with e | e | e
  · exact Or.inl e
  · exact Or.inr (Or.inl e)
  · exact Or.inr (Or.inr ⟨e.1, e.2.1, rfl, rfl, rfl⟩)

theorem notifyClosed_good {c : C} (h : Good c.s) : Good (notifyClosed c).s := by
  unfold notifyClosed
  extract_lets s8 c8 sub s7 c7 unsub s6 c6 s5 c5 a s4 c4 b s3 c3 d s2 c2 s1 c1 s0 c0
  rw [cancelTimers_s]
  have h8 : GoodNS c8.s :=
    ⟨h.1.1, TasOptInv.none, h.1.2.2.2.1, h.1.2.2.2.2.1, h.1.2.2.2.2.2, h.2.disconnect⟩
  have h7 : GoodNS c7.s := releaseAll_ns (c := { c8 with s := { s7 with suback := [] } }) h8 sub
  have f7 := releaseAll_frame (c := { c8 with s := { s7 with suback := [] } }) h8.1 sub
  have h6 : GoodNS c6.s := releaseAll_ns (c := { c7 with s := { s6 with unsuback := [] } }) h7 unsub
  have f6 := releaseAll_frame (c := { c7 with s := { s6 with unsuback := [] } }) h7.1 unsub
  have key : Good c1.s := by
    simp only [c1]
    split
    · have h4 : GoodNS c4.s :=
        releaseAll_ns (c := { c5 with s := { s4 with puback := [] } }) h6 a
      have f4 := releaseAll_frame (c := { c5 with s := { s4 with puback := [] } }) h6.1 a
      have h3 : GoodNS c3.s := releaseAll_ns (c := { c4 with s := { s3 with pubrec := [] } }) h4 b
      have f3 := releaseAll_frame (c := { c4 with s := { s3 with pubrec := [] } }) h4.1 b
      have h2 : GoodNS c2.s := releaseAll_ns (c := { c3 with s := { s2 with pubcomp := [] } }) h3 d
      have f2 := releaseAll_frame (c := { c3 with s := { s2 with pubcomp := [] } }) h3.1 d
      refine GoodNS.good (s := { s1 with store := [] }) h2 ?_
      have e1 : c2.s.puback = [] := by rw [f2.2.1]; show c3.s.puback = []; rw [f3.2.1]; show c4.s.puback = []; rw [f4.2.1]
      have e2 : c2.s.pubrec = [] := by rw [f2.2.2.1]; show c3.s.pubrec = []; rw [f3.2.2.1]
      have e3 : c2.s.pubcomp = [] := by rw [f2.2.2.2.1]
      show StoreInv c2.s.ver [] c2.s.puback c2.s.pubrec c2.s.pubcomp
      rw [e1, e2, e3]; exact StoreInv.empty _
    · refine GoodNS.good h6 ?_
      rw [f6.1, f6.2.1, f6.2.2.1, f6.2.2.2.1, f6.2.2.2.2.1]
      show StoreInv c7.s.ver c7.s.store c7.s.puback c7.s.pubrec c7.s.pubcomp
      rw [f7.1, f7.2.1, f7.2.2.1, f7.2.2.2.1, f7.2.2.2.2.1]
      exact h.store
  exact ⟨(key.setPb Framing.inv_reset).1, key.2.clear⟩


def timerFlag (s : St) : Timer → Bool
  | .pingreqSend => s.sendSet | .pingreqRecv => s.recvSet | .pingrespRecv => s.respSet

/-- a timer that is armed implies a determined version (the `unreachable!` **site**) -/
theorem Good.ver_of_flag {s : St} (h : Good s) {k : Timer} (hk : timerFlag s k = true) : s.ver ≠ 0 := by
  intro h0
  have := h.2
  unfold VerTimer at this
  rcases this with e | e | e
  · omega
  · omega
  · cases k <;> simp_all [timerFlag]

theorem notifyTimerFired_good {c : C} {k : Timer} (h : Good c.s) (hk : timerFlag c.s k = true) :
    Good (notifyTimerFired c k).s := by
  have hg := h.goodV (h.ver_of_flag hk)
  have hv := hg.ver
  apply GoodV.good
  cases k with
  | pingreqSend =>
    simp only [notifyTimerFired]
    split
    · split
      · apply psPingreq_goodV; exact hg
      · split
        · apply psPingreq_goodV; exact hg
        · omega
    · exact hg
  | pingreqRecv =>
    simp only [notifyTimerFired, if_true]
    split
    · exact hg
    · split
      · split
        · apply v5DisconnectOrClose_goodV; exact hg
        · exact hg
      · omega
  | pingrespRecv =>
    simp only [notifyTimerFired, reduceCtorEq, if_false]
    split
    · exact hg
    · split
      · split
        · apply v5DisconnectOrClose_goodV; exact hg
        · exact hg
      · omega

theorem setPingreqSendInterval_good {c : C} (h : Good c.s) (d : Option Nat) :
    Good (setPingreqSendInterval c d).s := by
  unfold setPingreqSendInterval
  dsimp only
  split
  · exact h
  · split
    · split
      · refine ⟨h.1, ?_⟩
        have := h.2; unfold VerTimer at *
        rcases this with e | e | e
        · exact Or.inl e
        · exact Or.inr (Or.inl e)
        · exact Or.inr (Or.inr ⟨e.1, e.2.1, rfl, e.2.2.2⟩)
      · exact h
    · split
      · rename_i hs
        refine ⟨h.1, ?_⟩
        have := h.2; unfold VerTimer at *
        rcases this with e | e | e
        · exact Or.inl e
        · exact Or.inr (Or.inl e)
        · have := e.2.1; simp_all
      · exact h

theorem eraseStoredPublish_good {c : C} (h : Good c.s) (id : Nat) : Good (eraseStoredPublish c id).s := by
  unfold eraseStoredPublish
  dsimp only
  split
  · apply releaseIfUsed_good
    apply decSendCount_good
    exact h.setStore (h.store.refuse id)
  · exact h

/-- contract of `restore_packets` for one packet: QoS 0 PUBLISH packets are skipped; any other
    packet is a PUBLISH/PUBREL of the connection's (determined) version whose identifier
    awaits no response -/
def RestoreOne (s : St) (p : Pkt) : Prop :=
  (p.kind = .publish ∧ p.qos = 0) ∨
  (p.ver = s.ver ∧ s.ver ≠ 0 ∧ (p.kind = .publish ∨ p.kind = .pubrel) ∧ IdFresh s (p.pid.getD 0))

theorem restoreOne_good {c : C} {p : Pkt} (h : Good c.s) (hr : RestoreOne c.s p) :
    Good (restoreOne c p).s := by
  unfold restoreOne
  split
  · exact h
  · rename_i hskip
    rcases hr with hr | ⟨hv, hne, hk, hf⟩
    · exact absurd hr hskip
    · dsimp only
      have hp : PidWf (register c (p.pid.getD 0)).2.s.pidMan := h.pid.useValue _
      have hns := h.store.fresh_not_stored hf.1 hf.2.1 hf.2.2
      split
      · by_cases hk1 : p.kind = .pubrel
        · simp only [hk1, if_true]
          have : storeHas (p.pid.getD 0) (register c (p.pid.getD 0)).2.s.store = false := hns
          simp only [this, Bool.false_eq_true, if_false]
          exact (h.setPid hp).setStore (h.store.addPubcomp hf.1 hf.2.1 hf.2.2
            (Or.inr ⟨p, rfl, hv, hne, Or.inr hk1, by simp [respOf, hk1]⟩))
        · have hk2 : p.kind = .publish := by rcases hk with e | e; exact e; exact absurd e hk1
          simp only [hk1, if_false]
          by_cases hq : p.qos = 2
          · simp only [hq, if_true]
            have : storeHas (p.pid.getD 0) (register c (p.pid.getD 0)).2.s.store = false := hns
            simp only [this, Bool.false_eq_true, if_false]
            exact (h.setPid hp).setStore (h.store.addPubrec hf.1 hf.2.1 hf.2.2
              (Or.inr ⟨_, rfl, hv, hne, Or.inl hk2, by simp [respOf, hk2, hq]⟩))
          · simp only [hq, if_false]
            have : storeHas (p.pid.getD 0) (register c (p.pid.getD 0)).2.s.store = false := hns
            simp only [this, Bool.false_eq_true, if_false]
            exact (h.setPid hp).setStore (h.store.addPuback hf.1 hf.2.1 hf.2.2
              (Or.inr ⟨_, rfl, hv, hne, Or.inl hk2, by simp [respOf, hk2, hq]⟩))
      · exact h.setPid hp

/-- contract of `restore_packets`: each packet satisfies `RestoreOne` in the state reached
    by restoring the preceding ones -/
def RestoreOk (c : C) : List Pkt → Prop
  | [] => True
  | p :: ps => RestoreOne c.s p ∧ RestoreOk (restoreOne c p) ps

theorem restorePackets_good {c : C} (h : Good c.s) (ps : List Pkt) (hr : RestoreOk c ps) :
    Good (restorePackets c ps).s := by
  induction ps generalizing c with
  | nil => exact h
  | cons p rest ih =>
    simp only [restorePackets]
    exact ih (restoreOne_good h hr.1) hr.2


/-! ## the contract of one API call, and the inductive step -/

/-- **the range invariant**: the packet-id allocator manages a sub-range of `[1, u32::MAX]`
    and every stored packet's identifier lies in the allocator's range.  With "stored
    identifiers are pairwise distinct" (`StoreInv`) it bounds the number of stored packets
    (`StoreRange.headroom`): the `u32` counter `publish_send_count` cannot overflow in
    `send_stored`. -/
def StoreRange (s : St) : Prop :=
  1 ≤ s.pidMan.lowest ∧ s.pidMan.highest ≤ 4294967295 ∧
  ∀ x ∈ s.store, s.pidMan.lowest ≤ x.1 ∧ x.1 ≤ s.pidMan.highest

theorem StoreRange.sr {s : St} (h : StoreRange s) (cfg : Cfg) :
    Rng.SR s.pidMan.lowest s.pidMan.highest (Rng.K { cfg := cfg, s := s }) := ⟨rfl, rfl, h.2.2⟩

/-- **pigeonhole**: at most `highest ≤ u32::MAX` packets are stored — `Headroom` is no longer a
    side condition but a consequence of the invariant -/
theorem StoreRange.headroom {s : St} (h : Good s) (hr : StoreRange s) : Headroom s := by
  have hn := h.store.2.2.2.2
  have := Pigeon.keys_length_le (m := s.pidMan.highest) hn (fun x hx => by
    have := hr.2.2 x hx
    have := hr.1
    omega)
  unfold Headroom
  have := hr.2.1
  omega

/-- the store never holds more packets than there are packet identifiers -/
theorem StoreRange.length_le {s : St} (h : Good s) (hr : StoreRange s) (hl : s.pidMan.lowest = 1) :
    s.store.length ≤ s.pidMan.highest :=
  Pigeon.keys_length_le h.store.2.2.2.2 (fun x hx => by have := hr.2.2 x hx; omega)

theorem step_range {cfg : Cfg} {s : St} (h : Good s) (hr : StoreRange s) (op : Op) :
    StoreRange (step cfg s op).s := by
  obtain ⟨e1, e2, e3⟩ := Rng.sr_step h.pid (hr.sr cfg) op
  simp only [Rng.K] at e1 e2 e3
  refine ⟨by rw [e1]; exact hr.1, by rw [e2]; exact hr.2.1, ?_⟩
  rw [e1, e2]; exact e3

/-- **contract-respecting local calls, arbitrary peer input.**
    * `send p`: `SendOk` (a v3.1.1/v5.0 packet; PUBLISH topic without wildcard; a QoS>0 PUBLISH
      carries an identifier; the identifier of a QoS>0 PUBLISH / PUBREL awaits no response);
    * `recv inp parse`: **every** `inp`, every parser whose successful results are well formed;
    * `timer k`: the timer is armed;
    * `restorePackets ps`: `RestoreOk`;
    * `release id`: no stored packet carries `id` (since fix ba1a812 `release_packet_id` removes the
      identifier from the wait sets `puback` / `pubrec` but not its packet from the store: a stored
      packet would be left without wait-set entry, and a later stored PUBLISH with the re-acquired
      identifier hits `store.add().unwrap()` — `Props/C05.lean`, `C05_release_stored_then_reuse_panics`);
    * every other call (closed, options, acquire / register / erase of ANY id,
      restoreHandled): unrestricted.
    (Until fix ab9a1ec — `publish_send_count` a `u16` — `recv` and a CONNACK `send` carried the
    side condition `Headroom`: at most 65535 stored packets.) -/
def Legal (cfg : Cfg) (s : St) : Op → Prop
  | .send p => SendOk s p
  | .recv _ parse => ParserOk parse
  | .timer k => timerFlag s k = true
  | .restorePackets ps => RestoreOk { cfg := cfg, s := s } ps
  | .release id => storeHas id s.store = false
  | _ => True

/-- `release_packet_id` (fix ba1a812) of an identifier no stored packet carries: the wait sets
    shrink, every stored packet keeps its entry -/
theorem releasePacketId_good {c : C} (h : Good c.s) (id : Nat) (hst : storeHas id c.s.store = false) :
    Good (releasePacketId c id).s := by
  have h1 := releaseIfUsed_good h id
  obtain ⟨a, ha, e⟩ := releaseIfUsed_s h.pid id
  have hs : (releaseIfUsed c id).s.store = c.s.store := by rw [e]
  refine releasePacketId_ind (Q := fun c' => Good c'.s) c id h1 (fun _ => ?_) (fun h2 => decSendCount_good h2)
  have hst' : ∀ q, (id, q) ∉ (releaseIfUsed c id).s.store := by rw [hs]; exact storeHas_false.1 hst
  have hsi : StoreInv (releaseIfUsed c id).s.ver (releaseIfUsed c id).s.store
      (del id (releaseIfUsed c id).s.puback) (del id (releaseIfUsed c id).s.pubrec) (releaseIfUsed c id).s.pubcomp :=
    h1.store.shrink (List.Sublist.refl _) (fun i hi => (mem_del.1 hi).1) (fun i hi => (mem_del.1 hi).1)
      (fun i hi => hi) (fun i q hm => by
        have hne : i ≠ id := by rintro rfl; exact hst' q hm
        exact ⟨fun hi => mem_del.2 ⟨hi, hne⟩, fun hi => mem_del.2 ⟨hi, hne⟩, fun hi => hi⟩)
  exact ⟨⟨h1.1.1, hsi, h1.1.2.2⟩, h1.2⟩

theorem step_good {cfg : Cfg} {s : St} {op : Op} (h : Good s) (hr : StoreRange s) (hl : Legal cfg s op) :
    Good (step cfg s op).s := by
  have hb := hr.headroom h
  cases op with
  | send p => exact send_good (c := { cfg := cfg, s := s }) h hb hl
  | recv inp parse => exact recv_good (c := { cfg := cfg, s := s }) h hb hl
  | timer k => exact notifyTimerFired_good (c := { cfg := cfg, s := s }) h hl
  | closed => exact notifyClosed_good (c := { cfg := cfg, s := s }) h
  | setInterval d => exact setPingreqSendInterval_good (c := { cfg := cfg, s := s }) h d
  | setFlag f b => cases f <;> exact h
  | setRespTimeout ms => exact h
  | acquire => exact h.setPid (h.pid.allocate)
  | register id => exact h.setPid (h.pid.useValue id)
  | release id => exact releasePacketId_good (c := { cfg := cfg, s := s }) h id hl
  | erase id => exact eraseStoredPublish_good (c := { cfg := cfg, s := s }) h id
  | restoreHandled ids => exact h
  | restorePackets ps => exact restorePackets_good (c := { cfg := cfg, s := s }) h ps hl

theorem idMax_pos {cfg : Cfg} (h : 1 ≤ cfg.pw) : 1 ≤ cfg.idMax := by
  unfold Cfg.idMax
  have : 256 ^ 1 ≤ 256 ^ cfg.pw := Nat.pow_le_pow_right (by omega) h
  omega

theorem init_good {cfg : Cfg} {ver : Nat} (hpw : 1 ≤ cfg.pw) (hv : ver = 0 ∨ ver = 4 ∨ ver = 5) :
    Good (St.init cfg ver) := by
  refine ⟨⟨PidWf.new (idMax_pos hpw) (Nat.le_refl _), StoreInv.empty _, TasOptInv.none, Credit.none,
    Framing.inv_reset, rfl⟩, ?_⟩
  unfold VerTimer
  rcases hv with e | e | e
  · exact Or.inr (Or.inr ⟨e, rfl, rfl, rfl, rfl⟩)
  · exact Or.inl e
  · exact Or.inr (Or.inl e)

/-- the identifier range of a `u16` / `u32` (any ≤ 4-byte) identifier type fits the counter -/
theorem init_range {cfg : Cfg} {ver : Nat} (hpw : 1 ≤ cfg.pw) (h4 : cfg.pw ≤ 4) :
    StoreRange (St.init cfg ver) :=
  ⟨Nat.le_refl 1, Pigeon.idMax_le_u32 h4, by simp [St.init]⟩

/-- a sequence of calls each of which is `Legal` in the state it is made in -/
def LegalSeq (cfg : Cfg) : St → List Op → Prop
  | _, [] => True
  | s, op :: ops => Legal cfg s op ∧ LegalSeq cfg (step cfg s op).s ops

theorem run_good {cfg : Cfg} {s : St} (h : Good s) (hr : StoreRange s) (ops : List Op)
    (hl : LegalSeq cfg s ops) : Good (run cfg s ops) ∧ StoreRange (run cfg s ops) := by
  induction ops generalizing s with
  | nil => exact ⟨h, hr⟩
  | cons op ops ih => exact ih (step_good h hr hl.1) (step_range h hr op) hl.2

end MqttVerif.Conn
