import MqttVerif.Conn.Step
import MqttVerif.Props.C20
import MqttVerif.Framing.Lemmas
import MqttVerif.Conn.Lemmas.Resend
/-!
# C05 helpers — invariant pieces, well-formedness hypotheses, leaf lemmas

`Base` is the global invariant used by `Props/C05.lean`; its pieces take the *fields* they
speak about as arguments, so that a record update of any other field is discharged by `simp`.
-/
set_option linter.unusedSimpArgs false
set_option linter.unusedVariables false
namespace MqttVerif.Conn
open MqttVerif

/-! ## invariant pieces -/

/-- the packet-id allocator refines a set (C20's simulation relation; contains `Ok`) -/
def PidWf (a : Alloc.A) : Prop := ∃ sp, Alloc.R a sp

/-- ownership: every stored packet is a PUBLISH/PUBREL of the connection's (determined)
    version and its identifier is in the pid set of the response it waits for; the three pid
    sets are pairwise disjoint; the store holds at most one packet per identifier -/
def StoreInv (ver : Nat) (store : List (Nat × Pkt)) (pa pr pc : List Nat) : Prop :=
  (∀ id q, (id, q) ∈ store →
      q.ver = ver ∧ ver ≠ 0 ∧ (q.kind = .publish ∨ q.kind = .pubrel) ∧
      (respOf q = .puback → id ∈ pa) ∧ (respOf q = .pubrec → id ∈ pr) ∧
      (respOf q = .pubcomp → id ∈ pc)) ∧
  (∀ id, id ∈ pa → id ∉ pr) ∧ (∀ id, id ∈ pa → id ∉ pc) ∧ (∀ id, id ∈ pr → id ∉ pc) ∧
  (store.map (·.1)).Nodup

/-- `TopicAliasSend` is well formed: `max ≥ 1`, its allocator pool is sorted inside
    `[1, max]`, every registered alias is in range and no registered topic has a wildcard -/
def TasInv (t : TAS) : Prop :=
  1 ≤ t.max ∧ Alloc.Ok 1 t.alloc.pool ∧ (∀ w, Alloc.Free t.alloc.pool w → w ≤ t.max) ∧
  (∀ a topic, (a, topic) ∈ t.a2t → 1 ≤ a ∧ a ≤ t.max ∧ hasWildcard topic = false)

def TasOptInv (o : Option TAS) : Prop := ∀ t, o = some t → TasInv t

/-- the peer's Receive Maximum is a `u16` -/
def Credit (sendMax : Option Nat) : Prop := ∀ m, sendMax = some m → m ≤ 65535

/-- timers are armed, and the status leaves `disconnected`, only once the version is determined -/
def VerTimer (ver : Nat) (status : Status) (sendSet recvSet respSet : Bool) : Prop :=
  ver = 4 ∨ ver = 5 ∨
    (ver = 0 ∧ status = .disconnected ∧ sendSet = false ∧ recvSet = false ∧ respSet = false)

/-- the part of the invariant that does not mention timers -/
def Base (s : St) : Prop :=
  PidWf s.pidMan ∧ StoreInv s.ver s.store s.puback s.pubrec s.pubcomp ∧ TasOptInv s.tas ∧
  Credit s.sendMax ∧ Framing.Inv s.pb ∧ s.panic = none

/-- the invariant (with "no panic so far") on a connection whose version is determined -/
def GoodV (s : St) : Prop := Base s ∧ (s.ver = 4 ∨ s.ver = 5)

/-- **the global invariant** together with "no panic so far" -/
def Good (s : St) : Prop :=
  Base s ∧ VerTimer s.ver s.status s.sendSet s.recvSet s.respSet

theorem GoodV.good {s : St} (h : GoodV s) : Good s := by
  obtain ⟨hb, hv⟩ := h
  refine ⟨hb, ?_⟩
  unfold VerTimer; omega

theorem Good.goodV {s : St} (h : Good s) (hv : s.ver ≠ 0) : GoodV s := by
  obtain ⟨hb, ht⟩ := h
  refine ⟨hb, ?_⟩
  unfold VerTimer at ht; omega


/-! ## list helpers -/

theorem mem_ins {x y : Nat} {l : List Nat} : y ∈ ins x l ↔ y = x ∨ y ∈ l := by
  unfold ins; split <;> simp_all <;> grind

theorem mem_del {x y : Nat} {l : List Nat} : y ∈ del x l ↔ y ∈ l ∧ y ≠ x := by
  simp [del]

theorem lookup_some_mem {α : Type} {k : Nat} {l : List (Nat × α)} {v : α}
    (h : lookup k l = some v) : (k, v) ∈ l := by
  induction l with
  | nil => simp [lookup] at h
  | cons a rest ih =>
    obtain ⟨k', v'⟩ := a
    simp only [lookup] at h
    split at h
    · simp_all
    · simp [ih h]

theorem lookup_none_mem {α : Type} {k : Nat} {l : List (Nat × α)}
    (h : lookup k l = none) (v : α) : (k, v) ∉ l := by
  induction l with
  | nil => simp
  | cons a rest ih =>
    obtain ⟨k', v'⟩ := a
    simp only [lookup] at h
    split at h
    · simp at h
    · have := ih h; simp_all

theorem mem_erase {α : Type} {k k' : Nat} {l : List (Nat × α)} {v : α} :
    (k', v) ∈ erase k l ↔ (k', v) ∈ l ∧ k' ≠ k := by
  simp [erase]

theorem storeHas_iff {id : Nat} {st : List (Nat × Pkt)} :
    storeHas id st = true ↔ ∃ q, (id, q) ∈ st := by
  simp [storeHas]

theorem storeHas_false {id : Nat} {st : List (Nat × Pkt)} :
    storeHas id st = false ↔ ∀ q, (id, q) ∉ st := by
  rw [← Bool.not_eq_true, storeHas_iff]; simp

theorem respOf_cases (q : Pkt) : respOf q = .puback ∨ respOf q = .pubrec ∨ respOf q = .pubcomp := by
  unfold respOf; (repeat' split) <;> simp


/-! ## `StoreInv` -/

theorem StoreInv.empty (v : Nat) : StoreInv v [] [] [] [] := by
  simp [StoreInv]

/-- removing store entries and pid-set members, as long as every remaining entry keeps its set -/
theorem StoreInv.shrink {v : Nat} {st st' : List (Nat × Pkt)} {pa pr pc pa' pr' pc' : List Nat}
    (h : StoreInv v st pa pr pc)
    (hst : st'.Sublist st)
    (ha : ∀ i, i ∈ pa' → i ∈ pa) (hr : ∀ i, i ∈ pr' → i ∈ pr) (hc : ∀ i, i ∈ pc' → i ∈ pc)
    (hk : ∀ i q, (i, q) ∈ st' → (i ∈ pa → i ∈ pa') ∧ (i ∈ pr → i ∈ pr') ∧ (i ∈ pc → i ∈ pc')) :
    StoreInv v st' pa' pr' pc' := by
  obtain ⟨h1, h2, h3, h4, h5⟩ := h
  refine ⟨?_, ?_, ?_, ?_, ?_⟩
  · intro i q hm
    have a := h1 i q (hst.subset hm)
    have b := hk i q hm
    grind
  · intro i hi; have := h2 i (ha i hi); grind
  · intro i hi; have := h3 i (ha i hi); grind
  · intro i hi; have := h4 i (hr i hi); grind
  · exact h5.sublist (hst.map _)

/-- same store, smaller or equal sets -/
theorem StoreInv.same {v : Nat} {st : List (Nat × Pkt)} {pa pr pc : List Nat}
    (h : StoreInv v st pa pr pc) : StoreInv v st pa pr pc := h

/-- adding (at most) one entry for a fresh identifier `id` whose response kind is `k`, and
    inserting `id` into the pid set of `k` -/
theorem StoreInv.grow {v : Nat} {st st' : List (Nat × Pkt)} {pa pr pc pa' pr' pc' : List Nat}
    {id : Nat} {k : Kind}
    (h : StoreInv v st pa pr pc)
    (f1 : id ∉ pa) (f2 : id ∉ pr) (f3 : id ∉ pc)
    (hk : k = .puback ∨ k = .pubrec ∨ k = .pubcomp)
    (ha : ∀ i, i ∈ pa' ↔ i ∈ pa ∨ (i = id ∧ k = .puback))
    (hr : ∀ i, i ∈ pr' ↔ i ∈ pr ∨ (i = id ∧ k = .pubrec))
    (hc : ∀ i, i ∈ pc' ↔ i ∈ pc ∨ (i = id ∧ k = .pubcomp))
    (hst : st' = st ∨ ∃ q, st' = st ++ [(id, q)] ∧
        q.ver = v ∧ v ≠ 0 ∧ (q.kind = .publish ∨ q.kind = .pubrel) ∧ respOf q = k) :
    StoreInv v st' pa' pr' pc' := by
  obtain ⟨h1, h2, h3, h4, h5⟩ := h
  have hfresh : ∀ q, (id, q) ∉ st := by
    intro q hm
    have := h1 id q hm
    have := respOf_cases q
    grind
  refine ⟨?_, ?_, ?_, ?_, ?_⟩
  · intro i q hm
    have hm' : (i, q) ∈ st ∨ (i = id ∧ q.ver = v ∧ v ≠ 0 ∧ (q.kind = .publish ∨ q.kind = .pubrel) ∧ respOf q = k) := by
      rcases hst with rfl | ⟨q', rfl, e⟩
      · exact Or.inl hm
      · rcases List.mem_append.1 hm with hm | hm
        · exact Or.inl hm
        · simp only [List.mem_singleton, Prod.mk.injEq] at hm
          obtain ⟨rfl, rfl⟩ := hm
          exact Or.inr ⟨rfl, e⟩
    rcases hm' with hm' | ⟨rfl, e1, e2, e3, e4⟩
    · have a := h1 i q hm'
      have := ha i; have := hr i; have := hc i
      grind
    · have := ha i; have := hr i; have := hc i
      grind
  · intro i hi; have := ha i; have := hr i; have := h2 i; grind
  · intro i hi; have := ha i; have := hc i; have := h3 i; grind
  · intro i hi; have := hr i; have := hc i; have := h4 i; grind
  · rcases hst with rfl | ⟨q', rfl, e⟩
    · exact h5
    · simp only [List.map_append, List.map_cons, List.map_nil]
      rw [List.nodup_append]
      refine ⟨h5, by simp, ?_⟩
      intro a ha' b hb
      simp only [List.mem_singleton] at hb
      subst hb
      intro e'
      subst e'
      obtain ⟨⟨i, q⟩, hm, rfl⟩ := List.mem_map.1 ha'
      exact hfresh q hm

/-- at version 0 the store is empty, so the version may be set -/
theorem StoreInv.setVer {st : List (Nat × Pkt)} {pa pr pc : List Nat} (v : Nat)
    (h : StoreInv 0 st pa pr pc) : StoreInv v st pa pr pc := by
  obtain ⟨h1, h2, h3, h4, h5⟩ := h
  refine ⟨?_, h2, h3, h4, h5⟩
  intro i q hm
  have := (h1 i q hm).2.1
  exact absurd rfl this

theorem erase_sublist {α : Type} (k : Nat) (l : List (Nat × α)) : (erase k l).Sublist l :=
  List.filter_sublist

theorem storeErase_sub {v : Nat} {k : Kind} {id : Nat} {st : List (Nat × Pkt)} :
    (storeErase v k id st).Sublist st := by
  unfold storeErase
  (repeat' split) <;> first | exact erase_sublist _ _ | exact List.Sublist.refl _

/-- the acknowledged identifier is in the pid set of the response: every entry with that
    identifier is erased -/
theorem storeErase_gone {v : Nat} {st : List (Nat × Pkt)} {pa pr pc : List Nat} {k : Kind} {id : Nat}
    (h : StoreInv v st pa pr pc)
    (hk : (k = .puback ∧ id ∈ pa) ∨ (k = .pubrec ∧ id ∈ pr) ∨ (k = .pubcomp ∧ id ∈ pc)) :
    ∀ q, (id, q) ∉ storeErase v k id st := by
  obtain ⟨h1, h2, h3, h4, h5⟩ := h
  intro q
  unfold storeErase
  cases hl : lookup id st with
  | none => exact lookup_none_mem hl q
  | some q0 =>
    have hm := lookup_some_mem hl
    have a := h1 id q0 hm
    have := respOf_cases q0
    have := h2 id; have := h3 id; have := h4 id
    have hc : respOf q0 = k ∧ q0.ver = v := by grind
    simp only [hc, and_self, if_true, mem_erase]
    simp


/-! ## `PidWf`: the allocator operations of the connection keep C20's relation -/

theorem PidWf.new {lo hi tmax : Nat} (h : lo ≤ hi) (ht : hi ≤ tmax) : PidWf (Alloc.new lo hi tmax) :=
  ⟨_, Alloc.R.new lo hi tmax h ht⟩

theorem PidWf.step {a : Alloc.A} (h : PidWf a) (op : Alloc.Op) : PidWf (Alloc.step a op).1 := by
  obtain ⟨sp, r⟩ := h
  exact ⟨_, (Alloc.step_refines r op).2⟩

theorem PidWf.allocate {a : Alloc.A} (h : PidWf a) : PidWf (Alloc.allocate a).2 := h.step .allocate
theorem PidWf.useValue {a : Alloc.A} (h : PidWf a) (v : Nat) : PidWf (Alloc.useValue a v).2 :=
  h.step (.useValue v)
theorem PidWf.clear {a : Alloc.A} (h : PidWf a) : PidWf (Alloc.clear a) := h.step .clear
theorem PidWf.deallocate {a : Alloc.A} (h : PidWf a) (v : Nat) : PidWf (Alloc.deallocate a v).2 :=
  h.step (.deallocate v)

/-- **site `releaseId`** (allocator range assertion / `value + 1` overflow): unreachable for an
    identifier that `is_used_id` reports as used -/
theorem PidWf.dealloc_none {a : Alloc.A} (h : PidWf a) {v : Nat} (hu : Alloc.isUsed a v = true) :
    (Alloc.deallocate a v).1 = none := by
  obtain ⟨sp, r⟩ := h
  apply Alloc.C20_release_total r
  simp only [Alloc.isUsed, Bool.and_eq_true, decide_eq_true_eq] at hu
  exact ⟨hu.1.1, hu.1.2⟩

/-! ## updating one group of fields of a `GoodV` / `Good` state

Everything is stated on record updates; by definitional unfolding the lemmas also apply to
states that differ in further, irrelevant fields. -/

theorem Base.setPid {s : St} (h : Base s) {a : Alloc.A} (ha : PidWf a) : Base { s with pidMan := a } :=
  ⟨ha, h.2⟩

theorem Base.setStore {s : St} (h : Base s) {st : List (Nat × Pkt)} {pa pr pc : List Nat}
    (hs : StoreInv s.ver st pa pr pc) :
    Base { s with store := st, puback := pa, pubrec := pr, pubcomp := pc } :=
  ⟨h.1, hs, h.2.2⟩

theorem Base.setTas {s : St} (h : Base s) {o : Option TAS} (ho : TasOptInv o) : Base { s with tas := o } :=
  ⟨h.1, h.2.1, ho, h.2.2.2⟩

theorem Base.setSendMax {s : St} (h : Base s) {o : Option Nat} (ho : Credit o) :
    Base { s with sendMax := o } :=
  ⟨h.1, h.2.1, h.2.2.1, ho, h.2.2.2.2⟩

theorem Base.setPb {s : St} (h : Base s) {pb : Framing.PB} (hp : Framing.Inv pb) : Base { s with pb := pb } :=
  ⟨h.1, h.2.1, h.2.2.1, h.2.2.2.1, hp, h.2.2.2.2.2⟩

theorem GoodV.setPid {s : St} (h : GoodV s) {a : Alloc.A} (ha : PidWf a) : GoodV { s with pidMan := a } :=
  ⟨h.1.setPid ha, h.2⟩
theorem GoodV.setStore {s : St} (h : GoodV s) {st : List (Nat × Pkt)} {pa pr pc : List Nat}
    (hs : StoreInv s.ver st pa pr pc) :
    GoodV { s with store := st, puback := pa, pubrec := pr, pubcomp := pc } :=
  ⟨h.1.setStore hs, h.2⟩
theorem GoodV.setTas {s : St} (h : GoodV s) {o : Option TAS} (ho : TasOptInv o) : GoodV { s with tas := o } :=
  ⟨h.1.setTas ho, h.2⟩
theorem GoodV.setSendMax {s : St} (h : GoodV s) {o : Option Nat} (ho : Credit o) :
    GoodV { s with sendMax := o } :=
  ⟨h.1.setSendMax ho, h.2⟩

theorem Good.setPid {s : St} (h : Good s) {a : Alloc.A} (ha : PidWf a) : Good { s with pidMan := a } :=
  ⟨h.1.setPid ha, h.2⟩
theorem Good.setStore {s : St} (h : Good s) {st : List (Nat × Pkt)} {pa pr pc : List Nat}
    (hs : StoreInv s.ver st pa pr pc) :
    Good { s with store := st, puback := pa, pubrec := pr, pubcomp := pc } :=
  ⟨h.1.setStore hs, h.2⟩
theorem Good.setTas {s : St} (h : Good s) {o : Option TAS} (ho : TasOptInv o) : Good { s with tas := o } :=
  ⟨h.1.setTas ho, h.2⟩
theorem Good.setPb {s : St} (h : Good s) {pb : Framing.PB} (hp : Framing.Inv pb) : Good { s with pb := pb } :=
  ⟨h.1.setPb hp, h.2⟩

theorem TasOptInv.none : TasOptInv none := by intro t h; cases h
theorem Credit.none : Credit none := by intro t h; cases h

theorem GoodV.pid {s : St} (h : GoodV s) : PidWf s.pidMan := h.1.1
theorem GoodV.store {s : St} (h : GoodV s) : StoreInv s.ver s.store s.puback s.pubrec s.pubcomp := h.1.2.1
theorem GoodV.tas {s : St} (h : GoodV s) : TasOptInv s.tas := h.1.2.2.1
theorem GoodV.credit {s : St} (h : GoodV s) : Credit s.sendMax := h.1.2.2.2.1
theorem GoodV.np {s : St} (h : GoodV s) : s.panic = none := h.1.2.2.2.2.2
theorem GoodV.ver {s : St} (h : GoodV s) : s.ver = 4 ∨ s.ver = 5 := h.2
theorem Good.pid {s : St} (h : Good s) : PidWf s.pidMan := h.1.1
theorem Good.store {s : St} (h : Good s) : StoreInv s.ver s.store s.puback s.pubrec s.pubcomp := h.1.2.1
theorem Good.np {s : St} (h : Good s) : s.panic = none := h.1.2.2.2.2.2


/-! ## leaf functions: shape lemmas -/

@[simp] theorem push_s (c : C) (e : Ev) : (c.push e).s = c.s := rfl
@[simp] theorem err_s (c : C) (e : Nat) : (c.err e).s = c.s := rfl
@[simp] theorem push_cfg (c : C) (e : Ev) : (c.push e).cfg = c.cfg := rfl
@[simp] theorem err_cfg (c : C) (e : Nat) : (c.err e).cfg = c.cfg := rfl

theorem cancelTimers_s (c : C) :
    (cancelTimers c).s = { c.s with sendSet := false, recvSet := false, respSet := false } := by
  rcases c with ⟨cfg, s, ev⟩
  cases s
  rename_i a1 a2 a3 a4 a5 a6 a7 a8 a9 a10 a11 a12 a13 a14 a15 a16 a17 a18 a19 a20 a21 a22 a23 a24 a25
    a26 a27 a28 a29 sS rS pS a33 a34 a35
  cases sS <;> cases rS <;> cases pS <;> simp [cancelTimers, C.push]

@[simp] theorem cancelTimers_cfg (c : C) : (cancelTimers c).cfg = c.cfg := by
  unfold cancelTimers
  cases h1 : c.s.sendSet <;> cases h2 : c.s.recvSet <;> cases h3 : c.s.respSet <;> simp [C.push, h1, h2, h3]

/-- **site `releaseId`** unreachable after `is_used_id`; only the allocator changes -/
theorem releaseId_s {c : C} (hp : PidWf c.s.pidMan) {id : Nat} (hu : isUsed c.s id = true) :
    (releaseId c id).s = { c.s with pidMan := (Alloc.deallocate c.s.pidMan id).2 } := by
  have := hp.dealloc_none hu
  unfold releaseId
  simp only [this]

theorem releaseIfUsed_s {c : C} (hp : PidWf c.s.pidMan) (id : Nat) :
    ∃ a, PidWf a ∧ (releaseIfUsed c id).s = { c.s with pidMan := a } := by
  unfold releaseIfUsed
  split
  · rename_i hu
    exact ⟨_, hp.deallocate id, by rw [push_s, releaseId_s hp hu]⟩
  · exact ⟨_, hp, rfl⟩

@[simp] theorem releaseId_cfg (c : C) (id : Nat) : (releaseId c id).cfg = c.cfg := by
  simp only [releaseId]; split <;> rfl

@[simp] theorem releaseIfUsed_cfg (c : C) (id : Nat) : (releaseIfUsed c id).cfg = c.cfg := by
  unfold releaseIfUsed; split <;> simp

theorem releaseAll_s {c : C} (hp : PidWf c.s.pidMan) (ids : List Nat) :
    ∃ a, PidWf a ∧ (releaseAll c ids).s = { c.s with pidMan := a } := by
  induction ids generalizing c with
  | nil => exact ⟨_, hp, rfl⟩
  | cons id rest ih =>
    obtain ⟨a, ha, e⟩ := releaseIfUsed_s hp id
    have hp' : PidWf (releaseIfUsed c id).s.pidMan := by rw [e]; exact ha
    obtain ⟨a', ha', e'⟩ := ih hp'
    refine ⟨a', ha', ?_⟩
    simp only [releaseAll]
    rw [e', e]

theorem releaseIfUsed_goodV {c : C} (h : GoodV c.s) (id : Nat) : GoodV (releaseIfUsed c id).s := by
  obtain ⟨a, ha, e⟩ := releaseIfUsed_s h.pid id
  rw [e]; exact h.setPid ha

theorem releaseIfUsed_good {c : C} (h : Good c.s) (id : Nat) : Good (releaseIfUsed c id).s := by
  obtain ⟨a, ha, e⟩ := releaseIfUsed_s h.pid id
  rw [e]; exact h.setPid ha

theorem cancelTimers_goodV {c : C} (h : GoodV c.s) : GoodV (cancelTimers c).s := by
  rw [cancelTimers_s]; exact h

/-- the interval `send_post_process` arms the PINGREQ timer with -/
def ppMs (s : St) : Nat :=
  match s.userInterval with
  | some t => t
  | none => match s.serverKeepAliveMs with
    | some t => t
    | none => s.keepAliveMs

theorem sendPostProcess_eq (c : C) : sendPostProcess c =
    if c.s.isClient then
      (if ppMs c.s > 0 then
        ({ c with s := { c.s with sendSet := true } }).push (.timerReset .pingreqSend (ppMs c.s)) else c)
    else c := rfl

theorem sendPostProcess_s (c : C) : ∃ b, (sendPostProcess c).s = { c.s with sendSet := b } := by
  rw [sendPostProcess_eq]
  split
  · split
    · exact ⟨true, rfl⟩
    · exact ⟨_, rfl⟩
  · exact ⟨_, rfl⟩

theorem sendPostProcess_ev (c : C) : ∃ t, (sendPostProcess c).ev = c.ev ++ t := by
  rw [sendPostProcess_eq]
  split
  · split
    · exact ⟨_, rfl⟩
    · exact ⟨[], by simp⟩
  · exact ⟨[], by simp⟩

theorem sendPostProcess_goodV {c : C} (h : GoodV c.s) : GoodV (sendPostProcess c).s := by
  obtain ⟨b, e⟩ := sendPostProcess_s c
  rw [e]; exact h

theorem refreshPingreqRecv_goodV {c : C} (h : GoodV c.s) : GoodV (refreshPingreqRecv c).s := by
  unfold refreshPingreqRecv
  split <;> exact h

theorem decSendCount_goodV {c : C} (h : GoodV c.s) : GoodV (decSendCount c).s := by
  unfold decSendCount
  split <;> exact h

theorem decSendCount_good {c : C} (h : Good c.s) : Good (decSendCount c).s := by
  unfold decSendCount
  split <;> exact h

theorem initConn_goodV {c : C} (h : GoodV c.s) (b : Bool) : GoodV (initConn c b).s :=
  ⟨⟨h.1.1, h.1.2.1, TasOptInv.none, Credit.none, h.1.2.2.2.2⟩, h.2⟩

theorem clearStoreRelated_goodV {c : C} (h : GoodV c.s) : GoodV (clearStoreRelated c).s :=
  ⟨⟨h.pid.clear, StoreInv.empty _, h.1.2.2⟩, h.2⟩

/-- `send_stored` loop: **site `publish_send_count += 1`** is unreachable when the counter has
    room for the entries still to be resent.  Only allocator, counter, pid sets and events
    change; the kept entries are a sublist of the input; pid sets only lose identifiers of
    dropped entries -/
theorem sendStoredLoop_s {c : C} (hp : PidWf c.s.pidMan) (l : List (Nat × Pkt))
    (hb : c.s.sendMax.isSome → c.s.sendCount + l.length ≤ 4294967295)
    (hn : (l.map (·.1)).Nodup) :
    ∃ a n pa pr pc, PidWf a ∧
      (sendStoredLoop c l).1.s =
        { c.s with pidMan := a, sendCount := n, puback := pa, pubrec := pr, pubcomp := pc } ∧
      (sendStoredLoop c l).2.Sublist l ∧
      (∀ i, i ∈ pa → i ∈ c.s.puback) ∧ (∀ i, i ∈ pr → i ∈ c.s.pubrec) ∧
      (∀ i, i ∈ pc → i ∈ c.s.pubcomp) ∧
      (∀ i, (i ∈ c.s.puback ∧ i ∉ pa) ∨ (i ∈ c.s.pubrec ∧ i ∉ pr) ∨ (i ∈ c.s.pubcomp ∧ i ∉ pc) →
          i ∈ l.map (·.1) ∧ i ∉ (sendStoredLoop c l).2.map (·.1)) := by
  induction l generalizing c with
  | nil =>
    refine ⟨c.s.pidMan, c.s.sendCount, c.s.puback, c.s.pubrec, c.s.pubcomp, hp, rfl,
      by simp [sendStoredLoop], fun _ x => x, fun _ x => x, fun _ x => x, ?_⟩
    intro i hi; exfalso; grind
  | cons e rest ih =>
    obtain ⟨id, p⟩ := e
    simp only [List.map_cons, List.nodup_cons] at hn
    obtain ⟨hid, hn'⟩ := hn
    unfold sendStoredLoop
    split
    · obtain ⟨a, ha, ea⟩ := releaseIfUsed_s
        (c := { c with s := { c.s with puback := del id c.s.puback, pubrec := del id c.s.pubrec,
                                         pubcomp := del id c.s.pubcomp } }) hp id
      obtain ⟨a', n, pa, pr, pc, ha', e', hsub, s1, s2, s3, s4⟩ := ih (by rw [ea]; exact ha) (by
        rw [ea]; intro hs; have := hb hs; simp only [List.length_cons] at this; simp only; omega) hn'
      rw [ea] at s1 s2 s3 s4
      simp only at s1 s2 s3 s4
      refine ⟨a', n, pa, pr, pc, ha', ?_, hsub.cons _, ?_, ?_, ?_, ?_⟩
      · rw [e', ea]
      · intro i hi; exact (mem_del.1 (s1 i hi)).1
      · intro i hi; exact (mem_del.1 (s2 i hi)).1
      · intro i hi; exact (mem_del.1 (s3 i hi)).1
      · intro i hi
        by_cases hii : i = id
        · subst hii
          refine ⟨by simp, ?_⟩
          intro hm
          exact hid ((hsub.map _).subset hm)
        · have := s4 i (by simp only [mem_del]; grind)
          exact ⟨by simp [this.1], this.2⟩
    · have key : ∀ c' : C, c'.s = { c.s with sendCount := c'.s.sendCount } → PidWf c'.s.pidMan →
          (c'.s.sendMax.isSome → c'.s.sendCount + rest.length ≤ 4294967295) →
          ∃ a n pa pr pc, PidWf a ∧
            ((sendStoredLoop c' rest).1, (id, p) :: (sendStoredLoop c' rest).2).1.s =
              { c.s with pidMan := a, sendCount := n, puback := pa, pubrec := pr, pubcomp := pc } ∧
            ((sendStoredLoop c' rest).1, (id, p) :: (sendStoredLoop c' rest).2).2.Sublist ((id, p) :: rest) ∧
            (∀ i, i ∈ pa → i ∈ c.s.puback) ∧ (∀ i, i ∈ pr → i ∈ c.s.pubrec) ∧
            (∀ i, i ∈ pc → i ∈ c.s.pubcomp) ∧
            (∀ i, (i ∈ c.s.puback ∧ i ∉ pa) ∨ (i ∈ c.s.pubrec ∧ i ∉ pr) ∨ (i ∈ c.s.pubcomp ∧ i ∉ pc) →
              i ∈ ((id, p) :: rest).map (·.1) ∧
              i ∉ ((sendStoredLoop c' rest).1, (id, p) :: (sendStoredLoop c' rest).2).2.map (·.1)) := by
        intro c' ec hpc hbc
        obtain ⟨a', n, pa, pr, pc, ha', e', hsub, s1, s2, s3, s4⟩ := ih hpc hbc hn'
        rw [ec] at s1 s2 s3 s4 e'
        simp only at s1 s2 s3 s4
        refine ⟨a', n, pa, pr, pc, ha', ?_, hsub.cons_cons _, s1, s2, s3, ?_⟩
        · exact e'
        · intro i hi
          have := s4 i hi
          refine ⟨by simp [this.1], ?_⟩
          simp only [List.map_cons, List.mem_cons, not_or]
          refine ⟨?_, this.2⟩
          intro hii; subst hii; exact hid this.1
      by_cases hs : c.s.sendMax.isSome = true
      · have hlt := hb hs
        simp only [List.length_cons] at hlt
        have hnp : ¬ (c.s.sendCount ≥ 4294967295) := by omega
        have hmod : (c.s.sendCount + 1) % 4294967296 = c.s.sendCount + 1 := Nat.mod_eq_of_lt (by omega)
        simp only [hs, if_true, hnp, if_false, hmod]
        exact key (C.push { c with s := { c.s with sendCount := c.s.sendCount + 1 } } (.send p none))
          rfl hp (by intro _; simp only [push_s]; omega)
      · simp only [hs, Bool.false_eq_true, if_false]
        exact key (c.push (.send p none)) rfl hp (by
          intro h'; simp only [push_s] at h'; exact absurd h' hs)

theorem sendStored_s {c : C} (hp : PidWf c.s.pidMan) (hb : c.s.store.length ≤ 4294967295)
    (hn : (c.s.store.map (·.1)).Nodup) :
    ∃ a n pa pr pc st, PidWf a ∧
      (sendStored c).s =
        { c.s with pidMan := a, sendCount := n, store := st, puback := pa, pubrec := pr, pubcomp := pc } ∧
      st.Sublist c.s.store ∧
      (∀ i, i ∈ pa → i ∈ c.s.puback) ∧ (∀ i, i ∈ pr → i ∈ c.s.pubrec) ∧
      (∀ i, i ∈ pc → i ∈ c.s.pubcomp) ∧
      (∀ i, (i ∈ c.s.puback ∧ i ∉ pa) ∨ (i ∈ c.s.pubrec ∧ i ∉ pr) ∨ (i ∈ c.s.pubcomp ∧ i ∉ pc) →
          i ∉ st.map (·.1)) := by
  unfold sendStored
  by_cases hs : c.s.sendMax.isSome = true
  · simp only [hs, if_true]
    obtain ⟨a, n, pa, pr, pc, ha, e, hsub, s1, s2, s3, s4⟩ :=
      sendStoredLoop_s (c := { c with s := { c.s with sendCount := 0 } }) hp c.s.store
        (by intro _; simp only; omega) hn
    exact ⟨a, n, pa, pr, pc, _, ha, by rw [e], hsub, s1, s2, s3, fun i hi => (s4 i hi).2⟩
  · simp only [hs, Bool.false_eq_true, if_false]
    obtain ⟨a, n, pa, pr, pc, ha, e, hsub, s1, s2, s3, s4⟩ :=
      sendStoredLoop_s hp c.s.store (by intro h'; exact absurd h' hs) hn
    exact ⟨a, n, pa, pr, pc, _, ha, by rw [e], hsub, s1, s2, s3, fun i hi => (s4 i hi).2⟩

/-- the bound under which `send_stored` cannot overflow `publish_send_count` (a `u32` since fix
    ab9a1ec); a consequence of the invariant, see `StoreRange.headroom` in `NoPanicStep.lean` -/
def Headroom (s : St) : Prop := s.store.length ≤ 4294967295

theorem sendStored_goodV {c : C} (h : GoodV c.s) (hb : Headroom c.s) :
    GoodV (sendStored c).s := by
  obtain ⟨a, n, pa, pr, pc, st, ha, e, hsub, s1, s2, s3, s4⟩ := sendStored_s h.pid hb h.store.2.2.2.2
  rw [e]
  refine (h.setPid ha).setStore (h.store.shrink hsub s1 s2 s3 ?_)
  intro i q hm
  have hk : i ∈ st.map (·.1) := List.mem_map.2 ⟨(i, q), hm, rfl⟩
  have := s4 i
  grind

theorem resendStored_goodV {c : C} (h : GoodV c.s) (hb : Headroom c.s) :
    GoodV (resendStored c).s :=
  resendStored_ind (Q := fun x => GoodV x.s) c (sendStored_goodV h hb) (fun h' => sendPostProcess_goodV h')

/-! ## `TopicAliasSend` -/

theorem TasInv.new {v : Nat} (hv : v ≠ 0) : TasInv (TAS.new v) := by
  refine ⟨Nat.pos_of_ne_zero hv, ?_, ?_, ?_⟩
  · exact ⟨Nat.le_refl _, Nat.pos_of_ne_zero hv, trivial⟩
  · intro w hw; simp [TAS.new, Alloc.new] at hw ⊢; omega
  · intro a topic hm; simp [TAS.new] at hm

theorem useValue_pool {a : Alloc.A} {v : Nat} {ub : Nat} (h1 : Alloc.Ok 1 a.pool)
    (h2 : ∀ w, Alloc.Free a.pool w → w ≤ ub) :
    Alloc.Ok 1 (Alloc.useValue a v).2.pool ∧ ∀ w, Alloc.Free (Alloc.useValue a v).2.pool w → w ≤ ub := by
  unfold Alloc.useValue
  cases hu : Alloc.useValueP v a.pool with
  | none => exact ⟨h1, h2⟩
  | some p' =>
    obtain ⟨f1, f2, f3⟩ := Alloc.useValueP_some h1 hu
    exact ⟨f3, fun w hw => h2 w ((f2 w).1 hw).1⟩

theorem insertOrUpdate_max (t : TAS) (topic : List Nat) (a : Nat) : (t.insertOrUpdate topic a).max = t.max := by
  unfold TAS.insertOrUpdate
  cases Alloc.useValue t.alloc a with
  | mk isNew alloc' => rfl

theorem insertOrUpdate_alloc (t : TAS) (topic : List Nat) (a : Nat) :
    (t.insertOrUpdate topic a).alloc = (Alloc.useValue t.alloc a).2 := by
  unfold TAS.insertOrUpdate
  cases Alloc.useValue t.alloc a with
  | mk isNew alloc' => rfl

theorem insertOrUpdate_a2t (t : TAS) (topic : List Nat) (a : Nat) :
    ∀ x, x ∈ (t.insertOrUpdate topic a).a2t → x ∈ t.a2t ∨ x = (a, topic) := by
  unfold TAS.insertOrUpdate
  cases Alloc.useValue t.alloc a with
  | mk isNew alloc' =>
    simp only
    intro x
    (repeat' split) <;> simp_all [erase] <;> grind


theorem TasInv.insertOrUpdate {t : TAS} {topic : List Nat} {a : Nat} (h : TasInv t)
    (ha : 1 ≤ a ∧ a ≤ t.max) (hw : hasWildcard topic = false) : TasInv (t.insertOrUpdate topic a) := by
  obtain ⟨h1, h2, h3, h4⟩ := h
  have hp := useValue_pool (v := a) h2 h3
  refine ⟨by rw [insertOrUpdate_max]; exact h1, by rw [insertOrUpdate_alloc]; exact hp.1,
    by rw [insertOrUpdate_alloc, insertOrUpdate_max]; exact hp.2, ?_⟩
  intro a' topic' hm
  rw [insertOrUpdate_max]
  rcases insertOrUpdate_a2t t topic a _ hm with hm | hm
  · exact h4 a' topic' hm
  · simp only [Prod.mk.injEq] at hm
    obtain ⟨rfl, rfl⟩ := hm
    exact ⟨ha.1, ha.2, hw⟩

theorem TasInv.get {t : TAS} (h : TasInv t) (a : Nat) :
    TasInv (t.get a).2 ∧ ∀ topic, (t.get a).1 = some topic → hasWildcard topic = false := by
  obtain ⟨h1, h2, h3, h4⟩ := h
  unfold TAS.get
  split
  · cases hl : lookup a t.a2t with
    | none => exact ⟨⟨h1, h2, h3, h4⟩, by simp⟩
    | some topic =>
      have hm := lookup_some_mem hl
      have := h4 a topic hm
      refine ⟨⟨h1, h2, h3, ?_⟩, by simp; exact this.2.2⟩
      intro a' topic' hm'
      simp only [List.mem_append, List.mem_singleton, Prod.mk.injEq] at hm'
      rcases hm' with hm' | ⟨rfl, rfl⟩
      · exact h4 a' topic' (mem_erase.1 hm').1
      · exact this
  · exact ⟨⟨h1, h2, h3, h4⟩, by simp⟩

theorem TasInv.lruAlias {t : TAS} (h : TasInv t) : 1 ≤ t.lruAlias ∧ t.lruAlias ≤ t.max := by
  obtain ⟨h1, h2, h3, h4⟩ := h
  unfold TAS.lruAlias Alloc.firstVacant
  cases hp : t.alloc.pool with
  | nil =>
    simp only [List.head?_nil, Option.map_none]
    cases ha : t.a2t with
    | nil => simp; omega
    | cons x rest =>
      obtain ⟨a, topic⟩ := x
      have := h4 a topic (by rw [ha]; simp)
      simp; omega
  | cons iv rest =>
    rw [hp] at h2 h3
    obtain ⟨o1, o2, o3⟩ := h2
    have := h3 iv.lo (by simp; omega)
    simp; omega


/-! ## more `StoreInv` lemmas: legal additions -/

/-- the ownership contract of `send`: the identifier is not awaiting any response -/
def IdFresh (s : St) (id : Nat) : Prop := id ∉ s.puback ∧ id ∉ s.pubrec ∧ id ∉ s.pubcomp

theorem StoreInv.fresh_not_stored {v : Nat} {st : List (Nat × Pkt)} {pa pr pc : List Nat} {id : Nat}
    (h : StoreInv v st pa pr pc) (f1 : id ∉ pa) (f2 : id ∉ pr) (f3 : id ∉ pc) :
    storeHas id st = false := by
  rw [storeHas_false]
  intro q hm
  have := h.1 id q hm
  have := respOf_cases q
  grind

theorem StoreInv.addPuback {v : Nat} {st st' : List (Nat × Pkt)} {pa pr pc : List Nat} {id : Nat}
    (h : StoreInv v st pa pr pc) (f1 : id ∉ pa) (f2 : id ∉ pr) (f3 : id ∉ pc)
    (hst : st' = st ∨ ∃ q, st' = st ++ [(id, q)] ∧
        q.ver = v ∧ v ≠ 0 ∧ (q.kind = .publish ∨ q.kind = .pubrel) ∧ respOf q = .puback) :
    StoreInv v st' (ins id pa) pr pc :=
  h.grow (k := .puback) f1 f2 f3 (by simp) (by intro i; simp [mem_ins]; grind) (by simp) (by simp) hst

theorem StoreInv.addPubrec {v : Nat} {st st' : List (Nat × Pkt)} {pa pr pc : List Nat} {id : Nat}
    (h : StoreInv v st pa pr pc) (f1 : id ∉ pa) (f2 : id ∉ pr) (f3 : id ∉ pc)
    (hst : st' = st ∨ ∃ q, st' = st ++ [(id, q)] ∧
        q.ver = v ∧ v ≠ 0 ∧ (q.kind = .publish ∨ q.kind = .pubrel) ∧ respOf q = .pubrec) :
    StoreInv v st' pa (ins id pr) pc :=
  h.grow (k := .pubrec) f1 f2 f3 (by simp) (by simp) (by intro i; simp [mem_ins]; grind) (by simp) hst

theorem StoreInv.addPubcomp {v : Nat} {st st' : List (Nat × Pkt)} {pa pr pc : List Nat} {id : Nat}
    (h : StoreInv v st pa pr pc) (f1 : id ∉ pa) (f2 : id ∉ pr) (f3 : id ∉ pc)
    (hst : st' = st ∨ ∃ q, st' = st ++ [(id, q)] ∧
        q.ver = v ∧ v ≠ 0 ∧ (q.kind = .publish ∨ q.kind = .pubrel) ∧ respOf q = .pubcomp) :
    StoreInv v st' pa pr (ins id pc) :=
  h.grow (k := .pubcomp) f1 f2 f3 (by simp) (by simp) (by simp) (by intro i; simp [mem_ins]; grind) hst

/-- **site `store.add().unwrap()`** is unreachable for an identifier that is not stored -/
theorem storeAdd_s {c : C} {id : Nat} (hn : storeHas id c.s.store = false) (q : Pkt) (site : String) :
    storeAdd c id q site = { c with s := { c.s with store := c.s.store ++ [(id, q)] } } := by
  simp [storeAdd, hn]

theorem GoodV.ver_ne {s : St} (h : GoodV s) : s.ver ≠ 0 := by have := h.2; omega

end MqttVerif.Conn
