import MqttVerif.Conn.Lemmas.NoPanicHeld
/-!
# C06 / C05 helper — `Held ∧ Disj` through the release sites and the send side
-/
set_option linter.unusedSimpArgs false
set_option linter.unusedVariables false
namespace MqttVerif.Conn.Hd
open MqttVerif MqttVerif.Conn

/-- well-formed allocator + the ownership invariant -/
def W (c : C) : Prop := PidWf c.s.pidMan ∧ HD c.s

theorem W.congr {c c' : C} (h : W c) (e : K2 c' = K2 c) : W c' := by
  refine ⟨?_, h.2.congr e⟩
  have : c'.s.pidMan = c.s.pidMan := congrArg (·.1) e
  rw [this]; exact h.1

/-- nothing grows: same allocator, smaller store and wait sets -/
theorem W.shrink {c c' : C} (h : W c) (hp : c'.s.pidMan = c.s.pidMan)
    (hst : ∀ x ∈ c'.s.store, x ∈ c.s.store)
    (h1 : ∀ i ∈ c'.s.suback, i ∈ c.s.suback) (h2 : ∀ i ∈ c'.s.unsuback, i ∈ c.s.unsuback)
    (h3 : ∀ i ∈ c'.s.puback, i ∈ c.s.puback) (h4 : ∀ i ∈ c'.s.pubrec, i ∈ c.s.pubrec)
    (h5 : ∀ i ∈ c'.s.pubcomp, i ∈ c.s.pubcomp) : W c' := by
  obtain ⟨w, hh, hd⟩ := h
  refine ⟨by rw [hp]; exact w, ?_, ?_⟩
  · intro x hx; have := hh x (hst x hx); simp only [isUsed] at this ⊢; rw [hp]; exact this
  · intro id hid
    have := hd id (hid.imp (h1 id) (h2 id))
    exact ⟨fun k => this.1 (h3 id k), fun k => this.2.1 (h4 id k), fun k => this.2.2 (h5 id k)⟩

theorem storeHas_false' {id : Nat} {st : List (Nat × Pkt)} : storeHas id st = false ↔ ∀ x ∈ st, x.1 ≠ id := by
  rw [storeHas_false]
  constructor
  · intro h x hx e; exact h x.2 (by rw [← e]; exact hx)
  · intro h q hq; exact h (id, q) hq rfl

/-- **the release sites**: releasing an identifier no stored packet carries keeps the invariant -/
theorem W.release {c : C} (h : W c) {id : Nat} (hn : storeHas id c.s.store = false) : W (releaseIfUsed c id) := by
  obtain ⟨w, hh, hd⟩ := h
  unfold releaseIfUsed
  split
  · rename_i hu
    have e : ((releaseId c id).push (.released id)).s = { c.s with pidMan := (Alloc.deallocate c.s.pidMan id).2 } := by
      rw [push_s, releaseId_s w hu]
    refine ⟨by rw [e]; exact w.deallocate id, ?_, ?_⟩
    · intro x hx
      rw [e] at hx ⊢
      have h1 := hh x hx
      show Alloc.isUsed (Alloc.deallocate c.s.pidMan id).2 x.1 = true
      exact (dealloc_used w hu x.1).2 ⟨h1, (storeHas_false'.1 hn) x hx⟩
    · intro i hi; rw [e] at hi ⊢; exact hd i hi
  · exact ⟨w, hh, hd⟩

@[simp] theorem releaseIfUsed_sets (c : C) (id : Nat) :
    (releaseIfUsed c id).s.store = c.s.store ∧ (releaseIfUsed c id).s.suback = c.s.suback ∧
    (releaseIfUsed c id).s.unsuback = c.s.unsuback ∧ (releaseIfUsed c id).s.puback = c.s.puback ∧
    (releaseIfUsed c id).s.pubrec = c.s.pubrec ∧ (releaseIfUsed c id).s.pubcomp = c.s.pubcomp := by
  unfold releaseIfUsed releaseId
  (repeat' (first | split | (simp only []; split))) <;> exact ⟨rfl, rfl, rfl, rfl, rfl, rfl⟩

theorem W.clear {c : C} (h : W c) : W (clearStoreRelated c) :=
  ⟨h.1.clear, by intro x hx; simp [clearStoreRelated] at hx, by intro i _; simp [clearStoreRelated]⟩

/-- a QoS wait set gains `id` (not awaited by SUBACK / UNSUBACK) -/
theorem W.addQos {c c' : C} (h : W c) {id : Nat} (h1 : id ∉ c.s.suback) (h2 : id ∉ c.s.unsuback)
    (hp : c'.s.pidMan = c.s.pidMan) (hst : c'.s.store = c.s.store) (hs : c'.s.suback = c.s.suback)
    (hu : c'.s.unsuback = c.s.unsuback)
    (ha : ∀ i ∈ c'.s.puback, i ∈ c.s.puback ∨ i = id) (hr : ∀ i ∈ c'.s.pubrec, i ∈ c.s.pubrec ∨ i = id)
    (hc : ∀ i ∈ c'.s.pubcomp, i ∈ c.s.pubcomp ∨ i = id) : W c' := by
  obtain ⟨w, hh, hd⟩ := h
  refine ⟨by rw [hp]; exact w, ?_, ?_⟩
  · intro x hx; rw [hst] at hx; have := hh x hx; simp only [isUsed] at this ⊢; rw [hp]; exact this
  · intro i hi
    rw [hs, hu] at hi
    have := hd i hi
    have hne : i ≠ id := by rintro rfl; rcases hi with k | k; exact h1 k; exact h2 k
    refine ⟨fun k => ?_, fun k => ?_, fun k => ?_⟩
    · rcases ha i k with k' | k'; exact this.1 k'; exact hne k'
    · rcases hr i k with k' | k'; exact this.2.1 k'; exact hne k'
    · rcases hc i k with k' | k'; exact this.2.2 k'; exact hne k'

/-- `store.add` behind an `is_used_id` test -/
theorem W.stAdd {c : C} (h : W c) {id : Nat} (q : Pkt) (x : String) (hu : isUsed c.s id = true) :
    W (storeAdd c id q x) := by
  obtain ⟨w, hh, hd⟩ := h
  unfold storeAdd
  split
  · exact ⟨w, hh, hd⟩
  · refine ⟨w, ?_, hd⟩
    intro y hy
    simp only [List.mem_append, List.mem_singleton] at hy
    rcases hy with hy | rfl
    · exact hh y hy
    · exact hu

theorem storeAdd_sets (c : C) (id : Nat) (q : Pkt) (x : String) :
    (storeAdd c id q x).s.pidMan = c.s.pidMan ∧ (storeAdd c id q x).s.suback = c.s.suback ∧
    (storeAdd c id q x).s.unsuback = c.s.unsuback ∧ (storeAdd c id q x).s.puback = c.s.puback ∧
    (storeAdd c id q x).s.pubrec = c.s.pubrec ∧ (storeAdd c id q x).s.pubcomp = c.s.pubcomp := by
  unfold storeAdd; split <;> exact ⟨rfl, rfl, rfl, rfl, rfl, rfl⟩

/-! ## `send_stored` -/

theorem Disj.congr {s s' : St} (h : Disj s) (e1 : s'.suback = s.suback) (e2 : s'.unsuback = s.unsuback)
    (e3 : s'.puback = s.puback) (e4 : s'.pubrec = s.pubrec) (e5 : s'.pubcomp = s.pubcomp) : Disj s' := by
  intro i hi; rw [e1, e2] at hi; rw [e3, e4, e5]; exact h i hi

theorem sendStoredLoop_sub' (l : List (Nat × Pkt)) : ∀ c, (sendStoredLoop c l).2.Sublist l :=
  Rng.sendStoredLoop_sub l

/-- the loop keeps allocator well-formedness and `Disj`, leaves `suback` / `unsuback` alone, and
    every identifier that was in use and is not the identifier of a dropped entry stays in use -/
theorem loop_w (l : List (Nat × Pkt)) : ∀ c : C, PidWf c.s.pidMan → Disj c.s → (l.map (·.1)).Nodup →
    PidWf (sendStoredLoop c l).1.s.pidMan ∧ Disj (sendStoredLoop c l).1.s ∧
    (∀ y, isUsed c.s y = true → (y ∈ l.map (·.1) → y ∈ (sendStoredLoop c l).2.map (·.1)) →
      isUsed (sendStoredLoop c l).1.s y = true) := by
  induction l with
  | nil => intro c w hd _; exact ⟨w, hd, fun y hy _ => hy⟩
  | cons e rest ih =>
    intro c w hd hn
    obtain ⟨id, p⟩ := e
    simp only [List.map_cons, List.nodup_cons] at hn
    rw [sendStoredLoop]
    split
    · -- oversize: dropped, wait-set entries removed, identifier released (if in use)
      let c1 : C := { c with s := { c.s with puback := del id c.s.puback, pubrec := del id c.s.pubrec,
                                              pubcomp := del id c.s.pubcomp } }
      have w1 : PidWf c1.s.pidMan := w
      have hd1 : Disj c1.s := by
        intro i hi
        have := hd i hi
        exact ⟨fun k => this.1 (mem_del.1 k).1, fun k => this.2.1 (mem_del.1 k).1, fun k => this.2.2 (mem_del.1 k).1⟩
      obtain ⟨a, wa, ea⟩ := releaseIfUsed_s w1 id
      obtain ⟨i1, i2, i3⟩ := ih (releaseIfUsed c1 id) (by rw [ea]; exact wa) (by
        intro i hi; rw [ea] at hi ⊢; exact hd1 i hi) hn.2
      refine ⟨i1, i2, ?_⟩
      intro y hy hk
      have hsub := (sendStoredLoop_sub' rest (releaseIfUsed c1 id)).map (·.1)
      have hne : y ≠ id := by
        rintro rfl
        exact hn.1 (hsub.subset (hk (by simp)))
      refine i3 y ?_ (fun hm => hk (by simp [hm]))
      -- `y ≠ id` stays in use through the release
      unfold releaseIfUsed
      split
      · rename_i hu
        rw [push_s, releaseId_s w1 hu]
        exact (dealloc_used w hu y).2 ⟨hy, hne⟩
      · exact hy
    · simp only []
      have key : ∀ c2 : C, c2.s.pidMan = c.s.pidMan → Disj c2.s →
          PidWf (sendStoredLoop c2 rest).1.s.pidMan ∧ Disj (sendStoredLoop c2 rest).1.s ∧
          (∀ y, isUsed c.s y = true →
            (y ∈ id :: rest.map (·.1) → y ∈ ((id, p) :: (sendStoredLoop c2 rest).2).map (·.1)) →
            isUsed (sendStoredLoop c2 rest).1.s y = true) := by
        intro c2 ep hd2
        obtain ⟨i1, i2, i3⟩ := ih c2 (by rw [ep]; exact w) hd2 hn.2
        refine ⟨i1, i2, ?_⟩
        intro y hy hk
        refine i3 y (by simp only [isUsed] at hy ⊢; rw [ep]; exact hy) ?_
        intro hm
        have := hk (List.mem_cons_of_mem _ hm)
        simp only [List.map_cons, List.mem_cons] at this
        rcases this with rfl | this
        · exact absurd hm hn.1
        · exact this
      refine key _ ?_ ?_
      · split
        · split <;> rfl
        · rfl
      · refine Disj.congr hd ?_ ?_ ?_ ?_ ?_ <;>
          (simp only [push_s]; split <;> (try split) <;> rfl)


theorem w_sendStored {c : C} (h : W c) (hn : (c.s.store.map (·.1)).Nodup) : W (sendStored c) := by
  obtain ⟨w, hh, hd⟩ := h
  let c1 : C := if c.s.sendMax.isSome then { c with s := { c.s with sendCount := 0 } } else c
  have e1 : K2 c1 = K2 c := by simp only [c1]; split <;> rfl
  have ep : c1.s.pidMan = c.s.pidMan := congrArg (·.1) e1
  have es : c1.s.store = c.s.store := congrArg (·.2.1) e1
  have hd1 : Disj c1.s := (HD.congr (c := c) ⟨hh, hd⟩ e1).2
  obtain ⟨i1, i2, i3⟩ := loop_w c1.s.store c1 (by rw [ep]; exact w) hd1 (by rw [es]; exact hn)
  have hsub := sendStoredLoop_sub' c1.s.store c1
  refine ⟨i1, ?_, i2⟩
  intro x hx
  have hx' : x ∈ (sendStoredLoop c1 c1.s.store).2 := hx
  have hin : x ∈ c.s.store := es ▸ hsub.subset hx'
  have hu : isUsed c1.s x.1 = true := by
    have := hh x hin; simp only [isUsed] at this ⊢; rw [ep]; exact this
  exact i3 x.1 hu (fun _ => List.mem_map.2 ⟨x, hx', rfl⟩)

theorem w_resendStored {c : C} (h : W c) (hn : (c.s.store.map (·.1)).Nodup) : W (resendStored c) :=
  resendStored_ind (Q := W) c (w_sendStored h hn) (fun h' => h'.congr (by simp))

/-! ## the send side -/

/-- the identifier carried by a packet that starts an exchange is owned by nothing: no stored
    packet carries it and no response is awaited for it -/
def Unowned (s : St) (id : Nat) : Prop :=
  storeHas id s.store = false ∧ id ∉ s.suback ∧ id ∉ s.unsuback ∧ id ∉ s.puback ∧ id ∉ s.pubrec ∧ id ∉ s.pubcomp

theorem w_initConn {c : C} (h : W c) (b : Bool) : W (initConn c b) :=
  h.shrink rfl (fun x hx => hx) (by intro i hi; simp [initConn] at hi) (by intro i hi; simp [initConn] at hi) (fun i hi => hi) (fun i hi => hi)
    (fun i hi => hi)

theorem w_of3 {c c' : C} (h : W c) (b : Bool)
    (e : K2 c' = K2 c ∨ K2 c' = K2 (initConn c b) ∨ K2 c' = K2 (clearStoreRelated (initConn c b))) : W c' := by
  rcases e with e | e | e
  · exact h.congr e
  · exact (w_initConn h b).congr e
  · exact (w_initConn h b).clear.congr e

theorem w_psV3Connect {c : C} (h : W c) (p : Pkt) : W (psV3Connect c p) := by
  refine w_of3 h true ?_
  unfold psV3Connect
  split
  · left; simp
  · right
    simp only [K2_sendPostProcess, K2_push]
    cases hc : p.clean
    · left; simp only [Bool.false_eq_true, if_false]; rfl
    · right; simp only [if_true]; rfl

theorem w_psV5Connect {c : C} (h : W c) (p : Pkt) : W (psV5Connect c p) := by
  refine w_of3 h true ?_
  unfold psV5Connect
  split
  · left; simp
  split
  · left; simp
  · right
    simp only [K2_sendPostProcess, K2_push, K2_fold_connectSendProp]
    cases hc : p.clean
    · left; simp only [Bool.false_eq_true, if_false]; rfl
    · right; simp only [if_true]; rfl

theorem w_connackTail {c : C} (h : W c) (hn : (c.s.store.map (·.1)).Nodup) (p : Pkt) :
    W (sendPostProcess (if p.sp then sendStored c else clearStoreRelated c)) := by
  refine W.congr (c := if p.sp then sendStored c else clearStoreRelated c) ?_ (by simp)
  split
  · exact w_sendStored h hn
  · exact h.clear

theorem w_psV3Connack {c : C} (h : W c) (hn : (c.s.store.map (·.1)).Nodup) (p : Pkt) : W (psV3Connack c p) := by
  unfold psV3Connack
  split
  · exact h.congr (by simp)
  · simp only []
    split
    · exact h.congr (by simp; rfl)
    · exact w_connackTail (c := { (c.push (.send p none)) with s := { c.s with status := .connected } })
        (h.congr rfl) hn p

theorem w_psV5Connack {c : C} (h : W c) (hn : (c.s.store.map (·.1)).Nodup) (p : Pkt) : W (psV5Connack c p) := by
  unfold psV5Connack
  split
  · exact h.congr (by simp)
  split
  · exact h.congr (by simp)
  · simp only []
    have e1 : K2 (if p.rc = some 0 then propsFold connackSendProp c p.props else c) = K2 c := by
      split <;> simp
    generalize (if p.rc = some 0 then propsFold connackSendProp c p.props else c) = c1 at e1
    have h1 : W c1 := h.congr e1
    have hn1 : (c1.s.store.map (·.1)).Nodup := by
      have : c1.s.store = c.s.store := congrArg (·.2.1) e1
      rw [this]; exact hn
    split
    · exact h1.congr (by simp; rfl)
    · exact w_connackTail (c := { (c1.push (.send p none)) with s := { c1.s with status := .connected } })
        (h1.congr rfl) hn1 p

end MqttVerif.Conn.Hd
