import MqttVerif.Conn.Lemmas.StoreRecv
/-!
# C06 lemmas: how entries leave the store, sending side and the other calls   (agent P7)
-/
namespace MqttVerif.Conn
open MqttVerif
set_option linter.unusedSimpArgs false

theorem propsFold_frame {α : Type} (g : C → α) (f : C → Nat → Nat → C) (hf : ∀ c i v, g (f c i v) = g c)
    (c : C) (l : List (Nat × Nat)) : g (propsFold f c l) = g c := by
  induction l generalizing c with
  | nil => rfl
  | cons a t ih => obtain ⟨i, v⟩ := a; simp [propsFold, ih, hf]

theorem pubRefuseCleanup_store (c : C) (pid : Option Nat) :
    (pubRefuseCleanup c pid).s.store = c.s.store ∨
    ∃ id, pid = some id ∧ (pubRefuseCleanup c pid).s.store = (storeErasePublish id c.s.store).2 := by
  simp only [pubRefuseCleanup]
  split
  · left; rfl
  · rename_i id
    split
    · right; exact ⟨id, rfl, by simp⟩
    · left; rfl

/-- the alias / Receive-Maximum stage either leaves the store alone or refuses (error event) and
    erases the stored PUBLISH with the packet's identifier -/
theorem psV5PublishAlias_store (c : C) (p : Pkt) (rel : Option Nat) (v : Bool) :
    (psV5PublishAlias c p rel v).s.store = c.s.store ∨
    (errs (psV5PublishAlias c p rel v).ev ≠ errs c.ev ∧
      ∃ id, p.pid = some id ∧ (psV5PublishAlias c p rel v).s.store = (storeErasePublish id c.s.store).2) := by
  simp only [psV5PublishAlias]
  generalize (decide (p.qos > 0) && (match c.s.sendMax with
    | some m => decide (c.s.sendCount ≥ m) | none => false)) = blocked
  cases blocked
  · simp only [Bool.false_eq_true, if_false]
    cases ht : p.topic.isEmpty
    · simp only [Bool.false_eq_true, if_false]
      cases ha : p.alias with
      | none => left; simp
      | some a =>
        simp only
        cases hr : validateTopicAliasRange c.s a
        · simp only [Bool.false_eq_true, if_false]
          rcases pubRefuseCleanup_store (c.err eNotAllowed) p.pid with h | ⟨id, h1, h2⟩
          · left; simpa using h
          · right; exact ⟨by simp, id, h1, by simpa using h2⟩
        · left; simp [apply_ite C.s, apply_ite St.store]
    · simp only [if_true]
      cases v
      · by_cases hr : (validateTopicAlias c p.alias).1.isNone
        · have hr' : (validateTopicAlias c p.alias).1 = none := by simpa using hr
          rcases pubRefuseCleanup_store ((validateTopicAlias c p.alias).2.err eNotAllowed) p.pid with h | ⟨id, h1, h2⟩
          · left; simpa [hr'] using h
          · right; exact ⟨by simp [hr'], id, h1, by simpa [hr'] using h2⟩
        · left; simp [hr]
      · left; simp
  · simp only [if_true]
    rcases pubRefuseCleanup_store (c.err eRMExceeded) p.pid with h | ⟨id, h1, h2⟩
    · left; simpa using h
    · right; exact ⟨by simp, id, h1, by simpa using h2⟩


theorem aliasStage_keep_or_refuse (c c2 : C) (p : Pkt) (rel : Option Nat) (v : Bool) {e : Nat × Pkt}
    (hsub : e ∈ c2.s.store) (herr : errs c2.ev = errs c.ev) :
    e ∈ (psV5PublishAlias c2 p rel v).s.store ∨
    (errs (psV5PublishAlias c2 p rel v).ev ≠ errs c.ev ∧ p.pid = some e.1) := by
  rcases psV5PublishAlias_store c2 p rel v with h | ⟨h1, id, h2, h3⟩
  · left; rw [h]; exact hsub
  · by_cases hm : e ∈ (psV5PublishAlias c2 p rel v).s.store
    · exact .inl hm
    · right
      rw [h3] at hm
      exact ⟨by rw [← herr]; exact h1, by rw [h2, (storeErasePublish_removed hsub hm).1]⟩

theorem psV5Publish_keep_or_refuse (c : C) (p : Pkt) {e : Nat × Pkt} (h1 : e ∈ c.s.store) :
    e ∈ (psV5Publish c p).s.store ∨ (errs (psV5Publish c p).ev ≠ errs c.ev ∧ p.pid = some e.1) := by
  simp only [psV5Publish]
  split
  · left; split <;> simpa using h1
  · split
    · split
      · left; simpa [C.setPanic] using h1
      · split
        · left; simpa using h1
        · split
          · left; simpa using h1
          · split
            · split
              · split
                · left; simpa using h1
                · refine aliasStage_keep_or_refuse c _ p none true ?_ ?_
                  · simp only [apply_ite C.s, apply_ite St.store, ite_self]
                    exact storeAdd_mono _ _ _ _ (by simpa [apply_ite C.s, apply_ite St.store, C.setPanic] using h1)
                  · simp [apply_ite C.ev, apply_ite errs, C.setPanic]
              · refine aliasStage_keep_or_refuse c _ p none false ?_ ?_
                · simp only [apply_ite C.s, apply_ite St.store, ite_self]
                  exact storeAdd_mono _ _ _ _ h1
                · simp [apply_ite C.ev, apply_ite errs]
            · refine aliasStage_keep_or_refuse c _ p _ false ?_ ?_
              · simpa [apply_ite C.s, apply_ite St.store] using h1
              · simp [apply_ite C.ev, apply_ite errs]
    · split
      · left; simpa using h1
      · exact aliasStage_keep_or_refuse c c p none false h1 rfl

theorem psV3Publish_mono (c : C) (p : Pkt) {e : Nat × Pkt} (h1 : e ∈ c.s.store) : e ∈ (psV3Publish c p).s.store := by
  simp only [psV3Publish]
  split
  · split
    · simpa [C.setPanic] using h1
    · split
      · simpa using h1
      · split
        · simpa using h1
        · simp only [apply_ite C.s, apply_ite St.store, sendPostProcess_store, push_s, ite_self]
          split
          · exact storeAdd_mono _ _ _ _ h1
          · exact h1
  · split <;> simpa using h1

theorem psV3Connect_store (c : C) (p : Pkt) :
    (psV3Connect c p).s.store = if c.s.status = .disconnected ∧ p.clean then [] else c.s.store := by
  simp only [psV3Connect]; split <;> (try split) <;> simp_all [clearStoreRelated, initConn, apply_ite C.s, apply_ite St.store]

theorem psV5Connect_store (c : C) (p : Pkt) :
    (psV5Connect c p).s.store = if sizeOk c p ∧ c.s.status = .disconnected ∧ p.clean then [] else c.s.store := by
  simp only [psV5Connect]; split <;> (try split) <;> (try split) <;>
    simp_all [propsFold_store, clearStoreRelated, initConn, apply_ite C.s, apply_ite St.store]

/-- a successfully sent CONNACK with session present resends: the store keeps exactly the entries
    that fit; without session present it starts a new session: the store is emptied (fix 10ee029) -/
theorem psV3Connack_store (c : C) (p : Pkt) :
    (psV3Connack c p).s.store = c.s.store ∨
    (p.rc = some 0 ∧ p.sp = true ∧ p ∈ sends (psV3Connack c p).ev ∧
      (psV3Connack c p).s.store = fits c.cfg.pw (psV3Connack c p).s.mpsSend c.s.store) ∨
    (p.rc = some 0 ∧ p.sp = false ∧ (psV3Connack c p).s.store = []) := by
  simp only [psV3Connack]
  split
  · left; simp
  · split
    · left; simp
    · rename_i h
      right
      cases hsp : p.sp
      · right
        exact ⟨by simpa using h, rfl, by simp [clearStoreRelated]⟩
      · left
        refine ⟨by simpa using h, rfl, ?_, ?_⟩
        · simp [sendStored_sends]
        · simp [sendStored_store]

theorem psV5Connack_store (c : C) (p : Pkt) :
    (psV5Connack c p).s.store = c.s.store ∨
    (p.rc = some 0 ∧ p.sp = true ∧ p ∈ sends (psV5Connack c p).ev ∧
      (psV5Connack c p).s.store = fits c.cfg.pw (psV5Connack c p).s.mpsSend c.s.store) ∨
    (p.rc = some 0 ∧ p.sp = false ∧ (psV5Connack c p).s.store = []) := by
  simp only [psV5Connack]
  split
  · left; simp
  · split
    · left; simp
    · split
      · rename_i h; left; simp [h]
      · rename_i h
        have h0 : p.rc = some 0 := by simpa using h
        right
        cases hsp : p.sp
        · right
          exact ⟨h0, rfl, by simp [clearStoreRelated]⟩
        · left
          refine ⟨h0, rfl, ?_, ?_⟩
          · simp [sendStored_sends]
          · simp [h0, sendStored_store, propsFold_store, propsFold_frame (fun c => c.cfg),
              propsFold_frame (fun c => c.s.mpsSend)]


/-- how an entry can leave the store in one `send` call -/
theorem send_leaves (c : C) (p : Pkt) {e : Nat × Pkt} (h1 : e ∈ c.s.store) (h2 : e ∉ (send c p).s.store) :
    (p.kind = .connect ∧ p.clean = true ∧ (send c p).s.store = []) ∨
    (p.kind = .connack ∧ p.rc = some 0 ∧ p.sp = true ∧ p ∈ sends (send c p).ev ∧
      (send c p).s.store = fits c.cfg.pw (send c p).s.mpsSend c.s.store) ∨
    (p.kind = .publish ∧ p.ver ≠ 4 ∧ errs (send c p).ev ≠ errs c.ev ∧ p.pid = some e.1) ∨
    (p.kind = .connack ∧ p.rc = some 0 ∧ p.sp = false ∧ (send c p).s.store = []) := by
  by_cases hv : c.s.ver ≠ p.ver
  · have e0 : send c p = refuseSend c eVersionMismatch p := by simp [send, hv]
    rw [e0, refuseSend_store] at h2; exact absurd h1 h2
  · by_cases hr : ¬ roleMaySend c.cfg.role p = true
    · have e0 : send c p = refuseSend c eNotAllowed p := by simp [send, hv, hr]
      rw [e0, refuseSend_store] at h2; exact absurd h1 h2
    · have hr' : roleMaySend c.cfg.role p = true := by simpa using hr
      have e0 : send c p = processSend c p := by simp [send, hv, hr']
      rw [e0] at h2 ⊢
      simp only [processSend] at h2 ⊢
      by_cases h4 : p.ver = 4
      · simp only [h4, if_true] at h2 ⊢
        cases hk : p.kind <;> simp only [hk] at h2 ⊢
        case connect =>
          rw [psV3Connect_store] at h2 ⊢
          split at h2
          · rename_i hc; left; simp [hc]
          · exact absurd h1 h2
        case connack =>
          rcases psV3Connack_store c p with h | ⟨a, b, d, f⟩ | ⟨a, b, d⟩
          · rw [h] at h2; exact absurd h1 h2
          · right; left; exact ⟨trivial, a, b, d, f⟩
          · right; right; right; exact ⟨trivial, a, b, d⟩
        case publish => exact absurd (psV3Publish_mono c p h1) h2
        case pubrel => exact absurd (psPubrel_mono c p h1) h2
        all_goals exact absurd (by simpa using h1) h2
      · simp only [h4, if_false] at h2 ⊢
        cases hk : p.kind <;> simp only [hk] at h2 ⊢
        case connect =>
          rw [psV5Connect_store] at h2 ⊢
          split at h2
          · rename_i hc; left; simp [hc]
          · exact absurd h1 h2
        case connack =>
          rcases psV5Connack_store c p with h | ⟨a, b, d, f⟩ | ⟨a, b, d⟩
          · rw [h] at h2; exact absurd h1 h2
          · right; left; exact ⟨trivial, a, b, d, f⟩
          · right; right; right; exact ⟨trivial, a, b, d⟩
        case publish =>
          rcases psV5Publish_keep_or_refuse c p h1 with h | ⟨a, b⟩
          · exact absurd h h2
          · right; right; left; exact ⟨trivial, h4, a, b⟩
        case pubrel => exact absurd (psPubrel_mono c p h1) h2
        all_goals exact absurd (by simpa using h1) h2

/-! ## the other calls -/

@[simp] theorem releaseAll_store (c : C) (l : List Nat) : (releaseAll c l).s.store = c.s.store := by
  induction l generalizing c with
  | nil => rfl
  | cons a t ih => simp [releaseAll, ih]

theorem notifyClosed_store (c : C) :
    (notifyClosed c).s.store = if c.s.needStore then c.s.store else [] := by
  simp only [notifyClosed]
  simp [apply_ite C.s, apply_ite St.store]
  cases c.s.needStore <;> simp

theorem restoreOne_mono (c : C) (p : Pkt) {e : Nat × Pkt} (h : e ∈ c.s.store) : e ∈ (restoreOne c p).s.store := by
  simp only [restoreOne, register]
  split
  · exact h
  · by_cases hu : (Alloc.useValue c.s.pidMan (p.pid.getD 0)).1 = true
    · simp only [hu, if_true]
      simp only [apply_ite C.s, apply_ite St.store]
      repeat' split
      all_goals simp [h]
    · simp only [hu]; simpa using h

theorem restorePackets_mono (c : C) (l : List Pkt) {e : Nat × Pkt} (h : e ∈ c.s.store) :
    e ∈ (restorePackets c l).s.store := by
  induction l generalizing c with
  | nil => exact h
  | cons a t ih => exact ih _ (restoreOne_mono c a h)

theorem eraseStoredPublish_leaves (c : C) (id : Nat) {e : Nat × Pkt} (h1 : e ∈ c.s.store)
    (h2 : e ∉ (eraseStoredPublish c id).s.store) :
    e.1 = id ∧ ∃ q, lookup id c.s.store = some q ∧ q.kind = .publish := by
  simp only [eraseStoredPublish] at h2
  split at h2
  · exact storeErasePublish_removed h1 (by simpa using h2)
  · exact absurd h1 h2

end MqttVerif.Conn
