import MqttVerif.Conn.Lemmas.PidsEff
/-!
# Helper lemmas for C08 — part 4: receive side, close, id management calls
-/
set_option linter.unusedSimpArgs false
set_option linter.unusedVariables false
namespace MqttVerif.Conn
open MqttVerif

theorem Eff.err {b : Bool} {c c' : C} (e : Eff b c c') (n : Nat) : Eff b c (c'.err n) :=
  e.quiet_right (by quiet_tac)

/-- `clearStoreRelated` runs in `prV3Connect` / `prV5Connect`: accepted CONNECT, clean start -/
def prConnectClears (c : C) (parsed : Except Nat Pkt) : Bool :=
  decide (c.s.status = .disconnected) && (match parsed with | .ok p => p.clean | .error _ => false)

theorem prV3Connect_eff {c : C} (h : Wf c) (parsed : Except Nat Pkt) :
    Eff (prConnectClears c parsed) c (prV3Connect c parsed) := by
  unfold prV3Connect prConnectClears
  by_cases hs : c.s.status = .disconnected
  · simp only [hs, ne_eq, not_true_eq_false, if_false, decide_true, Bool.true_and]
    cases parsed with
    | error e =>
      simp only []
      refine Eff.err ?_ _
      exact Eff.via h (by quiet_tac) (fun h' => (psV3Connack_eff h' _).cast (psV3ConnackClears_errRc _ e))
    | ok p =>
      simp only []
      cases hc : p.clean <;> simp only [if_true, if_false, Bool.false_eq_true] <;>
        apply Eff.of_proj h <;> eff_tac
  · simp only [hs, ne_eq, not_false_eq_true, if_true, decide_false, Bool.false_and]
    exact Eff.of_quiet h (by quiet_tac)

theorem prV5Connect_eff {c : C} (h : Wf c) (parsed : Except Nat Pkt) :
    Eff (prConnectClears c parsed) c (prV5Connect c parsed) := by
  unfold prV5Connect prConnectClears
  by_cases hs : c.s.status = .disconnected
  · simp only [hs, ne_eq, not_true_eq_false, if_false, decide_true, Bool.true_and]
    cases parsed with
    | error e =>
      simp only []
      refine Eff.err ?_ _
      exact Eff.via h (by quiet_tac) (fun h' => (psV5Connack_eff h' _).cast (psV5ConnackClears_errRc _ e))
    | ok p =>
      simp only []
      cases hc : p.clean <;> simp only [if_true, if_false, Bool.false_eq_true] <;>
        apply Eff.of_proj h <;> eff_tac
  · simp only [hs, ne_eq, not_false_eq_true, if_true, decide_false, Bool.false_and]
    exact Eff.of_quiet h (by quiet_tac)

theorem Eff.push_recv {b : Bool} {c c' : C} (e : Eff b c c') (p : Pkt) : Eff b c (c'.push (.recv p)) :=
  e.quiet_right (by quiet_tac)

/-- `clearStoreRelated` runs in `prV3Connack`: accepted CONNACK(success) without session present -/
def prV3ConnackClears (c : C) (parsed : Except Nat Pkt) : Bool :=
  decide (c.s.status ≠ .connected) &&
    (match parsed with | .ok p => decide (p.rc = some 0) && !p.sp | .error _ => false)

theorem prV3Connack_eff {c : C} (h : Wf c) (parsed : Except Nat Pkt) :
    Eff (prV3ConnackClears c parsed) c (prV3Connack c parsed) := by
  unfold prV3Connack prV3ConnackClears
  by_cases hs : c.s.status = .connected
  · simp only [hs, ne_eq, not_true_eq_false, if_true, decide_false, Bool.false_and]
    exact Eff.of_quiet h (by quiet_tac)
  · simp only [hs, ne_eq, not_false_eq_true, if_false, decide_true, Bool.true_and]
    cases parsed with
    | error e => exact Eff.of_quiet h (by quiet_tac)
    | ok p =>
      simp only []
      refine Eff.push_recv ?_ p
      by_cases hrc : p.rc = some 0
      · cases hsp : p.sp
        · simp only [hrc, hsp, if_true, if_false, decide_true, Bool.not_false, Bool.and_self, Bool.false_eq_true]
          exact Eff.via h (by quiet_tac) (fun h' => clearStoreRelated_eff h')
        · simp only [hrc, hsp, if_true, decide_true, Bool.not_true, Bool.and_false]
          exact Eff.via h (by quiet_tac) (fun h' => resendStored_eff h')
      · simp only [hrc, if_false, decide_false, Bool.false_and]
        exact Eff.refl h

def seiZero (x : Nat × Nat) : Bool := decide (x.1 = pSEI) && decide (x.2 = 0)

theorem connackRecvProp_eff {c : C} (h : Wf c) (id v : Nat) :
    Eff (seiZero (id, v)) c (connackRecvProp c id v) := by
  unfold seiZero
  by_cases h1 : id = pSEI
  · by_cases h2 : v = 0
    · subst h1 h2
      simp only [decide_true, Bool.and_self]
      apply Eff.of_proj h <;> (simp only [connackRecvProp, pSEI, pTAM, pRM, pMPS, pSKA]; eff_tac)
    · subst h1
      simp only [h2, decide_true, decide_false, Bool.and_false]
      refine Eff.of_quiet h ?_
      simp only [connackRecvProp, pSEI, pTAM, pRM, pMPS, pSKA, h2]; quiet_tac
  · simp only [h1, decide_false, Bool.false_and]
    refine Eff.of_quiet h ?_
    unfold connackRecvProp
    simp only [h1, if_false]
    quiet_tac

theorem propsFold_connackRecvProp_eff (l : List (Nat × Nat)) :
    ∀ c, Wf c → Eff (l.any seiZero) c (propsFold connackRecvProp c l) := by
  induction l with
  | nil => intro c h; exact Eff.refl h
  | cons x rest ih =>
    intro c h
    obtain ⟨id, v⟩ := x
    simp only [propsFold, List.any_cons]
    exact (connackRecvProp_eff h id v).trans (ih _ (connackRecvProp_eff h id v).wf)

/-- `clearStoreRelated` runs in `prV5Connack`: accepted CONNACK(success) without session
    present, or carrying Session Expiry Interval 0 -/
def prV5ConnackClears (c : C) (parsed : Except Nat Pkt) : Bool :=
  decide (c.s.status ≠ .connected) &&
    (match parsed with
     | .ok p => decide (p.rc = some 0) && (p.props.any seiZero || !p.sp)
     | .error _ => false)

theorem prV5Connack_eff {c : C} (h : Wf c) (parsed : Except Nat Pkt) :
    Eff (prV5ConnackClears c parsed) c (prV5Connack c parsed) := by
  unfold prV5Connack prV5ConnackClears
  by_cases hs : c.s.status = .connected
  · simp only [hs, ne_eq, not_true_eq_false, if_true, decide_false, Bool.false_and]
    exact Eff.of_quiet h (by quiet_tac)
  · simp only [hs, ne_eq, not_false_eq_true, if_false, decide_true, Bool.true_and]
    cases parsed with
    | error e => exact Eff.of_quiet h (by quiet_tac)
    | ok p =>
      simp only []
      refine Eff.push_recv ?_ p
      by_cases hrc : p.rc = some 0
      · simp only [hrc, if_true, decide_true, Bool.true_and]
        have e1 : Eff (p.props.any seiZero) c
            (propsFold connackRecvProp { c with s := { c.s with status := .connected } } p.props) :=
          Eff.via h (by quiet_tac) (fun h' => propsFold_connackRecvProp_eff p.props _ h')
        cases hsp : p.sp
        · simp only [Bool.false_eq_true, if_false, Bool.not_false]
          exact e1.trans (clearStoreRelated_eff e1.wf)
        · simp only [if_true, Bool.not_true]
          exact e1.trans (resendStored_eff e1.wf)
      · simp only [hrc, if_false, decide_false, Bool.false_and]
        exact Eff.refl h

/-! ## acknowledgements -/
theorem prPuback_eff {c : C} (h : Wf c) (parsed : Except Nat Pkt) : Eff false c (prPuback c parsed) := by
  unfold prPuback
  split
  · exact Eff.of_quiet h (by quiet_tac)
  · simp only []
    split
    · apply Eff.of_release h (‹Pkt›.pid.getD 0) <;> eff_tac
    · exact Eff.of_quiet h (by quiet_tac)

theorem prPubcomp_eff {c : C} (h : Wf c) (parsed : Except Nat Pkt) : Eff false c (prPubcomp c parsed) := by
  unfold prPubcomp
  split
  · exact Eff.of_quiet h (by quiet_tac)
  · simp only []
    split
    · apply Eff.of_release h (‹Pkt›.pid.getD 0) <;> eff_tac
    · exact Eff.of_quiet h (by quiet_tac)

theorem prSubUnsuback_eff {c : C} (h : Wf c) (isSub : Bool) (parsed : Except Nat Pkt) :
    Eff false c (prSubUnsuback c isSub parsed) := by
  unfold prSubUnsuback
  cases parsed with
  | error e => exact Eff.of_quiet h (by quiet_tac)
  | ok p =>
    cases isSub <;> simp only [if_true, if_false, Bool.false_eq_true] <;> split <;>
      first
      | (apply Eff.of_release h (p.pid.getD 0) <;> eff_tac; done)
      | exact Eff.of_quiet h (by quiet_tac)

theorem prPubrec_eff {c : C} (h : Wf c) (parsed : Except Nat Pkt) : Eff false c (prPubrec c parsed) := by
  unfold prPubrec
  split
  · exact Eff.of_quiet h (by quiet_tac)
  · simp only []
    split
    · split
      · exact Eff.of_quiet h (by quiet_tac)
      · apply Eff.of_release h (‹Pkt›.pid.getD 0) <;> eff_tac
    · exact Eff.of_quiet h (by quiet_tac)

/-! ## dispatch -/
def dispatchRecvClears (c : C) (t : Nat) (parsed : Except Nat Pkt) : Bool :=
  if t = 1 then prConnectClears c parsed
  else if t = 2 then (if c.s.ver = 4 then prV3ConnackClears c parsed else prV5ConnackClears c parsed)
  else false

theorem dispatchRecv_eff {c : C} (h : Wf c) (t : Nat) (parsed : Except Nat Pkt) :
    Eff (dispatchRecvClears c t parsed) c (dispatchRecv c t parsed) := by
  have q : ∀ {c' : C}, Quiet c c' → dispatchRecvClears c t parsed = false →
      Eff (dispatchRecvClears c t parsed) c c' := fun q e => e ▸ Eff.of_quiet h q
  have r : ∀ {c' : C}, Eff false c c' → dispatchRecvClears c t parsed = false →
      Eff (dispatchRecvClears c t parsed) c c' := fun q e => e ▸ q
  unfold dispatchRecv
  split
  · have : dispatchRecvClears c 1 parsed = prConnectClears c parsed := by simp [dispatchRecvClears]
    rw [this]; split
    · exact prV3Connect_eff h _
    · exact prV5Connect_eff h _
  · by_cases hv : c.s.ver = 4
    · have : dispatchRecvClears c 2 parsed = prV3ConnackClears c parsed := by simp [dispatchRecvClears, hv]
      rw [this, if_pos hv]; exact prV3Connack_eff h _
    · have : dispatchRecvClears c 2 parsed = prV5ConnackClears c parsed := by simp [dispatchRecvClears, hv]
      rw [this, if_neg hv]; exact prV5Connack_eff h _
  · exact q (by quiet_tac) (by simp [dispatchRecvClears])
  · exact r (prPuback_eff h _) (by simp [dispatchRecvClears])
  · exact r (prPubrec_eff h _) (by simp [dispatchRecvClears])
  · exact q (by quiet_tac) (by simp [dispatchRecvClears])
  · exact r (prPubcomp_eff h _) (by simp [dispatchRecvClears])
  · exact q (by quiet_tac) (by simp [dispatchRecvClears])
  · exact r (prSubUnsuback_eff h _ _) (by simp [dispatchRecvClears])
  · exact q (by quiet_tac) (by simp [dispatchRecvClears])
  · exact r (prSubUnsuback_eff h _ _) (by simp [dispatchRecvClears])
  · exact q (by quiet_tac) (by simp [dispatchRecvClears])
  · exact q (by quiet_tac) (by simp [dispatchRecvClears])
  · exact q (by quiet_tac) (by simp [dispatchRecvClears])
  · exact q (by quiet_tac) (by simp [dispatchRecvClears])
  · rename_i h1 h2 _ _ _ _ _ _ _ _ _ _ _ _ _
    have h1' : ¬ t = 1 := h1
    have h2' : ¬ t = 2 := h2
    exact q (by quiet_tac) (by simp only [dispatchRecvClears, h1', h2', if_false])

def processRecvPacketClears (c : C) (fh : Nat) (data : List Nat) (parse : Nat → Except Nat Pkt) : Bool :=
  if totalSize data.length > c.s.mpsRecv then false
  else if !canReceive c.cfg c.s (fh / 16) then false
  else if c.s.ver = 0 then
    if fh / 16 = 1 then
      if data.length < 7 then false
      else if data.getD 6 0 = 4 then prConnectClears { c with s := { c.s with ver := 4 } } (parse 4)
      else if data.getD 6 0 = 5 then prConnectClears { c with s := { c.s with ver := 5 } } (parse 5)
      else false
    else false
  else dispatchRecvClears c (fh / 16) (parse c.s.ver)

theorem processRecvPacket_eff {c : C} (h : Wf c) (fh : Nat) (data : List Nat) (parse : Nat → Except Nat Pkt) :
    Eff (processRecvPacketClears c fh data parse) c (processRecvPacket c fh data parse) := by
  unfold processRecvPacket processRecvPacketClears
  simp only []
  split
  · exact Eff.of_quiet h (by quiet_tac)
  split
  · exact Eff.of_quiet h (by quiet_tac)
  split
  · split
    · split
      · exact Eff.of_quiet h (by quiet_tac)
      split
      · exact Eff.via h (by quiet_tac) (fun h' => prV3Connect_eff h' _)
      split
      · exact Eff.via h (by quiet_tac) (fun h' => prV5Connect_eff h' _)
      · exact Eff.of_quiet h (by quiet_tac)
    · exact Eff.of_quiet h (by quiet_tac)
  · exact dispatchRecv_eff h _ _

/-- `clearStoreRelated` runs in `recv c inp parse` -/
def recvClears (c : C) (inp : List Nat) (parse : Nat → Nat → List Nat → Except Nat Pkt) : Bool :=
  match Framing.feed c.s.pb inp with
  | (pb, some (.complete fh data), _) =>
    processRecvPacketClears { c with s := { c.s with pb := pb } } fh data (fun v => parse v fh data)
  | _ => false

theorem recv_eff {c : C} (h : Wf c) (inp : List Nat) (parse : Nat → Nat → List Nat → Except Nat Pkt) :
    Eff (recvClears c inp parse) c (recv c inp parse).1 := by
  unfold recv recvClears
  obtain ⟨pb, out, rest⟩ := Framing.feed c.s.pb inp
  simp only []
  cases out with
  | none => exact Eff.of_quiet h (by quiet_tac)
  | some o =>
    cases o with
    | complete fh data => exact Eff.via h (by quiet_tac) (fun h' => processRecvPacket_eff h' _ _ _)
    | error => exact Eff.of_quiet h (by quiet_tac)

/-! ## close -/
theorem Eff.mono {b : Bool} {c c' : C} (e : Eff b c c') {id : Nat} (hf : isUsed c.s id = false) :
    isUsed c'.s id = false := by
  obtain ⟨_, _, r, _, _, _, a4, _, _⟩ := e
  cases hc : isUsed c'.s id with
  | false => rfl
  | true => have := a4 id hc; simp_all

theorem releaseIfUsed_free {c : C} (h : Wf c) (id : Nat) : isUsed (releaseIfUsed c id).s id = false := by
  cases hu : isUsed c.s id with
  | false => rw [releaseIfUsed_unused hu]; exact hu
  | true =>
    rw [releaseIfUsed_used h hu]
    have := ((h.2.w.dealloc hu).2.2 id)
    cases hc : isUsed (_ : C).s id with
    | false => rfl
    | true => have := this.1 hc; simp_all

theorem releaseAll_eff (l : List Nat) : ∀ c, Wf c → Eff false c (releaseAll c l) := by
  induction l with
  | nil => intro c h; exact Eff.refl h
  | cons x rest ih =>
    intro c h
    rw [releaseAll]
    exact (releaseIfUsed_eff h x).trans_ff (fun h' => ih _ h')

theorem releaseAll_free (l : List Nat) : ∀ c, Wf c → ∀ id ∈ l, isUsed (releaseAll c l).s id = false := by
  induction l with
  | nil => intro c h id hm; simp at hm
  | cons x rest ih =>
    intro c h id hm
    rw [releaseAll]
    have e := releaseIfUsed_eff h x
    rcases List.mem_cons.1 hm with rfl | hm
    · exact (releaseAll_eff rest _ e.wf).mono (releaseIfUsed_free h id)
    · exact ih _ e.wf id hm

/-- one draining stage of `notify_closed` -/
def drain (c : C) (get : St → List Nat) (clr : St → St) : C :=
  releaseAll { c with s := clr c.s } (get c.s)

theorem drain_eff {c : C} (h : Wf c) (get : St → List Nat) (clr : St → St)
    (hclr : ∀ s, (clr s).pidMan = s.pidMan) : Eff false c (drain c get clr) :=
  Eff.via (c' := { c with s := clr c.s }) h ⟨rfl, hclr _, rfl⟩ (fun h' => releaseAll_eff _ _ h')

theorem drain_free {c : C} (h : Wf c) (get : St → List Nat) (clr : St → St)
    (hclr : ∀ s, (clr s).pidMan = s.pidMan) {id : Nat} (hm : id ∈ get c.s) :
    isUsed (drain c get clr).s id = false :=
  releaseAll_free _ { c with s := clr c.s } (h.congr rfl (hclr _)) id hm

def ncA (c : C) : C :=
  { c with s := { c.s with mpsSend := noLimit, mpsRecv := noLimit, status := .disconnected,
                            tas := none, tar := none } }
def dSub (c : C) : C := drain c (fun s => s.suback) (fun s => { s with suback := [] })
def dUnsub (c : C) : C := drain c (fun s => s.unsuback) (fun s => { s with unsuback := [] })
def dPuback (c : C) : C := drain c (fun s => s.puback) (fun s => { s with puback := [] })
def dPubrec (c : C) : C := drain c (fun s => s.pubrec) (fun s => { s with pubrec := [] })
def dPubcomp (c : C) : C := drain c (fun s => s.pubcomp) (fun s => { s with pubcomp := [] })
def ncH (c : C) : C := { c with s := { c.s with handled := [] } }
def ncS (c : C) : C := { c with s := { c.s with store := [] } }
def ncP (c : C) : C := { c with s := { c.s with pb := Framing.PB.reset } }
def ncB (c : C) : C := dUnsub (dSub c)
def ncC (c : C) : C := ncS (dPubcomp (dPubrec (dPuback (ncH c))))

theorem notifyClosed_eq (c : C) :
    notifyClosed c =
      cancelTimers (ncP (if !(ncB (ncA c)).s.needStore then ncC (ncB (ncA c)) else ncB (ncA c))) := rfl

theorem dSub_eff {c : C} (h : Wf c) : Eff false c (dSub c) := drain_eff h _ _ (fun _ => rfl)
theorem dUnsub_eff {c : C} (h : Wf c) : Eff false c (dUnsub c) := drain_eff h _ _ (fun _ => rfl)
theorem dPuback_eff {c : C} (h : Wf c) : Eff false c (dPuback c) := drain_eff h _ _ (fun _ => rfl)
theorem dPubrec_eff {c : C} (h : Wf c) : Eff false c (dPubrec c) := drain_eff h _ _ (fun _ => rfl)
theorem dPubcomp_eff {c : C} (h : Wf c) : Eff false c (dPubcomp c) := drain_eff h _ _ (fun _ => rfl)

theorem ncB_eff {c : C} (h : Wf c) : Eff false c (ncB c) :=
  (dSub_eff h).trans_ff (fun h' => dUnsub_eff h')

theorem ncC_eff {c : C} (h : Wf c) : Eff false c (ncC c) := by
  have q : Quiet c (ncH c) := ⟨rfl, rfl, rfl⟩
  have e := ((Eff.via h q (fun h' => dPuback_eff h')).trans_ff (fun h' => dPubrec_eff h')).trans_ff
    (fun h' => dPubcomp_eff h')
  exact e.quiet_right ⟨rfl, rfl, rfl⟩

theorem notifyClosed_eff {c : C} (h : Wf c) : Eff false c (notifyClosed c) := by
  rw [notifyClosed_eq]
  refine Eff.quiet_right ?_ (cancelTimers_q _)
  have hA : Quiet c (ncA c) := ⟨rfl, rfl, rfl⟩
  have eB : Eff false c (ncB (ncA c)) := Eff.via h hA (fun h' => ncB_eff h')
  split
  · exact (eB.trans_ff (fun h' => ncC_eff h')).quiet_right ⟨rfl, rfl, rfl⟩
  · exact eB.quiet_right ⟨rfl, rfl, rfl⟩

theorem eraseStoredPublish_eff {c : C} (h : Wf c) (id : Nat) : Eff false c (eraseStoredPublish c id) := by
  unfold eraseStoredPublish
  simp only []
  split
  · apply Eff.of_release h id <;> eff_tac
  · exact Eff.refl h

end MqttVerif.Conn
