import MqttVerif.Conn.Lemmas.PersistFlag
/-!
# C11 helper — `need_store` vs. the ghost: the CONNECT / CONNACK handlers and the `step` level
-/
set_option linter.unusedSimpArgs false
set_option linter.unusedVariables false
namespace MqttVerif.Conn.PF
open MqttVerif MqttVerif.Conn

/-! ## the Session Expiry Interval property: what the handlers compute vs. what `findProp` sees -/

/-- at most one Session Expiry Interval property (it is a protocol error to include it twice) -/
def SeiOnce (props : List (Nat × Nat)) : Prop := (props.filter (fun x => x.1 = pSEI)).length ≤ 1

instance (props : List (Nat × Nat)) : Decidable (SeiOnce props) := by unfold SeiOnce; infer_instance

/-- `connect*Prop` over a property list: any non-zero Session Expiry Interval sets the flag -/
def seiSet (b : Bool) (l : List (Nat × Nat)) : Bool :=
  l.foldl (fun b x => if x.1 = pSEI ∧ x.2 ≠ 0 then true else b) b

/-- `connackRecvProp` over a property list: every Session Expiry Interval overrides the flag -/
def seiOver (b : Bool) (l : List (Nat × Nat)) : Bool :=
  l.foldl (fun b x => if x.1 = pSEI then decide (x.2 ≠ 0) else b) b

theorem seiSet_noSei (l : List (Nat × Nat)) (h : l.filter (fun x => x.1 = pSEI) = []) (b : Bool) : seiSet b l = b := by
  induction l generalizing b with
  | nil => rfl
  | cons x rest ih =>
    simp only [List.filter_cons] at h
    split at h
    · cases h
    · rename_i hx
      simp only [decide_eq_true_eq] at hx
      simp only [seiSet, List.foldl_cons, hx, false_and, if_false]
      exact ih h b

theorem seiOver_noSei (l : List (Nat × Nat)) (h : l.filter (fun x => x.1 = pSEI) = []) (b : Bool) : seiOver b l = b := by
  induction l generalizing b with
  | nil => rfl
  | cons x rest ih =>
    simp only [List.filter_cons] at h
    split at h
    · cases h
    · rename_i hx
      simp only [decide_eq_true_eq] at hx
      simp only [seiOver, List.foldl_cons, hx, if_false]
      exact ih h b

theorem find_noSei (l : List (Nat × Nat)) (h : l.filter (fun x => x.1 = pSEI) = []) :
    l.find? (fun x => x.1 = pSEI) = none := by
  rw [List.find?_eq_none]
  intro x hx hp
  have : x ∈ l.filter (fun x => x.1 = pSEI) := List.mem_filter.2 ⟨hx, hp⟩
  rw [h] at this; cases this

theorem seiSet_once (l : List (Nat × Nat)) (h : SeiOnce l) :
    seiSet false l = decide (((l.find? (fun x => x.1 = pSEI)).map (·.2)).getD 0 > 0) := by
  induction l with
  | nil => rfl
  | cons x rest ih =>
    unfold SeiOnce at h
    simp only [List.filter_cons] at h
    by_cases hx : x.1 = pSEI
    · simp only [hx, decide_true, if_true, List.length_cons] at h
      have hr : rest.filter (fun x => x.1 = pSEI) = [] := List.eq_nil_of_length_eq_zero (by omega)
      simp only [seiSet, List.foldl_cons, hx, true_and, List.find?_cons, decide_true, Option.map_some, Option.getD_some]
      have := seiSet_noSei rest hr (if x.2 ≠ 0 then true else false)
      simp only [seiSet] at this
      rw [this]
      by_cases hv : x.2 = 0
      · simp [hv]
      · simp [hv]; omega
    · simp only [hx, decide_false, Bool.false_eq_true, if_false] at h
      simp only [seiSet, List.foldl_cons, hx, false_and, if_false, List.find?_cons, decide_false]
      exact ih h

theorem seiOver_once (l : List (Nat × Nat)) (h : SeiOnce l) (b : Bool) :
    seiOver b l = (match (l.find? (fun x => x.1 = pSEI)).map (·.2) with | some v => decide (v > 0) | none => b) := by
  induction l generalizing b with
  | nil => rfl
  | cons x rest ih =>
    unfold SeiOnce at h
    simp only [List.filter_cons] at h
    by_cases hx : x.1 = pSEI
    · simp only [hx, decide_true, if_true, List.length_cons] at h
      have hr : rest.filter (fun x => x.1 = pSEI) = [] := List.eq_nil_of_length_eq_zero (by omega)
      simp only [seiOver, List.foldl_cons, hx, if_true, List.find?_cons, decide_true, Option.map_some]
      have := seiOver_noSei rest hr (decide (x.2 ≠ 0))
      simp only [seiOver] at this
      rw [this]
      by_cases hv : x.2 = 0
      · simp [hv]
      · simp [hv]; omega
    · simp only [hx, decide_false, Bool.false_eq_true, if_false] at h
      simp only [seiOver, List.foldl_cons, hx, if_false, List.find?_cons, decide_false]
      exact ih h b

theorem findProp_eq (p : Pkt) (id : Nat) : Mon.findProp p id = (p.props.find? (fun x => x.1 = id)).map (·.2) := rfl

/-! ## the property handlers -/

theorem K_connectSendProp (c : C) (id v : Nat) :
    K (connectSendProp c id v) = ((if id = pSEI ∧ v ≠ 0 then true else c.s.needStore), c.s.ver, relOf c.ev) := by
  unfold connectSendProp
  (repeat' split) <;> simp_all [K, pTAM, pRM, pMPS, pSEI]

theorem K_connectRecvProp (c : C) (id v : Nat) :
    K (connectRecvProp c id v) = ((if id = pSEI ∧ v ≠ 0 then true else c.s.needStore), c.s.ver, relOf c.ev) := by
  unfold connectRecvProp
  (repeat' split) <;> simp_all [K, pTAM, pRM, pMPS, pSEI]

theorem K_connackRecvProp (c : C) (id v : Nat) :
    K (connackRecvProp c id v) = ((if id = pSEI then decide (v ≠ 0) else c.s.needStore), c.s.ver, relOf c.ev) := by
  unfold connackRecvProp
  (repeat' (first | split | (simp only []; split))) <;>
    simp_all [K, pTAM, pRM, pMPS, pSKA, pSEI, C.push, C.setPanic, relOf_append, relOf, List.filter, rel, clearStoreRelated]

theorem K_fold_connectSendProp (l : List (Nat × Nat)) : ∀ c : C,
    K (propsFold connectSendProp c l) = (seiSet c.s.needStore l, c.s.ver, relOf c.ev) := by
  induction l with
  | nil => intro c; rfl
  | cons x rest ih =>
    intro c
    obtain ⟨i, v⟩ := x
    rw [propsFold, ih]
    have h := K_connectSendProp c i v
    simp only [K, Prod.mk.injEq] at h
    obtain ⟨h1, h2, h3⟩ := h
    rw [h1, h2, h3]
    simp [seiSet]

theorem K_fold_connectRecvProp (l : List (Nat × Nat)) : ∀ c : C,
    K (propsFold connectRecvProp c l) = (seiSet c.s.needStore l, c.s.ver, relOf c.ev) := by
  induction l with
  | nil => intro c; rfl
  | cons x rest ih =>
    intro c
    obtain ⟨i, v⟩ := x
    rw [propsFold, ih]
    have h := K_connectRecvProp c i v
    simp only [K, Prod.mk.injEq] at h
    obtain ⟨h1, h2, h3⟩ := h
    rw [h1, h2, h3]
    simp [seiSet]

theorem K_fold_connackRecvProp (l : List (Nat × Nat)) : ∀ c : C,
    K (propsFold connackRecvProp c l) = (seiOver c.s.needStore l, c.s.ver, relOf c.ev) := by
  induction l with
  | nil => intro c; rfl
  | cons x rest ih =>
    intro c
    obtain ⟨i, v⟩ := x
    rw [propsFold, ih]
    have h := K_connackRecvProp c i v
    simp only [K, Prod.mk.injEq] at h
    obtain ⟨h1, h2, h3⟩ := h
    rw [h1, h2, h3]
    simp [seiOver]

/-- `connackRecvProp` may clear the store, it never adds to it -/
theorem store_connackRecvProp (c : C) (id v : Nat) : ∀ x ∈ (connackRecvProp c id v).s.store, x ∈ c.s.store := by
  unfold connackRecvProp
  (repeat' (first | split | (simp only []; split))) <;> simp [clearStoreRelated, C.push, C.setPanic]

theorem store_fold_connackRecvProp (l : List (Nat × Nat)) : ∀ c : C,
    ∀ x ∈ (propsFold connackRecvProp c l).s.store, x ∈ c.s.store := by
  induction l with
  | nil => intro c x hx; exact hx
  | cons y rest ih =>
    intro c x hx
    obtain ⟨i, v⟩ := y
    rw [propsFold] at hx
    exact store_connackRecvProp c i v x (ih _ x hx)

theorem needStore_refresh (c : C) : (refreshPingreqRecv c).s.needStore = c.s.needStore :=
  congrArg (·.1) (K_refreshPingreqRecv c)
theorem needStore_foldRecv (c : C) (l : List (Nat × Nat)) :
    (propsFold connectRecvProp c l).s.needStore = seiSet c.s.needStore l := congrArg (·.1) (K_fold_connectRecvProp l c)
theorem ver_foldRecv (c : C) (l : List (Nat × Nat)) : (propsFold connectRecvProp c l).s.ver = c.s.ver :=
  congrArg (·.2.1) (K_fold_connectRecvProp l c)

/-! ## CONNECT: the flag is set to what the packet says -/

/-- the state's part of the outcome of a call -/
def Out (b0 : Bool) (c c' : C) : Prop := GK b0 (K c') ∧ c'.s.ver = c.s.ver

theorem out_of_K {b0 : Bool} {c c' : C} (g : GK b0 (K c)) (h : K c' = K c) : Out b0 c c' :=
  ⟨gk_congr h g, ver_of_K h⟩

theorem gk_connect_send {b0 : Bool} (c : C) (p : Pkt) (r : Option Nat) (hk : p.kind = .connect)
    (hn : c.s.needStore = connectNs p) : GK b0 (K (c.push (.send p r))) := by
  rw [K_push_rel _ _ (by simp [rel, hk])]
  simp only [GK, nsStep_append, nsEv, hk, if_true]
  exact hn

theorem gk_connect_recv {b0 : Bool} (c : C) (p : Pkt) (hk : p.kind = .connect)
    (hn : c.s.needStore = connectNs p) : GK b0 (K (c.push (.recv p))) := by
  rw [K_push_rel _ _ (by simp [rel, relRecv, hk])]
  simp only [GK, nsStep_append, nsEv, hk, if_true]
  exact hn

theorem g_psV3Connect {b0 : Bool} {c : C} (g : GK b0 (K c)) (p : Pkt) (hk : p.kind = .connect) (hv : p.ver = 4) :
    Out b0 c (psV3Connect c p) := by
  unfold psV3Connect
  split
  · exact out_of_K g (by simp)
  · simp only []
    refine ⟨?_, ?_⟩
    · rw [K_sendPostProcess]
      apply gk_connect_send _ _ _ hk
      cases hc : p.clean <;> simp [connectNs, hv, hc, clearStoreRelated, initConn]
    · rw [ver_of_K (K_sendPostProcess _)]
      cases hc : p.clean <;> simp [C.push, clearStoreRelated, initConn]

theorem g_psV5Connect {b0 : Bool} {c : C} (g : GK b0 (K c)) (p : Pkt) (hk : p.kind = .connect) (hv : p.ver ≠ 4)
    (hs : SeiOnce p.props) : Out b0 c (psV5Connect c p) := by
  unfold psV5Connect
  split
  · exact out_of_K g (by simp)
  split
  · exact out_of_K g (by simp)
  · simp only []
    have hf := fun c2 => K_fold_connectSendProp p.props c2
    refine ⟨?_, ?_⟩
    · rw [K_sendPostProcess]
      apply gk_connect_send _ _ _ hk
      have := congrArg (·.1) (hf (if p.clean = true then clearStoreRelated { (initConn c true) with s := { (initConn c true).s with status := .connecting, keepAliveMs := p.keepAlive * 1000 } } else { (initConn c true) with s := { (initConn c true).s with status := .connecting, keepAliveMs := p.keepAlive * 1000 } }))
      simp only [K] at this
      rw [this]
      have e : (if p.clean = true then clearStoreRelated { (initConn c true) with s := { (initConn c true).s with status := .connecting, keepAliveMs := p.keepAlive * 1000 } } else ({ (initConn c true) with s := { (initConn c true).s with status := .connecting, keepAliveMs := p.keepAlive * 1000 } } : C)).s.needStore = false := by
        split <;> rfl
      rw [e, seiSet_once _ hs]
      simp [connectNs, hv, findProp_eq]
    · rw [ver_of_K (K_sendPostProcess _)]
      show (propsFold connectSendProp _ p.props).s.ver = _
      have := congrArg (·.2.1) (hf (if p.clean = true then clearStoreRelated { (initConn c true) with s := { (initConn c true).s with status := .connecting, keepAliveMs := p.keepAlive * 1000 } } else { (initConn c true) with s := { (initConn c true).s with status := .connecting, keepAliveMs := p.keepAlive * 1000 } }))
      simp only [K] at this
      rw [this]
      split <;> rfl

theorem g_prV3Connect {b0 : Bool} {c : C} (g : GK b0 (K c)) (x : Except Nat Pkt)
    (hx : ∀ p, x = .ok p → p.kind = .connect ∧ p.ver = 4)
    (hl : ∀ x ∈ c.s.store, x.2.kind ≠ .connect) : Out b0 c (prV3Connect c x) := by
  unfold prV3Connect
  split
  · exact out_of_K g (by simp)
  · simp only []
    split
    · rename_i p
      obtain ⟨hk, hv⟩ := hx p rfl
      refine ⟨?_, ?_⟩
      · apply gk_connect_recv _ _ hk
        rw [show (refreshPingreqRecv _).s.needStore = _ from congrArg (·.1) (K_refreshPingreqRecv _)]
        cases hc : p.clean <;> simp [K, connectNs, hv, hc, clearStoreRelated, initConn, apply_ite C.s, apply_ite St.needStore]
      · show (refreshPingreqRecv _).s.ver = _
        rw [ver_of_K (K_refreshPingreqRecv _)]
        cases hc : p.clean <;> simp [clearStoreRelated, initConn, apply_ite C.s, apply_ite St.ver]
    · refine out_of_K g ?_
      rw [K_err]
      exact (K_psV3Connack _ _ (by simp) (by exact hl)).trans rfl

theorem g_prV5Connect {b0 : Bool} {c : C} (g : GK b0 (K c)) (x : Except Nat Pkt)
    (hx : ∀ p, x = .ok p → p.kind = .connect ∧ p.ver ≠ 4 ∧ SeiOnce p.props)
    (hl : ∀ x ∈ c.s.store, x.2.kind ≠ .connect) : Out b0 c (prV5Connect c x) := by
  unfold prV5Connect
  split
  · exact out_of_K g (by simp)
  · simp only []
    split
    · rename_i p
      obtain ⟨hk, hv, hs⟩ := hx p rfl
      have hf := fun c2 => K_fold_connectRecvProp p.props c2
      refine ⟨?_, ?_⟩
      · apply gk_connect_recv _ _ hk
        rw [needStore_refresh, needStore_foldRecv]
        have e : ∀ c2 : C, c2.s.needStore = false → seiSet c2.s.needStore p.props = connectNs p := by
          intro c2 h2
          rw [h2, seiSet_once _ hs]
          simp [connectNs, hv, findProp_eq]
        apply e
        cases hc : p.clean <;> simp [clearStoreRelated, initConn, apply_ite C.s, apply_ite St.needStore]
      · show (refreshPingreqRecv _).s.ver = _
        rw [ver_of_K (K_refreshPingreqRecv _), ver_foldRecv]
        cases hc : p.clean <;> simp [clearStoreRelated, initConn, apply_ite C.s, apply_ite St.ver]
    · refine out_of_K g ?_
      rw [K_err]
      exact (K_psV5Connack _ _ (by simp) (by exact hl)).trans rfl

/-! ## the v5.0 CONNACK: a Session Expiry Interval overrides the flag -/

theorem g_prV5Connack {b0 : Bool} {c : C} (g : GK b0 (K c)) (x : Except Nat Pkt)
    (hx : ∀ p, x = .ok p → p.kind = .connack ∧ p.ver = 5 ∧ SeiOnce p.props)
    (hl : ∀ x ∈ c.s.store, x.2.kind ≠ .connect) : Out b0 c (prV5Connack c x) := by
  unfold prV5Connack
  split
  · exact out_of_K g (by simp)
  · split
    · rename_i p
      obtain ⟨hk, hv, hs⟩ := hx p rfl
      by_cases hrc : p.rc = some 0
      · simp only [hrc, if_true]
        have hf := K_fold_connackRecvProp p.props { c with s := { c.s with status := .connected } }
        have hst := store_fold_connackRecvProp p.props { c with s := { c.s with status := .connected } }
        generalize propsFold connackRecvProp { c with s := { c.s with status := .connected } } p.props = c1 at hf hst
        have hl1 : ∀ x ∈ c1.s.store, x.2.kind ≠ .connect := fun x hx => hl x (hst x hx)
        have h2 : K (if p.sp = true then resendStored c1 else clearStoreRelated c1) = K c1 := by
          split
          · exact K_resendStored c1 hl1
          · rfl
        generalize (if p.sp = true then resendStored c1 else clearStoreRelated c1) = c2 at h2
        rw [hf] at h2
        simp only [K, Prod.mk.injEq] at h2
        obtain ⟨e1, e2, e3⟩ := h2
        refine ⟨?_, e2⟩
        rw [K_push_rel _ _ (by simp [rel, relRecv, hk, hrc, hv])]
        simp only [GK, nsStep_append, e1, e3]
        have hne : p.kind ≠ .connect := by simp [hk]
        simp only [nsEv, hne, if_false, hk, hrc, hv, and_self, if_true]
        rw [seiOver_once _ hs, findProp_eq]
        have g' : c.s.needStore = nsStep b0 (relOf c.ev) := g
        rw [← g']
        simp
        generalize Option.map (fun x => x.snd) (List.find? (fun x => decide (x.fst = pSEI)) p.props) = o
        cases o <;> rfl
      · simp only [hrc, if_false]
        exact out_of_K g (by rw [K_push_recv _ _ (by simp [relRecv, hk, hrc])])
    · first | exact out_of_K g (by simp) | (split <;> exact out_of_K g (by simp))

/-! ## `send` -/

theorem g_send {b0 : Bool} {c : C} (g : GK b0 (K c)) (p : Pkt) (hs : p.kind = .connect → SeiOnce p.props)
    (hl : ∀ x ∈ c.s.store, x.2.kind ≠ .connect) : Out b0 c (send c p) := by
  unfold send
  split
  · exact out_of_K g (by simp)
  split
  · exact out_of_K g (by simp)
  · by_cases hk : p.kind = .connect
    · unfold processSend
      split
      · rename_i hv
        simp only [hk]
        exact g_psV3Connect g p hk hv
      · rename_i hv
        simp only [hk]
        exact g_psV5Connect g p hk hv (hs hk)
    · exact out_of_K g (K_processSend_other c p hk hl)

/-! ## `recv` -/

/-- what the ghost needs of the parser of a `recv`: a successful result has the packet type of the
    frame it was parsed from; a CONNECT / CONNACK has the version it was parsed for and at most one
    Session Expiry Interval property -/
def ParsePF (parse : Nat → Nat → List Nat → Except Nat Pkt) : Prop :=
  ∀ v fh d p, parse v fh d = .ok p →
    p.kind.nibble = fh / 16 ∧ ((p.kind = .connect ∨ p.kind = .connack) → p.ver = v ∧ SeiOnce p.props)

theorem kind_of_nibble {k : Kind} {t : Nat} (h : k.nibble = t) :
    (t = 1 → k = .connect) ∧ (t = 2 → k = .connack) ∧ (t = 3 → k = .publish) ∧
    (t ≠ 1 → k ≠ .connect) ∧ (t ≠ 2 → k ≠ .connack) := by
  cases k <;> simp [Kind.nibble] at h <;> subst h <;> simp

theorem g_dispatchRecv {b0 : Bool} {c : C} (g : GK b0 (K c)) (t : Nat) (x : Except Nat Pkt)
    (hx : ∀ p, x = .ok p → p.kind.nibble = t ∧ ((p.kind = .connect ∨ p.kind = .connack) → p.ver = c.s.ver ∧ SeiOnce p.props))
    (hver : c.s.ver = 4 ∨ c.s.ver = 5)
    (hl : ∀ x ∈ c.s.store, x.2.kind ≠ .connect) : Out b0 c (dispatchRecv c t x) := by
  have hk : ∀ p, x = .ok p → t ≠ 1 → t ≠ 2 → relRecv p = false := fun p hp h1 h2 => by
    have := kind_of_nibble (hx p hp).1
    simp [relRecv, this.2.2.2.1 h1, this.2.2.2.2 h2]
  unfold dispatchRecv
  split
  · split
    · rename_i hv
      exact g_prV3Connect g x (fun p hp => by
        have hc := (kind_of_nibble (hx p hp).1).1 rfl
        exact ⟨hc, by rw [((hx p hp).2 (.inl hc)).1, hv]⟩) hl
    · rename_i hv
      exact g_prV5Connect g x (fun p hp => by
        have hc := (kind_of_nibble (hx p hp).1).1 rfl
        exact ⟨hc, by rw [((hx p hp).2 (.inl hc)).1]; exact hv, ((hx p hp).2 (.inl hc)).2⟩) hl
  · split
    · rename_i hv
      exact out_of_K g (K_prV3Connack c x (fun p hp => by
        have hc := (kind_of_nibble (hx p hp).1).2.1 rfl
        have := ((hx p hp).2 (.inr hc)).1
        simp [relRecv, hc, this, hv]) hl)
    · rename_i hv
      have h5 : c.s.ver = 5 := by omega
      exact g_prV5Connack g x (fun p hp => by
        have hc := (kind_of_nibble (hx p hp).1).2.1 rfl
        exact ⟨hc, by rw [((hx p hp).2 (.inr hc)).1, h5], ((hx p hp).2 (.inr hc)).2⟩) hl
  · split
    · exact out_of_K g (K_prV3Publish c x (fun p hp => hk p hp (by decide) (by decide)))
    · exact out_of_K g (K_prV5Publish c x (fun p hp => (kind_of_nibble (hx p hp).1).2.2.1 rfl))
  · exact out_of_K g (K_prPuback c x (fun p hp => hk p hp (by decide) (by decide)))
  · exact out_of_K g (K_prPubrec c x (fun p hp => hk p hp (by decide) (by decide)))
  · exact out_of_K g (K_prPubrel c x (fun p hp => hk p hp (by decide) (by decide)))
  · exact out_of_K g (K_prPubcomp c x (fun p hp => hk p hp (by decide) (by decide)))
  · exact out_of_K g (K_prPlain c x (fun p hp => hk p hp (by decide) (by decide)))
  · exact out_of_K g (K_prSubUnsuback c true x (fun p hp => hk p hp (by decide) (by decide)))
  · exact out_of_K g (K_prPlain c x (fun p hp => hk p hp (by decide) (by decide)))
  · exact out_of_K g (K_prSubUnsuback c false x (fun p hp => hk p hp (by decide) (by decide)))
  · exact out_of_K g (K_prPingreq c x (fun p hp => hk p hp (by decide) (by decide)))
  · exact out_of_K g (K_prPingresp c x (fun p hp => hk p hp (by decide) (by decide)))
  · exact out_of_K g (K_prDisconnect c x (fun p hp => hk p hp (by decide) (by decide)))
  · split
    · exact out_of_K g (K_prPlain c x (fun p hp => hk p hp (by decide) (by decide)))
    · exact out_of_K g (by simp)
  · exact out_of_K g (by simp)

/-- the version is one of 0 (undetermined), 4, 5 -/
def VerOk (v : Nat) : Prop := v = 0 ∨ v = 4 ∨ v = 5

theorem g_processRecvPacket {b0 : Bool} {c : C} (g : GK b0 (K c)) (fh : Nat) (data : List Nat)
    (parse : Nat → Except Nat Pkt)
    (hx : ∀ v p, parse v = .ok p → p.kind.nibble = fh / 16 ∧ ((p.kind = .connect ∨ p.kind = .connack) → p.ver = v ∧ SeiOnce p.props))
    (hver : VerOk c.s.ver)
    (hl : ∀ x ∈ c.s.store, x.2.kind ≠ .connect) :
    GK b0 (K (processRecvPacket c fh data parse)) ∧ VerOk (processRecvPacket c fh data parse).s.ver := by
  have same : ∀ c' : C, K c' = K c → GK b0 (K c') ∧ VerOk c'.s.ver := fun c' h =>
    ⟨gk_congr h g, by rw [ver_of_K h]; exact hver⟩
  unfold processRecvPacket
  split
  · exact same _ (by rw [K_err, K_v5DisconnectOrClose _ _ (by simp)])
  · simp only []
    split
    · exact same _ (by simp)
    split
    · split
      · split
        · exact same _ (by simp)
        · split
          · have o := g_prV3Connect (b0 := b0) (c := { c with s := { c.s with ver := 4 } }) g (parse 4)
              (fun p hp => by
                rename_i h1 _ _
                have hc := (kind_of_nibble (hx 4 p hp).1).1 h1
                exact ⟨hc, ((hx 4 p hp).2 (.inl hc)).1⟩) hl
            exact ⟨o.1, by rw [o.2]; exact .inr (.inl rfl)⟩
          split
          · have o := g_prV5Connect (b0 := b0) (c := { c with s := { c.s with ver := 5 } }) g (parse 5)
              (fun p hp => by
                rename_i h1 _ _ _
                have hc := (kind_of_nibble (hx 5 p hp).1).1 h1
                exact ⟨hc, by rw [((hx 5 p hp).2 (.inl hc)).1]; decide, ((hx 5 p hp).2 (.inl hc)).2⟩) hl
            exact ⟨o.1, by rw [o.2]; exact .inr (.inr rfl)⟩
          · exact same _ (by simp)
      · exact same _ (by simp)
    · rename_i h0
      have hv : c.s.ver = 4 ∨ c.s.ver = 5 := by
        rcases hver with e | e | e
        · exact absurd e h0
        · exact .inl e
        · exact .inr e
      have o := g_dispatchRecv g (fh / 16) (parse c.s.ver) (fun p hp => hx _ p hp) hv hl
      exact ⟨o.1, by rw [o.2]; exact hver⟩

theorem g_recv {b0 : Bool} {c : C} (g : GK b0 (K c)) (inp : List Nat)
    (parse : Nat → Nat → List Nat → Except Nat Pkt) (hp : ParsePF parse) (hver : VerOk c.s.ver)
    (hl : ∀ x ∈ c.s.store, x.2.kind ≠ .connect) :
    GK b0 (K (recv c inp parse).1) ∧ VerOk (recv c inp parse).1.s.ver := by
  unfold recv
  obtain ⟨pb, out, rest⟩ := Framing.feed c.s.pb inp
  simp only []
  cases out with
  | none => exact ⟨g, hver⟩
  | some o =>
    cases o with
    | complete fh data =>
      exact g_processRecvPacket (c := { c with s := { c.s with pb := pb } }) g fh data _
        (fun v p h => hp v fh data p h) hver hl
    | error =>
      dsimp only
      have hk : K (((cancelTimers ({ c with s := { c.s with pb := pb } } : C)).push .close).err eMalformed) = K c := by
        simp [K_mk, K_eta]
      exact ⟨gk_congr hk g, by rw [ver_of_K hk]; exact hver⟩

end MqttVerif.Conn.PF
