import MqttVerif.Conn.Lemmas.Close
/-!
# C19 helper lemmas, receive side and the remaining calls
-/
namespace MqttVerif.Conn
open MqttVerif

section
variable {P : Ev → Prop}

theorem mem_store_clear {x} {c : C} : x ∈ (clearStoreRelated c).s.store → x ∈ c.s.store := by
  simp [clearStoreRelated]

theorem connackRecvProp_store_sub (c : C) (id v) : ∀ x ∈ (connackRecvProp c id v).s.store, x ∈ c.s.store := by
  unfold connackRecvProp
  (repeat' split) <;> simp [clearStoreRelated, C.setPanic, apply_ite C.s, apply_ite St.store]

theorem propsFold_store_sub {f : C → Nat → Nat → C} (hf : ∀ c id v, ∀ x ∈ (f c id v).s.store, x ∈ c.s.store)
    (c : C) (l) : ∀ x ∈ (propsFold f c l).s.store, x ∈ c.s.store := by
  induction l generalizing c with
  | nil => exact fun _ h => h
  | cons y rest ih => exact fun x hx => hf _ _ _ x (ih _ x hx)

theorem prV3Connect_PF (hP : CP P) (c : C) (parsed) (hst : ∀ x ∈ c.s.store, P (.send x.2 none))
    (h : EvAll P c.ev) : PF P (prV3Connect c parsed).ev := by
  unfold prV3Connect
  split
  · exact .inr (handleV3Error_F hP c _ h)
  · simp only []
    split
    · rename_i p
      refine .inl ?_
      by_cases h1 : p.keepAlive > 0 <;> by_cases h2 : p.clean = true <;>
        simp [h1, h2, h, hP.lax.rcv, refreshPingreqRecv_all hP.lax]
    · exact PF_err hP (psV3Connack_PF hP _ (mkV3Connack _) rfl (by simpa using hst) (by simpa using h)) _

theorem prV5Connect_PF (hP : CP P) (c : C) (parsed) (hst : ∀ x ∈ c.s.store, P (.send x.2 none))
    (h : EvAll P c.ev) : PF P (prV5Connect c parsed).ev := by
  unfold prV5Connect
  split
  · exact handleV5Error_PF hP c _ h
  · simp only []
    split
    · rename_i p
      refine .inl ?_
      have hf : ∀ c id v, EvAll P c.ev → EvAll P (connectRecvProp c id v).ev := fun c id v h => by simpa using h
      by_cases h1 : p.keepAlive > 0 <;> by_cases h2 : p.clean = true <;>
        simp [h1, h2, h, hP.lax.rcv, refreshPingreqRecv_all hP.lax, propsFold_all hf]
    · exact PF_err hP (psV5Connack_PF hP _ (mkV5Connack _) rfl (by simpa using hst) (by simpa using h)) _

theorem prV3Connack_PF (hP : CP P) (c : C) (parsed) (hst : ∀ x ∈ c.s.store, P (.send x.2 none))
    (h : EvAll P c.ev) : PF P (prV3Connack c parsed).ev := by
  unfold prV3Connack
  split
  · exact .inr (handleV3Error_F hP c _ h)
  · split
    · rename_i p
      refine .inl ?_
      by_cases h1 : p.rc = some 0 <;> by_cases h2 : p.sp = true <;> simp [h1, h2, h, hP.lax.rcv]
      exact resendStored_all hP.lax _ h (fun x hx _ => hst x hx)
    · exact .inr (handleV3Error_F hP c _ h)

theorem prV5Connack_PF (hP : CP P) (c : C) (parsed) (hst : ∀ x ∈ c.s.store, P (.send x.2 none))
    (h : EvAll P c.ev) : PF P (prV5Connack c parsed).ev := by
  unfold prV5Connack
  split
  · exact handleV5Error_PF hP c _ h
  · split
    · rename_i p
      refine .inl ?_
      have hf := propsFold_all (connackRecvProp_all hP.lax)
      by_cases h1 : p.rc = some 0 <;> by_cases h2 : p.sp = true <;> simp [h1, h2, h, hP.lax.rcv, hf]
      refine resendStored_all hP.lax _ (hf _ _ h) (fun x hx _ => hst x ?_)
      have := propsFold_store_sub connackRecvProp_store_sub _ _ x hx
      exact this
    · exact .inl (by simp [h, hP.lax.er])


theorem CP.ack (hP : CP P) (cfg v k id) (h1 : k ≠ .disconnect) (h2 : k ≠ .connack) :
    P (.send (mkAck cfg v k id) none) := hP.sendOk (by simpa [mkAck] using h1) (by simpa [mkAck] using h2) _

theorem prV3Publish_PF (hP : CP P) (c : C) (parsed) (h : EvAll P c.ev) : PF P (prV3Publish c parsed).ev := by
  unfold prV3Publish
  split
  · exact .inr (handleV3Error_F hP c _ h)
  · rename_i p
    refine .inl ?_
    have hA := hP.ack
    cases hpid : p.pid <;> by_cases q0 : p.qos = 0 <;> by_cases q1 : p.qos = 1 <;>
      simp (maxDischargeDepth := 8) [hpid, q0, q1, h, hA, hP.lax.rcv, refreshPingreqRecv_all hP.lax,
        psV3Simple_all hP.lax]

theorem prV5PublishAlias_PF (hP : CP P) (c : C) (p : Pkt) (h : EvAll P c.ev) :
    PF P (prV5PublishAlias c p).1.ev ∧
      ((prV5PublishAlias c p).2.isSome = true → EvAll P (prV5PublishAlias c p).1.ev) := by
  have h5 := fun e => handleV5Error_PF hP c e h
  unfold prV5PublishAlias
  (repeat' split) <;> (try simp only []) <;> (repeat' split) <;> simp [h5, h, PF.of]

theorem prV5Publish_PF (hP : CP P) (c : C) (parsed) (h : EvAll P c.ev) : PF P (prV5Publish c parsed).ev := by
  unfold prV5Publish
  split
  · split
    · exact handleV5Error_PF hP c _ h
    · exact .inl (by simp [h, hP.lax.er])
  · rename_i p
    have hr := prV5PublishAlias_PF hP c p h
    extract_lets r c1 rm id already s1 c2 s2 c3 pubackSend pubrecSend c4 c5 c6
    split
    · exact hr.1
    · rename_i p' hp'
      have hc : EvAll P c1.ev := hr.2 (by simp [r] at hp'; simp [hp'])
      split
      · exact .inl (by simpa using hc)
      · split
        · exact handleV5Error_PF hP c1 _ hc
        · refine .inl ?_
          have hA := hP.ack
          have h2 : EvAll P c2.ev := by simp only [c2]; split <;> simpa using hc
          have h3 : EvAll P c3.ev := by simp only [c3]; split <;> simpa using h2
          have h4 : EvAll P c4.ev := by
            simp only [c4]; split
            · exact psV5Puback_all hP.lax _ _ (fun _ => hA _ _ _ _ (by simp) (by simp))
                (by split <;> simpa using h3)
            · exact h3
          have h5 : EvAll P c5.ev := by
            simp only [c5]; split
            · exact psV5Pubrec_all hP.lax _ _ (fun _ => hA _ _ _ _ (by simp) (by simp))
                (by split <;> simpa using h4)
            · exact h4
          have h6 : EvAll P c6.ev := refreshPingreqRecv_all hP.lax _ h5
          split
          · simp [h6, hP.lax.rcv]
          · exact h6


theorem prPuback_PF (hP : CP P) (c : C) (parsed) (h : EvAll P c.ev) : PF P (prPuback c parsed).ev := by
  unfold prPuback
  split
  · exact vErr_PF hP c _ h
  · rename_i p
    simp only []
    split
    · refine .inl ?_
      by_cases h5 : p.ver = 5 <;>
        simp (maxDischargeDepth := 8) [h5, h, hP.lax.rcv, refreshPingreqRecv_all hP.lax, releaseIfUsed_all hP.lax]
    · exact vErr_PF hP c _ h

theorem prPubcomp_PF (hP : CP P) (c : C) (parsed) (h : EvAll P c.ev) : PF P (prPubcomp c parsed).ev := by
  unfold prPubcomp
  split
  · exact vErr_PF hP c _ h
  · rename_i p
    simp only []
    split
    · refine .inl ?_
      by_cases h5 : p.ver = 5 <;>
        simp (maxDischargeDepth := 8) [h5, h, hP.lax.rcv, refreshPingreqRecv_all hP.lax, releaseIfUsed_all hP.lax]
    · exact vErr_PF hP c _ h

theorem prPubrec_PF (hP : CP P) (c : C) (parsed) (h : EvAll P c.ev) : PF P (prPubrec c parsed).ev := by
  unfold prPubrec
  split
  · exact vErr_PF hP c _ h
  · rename_i p
    simp only []
    split
    · refine .inl ?_
      have hA := hP.ack
      have hrel : ∀ (c' : C) (q : Pkt), q.kind = .pubrel → EvAll P c'.ev → EvAll P (psPubrel c' q).ev :=
        fun c' q hk h' => psPubrel_all hP.lax c' q (fun _ => hP.sendOk (by simp [hk]) (by simp [hk]) _) h'
      by_cases hs : (p.ver = 4 ∨ p.rc = none ∨ p.rc = some 0) <;>
        simp (maxDischargeDepth := 8) [hs, h, hP.lax.rcv, refreshPingreqRecv_all hP.lax, releaseIfUsed_all hP.lax,
          hrel, mkAck]
    · exact vErr_PF hP c _ h

theorem prPubrel_PF (hP : CP P) (c : C) (parsed) (h : EvAll P c.ev) : PF P (prPubrel c parsed).ev := by
  unfold prPubrel
  split
  · exact vErr_PF hP c _ h
  · rename_i p
    refine .inl ?_
    have h3 : ∀ (c' : C) (q : Pkt), q.kind = .pubcomp → EvAll P c'.ev → EvAll P (psV3Simple c' q).ev :=
      fun c' q hk h' => psV3Simple_all hP.lax c' q (hP.sendOk (by simp [hk]) (by simp [hk]) _) h'
    have h5 : ∀ (c' : C) (q : Pkt), q.kind = .pubcomp → EvAll P c'.ev → EvAll P (psV5Pubcomp c' q).ev :=
      fun c' q hk h' => psV5Pubcomp_all hP.lax c' q (fun _ => hP.sendOk (by simp [hk]) (by simp [hk]) _) h'
    simp (maxDischargeDepth := 8) [h, hP.lax.rcv, refreshPingreqRecv_all hP.lax, h3, h5, mkAck, mkV5PubcompRc]

theorem prPlain_PF (hP : CP P) (c : C) (parsed) (h : EvAll P c.ev) : PF P (prPlain c parsed).ev := by
  unfold prPlain
  split
  · exact vErr_PF hP c _ h
  · exact .inl (by simp [h, hP.lax.rcv, refreshPingreqRecv_all hP.lax])

theorem prSubUnsuback_PF (hP : CP P) (c : C) (b parsed) (h : EvAll P c.ev) :
    PF P (prSubUnsuback c b parsed).ev := by
  cases parsed with
  | error e => exact vErr_PF hP c e h
  | ok p =>
    cases b <;> simp only [prSubUnsuback, Bool.false_eq_true, if_false, if_true] <;> split
    · exact .inl (by simp (maxDischargeDepth := 8) [h, hP.lax.rcv, refreshPingreqRecv_all hP.lax, releaseIfUsed_all hP.lax])
    · exact vErr_PF hP c _ h
    · exact .inl (by simp (maxDischargeDepth := 8) [h, hP.lax.rcv, refreshPingreqRecv_all hP.lax, releaseIfUsed_all hP.lax])
    · exact vErr_PF hP c _ h

theorem prPingreq_PF (hP : CP P) (c : C) (parsed) (h : EvAll P c.ev) : PF P (prPingreq c parsed).ev := by
  unfold prPingreq
  split
  · exact vErr_PF hP c _ h
  · rename_i p
    refine .inl ?_
    have h3 : ∀ (c' : C) (q : Pkt), q.kind = .pingresp → EvAll P c'.ev → EvAll P (psV3Simple c' q).ev :=
      fun c' q hk h' => psV3Simple_all hP.lax c' q (hP.sendOk (by simp [hk]) (by simp [hk]) _) h'
    have h5 : ∀ (c' : C) (q : Pkt), q.kind = .pingresp → EvAll P c'.ev → EvAll P (psV5Simple c' q).ev :=
      fun c' q hk h' => psV5Simple_all hP.lax c' q (fun _ => hP.sendOk (by simp [hk]) (by simp [hk]) _) h'
    simp (maxDischargeDepth := 8) [h, hP.lax.rcv, refreshPingreqRecv_all hP.lax, h3, h5, mkPingresp]

theorem prPingresp_PF (hP : CP P) (c : C) (parsed) (h : EvAll P c.ev) : PF P (prPingresp c parsed).ev := by
  unfold prPingresp
  split
  · exact vErr_PF hP c _ h
  · exact .inl (by simp [h, hP.lax.rcv, hP.lax.tc])

theorem prDisconnect_PF (hP : CP P) (c : C) (parsed) (h : EvAll P c.ev) : PF P (prDisconnect c parsed).ev := by
  unfold prDisconnect
  split
  · exact vErr_PF hP c _ h
  · exact .inl (by simp [h, hP.lax.rcv, cancelTimers_all hP.lax])

theorem dispatchRecv_PF (hP : CP P) (c : C) (t parsed) (hst : ∀ x ∈ c.s.store, P (.send x.2 none))
    (h : EvAll P c.ev) : PF P (dispatchRecv c t parsed).ev := by
  unfold dispatchRecv
  split
  · split
    · exact prV3Connect_PF hP c _ hst h
    · exact prV5Connect_PF hP c _ hst h
  · split
    · exact prV3Connack_PF hP c _ hst h
    · exact prV5Connack_PF hP c _ hst h
  · split
    · exact prV3Publish_PF hP c _ h
    · exact prV5Publish_PF hP c _ h
  · exact prPuback_PF hP c _ h
  · exact prPubrec_PF hP c _ h
  · exact prPubrel_PF hP c _ h
  · exact prPubcomp_PF hP c _ h
  · exact prPlain_PF hP c _ h
  · exact prSubUnsuback_PF hP c _ _ h
  · exact prPlain_PF hP c _ h
  · exact prSubUnsuback_PF hP c _ _ h
  · exact prPingreq_PF hP c _ h
  · exact prPingresp_PF hP c _ h
  · exact prDisconnect_PF hP c _ h
  · split
    · exact prPlain_PF hP c _ h
    · exact PF_err hP (.inl h) _
  · exact PF_err hP (.inl h) _

theorem processRecvPacket_PF (hP : CP P) (c : C) (fh data parse) (hst : ∀ x ∈ c.s.store, P (.send x.2 none))
    (h : EvAll P c.ev) : PF P (processRecvPacket c fh data parse).ev := by
  unfold processRecvPacket
  split
  · exact PF_err hP (v5DisconnectOrClose_PF hP c _ h) _
  · simp only []
    split
    · exact PF_err hP (.inl h) _
    · split
      · split
        · split
          · exact PF_err hP (.inl h) _
          · split
            · exact prV3Connect_PF hP _ _ hst h
            · split
              · exact prV5Connect_PF hP _ _ hst h
              · exact PF_err hP (.inl h) _
        · exact PF_err hP (.inl h) _
      · exact dispatchRecv_PF hP c _ _ hst h

theorem recv_PF (hP : CP P) (c : C) (inp parse) (hst : ∀ x ∈ c.s.store, P (.send x.2 none))
    (h : EvAll P c.ev) : PF P (recv c inp parse).1.ev := by
  unfold recv
  split
  rename_i pb out rest _
  simp only []
  split
  · exact .inl h
  · exact processRecvPacket_PF hP _ _ _ _ hst h
  · refine .inr (F_err (closeTail_F hP _ ?_) _)
    exact hP.toNC h

theorem notifyTimerFired_PF (hP : CP P) (c : C) (k) (h : EvAll P c.ev) : PF P (notifyTimerFired c k).ev := by
  have hping : ∀ (c' : C) (q : Pkt), q.kind = .pingreq → EvAll P c'.ev → EvAll P (psPingreq c' q).ev :=
    fun c' q hk h' => psPingreq_all hP.lax c' q (fun _ => hP.sendOk (by simp [hk]) (by simp [hk]) _) h'
  cases k
  · refine .inl ?_
    simp (maxDischargeDepth := 8) [notifyTimerFired, h, hping, mkPingreq]
  all_goals
    by_cases h4 : c.s.ver = 4 <;> by_cases h5 : c.s.ver = 5 <;> by_cases hc : c.s.status = .connected <;>
      simp only [notifyTimerFired, h4, h5, hc, if_true, if_false, reduceCtorEq] <;>
      first
        | exact .inr (F_of_NC_close (hP.toNC h))
        | exact v5DisconnectOrClose_PF hP _ _ h
        | exact .inl h

/-- C19, third clause: on an established connection a keep-alive timeout always requests a close -/
theorem notifyTimerFired_keepalive_F (hP : CP P) (c : C) (k) (hk : k = .pingreqRecv ∨ k = .pingrespRecv)
    (hc : c.s.status = .connected) (hv : c.s.ver = 4 ∨ c.s.ver = 5) (h : EvAll P c.ev) :
    F (notifyTimerFired c k).ev := by
  rcases hk with rfl | rfl <;> rcases hv with hv | hv
  all_goals
    simp only [notifyTimerFired, hv, if_true, if_false, reduceCtorEq]
    first
      | exact F_of_NC_close (hP.toNC h)
      | (rw [if_pos (by exact hc)]; exact v5DisconnectOrClose_F hP _ _ h hc)
      | (simp only [show (5 : Nat) = 4 ↔ False by decide, if_false]
         rw [if_pos (by exact hc)]; exact v5DisconnectOrClose_F hP _ _ h hc)

theorem notifyClosed_all (hP : Lax P) (c : C) (h : EvAll P c.ev) : EvAll P (notifyClosed c).ev := by
  unfold notifyClosed
  by_cases hn : c.s.needStore = true <;>
    simp (maxDischargeDepth := 8) [hn, h, cancelTimers_all hP, releaseAll_all hP]

theorem setPingreqSendInterval_all (hP : Lax P) (c : C) (d) (h : EvAll P c.ev) :
    EvAll P (setPingreqSendInterval c d).ev := by
  unfold setPingreqSendInterval
  cases d <;> simp [h, hP.tc, hP.tr]

theorem eraseStoredPublish_all (hP : Lax P) (c : C) (id) (h : EvAll P c.ev) :
    EvAll P (eraseStoredPublish c id).ev := by
  unfold eraseStoredPublish
  simp (maxDischargeDepth := 8) [h, releaseIfUsed_all hP]

@[simp] theorem restoreOne_ev (c : C) (p) : (restoreOne c p).ev = c.ev := by
  unfold restoreOne register
  (repeat' split) <;> simp [apply_ite C.ev]

@[simp] theorem restorePackets_ev (c : C) (l) : (restorePackets c l).ev = c.ev := by
  induction l generalizing c with
  | nil => rfl
  | cons x rest ih => simp [restorePackets, ih]

theorem step_PF (hP : CP P) (cfg : Cfg) (s : St) (op : Op) (hst : ∀ x ∈ s.store, P (.send x.2 none)) :
    PF P (step cfg s op).ev := by
  have h0 : EvAll P ({ cfg := cfg, s := s } : C).ev := EvAll_nil P
  cases op <;> simp only [step]
  · exact send_PF hP _ _ hst h0
  · exact recv_PF hP _ _ _ hst h0
  · exact notifyTimerFired_PF hP _ _ h0
  · exact .inl (notifyClosed_all hP.lax _ h0)
  · exact .inl (setPingreqSendInterval_all hP.lax _ _ h0)
  · exact .inl h0
  · exact .inl h0
  · exact .inl h0
  · exact .inl h0
  · exact .inl (by rw [releasePacketId_ev']; exact releaseIfUsed_all hP.lax _ _ h0)
  · exact .inl (eraseStoredPublish_all hP.lax _ _ h0)
  · exact .inl h0
  · exact .inl (by simp)

end
end MqttVerif.Conn
