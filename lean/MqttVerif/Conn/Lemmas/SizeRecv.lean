import MqttVerif.Conn.Lemmas.Size
/-!
# C14 helper lemmas, receive side: automatic responses and stored retransmissions fit the limit
-/
namespace MqttVerif.Conn
open MqttVerif

section
variable {B : Prop} {L pw : Nat}

theorem handleV5Error_W (c : C) (e) (cx : Cx c L pw) (h : EvAll (W B L pw) c.ev) :
    EvAll (W B L pw) (handleV5Error c e).ev :=
  handleV5Error_all W_lax W_close c e (fun _ _ hz => W_size cx hz _) h

theorem vErr_W (c : C) (e) (cx : Cx c L pw) (h : EvAll (W B L pw) c.ev) :
    EvAll (W B L pw) (vErr c e).ev := by
  unfold vErr
  split
  · exact handleV3Error_all W_lax W_close c e h
  · exact handleV5Error_W c e cx h

theorem prV3Connect_W (c : C) (parsed) (cx : Cx c L pw) (hB : B) (h : EvAll (W B L pw) c.ev) :
    EvAll (W B L pw) (prV3Connect c parsed).ev := by
  have hP : Lax (W B L pw) := W_lax
  unfold prV3Connect
  split
  · exact handleV3Error_all hP W_close c _ h
  · simp only []
    split
    · rename_i p
      by_cases h1 : p.keepAlive > 0 <;> by_cases h2 : p.clean = true <;>
        simp [h1, h2, h, hP.rcv, refreshPingreqRecv_all hP]
    · have cx' : Cx { c with s := { c.s with status := .connecting } } L pw := ⟨cx.hL, cx.hpw⟩
      simp only [err_ev, EvAll_append, EvAll_single, hP.er, and_true]
      exact psV3Connack_all hP W_close _ _ (W_v3 (by simp [mkV3Connack]) hB _) (W_store cx') h

theorem prV5Connect_err_W (c : C) (e : Nat) (cx : Cx c L pw) (h : EvAll (W B L pw) c.ev) :
    EvAll (W B L pw) ((psV5Connack c (mkV5Connack (v5ConnectErrRc e))).err e).ev := by
  simp only [err_ev, EvAll_append, EvAll_single, W_lax.er, and_true]
  exact psV5Connack_all W_lax W_close _ _ (fun hz => W_size cx hz _) (W_store cx) h

/-- a received CONNECT that is accepted: no packet is sent, whatever the new limit is -/
theorem prV5Connect_ok_all {P : Ev → Prop} (hP : Lax P) (c : C) (p : Pkt) (hd : c.s.status = .disconnected)
    (h : EvAll P c.ev) : EvAll P (prV5Connect c (.ok p)).ev := by
  have hf : ∀ c id v, EvAll P c.ev → EvAll P (connectRecvProp c id v).ev := fun c id v h => by simpa using h
  by_cases h1 : p.keepAlive > 0 <;> by_cases h2 : p.clean = true <;>
    simp [prV5Connect, hd, h1, h2, h, hP.rcv, refreshPingreqRecv_all hP, propsFold_all hf]

theorem prV5Connect_other_fr (c : C) (parsed)
    (hn : ¬ (c.s.status = .disconnected ∧ ∃ p, parsed = .ok p)) : Fr c (prV5Connect c parsed) := by
  unfold prV5Connect
  split
  · exact handleV5Error_fr c _
  · rename_i hd
    simp only [ne_eq, Decidable.not_not] at hd
    cases parsed with
    | ok p => exact absurd ⟨hd, p, rfl⟩ hn
    | error e => simp [Fr]

theorem prV5Connect_other_W (c : C) (parsed) (cx : Cx c L pw)
    (hn : ¬ (c.s.status = .disconnected ∧ ∃ p, parsed = .ok p)) (h : EvAll (W B L pw) c.ev) :
    EvAll (W B L pw) (prV5Connect c parsed).ev := by
  unfold prV5Connect
  split
  · exact handleV5Error_W c _ cx h
  · rename_i hd
    simp only [ne_eq, Decidable.not_not] at hd
    cases parsed with
    | ok p => exact absurd ⟨hd, p, rfl⟩ hn
    | error e => exact prV5Connect_err_W _ e ⟨cx.hL, cx.hpw⟩ h

theorem prV3Connack_W (c : C) (parsed) (cx : Cx c L pw) (h : EvAll (W B L pw) c.ev) :
    EvAll (W B L pw) (prV3Connack c parsed).ev := by
  have hP : Lax (W B L pw) := W_lax
  unfold prV3Connack
  split
  · exact handleV3Error_all hP W_close c _ h
  · split
    · rename_i p
      have cx' : Cx { c with s := { c.s with status := .connected } } L pw := ⟨cx.hL, cx.hpw⟩
      by_cases h1 : p.rc = some 0 <;> by_cases h2 : p.sp = true <;> simp [h1, h2, h, hP.rcv]
      exact resendStored_all hP _ h (W_store cx')
    · exact handleV3Error_all hP W_close c _ h


/-- an accepted CONNACK: the stored packets are resent under the limit this CONNACK announces -/
theorem prV5Connack_acc_W (c : C) (p : Pkt) (hn : c.s.status ≠ .connected) (hr : p.rc = some 0)
    (hL : (prV5Connack c (.ok p)).s.mpsSend = L) (hpw : c.cfg.pw = pw) (h : EvAll (W B L pw) c.ev) :
    EvAll (W B L pw) (prV5Connack c (.ok p)).ev := by
  have hP : Lax (W B L pw) := W_lax
  have hf := propsFold_all (connackRecvProp_all hP)
  simp only [prV5Connack, hn, hr, if_false, if_true] at hL ⊢
  by_cases h2 : p.sp = true
  · simp only [h2, if_true, push_s, resendStored_mps] at hL
    simp only [h2, if_true, push_ev, EvAll_append, EvAll_single, hP.rcv, and_true]
    exact resendStored_all hP _ (hf _ _ h) (W_store ⟨hL, by simpa using hpw⟩)
  · simp [h2, hP.rcv, hf, h]

theorem prV5Connack_other_fr (c : C) (parsed)
    (hn : ¬ (c.s.status ≠ .connected ∧ ∃ p, parsed = .ok p ∧ p.rc = some 0)) : Fr c (prV5Connack c parsed) := by
  unfold prV5Connack
  split
  · exact handleV5Error_fr c _
  · rename_i hd
    cases parsed with
    | ok p =>
      have : p.rc ≠ some 0 := fun hr => hn ⟨hd, p, rfl, hr⟩
      simp [Fr, this]
    | error e => simp [Fr, hd]

theorem prV5Connack_other_W (c : C) (parsed) (cx : Cx c L pw)
    (hn : ¬ (c.s.status ≠ .connected ∧ ∃ p, parsed = .ok p ∧ p.rc = some 0)) (h : EvAll (W B L pw) c.ev) :
    EvAll (W B L pw) (prV5Connack c parsed).ev := by
  have hP : Lax (W B L pw) := W_lax
  unfold prV5Connack
  split
  · exact handleV5Error_W c _ cx h
  · rename_i hd
    cases parsed with
    | ok p =>
      have : p.rc ≠ some 0 := fun hr => hn ⟨hd, p, rfl, hr⟩
      simp [this, h, hP.rcv]
    | error e => simp [hd, h, hP.er]

theorem W_ack {c : C} (cx : Cx c L pw) (k id) (hz : sizeOk c (mkAck c.cfg 5 k id) = true) :
    W B L pw (.send (mkAck c.cfg 5 k id) none) := W_size cx hz _

theorem prV3Publish_W (c : C) (parsed) (hB : B) (h : EvAll (W B L pw) c.ev) :
    EvAll (W B L pw) (prV3Publish c parsed).ev := by
  have hP : Lax (W B L pw) := W_lax
  unfold prV3Publish
  split
  · exact handleV3Error_all hP W_close c _ h
  · rename_i p
    have hA : ∀ cfg k id, W B L pw (.send (mkAck cfg 4 k id) none) := fun cfg k id => W_v3 (by simp [mkAck]) hB _
    cases hpid : p.pid <;> by_cases q0 : p.qos = 0 <;> by_cases q1 : p.qos = 1 <;>
      simp (maxDischargeDepth := 8) [hpid, q0, q1, h, hA, hP.rcv, refreshPingreqRecv_all hP,
        psV3Simple_all hP]

theorem prV5PublishAlias_W (c : C) (p : Pkt) (cx : Cx c L pw) (h : EvAll (W B L pw) c.ev) :
    EvAll (W B L pw) (prV5PublishAlias c p).1.ev := by
  have h5 := fun e => handleV5Error_W (B := B) c e cx h
  unfold prV5PublishAlias
  (repeat' split) <;> (try simp only []) <;> (repeat' split) <;> simp [h5, h]

theorem Cx_ite {b : Prop} [Decidable b] {x y : C} (hx : Cx x L pw) (hy : Cx y L pw) :
    Cx (if b then x else y) L pw := by split <;> assumption

theorem Cx_panicIte {b : Prop} [Decidable b] {c : C} (x : String) (h : Cx c L pw) :
    Cx (if b then c.setPanic x else c) L pw :=
  Cx_ite ⟨by simpa using h.hL, by simpa using h.hpw⟩ h

theorem EvAll_panicIte {P : Ev → Prop} {b : Prop} [Decidable b] {c : C} (x : String) (h : EvAll P c.ev) :
    EvAll P (if b then c.setPanic x else c).ev := by
  split <;> simpa using h

theorem prV5Publish_W (c : C) (parsed) (cx : Cx c L pw) (h : EvAll (W B L pw) c.ev) :
    EvAll (W B L pw) (prV5Publish c parsed).ev := by
  have hP : Lax (W B L pw) := W_lax
  unfold prV5Publish
  split
  · split
    · exact handleV5Error_W c _ cx h
    · simp [h, hP.er]
  · rename_i p
    have hc := prV5PublishAlias_W (B := B) c p cx h
    extract_lets r c1 rm id already s1 c2 s2 c3 pubackSend pubrecSend c4 c5 c6
    have cx1 : Cx c1 L pw := cx.fr (prV5PublishAlias_fr c p)
    split
    · exact hc
    · split
      · simpa using hc
      · split
        · exact handleV5Error_W c1 _ cx1 hc
        · have cx2 : Cx c2 L pw := Cx_ite ⟨cx1.hL, cx1.hpw⟩ cx1
          have cx3 : Cx c3 L pw := Cx_ite ⟨cx2.hL, cx2.hpw⟩ cx2
          have h2 : EvAll (W B L pw) c2.ev := by simp only [c2]; split <;> simpa using hc
          have h3 : EvAll (W B L pw) c3.ev := by simp only [c3]; split <;> simpa using h2
          have cx4 : Cx c4 L pw := by
            simp only [c4]; refine Cx_ite ?_ cx3
            exact Cx.fr (Cx_panicIte _ cx3) (psV5Puback_fr _ _)
          have h4 : EvAll (W B L pw) c4.ev := by
            simp only [c4]; split
            · exact psV5Puback_all hP _ _ (fun hz => W_size (Cx_panicIte _ cx3) hz _) (EvAll_panicIte _ h3)
            · exact h3
          have h5 : EvAll (W B L pw) c5.ev := by
            simp only [c5]; split
            · exact psV5Pubrec_all hP _ _ (fun hz => W_size (Cx_panicIte _ cx4) hz _) (EvAll_panicIte _ h4)
            · exact h4
          have h6 : EvAll (W B L pw) c6.ev := refreshPingreqRecv_all hP _ h5
          split
          · simp [h6, hP.rcv]
          · exact h6


theorem prPuback_W (c : C) (parsed) (cx : Cx c L pw) (h : EvAll (W B L pw) c.ev) :
    EvAll (W B L pw) (prPuback c parsed).ev := by
  have hP : Lax (W B L pw) := W_lax
  unfold prPuback
  split
  · exact vErr_W c _ cx h
  · rename_i p
    simp only []
    split
    · by_cases h5 : p.ver = 5 <;>
        simp (maxDischargeDepth := 8) [h5, h, hP.rcv, refreshPingreqRecv_all hP, releaseIfUsed_all hP]
    · exact vErr_W c _ cx h

theorem prPubcomp_W (c : C) (parsed) (cx : Cx c L pw) (h : EvAll (W B L pw) c.ev) :
    EvAll (W B L pw) (prPubcomp c parsed).ev := by
  have hP : Lax (W B L pw) := W_lax
  unfold prPubcomp
  split
  · exact vErr_W c _ cx h
  · rename_i p
    simp only []
    split
    · by_cases h5 : p.ver = 5 <;>
        simp (maxDischargeDepth := 8) [h5, h, hP.rcv, refreshPingreqRecv_all hP, releaseIfUsed_all hP]
    · exact vErr_W c _ cx h

theorem psPubrel_W (c : C) (q : Pkt) (hL : c.s.mpsSend = L) (hpw : c.cfg.pw = pw) (hB : q.ver ≠ 5 → B)
    (h : EvAll (W B L pw) c.ev) : EvAll (W B L pw) (psPubrel c q).ev :=
  psPubrel_all W_lax c q (fun hz => W_cond ⟨hL, hpw⟩ hB hz _) h

theorem prPubrec_W (c : C) (parsed) (cx : Cx c L pw) (hB : ∀ p, parsed = .ok p → p.ver ≠ 5 → B)
    (h : EvAll (W B L pw) c.ev) : EvAll (W B L pw) (prPubrec c parsed).ev := by
  have hP : Lax (W B L pw) := W_lax
  unfold prPubrec
  split
  · exact vErr_W c _ cx h
  · rename_i p
    simp only []
    split
    · have hL := cx.hL; have hpw := cx.hpw
      by_cases h5 : p.ver = 5
      · have hrel : ∀ (c' : C) (q : Pkt), q.ver = 5 → c'.s.mpsSend = L → c'.cfg.pw = pw →
            EvAll (W B L pw) c'.ev → EvAll (W B L pw) (psPubrel c' q).ev :=
          fun c' q hv a b h' => psPubrel_W c' q a b (fun hn => absurd hv hn) h'
        by_cases hs : (p.rc = none ∨ p.rc = some 0) <;>
          simp (maxDischargeDepth := 8) [h5, hs, h, hL, hpw, hP.rcv, refreshPingreqRecv_all hP,
            releaseIfUsed_all hP, hrel, mkAck]
      · have hb : B := hB p rfl h5
        have hrel : ∀ (c' : C) (q : Pkt), c'.s.mpsSend = L → c'.cfg.pw = pw →
            EvAll (W B L pw) c'.ev → EvAll (W B L pw) (psPubrel c' q).ev :=
          fun c' q a b h' => psPubrel_W c' q a b (fun _ => hb) h'
        by_cases hs : (p.ver = 4 ∨ p.rc = none ∨ p.rc = some 0) <;>
          simp (maxDischargeDepth := 8) [hs, h, hL, hpw, hP.rcv, refreshPingreqRecv_all hP,
            releaseIfUsed_all hP, hrel, mkAck]
    · exact vErr_W c _ cx h

theorem psV5Pubcomp_W (c : C) (q : Pkt) (hL : c.s.mpsSend = L) (hpw : c.cfg.pw = pw)
    (h : EvAll (W B L pw) c.ev) : EvAll (W B L pw) (psV5Pubcomp c q).ev :=
  psV5Pubcomp_all W_lax c q (fun hz => W_size ⟨hL, hpw⟩ hz _) h

theorem psV5Simple_W (c : C) (q : Pkt) (hL : c.s.mpsSend = L) (hpw : c.cfg.pw = pw)
    (h : EvAll (W B L pw) c.ev) : EvAll (W B L pw) (psV5Simple c q).ev :=
  psV5Simple_all W_lax c q (fun hz => W_size ⟨hL, hpw⟩ hz _) h

theorem psV3Simple_W (c : C) (q : Pkt) (hv : q.ver ≠ 5) (hB : B)
    (h : EvAll (W B L pw) c.ev) : EvAll (W B L pw) (psV3Simple c q).ev :=
  psV3Simple_all W_lax c q (W_v3 hv hB _) h

theorem prPubrel_W (c : C) (parsed) (cx : Cx c L pw) (hB : ∀ p, parsed = .ok p → p.ver ≠ 5 → B)
    (h : EvAll (W B L pw) c.ev) : EvAll (W B L pw) (prPubrel c parsed).ev := by
  have hP : Lax (W B L pw) := W_lax
  unfold prPubrel
  split
  · exact vErr_W c _ cx h
  · rename_i p
    have hL := cx.hL; have hpw := cx.hpw
    have h5' := psV5Pubcomp_W (B := B) (L := L) (pw := pw)
    by_cases h4 : p.ver = 4
    · have hb : B := hB p rfl (by omega)
      have h3' : ∀ (c' : C) (q : Pkt), q.ver = 4 → EvAll (W B L pw) c'.ev → EvAll (W B L pw) (psV3Simple c' q).ev :=
        fun c' q hv h' => psV3Simple_W c' q (by omega) hb h'
      simp (maxDischargeDepth := 8) [h4, h, hP.rcv, refreshPingreqRecv_all hP, h3', mkAck]
    · simp (maxDischargeDepth := 8) [h4, h, hL, hpw, hP.rcv, refreshPingreqRecv_all hP, h5', mkAck, mkV5PubcompRc]

theorem prPlain_W (c : C) (parsed) (cx : Cx c L pw) (h : EvAll (W B L pw) c.ev) :
    EvAll (W B L pw) (prPlain c parsed).ev := by
  unfold prPlain
  split
  · exact vErr_W c _ cx h
  · simp [h, W_lax.rcv, refreshPingreqRecv_all W_lax]

theorem prSubUnsuback_W (c : C) (b parsed) (cx : Cx c L pw) (h : EvAll (W B L pw) c.ev) :
    EvAll (W B L pw) (prSubUnsuback c b parsed).ev := by
  have hP : Lax (W B L pw) := W_lax
  cases parsed with
  | error e => exact vErr_W c e cx h
  | ok p =>
    cases b <;> simp only [prSubUnsuback, Bool.false_eq_true, if_false, if_true] <;> split
    · simp (maxDischargeDepth := 8) [h, hP.rcv, refreshPingreqRecv_all hP, releaseIfUsed_all hP]
    · exact vErr_W c _ cx h
    · simp (maxDischargeDepth := 8) [h, hP.rcv, refreshPingreqRecv_all hP, releaseIfUsed_all hP]
    · exact vErr_W c _ cx h

theorem prPingreq_W (c : C) (parsed) (cx : Cx c L pw) (hB : ∀ p, parsed = .ok p → p.ver ≠ 5 → B)
    (h : EvAll (W B L pw) c.ev) : EvAll (W B L pw) (prPingreq c parsed).ev := by
  have hP : Lax (W B L pw) := W_lax
  unfold prPingreq
  split
  · exact vErr_W c _ cx h
  · rename_i p
    have hL := cx.hL; have hpw := cx.hpw
    have h5' := psV5Simple_W (B := B) (L := L) (pw := pw)
    by_cases h4 : p.ver = 4
    · have hb : B := hB p rfl (by omega)
      have h3' : ∀ (c' : C) (q : Pkt), q.ver = 4 → EvAll (W B L pw) c'.ev → EvAll (W B L pw) (psV3Simple c' q).ev :=
        fun c' q hv h' => psV3Simple_W c' q (by omega) hb h'
      simp (maxDischargeDepth := 8) [h4, h, hP.rcv, refreshPingreqRecv_all hP, h3', mkPingresp]
    · simp (maxDischargeDepth := 8) [h4, h, hL, hpw, hP.rcv, refreshPingreqRecv_all hP, h5', mkPingresp]

theorem prPingresp_W (c : C) (parsed) (cx : Cx c L pw) (h : EvAll (W B L pw) c.ev) :
    EvAll (W B L pw) (prPingresp c parsed).ev := by
  unfold prPingresp
  split
  · exact vErr_W c _ cx h
  · simp [h, W_lax.rcv, W_lax.tc]

theorem prDisconnect_W (c : C) (parsed) (cx : Cx c L pw) (h : EvAll (W B L pw) c.ev) :
    EvAll (W B L pw) (prDisconnect c parsed).ev := by
  unfold prDisconnect
  split
  · exact vErr_W c _ cx h
  · simp [h, W_lax.rcv, cancelTimers_all W_lax]

end
end MqttVerif.Conn
