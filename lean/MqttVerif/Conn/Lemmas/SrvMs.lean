import MqttVerif.Conn.Step
import MqttVerif.Monitors
import MqttVerif.Conn.Lemmas.Resend
/-!
# C15 helper — the driver's ghost `srvMs` (a server's receive timeout) against the model

`srvEv` / `srvStep` / `srvReset`: the ghost the driver's monitor `C15 no_recv_rearm` keeps (reset
by `closed`, set by a delivered CONNECT to 1.5 × keep-alive, by a sent successful CONNACK with a
Server Keep Alive property to 1.5 × that).

`K g0 c`: what the relation between ghost and model reads — `is_client`, `pingreq_recv_timeout_ms`,
the store (a resent stored packet is a `RequestSendPacket` event too) and the ghost folded over the
events pushed so far.  Frame lemmas `K g0 (f c) = K g0 c` for every model function that touches
none of them and pushes only events the ghost ignores; the store-touching functions and the
CONNECT / CONNACK handlers are in `SrvMs2.lean`.
Own namespace: may be imported next to any other lemma chain.
-/
set_option linter.unusedSimpArgs false
set_option linter.unusedVariables false
namespace MqttVerif.Conn.SrvMs
open MqttVerif MqttVerif.Conn

/-! ## the ghost -/

/-- 1.5 × seconds, in ms -/
def ms15 (sec : Nat) : Nat := sec * 1000 * 3 / 2

/-- one event (the lambda of the driver's fold) -/
def srvEv (acc : Nat) : Ev → Nat
  | .recv q => if q.kind = .connect then q.keepAlive * 1000 * 3 / 2 else acc
  | .send q _ =>
    if q.kind = .connack ∧ q.rc = some 0 then
      (match Mon.findProp q pSKA with | some v => v * 1000 * 3 / 2 | none => acc)
    else acc
  | _ => acc

/-- the events of one call, in order -/
def srvStep (g : Nat) (evs : List Ev) : Nat := evs.foldl srvEv g

/-- before the call: `closed` forgets the timeout -/
def srvReset : Op → Nat → Nat
  | .closed, _ => 0
  | _, g => g

/-- a packet whose `RequestSendPacket` changes the ghost: a successful CONNACK with a Server Keep
    Alive property -/
def loud (q : Pkt) : Bool := q.kind = .connack ∧ q.rc = some 0 ∧ (Mon.findProp q pSKA).isSome

theorem loud_kind {q : Pkt} (h : q.kind ≠ .connack) : loud q = false := by simp [loud, h]
theorem loud_rc {q : Pkt} (h : q.rc ≠ some 0) : loud q = false := by simp [loud, h]

@[scoped simp] theorem srvStep_nil (g : Nat) : srvStep g [] = g := rfl
@[scoped simp] theorem srvStep_append (g : Nat) (a b : List Ev) : srvStep g (a ++ b) = srvStep (srvStep g a) b := by
  simp [srvStep, List.foldl_append]
@[scoped simp] theorem srvStep_cons (g : Nat) (e : Ev) (l : List Ev) : srvStep g (e :: l) = srvStep (srvEv g e) l := rfl

@[scoped simp] theorem srvEv_error (g e : Nat) : srvEv g (.error e) = g := rfl
@[scoped simp] theorem srvEv_close (g : Nat) : srvEv g .close = g := rfl
@[scoped simp] theorem srvEv_released (g id : Nat) : srvEv g (.released id) = g := rfl
@[scoped simp] theorem srvEv_tr (g : Nat) (k : Timer) (ms : Nat) : srvEv g (.timerReset k ms) = g := rfl
@[scoped simp] theorem srvEv_tc (g : Nat) (k : Timer) : srvEv g (.timerCancel k) = g := rfl

theorem srvEv_send_quiet {q : Pkt} (g : Nat) (r : Option Nat) (h : loud q = false) : srvEv g (.send q r) = g := by
  show (if q.kind = .connack ∧ q.rc = some 0 then
      (match Mon.findProp q pSKA with | some v => v * 1000 * 3 / 2 | none => g) else g) = g
  split
  · rename_i hc
    cases hf : Mon.findProp q pSKA with
    | none => rfl
    | some v => simp [loud, hc.1, hc.2, hf] at h
  · rfl

theorem srvEv_recv_other {q : Pkt} (g : Nat) (h : q.kind ≠ .connect) : srvEv g (.recv q) = g := by
  simp [srvEv, h]

theorem srvEv_recv_connect {q : Pkt} (g : Nat) (h : q.kind = .connect) :
    srvEv g (.recv q) = q.keepAlive * 1000 * 3 / 2 := by
  simp [srvEv, h]

@[scoped simp] theorem loud_mkAck (cfg : Cfg) (v : Nat) (k : Kind) (id : Nat) (h : k ≠ .connack) :
    loud (mkAck cfg v k id) = false := loud_kind h
@[scoped simp] theorem loud_mkV5PubcompRc (cfg : Cfg) (id rc : Nat) : loud (mkV5PubcompRc cfg id rc) = false := by
  simp [loud, mkV5PubcompRc]
@[scoped simp] theorem loud_mkV5Disconnect (rc : Nat) : loud (mkV5Disconnect rc) = false := by
  simp [loud, mkV5Disconnect]
@[scoped simp] theorem loud_mkPingreq (v : Nat) : loud (mkPingreq v) = false := by simp [loud, mkPingreq]
@[scoped simp] theorem loud_mkPingresp (v : Nat) : loud (mkPingresp v) = false := by simp [loud, mkPingresp]
@[scoped simp] theorem loud_mkV3Connack (rc : Nat) : loud (mkV3Connack rc) = false := by
  simp [loud, mkV3Connack, Mon.findProp]
@[scoped simp] theorem loud_mkV5Connack (rc : Nat) : loud (mkV5Connack rc) = false := by
  simp [loud, mkV5Connack, Mon.findProp]

/-! ## the projection -/

/-- `is_client`, receive timeout, store, ghost over the events so far -/
def K (g0 : Nat) (c : C) : Bool × Nat × List (Nat × Pkt) × Nat :=
  (c.s.isClient, c.s.recvTimeoutMs, c.s.store, srvStep g0 c.ev)

theorem ite_K (g0 : Nat) (p : Prop) {_ : Decidable p} (a b : C) :
    K g0 (if p then a else b) = if p then K g0 a else K g0 b := apply_ite _ _ _ _

theorem K_push (g0 : Nat) (c : C) (e : Ev) :
    K g0 (c.push e) = (c.s.isClient, c.s.recvTimeoutMs, c.s.store, srvEv (srvStep g0 c.ev) e) := by
  simp [K, C.push]

@[scoped simp] theorem K_err (g0 : Nat) (c : C) (e : Nat) : K g0 (c.err e) = K g0 c := by
  simp [C.err, K_push]; rfl
@[scoped simp] theorem K_setPanic (g0 : Nat) (c : C) (x : String) : K g0 (c.setPanic x) = K g0 c := rfl
@[scoped simp] theorem K_push_error (g0 : Nat) (c : C) (e : Nat) : K g0 (c.push (.error e)) = K g0 c := K_err g0 c e
@[scoped simp] theorem K_push_close (g0 : Nat) (c : C) : K g0 (c.push .close) = K g0 c := by simp [K_push]; rfl
@[scoped simp] theorem K_push_released (g0 : Nat) (c : C) (id : Nat) : K g0 (c.push (.released id)) = K g0 c := by
  simp [K_push]; rfl
@[scoped simp] theorem K_push_tr (g0 : Nat) (c : C) (k : Timer) (ms : Nat) : K g0 (c.push (.timerReset k ms)) = K g0 c := by
  simp [K_push]; rfl
@[scoped simp] theorem K_push_tc (g0 : Nat) (c : C) (k : Timer) : K g0 (c.push (.timerCancel k)) = K g0 c := by
  simp [K_push]; rfl
theorem K_push_send (g0 : Nat) (c : C) (q : Pkt) (r : Option Nat) (h : loud q = false) :
    K g0 (c.push (.send q r)) = K g0 c := by
  simp [K_push, srvEv_send_quiet _ _ h]; rfl
theorem K_push_recv (g0 : Nat) (c : C) (q : Pkt) (h : q.kind ≠ .connect) :
    K g0 (c.push (.recv q)) = K g0 c := by
  simp [K_push, srvEv_recv_other _ h]; rfl

/-- `K` of an updated state, when the update leaves the four components alone -/
theorem K_eq_of (g0 : Nat) {c c' : C} (h1 : c'.s.isClient = c.s.isClient)
    (h2 : c'.s.recvTimeoutMs = c.s.recvTimeoutMs) (h3 : c'.s.store = c.s.store) (h4 : c'.ev = c.ev) :
    K g0 c' = K g0 c := by
  simp [K, h1, h2, h3, h4]

@[scoped simp] theorem push_ev (c : C) (e : Ev) : (c.push e).ev = c.ev ++ [e] := rfl
@[scoped simp] theorem push_s (c : C) (e : Ev) : (c.push e).s = c.s := rfl
@[scoped simp] theorem err_ev (c : C) (e : Nat) : (c.err e).ev = c.ev ++ [.error e] := rfl
@[scoped simp] theorem err_s (c : C) (e : Nat) : (c.err e).s = c.s := rfl
@[scoped simp] theorem setPanic_ev (c : C) (x : String) : (c.setPanic x).ev = c.ev := rfl

macro "kk1" : tactic =>
  `(tactic| first
      | rfl
      | (simp [ite_K, K_push_send, K_push_recv]; done)
      | (simp [ite_K, K_push_send, K_push_recv]; rfl)
      | (simp [ite_K, K_push_send, K_push_recv, *]; done)
      | (simp [ite_K, K_push_send, K_push_recv, *]; rfl)
      | (simp [ite_K, K_push_send, K_push_recv, *]; simp [K, srvEv_send_quiet, srvEv_recv_other, *]; done)
      | (simp [K, srvEv_send_quiet, srvEv_recv_other, *]; done)
      | (simp_all [ite_K, K_push_send, K_push_recv]; done)
      | (simp_all [ite_K, K_push_send, K_push_recv]; rfl)
      | (simp_all [ite_K, K_push_send, K_push_recv]; simp [K, srvEv_send_quiet, srvEv_recv_other, *]; done))

macro "kk" : tactic =>
  `(tactic| first
      | kk1
      | ((repeat' (first | split | (simp only []; split))) <;> kk1))

/-! ## helpers -/

@[scoped simp] theorem K_cancelTimers (g0 : Nat) (c : C) : K g0 (cancelTimers c) = K g0 c := by
  unfold cancelTimers; kk
@[scoped simp] theorem K_sendPostProcess (g0 : Nat) (c : C) : K g0 (sendPostProcess c) = K g0 c := by
  rcases sendPostProcess_s_cases c with h | h <;> rcases sendPostProcess_ev_cases c with h' | ⟨ms, h'⟩ <;>
    simp [K, h, h']
@[scoped simp] theorem K_refreshPingreqRecv (g0 : Nat) (c : C) : K g0 (refreshPingreqRecv c) = K g0 c := by
  unfold refreshPingreqRecv; kk
@[scoped simp] theorem K_decSendCount (g0 : Nat) (c : C) : K g0 (decSendCount c) = K g0 c := by
  unfold decSendCount; kk
@[scoped simp] theorem K_releaseId (g0 : Nat) (c : C) (id : Nat) : K g0 (releaseId c id) = K g0 c := by
  unfold releaseId; simp only []; split <;> rfl
@[scoped simp] theorem K_releaseIfUsed (g0 : Nat) (c : C) (id : Nat) : K g0 (releaseIfUsed c id) = K g0 c := by
  unfold releaseIfUsed; split <;> simp
@[scoped simp] theorem K_releasePacketId (g0 : Nat) (c : C) (id : Nat) : K g0 (releasePacketId c id) = K g0 c :=
  releasePacketId_ind (Q := fun c' => K g0 c' = K g0 c) c id (K_releaseIfUsed g0 c id) (fun h => h)
    (fun h => (K_decSendCount g0 _).trans h)
@[scoped simp] theorem K_releaseAll (g0 : Nat) (l : List Nat) : ∀ c, K g0 (releaseAll c l) = K g0 c := by
  induction l with
  | nil => intro c; rfl
  | cons x rest ih => intro c; rw [releaseAll, ih]; simp
@[scoped simp] theorem K_validateTopicAlias (g0 : Nat) (c : C) (ao : Option Nat) :
    K g0 (validateTopicAlias c ao).2 = K g0 c := by
  unfold validateTopicAlias; (repeat' split) <;> rfl
@[scoped simp] theorem K_tasInsert (g0 : Nat) (c : C) (t : List Nat) (a : Nat) (x : String) :
    K g0 (tasInsert c t a x) = K g0 c := by
  unfold tasInsert; (repeat' split) <;> rfl
@[scoped simp] theorem K_autoAlias (g0 : Nat) (c : C) (p : Pkt) : K g0 (autoAlias c p).1 = K g0 c := by
  unfold autoAlias; (repeat' (first | split | (simp only []; split))) <;> simp
theorem autoAlias_kind (c : C) (p : Pkt) : (autoAlias c p).2.kind = p.kind := by
  unfold autoAlias; (repeat' (first | split | (simp only []; split))) <;> rfl
@[scoped simp] theorem K_connectSendProp (g0 : Nat) (c : C) (id v : Nat) : K g0 (connectSendProp c id v) = K g0 c := by
  unfold connectSendProp; (repeat' split) <;> rfl
@[scoped simp] theorem K_connectRecvProp (g0 : Nat) (c : C) (id v : Nat) : K g0 (connectRecvProp c id v) = K g0 c := by
  unfold connectRecvProp; (repeat' split) <;> rfl

theorem K_propsFold (g0 : Nat) (f : C → Nat → Nat → C) (hf : ∀ c id v, K g0 (f c id v) = K g0 c) (c : C)
    (l : List (Nat × Nat)) : K g0 (propsFold f c l) = K g0 c := by
  induction l generalizing c with
  | nil => rfl
  | cons x rest ih => obtain ⟨i, v⟩ := x; rw [propsFold, ih, hf]
@[scoped simp] theorem K_fold_connectSendProp (g0 : Nat) (c : C) (l : List (Nat × Nat)) :
    K g0 (propsFold connectSendProp c l) = K g0 c := K_propsFold g0 _ (K_connectSendProp g0) c l
@[scoped simp] theorem K_fold_connectRecvProp (g0 : Nat) (c : C) (l : List (Nat × Nat)) :
    K g0 (propsFold connectRecvProp c l) = K g0 c := K_propsFold g0 _ (K_connectRecvProp g0) c l

/-! ## the send side: handlers that neither touch the store nor are CONNECT / CONNACK -/

@[scoped simp] theorem K_psV5Disconnect (g0 : Nat) (c : C) (p : Pkt) (h : loud p = false) :
    K g0 (psV5Disconnect c p) = K g0 c := by unfold psV5Disconnect; kk
@[scoped simp] theorem K_psV3Disconnect (g0 : Nat) (c : C) (p : Pkt) (h : loud p = false) :
    K g0 (psV3Disconnect c p) = K g0 c := by unfold psV3Disconnect; kk
@[scoped simp] theorem K_handleV3Error (g0 : Nat) (c : C) (e : Nat) : K g0 (handleV3Error c e) = K g0 c := by
  unfold handleV3Error; kk
@[scoped simp] theorem K_v5DisconnectOrClose (g0 : Nat) (c : C) (p : Pkt) (h : loud p = false) :
    K g0 (v5DisconnectOrClose c p) = K g0 c := by unfold v5DisconnectOrClose; kk
@[scoped simp] theorem K_handleV5Error (g0 : Nat) (c : C) (e : Nat) : K g0 (handleV5Error c e) = K g0 c := by
  unfold handleV5Error; kk
@[scoped simp] theorem K_vErr (g0 : Nat) (c : C) (e : Nat) : K g0 (vErr c e) = K g0 c := by unfold vErr; kk

@[scoped simp] theorem K_psV5PublishTail (g0 : Nat) (c : C) (p : Pkt) (r : Option Nat) (h : loud p = false) :
    K g0 (psV5PublishTail c p r) = K g0 c := by unfold psV5PublishTail; kk
@[scoped simp] theorem K_psV3Simple (g0 : Nat) (c : C) (p : Pkt) (h : loud p = false) :
    K g0 (psV3Simple c p) = K g0 c := by unfold psV3Simple; kk
@[scoped simp] theorem K_psV5Simple (g0 : Nat) (c : C) (p : Pkt) (h : loud p = false) :
    K g0 (psV5Simple c p) = K g0 c := by unfold psV5Simple; kk
@[scoped simp] theorem K_psV5Puback (g0 : Nat) (c : C) (p : Pkt) (h : loud p = false) :
    K g0 (psV5Puback c p) = K g0 c := by unfold psV5Puback; kk
@[scoped simp] theorem K_psV5Pubrec (g0 : Nat) (c : C) (p : Pkt) (h : loud p = false) :
    K g0 (psV5Pubrec c p) = K g0 c := by unfold psV5Pubrec; kk
@[scoped simp] theorem K_psV5Pubcomp (g0 : Nat) (c : C) (p : Pkt) (h : loud p = false) :
    K g0 (psV5Pubcomp c p) = K g0 c := K_psV5Puback g0 c p h
@[scoped simp] theorem K_psSubUnsub (g0 : Nat) (c : C) (p : Pkt) (h : loud p = false) :
    K g0 (psSubUnsub c p) = K g0 c := by unfold psSubUnsub; kk
@[scoped simp] theorem K_psPingreq (g0 : Nat) (c : C) (p : Pkt) (h : loud p = false) :
    K g0 (psPingreq c p) = K g0 c := by unfold psPingreq; kk
@[scoped simp] theorem K_psV5Auth (g0 : Nat) (c : C) (p : Pkt) (h : loud p = false) :
    K g0 (psV5Auth c p) = K g0 c := by unfold psV5Auth; kk
@[scoped simp] theorem K_refuseSend (g0 : Nat) (c : C) (e : Nat) (p : Pkt) : K g0 (refuseSend c e p) = K g0 c := by
  unfold refuseSend; kk

/-! ## the receive side: handlers that neither touch the store nor are CONNECT / CONNACK -/

theorem K_prV3Publish (g0 : Nat) (c : C) (x : Except Nat Pkt) (hx : ∀ p, x = .ok p → p.kind ≠ .connect) :
    K g0 (prV3Publish c x) = K g0 c := by
  unfold prV3Publish
  split
  · simp
  · rename_i p
    have hk := hx p rfl
    kk
@[scoped simp] theorem K_prV5PublishAlias (g0 : Nat) (c : C) (p : Pkt) : K g0 (prV5PublishAlias c p).1 = K g0 c := by
  unfold prV5PublishAlias
  (repeat' (first | split | (simp only []; split))) <;> first | rfl | (simp; done)
theorem prV5PublishAlias_kind (c : C) (p p' : Pkt) (h : (prV5PublishAlias c p).2 = some p') :
    p'.kind = p.kind := by
  unfold prV5PublishAlias at h
  simp only [] at h
  (repeat' split at h) <;> simp_all <;> (subst h; rfl)

theorem K_prV5Publish (g0 : Nat) (c : C) (x : Except Nat Pkt) (hx : ∀ p, x = .ok p → p.kind ≠ .connect) :
    K g0 (prV5Publish c x) = K g0 c := by
  unfold prV5Publish
  split
  · kk
  rename_i p
  have hk := hx p rfl
  extract_lets r c1 rmx id already src1 c2 src2 c3 pubackSend pubrecSend c4 c5 c6
  have h1 : K g0 r.1 = K g0 c := K_prV5PublishAlias g0 c p
  split
  · exact h1
  rename_i p' hp
  have hp' : p'.kind ≠ .connect := by rw [prV5PublishAlias_kind c p p' hp]; exact hk
  have k1 : K g0 c1 = K g0 c := h1
  have k2 : K g0 c2 = K g0 c := by
    simp only [c2, src1]; split <;> exact k1
  have k3 : K g0 c3 = K g0 c := by
    simp only [c3, src2]; split <;> exact k2
  have k4 : K g0 c4 = K g0 c := by
    simp only [c4]; (repeat' split) <;> simp [k3]
  have k5 : K g0 c5 = K g0 c := by
    simp only [c5]; (repeat' split) <;> simp [k4]
  have k6 : K g0 c6 = K g0 c := by
    simp only [c6]; simp [k5]
  split
  · simp [k1]
  split
  · simp [k1]
  split
  · rw [K_push_recv _ _ _ hp']; exact k6
  · exact k6

macro "k_recv_tac" f:ident : tactic =>
  `(tactic| (unfold $f; (repeat' (first | split | (simp only []; split))) <;> kk1))

theorem K_prPubrel (g0 : Nat) (c : C) (x : Except Nat Pkt) (hx : ∀ p, x = .ok p → p.kind ≠ .connect) :
    K g0 (prPubrel c x) = K g0 c := by k_recv_tac prPubrel
theorem K_prPlain (g0 : Nat) (c : C) (x : Except Nat Pkt) (hx : ∀ p, x = .ok p → p.kind ≠ .connect) :
    K g0 (prPlain c x) = K g0 c := by k_recv_tac prPlain
theorem K_prSubUnsuback (g0 : Nat) (c : C) (b : Bool) (x : Except Nat Pkt) (hx : ∀ p, x = .ok p → p.kind ≠ .connect) :
    K g0 (prSubUnsuback c b x) = K g0 c := by k_recv_tac prSubUnsuback
theorem K_prPingreq (g0 : Nat) (c : C) (x : Except Nat Pkt) (hx : ∀ p, x = .ok p → p.kind ≠ .connect) :
    K g0 (prPingreq c x) = K g0 c := by k_recv_tac prPingreq
theorem K_prPingresp (g0 : Nat) (c : C) (x : Except Nat Pkt) (hx : ∀ p, x = .ok p → p.kind ≠ .connect) :
    K g0 (prPingresp c x) = K g0 c := by k_recv_tac prPingresp
theorem K_prDisconnect (g0 : Nat) (c : C) (x : Except Nat Pkt) (hx : ∀ p, x = .ok p → p.kind ≠ .connect) :
    K g0 (prDisconnect c x) = K g0 c := by k_recv_tac prDisconnect

/-! ## the remaining calls that do not touch the store -/

theorem K_notifyTimerFired (g0 : Nat) (c : C) (k : Timer) : K g0 (notifyTimerFired c k) = K g0 c := by
  unfold notifyTimerFired
  (repeat' (first | split | (simp only []; split))) <;> kk1
theorem K_setPingreqSendInterval (g0 : Nat) (c : C) (d : Option Nat) :
    K g0 (setPingreqSendInterval c d) = K g0 c := by
  unfold setPingreqSendInterval
  (repeat' (first | split | (simp only []; split))) <;> kk1

end MqttVerif.Conn.SrvMs
