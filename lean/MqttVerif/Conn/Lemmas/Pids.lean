import MqttVerif.Conn.Step
import MqttVerif.Monitors
import MqttVerif.Alloc.Lemmas
import MqttVerif.Conn.Lemmas.Resend
/-!
# Helper lemmas for C08 — part 1: the packet-id allocator inside the connection

`W m a` is the well-formedness of the allocator `[1, m]` (the allocator part of `PidWf`).
Under it, `allocate` / `useValue` / `deallocate` / `clear` act on the set
`{v | isUsed a v}` as on a plain set, never panic, and keep `W`.
-/
set_option linter.unusedSimpArgs false
set_option linter.unusedVariables false
namespace MqttVerif.Alloc

/-- allocator over `[1, m]`, representation invariant included -/
def W (m : Nat) (a : A) : Prop :=
  a.lowest = 1 ∧ a.highest = m ∧ a.tmax = m ∧ Ok 1 a.pool ∧ ∀ iv ∈ a.pool, iv.hi ≤ m

theorem free_ge {lb : Nat} {p : List Iv} (h : Ok lb p) {v : Nat} (hf : Free p v) : lb ≤ v := by
  by_cases hv : v < lb
  · exact absurd hf (not_free_lt h hv)
  · omega

theorem free_le {m : Nat} {p : List Iv} (h : ∀ iv ∈ p, iv.hi ≤ m) {v : Nat} (hf : Free p v) : v ≤ m := by
  obtain ⟨iv, hm, _, h2⟩ := hf
  have := h iv hm; omega

theorem W.free_range {m : Nat} {a : A} (w : W m a) {v : Nat} (hf : Free a.pool v) : 1 ≤ v ∧ v ≤ m :=
  ⟨free_ge w.2.2.2.1 hf, free_le w.2.2.2.2 hf⟩

theorem W.isUsed_iff {m : Nat} {a : A} (w : W m a) (v : Nat) :
    isUsed a v = true ↔ (1 ≤ v ∧ v ≤ m ∧ ¬ Free a.pool v) := by
  obtain ⟨h1, h2, _⟩ := w
  simp only [isUsed, h1, h2, Bool.and_eq_true, decide_eq_true_eq, Bool.not_eq_true',
    decide_eq_false_iff_not, and_assoc]

theorem W.isUsed_range {m : Nat} {a : A} (w : W m a) {v : Nat} (h : isUsed a v = true) :
    1 ≤ v ∧ v ≤ m := by
  have := (w.isUsed_iff v).1 h; omega

theorem W_new {m : Nat} (hm : 1 ≤ m) : W m (new 1 m m) :=
  ⟨rfl, rfl, rfl, ⟨Nat.le_refl _, hm, trivial⟩, by simp [new]⟩

theorem new_isUsed (m v : Nat) : isUsed (new 1 m m) v = false := by
  simp only [isUsed, new, Bool.and_eq_false_imp, Bool.and_eq_true, decide_eq_true_eq,
    Bool.not_eq_false', free_cons, free_nil, or_false]
  intro h; exact ⟨of_decide_eq_true h.1, of_decide_eq_true h.2⟩

theorem W_clear {m : Nat} {a : A} (hm : 1 ≤ m) (w : W m a) : W m (clear a) := by
  obtain ⟨h1, h2, h3, _, _⟩ := w
  refine ⟨h1, h2, h3, ?_, ?_⟩
  · simp only [clear, h1, h2]; exact ⟨Nat.le_refl _, hm, trivial⟩
  · simp [clear, h2]

theorem clear_isUsed (a : A) (v : Nat) : isUsed (clear a) v = false := by
  simp only [isUsed, clear, Bool.and_eq_false_imp, Bool.and_eq_true, decide_eq_true_eq,
    Bool.not_eq_false', free_cons, free_nil, or_false]
  intro h; exact ⟨of_decide_eq_true h.1, of_decide_eq_true h.2⟩

/-- releasing a value that is in use: no panic, `W` kept, exactly that value turns free -/
theorem W.dealloc {m : Nat} {a : A} (w : W m a) {v : Nat} (hu : isUsed a v = true) :
    (deallocate a v).1 = none ∧ W m (deallocate a v).2 ∧
      ∀ x, isUsed (deallocate a v).2 x = true ↔ (isUsed a x = true ∧ x ≠ v) := by
  have hr := (w.isUsed_iff v).1 hu
  obtain ⟨h1, h2, h3, hok, hhi⟩ := w
  obtain ⟨p', hd, hf, hok'⟩ := deallocRaw_used (tmax := a.tmax) hok hr.2.2 hr.1
    (fun iv hm => by have := hhi iv hm; omega) (by omega)
  have hrng : a.lowest ≤ v ∧ v ≤ a.highest := by omega
  have e : deallocate a v = (none, { a with pool := p' }) := by
    simp only [deallocate, hrng, and_self, not_true_eq_false, if_false, hu, Bool.not_true,
      Bool.false_eq_true, hd]
  have hhi' : ∀ iv ∈ p', iv.hi ≤ m := by
    apply hi_le_of_free hok'
    intro x hx
    rcases (hf x).1 hx with h | h
    · exact free_le hhi h
    · omega
  have w' : W m { a with pool := p' } := ⟨h1, h2, h3, hok', hhi'⟩
  rw [e]
  refine ⟨rfl, w', ?_⟩
  intro x
  have w0 : W m a := ⟨h1, h2, h3, hok, hhi⟩
  rw [w'.isUsed_iff x, w0.isUsed_iff x]
  simp only [hf x]
  grind

/-- `allocate`: `none` iff everything is in use; otherwise a value that was free, now used -/
theorem W.alloc_none {m : Nat} {a : A} (w : W m a) (h : (allocate a).1 = none) :
    (allocate a).2 = a ∧ ∀ v, 1 ≤ v → v ≤ m → isUsed a v = true := by
  unfold allocate at h ⊢
  cases ha : allocateP a.pool with
  | none =>
    refine ⟨rfl, fun v h1 h2 => (w.isUsed_iff v).2 ⟨h1, h2, allocateP_none ha v⟩⟩
  | some vp => simp [ha] at h

theorem W.alloc_some {m : Nat} {a : A} (w : W m a) {v : Nat} (h : (allocate a).1 = some v) :
    isUsed a v = false ∧ 1 ≤ v ∧ v ≤ m ∧ W m (allocate a).2 ∧
      ∀ x, isUsed (allocate a).2 x = true ↔ (isUsed a x = true ∨ x = v) := by
  unfold allocate at h ⊢
  cases ha : allocateP a.pool with
  | none => simp [ha] at h
  | some vp =>
    obtain ⟨v', p'⟩ := vp
    simp only [ha, Option.some.injEq] at h ⊢
    subst h
    obtain ⟨h1, h2, h3, hok, hhi⟩ := w
    have w0 : W m a := ⟨h1, h2, h3, hok, hhi⟩
    obtain ⟨f1, f2, f3, f4, f5⟩ := allocateP_some hok ha
    have hrng := w0.free_range f1
    have w' : W m { a with pool := p' } := by
      refine ⟨h1, h2, h3, f4, ?_⟩
      intro iv hm
      obtain ⟨iv0, hm0, e⟩ := f5 iv hm
      have := hhi iv0 hm0; omega
    refine ⟨?_, hrng.1, hrng.2, w', ?_⟩
    · cases hc : isUsed a v' with
      | false => rfl
      | true => exact absurd f1 ((w0.isUsed_iff v').1 hc).2.2
    · intro x
      rw [w'.isUsed_iff x, w0.isUsed_iff x]
      simp only [f3 x]
      grind

/-- `useValue`: succeeds exactly for in-range free values -/
theorem W.use {m : Nat} {a : A} (w : W m a) (v : Nat) :
    ((useValue a v).1 = true ↔ (1 ≤ v ∧ v ≤ m ∧ isUsed a v = false)) ∧ W m (useValue a v).2 ∧
      ∀ x, isUsed (useValue a v).2 x = true ↔ (isUsed a x = true ∨ ((useValue a v).1 = true ∧ x = v)) := by
  have w0 := w
  obtain ⟨h1, h2, h3, hok, hhi⟩ := w
  unfold useValue
  cases hu : useValueP v a.pool with
  | none =>
    have hnf := useValueP_none hu
    simp only [Bool.false_eq_true, false_and, or_false, false_iff, not_and, Bool.not_eq_false]
    refine ⟨fun a1 a2 => (w0.isUsed_iff v).2 ⟨a1, a2, hnf⟩, w0, fun x => trivial⟩
  | some p' =>
    obtain ⟨f1, f2, f3⟩ := useValueP_some hok hu
    have hrng := w0.free_range f1
    have w' : W m { a with pool := p' } := by
      refine ⟨h1, h2, h3, f3, ?_⟩
      apply hi_le_of_free f3
      intro x hx
      exact free_le hhi ((f2 x).1 hx).1
    simp only [true_and, true_iff]
    refine ⟨⟨hrng.1, hrng.2, ?_⟩, w', ?_⟩
    · cases hc : isUsed a v with
      | false => rfl
      | true => exact absurd f1 ((w0.isUsed_iff v).1 hc).2.2
    · intro x
      rw [w'.isUsed_iff x, w0.isUsed_iff x]
      simp only [f2 x]
      grind

end MqttVerif.Alloc

/-! # part 2: the connection -/
namespace MqttVerif.Conn
open MqttVerif

/-- allocator well-formedness of a connection state (an invariant of `step`) -/
def PidWf (cfg : Cfg) (s : St) : Prop :=
  s.pidMan.lowest = 1 ∧ s.pidMan.highest = cfg.idMax ∧ s.pidMan.tmax = cfg.idMax ∧
    Alloc.Ok 1 s.pidMan.pool ∧ (∀ iv ∈ s.pidMan.pool, iv.hi ≤ cfg.idMax)

theorem PidWf.w {cfg : Cfg} {s : St} (h : PidWf cfg s) : Alloc.W cfg.idMax s.pidMan := h

/-- working form: well-formed and the id range is not empty -/
def Wf (c : C) : Prop := 1 ≤ c.cfg.idMax ∧ PidWf c.cfg c.s

theorem isUsed_congr {s s' : St} (h : s'.pidMan = s.pidMan) (id : Nat) : isUsed s' id = isUsed s id := by
  simp only [isUsed, h]

/-! ## events -/
@[simp] theorem releasedIds_append (a b : List Ev) :
    Mon.releasedIds (a ++ b) = Mon.releasedIds a ++ Mon.releasedIds b := by
  induction a with
  | nil => rfl
  | cons e a ih => cases e <;> simp [Mon.releasedIds, ih]

@[simp] theorem push_ev (c : C) (e : Ev) : (c.push e).ev = c.ev ++ [e] := by cases c; rfl
@[simp] theorem push_s (c : C) (e : Ev) : (c.push e).s = c.s := by cases c; rfl
@[simp] theorem push_cfg (c : C) (e : Ev) : (c.push e).cfg = c.cfg := by cases c; rfl
@[simp] theorem err_ev (c : C) (e : Nat) : (c.err e).ev = c.ev ++ [.error e] := by cases c; rfl
@[simp] theorem err_s (c : C) (e : Nat) : (c.err e).s = c.s := by cases c; rfl
@[simp] theorem err_cfg (c : C) (e : Nat) : (c.err e).cfg = c.cfg := by cases c; rfl
@[simp] theorem setPanic_ev (c : C) (x : String) : (c.setPanic x).ev = c.ev := by cases c; rfl
@[simp] theorem setPanic_cfg (c : C) (x : String) : (c.setPanic x).cfg = c.cfg := by cases c; rfl
@[simp] theorem setPanic_pidMan (c : C) (x : String) : (c.setPanic x).s.pidMan = c.s.pidMan := by cases c; rfl

/-- "quiet": a function that neither touches the allocator nor announces a release -/
abbrev Quiet (c c' : C) : Prop :=
  c'.cfg = c.cfg ∧ c'.s.pidMan = c.s.pidMan ∧ Mon.releasedIds c'.ev = Mon.releasedIds c.ev

theorem Quiet.refl (c : C) : Quiet c c := ⟨rfl, rfl, rfl⟩
theorem Quiet.trans {a b c : C} (h1 : Quiet a b) (h2 : Quiet b c) : Quiet a c :=
  ⟨h2.1.trans h1.1, h2.2.1.trans h1.2.1, h2.2.2.trans h1.2.2⟩

/-! ## quiet functions -/
theorem ite_cfg (p : Prop) {_ : Decidable p} (a b : C) : (if p then a else b).cfg = if p then a.cfg else b.cfg := apply_ite _ _ _ _
theorem ite_s (p : Prop) {_ : Decidable p} (a b : C) : (if p then a else b).s = if p then a.s else b.s := apply_ite _ _ _ _
theorem ite_ev (p : Prop) {_ : Decidable p} (a b : C) : (if p then a else b).ev = if p then a.ev else b.ev := apply_ite _ _ _ _
theorem ite_pidMan (p : Prop) {_ : Decidable p} (a b : St) : (if p then a else b).pidMan = if p then a.pidMan else b.pidMan := apply_ite _ _ _ _
theorem ite_rel (p : Prop) {_ : Decidable p} (a b : List Ev) :
    Mon.releasedIds (if p then a else b) = if p then Mon.releasedIds a else Mon.releasedIds b := apply_ite _ _ _ _

theorem ite_fst {α β : Type} (p : Prop) {_ : Decidable p} (a b : α × β) :
    (if p then a else b).1 = if p then a.1 else b.1 := apply_ite _ _ _ _
theorem ite_snd {α β : Type} (p : Prop) {_ : Decidable p} (a b : α × β) :
    (if p then a else b).2 = if p then a.2 else b.2 := apply_ite _ _ _ _

macro "quiet_tac" : tactic =>
  `(tactic| simp [Quiet, ite_cfg, ite_s, ite_ev, ite_pidMan, ite_rel, ite_fst, ite_snd, Mon.releasedIds])

@[simp] theorem cancelTimers_q (c : C) : Quiet c (cancelTimers c) := by
  unfold cancelTimers; quiet_tac
@[simp] theorem sendPostProcess_q (c : C) : Quiet c (sendPostProcess c) := by
  unfold sendPostProcess; quiet_tac
@[simp] theorem refreshPingreqRecv_q (c : C) : Quiet c (refreshPingreqRecv c) := by
  unfold refreshPingreqRecv; quiet_tac
@[simp] theorem initConn_q (c : C) (b : Bool) : Quiet c (initConn c b) := by
  unfold initConn; quiet_tac
@[simp] theorem validateTopicAlias_q (c : C) (ao : Option Nat) : Quiet c (validateTopicAlias c ao).2 := by
  unfold validateTopicAlias; (repeat' split) <;> quiet_tac
@[simp] theorem decSendCount_q (c : C) : Quiet c (decSendCount c) := by
  unfold decSendCount; quiet_tac
@[simp] theorem psV5Disconnect_q (c : C) (p : Pkt) : Quiet c (psV5Disconnect c p) := by
  unfold psV5Disconnect; quiet_tac
@[simp] theorem psV3Disconnect_q (c : C) (p : Pkt) : Quiet c (psV3Disconnect c p) := by
  unfold psV3Disconnect; quiet_tac
@[simp] theorem handleV3Error_q (c : C) (e : Nat) : Quiet c (handleV3Error c e) := by
  unfold handleV3Error; quiet_tac
@[simp] theorem v5DisconnectOrClose_q (c : C) (p : Pkt) : Quiet c (v5DisconnectOrClose c p) := by
  unfold v5DisconnectOrClose; quiet_tac
@[simp] theorem handleV5Error_q (c : C) (e : Nat) : Quiet c (handleV5Error c e) := by
  unfold handleV5Error; quiet_tac
@[simp] theorem vErr_q (c : C) (e : Nat) : Quiet c (vErr c e) := by
  unfold vErr; quiet_tac

theorem propsFold_q (f : C → Nat → Nat → C) (hf : ∀ c id v, Quiet c (f c id v)) (c : C)
    (l : List (Nat × Nat)) : Quiet c (propsFold f c l) := by
  induction l generalizing c with
  | nil => exact Quiet.refl c
  | cons x rest ih => exact Quiet.trans (hf c x.1 x.2) (ih _)

@[simp] theorem connectSendProp_q (c : C) (id v : Nat) : Quiet c (connectSendProp c id v) := by
  unfold connectSendProp; quiet_tac
@[simp] theorem connackSendProp_q (c : C) (id v : Nat) : Quiet c (connackSendProp c id v) := by
  unfold connackSendProp; quiet_tac
@[simp] theorem connectRecvProp_q (c : C) (id v : Nat) : Quiet c (connectRecvProp c id v) := by
  unfold connectRecvProp; quiet_tac
@[simp] theorem propsFold_connectSendProp_q (c : C) (l : List (Nat × Nat)) :
    Quiet c (propsFold connectSendProp c l) := propsFold_q _ connectSendProp_q c l
@[simp] theorem propsFold_connackSendProp_q (c : C) (l : List (Nat × Nat)) :
    Quiet c (propsFold connackSendProp c l) := propsFold_q _ connackSendProp_q c l
@[simp] theorem propsFold_connectRecvProp_q (c : C) (l : List (Nat × Nat)) :
    Quiet c (propsFold connectRecvProp c l) := propsFold_q _ connectRecvProp_q c l

@[simp] theorem storeAdd_q (c : C) (id : Nat) (p : Pkt) (x : String) : Quiet c (storeAdd c id p x) := by
  unfold storeAdd; quiet_tac
@[simp] theorem tasInsert_q (c : C) (t : List Nat) (a : Nat) (x : String) : Quiet c (tasInsert c t a x) := by
  unfold tasInsert; (repeat' split) <;> quiet_tac
@[simp] theorem autoAlias_q (c : C) (p : Pkt) : Quiet c (autoAlias c p).1 := by
  unfold autoAlias; (repeat' split) <;> quiet_tac
@[simp] theorem psV5PublishTail_q (c : C) (p : Pkt) (r : Option Nat) : Quiet c (psV5PublishTail c p r) := by
  unfold psV5PublishTail; quiet_tac
@[simp] theorem psV3Simple_q (c : C) (p : Pkt) : Quiet c (psV3Simple c p) := by
  unfold psV3Simple; quiet_tac
@[simp] theorem psV5Simple_q (c : C) (p : Pkt) : Quiet c (psV5Simple c p) := by
  unfold psV5Simple; quiet_tac
@[simp] theorem psV5Puback_q (c : C) (p : Pkt) : Quiet c (psV5Puback c p) := by
  unfold psV5Puback; quiet_tac
@[simp] theorem psV5Pubrec_q (c : C) (p : Pkt) : Quiet c (psV5Pubrec c p) := by
  unfold psV5Pubrec; quiet_tac
@[simp] theorem psV5Pubcomp_q (c : C) (p : Pkt) : Quiet c (psV5Pubcomp c p) := by
  unfold psV5Pubcomp; quiet_tac
@[simp] theorem psPubrel_q (c : C) (p : Pkt) : Quiet c (psPubrel c p) := by
  unfold psPubrel; quiet_tac
@[simp] theorem psPingreq_q (c : C) (p : Pkt) : Quiet c (psPingreq c p) := by
  unfold psPingreq; quiet_tac
@[simp] theorem psV5Auth_q (c : C) (p : Pkt) : Quiet c (psV5Auth c p) := by
  unfold psV5Auth; quiet_tac
@[simp] theorem prV3Publish_q (c : C) (x : Except Nat Pkt) : Quiet c (prV3Publish c x) := by
  unfold prV3Publish; (repeat' split) <;> quiet_tac
@[simp] theorem prV5PublishAlias_q (c : C) (p : Pkt) : Quiet c (prV5PublishAlias c p).1 := by
  unfold prV5PublishAlias; (repeat' split) <;> quiet_tac
@[simp] theorem prV5Publish_q (c : C) (x : Except Nat Pkt) : Quiet c (prV5Publish c x) := by
  unfold prV5Publish
  split
  · quiet_tac
  · have h := prV5PublishAlias_q c ‹Pkt›
    generalize prV5PublishAlias c ‹Pkt› = r at h ⊢
    obtain ⟨c1, o⟩ := r
    cases o with
    | none => exact h
    | some p' =>
      refine Quiet.trans h ?_
      quiet_tac
@[simp] theorem prPubrel_q (c : C) (x : Except Nat Pkt) : Quiet c (prPubrel c x) := by
  unfold prPubrel; (repeat' split) <;> quiet_tac
@[simp] theorem prPlain_q (c : C) (x : Except Nat Pkt) : Quiet c (prPlain c x) := by
  unfold prPlain; (repeat' split) <;> quiet_tac
@[simp] theorem prPingreq_q (c : C) (x : Except Nat Pkt) : Quiet c (prPingreq c x) := by
  unfold prPingreq; (repeat' split) <;> quiet_tac
@[simp] theorem prPingresp_q (c : C) (x : Except Nat Pkt) : Quiet c (prPingresp c x) := by
  unfold prPingresp; (repeat' split) <;> quiet_tac
@[simp] theorem prDisconnect_q (c : C) (x : Except Nat Pkt) : Quiet c (prDisconnect c x) := by
  unfold prDisconnect; (repeat' split) <;> quiet_tac
@[simp] theorem setPingreqSendInterval_q (c : C) (d : Option Nat) : Quiet c (setPingreqSendInterval c d) := by
  unfold setPingreqSendInterval; (repeat' split) <;> quiet_tac
@[simp] theorem notifyTimerFired_q (c : C) (k : Timer) : Quiet c (notifyTimerFired c k) := by
  unfold notifyTimerFired; (repeat' split) <;> quiet_tac

end MqttVerif.Conn
