import MqttVerif.Conn.Lemmas.PidsStep
/-!
# Helper lemmas for C08 — part 6: *when* releases are announced (completion, close)
-/
set_option linter.unusedSimpArgs false
set_option linter.unusedVariables false
namespace MqttVerif.Conn
open MqttVerif

/-! ## close -/
theorem releaseAll_s (l : List Nat) : ∀ c, Wf c →
    (releaseAll c l).s = { c.s with pidMan := (releaseAll c l).s.pidMan } := by
  induction l with
  | nil => intro c h; rfl
  | cons x rest ih =>
    intro c h
    rw [releaseAll]
    have e := releaseIfUsed_eff h x
    rw [ih _ e.wf, releaseIfUsed_s c h x]

theorem drain_s {c : C} (h : Wf c) (get : St → List Nat) (clr : St → St)
    (hclr : ∀ s, (clr s).pidMan = s.pidMan) :
    (drain c get clr).s = { clr c.s with pidMan := (drain c get clr).s.pidMan } :=
  releaseAll_s _ { c with s := clr c.s } (h.congr rfl (hclr _))

theorem dSub_free {c : C} (h : Wf c) {id : Nat} (hm : id ∈ c.s.suback) : isUsed (dSub c).s id = false :=
  drain_free h (fun s => s.suback) (fun s => { s with suback := [] }) (fun _ => rfl) hm
theorem dSub_s {c : C} (h : Wf c) : (dSub c).s = { c.s with suback := [], pidMan := (dSub c).s.pidMan } :=
  drain_s h (fun s => s.suback) (fun s => { s with suback := [] }) (fun _ => rfl)
theorem dUnsub_free {c : C} (h : Wf c) {id : Nat} (hm : id ∈ c.s.unsuback) : isUsed (dUnsub c).s id = false :=
  drain_free h (fun s => s.unsuback) (fun s => { s with unsuback := [] }) (fun _ => rfl) hm
theorem dUnsub_s {c : C} (h : Wf c) : (dUnsub c).s = { c.s with unsuback := [], pidMan := (dUnsub c).s.pidMan } :=
  drain_s h (fun s => s.unsuback) (fun s => { s with unsuback := [] }) (fun _ => rfl)
theorem dPuback_free {c : C} (h : Wf c) {id : Nat} (hm : id ∈ c.s.puback) : isUsed (dPuback c).s id = false :=
  drain_free h (fun s => s.puback) (fun s => { s with puback := [] }) (fun _ => rfl) hm
theorem dPuback_s {c : C} (h : Wf c) : (dPuback c).s = { c.s with puback := [], pidMan := (dPuback c).s.pidMan } :=
  drain_s h (fun s => s.puback) (fun s => { s with puback := [] }) (fun _ => rfl)
theorem dPubrec_free {c : C} (h : Wf c) {id : Nat} (hm : id ∈ c.s.pubrec) : isUsed (dPubrec c).s id = false :=
  drain_free h (fun s => s.pubrec) (fun s => { s with pubrec := [] }) (fun _ => rfl) hm
theorem dPubrec_s {c : C} (h : Wf c) : (dPubrec c).s = { c.s with pubrec := [], pidMan := (dPubrec c).s.pidMan } :=
  drain_s h (fun s => s.pubrec) (fun s => { s with pubrec := [] }) (fun _ => rfl)
theorem dPubcomp_free {c : C} (h : Wf c) {id : Nat} (hm : id ∈ c.s.pubcomp) : isUsed (dPubcomp c).s id = false :=
  drain_free h (fun s => s.pubcomp) (fun s => { s with pubcomp := [] }) (fun _ => rfl) hm
theorem dPubcomp_s {c : C} (h : Wf c) : (dPubcomp c).s = { c.s with pubcomp := [], pidMan := (dPubcomp c).s.pidMan } :=
  drain_s h (fun s => s.pubcomp) (fun s => { s with pubcomp := [] }) (fun _ => rfl)

theorem ncB_free {c : C} (h : Wf c) {id : Nat} (hm : id ∈ c.s.suback ∨ id ∈ c.s.unsuback) :
    isUsed (ncB c).s id = false := by
  have e1 := dSub_eff h
  rcases hm with hm | hm
  · exact (dUnsub_eff e1.wf).mono (dSub_free h hm)
  · refine dUnsub_free e1.wf ?_
    rw [dSub_s h]; exact hm

theorem ncB_frame {c : C} (h : Wf c) :
    (ncB c).s.needStore = c.s.needStore ∧ (ncB c).s.puback = c.s.puback ∧
      (ncB c).s.pubrec = c.s.pubrec ∧ (ncB c).s.pubcomp = c.s.pubcomp ∧ (ncB c).s.store = c.s.store := by
  have e1 := dSub_eff h
  have a : (ncB c).s = _ := dUnsub_s e1.wf
  have b : (dSub c).s = _ := dSub_s h
  refine ⟨?_, ?_, ?_, ?_, ?_⟩ <;> rw [a] <;> simp only [] <;> rw [b]

theorem ncC_free {c : C} (h : Wf c) {id : Nat}
    (hm : id ∈ c.s.puback ∨ id ∈ c.s.pubrec ∨ id ∈ c.s.pubcomp) :
    isUsed (ncC c).s id = false := by
  have h0 : Wf (ncH c) := h.congr rfl rfl
  have e1 := dPuback_eff h0
  have e2 := dPubrec_eff e1.wf
  have e3 := dPubcomp_eff e2.wf
  have s1 : (dPuback (ncH c)).s = _ := dPuback_s h0
  have s2 : (dPubrec (dPuback (ncH c))).s = _ := dPubrec_s e1.wf
  show isUsed (dPubcomp (dPubrec (dPuback (ncH c)))).s id = false
  rcases hm with hm | hm | hm
  · exact e3.mono (e2.mono (dPuback_free h0 hm))
  · refine e3.mono (dPubrec_free e1.wf ?_)
    rw [s1]; exact hm
  · refine dPubcomp_free e2.wf ?_
    rw [s2]; simp only []; rw [s1]; exact hm

theorem notifyClosed_free {c : C} (h : Wf c) {id : Nat}
    (hm : id ∈ c.s.suback ∨ id ∈ c.s.unsuback ∨
      (c.s.needStore = false ∧ (id ∈ c.s.puback ∨ id ∈ c.s.pubrec ∨ id ∈ c.s.pubcomp))) :
    isUsed (notifyClosed c).s id = false := by
  rw [notifyClosed_eq]
  have hA : Wf (ncA c) := h.congr rfl rfl
  have eB := ncB_eff hA
  have fr := ncB_frame hA
  rw [isUsed_congr (cancelTimers_q _).2.1]
  show isUsed (if (!(ncB (ncA c)).s.needStore) = true then ncC (ncB (ncA c)) else ncB (ncA c)).s id = false
  have hB : ∀ (hm : id ∈ c.s.suback ∨ id ∈ c.s.unsuback), isUsed (ncB (ncA c)).s id = false :=
    fun hm => ncB_free hA hm
  have hns : (ncB (ncA c)).s.needStore = c.s.needStore := fr.1
  by_cases hn : c.s.needStore = true
  · simp only [hns, hn, Bool.not_true, Bool.false_eq_true, if_false]
    rcases hm with hm | hm | hm
    · exact hB (Or.inl hm)
    · exact hB (Or.inr hm)
    · simp_all
  · simp only [hns, hn, Bool.not_false, if_true]
    rcases hm with hm | hm | hm
    · exact (ncC_eff eB.wf).mono (hB (Or.inl hm))
    · exact (ncC_eff eB.wf).mono (hB (Or.inr hm))
    · refine ncC_free eB.wf ?_
      rw [fr.2.1, fr.2.2.1, fr.2.2.2.1]; exact hm.2

/-! ## completion -/

/-- the call `recv inp parse` in state `s` completes a frame whose type nibble is `t`, passes
    the size / role / version gates of `process_recv_packet`, and reaches the handler of `t`
    with parse result `parsed` -/
def Delivers (cfg : Cfg) (s : St) (inp : List Nat) (parse : Nat → Nat → List Nat → Except Nat Pkt)
    (t : Nat) (parsed : Except Nat Pkt) : Prop :=
  ∃ pb fh data rest, Framing.feed s.pb inp = (pb, some (.complete fh data), rest) ∧
    totalSize data.length ≤ s.mpsRecv ∧ canReceive cfg s (fh / 16) = true ∧ s.ver ≠ 0 ∧
    t = fh / 16 ∧ parsed = parse s.ver fh data

theorem step_recv_delivers {cfg : Cfg} {s : St} {inp : List Nat}
    {parse : Nat → Nat → List Nat → Except Nat Pkt} {t : Nat} {parsed : Except Nat Pkt}
    (d : Delivers cfg s inp parse t parsed) :
    ∃ pb, step cfg s (.recv inp parse) = dispatchRecv { cfg := cfg, s := { s with pb := pb } } t parsed := by
  obtain ⟨pb, fh, data, rest, hf, hsz, hcan, hv, rfl, rfl⟩ := d
  refine ⟨pb, ?_⟩
  have hcan' : canReceive cfg { s with pb := pb } (fh / 16) = true := hcan
  simp only [step, recv, hf, processRecvPacket, Nat.not_lt.2 hsz, if_false, hcan', Bool.not_true,
    Bool.false_eq_true, hv]

theorem prPuback_rel (c : C) (p : Pkt) (hm : p.pid.getD 0 ∈ c.s.puback) :
    Mon.releasedIds (prPuback c (.ok p)).ev =
      Mon.releasedIds c.ev ++ (if isUsed c.s (p.pid.getD 0) = true then [p.pid.getD 0] else []) := by
  simp only [prPuback, hm, if_true]; eff_tac; rfl

theorem prPubcomp_rel (c : C) (p : Pkt) (hm : p.pid.getD 0 ∈ c.s.pubcomp) :
    Mon.releasedIds (prPubcomp c (.ok p)).ev =
      Mon.releasedIds c.ev ++ (if isUsed c.s (p.pid.getD 0) = true then [p.pid.getD 0] else []) := by
  simp only [prPubcomp, hm, if_true]; eff_tac; rfl

theorem prPubrec_rel (c : C) (p : Pkt) (hm : p.pid.getD 0 ∈ c.s.pubrec)
    (hfail : ¬ (p.ver = 4 ∨ p.rc = none ∨ p.rc = some 0)) :
    Mon.releasedIds (prPubrec c (.ok p)).ev =
      Mon.releasedIds c.ev ++ (if isUsed c.s (p.pid.getD 0) = true then [p.pid.getD 0] else []) := by
  simp only [prPubrec, hm, if_true, hfail, if_false]; eff_tac; rfl

theorem prSuback_rel (c : C) (p : Pkt) (hm : p.pid.getD 0 ∈ c.s.suback) :
    Mon.releasedIds (prSubUnsuback c true (.ok p)).ev =
      Mon.releasedIds c.ev ++ (if isUsed c.s (p.pid.getD 0) = true then [p.pid.getD 0] else []) := by
  simp only [prSubUnsuback, hm, if_true]; eff_tac; rfl

theorem prUnsuback_rel (c : C) (p : Pkt) (hm : p.pid.getD 0 ∈ c.s.unsuback) :
    Mon.releasedIds (prSubUnsuback c false (.ok p)).ev =
      Mon.releasedIds c.ev ++ (if isUsed c.s (p.pid.getD 0) = true then [p.pid.getD 0] else []) := by
  simp only [prSubUnsuback, hm, if_true, Bool.false_eq_true, if_false]; eff_tac; rfl

/-! ## refusal -/

/-- the `NotifyError` codes in an event list -/
def errs : List Ev → List Nat
  | [] => []
  | .error e :: rest => e :: errs rest
  | _ :: rest => errs rest

@[simp] theorem errs_append (a b : List Ev) : errs (a ++ b) = errs a ++ errs b := by
  induction a with
  | nil => rfl
  | cons e a ih => cases e <;> simp [errs, ih]

theorem ite_errs (p : Prop) {_ : Decidable p} (a b : List Ev) :
    errs (if p then a else b) = if p then errs a else errs b := apply_ite _ _ _ _

macro "errs_tac" : tactic =>
  `(tactic| simp [ite_cfg, ite_s, ite_ev, ite_pidMan, ite_rel, ite_fst, ite_snd, ite_errs, errs])

@[simp] theorem sendPostProcess_errs (c : C) : errs (sendPostProcess c).ev = errs c.ev := by
  unfold sendPostProcess; errs_tac
@[simp] theorem storeAdd_errs (c : C) (id : Nat) (p : Pkt) (x : String) : errs (storeAdd c id p x).ev = errs c.ev := by
  unfold storeAdd; errs_tac
@[simp] theorem tasInsert_errs (c : C) (t : List Nat) (a : Nat) (x : String) : errs (tasInsert c t a x).ev = errs c.ev := by
  unfold tasInsert; (repeat' split) <;> errs_tac
@[simp] theorem autoAlias_errs (c : C) (p : Pkt) : errs (autoAlias c p).1.ev = errs c.ev := by
  unfold autoAlias; (repeat' split) <;> errs_tac
@[simp] theorem validateTopicAlias_errs (c : C) (ao : Option Nat) : errs (validateTopicAlias c ao).2.ev = errs c.ev := by
  unfold validateTopicAlias; (repeat' split) <;> errs_tac
@[simp] theorem psV5PublishTail_errs (c : C) (p : Pkt) (r : Option Nat) : errs (psV5PublishTail c p r).ev = errs c.ev := by
  unfold psV5PublishTail; errs_tac
@[simp] theorem releaseIfUsed_errs (c : C) (id : Nat) : errs (releaseIfUsed c id).ev = errs c.ev := by
  unfold releaseIfUsed; split <;> simp [errs]

theorem pubRefuseCleanup_rel (c : C) (id : Nat) :
    Mon.releasedIds (pubRefuseCleanup c (some id)).ev =
      Mon.releasedIds c.ev ++ (if isUsed c.s id = true then [id] else []) := by
  unfold pubRefuseCleanup; simp only []; split <;> simp [Mon.releasedIds]

theorem pubRefuseCleanup_pidMan (c : C) (pid : Option Nat) :
    (pubRefuseCleanup c pid).s.pidMan = (match pid with | some id => (releaseIfUsed c id).s.pidMan | none => c.s.pidMan) := by
  unfold pubRefuseCleanup
  split
  · rfl
  · rename_i id
    simp only []
    unfold releaseIfUsed
    split <;> simp

/-- outcome of a send handler for a packet carrying the in-use id `id`: either no new error
    was reported, or exactly `id` was announced as released -/
def Refuse (c c' : C) (id : Nat) : Prop :=
  errs c'.ev = errs c.ev ∨ Mon.releasedIds c'.ev = Mon.releasedIds c.ev ++ [id]

macro "refuse_tac" : tactic =>
  `(tactic| simp_all [Refuse, Quiet, ite_cfg, ite_s, ite_ev, ite_pidMan, ite_rel, ite_fst, ite_snd, ite_errs, errs,
      Mon.releasedIds, releaseIfUsed_rel, pubRefuseCleanup_rel, isUsed])

theorem psV3Publish_refuse (c : C) (p : Pkt) (id : Nat) (hq : p.qos > 0) (hp : p.pid = some id)
    (hu : isUsed c.s id = true) : Refuse c (psV3Publish c p) id := by
  unfold psV3Publish
  simp only [hq, hp, if_true]
  (repeat' split) <;> refuse_tac

theorem psSubUnsub_refuse (c : C) (p : Pkt) (id : Nat) (hp : p.pid = some id)
    (hu : isUsed c.s id = true) : Refuse c (psSubUnsub c p) id := by
  unfold psSubUnsub
  simp only [hp, Option.getD_some]
  (repeat' split) <;> refuse_tac

theorem psV5PublishAlias_refuse (c : C) (p : Pkt) (rel : Option Nat) (v : Bool) (id : Nat)
    (hp : p.pid = some id) (hu : isUsed c.s id = true) : Refuse c (psV5PublishAlias c p rel v) id := by
  unfold psV5PublishAlias
  simp only [hp]
  (repeat' split) <;> refuse_tac

/-- fix 1d0ef05: a refusal before the handler (version, role) of a packet carrying the in-use
    id it was given to start an exchange announces that id -/
theorem refuseSend_refuse (c : C) (e : Nat) (p : Pkt) (id : Nat) (hi : initiatingId p = some id)
    (hu : isUsed c.s id = true) : Refuse c (refuseSend c e p) id := by
  unfold refuseSend
  simp only [hi]
  refuse_tac

/-- the packets that start an exchange carry their identifier as `initiatingId` -/
theorem initiatingId_of_kind {p : Pkt} {id : Nat}
    (hk : p.kind = .publish ∨ p.kind = .subscribe ∨ p.kind = .unsubscribe) (hp : p.pid = some id) :
    initiatingId p = some id := by
  unfold initiatingId; rw [if_pos hk, hp]

/-- exact outcome of `refuseSend` -/
theorem refuseSend_none (c : C) (e : Nat) (p : Pkt) (hi : initiatingId p = none) :
    refuseSend c e p = c.err e := by
  unfold refuseSend; rw [hi]

theorem refuseSend_unused (c : C) (e : Nat) (p : Pkt) (id : Nat) (hi : initiatingId p = some id)
    (hu : isUsed c.s id = false) : refuseSend c e p = c.err e := by
  unfold refuseSend; rw [hi]
  show releaseIfUsed (c.err e) id = _
  exact releaseIfUsed_unused (c := c.err e) (by simpa using hu)

theorem refuseSend_used {c : C} (h : Wf c) (e : Nat) (p : Pkt) (id : Nat) (hi : initiatingId p = some id)
    (hu : isUsed c.s id = true) :
    refuseSend c e p =
      { c with s := { c.s with pidMan := (Alloc.deallocate c.s.pidMan id).2 },
               ev := c.ev ++ [.error e, .released id] } := by
  unfold refuseSend; rw [hi]
  have hw : Wf (c.err e) := h.congr (by simp) (by simp)
  show releaseIfUsed (c.err e) id = _
  rw [releaseIfUsed_used hw (by simpa using hu)]
  simp [C.push, C.err]

theorem Refuse.left {c c1 c' : C} {id : Nat} (r : Refuse c1 c' id) (q : Quiet c c1)
    (e : errs c1.ev = errs c.ev) : Refuse c c' id := by
  unfold Refuse at *
  rw [← e, ← q.2.2]; exact r

theorem psV5Publish_refuse (c : C) (p : Pkt) (id : Nat) (hq : p.qos > 0) (hp : p.pid = some id)
    (hu : isUsed c.s id = true) : Refuse c (psV5Publish c p) id := by
  unfold psV5Publish
  simp only [hq, hp, if_true]
  (repeat' (first | split | (simp only []; split))) <;>
    first
    | (refuse_tac; done)
    | (refine Refuse.left (psV5PublishAlias_refuse _ p _ _ id hp ?_) ?_ ?_ <;> refuse_tac; done)

end MqttVerif.Conn
