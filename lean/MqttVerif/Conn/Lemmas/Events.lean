import MqttVerif.Conn.Step
import MqttVerif.Conn.Lemmas.Resend
/-!
# Event-list lemmas: "every event pushed so far satisfies `P`" through every model function

`EvAll P l` = every event of `l` satisfies `P`.  A predicate is *lax* when it holds for every
event that is neither a send nor a close request.  Every model function preserves `EvAll P`
for lax `P`, given `P` of the packets it sends (and `P .close` for the closing functions).
Used by C19 (`P` = "not a close", "quiet") and C14 (`P` = "sent size within the limit").
-/
namespace MqttVerif.Conn
open MqttVerif

def Ev.passive : Ev → Prop
  | .send _ _ => False
  | .close => False
  | _ => True

/-- a structure (not a `def` unfolding to `∀`) so that `simp` can use implications between
    `EvAll` facts as conditional rewrite rules -/
structure EvAll (P : Ev → Prop) (l : List Ev) : Prop where
  h : ∀ e ∈ l, P e

theorem EvAll_iff (P : Ev → Prop) (l : List Ev) : EvAll P l ↔ ∀ e ∈ l, P e := ⟨fun h => h.h, fun h => ⟨h⟩⟩

/-- `P` holds for every passive event -/
def Lax (P : Ev → Prop) : Prop := ∀ e, e.passive → P e

theorem Lax.tr {P} (h : Lax P) (k ms) : P (.timerReset k ms) := h _ trivial
theorem Lax.tc {P} (h : Lax P) (k) : P (.timerCancel k) := h _ trivial
theorem Lax.rel {P} (h : Lax P) (id) : P (.released id) := h _ trivial
theorem Lax.er {P} (h : Lax P) (e) : P (.error e) := h _ trivial
theorem Lax.rcv {P} (h : Lax P) (p) : P (.recv p) := h _ trivial

@[simp] theorem EvAll_nil (P) : EvAll P [] := by simp [EvAll_iff]
@[simp] theorem EvAll_append (P) (a b : List Ev) : EvAll P (a ++ b) ↔ EvAll P a ∧ EvAll P b := by
  simp [EvAll_iff, or_imp, forall_and]
@[simp] theorem EvAll_single (P) (e : Ev) : EvAll P [e] ↔ P e := by simp [EvAll_iff]
@[simp] theorem EvAll_cons (P) (e : Ev) (l) : EvAll P (e :: l) ↔ P e ∧ EvAll P l := by simp [EvAll_iff]

@[simp] theorem push_ev (c : C) (e : Ev) : (c.push e).ev = c.ev ++ [e] := by cases c; rfl
@[simp] theorem push_s (c : C) (e : Ev) : (c.push e).s = c.s := by cases c; rfl
@[simp] theorem push_cfg (c : C) (e : Ev) : (c.push e).cfg = c.cfg := by cases c; rfl
@[simp] theorem err_ev (c : C) (e : Nat) : (c.err e).ev = c.ev ++ [.error e] := by cases c; rfl
@[simp] theorem err_s (c : C) (e : Nat) : (c.err e).s = c.s := by cases c; rfl
@[simp] theorem err_cfg (c : C) (e : Nat) : (c.err e).cfg = c.cfg := by cases c; rfl
@[simp] theorem setPanic_ev (c : C) (x : String) : (c.setPanic x).ev = c.ev := by cases c; rfl
@[simp] theorem setPanic_cfg (c : C) (x : String) : (c.setPanic x).cfg = c.cfg := by cases c; rfl
@[simp] theorem setPanic_mpsSend (c : C) (x : String) : (c.setPanic x).s.mpsSend = c.s.mpsSend := by cases c; rfl
@[simp] theorem setPanic_status (c : C) (x : String) : (c.setPanic x).s.status = c.s.status := by cases c; rfl
@[simp] theorem setPanic_ver (c : C) (x : String) : (c.setPanic x).s.ver = c.s.ver := by cases c; rfl
@[simp] theorem setPanic_store (c : C) (x : String) : (c.setPanic x).s.store = c.s.store := by cases c; rfl

section
variable {P : Ev → Prop}

theorem ite_all {b : Prop} [Decidable b] {x y : C} (hx : b → EvAll P x.ev) (hy : ¬ b → EvAll P y.ev) :
    EvAll P (if b then x else y).ev := by
  split <;> simp_all

@[simp] theorem EvAll_ite {b : Prop} [Decidable b] {x y : C} :
    EvAll P (if b then x else y).ev ↔ (b → EvAll P x.ev) ∧ (¬ b → EvAll P y.ev) := by
  split <;> simp_all

theorem cancelTimers_all (hP : Lax P) (c : C) (h : EvAll P c.ev) : EvAll P (cancelTimers c).ev := by
  cases h1 : c.s.sendSet <;> cases h2 : c.s.recvSet <;> cases h3 : c.s.respSet <;>
    simp [cancelTimers, h1, h2, h3, h, hP.tc]

theorem sendPostProcess_all (hP : Lax P) (c : C) (h : EvAll P c.ev) : EvAll P (sendPostProcess c).ev := by
  unfold sendPostProcess
  refine ite_all (fun _ => ?_) (fun _ => h)
  exact ite_all (fun _ => by simp [h, hP.tr]) (fun _ => h)

theorem refreshPingreqRecv_all (hP : Lax P) (c : C) (h : EvAll P c.ev) : EvAll P (refreshPingreqRecv c).ev := by
  unfold refreshPingreqRecv
  split
  · simp [h, hP.tr]
  · exact h

@[simp] theorem releaseId_ev (c : C) (id : Nat) : (releaseId c id).ev = c.ev := by
  cases h : (Alloc.deallocate c.s.pidMan id).1 <;> simp [releaseId, h]

theorem releaseIfUsed_all (hP : Lax P) (c : C) (id : Nat) (h : EvAll P c.ev) : EvAll P (releaseIfUsed c id).ev := by
  unfold releaseIfUsed
  split
  · simp [h, hP.rel]
  · exact h

/-- a send refused before its handler: one error, then possibly one release -/
theorem refuseSend_all (hP : Lax P) (c : C) (e : Nat) (p : Pkt) (h : EvAll P c.ev) :
    EvAll P (refuseSend c e p).ev := by
  unfold refuseSend
  split
  · exact releaseIfUsed_all hP _ _ (by simp [h, hP.er])
  · simp [h, hP.er]

@[simp] theorem initConn_ev (c : C) (b : Bool) : (initConn c b).ev = c.ev := by cases c; rfl
@[simp] theorem clearStoreRelated_ev (c : C) : (clearStoreRelated c).ev = c.ev := by cases c; rfl
@[simp] theorem storeAdd_ev (c : C) (id p site) : (storeAdd c id p site).ev = c.ev := by
  unfold storeAdd; split <;> rfl
@[simp] theorem tasInsert_ev (c : C) (t a site) : (tasInsert c t a site).ev = c.ev := by
  unfold tasInsert; (repeat' split) <;> rfl
@[simp] theorem validateTopicAlias_ev (c : C) (ao) : (validateTopicAlias c ao).2.ev = c.ev := by
  unfold validateTopicAlias; (repeat' split) <;> rfl
@[simp] theorem decSendCount_ev (c : C) : (decSendCount c).ev = c.ev := by
  unfold decSendCount; split <;> rfl
@[simp] theorem connectSendProp_ev (c : C) (id v) : (connectSendProp c id v).ev = c.ev := by
  unfold connectSendProp; (repeat' split) <;> rfl
@[simp] theorem connectRecvProp_ev (c : C) (id v) : (connectRecvProp c id v).ev = c.ev := by
  unfold connectRecvProp; (repeat' split) <;> rfl
@[simp] theorem autoAlias_ev (c : C) (p) : (autoAlias c p).1.ev = c.ev := by
  unfold autoAlias; (repeat' split) <;> simp [apply_ite Prod.fst, apply_ite C.ev]

theorem pubRefuseCleanup_all (hP : Lax P) (c : C) (pid) (h : EvAll P c.ev) : EvAll P (pubRefuseCleanup c pid).ev := by
  unfold pubRefuseCleanup
  split
  · exact h
  · split
    · simp [h, hP.rel]
    · exact h

theorem connackSendProp_all (hP : Lax P) (c : C) (id v) (h : EvAll P c.ev) : EvAll P (connackSendProp c id v).ev := by
  unfold connackSendProp
  (repeat' split) <;> simp [h, hP.tr, hP.tc]

theorem connackRecvProp_all (hP : Lax P) (c : C) (id v) (h : EvAll P c.ev) : EvAll P (connackRecvProp c id v).ev := by
  unfold connackRecvProp
  (repeat' split) <;> simp [h, hP.tr, hP.tc]

theorem propsFold_all {f : C → Nat → Nat → C} (hf : ∀ c id v, EvAll P c.ev → EvAll P (f c id v).ev)
    (c : C) (l) (h : EvAll P c.ev) : EvAll P (propsFold f c l).ev := by
  induction l generalizing c with
  | nil => exact h
  | cons x rest ih => exact ih _ (hf _ _ _ h)

theorem releaseAll_all (hP : Lax P) (c : C) (l) (h : EvAll P c.ev) : EvAll P (releaseAll c l).ev := by
  induction l generalizing c with
  | nil => exact h
  | cons x rest ih => exact ih _ (releaseIfUsed_all hP _ _ h)

end
end MqttVerif.Conn
