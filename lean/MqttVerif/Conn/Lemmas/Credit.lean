import MqttVerif.Conn.Lemmas.AliasStep
/-!
# C12 helpers: the two `publish_send_count += 1` sites never wrap (agent P6)

`CWS c c'`: the call from `c` to `c'` does not raise a counter panic provided at most 4294967295
packets are stored, and does not grow the store (so that `send_stored`, which may follow in the
same call, still sees at most 4294967295 entries).
-/
set_option linter.unusedSimpArgs false
set_option linter.unusedVariables false
namespace MqttVerif.Conn
open MqttVerif

structure CWS (c c' : C) : Prop where
  cp : c.s.store.length ≤ 4294967295 → cpOf c'.s.panic = cpOf c.s.panic
  len : c'.s.store.length ≤ c.s.store.length

theorem CWS.refl (c : C) : CWS c c := ⟨fun _ => rfl, Nat.le_refl _⟩
theorem CWS.trans {a b c : C} (h1 : CWS a b) (h2 : CWS b c) : CWS a c :=
  ⟨fun h => (h2.cp (Nat.le_trans h1.len h)).trans (h1.cp h), Nat.le_trans h2.len h1.len⟩
theorem CWS.of_frames {c c' : C} (h1 : cpOf c'.s.panic = cpOf c.s.panic) (h2 : c'.s.store.length ≤ c.s.store.length) :
    CWS c c' := ⟨fun _ => h1, h2⟩
theorem CWS.upd {a c : C} (s' : St) (h : CWS a c) (h1 : s'.tas = c.s.tas ∨ s'.tas = none) (h2 : s'.store = c.s.store)
    (h3 : s'.panic = c.s.panic := by rfl) :
    CWS a { cfg := c.cfg, s := s', ev := c.ev } :=
  CWS.trans h (CWS.of_frames (by simp [h3]) (by simp [h2]))
theorem CWS.ite {a : C} {p : Prop} [Decidable p] {x y : C} (hx : CWS a x) (hy : CWS a y) :
    CWS a (if p then x else y) := by split <;> assumption

macro "cws_frames" : tactic => `(tactic| exact CWS.of_frames (by simp) (by simp))

theorem cws_err (c : C) (e : Nat) : CWS c (c.err e) := by cws_frames
theorem cws_push_notPub (c : C) (p : Pkt) (r : Option Nat) (h : NotPub p) : CWS c (c.push (.send p r)) := by cws_frames
theorem cws_push_other (c : C) (e : Ev) (h : pubsOf e = []) : CWS c (c.push e) := by cws_frames
theorem cws_sendPostProcess (c : C) : CWS c (sendPostProcess c) := by cws_frames
theorem cws_cancelTimers (c : C) : CWS c (cancelTimers c) := by cws_frames
theorem cws_refresh (c : C) : CWS c (refreshPingreqRecv c) := by cws_frames
theorem cws_handleV3Error (c : C) (e : Nat) : CWS c (handleV3Error c e) := by cws_frames
theorem cws_handleV5Error (c : C) (e : Nat) : CWS c (handleV5Error c e) := by cws_frames
theorem cws_initConn (c : C) (b : Bool) : CWS c (initConn c b) := CWS.of_frames (by simp [initConn]) (by simp [initConn])
theorem cws_clearStoreRelated (c : C) : CWS c (clearStoreRelated c) :=
  CWS.of_frames (by simp [clearStoreRelated]) (by simp [clearStoreRelated])

theorem cws_propsFold (f : C → Nat → Nat → C) (hf : ∀ c id v, CWS c (f c id v)) (c : C)
    (l : List (Nat × Nat)) : CWS c (propsFold f c l) := by
  induction l generalizing c with
  | nil => exact CWS.refl c
  | cons e r ih => obtain ⟨id, v⟩ := e; exact CWS.trans (hf c id v) (ih _)

theorem cws_connectSendProp (c : C) (id v : Nat) : CWS c (connectSendProp c id v) := by
  unfold connectSendProp
  (repeat' split) <;> first | exact CWS.refl _ | exact CWS.of_frames rfl (Nat.le_refl _)
theorem cws_connackSendProp (c : C) (id v : Nat) : CWS c (connackSendProp c id v) := by
  unfold connackSendProp; dsimp only
  (repeat' split) <;> first | exact CWS.refl _ | exact CWS.of_frames rfl (Nat.le_refl _)
theorem cws_connectRecvProp (c : C) (id v : Nat) : CWS c (connectRecvProp c id v) := by
  unfold connectRecvProp
  (repeat' split) <;> first | exact CWS.refl _ | exact CWS.of_frames rfl (Nat.le_refl _)
theorem cws_connackRecvProp (c : C) (id v : Nat) : CWS c (connackRecvProp c id v) := by
  unfold connackRecvProp; dsimp only
  (repeat' split) <;>
    first
    | exact CWS.refl _
    | exact CWS.of_frames rfl (Nat.le_refl _)
    | exact CWS.of_frames (by simp [OtherSite, siteStored, sitePublish]) (by simp)
    | exact CWS.of_frames (by simp [clearStoreRelated]) (by simp [clearStoreRelated])

/-- `send_stored` recounts from zero; with at most 4294967295 stored packets the counter cannot wrap -/
theorem cws_sendStored (c : C) : CWS c (sendStored c) := by
  have hsub := (sendStoredLoop_sub (resetCount c) c.s.store).length_le
  rw [sendStored_eq]
  refine ⟨?_, by simpa using hsub⟩
  intro hlen
  simp only
  by_cases hm : c.s.sendMax.isSome
  · have := (sendStoredLoop_count (resetCount c) c.s.store (by simpa using hm)
      (by rw [resetCount_sendCount]; simp only [hm, if_true]; omega)).2
    simpa using this
  · have hm' : c.s.sendMax = none := by simpa using hm
    have := (sendStoredLoop_count_none (resetCount c) c.s.store (by simpa using hm')).2
    simpa using this

theorem cws_resendStored (c : C) : CWS c (resendStored c) :=
  resendStored_ind (Q := fun x => CWS c x) c (cws_sendStored c) (fun h => h.trans (cws_sendPostProcess _))

theorem cws_psV3Connect (c : C) (p : Pkt) (h : NotPub p) : CWS c (psV3Connect c p) := by
  unfold psV3Connect
  split
  · exact cws_err _ _
  · let c1 := initConn c true
    have h1 : CWS c c1 := cws_initConn c true
    let c2 : C := { c1 with s := { c1.s with status := .connecting, keepAliveMs := p.keepAlive * 1000 } }
    have h2 : CWS c c2 := CWS.upd _ h1 (Or.inl rfl) rfl
    let c3 : C := if p.clean then clearStoreRelated c2 else { c2 with s := { c2.s with needStore := true } }
    have h3 : CWS c c3 :=
      CWS.ite (CWS.trans h2 (cws_clearStoreRelated c2)) (CWS.upd _ h2 (Or.inl rfl) rfl)
    let c4 : C := { c3 with s := { c3.s with tas := none } }
    have h4 : CWS c c4 := CWS.upd _ h3 (Or.inr rfl) rfl
    exact CWS.trans (CWS.trans h4 (cws_push_notPub c4 p none h)) (cws_sendPostProcess _)

theorem cws_psV5Connect (c : C) (p : Pkt) (h : NotPub p) : CWS c (psV5Connect c p) := by
  unfold psV5Connect
  split
  · exact cws_err _ _
  split
  · exact cws_err _ _
  · let c1 := initConn c true
    have h1 : CWS c c1 := cws_initConn c true
    let c2 : C := { c1 with s := { c1.s with status := .connecting, keepAliveMs := p.keepAlive * 1000 } }
    have h2 : CWS c c2 := CWS.upd _ h1 (Or.inl rfl) rfl
    let c3 : C := if p.clean then clearStoreRelated c2 else c2
    have h3 : CWS c c3 := CWS.ite (CWS.trans h2 (cws_clearStoreRelated c2)) h2
    let c4 := propsFold connectSendProp c3 p.props
    have h4 : CWS c c4 := CWS.trans h3 (cws_propsFold _ cws_connectSendProp _ _)
    exact CWS.trans (CWS.trans h4 (cws_push_notPub c4 p none h)) (cws_sendPostProcess _)

theorem cws_connackTail (c0 c : C) (p : Pkt) (h0 : CWS c0 c) :
    CWS c0 (if p.rc ≠ some 0 then
      (cancelTimers { c with s := { c.s with status := .disconnected } }).push .close
    else sendPostProcess (if p.sp then sendStored { c with s := { c.s with status := .connected } }
      else clearStoreRelated { c with s := { c.s with status := .connected } })) := by
  let ca : C := { c with s := { c.s with status := .disconnected } }
  have ha : CWS c0 ca := CWS.upd _ h0 (Or.inl rfl) rfl
  let cb : C := { c with s := { c.s with status := .connected } }
  have hb : CWS c0 cb := CWS.upd _ h0 (Or.inl rfl) rfl
  exact CWS.ite (CWS.trans (CWS.trans ha (cws_cancelTimers ca)) (cws_push_other _ _ rfl))
    (CWS.trans (CWS.ite (CWS.trans hb (cws_sendStored cb)) (CWS.trans hb (cws_clearStoreRelated cb)))
      (cws_sendPostProcess _))

theorem cws_psV3Connack (c : C) (p : Pkt) (h : NotPub p) : CWS c (psV3Connack c p) := by
  unfold psV3Connack
  split
  · exact cws_err _ _
  · exact cws_connackTail c (c.push (.send p none)) p (cws_push_notPub c p none h)

theorem cws_psV5Connack (c : C) (p : Pkt) (h : NotPub p) : CWS c (psV5Connack c p) := by
  unfold psV5Connack
  split
  · exact cws_err _ _
  split
  · exact cws_err _ _
  · let c1 : C := if p.rc = some 0 then propsFold connackSendProp c p.props else c
    have h1 : CWS c c1 := CWS.ite (cws_propsFold _ cws_connackSendProp _ _) (CWS.refl c)
    exact cws_connackTail c (c1.push (.send p none)) p (CWS.trans h1 (cws_push_notPub c1 p none h))

theorem cws_prV3Connect (c : C) (x : Except Nat Pkt) : CWS c (prV3Connect c x) := by
  unfold prV3Connect
  split
  · exact cws_handleV3Error _ _
  · let c0 : C := { c with s := { c.s with status := .connecting } }
    have h0 : CWS c c0 := CWS.upd _ (CWS.refl c) (Or.inl rfl) rfl
    cases x with
    | error e => exact CWS.trans (CWS.trans h0 (cws_psV3Connack c0 _ (by simp))) (cws_err _ _)
    | ok p =>
      let c1 := initConn c0 false
      have h1 : CWS c c1 := CWS.trans h0 (cws_initConn c0 false)
      let c2 : C := if p.keepAlive > 0 then { c1 with s := { c1.s with recvTimeoutMs := p.keepAlive * 1000 * 3 / 2 } } else c1
      have h2 : CWS c c2 := CWS.ite (CWS.upd _ h1 (Or.inl rfl) rfl) h1
      let c3 : C := if p.clean then clearStoreRelated c2 else { c2 with s := { c2.s with needStore := true } }
      have h3 : CWS c c3 :=
        CWS.ite (CWS.trans h2 (cws_clearStoreRelated c2)) (CWS.upd _ h2 (Or.inl rfl) rfl)
      exact CWS.trans (CWS.trans h3 (cws_refresh c3)) (cws_push_other _ _ rfl)

theorem cws_prV5Connect (c : C) (x : Except Nat Pkt) : CWS c (prV5Connect c x) := by
  unfold prV5Connect
  split
  · exact cws_handleV5Error _ _
  · let c0 : C := { c with s := { c.s with status := .connecting } }
    have h0 : CWS c c0 := CWS.upd _ (CWS.refl c) (Or.inl rfl) rfl
    cases x with
    | error e => exact CWS.trans (CWS.trans h0 (cws_psV5Connack c0 _ (by simp))) (cws_err _ _)
    | ok p =>
      let c1 := initConn c0 false
      have h1 : CWS c c1 := CWS.trans h0 (cws_initConn c0 false)
      let c2 : C := if p.keepAlive > 0 then { c1 with s := { c1.s with recvTimeoutMs := p.keepAlive * 1000 * 3 / 2 } } else c1
      have h2 : CWS c c2 := CWS.ite (CWS.upd _ h1 (Or.inl rfl) rfl) h1
      let c3 : C := if p.clean then clearStoreRelated c2 else c2
      have h3 : CWS c c3 := CWS.ite (CWS.trans h2 (cws_clearStoreRelated c2)) h2
      let c4 := propsFold connectRecvProp c3 p.props
      have h4 : CWS c c4 := CWS.trans h3 (cws_propsFold _ cws_connectRecvProp _ _)
      exact CWS.trans (CWS.trans h4 (cws_refresh c4)) (cws_push_other _ _ rfl)

theorem cws_prV3Connack (c : C) (x : Except Nat Pkt) : CWS c (prV3Connack c x) := by
  unfold prV3Connack
  split
  · exact cws_handleV3Error _ _
  · cases x with
    | error e => exact cws_handleV3Error _ _
    | ok p =>
      let c0 : C := { c with s := { c.s with status := .connected } }
      have h0 : CWS c c0 := CWS.upd _ (CWS.refl c) (Or.inl rfl) rfl
      let c1 : C := if p.rc = some 0 then (if p.sp then resendStored c0 else clearStoreRelated c0) else c
      have h1 : CWS c c1 :=
        CWS.ite (CWS.ite (CWS.trans h0 (cws_resendStored c0)) (CWS.trans h0 (cws_clearStoreRelated c0)))
          (CWS.refl c)
      exact CWS.trans h1 (cws_push_other _ _ rfl)

theorem cws_prV5Connack (c : C) (x : Except Nat Pkt) : CWS c (prV5Connack c x) := by
  unfold prV5Connack
  split
  · exact cws_handleV5Error _ _
  · cases x with
    | error e => exact cws_err _ _
    | ok p =>
      let c0 : C := { c with s := { c.s with status := .connected } }
      have h0 : CWS c c0 := CWS.upd _ (CWS.refl c) (Or.inl rfl) rfl
      let c1 := propsFold connackRecvProp c0 p.props
      have h1 : CWS c c1 := CWS.trans h0 (cws_propsFold _ cws_connackRecvProp _ _)
      let c2 : C := if p.rc = some 0 then (if p.sp then resendStored c1 else clearStoreRelated c1) else c
      have h2 : CWS c c2 :=
        CWS.ite (CWS.ite (CWS.trans h1 (cws_resendStored c1)) (CWS.trans h1 (cws_clearStoreRelated c1)))
          (CWS.refl c)
      exact CWS.trans h2 (cws_push_other _ _ rfl)


/-! ## the increment in `process_send_v5_0_publish` -/

theorem not_blocked_lt {s : St} {p : Pkt} (hb : sendBlocked s p = false) (hq : p.qos > 0) {M : Nat}
    (hM : s.sendMax = some M) : s.sendCount < M := by
  unfold sendBlocked at hb
  simp [hq, hM] at hb
  exact hb

theorem tail_count (c : C) (q : Pkt) (rel : Option Nat) :
    (psV5PublishTail c q rel).s.sendCount =
      if q.qos > 0 ∧ c.s.sendMax.isSome then (c.s.sendCount + 1) % 4294967296 else c.s.sendCount := by
  unfold psV5PublishTail; dsimp only
  (repeat' split) <;> simp_all [C.setPanic]

theorem tail_cp (c : C) (q : Pkt) (rel : Option Nat)
    (h : q.qos > 0 → c.s.sendMax.isSome → c.s.sendCount < 4294967295) :
    cpOf (psV5PublishTail c q rel).s.panic = cpOf c.s.panic := by
  unfold psV5PublishTail; dsimp only
  split
  · rename_i hc
    have := h hc.1 hc.2
    have h1 : ¬ c.s.sendCount ≥ 4294967295 := by omega
    simp only [h1, if_false]
    split <;> simp
  · split <;> simp

theorem psV5PublishAlias_cp (c : C) (p : Pkt) (rel : Option Nat) (v : Bool)
    (hM : ∀ M, c.s.sendMax = some M → M ≤ 65535) :
    cpOf (psV5PublishAlias c p rel v).s.panic = cpOf c.s.panic := by
  rw [psV5PublishAlias_eq]
  split
  · simp
  · rename_i hb
    have hb' : sendBlocked c.s p = false := by simpa using hb
    have hlt : p.qos > 0 → c.s.sendMax.isSome → c.s.sendCount < 4294967295 := by
      intro hq hs
      obtain ⟨M, hM'⟩ := Option.isSome_iff_exists.1 hs
      have := not_blocked_lt hb' hq hM'
      have := hM M hM'
      omega
    split
    · cases v with
      | true =>
        simp only [Bool.not_true, Bool.false_eq_true, false_and, if_false, if_true]
        exact tail_cp _ _ _ hlt
      | false =>
        simp only [Bool.false_eq_true, if_false, Bool.not_false, true_and]
        split
        · simp
        · rw [tail_cp _ _ _ (by simpa using hlt)]; simp
    · split
      · split
        · rw [tail_cp _ _ _ (by
            split <;> simpa using hlt)]
          split <;> simp [OtherSite, siteStored, sitePublish]
        · simp
      · have hq : (autoAlias c p).2.qos = p.qos := by
          unfold autoAlias; dsimp only; (repeat' (first | split | (simp; done)))
        rw [tail_cp _ _ _ (by rw [hq]; simpa using hlt)]; simp

theorem psV5Publish_cp (c : C) (p : Pkt) (hM : ∀ M, c.s.sendMax = some M → M ≤ 65535) :
    cpOf (psV5Publish c p).s.panic = cpOf c.s.panic := by
  rw [psV5Publish_eq]
  (repeat' split) <;>
    first
    | (simp [OtherSite, siteStored, sitePublish]; done)
    | (rw [psV5PublishAlias_cp _ _ _ _ (by simpa using hM)]; try simp [OtherSite, siteStored, sitePublish])

/-! ## dispatch: no call raises a counter panic -/

/-- the two standing assumptions: the peer's Receive Maximum is a `u16`, at most 4294967295 packets
    are stored -/
structure WrapPre (s : St) : Prop where
  max : ∀ M, s.sendMax = some M → M ≤ 65535
  len : s.store.length ≤ 4294967295

theorem restorePackets_cp (c : C) (ps : List Pkt) : cpOf (restorePackets c ps).s.panic = cpOf c.s.panic := by
  induction ps generalizing c with
  | nil => rfl
  | cons p r ih => simp only [restorePackets]; rw [ih]; simp

theorem processSend_cp (c : C) (p : Pkt) (h : WrapPre c.s) :
    cpOf (processSend c p).s.panic = cpOf c.s.panic := by
  unfold processSend
  (repeat' split) <;>
    first
    | (simp; done)
    | exact (cws_psV3Connect c p (notPub_of_ver (by omega))).cp h.len
    | exact (cws_psV3Connack c p (notPub_of_ver (by omega))).cp h.len
    | exact (cws_psV5Connect c p (notPub_of_kind (by simp_all))).cp h.len
    | exact (cws_psV5Connack c p (notPub_of_kind (by simp_all))).cp h.len
    | exact psV5Publish_cp c p h.max

theorem dispatchRecv_cp (c : C) (t : Nat) (x : Except Nat Pkt) (h : WrapPre c.s) :
    cpOf (dispatchRecv c t x).s.panic = cpOf c.s.panic := by
  unfold dispatchRecv
  (repeat' split) <;>
    first
    | (simp; done)
    | exact (cws_prV3Connect c x).cp h.len
    | exact (cws_prV5Connect c x).cp h.len
    | exact (cws_prV3Connack c x).cp h.len
    | exact (cws_prV5Connack c x).cp h.len

theorem processRecvPacket_cp (c : C) (fh : Nat) (data : List Nat) (parse : Nat → Except Nat Pkt)
    (h : WrapPre c.s) : cpOf (processRecvPacket c fh data parse).s.panic = cpOf c.s.panic := by
  unfold processRecvPacket; dsimp only
  (repeat' split) <;>
    first
    | (simp; done)
    | exact dispatchRecv_cp c _ _ h
    | exact (cws_prV3Connect { c with s := { c.s with ver := 4 } } _).cp h.len
    | exact (cws_prV5Connect { c with s := { c.s with ver := 5 } } _).cp h.len

theorem recv_cp (c : C) (inp : List Nat) (parse : Nat → Nat → List Nat → Except Nat Pkt) (h : WrapPre c.s) :
    cpOf (recv c inp parse).1.s.panic = cpOf c.s.panic := by
  unfold recv
  generalize Framing.feed c.s.pb inp = r
  obtain ⟨pb, out, rest⟩ := r
  dsimp only
  split
  · rfl
  · exact processRecvPacket_cp { c with s := { c.s with pb := pb } } _ _ _ ⟨h.max, h.len⟩
  · simp

theorem step_cp (cfg : Cfg) (s : St) (op : Op) (h : WrapPre s) :
    cpOf (step cfg s op).s.panic = cpOf s.panic := by
  cases op with
  | send p =>
    simp only [step]; unfold send
    (repeat' split) <;> first | (simp; done) | exact processSend_cp _ _ h
  | recv inp parse => exact recv_cp _ _ _ h
  | setFlag f b => cases f <;> rfl
  | restorePackets ps => exact restorePackets_cp _ _
  | _ => simp [step]

/-! ## the send gate: exact effect of a refusal / an acceptance -/

theorem del_ins {id : Nat} {l : List Nat} (h : id ∉ l) : del id (ins id l) = l := by
  unfold ins del
  simp only [h, if_false, List.filter_cons, ne_eq, not_true_eq_false, decide_false, Bool.false_eq_true]
  rw [List.filter_eq_self]
  intro a ha; simp; intro e; subst e; exact h ha

theorem del_not_mem {id : Nat} {l : List Nat} (h : id ∉ l) : del id l = l := by
  unfold del; rw [List.filter_eq_self]; intro a ha; simp; intro e; subst e; exact h ha

theorem erase_not_mem {α : Type} {id : Nat} {l : List (Nat × α)} (h : lookup id l = none) : erase id l = l := by
  unfold erase; rw [List.filter_eq_self]
  intro a ha; have := (lookup_none_iff id l).1 h a ha; simpa using this

theorem storeHas_false {id : Nat} {st : List (Nat × Pkt)} (h : lookup id st = none) : storeHas id st = false := by
  unfold storeHas
  have := (lookup_none_iff id st).1 h
  simp only [List.any_eq_false, decide_eq_true_eq]
  intro x hx; exact this x hx

theorem storeErasePublish_append {id : Nat} {st : List (Nat × Pkt)} {q : Pkt} (h : lookup id st = none)
    (hk : q.kind = .publish) : (storeErasePublish id (st ++ [(id, q)])).2 = st := by
  unfold storeErasePublish
  have hl : lookup id (st ++ [(id, q)]) = some q := by rw [lookup_append, h]; simp [lookup]
  simp only [hl, hk, if_true]
  unfold erase
  rw [List.filter_append, List.filter_eq_self.2]
  · simp
  · intro a ha; have := (lookup_none_iff id st).1 h a ha; simpa using this

theorem storeErasePublish_none {id : Nat} {st : List (Nat × Pkt)} (h : lookup id st = none) :
    (storeErasePublish id st).2 = st := by
  unfold storeErasePublish; simp [h]

theorem storeAdd_fresh (c : C) (id : Nat) (q : Pkt) (site : String) (h : lookup id c.s.store = none) :
    storeAdd c id q site = { c with s := { c.s with store := c.s.store ++ [(id, q)] } } := by
  unfold storeAdd; simp [storeHas_false h]

@[simp] theorem addWait_pidMan (c : C) (qos id : Nat) : (addWait c qos id).s.pidMan = c.s.pidMan := by
  unfold addWait; split <;> rfl
@[simp] theorem addWait_ev (c : C) (qos id : Nat) : (addWait c qos id).ev = c.ev := by
  unfold addWait; split <;> rfl
theorem addWait_sets (c : C) (qos id : Nat) (h1 : id ∉ c.s.puback) (h2 : id ∉ c.s.pubrec) :
    del id (addWait c qos id).s.puback = c.s.puback ∧ del id (addWait c qos id).s.pubrec = c.s.pubrec := by
  unfold addWait; split <;> simp [del_ins, del_not_mem, h1, h2]

theorem gate_refuse_eq (c : C) (p : Pkt) (rel : Option Nat) (v : Bool) (hb : sendBlocked c.s p = true) :
    psV5PublishAlias c p rel v = pubRefuseCleanup (c.err eRMExceeded) p.pid := by
  rw [psV5PublishAlias_eq]; simp [hb]

theorem pubRefuseCleanup_used (c : C) (id : Nat) (hu : isUsed c.s id = true) :
    (pubRefuseCleanup c (some id)).ev = c.ev ++ [.released id] ∧
    (pubRefuseCleanup c (some id)).s.store = (storeErasePublish id c.s.store).2 ∧
    (pubRefuseCleanup c (some id)).s.puback = del id c.s.puback ∧
    (pubRefuseCleanup c (some id)).s.pubrec = del id c.s.pubrec ∧
    (pubRefuseCleanup c (some id)).s.pidMan = (Alloc.deallocate c.s.pidMan id).2 := by
  unfold pubRefuseCleanup
  simp only [hu, if_true]
  refine ⟨by simp, by simp, by simp, by simp, ?_⟩
  simp only [push_s]
  unfold releaseId; dsimp only; split <;> rfl

@[simp] theorem storeAdd_pidMan (c : C) (id : Nat) (q : Pkt) (site : String) :
    (storeAdd c id q site).s.pidMan = c.s.pidMan := by
  unfold storeAdd; split <;> rfl

@[simp] theorem storeAdd_ev (c : C) (id : Nat) (q : Pkt) (site : String) : (storeAdd c id q site).ev = c.ev := by
  unfold storeAdd; split <;> rfl

/-- the refusal, for any context `c1` that differs from `c` only by the bookkeeping done before
    the gate (`store'` = the store with or without the new entry) -/
theorem refuse_core (c c1 : C) (p : Pkt) (id : Nat) (rel : Option Nat)
    (hcore : c1.s.core = { c.s with store := c1.s.store }.core) (hev : c1.ev = c.ev) (hpid : c1.s.pidMan = c.s.pidMan)
    (hstore : (storeErasePublish id c1.s.store).2 = c.s.store)
    (hb : sendBlocked c.s p = true) (hid : p.pid = some id) (hu : isUsed c.s id = true)
    (h1 : id ∉ c.s.puback) (h2 : id ∉ c.s.pubrec) :
    (psV5PublishAlias (addWait c1 p.qos id) p rel false).ev = c.ev ++ [.error eRMExceeded, .released id] ∧
    (psV5PublishAlias (addWait c1 p.qos id) p rel false).s.core = c.s.core ∧
    (psV5PublishAlias (addWait c1 p.qos id) p rel false).s.pidMan = (Alloc.deallocate c.s.pidMan id).2 := by
  have f : ∀ {β : Type} (F : Core → β), F c1.s.core = F ({ c.s with store := c1.s.store } : St).core :=
    fun F => congrArg F hcore
  have fsm : c1.s.sendMax = c.s.sendMax := f Core.sendMax
  have fsc : c1.s.sendCount = c.s.sendCount := f Core.sendCount
  have fpa : c1.s.puback = c.s.puback := f Core.puback
  have fpr : c1.s.pubrec = c.s.pubrec := f Core.pubrec
  have hb' : sendBlocked (addWait c1 p.qos id).s p = true := by
    unfold sendBlocked at hb ⊢; simpa [fsm, fsc] using hb
  rw [gate_refuse_eq _ _ _ _ hb', hid]
  obtain ⟨e1, e2, e3, e4, e5⟩ := pubRefuseCleanup_used ((addWait c1 p.qos id).err eRMExceeded) id
    (by simpa [isUsed, hpid] using hu)
  obtain ⟨w1, w2⟩ := addWait_sets c1 p.qos id (fpa ▸ h1) (fpr ▸ h2)
  refine ⟨by simp [e1, hev], ?_, by simp [e5, hpid]⟩
  simp only [St.core, Core.mk.injEq]
  refine ⟨?_, ?_, ?_, ?_, ?_, ?_, ?_, ?_, ?_, ?_, ?_, ?_, ?_, ?_⟩
  · have h := f Core.ver; simp only [St.core] at h; simpa using h
  · have h := f Core.tas; simp only [St.core] at h; simpa using h
  · have h := f Core.tar; simp only [St.core] at h; simpa using h
  · rw [e2]; simpa using hstore
  · have h := f Core.sendMax; simp only [St.core] at h; simpa using h
  · have h := f Core.sendCount; simp only [St.core] at h; simpa using h
  · rw [e3]; simp only [err_s]; rw [w1, fpa]
  · rw [e4]; simp only [err_s]; rw [w2, fpr]
  · have h := f Core.pubcomp; simp only [St.core] at h; simpa using h
  · have h := f Core.publishRecv; simp only [St.core] at h; simpa using h
  · have h := f Core.recvMax; simp only [St.core] at h; simpa using h
  · have h := f Core.status; simp only [St.core] at h; simpa using h
  · have h := f Core.needStore; simp only [St.core] at h; simpa using h
  · have h := f Core.cp; simp only [St.core] at h; simpa using h

/-- **refusal**: with the peer's Receive Maximum exhausted a QoS>0 PUBLISH that passed all other
    checks is answered with ReceiveMaximumExceeded, its identifier is released and announced, no
    packet is requested for sending and every field the properties talk about is as before -/
theorem psV5Publish_refused (c : C) (p : Pkt) (id M : Nat) (hsz : sizeOk c p = true) (hq : p.qos > 0)
    (hid : p.pid = some id) (hna : pubNotAllowed c.s = false) (hu : isUsed c.s id = true)
    (hk : p.kind = .publish) (ht : p.topic ≠ [])
    (hM : c.s.sendMax = some M) (hge : c.s.sendCount ≥ M)
    (h1 : id ∉ c.s.puback) (h2 : id ∉ c.s.pubrec) (h3 : lookup id c.s.store = none) :
    (psV5Publish c p).ev = c.ev ++ [.error eRMExceeded, .released id] ∧
    (psV5Publish c p).s.core = c.s.core ∧
    (psV5Publish c p).s.pidMan = (Alloc.deallocate c.s.pidMan id).2 := by
  have ht' : p.topic.isEmpty = false := by simpa using ht
  have hb : sendBlocked c.s p = true := by unfold sendBlocked; simp [hM, hq, hge]
  rw [psV5Publish_eq]
  simp only [hsz, Bool.not_true, Bool.false_eq_true, if_false, hq, if_true, hid, hna, hu, ht']
  split
  · refine refuse_core c _ p id none ?_ (by simp) (by simp) ?_ hb hid hu h1 h2
    · simp [St.core, OtherSite, siteStored, sitePublish]
    · rw [storeAdd_fresh c id _ _ h3]; exact storeErasePublish_append h3 (by simpa using hk)
  · exact refuse_core c c p id (some id) (by simp [St.core]) rfl rfl (storeErasePublish_none h3) hb hid hu h1 h2


theorem sendPostProcess_noerr (c : C) (x : Nat) (h : Ev.error x ∈ (sendPostProcess c).ev) : Ev.error x ∈ c.ev := by
  unfold sendPostProcess at h; dsimp only at h
  (repeat' split at h) <;> simp_all

def tailCount (c : C) (q : Pkt) : C :=
  if q.qos > 0 ∧ c.s.sendMax.isSome then
    (if c.s.sendCount ≥ 4294967295 then c.setPanic "core.rs:process_send_v5_0_publish:publish_send_count+=1" else c)
    |> fun c => { c with s := { c.s with sendCount := (c.s.sendCount + 1) % 4294967296 } }
  else c

theorem tail_eq (c : C) (q : Pkt) (rel : Option Nat) : psV5PublishTail c q rel =
    if (tailCount c q).s.status = .connected then sendPostProcess ((tailCount c q).push (.send q rel))
    else tailCount c q := rfl

theorem tailCount_ev (c : C) (q : Pkt) : (tailCount c q).ev = c.ev := by
  unfold tailCount; (repeat' split) <;> rfl

theorem tail_noerr (c : C) (q : Pkt) (rel : Option Nat) (x : Nat)
    (h : Ev.error x ∈ (psV5PublishTail c q rel).ev) : Ev.error x ∈ c.ev := by
  rw [tail_eq] at h
  split at h
  · have := sendPostProcess_noerr _ _ h
    simpa [tailCount_ev] using this
  · simpa [tailCount_ev] using h

@[simp] theorem tasInsert_ev (c : C) (topic : List Nat) (a : Nat) (site : String) :
    (tasInsert c topic a site).ev = c.ev := by
  unfold tasInsert; (repeat' split) <;> rfl

theorem autoAlias_ev (c : C) (p : Pkt) : (autoAlias c p).1.ev = c.ev := by
  unfold autoAlias; dsimp only
  (repeat' (first | split | (simp [tasInsert_ev]; done)))

theorem autoAlias_counts (c : C) (p : Pkt) :
    (autoAlias c p).1.s.sendMax = c.s.sendMax ∧ (autoAlias c p).1.s.sendCount = c.s.sendCount ∧
      (autoAlias c p).2.qos = p.qos := by
  refine ⟨by simp, by simp, ?_⟩
  unfold autoAlias; dsimp only; (repeat' (first | split | (simp; done)))

/-- **acceptance**: with credit left, the PUBLISH passes the gate, the counter grows by exactly
    one and no error is reported -/
theorem psV5Publish_accepted (c : C) (p : Pkt) (id M : Nat) (hsz : sizeOk c p = true) (hq : p.qos > 0)
    (hid : p.pid = some id) (hna : pubNotAllowed c.s = false) (hu : isUsed c.s id = true)
    (ht : p.topic ≠ []) (halias : ∀ a, p.alias = some a → validateTopicAliasRange c.s a = true)
    (hM : c.s.sendMax = some M) (hlt : c.s.sendCount < M) (hM65 : M ≤ 65535) :
    (psV5Publish c p).s.sendCount = c.s.sendCount + 1 ∧
    (∀ x, Ev.error x ∈ (psV5Publish c p).ev → Ev.error x ∈ c.ev) := by
  have ht' : p.topic.isEmpty = false := by simpa using ht
  have key : ∀ (c1 : C) (rel : Option Nat), c1.s.sendMax = c.s.sendMax → c1.s.sendCount = c.s.sendCount →
      c1.ev = c.ev → c1.s.tas = c.s.tas →
      (psV5PublishAlias c1 p rel false).s.sendCount = c.s.sendCount + 1 ∧
      (∀ x, Ev.error x ∈ (psV5PublishAlias c1 p rel false).ev → Ev.error x ∈ c.ev) := by
    intro c1 rel e1 e2 e3 e4
    have hnb : sendBlocked c1.s p = false := by
      unfold sendBlocked; simp [e1, e2, hM]; omega
    have hmod : (c.s.sendCount + 1) % 4294967296 = c.s.sendCount + 1 := Nat.mod_eq_of_lt (by omega)
    rw [psV5PublishAlias_eq]
    simp only [hnb, Bool.false_eq_true, if_false, ht']
    split
    · rename_i a ha
      have hr : validateTopicAliasRange c1.s a = true := by
        have := halias a ha; unfold validateTopicAliasRange at this ⊢; rw [e4]; exact this
      simp only [hr, if_true]
      constructor
      · rw [tail_count]
        split <;> simp_all [tasInsert_ev]
      · intro x hx
        have := tail_noerr _ _ _ _ hx
        split at this <;> simp_all [tasInsert_ev]
    · obtain ⟨a1, a2, a3⟩ := autoAlias_counts c1 p
      constructor
      · rw [tail_count, a1, a2, a3]; simp [e1, e2, hM, hq, hmod]
      · intro x hx
        have := tail_noerr _ _ _ _ hx
        rw [autoAlias_ev, e3] at this; exact this
  rw [psV5Publish_eq]
  simp only [hsz, Bool.not_true, Bool.false_eq_true, if_false, hq, if_true, hid, hna, hu, ht']
  split
  · exact key _ _ (by simp) (by simp) (by simp) (by simp)
  · exact key _ _ (by simp) (by simp) (by simp) (by simp)

/-! ## receiver side -/

theorem prvAlias_pass (c : C) (p p' : Pkt) (h : (prV5PublishAlias c p).2 = some p') :
    (prV5PublishAlias c p).1.ev = c.ev ∧ (prV5PublishAlias c p).1.s.status = c.s.status ∧
      (prV5PublishAlias c p).1.s.mpsSend = c.s.mpsSend := by
  revert h
  unfold prV5PublishAlias; dsimp only
  (repeat' split) <;> simp

/-- the excess PUBLISH is handed to the error path with ReceiveMaximumExceeded -/
theorem recv_excess_eq (c : C) (p p' : Pkt) (L : Nat) (hL : c.s.recvMax = some L)
    (hge : c.s.publishRecv.length ≥ L) (hq : p.qos > 0) (hpid : p.pid.isSome)
    (hpass : (prV5PublishAlias c p).2 = some p') :
    prV5Publish c (.ok p) = handleV5Error (prV5PublishAlias c p).1 eRMExceeded := by
  rw [prV5Publish_eq]
  simp only [hpass]
  have hne : ¬ (p.qos > 0 ∧ p.pid.isNone = true) := by
    intro h; cases hp : p.pid <;> simp_all
  have hrm : rmExceeded (prV5PublishAlias c p).1.s = true := by
    unfold rmExceeded; simp [hL, hge]
  have hp : p.pid ≠ none := by intro h; simp [h] at hpid
  simp [hq, hrm, hp]

/-! ## wait sets across an accepted PUBLISH, acknowledgements -/

theorem accepted_sets (c : C) (p : Pkt) (id M : Nat) (hsz : sizeOk c p = true) (hq : p.qos > 0)
    (hid : p.pid = some id) (hna : pubNotAllowed c.s = false) (hu : isUsed c.s id = true)
    (ht : p.topic ≠ []) (halias : ∀ a, p.alias = some a → validateTopicAliasRange c.s a = true)
    (hM : c.s.sendMax = some M) (hlt : c.s.sendCount < M) :
    (psV5Publish c p).s.puback = (addWait c p.qos id).s.puback ∧
    (psV5Publish c p).s.pubrec = (addWait c p.qos id).s.pubrec := by
  have ht' : p.topic.isEmpty = false := by simpa using ht
  have key : ∀ (c1 : C) (rel : Option Nat), c1.s.sendMax = c.s.sendMax → c1.s.sendCount = c.s.sendCount →
      c1.s.tas = c.s.tas →
      (psV5PublishAlias c1 p rel false).s.puback = c1.s.puback ∧
      (psV5PublishAlias c1 p rel false).s.pubrec = c1.s.pubrec := by
    intro c1 rel e1 e2 e4
    have hnb : sendBlocked c1.s p = false := by
      unfold sendBlocked; simp [e1, e2, hM]; omega
    rw [psV5PublishAlias_eq]
    simp only [hnb, Bool.false_eq_true, if_false, ht']
    split
    · rename_i a ha
      have hr : validateTopicAliasRange c1.s a = true := by
        have := halias a ha; unfold validateTopicAliasRange at this ⊢; rw [e4]; exact this
      simp only [hr, if_true]
      split <;> simp
    · simp
  rw [psV5Publish_eq]
  simp only [hsz, Bool.not_true, Bool.false_eq_true, if_false, hq, if_true, hid, hna, hu, ht']
  split
  · have := key (addWait (storeAdd c id { p with alias := none, dup := true, pid := some id }
      "core.rs:process_send_v5_0_publish:store.add().unwrap()") p.qos id) none (by simp) (by simp) (by simp)
    rw [this.1, this.2]
    unfold addWait; split <;> simp
  · exact key _ _ (by simp) (by simp) (by simp)

theorem length_ins {id : Nat} {l : List Nat} (h : id ∉ l) : (ins id l).length = l.length + 1 := by
  unfold ins; simp [h]

theorem length_del {id : Nat} {l : List Nat} (h : id ∈ l) (hn : l.Nodup) : (del id l).length + 1 = l.length := by
  unfold del
  induction l with
  | nil => simp at h
  | cons a r ih =>
    simp only [List.nodup_cons] at hn
    by_cases ha : a = id
    · subst ha
      have : r.filter (fun x => decide (x ≠ a)) = r := by
        rw [List.filter_eq_self]; intro x hx; simp; intro e; subst e; exact hn.1 hx
      simp only [List.filter_cons, ne_eq, not_true_eq_false, decide_false, Bool.false_eq_true, if_false, this, List.length_cons]
    · have hr : id ∈ r := by simpa [Ne.symm ha] using h
      have := ih hr hn.2
      simp only [ne_eq] at this
      simp only [List.filter_cons, ne_eq, ha, not_false_eq_true, decide_true, if_true, List.length_cons]
      omega

/-- PUBACK for an awaited identifier on a v5.0 connection with Receive Maximum: one exchange
    completes, the counter goes down by one (it is positive whenever the equation holds) -/
theorem prPuback_credit (c : C) (p : Pkt) (hv : p.ver = 5) (hin : p.pid.getD 0 ∈ c.s.puback)
    (hs : c.s.sendMax.isSome) :
    (prPuback c (.ok p)).s.puback = del (p.pid.getD 0) c.s.puback ∧
    (prPuback c (.ok p)).s.pubrec = c.s.pubrec ∧ (prPuback c (.ok p)).s.pubcomp = c.s.pubcomp ∧
    (prPuback c (.ok p)).s.sendCount = c.s.sendCount - 1 := by
  unfold prPuback; dsimp only
  simp only [hin, if_true, hv]
  refine ⟨by simp, by simp, by simp, ?_⟩
  simp only [push_s, refreshPingreqRecv_sendCount]
  unfold decSendCount
  split
  · simp
  · rename_i h; simp at h
    have : c.s.sendCount = 0 := by
      have := h (by simpa using hs); simpa using this
    simp [this]

theorem prPubcomp_credit (c : C) (p : Pkt) (hv : p.ver = 5) (hin : p.pid.getD 0 ∈ c.s.pubcomp)
    (hs : c.s.sendMax.isSome) :
    (prPubcomp c (.ok p)).s.pubcomp = del (p.pid.getD 0) c.s.pubcomp ∧
    (prPubcomp c (.ok p)).s.pubrec = c.s.pubrec ∧ (prPubcomp c (.ok p)).s.puback = c.s.puback ∧
    (prPubcomp c (.ok p)).s.sendCount = c.s.sendCount - 1 := by
  unfold prPubcomp; dsimp only
  simp only [hin, if_true, hv]
  refine ⟨by simp, by simp, by simp, ?_⟩
  simp only [push_s, refreshPingreqRecv_sendCount]
  unfold decSendCount
  split
  · simp
  · rename_i h; simp at h
    have : c.s.sendCount = 0 := by
      have := h (by simpa using hs); simpa using this
    simp [this]

/-- on resume the counter equals the number of stored packets that are resent -/
theorem sendStored_recount (c : C) (hs : c.s.sendMax.isSome) (hlen : c.s.store.length ≤ 4294967295) :
    (sendStored c).s.sendCount = (sendStored c).s.store.length := by
  have hsub := (sendStoredLoop_sub (resetCount c) c.s.store).length_le
  rw [sendStored_eq]
  have := (sendStoredLoop_count (resetCount c) c.s.store (by simpa using hs)
    (by rw [resetCount_sendCount]; simp only [hs, if_true]; omega)).1
  simp only [this, resetCount_sendCount, hs, if_true]; omega

end MqttVerif.Conn
