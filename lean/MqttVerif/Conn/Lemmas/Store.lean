import MqttVerif.Conn.Lemmas.Frame3
/-!
# Store lemmas: every stored packet satisfies `K`, through every model function

`SL K l`: every entry of the store list `l` carries a packet satisfying `K`.  Only `storeAdd`
(PUBLISH / PUBREL sends) and `restoreOne` add entries.
-/
namespace MqttVerif.Conn
open MqttVerif

structure SL (K : Pkt → Prop) (l : List (Nat × Pkt)) : Prop where
  h : ∀ x ∈ l, K x.2

section
variable {K : Pkt → Prop}

@[simp] theorem SL_nil : SL K [] := ⟨by simp⟩
theorem SL_append {a b} : SL K (a ++ b) ↔ SL K a ∧ SL K b :=
  ⟨fun h => ⟨⟨fun x hx => h.h x (by simp [hx])⟩, ⟨fun x hx => h.h x (by simp [hx])⟩⟩,
   fun h => ⟨fun x hx => by rcases List.mem_append.1 hx with hx | hx; exact h.1.h x hx; exact h.2.h x hx⟩⟩
theorem SL_single {id p} : SL K [(id, p)] ↔ K p := ⟨fun h => h.h (id, p) (by simp), fun h => ⟨by simpa using h⟩⟩
theorem SL_filter {l} (f) (h : SL K l) : SL K (l.filter f) := ⟨fun x hx => h.h x (List.mem_filter.1 hx).1⟩
theorem SL_erase {l} (id) (h : SL K l) : SL K (erase id l) := SL_filter _ h
theorem SL_storeErase {l} (v k id) (h : SL K l) : SL K (storeErase v k id l) := by
  unfold storeErase; (repeat' split) <;> first | exact h | exact SL_erase _ h
theorem SL_storeErasePublish {l} (id) (h : SL K l) : SL K (storeErasePublish id l).2 := by
  unfold storeErasePublish; (repeat' split) <;> first | exact h | exact SL_erase _ h

@[simp] theorem SL_ite {b : Prop} [Decidable b] {x y : C} :
    SL K (if b then x else y).s.store ↔ (b → SL K x.s.store) ∧ (¬ b → SL K y.s.store) := by
  split <;> simp_all

@[simp] theorem releaseId_store (c : C) (id) : (releaseId c id).s.store = c.s.store := by
  cases h : (Alloc.deallocate c.s.pidMan id).1 <;> simp [releaseId, h, C.setPanic]
@[simp] theorem releaseIfUsed_store (c : C) (id) : (releaseIfUsed c id).s.store = c.s.store := by
  unfold releaseIfUsed; split <;> simp
@[simp] theorem refuseSend_store (c : C) (e p) : (refuseSend c e p).s.store = c.s.store := by
  unfold refuseSend; split <;> simp
@[simp] theorem cancelTimers_store (c : C) : (cancelTimers c).s.store = c.s.store := by
  cases h1 : c.s.sendSet <;> cases h2 : c.s.recvSet <;> cases h3 : c.s.respSet <;>
    simp [cancelTimers, h1, h2, h3]
@[simp] theorem sendPostProcess_store (c : C) : (sendPostProcess c).s.store = c.s.store := by
  unfold sendPostProcess
  simp only [apply_ite C.s, apply_ite St.store, push_s, ite_self]
@[simp] theorem refreshPingreqRecv_store (c : C) : (refreshPingreqRecv c).s.store = c.s.store := by
  unfold refreshPingreqRecv
  simp only [apply_ite C.s, apply_ite St.store, push_s, ite_self]
@[simp] theorem initConn_store (c : C) (b) : (initConn c b).s.store = c.s.store := by cases c; rfl
@[simp] theorem clearStoreRelated_store (c : C) : (clearStoreRelated c).s.store = [] := by cases c; rfl
@[simp] theorem tasInsert_store (c : C) (t a site) : (tasInsert c t a site).s.store = c.s.store := by
  unfold tasInsert; (repeat' split) <;> simp
@[simp] theorem validateTopicAlias_store (c : C) (ao) : (validateTopicAlias c ao).2.s.store = c.s.store := by
  unfold validateTopicAlias; (repeat' split) <;> rfl
@[simp] theorem decSendCount_store (c : C) : (decSendCount c).s.store = c.s.store := by
  unfold decSendCount; split <;> rfl
@[simp] theorem releasePacketId_store (c : C) (id) : (releasePacketId c id).s.store = c.s.store :=
  releasePacketId_ind (Q := fun c' => c'.s.store = c.s.store) c id (releaseIfUsed_store c id) (fun h => h)
    (fun h => (decSendCount_store _).trans h)
@[simp] theorem autoAlias_store (c : C) (p) : (autoAlias c p).1.s.store = c.s.store := by
  unfold autoAlias; (repeat' split) <;> simp [apply_ite Prod.fst, apply_ite C.s, apply_ite St.store]
@[simp] theorem connectSendProp_store (c : C) (id v) : (connectSendProp c id v).s.store = c.s.store := by
  unfold connectSendProp; (repeat' split) <;> rfl
@[simp] theorem connectRecvProp_store (c : C) (id v) : (connectRecvProp c id v).s.store = c.s.store := by
  unfold connectRecvProp; (repeat' split) <;> rfl
@[simp] theorem releaseAll_store (c : C) (l) : (releaseAll c l).s.store = c.s.store := by
  induction l generalizing c with
  | nil => rfl
  | cons x rest ih => simp [releaseAll, ih]
@[simp] theorem propsFold_connectSendProp_store (c : C) (l) : (propsFold connectSendProp c l).s.store = c.s.store :=
  propsFold_store connectSendProp_store c l
@[simp] theorem propsFold_connackSendProp_store (c : C) (l) : (propsFold connackSendProp c l).s.store = c.s.store :=
  propsFold_store connackSendProp_store c l
@[simp] theorem propsFold_connectRecvProp_store (c : C) (l) : (propsFold connectRecvProp c l).s.store = c.s.store :=
  propsFold_store connectRecvProp_store c l

theorem storeAdd_sl (c : C) (id p site) (h : SL K c.s.store) (hp : K p) : SL K (storeAdd c id p site).s.store := by
  unfold storeAdd
  split
  · simpa using h
  · exact SL_append.2 ⟨h, SL_single.2 hp⟩

theorem pubRefuseCleanup_sl (c : C) (pid) (h : SL K c.s.store) : SL K (pubRefuseCleanup c pid).s.store := by
  unfold pubRefuseCleanup
  split
  · exact h
  · split
    · simpa using SL_storeErasePublish _ (by simpa using h)
    · exact h

theorem connackRecvProp_sl (c : C) (id v) (h : SL K c.s.store) : SL K (connackRecvProp c id v).s.store :=
  ⟨fun x hx => h.h x (by
    have : ∀ x ∈ (connackRecvProp c id v).s.store, x ∈ c.s.store := by
      unfold connackRecvProp
      (repeat' split) <;> simp [clearStoreRelated, C.setPanic, apply_ite C.s, apply_ite St.store]
    exact this x hx)⟩

theorem propsFold_sl {f : C → Nat → Nat → C} (hf : ∀ c id v, SL K c.s.store → SL K (f c id v).s.store)
    (c : C) (l) (h : SL K c.s.store) : SL K (propsFold f c l).s.store := by
  induction l generalizing c with
  | nil => exact h
  | cons x rest ih => exact ih _ (hf _ _ _ h)

theorem sendStoredLoop_sl (l) (c : C) (h : SL K l) : SL K (sendStoredLoop c l).2 := by
  induction l generalizing c with
  | nil => simp [sendStoredLoop]
  | cons x rest ih =>
    obtain ⟨id, p⟩ := x
    have hr : SL K rest := ⟨fun x hx => h.h x (List.mem_cons_of_mem _ hx)⟩
    by_cases hz : p.sz c.cfg.pw > c.s.mpsSend
    · rw [sendStoredLoop_over c id p rest hz]; exact ih _ hr
    · unfold sendStoredLoop
      simp only [hz, if_false]
      exact ⟨fun x hx => by
        rcases List.mem_cons.1 hx with rfl | hx
        · exact h.h _ List.mem_cons_self
        · exact (ih _ hr).h x hx⟩

theorem sendStored_sl (c : C) (h : SL K c.s.store) : SL K (sendStored c).s.store := by
  rw [sendStored_eq]
  exact sendStoredLoop_sl _ _ h

theorem resendStored_store (c : C) : (resendStored c).s.store = (sendStored c).s.store := by
  rcases resendStored_s_cases c with h | h <;> rw [h]
theorem resendStored_sl (c : C) (h : SL K c.s.store) : SL K (resendStored c).s.store := by
  rw [resendStored_store]; exact sendStored_sl c h

end
end MqttVerif.Conn
