import MqttVerif.Conn.Lemmas.AliasPublish
/-!
# C13 helpers: dispatch-level `Quiet` lemmas, version frame, the per-step alias theorem
-/
set_option linter.unusedSimpArgs false
set_option linter.unusedVariables false
namespace MqttVerif.Conn
open MqttVerif

/-! ## dispatch -/

theorem quiet_processSend (c : C) (p : Pkt) (h : ¬ (p.ver ≠ 4 ∧ p.kind = .publish)) :
    Quiet c (processSend c p) := by
  unfold processSend
  split
  · rename_i hv
    have hn : NotPub p := notPub_of_ver (by omega)
    split
    · exact quiet_psV3Connect c p hn
    · exact quiet_psV3Connack c p hn
    · exact quiet_psV3Publish c p hn
    · exact quiet_psPubrel c p hn
    · exact quiet_psSubUnsub c p hn
    · exact quiet_psSubUnsub c p hn
    · exact quiet_psPingreq c p hn
    · exact quiet_psV3Disconnect c p hn
    · exact Quiet.refl c
    · exact quiet_psV3Simple c p hn
  · rename_i hv
    split <;> rename_i hk
    · exact quiet_psV5Connect c p (notPub_of_kind (by simp [hk]))
    · exact quiet_psV5Connack c p (notPub_of_kind (by simp [hk]))
    · exact absurd ⟨hv, hk⟩ h
    · exact quiet_psV5Puback c p (notPub_of_kind (by simp [hk]))
    · exact quiet_psV5Pubrec c p (notPub_of_kind (by simp [hk]))
    · exact quiet_psPubrel c p (notPub_of_kind (by simp [hk]))
    · exact quiet_psV5Pubcomp c p (notPub_of_kind (by simp [hk]))
    · exact quiet_psSubUnsub c p (notPub_of_kind (by simp [hk]))
    · exact quiet_psSubUnsub c p (notPub_of_kind (by simp [hk]))
    · exact quiet_psPingreq c p (notPub_of_kind (by simp [hk]))
    · exact quiet_psV5Disconnect c p (notPub_of_kind (by simp [hk]))
    · exact quiet_psV5Auth c p (notPub_of_kind (by simp [hk]))
    · exact quiet_psV5Simple c p (notPub_of_kind (by intro hh; simp_all))

theorem quiet_dispatchRecv (c : C) (t : Nat) (x : Except Nat Pkt) : Quiet c (dispatchRecv c t x) := by
  unfold dispatchRecv
  split
  · split; exact quiet_prV3Connect _ _; exact quiet_prV5Connect _ _
  · split; exact quiet_prV3Connack _ _; exact quiet_prV5Connack _ _
  · split; exact quiet_prV3Publish _ _; exact quiet_prV5Publish _ _
  · exact quiet_prPuback _ _
  · exact quiet_prPubrec _ _
  · exact quiet_prPubrel _ _
  · exact quiet_prPubcomp _ _
  · exact quiet_prPlain _ _
  · exact quiet_prSubUnsuback _ _ _
  · exact quiet_prPlain _ _
  · exact quiet_prSubUnsuback _ _ _
  · exact quiet_prPingreq _ _
  · exact quiet_prPingresp _ _
  · exact quiet_prDisconnect _ _
  · split; exact quiet_prPlain _ _; exact quiet_err _ _
  · exact quiet_err _ _

theorem quiet_processRecvPacket (c : C) (fh : Nat) (data : List Nat) (parse : Nat → Except Nat Pkt) :
    Quiet c (processRecvPacket c fh data parse) := by
  unfold processRecvPacket
  split
  · exact Quiet.trans (quiet_v5DisconnectOrClose c _ (by simp)) (quiet_err _ _)
  · dsimp only
    split
    · exact quiet_err _ _
    split
    · split
      · split
        · exact quiet_err _ _
        · split
          · exact Quiet.trans (Quiet.upd (c := c) { c.s with ver := 4 } (Quiet.refl c) (Or.inl rfl) rfl) (quiet_prV3Connect _ _)
          split
          · exact Quiet.trans (Quiet.upd (c := c) { c.s with ver := 5 } (Quiet.refl c) (Or.inl rfl) rfl) (quiet_prV5Connect _ _)
          · exact quiet_err _ _
      · exact quiet_err _ _
    · exact quiet_dispatchRecv _ _ _

theorem quiet_recv (c : C) (inp : List Nat) (parse : Nat → Nat → List Nat → Except Nat Pkt) :
    Quiet c (recv c inp parse).1 := by
  unfold recv
  generalize Framing.feed c.s.pb inp = r
  obtain ⟨pb, out, rest⟩ := r
  dsimp only
  have h0 : Quiet c { c with s := { c.s with pb := pb } } := Quiet.upd _ (Quiet.refl c) (Or.inl rfl) rfl
  split
  · exact h0
  · exact Quiet.trans h0 (by simpa using quiet_processRecvPacket _ _ _ _)
  · exact Quiet.trans h0 (Quiet.trans (Quiet.trans (quiet_cancelTimers _) (quiet_push_other _ _ rfl)) (quiet_err _ _))
/-! ## the protocol version never changes inside a handler; only v5.0 has a table -/

@[simp] theorem propsFold_ver (f : C → Nat → Nat → C) (hf : ∀ c id v, (f c id v).s.ver = c.s.ver) (c : C)
    (l : List (Nat × Nat)) : (propsFold f c l).s.ver = c.s.ver := by
  induction l generalizing c with
  | nil => rfl
  | cons e r ih => obtain ⟨id, v⟩ := e; simp only [propsFold]; rw [ih, hf]

theorem connectSendProp_ver (c : C) (id v : Nat) : (connectSendProp c id v).s.ver = c.s.ver := by
  unfold connectSendProp; (repeat' split) <;> rfl
theorem connackSendProp_ver (c : C) (id v : Nat) : (connackSendProp c id v).s.ver = c.s.ver := by
  unfold connackSendProp; dsimp only; (repeat' split) <;> rfl
theorem connectRecvProp_ver (c : C) (id v : Nat) : (connectRecvProp c id v).s.ver = c.s.ver := by
  unfold connectRecvProp; (repeat' split) <;> rfl
theorem connackRecvProp_ver (c : C) (id v : Nat) : (connackRecvProp c id v).s.ver = c.s.ver := by
  unfold connackRecvProp; dsimp only; (repeat' split) <;> first | rfl | simp [clearStoreRelated, C.setPanic]

theorem connectSendProp_tas (c : C) (id v : Nat) : (connectSendProp c id v).s.tas = c.s.tas := by
  unfold connectSendProp; (repeat' split) <;> rfl
theorem connackSendProp_tas (c : C) (id v : Nat) : (connackSendProp c id v).s.tas = c.s.tas := by
  unfold connackSendProp; dsimp only; (repeat' split) <;> rfl
theorem propsFold_tas (f : C → Nat → Nat → C) (hf : ∀ c id v, (f c id v).s.tas = c.s.tas) (c : C)
    (l : List (Nat × Nat)) : (propsFold f c l).s.tas = c.s.tas := by
  induction l generalizing c with
  | nil => rfl
  | cons e r ih => obtain ⟨id, v⟩ := e; simp only [propsFold]; rw [ih, hf]

macro "ver_tac" : tactic => `(tactic|
  (repeat' (first
    | (simp [initConn, clearStoreRelated, apply_ite C.s, apply_ite St.ver, propsFold_ver, connectSendProp_ver,
        connackSendProp_ver, connectRecvProp_ver, connackRecvProp_ver]; done)
    | split)))

@[simp] theorem psV3Connect_ver (c : C) (p : Pkt) : (psV3Connect c p).s.ver = c.s.ver := by
  unfold psV3Connect; ver_tac
@[simp] theorem psV5Connect_ver (c : C) (p : Pkt) : (psV5Connect c p).s.ver = c.s.ver := by
  unfold psV5Connect; ver_tac
@[simp] theorem psV3Connack_ver (c : C) (p : Pkt) : (psV3Connack c p).s.ver = c.s.ver := by
  unfold psV3Connack; ver_tac
@[simp] theorem psV5Connack_ver (c : C) (p : Pkt) : (psV5Connack c p).s.ver = c.s.ver := by
  unfold psV5Connack; ver_tac
@[simp] theorem prV3Connect_ver (c : C) (x : Except Nat Pkt) : (prV3Connect c x).s.ver = c.s.ver := by
  unfold prV3Connect; ver_tac
@[simp] theorem prV5Connect_ver (c : C) (x : Except Nat Pkt) : (prV5Connect c x).s.ver = c.s.ver := by
  unfold prV5Connect; ver_tac
@[simp] theorem prV3Connack_ver (c : C) (x : Except Nat Pkt) : (prV3Connack c x).s.ver = c.s.ver := by
  unfold prV3Connack; ver_tac
@[simp] theorem prV5Connack_ver (c : C) (x : Except Nat Pkt) : (prV5Connack c x).s.ver = c.s.ver := by
  unfold prV5Connack; ver_tac

@[simp] theorem restorePackets_ver (c : C) (ps : List Pkt) : (restorePackets c ps).s.ver = c.s.ver := by
  induction ps generalizing c with
  | nil => rfl
  | cons p r ih => simp only [restorePackets]; rw [ih]; simp

@[simp] theorem processSend_ver (c : C) (p : Pkt) : (processSend c p).s.ver = c.s.ver := by
  unfold processSend; (repeat' split) <;> simp

@[simp] theorem send_ver (c : C) (p : Pkt) : (send c p).s.ver = c.s.ver := by
  unfold send; (repeat' split) <;> simp

@[simp] theorem dispatchRecv_ver (c : C) (t : Nat) (x : Except Nat Pkt) : (dispatchRecv c t x).s.ver = c.s.ver := by
  unfold dispatchRecv; (repeat' split) <;> simp

theorem processRecvPacket_ver (c : C) (fh : Nat) (data : List Nat) (parse : Nat → Except Nat Pkt)
    (h : c.s.ver ≠ 0) : (processRecvPacket c fh data parse).s.ver = c.s.ver := by
  unfold processRecvPacket; dsimp only
  (repeat' split) <;> simp_all

theorem recv_ver (c : C) (inp : List Nat) (parse : Nat → Nat → List Nat → Except Nat Pkt) (h : c.s.ver ≠ 0) :
    (recv c inp parse).1.s.ver = c.s.ver := by
  unfold recv
  generalize Framing.feed c.s.pb inp = r
  obtain ⟨pb, out, rest⟩ := r
  dsimp only
  split
  · rfl
  · rw [processRecvPacket_ver _ _ _ _ (by simpa using h)]
  · simp

/-- the protocol version, once determined, is fixed -/
theorem step_ver (cfg : Cfg) (s : St) (op : Op) (h : s.ver ≠ 0) : (step cfg s op).s.ver = s.ver := by
  cases op <;> simp [step, setFlag]
  case recv inp parse => exact recv_ver _ _ _ h
  case setFlag f b => cases f <;> rfl

/-! ## the per-step theorem -/

/-- `restore_packets` is given packets obtained from `get_stored_packets`: alias-free -/
def RestoreLegal : Op → Prop
  | .restorePackets ps => ∀ p ∈ ps, PktQuiet p
  | _ => True

theorem peerMaxOf_spec (s : St) : ∀ t, s.tas = some t → t.max = peerMaxOf s := by
  intro t ht; simp [peerMaxOf, ht]

theorem quiet_result {c c' : C} {peer : Mon.PeerTable} (pm : Nat) (hq : Quiet c c') (hev : c.ev = [])
    (hinv : AliasInv c.s peer) :
    peerPubs pm peer (pubs c'.ev) = some peer ∧ AliasInv c'.s peer := by
  obtain ⟨l, h1, h2⟩ := hq.evs
  rw [hev] at h1
  simp only [pubs_nil, List.nil_append] at h1
  refine ⟨by rw [h1]; exact peerPubs_quiet pm peer l (h2 hinv.store), hq.tasOk hinv.tasOk, hq.store hinv.store, ?_⟩
  intro a tp hl; exact hinv.agree a tp (hq.look a tp hl)

/-- every call is quiet except a v5.0 PUBLISH `send` -/
theorem step_quiet (cfg : Cfg) (s : St) (op : Op) (hl : RestoreLegal op)
    (hnp : ∀ p, op = .send p → ¬ (p.ver ≠ 4 ∧ p.kind = .publish)) :
    Quiet { cfg := cfg, s := s } (step cfg s op) := by
  cases op with
  | send p =>
    simp only [step]
    unfold send
    split; exact quiet_refuseSend _ _ _
    split; exact quiet_refuseSend _ _ _
    exact quiet_processSend _ _ (hnp p rfl)
  | recv inp parse => exact quiet_recv _ _ _
  | timer k => exact quiet_notifyTimerFired _ _
  | closed => exact quiet_notifyClosed _
  | setInterval d => exact quiet_setInterval _ _
  | setFlag f b => exact Quiet.upd (c := { cfg := cfg, s := s }) _ (Quiet.refl _) (Or.inl (by cases f <;> rfl)) (by cases f <;> rfl)
  | setRespTimeout ms => exact Quiet.upd (c := { cfg := cfg, s := s }) _ (Quiet.refl _) (Or.inl rfl) rfl
  | acquire => exact quiet_acquire _
  | register id => exact quiet_register _ _
  | release id => exact quiet_release _ _
  | erase id => exact quiet_erase _ _
  | restoreHandled ids => exact Quiet.upd (c := { cfg := cfg, s := s }) _ (Quiet.refl _) (Or.inl rfl) rfl
  | restorePackets ps => exact quiet_restorePackets _ _ hl

/-- the per-step alias theorem on `peerPubs` -/
theorem step_alias (cfg : Cfg) (s : St) (op : Op) (peer : Mon.PeerTable) (hv : s.ver = 5)
    (hinv : AliasInv s peer) (hl : RestoreLegal op) :
    ∃ peer', peerPubs (peerMaxOf s) peer (pubs (step cfg s op).ev) = some peer' ∧
      AliasInv (step cfg s op).s peer' := by
  by_cases hp : ∃ p, op = .send p ∧ p.ver ≠ 4 ∧ p.kind = .publish
  · obtain ⟨p, rfl, hp4, hk⟩ := hp
    simp only [step]
    unfold send
    split
    · exact ⟨peer, quiet_result (c := { cfg := cfg, s := s }) _ (quiet_refuseSend _ _ _) rfl hinv⟩
    split
    · exact ⟨peer, quiet_result (c := { cfg := cfg, s := s }) _ (quiet_refuseSend _ _ _) rfl hinv⟩
    · rename_i hver _
      have hver' : s.ver = p.ver := by simpa using hver
      have : processSend { cfg := cfg, s := s } p = psV5Publish { cfg := cfg, s := s } p := by
        unfold processSend; simp [hp4, hk]
      rw [this]
      obtain ⟨l, peer', h1, h2, h3⟩ := psV5Publish_inv (pm := peerMaxOf s) (c := { cfg := cfg, s := s }) hk
        ⟨hinv.tasOk, hinv.store, hinv.agree, peerMaxOf_spec s⟩ (Or.inl (by omega))
      simp only [pubs_nil, List.nil_append] at h1
      exact ⟨peer', by rw [h1]; exact h2, h3.tasOk, h3.store, h3.agree⟩
  · have hq := step_quiet cfg s op hl (by
      intro p hop hc; exact hp ⟨p, hop, hc⟩)
    obtain ⟨h1, h2⟩ := quiet_result (peerMaxOf s) hq rfl hinv
    exact ⟨peer, h1, h2⟩

/-! ## `.recv` events of the v5.0 PUBLISH handler -/

def recvs : List Ev → List Pkt
  | [] => []
  | .recv p :: r => p :: recvs r
  | _ :: r => recvs r

@[simp] theorem recvs_append (a b : List Ev) : recvs (a ++ b) = recvs a ++ recvs b := by
  induction a with
  | nil => rfl
  | cons e r ih => cases e <;> simp [recvs, ih]

theorem recvs_tc {l : List Ev} (h : ∀ x ∈ l, IsTimerCancel x) : recvs l = [] := by
  induction l with
  | nil => rfl
  | cons e r ih =>
    obtain ⟨k, rfl⟩ := h e (by simp)
    simp [recvs, ih (fun x hx => h x (by simp [hx]))]

@[simp] theorem cancelTimers_recvs (c : C) : recvs (cancelTimers c).ev = recvs c.ev := by
  obtain ⟨tc, h1, h2⟩ := cancelTimers_ev c
  rw [h1]; simp [recvs_tc h2]
@[simp] theorem sendPostProcess_recvs (c : C) : recvs (sendPostProcess c).ev = recvs c.ev := by
  unfold sendPostProcess; dsimp only; (repeat' split) <;> simp [recvs]
@[simp] theorem refresh_recvs (c : C) : recvs (refreshPingreqRecv c).ev = recvs c.ev := by
  unfold refreshPingreqRecv; (repeat' split) <;> simp [recvs]
@[simp] theorem psV5Disconnect_recvs (c : C) (p : Pkt) : recvs (psV5Disconnect c p).ev = recvs c.ev := by
  unfold psV5Disconnect; dsimp only; (repeat' split) <;> simp [recvs]
@[simp] theorem handleV5Error_recvs (c : C) (e : Nat) : recvs (handleV5Error c e).ev = recvs c.ev := by
  unfold handleV5Error v5DisconnectOrClose; dsimp only; (repeat' split) <;> simp [recvs]
@[simp] theorem psV5Puback_recvs (c : C) (p : Pkt) : recvs (psV5Puback c p).ev = recvs c.ev := by
  unfold psV5Puback; dsimp only; (repeat' split) <;> simp [recvs]
@[simp] theorem psV5Pubrec_recvs (c : C) (p : Pkt) : recvs (psV5Pubrec c p).ev = recvs c.ev := by
  unfold psV5Pubrec; dsimp only; (repeat' split) <;> simp [recvs]
@[simp] theorem prvAck_recvs (c : C) (qos id : Nat) (al : Prop) [Decidable al] :
    recvs (prvAck c qos id al).ev = recvs c.ev := by
  unfold prvAck; dsimp only; (repeat' split) <;> simp [recvs, C.setPanic]
@[simp] theorem prvBook_ev (c : C) (qos id : Nat) : (prvBook c qos id).ev = c.ev := by
  unfold prvBook; dsimp only; (repeat' split) <;> rfl
@[simp] theorem prV5PublishAlias_recvs (c : C) (p : Pkt) : recvs (prV5PublishAlias c p).1.ev = recvs c.ev := by
  unfold prV5PublishAlias; dsimp only; (repeat' split) <;> simp [recvs]

/-- what `process_recv_v5_0_publish` delivers is the output of its alias stage (or nothing) -/
theorem prV5Publish_recvs (c : C) (p : Pkt) :
    recvs (prV5Publish c (.ok p)).ev = recvs c.ev ∨
    ∃ q, (prV5PublishAlias c p).2 = some q ∧ recvs (prV5Publish c (.ok p)).ev = recvs c.ev ++ [q] := by
  rw [prV5Publish_eq]
  split
  · left; simp
  · rename_i q hq
    dsimp only
    split
    · left; simp [C.setPanic]
    split
    · left; simp
    split
    · right; exact ⟨q, hq, by simp [recvs]⟩
    · left; simp

theorem prV5Publish_tar (c : C) (p : Pkt) :
    (prV5Publish c (.ok p)).s.tar = (prV5PublishAlias c p).1.s.tar := by
  rw [prV5Publish_eq]
  split
  · rfl
  · dsimp only
    (repeat' split) <;> simp [C.setPanic]
end MqttVerif.Conn
