import MqttVerif.Conn.Lemmas.SrvMs
/-!
# C15 helper — the relation between the driver's ghost `srvMs` and the model, handler by handler

`W g0 c`: at this point of a call that started with ghost `g0`,
* if the endpoint did not start the connection itself (`is_client = false`), the ghost folded over
  the events pushed so far equals `pingreq_recv_timeout_ms`, or is 0 (after `closed` the ghost is
  0 while the model keeps the timeout of the connection that ended until the next CONNECT);
* no stored packet is `loud` (a successful CONNACK with Server Keep Alive: resending it would move
  the ghost).
-/
set_option linter.unusedSimpArgs false
set_option linter.unusedVariables false
namespace MqttVerif.Conn.SrvMs
open MqttVerif MqttVerif.Conn

def WK (k : Bool × Nat × List (Nat × Pkt) × Nat) : Prop :=
  (k.1 = false → k.2.2.2 = k.2.1 ∨ k.2.2.2 = 0) ∧ ∀ x ∈ k.2.2.1, loud x.2 = false

def W (g0 : Nat) (c : C) : Prop := WK (K g0 c)

theorem W.congr {g0 : Nat} {c c' : C} (e : K g0 c' = K g0 c) (h : W g0 c) : W g0 c' := by
  unfold W; rw [e]; exact h

theorem WK.sub {a : Bool} {r g : Nat} {st st' : List (Nat × Pkt)} (h : WK (a, r, st, g))
    (hs : ∀ x ∈ st', x ∈ st) : WK (a, r, st', g) :=
  ⟨h.1, fun x hx => h.2 x (hs x hx)⟩

theorem WK.add {a : Bool} {r g : Nat} {st : List (Nat × Pkt)} (h : WK (a, r, st, g)) (id : Nat) {q : Pkt}
    (hq : loud q = false) : WK (a, r, st ++ [(id, q)], g) := by
  refine ⟨h.1, ?_⟩
  intro x hx
  simp only [List.mem_append, List.mem_singleton] at hx
  rcases hx with hx | rfl
  · exact h.2 x hx
  · exact hq

/-- the state changed, but not `is_client`, the timeout and the events, and the store only shrank -/
theorem W.sub {g0 : Nat} {c c' : C} (h : W g0 c) (h1 : c'.s.isClient = c.s.isClient)
    (h2 : c'.s.recvTimeoutMs = c.s.recvTimeoutMs) (h4 : c'.ev = c.ev)
    (h3 : ∀ x ∈ c'.s.store, x ∈ c.s.store) : W g0 c' := by
  unfold W K
  rw [h1, h2, h4]
  exact WK.sub h h3

theorem W.client {g0 : Nat} {c : C} (h1 : c.s.isClient = true) (h3 : ∀ x ∈ c.s.store, loud x.2 = false) :
    W g0 c :=
  ⟨fun h => by simp [K, h1] at h, h3⟩

theorem W.store {g0 : Nat} {c : C} (h : W g0 c) : ∀ x ∈ c.s.store, loud x.2 = false := h.2

/-! ## store operations only remove -/

theorem erase_sub {α : Type} (k : Nat) (l : List (Nat × α)) : ∀ x ∈ erase k l, x ∈ l := by
  intro x hx; exact (List.mem_filter.1 hx).1

theorem storeErase_sub (ver : Nat) (k : Kind) (id : Nat) (st : List (Nat × Pkt)) :
    ∀ x ∈ storeErase ver k id st, x ∈ st := by
  unfold storeErase
  (repeat' split) <;> first | exact erase_sub _ _ | exact fun x hx => hx

theorem storeErasePublish_sub (id : Nat) (st : List (Nat × Pkt)) :
    ∀ x ∈ (storeErasePublish id st).2, x ∈ st := by
  unfold storeErasePublish
  (repeat' split) <;> first | exact erase_sub _ _ | exact fun x hx => hx

/-! ## store-touching helpers -/

theorem w_clearStoreRelated {g0 : Nat} {c : C} (h : W g0 c) : W g0 (clearStoreRelated c) :=
  h.sub rfl rfl rfl (by intro x hx; simp [clearStoreRelated] at hx)

theorem w_storeAdd {g0 : Nat} {c : C} (h : W g0 c) (id : Nat) {q : Pkt} (hq : loud q = false) (site : String) :
    W g0 (storeAdd c id q site) := by
  unfold storeAdd
  split
  · exact h
  · exact WK.add h id hq

theorem sendStoredLoop_K (g0 : Nat) (l : List (Nat × Pkt)) (hl : ∀ x ∈ l, loud x.2 = false) :
    ∀ c, K g0 (sendStoredLoop c l).1 = K g0 c ∧ ∀ x ∈ (sendStoredLoop c l).2, x ∈ l := by
  induction l with
  | nil => intro c; exact ⟨rfl, fun x hx => hx⟩
  | cons x rest ih =>
    intro c
    obtain ⟨id, p⟩ := x
    have hp : loud p = false := hl (id, p) (by simp)
    have ih' := ih (fun x hx => hl x (by simp [hx]))
    rw [sendStoredLoop]
    split
    · simp only []
      refine ⟨?_, fun x hx => List.mem_cons_of_mem _ ((ih' _).2 x hx)⟩
      rw [(ih' _).1, K_releaseIfUsed]; rfl
    · simp only []
      refine ⟨?_, ?_⟩
      · rw [(ih' _).1, K_push_send _ _ _ _ hp]
        split
        · split <;> rfl
        · rfl
      · intro x hx
        simp only [List.mem_cons] at hx ⊢
        rcases hx with hx | hx
        · exact .inl hx
        · exact .inr ((ih' _).2 x hx)

theorem w_sendStored {g0 : Nat} {c : C} (h : W g0 c) : W g0 (sendStored c) := by
  unfold sendStored
  simp only []
  have key : ∀ c0 : C, K g0 c0 = K g0 c → c0.s.store = c.s.store →
      W g0 { (sendStoredLoop c0 c0.s.store).1 with
        s := { (sendStoredLoop c0 c0.s.store).1.s with store := (sendStoredLoop c0 c0.s.store).2 } } := by
    intro c0 hk hs
    have hl : ∀ x ∈ c0.s.store, loud x.2 = false := by rw [hs]; exact h.2
    obtain ⟨e, sub⟩ := sendStoredLoop_K g0 c0.s.store hl c0
    have hw : W g0 (sendStoredLoop c0 c0.s.store).1 := W.congr (e.trans hk) h
    refine hw.sub rfl rfl rfl ?_
    intro x hx
    have hx' : x ∈ c0.s.store := sub x hx
    have e3 : (sendStoredLoop c0 c0.s.store).1.s.store = c0.s.store := by
      have := congrArg (·.2.2.1) e; exact this
    rw [e3]; exact hx'
  split
  · exact key _ rfl rfl
  · exact key _ rfl rfl

theorem w_resendStored {g0 : Nat} {c : C} (h : W g0 c) : W g0 (resendStored c) :=
  resendStored_ind (Q := W g0) c (w_sendStored h) (fun hq => W.congr (by kk1) hq)

theorem w_pubRefuseCleanup {g0 : Nat} {c : C} (h : W g0 c) (pid : Option Nat) : W g0 (pubRefuseCleanup c pid) := by
  unfold pubRefuseCleanup
  split
  · exact h
  · rename_i id
    split
    · extract_lets c1 src c2
      refine W.congr (K_push_released _ _ _) ?_
      have h1 : W g0 c1 := W.congr (K_releaseId g0 c id) h
      exact h1.sub rfl rfl rfl (storeErasePublish_sub _ _)
    · exact h

/-! ## the send side -/

theorem loud_dup (p : Pkt) : loud { p with dup := true } = loud p := rfl

theorem w_psV3Publish {g0 : Nat} {c : C} (h : W g0 c) (p : Pkt) (hp : loud p = false) : W g0 (psV3Publish c p) := by
  unfold psV3Publish
  split
  · split
    · exact h
    · rename_i id hid
      split
      · exact W.congr (by kk1) h
      split
      · exact W.congr (by kk1) h
      · extract_lets stored c1 rel src c2
        have h1 : W g0 c1 := by
          simp only [c1]; split
          · exact w_storeAdd h id (by rw [loud_dup]; exact hp) _
          · exact h
        have h2 : W g0 c2 := by
          simp only [c2]; split <;> exact h1
        split
        · exact W.congr (by kk1) h2
        · exact h2
  · split
    · exact W.congr (by kk1) h
    · exact W.congr (by kk1) h

theorem w_psV5PublishAlias {g0 : Nat} {c : C} (h : W g0 c) (p : Pkt) (r : Option Nat) (v : Bool)
    (hk : p.kind = .publish) : W g0 (psV5PublishAlias c p r v) := by
  have hp : loud p = false := loud_kind (by simp [hk])
  have hp' : loud (autoAlias c p).2 = false := loud_kind (by rw [autoAlias_kind]; simp [hk])
  unfold psV5PublishAlias
  extract_lets blocked r1 r2
  split
  · exact w_pubRefuseCleanup (W.congr (by kk1) h) _
  split
  · have hr : K g0 r1.2 = K g0 c := by simp only [r1]; split <;> simp
    split
    · exact w_pubRefuseCleanup (W.congr (by simp [hr]) h) _
    · exact W.congr (by rw [K_psV5PublishTail _ _ _ _ hp, hr]) h
  · split
    · split
      · extract_lets c1
        have h1 : K g0 c1 = K g0 c := by simp only [c1]; split <;> simp
        exact W.congr (by rw [K_psV5PublishTail _ _ _ _ hp, h1]) h
      · exact w_pubRefuseCleanup (W.congr (by kk1) h) _
    · exact W.congr (by rw [K_psV5PublishTail _ _ _ _ hp', K_autoAlias]) h

theorem w_psV5Publish {g0 : Nat} {c : C} (h : W g0 c) (p : Pkt) (hk : p.kind = .publish) :
    W g0 (psV5Publish c p) := by
  have hp : loud p = false := loud_kind (by simp [hk])
  unfold psV5Publish
  split
  · split <;> exact W.congr (by kk1) h
  split
  · split
    · exact h
    · rename_i id hid
      split
      · exact W.congr (by kk1) h
      split
      · exact W.congr (by kk1) h
      split
      · split
        · extract_lets r1 c1
          have h1 : W g0 c1 := W.congr (by simp [c1, r1]) h
          split
          · exact W.congr (by simp [r1]) h
          · rename_i t ht
            extract_lets c2 c3 src c4
            have h2 : W g0 c2 := by
              simp only [c2]; split
              · exact W.congr (by kk1) h1
              · exact h1
            have h3 : W g0 c3 :=
              w_storeAdd h2 id (show loud { p with topic := t, alias := none, dup := true } = false from hp) _
            have h4 : W g0 c4 := by simp only [c4]; split <;> exact h3
            exact w_psV5PublishAlias h4 p none true hk
        · extract_lets c1 src c2
          have h1 : W g0 c1 :=
            w_storeAdd h id (show loud { p with alias := none, dup := true } = false from hp) _
          have h2 : W g0 c2 := by simp only [c2]; split <;> exact h1
          exact w_psV5PublishAlias h2 p none false hk
      · extract_lets src c1
        have h1 : W g0 c1 := by simp only [c1]; split <;> exact h
        exact w_psV5PublishAlias h1 p (some id) false hk
  · split
    · exact W.congr (by kk1) h
    · exact w_psV5PublishAlias h p none false hk

theorem w_psPubrel {g0 : Nat} {c : C} (h : W g0 c) (p : Pkt) (hp : loud p = false) : W g0 (psPubrel c p) := by
  unfold psPubrel
  split
  · exact W.congr (by kk1) h
  split
  · exact W.congr (by kk1) h
  · extract_lets id c1 src c2
    split
    · exact W.congr (by kk1) h
    · have h1 : W g0 c1 := by
        simp only [c1]; split
        · exact w_storeAdd h _ hp _
        · exact h
      have h2 : W g0 c2 := h1
      split
      · exact W.congr (by kk1) h2
      · exact h2

/-- `K` is `W`-equivalent: the handlers of file 1 -/
theorem W.of_K {g0 : Nat} {c c' : C} (h : W g0 c) (e : K g0 c' = K g0 c) : W g0 c' := W.congr e h

/-! ### CONNECT sent: the endpoint is a client from here on -/

theorem w_psV3Connect {g0 : Nat} {c : C} (h : W g0 c) (p : Pkt) : W g0 (psV3Connect c p) := by
  unfold psV3Connect
  split
  · exact W.congr (by kk1) h
  · simp only []
    refine W.client ?_ ?_
    · have : ∀ c1 : C, (sendPostProcess c1).s.isClient = c1.s.isClient := by
        intro c1; have := congrArg (·.1) (K_sendPostProcess 0 c1); exact this
      rw [this]
      split <;> rfl
    · have : ∀ c1 : C, (sendPostProcess c1).s.store = c1.s.store := by
        intro c1; have := congrArg (·.2.2.1) (K_sendPostProcess 0 c1); exact this
      rw [this]
      split
      · intro x hx; simp [clearStoreRelated] at hx
      · exact h.2

theorem w_psV5Connect {g0 : Nat} {c : C} (h : W g0 c) (p : Pkt) : W g0 (psV5Connect c p) := by
  unfold psV5Connect
  split
  · exact W.congr (by kk1) h
  split
  · exact W.congr (by kk1) h
  · simp only []
    have e1 : ∀ c1 : C, (sendPostProcess c1).s.isClient = c1.s.isClient := by
      intro c1; have := congrArg (·.1) (K_sendPostProcess 0 c1); exact this
    have e2 : ∀ c1 : C, (sendPostProcess c1).s.store = c1.s.store := by
      intro c1; have := congrArg (·.2.2.1) (K_sendPostProcess 0 c1); exact this
    have f1 : ∀ (c1 : C) l, (propsFold connectSendProp c1 l).s.isClient = c1.s.isClient := by
      intro c1 l; have := congrArg (·.1) (K_fold_connectSendProp 0 c1 l); exact this
    have f2 : ∀ (c1 : C) l, (propsFold connectSendProp c1 l).s.store = c1.s.store := by
      intro c1 l; have := congrArg (·.2.2.1) (K_fold_connectSendProp 0 c1 l); exact this
    refine W.client ?_ ?_
    · rw [e1, push_s, f1]
      split <;> rfl
    · rw [e2, push_s, f2]
      split
      · intro x hx; simp [clearStoreRelated] at hx
      · exact h.2

/-! ### CONNACK sent -/

/-- the value of the last Server Keep Alive property of a property list (what the fold of
    `process_send_v5_0_connack` leaves in `pingreq_recv_timeout_ms`) -/
def skaLast : List (Nat × Nat) → Option Nat
  | [] => none
  | (id, v) :: rest =>
    match skaLast rest with
    | some w => some w
    | none => if id = pSKA then some v else none

theorem connackSendProp_K (g0 : Nat) (c : C) (id v : Nat) :
    K g0 (connackSendProp c id v)
      = (c.s.isClient, (if id = pSKA then v * 1000 * 3 / 2 else c.s.recvTimeoutMs), c.s.store, srvStep g0 c.ev) := by
  unfold connackSendProp
  by_cases h1 : id = pTAM
  · subst h1; (repeat' split) <;> simp_all [K, pTAM, pSKA]
  by_cases h2 : id = pRM
  · subst h2; simp [K, pTAM, pRM, pSKA]
  by_cases h3 : id = pMPS
  · subst h3; simp [K, pTAM, pRM, pMPS, pSKA]
  by_cases h4 : id = pSKA
  · subst h4
    by_cases hv : v = 0
    · subst hv
      simp only [pSKA, pTAM, pRM, pMPS]
      (repeat' (first | split | (simp only []; split))) <;> simp_all [K]
    · simp [K, pTAM, pRM, pMPS, pSKA, hv]
  · simp [h1, h2, h3, h4, K]

theorem fold_connackSendProp_K (g0 : Nat) (l : List (Nat × Nat)) : ∀ c : C,
    K g0 (propsFold connackSendProp c l)
      = (c.s.isClient, (match skaLast l with | some v => v * 1000 * 3 / 2 | none => c.s.recvTimeoutMs),
         c.s.store, srvStep g0 c.ev) := by
  induction l with
  | nil => intro c; rfl
  | cons x rest ih =>
    intro c
    obtain ⟨id, v⟩ := x
    rw [propsFold, ih]
    have e := connackSendProp_K g0 c id v
    simp only [K, Prod.mk.injEq] at e
    obtain ⟨e1, e2, e3, e4⟩ := e
    rw [e1, e2, e3, e4]
    simp only [skaLast]
    cases skaLast rest with
    | some w => rfl
    | none => by_cases hi : id = pSKA <;> simp [hi]

theorem srvEv_send_connack {q : Pkt} (g : Nat) (r : Option Nat) (hk : q.kind = .connack) (hrc : q.rc = some 0) :
    srvEv g (.send q r) = match Mon.findProp q pSKA with | some v => v * 1000 * 3 / 2 | none => g := by
  show (if q.kind = .connack ∧ q.rc = some 0 then
      (match Mon.findProp q pSKA with | some v => v * 1000 * 3 / 2 | none => g) else g) = _
  rw [if_pos ⟨hk, hrc⟩]

/-- the tail shared by both CONNACK senders -/
theorem w_connackTail {g0 : Nat} {c : C} (h : W g0 c) (sp : Bool) :
    W g0 (sendPostProcess (if sp then sendStored c else clearStoreRelated c)) := by
  refine W.congr (K_sendPostProcess _ _) ?_
  split
  · exact w_sendStored h
  · exact w_clearStoreRelated h

theorem w_psV3Connack {g0 : Nat} {c : C} (h : W g0 c) (p : Pkt) (hp : loud p = false) :
    W g0 (psV3Connack c p) := by
  unfold psV3Connack
  split
  · exact W.congr (by kk1) h
  · simp only []
    split
    · exact W.congr (by kk1) h
    · refine w_connackTail (W.congr ?_ h) p.sp
      exact K_push_send g0 c p none hp

theorem w_psV5Connack {g0 : Nat} {c : C} (h : W g0 c) (p : Pkt) (hk : p.kind = .connack)
    (hc : p.rc = some 0 → skaLast p.props = Mon.findProp p pSKA) : W g0 (psV5Connack c p) := by
  unfold psV5Connack
  split
  · exact W.congr (by kk1) h
  split
  · exact W.congr (by kk1) h
  · simp only []
    by_cases hrc : p.rc = some 0
    · simp only [hrc, if_true, ne_eq, not_true_eq_false, if_false]
      refine w_connackTail ?_ p.sp
      have e := fold_connackSendProp_K g0 p.props c
      generalize propsFold connackSendProp c p.props = c1 at e
      simp only [K, Prod.mk.injEq] at e
      obtain ⟨e1, e2, e3, e4⟩ := e
      obtain ⟨hj, hs⟩ := h
      refine ⟨?_, ?_⟩
      · intro hcl
        have hcl' : c.s.isClient = false := by rw [← e1]; exact hcl
        have hj' := hj hcl'
        show srvStep g0 (c1.ev ++ [Ev.send p none]) = c1.s.recvTimeoutMs ∨ srvStep g0 (c1.ev ++ [Ev.send p none]) = 0
        rw [srvStep_append, srvStep_cons, srvStep_nil, e4, srvEv_send_connack _ _ hk hrc, e2, hc hrc]
        cases Mon.findProp p pSKA with
        | some v => exact .inl rfl
        | none => exact hj'
      · intro x hx
        have : x ∈ c.s.store := by rw [← e3]; exact hx
        exact hs x this
    · have hp : loud p = false := loud_rc hrc
      simp only [hrc, if_false, ne_eq, not_false_eq_true, if_true]
      exact W.congr (by kk1) h

/-! ## the receive side -/

theorem ms15_zero : 0 * 1000 * 3 / 2 = 0 := rfl

theorem w_connectTail {g0 : Nat} {c : C} (p : Pkt) (hk : p.kind = .connect)
    (hcl : c.s.isClient = false) (hrt : c.s.recvTimeoutMs = p.keepAlive * 1000 * 3 / 2)
    (hs : ∀ x ∈ c.s.store, loud x.2 = false) : W g0 ((refreshPingreqRecv c).push (.recv p)) := by
  have e := K_refreshPingreqRecv g0 c
  unfold W
  rw [K_push]
  simp only [K, Prod.mk.injEq] at e
  obtain ⟨e1, e2, e3, e4⟩ := e
  rw [e1, e2, e3, srvEv_recv_connect _ hk]
  exact ⟨fun _ => .inl hrt.symm, hs⟩

theorem initRt (c : C) (p : Pkt) :
    (if p.keepAlive > 0 then
        ({ initConn c false with s := { (initConn c false).s with recvTimeoutMs := p.keepAlive * 1000 * 3 / 2 } } : C)
      else initConn c false).s.recvTimeoutMs = p.keepAlive * 1000 * 3 / 2 := by
  split
  · rfl
  · rename_i hk
    have : p.keepAlive = 0 := by omega
    rw [this]; rfl

theorem w_prV3Connect {g0 : Nat} {c : C} (h : W g0 c) (x : Except Nat Pkt)
    (hx : ∀ p, x = .ok p → p.kind = .connect) : W g0 (prV3Connect c x) := by
  unfold prV3Connect
  split
  · exact W.congr (by kk1) h
  · simp only []
    split
    · rename_i p
      have hk := hx p rfl
      generalize hc0 : ({ c with s := { c.s with status := .connecting } } : C) = c0
      have hs0 : c0.s.store = c.s.store := by subst hc0; rfl
      have hrt := initRt c0 p
      generalize hc1 : (if p.keepAlive > 0 then
        ({ initConn c0 false with s := { (initConn c0 false).s with recvTimeoutMs := p.keepAlive * 1000 * 3 / 2 } } : C)
        else initConn c0 false) = c1 at hrt
      have hcl : c1.s.isClient = false := by subst hc1; split <;> rfl
      have hst : c1.s.store = c.s.store := by subst hc1; rw [← hs0]; split <;> rfl
      refine w_connectTail p hk ?_ ?_ ?_
      · split <;> exact hcl
      · split <;> exact hrt
      · split
        · intro x hx; simp [clearStoreRelated] at hx
        · show ∀ x ∈ c1.s.store, _
          rw [hst]; exact h.2
    · rename_i e
      refine W.congr (K_err _ _ _) ?_
      refine w_psV3Connack (c := { c with s := { c.s with status := .connecting } }) h _ (by simp)

theorem w_prV5Connect {g0 : Nat} {c : C} (h : W g0 c) (x : Except Nat Pkt)
    (hx : ∀ p, x = .ok p → p.kind = .connect) : W g0 (prV5Connect c x) := by
  unfold prV5Connect
  split
  · exact W.congr (by kk1) h
  · simp only []
    split
    · rename_i p
      have hk := hx p rfl
      generalize hc0 : ({ c with s := { c.s with status := .connecting } } : C) = c0
      have hs0 : c0.s.store = c.s.store := by subst hc0; rfl
      have hrt := initRt c0 p
      generalize hc1 : (if p.keepAlive > 0 then
        ({ initConn c0 false with s := { (initConn c0 false).s with recvTimeoutMs := p.keepAlive * 1000 * 3 / 2 } } : C)
        else initConn c0 false) = c1 at hrt
      have hcl : c1.s.isClient = false := by subst hc1; split <;> rfl
      have hst : c1.s.store = c.s.store := by subst hc1; rw [← hs0]; split <;> rfl
      have f := fun (c2 : C) => K_fold_connectRecvProp 0 c2 p.props
      have f1 : ∀ c2 : C, (propsFold connectRecvProp c2 p.props).s.isClient = c2.s.isClient :=
        fun c2 => congrArg (·.1) (f c2)
      have f2 : ∀ c2 : C, (propsFold connectRecvProp c2 p.props).s.recvTimeoutMs = c2.s.recvTimeoutMs :=
        fun c2 => congrArg (·.2.1) (f c2)
      have f3 : ∀ c2 : C, (propsFold connectRecvProp c2 p.props).s.store = c2.s.store :=
        fun c2 => congrArg (·.2.2.1) (f c2)
      refine w_connectTail p hk ?_ ?_ ?_
      · rw [f1]; split <;> exact hcl
      · rw [f2]; split <;> exact hrt
      · rw [f3]
        split
        · intro x hx; simp [clearStoreRelated] at hx
        · rw [hst]; exact h.2
    · rename_i e
      refine W.congr (K_err _ _ _) ?_
      refine w_psV5Connack (c := { c with s := { c.s with status := .connecting } }) h _ rfl ?_
      intro hrc
      have : v5ConnectErrRc e ≠ 0 := by unfold v5ConnectErrRc; (repeat' split) <;> decide
      simp [mkV5Connack, this] at hrc

theorem w_prV3Connack {g0 : Nat} {c : C} (h : W g0 c) (x : Except Nat Pkt)
    (hx : ∀ p, x = .ok p → p.kind ≠ .connect) : W g0 (prV3Connack c x) := by
  unfold prV3Connack
  split
  · exact W.congr (by kk1) h
  · split
    · rename_i p
      refine W.congr (K_push_recv _ _ _ (hx p rfl)) ?_
      split
      · simp only []
        split
        · exact w_resendStored (c := { c with s := { c.s with status := .connected } }) h
        · exact w_clearStoreRelated (c := { c with s := { c.s with status := .connected } }) h
      · exact h
    · exact W.congr (by kk1) h

theorem w_connackRecvProp {g0 : Nat} {c : C} (h : W g0 c) (id v : Nat) : W g0 (connackRecvProp c id v) := by
  unfold connackRecvProp
  split
  · split
    · exact h
    · exact h
  split
  · split <;> exact h
  split
  · split <;> exact h
  split
  · extract_lets ms s1 c1
    have h1 : W g0 c1 := h
    split
    · split
      · split
        · exact W.congr (K_push_tc _ _ _) h1
        · exact h1
      · exact W.congr (K_push_tr _ _ _ _) h1
    · exact h1
  split
  · split
    · exact w_clearStoreRelated (c := { c with s := { c.s with needStore := false } }) h
    · exact h
  · exact h

theorem w_fold_connackRecvProp {g0 : Nat} (l : List (Nat × Nat)) : ∀ {c : C}, W g0 c →
    W g0 (propsFold connackRecvProp c l) := by
  induction l with
  | nil => intro c h; exact h
  | cons x rest ih => intro c h; obtain ⟨i, v⟩ := x; rw [propsFold]; exact ih (w_connackRecvProp h i v)

theorem w_prV5Connack {g0 : Nat} {c : C} (h : W g0 c) (x : Except Nat Pkt)
    (hx : ∀ p, x = .ok p → p.kind ≠ .connect) : W g0 (prV5Connack c x) := by
  unfold prV5Connack
  split
  · exact W.congr (by kk1) h
  · split
    · rename_i p
      refine W.congr (K_push_recv _ _ _ (hx p rfl)) ?_
      split
      · simp only []
        have h1 : W g0 (propsFold connackRecvProp { c with s := { c.s with status := .connected } } p.props) :=
          w_fold_connackRecvProp p.props (c := { c with s := { c.s with status := .connected } }) h
        split
        · exact w_resendStored h1
        · exact w_clearStoreRelated h1
      · exact h
    · first
        | exact W.congr (by kk1) h
        | (split <;> exact W.congr (by kk1) h)

theorem w_prPuback {g0 : Nat} {c : C} (h : W g0 c) (x : Except Nat Pkt)
    (hx : ∀ p, x = .ok p → p.kind ≠ .connect) : W g0 (prPuback c x) := by
  unfold prPuback
  split
  · exact W.congr (by kk1) h
  · rename_i p
    simp only []
    split
    · refine W.congr (K_push_recv _ _ _ (hx p rfl)) ?_
      refine W.congr (K_refreshPingreqRecv _ _) ?_
      have h1 : W g0 (releaseIfUsed { c with s := { c.s with puback := del (p.pid.getD 0) c.s.puback, store := storeErase p.ver .puback (p.pid.getD 0) c.s.store } } (p.pid.getD 0)) :=
        W.congr (K_releaseIfUsed _ _ _) (h.sub rfl rfl rfl (storeErase_sub _ _ _ _))
      split
      · exact W.congr (K_decSendCount _ _) h1
      · exact h1
    · exact W.congr (by kk1) h

theorem w_prPubcomp {g0 : Nat} {c : C} (h : W g0 c) (x : Except Nat Pkt)
    (hx : ∀ p, x = .ok p → p.kind ≠ .connect) : W g0 (prPubcomp c x) := by
  unfold prPubcomp
  split
  · exact W.congr (by kk1) h
  · rename_i p
    simp only []
    split
    · refine W.congr (K_push_recv _ _ _ (hx p rfl)) ?_
      refine W.congr (K_refreshPingreqRecv _ _) ?_
      have h1 : W g0 (releaseIfUsed { c with s := { c.s with pubcomp := del (p.pid.getD 0) c.s.pubcomp, store := storeErase p.ver .pubcomp (p.pid.getD 0) c.s.store } } (p.pid.getD 0)) :=
        W.congr (K_releaseIfUsed _ _ _) (h.sub rfl rfl rfl (storeErase_sub _ _ _ _))
      split
      · exact W.congr (K_decSendCount _ _) h1
      · exact h1
    · exact W.congr (by kk1) h

theorem w_prPubrec {g0 : Nat} {c : C} (h : W g0 c) (x : Except Nat Pkt)
    (hx : ∀ p, x = .ok p → p.kind ≠ .connect) : W g0 (prPubrec c x) := by
  unfold prPubrec
  split
  · exact W.congr (by kk1) h
  · rename_i p
    simp only []
    split
    · refine W.congr (K_push_recv _ _ _ (hx p rfl)) ?_
      refine W.congr (K_refreshPingreqRecv _ _) ?_
      have h1 : W g0 ({ c with s := { c.s with pubrec := del (p.pid.getD 0) c.s.pubrec, store := storeErase p.ver .pubrec (p.pid.getD 0) c.s.store } } : C) :=
        h.sub rfl rfl rfl (storeErase_sub _ _ _ _)
      split
      · split
        · exact w_psPubrel h1 _ (by simp)
        · exact h1
      · exact W.congr (by kk1) h1
    · exact W.congr (by kk1) h

/-- what the relation needs of the parser's result for a frame of type `t`: it is a CONNECT
    exactly when the frame is -/
theorem w_dispatchRecv {g0 : Nat} {c : C} (h : W g0 c) (t : Nat) (x : Except Nat Pkt)
    (hx : ∀ p, x = .ok p → (p.kind = .connect ↔ t = 1)) : W g0 (dispatchRecv c t x) := by
  have hk : ∀ p, x = .ok p → t ≠ 1 → p.kind ≠ .connect := fun p hp h1 hc => h1 ((hx p hp).1 hc)
  unfold dispatchRecv
  split
  · split
    · exact w_prV3Connect h x (fun p hp => (hx p hp).2 rfl)
    · exact w_prV5Connect h x (fun p hp => (hx p hp).2 rfl)
  · split
    · exact w_prV3Connack h x (fun p hp => hk p hp (by decide))
    · exact w_prV5Connack h x (fun p hp => hk p hp (by decide))
  · split
    · exact W.congr (K_prV3Publish g0 c x (fun p hp => hk p hp (by decide))) h
    · exact W.congr (K_prV5Publish g0 c x (fun p hp => hk p hp (by decide))) h
  · exact w_prPuback h x (fun p hp => hk p hp (by decide))
  · exact w_prPubrec h x (fun p hp => hk p hp (by decide))
  · exact W.congr (K_prPubrel g0 c x (fun p hp => hk p hp (by decide))) h
  · exact w_prPubcomp h x (fun p hp => hk p hp (by decide))
  · exact W.congr (K_prPlain g0 c x (fun p hp => hk p hp (by decide))) h
  · exact W.congr (K_prSubUnsuback g0 c true x (fun p hp => hk p hp (by decide))) h
  · exact W.congr (K_prPlain g0 c x (fun p hp => hk p hp (by decide))) h
  · exact W.congr (K_prSubUnsuback g0 c false x (fun p hp => hk p hp (by decide))) h
  · exact W.congr (K_prPingreq g0 c x (fun p hp => hk p hp (by decide))) h
  · exact W.congr (K_prPingresp g0 c x (fun p hp => hk p hp (by decide))) h
  · exact W.congr (K_prDisconnect g0 c x (fun p hp => hk p hp (by decide))) h
  · split
    · exact W.congr (K_prPlain g0 c x (fun p hp => hk p hp (by decide))) h
    · exact W.congr (by kk1) h
  · exact W.congr (by kk1) h

theorem w_processRecvPacket {g0 : Nat} {c : C} (h : W g0 c) (fh : Nat) (data : List Nat)
    (parse : Nat → Except Nat Pkt) (hx : ∀ v p, parse v = .ok p → (p.kind = .connect ↔ fh / 16 = 1)) :
    W g0 (processRecvPacket c fh data parse) := by
  unfold processRecvPacket
  split
  · exact W.congr (by kk1) h
  · simp only []
    split
    · exact W.congr (by kk1) h
    split
    · split
      · split
        · exact W.congr (by kk1) h
        · split
          · rename_i h1 _ _
            exact w_prV3Connect (c := { c with s := { c.s with ver := 4 } }) h (parse 4)
              (fun p hp => (hx 4 p hp).2 h1)
          split
          · rename_i h1 _ _ _
            exact w_prV5Connect (c := { c with s := { c.s with ver := 5 } }) h (parse 5)
              (fun p hp => (hx 5 p hp).2 h1)
          · exact W.congr (by kk1) h
      · exact W.congr (by kk1) h
    · exact w_dispatchRecv h _ _ (fun p hp => hx _ p hp)

/-- the parser contract of the relation: a successful result is a CONNECT exactly when the frame's
    type nibble is 1 (implied by "the result has the packet type of the frame") -/
def ParseKind (parse : Nat → Nat → List Nat → Except Nat Pkt) : Prop :=
  ∀ v fh d p, parse v fh d = .ok p → (p.kind = .connect ↔ fh / 16 = 1)

theorem ParseKind.of_nibble {parse : Nat → Nat → List Nat → Except Nat Pkt}
    (h : ∀ v fh d p, parse v fh d = .ok p → p.kind.nibble = fh / 16) : ParseKind parse := by
  intro v fh d p hp
  have := h v fh d p hp
  constructor
  · intro hk; rw [← this, hk]; rfl
  · intro h1; rw [h1] at this; cases hq : p.kind <;> simp_all [Kind.nibble]

theorem w_recv {g0 : Nat} {c : C} (h : W g0 c) (inp : List Nat)
    (parse : Nat → Nat → List Nat → Except Nat Pkt) (hp : ParseKind parse) : W g0 (recv c inp parse).1 := by
  unfold recv
  obtain ⟨pb, out, rest⟩ := Framing.feed c.s.pb inp
  simp only []
  cases out with
  | none => exact h
  | some o =>
    cases o with
    | complete fh data =>
      exact w_processRecvPacket (c := { c with s := { c.s with pb := pb } }) h fh data _
        (fun v p hq => hp v fh data p hq)
    | error => exact W.congr (by kk1) h

/-! ## the remaining store-touching calls -/

theorem w_notifyClosed {g0 : Nat} {c : C} (h : W g0 c) : W g0 (notifyClosed c) := by
  unfold notifyClosed
  extract_lets s0 c0 sub s1 c1 unsub s2 c2 s3 c3 a s4 c4 b s5 c5 d s6 c6 s7 c7 s8 c8
  refine W.congr (K_cancelTimers _ _) ?_
  have h0 : W g0 c0 := h
  have h1 : W g0 c1 := W.congr (K_releaseAll _ _ _) (show W g0 _ from h0)
  have h2 : W g0 c2 := W.congr (K_releaseAll _ _ _) (show W g0 _ from h1)
  have h3 : W g0 c3 := h2
  have h4 : W g0 c4 := W.congr (K_releaseAll _ _ _) (show W g0 _ from h3)
  have h5 : W g0 c5 := W.congr (K_releaseAll _ _ _) (show W g0 _ from h4)
  have h6 : W g0 c6 := W.congr (K_releaseAll _ _ _) (show W g0 _ from h5)
  have h7 : W g0 c7 := by
    simp only [c7]; split
    · exact h6.sub rfl rfl rfl (by intro x hx; simp at hx)
    · exact h2
  exact h7

theorem w_eraseStoredPublish {g0 : Nat} {c : C} (h : W g0 c) (id : Nat) : W g0 (eraseStoredPublish c id) := by
  unfold eraseStoredPublish
  extract_lets r s1 c1
  have h1 : W g0 c1 := h.sub rfl rfl rfl (storeErasePublish_sub _ _)
  split
  · refine W.congr (K_releaseIfUsed _ _ _) ?_
    exact W.congr (K_decSendCount _ _) h1
  · exact h

theorem w_restoreOne {g0 : Nat} {c : C} (h : W g0 c) (p : Pkt) (hp : loud p = false) : W g0 (restoreOne c p) := by
  unfold restoreOne
  split
  · exact h
  · extract_lets id r c1 s1 c2 s2
    have h1 : W g0 c1 := h
    have h2 : W g0 c2 := by simp only [c2]; (repeat' split) <;> exact h1
    split
    · split
      · exact h2
      · exact WK.add h2 _ hp
    · exact h1

theorem w_restorePackets {g0 : Nat} (ps : List Pkt) (hp : ∀ p ∈ ps, loud p = false) :
    ∀ {c : C}, W g0 c → W g0 (restorePackets c ps) := by
  induction ps with
  | nil => intro c h; exact h
  | cons p rest ih =>
    intro c h
    rw [restorePackets]
    exact ih (fun q hq => hp q (by simp [hq])) (w_restoreOne h p (hp p (by simp)))

end MqttVerif.Conn.SrvMs
