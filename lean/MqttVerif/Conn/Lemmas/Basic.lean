import MqttVerif.Conn.Step
import MqttVerif.Monitors
/-! Basic lemmas about the small helpers of the connection model (shared by the property files). -/
set_option linter.unusedSimpArgs false
set_option linter.unusedVariables false
namespace MqttVerif.Conn
open MqttVerif

@[simp] theorem push_s (c : C) (e : Ev) : (c.push e).s = c.s := rfl
@[simp] theorem push_cfg (c : C) (e : Ev) : (c.push e).cfg = c.cfg := rfl
@[simp] theorem push_ev (c : C) (e : Ev) : (c.push e).ev = c.ev ++ [e] := rfl
@[simp] theorem err_s (c : C) (e : Nat) : (c.err e).s = c.s := rfl
@[simp] theorem err_cfg (c : C) (e : Nat) : (c.err e).cfg = c.cfg := rfl
@[simp] theorem err_ev (c : C) (e : Nat) : (c.err e).ev = c.ev ++ [.error e] := rfl

theorem handleV3Error_events (c : C) (e : Nat) :
    (handleV3Error c e).ev = c.ev ++ [.close, .error e] := by
  simp [handleV3Error]

/-- `cancel_timers` appends only cancel events and clears the three flags -/
theorem cancelTimers_spec (c : C) :
    (∃ t, (cancelTimers c).ev = c.ev ++ t ∧ ∀ e ∈ t, ∃ k, e = .timerCancel k) ∧
    (cancelTimers c).s.sendSet = false ∧ (cancelTimers c).s.recvSet = false ∧
    (cancelTimers c).s.respSet = false ∧ (cancelTimers c).s.status = c.s.status ∧
    (cancelTimers c).cfg = c.cfg := by
  unfold cancelTimers
  by_cases h1 : c.s.sendSet <;> by_cases h2 : c.s.recvSet <;> by_cases h3 : c.s.respSet <;>
    simp [h1, h2, h3, C.push]

end MqttVerif.Conn
