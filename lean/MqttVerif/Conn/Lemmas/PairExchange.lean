import MqttVerif.Conn.Step
/-!
# Packet-level two-endpoint system (helper definitions and lemmas for `Props/C01L2.lean`)

* `frameOf`, `deliverOp`, `deliver_eq`: delivering a packet = one `recv` call with a two-byte
  frame and a parser parameter answering that packet = the handler of the packet's kind.
* `Sys`, `appC`/`appS`, `deliverS`/`deliverC`, `lose`, `drain`, `handshake`, `established`: a client
  model and a server model joined by two FIFO channels of packets, with event logs.
* `mkSt`, `idle`: the states an endpoint of an idle established persistent session passes
  through during one exchange with identifier 1; `IsPub`: an arbitrary application PUBLISH.
* `step_*`: one lemma per API call occurring in an exchange / a loss / a resumption, for both
  protocol versions and any role: exact successor state and exact event list, proved by
  unfolding the model (`msimp`).  `Props/C01L2.lean` computes whole runs with them.
-/
set_option linter.unusedSimpArgs false
set_option linter.unusedVariables false
namespace MqttVerif.Conn.Pair
open MqttVerif MqttVerif.Conn

/-! ## delivering one packet to an endpoint -/

/-- a byte list the framing accepts as exactly one complete frame of `p`'s type with an empty
    body: fixed header (type nibble, flags 0), remaining length 0 -/
def frameOf (p : Pkt) : List Nat := [p.kind.nibble * 16, 0]

/-- the parser parameter of the delivery: whatever the body, the frame "is" `p` -/
def parseAs (p : Pkt) : Nat → Nat → List Nat → Except Nat Pkt := fun _ _ _ => .ok p

def deliverOp (p : Pkt) : Op := .recv (frameOf p) (parseAs p)

theorem nibble_div (k : Kind) : k.nibble * 16 / 16 = k.nibble := by omega

theorem feed_frameOf (p : Pkt) :
    Framing.feed {} (frameOf p) = (Framing.PB.reset, some (.complete (p.kind.nibble * 16) []), []) := by
  simp [Framing.feed, frameOf, Framing.feedLoop]

/-- **delivery = handler**: on an endpoint whose frame assembler is idle, whose protocol
    version is determined, whose role may receive `p`'s type and whose own Maximum Packet Size
    admits a 2-byte frame, the `recv` call with `frameOf p` is exactly the packet handler of
    `p.kind` applied to the parse result `.ok p` -/
theorem deliver_eq (cfg : Cfg) (s : St) (p : Pkt) (hpb : s.pb = {}) (hv : s.ver ≠ 0)
    (hcan : canReceive cfg s p.kind.nibble = true) (hsz : 2 ≤ s.mpsRecv) :
    step cfg s (deliverOp p) = dispatchRecv { cfg := cfg, s := s } p.kind.nibble (.ok p) := by
  have hs : { s with pb := Framing.PB.reset } = s := by
    cases s; simp only [Framing.PB.reset] at *; simp [hpb]
  have hsz' : ¬ totalSize 0 > s.mpsRecv := by simp [totalSize, vbiLen]; omega
  simp only [step, deliverOp, recv, hpb, feed_frameOf, processRecvPacket, List.length_nil, parseAs]
  rw [hs]
  simp only [nibble_div]
  simp [hsz', hv, hcan]

/-! ## the two-endpoint system -/

def cfgC : Cfg := ⟨.client, 2⟩
def cfgS : Cfg := ⟨.server, 2⟩

/-- the packets requested for sending, in order -/
def sends : List Ev → List Pkt
  | [] => []
  | .send p _ :: rest => p :: sends rest
  | _ :: rest => sends rest

structure Sys where
  c : St
  s : St
  c2s : List Pkt := []
  s2c : List Pkt := []
  logC : List Ev := []      -- every event the client endpoint has emitted
  logS : List Ev := []
deriving DecidableEq

def appC (y : Sys) (op : Op) : Sys :=
  let r := step cfgC y.c op
  { y with c := r.s, c2s := y.c2s ++ sends r.ev, logC := y.logC ++ r.ev }

def appS (y : Sys) (op : Op) : Sys :=
  let r := step cfgS y.s op
  { y with s := r.s, s2c := y.s2c ++ sends r.ev, logS := y.logS ++ r.ev }

/-- deliver the head of the client→server channel to the server -/
def deliverS (y : Sys) : Sys :=
  match y.c2s with
  | [] => y
  | p :: rest =>
    let r := step cfgS y.s (deliverOp p)
    { y with s := r.s, c2s := rest, s2c := y.s2c ++ sends r.ev, logS := y.logS ++ r.ev }

def deliverC (y : Sys) : Sys :=
  match y.s2c with
  | [] => y
  | p :: rest =>
    let r := step cfgC y.c (deliverOp p)
    { y with c := r.s, s2c := rest, c2s := y.c2s ++ sends r.ev, logC := y.logC ++ r.ev }

/-- transport loss: in-flight packets are gone, both endpoints are told -/
def lose (y : Sys) : Sys :=
  let rc := step cfgC y.c .closed
  let rs := step cfgS y.s .closed
  { y with c := rc.s, s := rs.s, c2s := [], s2c := [], logC := y.logC ++ rc.ev, logS := y.logS ++ rs.ev }

/-- one delivery of the deterministic schedule: client→server first -/
def deliver1 (y : Sys) : Sys :=
  if y.c2s ≠ [] then deliverS y else deliverC y

def drain : Nat → Sys → Sys
  | 0, y => y
  | n + 1, y => drain n (deliver1 y)

def connectPkt (ver : Nat) (clean : Bool) : Pkt :=
  if ver = 5 then { ver := 5, kind := .connect, clean := clean, props := [(pSEI, 4294967295)], size := 18 }
  else { ver := 4, kind := .connect, clean := clean, size := 14 }

def connackPkt (ver : Nat) (sp : Bool) : Pkt :=
  if ver = 5 then { ver := 5, kind := .connack, rc := some 0, sp := sp, size := 5 }
  else { ver := 4, kind := .connack, rc := some 0, sp := sp, size := 4 }

def handshake (ver : Nat) (clean sp : Bool) (y : Sys) : Sys :=
  deliverC (appS (deliverS (appC y (.send (connectPkt ver clean)))) (.send (connackPkt ver sp)))

def fresh (ver : Nat) : Sys := { c := St.init cfgC ver, s := St.init cfgS ver }

def established (ver : Nat) : Sys :=
  let y := handshake ver false false (appS (appC (fresh ver) (.setFlag .autoPub true)) (.setFlag .autoPub true))
  { y with logC := [], logS := [] }


/-! ## the states of an endpoint during one exchange -/

/-- every state an endpoint of an established persistent session (no limits negotiated,
    automatic responses on) passes through during one exchange: all other fields are those
    of a fresh object -/
def mkSt (v : Nat) (isC : Bool) (status : Status) (pool : List Alloc.Iv) (store : List (Nat × Pkt))
    (puback pubrec pubcomp handled publishRecv : List Nat) : St :=
  { ver := v, pidMan := ⟨1, 65535, 65535, pool⟩, needStore := true, autoPub := true, status := status,
    isClient := isC, store := store, puback := puback, pubrec := pubrec, pubcomp := pubcomp,
    handled := handled, publishRecv := publishRecv }

/-- idle: nothing stored, nothing awaited, every identifier free -/
abbrev idle (v : Nat) (isC : Bool) : St := mkSt v isC .connected [⟨1, 65535⟩] [] [] [] [] [] []

/-- an application PUBLISH of version `v`, QoS `q`, identifier 1 -/
structure IsPub (v q : Nat) (P : Pkt) : Prop where
  ver : P.ver = v
  kind : P.kind = .publish
  qos : P.qos = q
  pid : P.pid = some 1
  alias : P.alias = none
  topic : P.topic ≠ []
  nowild : hasWildcard P.topic = false
  fits : P.sz 2 ≤ noLimit

/-- the copy kept in the store / retransmitted: DUP set -/
def _root_.MqttVerif.Conn.Pkt.asDup (P : Pkt) : Pkt := { P with dup := true }

theorem sz_asDup (P : Pkt) : P.asDup.sz 2 = P.sz 2 := rfl

theorem IsPub.asDup {v q : Nat} {P : Pkt} (h : IsPub v q P) : IsPub v q P.asDup :=
  ⟨h.ver, h.kind, h.qos, h.pid, h.alias, h.topic, h.nowild, h.fits⟩

/-- the acknowledgements the library builds for identifier 1 (2-byte identifiers) -/
def ack (v : Nat) (k : Kind) : Pkt := { ver := v, kind := k, size := 4, pid := some 1 }
/-- v5.0 PUBCOMP "Packet Identifier not found" -/
def ackRc : Pkt := { ver := 5, kind := .pubcomp, size := 5, pid := some 1, rc := some 0x92 }

/-- the PUBCOMP answering a PUBREL whose identifier is not (any longer) handled -/
def pubcompAgain (v : Nat) : Pkt := if v = 5 then ackRc else ack v .pubcomp

/-- `publish_recv` of a v5.0 receiver holding identifier 1 (v3.1.1 has no such set) -/
def pr5 (v : Nat) : List Nat := if v = 5 then [1] else []

theorem sz_of_not_pub (pw : Nat) (p : Pkt) (h : p.kind ≠ .publish) : p.sz pw = p.size := by
  simp [Pkt.sz, h]

syntax "msimp" ("[" Lean.Parser.Tactic.simpLemma,* "]")? : tactic
macro_rules
  | `(tactic| msimp [$ts,*]) => `(tactic| simp [step, send, roleMaySend, processSend, psV3Publish, psV5Publish,
      psV5PublishAlias, psV5PublishTail, autoAlias, pubNotAllowed, willStore, isUsed, Alloc.isUsed, Alloc.Free,
      storeAdd, storeHas, ins, del, sendPostProcess, C.push, C.err, sizeOk, dispatchRecv, prV3Publish,
      prV5Publish, prV5PublishAlias, psV3Simple, psV5Puback, psV5Pubrec, psV5Pubcomp, mkAck, mkV5PubcompRc,
      refreshPingreqRecv, prPuback, prPubrec, prPubrel, prPubcomp, storeErase, lookup, erase, respOf,
      releaseIfUsed, releaseId, Alloc.deallocate, Alloc.deallocRaw, Alloc.deallocLR, decSendCount, psPubrel,
      notifyClosed, releaseAll, cancelTimers, psV3Connect, psV5Connect, initConn, propsFold, connectSendProp,
      prV3Connect, prV5Connect, connectRecvProp, psV3Connack, psV5Connack, sendStored, sendStoredLoop,
      prV3Connack, prV5Connack, resendStored, isSendEv, clearStoreRelated, canReceive, Kind.nibble, mkSt, idle,
      connectPkt, connackPkt, ack, ackRc, pubcompAgain, pr5, Pkt.asDup, sz_of_not_pub, noLimit, acquire, Alloc.allocate,
      Alloc.allocateP, pSEI, pTAM, pRM, pMPS, pSKA, $ts,*])
  | `(tactic| msimp) => `(tactic| msimp [])

section steps
variable {v q : Nat} {P : Pkt} (r : Role) (b : Bool)

theorem fits' (hP : IsPub v q P) : ¬ (268435461 < Pkt.sz 2 P) := by
  have := hP.fits; unfold noLimit at this; omega

/-- rewrite a delivery into its handler; leaves the handler call -/
theorem deliver_mkSt (X : Pkt) (hv : v = 4 ∨ v = 5) (st : Status) (pool : List Alloc.Iv) (store : List (Nat × Pkt))
    (pa pr pc h prv : List Nat) (hk : X.kind.nibble ∈ [3, 4, 5, 6, 7]) :
    step ⟨r, 2⟩ (mkSt v b st pool store pa pr pc h prv) (deliverOp X) =
      dispatchRecv { cfg := ⟨r, 2⟩, s := mkSt v b st pool store pa pr pc h prv } X.kind.nibble (.ok X) := by
  apply deliver_eq
  · rfl
  · rcases hv with rfl | rfl <;> simp [mkSt]
  · simp at hk
    rcases hk with e | e | e | e | e <;> simp [canReceive, e]
  · simp [mkSt, noLimit]

theorem step_acquire (hv : v = 4 ∨ v = 5) :
    step ⟨r, 2⟩ (idle v b) .acquire =
      { cfg := ⟨r, 2⟩, s := mkSt v b .connected [⟨2, 65535⟩] [] [] [] [] [] [], ev := [] } := by
  msimp

theorem step_send_pub1 (hv : v = 4 ∨ v = 5) (hP : IsPub v 1 P) :
    step ⟨r, 2⟩ (mkSt v b .connected [⟨2, 65535⟩] [] [] [] [] [] []) (.send P) =
      { cfg := ⟨r, 2⟩, s := mkSt v b .connected [⟨2, 65535⟩] [(1, P.asDup)] [1] [] [] [] [],
        ev := [.send P none] } := by
  have hf := fits' hP
  obtain ⟨h1, h2, h3, h4, h5, h6, h7, h8⟩ := hP
  rcases hv with rfl | rfl <;> msimp [h1, h2, h3, h4, h5, h6, h7, hf]

theorem step_send_pub2 (hv : v = 4 ∨ v = 5) (hP : IsPub v 2 P) :
    step ⟨r, 2⟩ (mkSt v b .connected [⟨2, 65535⟩] [] [] [] [] [] []) (.send P) =
      { cfg := ⟨r, 2⟩, s := mkSt v b .connected [⟨2, 65535⟩] [(1, P.asDup)] [] [1] [] [] [],
        ev := [.send P none] } := by
  have hf := fits' hP
  obtain ⟨h1, h2, h3, h4, h5, h6, h7, h8⟩ := hP
  rcases hv with rfl | rfl <;> msimp [h1, h2, h3, h4, h5, h6, h7, hf]

/-! ### sender side: acknowledgements arrive -/

theorem step_recv_puback (hv : v = 4 ∨ v = 5) (hP : IsPub v 1 P) :
    step ⟨r, 2⟩ (mkSt v b .connected [⟨2, 65535⟩] [(1, P.asDup)] [1] [] [] [] []) (deliverOp (ack v .puback)) =
      { cfg := ⟨r, 2⟩, s := idle v b, ev := [.released 1, .recv (ack v .puback)] } := by
  rw [deliver_mkSt r b _ hv _ _ _ _ _ _ _ _ (by simp [ack, Kind.nibble])]
  obtain ⟨h1, h2, h3, h4, h5, h6, h7, h8⟩ := hP
  rcases hv with rfl | rfl <;> msimp [h1, h2, h3, h4]

theorem step_recv_pubrec (hv : v = 4 ∨ v = 5) (hP : IsPub v 2 P) :
    step ⟨r, 2⟩ (mkSt v b .connected [⟨2, 65535⟩] [(1, P.asDup)] [] [1] [] [] []) (deliverOp (ack v .pubrec)) =
      { cfg := ⟨r, 2⟩, s := mkSt v b .connected [⟨2, 65535⟩] [(1, ack v .pubrel)] [] [] [1] [] [],
        ev := [.send (ack v .pubrel) none, .recv (ack v .pubrec)] } := by
  rw [deliver_mkSt r b _ hv _ _ _ _ _ _ _ _ (by simp [ack, Kind.nibble])]
  obtain ⟨h1, h2, h3, h4, h5, h6, h7, h8⟩ := hP
  rcases hv with rfl | rfl <;> msimp [h1, h2, h3, h4]

theorem step_recv_pubcomp (hv : v = 4 ∨ v = 5) :
    step ⟨r, 2⟩ (mkSt v b .connected [⟨2, 65535⟩] [(1, ack v .pubrel)] [] [] [1] [] []) (deliverOp (ack v .pubcomp)) =
      { cfg := ⟨r, 2⟩, s := idle v b, ev := [.released 1, .recv (ack v .pubcomp)] } := by
  rw [deliver_mkSt r b _ hv _ _ _ _ _ _ _ _ (by simp [ack, Kind.nibble])]
  rcases hv with rfl | rfl <;> msimp

theorem step_recv_pubcompRc :
    step ⟨r, 2⟩ (mkSt 5 b .connected [⟨2, 65535⟩] [(1, ack 5 .pubrel)] [] [] [1] [] []) (deliverOp ackRc) =
      { cfg := ⟨r, 2⟩, s := idle 5 b, ev := [.released 1, .recv ackRc] } := by
  rw [deliver_mkSt r b _ (Or.inr rfl) _ _ _ _ _ _ _ _ (by simp [ackRc, Kind.nibble])]
  msimp

theorem step_recv_pubcompAgain (hv : v = 4 ∨ v = 5) :
    step ⟨r, 2⟩ (mkSt v b .connected [⟨2, 65535⟩] [(1, ack v .pubrel)] [] [] [1] [] []) (deliverOp (pubcompAgain v)) =
      { cfg := ⟨r, 2⟩, s := idle v b, ev := [.released 1, .recv (pubcompAgain v)] } := by
  rcases hv with rfl | rfl
  · exact step_recv_pubcomp r b (Or.inl rfl)
  · exact step_recv_pubcompRc r b

/-! ### receiver side -/

theorem step_recv_pub1 (hv : v = 4 ∨ v = 5) (hP : IsPub v 1 P) :
    step ⟨r, 2⟩ (idle v b) (deliverOp P) =
      { cfg := ⟨r, 2⟩, s := idle v b, ev := [.send (ack v .puback) none, .recv P] } := by
  unfold idle
  rw [deliver_mkSt r b _ hv _ _ _ _ _ _ _ _ (by simp [hP.kind, Kind.nibble])]
  obtain ⟨h1, h2, h3, h4, h5, h6, h7, h8⟩ := hP
  rcases hv with rfl | rfl <;> msimp [h1, h2, h3, h4, h5, h6, h7]

theorem step_recv_pub2 (hv : v = 4 ∨ v = 5) (hP : IsPub v 2 P) :
    step ⟨r, 2⟩ (idle v b) (deliverOp P) =
      { cfg := ⟨r, 2⟩, s := mkSt v b .connected [⟨1, 65535⟩] [] [] [] [] [1] (pr5 v),
        ev := [.send (ack v .pubrec) none, .recv P] } := by
  unfold idle
  rw [deliver_mkSt r b _ hv _ _ _ _ _ _ _ _ (by simp [hP.kind, Kind.nibble])]
  obtain ⟨h1, h2, h3, h4, h5, h6, h7, h8⟩ := hP
  rcases hv with rfl | rfl <;> msimp [h1, h2, h3, h4, h5, h6, h7]

/-- a retransmitted QoS 2 PUBLISH whose identifier is already handled: PUBREC again, no
    notification -/
theorem step_recv_pub2_again (hv : v = 4 ∨ v = 5) (hP : IsPub v 2 P) :
    step ⟨r, 2⟩ (mkSt v b .connected [⟨1, 65535⟩] [] [] [] [] [1] []) (deliverOp P) =
      { cfg := ⟨r, 2⟩, s := mkSt v b .connected [⟨1, 65535⟩] [] [] [] [] [1] (pr5 v),
        ev := [.send (ack v .pubrec) none] } := by
  rw [deliver_mkSt r b _ hv _ _ _ _ _ _ _ _ (by simp [hP.kind, Kind.nibble])]
  obtain ⟨h1, h2, h3, h4, h5, h6, h7, h8⟩ := hP
  rcases hv with rfl | rfl <;> msimp [h1, h2, h3, h4, h5, h6, h7]

theorem step_recv_pubrel (hv : v = 4 ∨ v = 5) (prv : List Nat) (hprv : prv = [] ∨ prv = pr5 v) :
    step ⟨r, 2⟩ (mkSt v b .connected [⟨1, 65535⟩] [] [] [] [] [1] prv) (deliverOp (ack v .pubrel)) =
      { cfg := ⟨r, 2⟩, s := idle v b, ev := [.send (ack v .pubcomp) none, .recv (ack v .pubrel)] } := by
  rw [deliver_mkSt r b _ hv _ _ _ _ _ _ _ _ (by simp [ack, Kind.nibble])]
  rcases hv with rfl | rfl <;> rcases hprv with rfl | rfl <;> msimp

/-- a retransmitted PUBREL for an identifier no longer handled: PUBCOMP again (v5.0: with
    "Packet Identifier not found") -/
theorem step_recv_pubrel_again (hv : v = 4 ∨ v = 5) :
    step ⟨r, 2⟩ (idle v b) (deliverOp (ack v .pubrel)) =
      { cfg := ⟨r, 2⟩, s := idle v b,
        ev := [.send (pubcompAgain v) none, .recv (ack v .pubrel)] } := by
  unfold idle
  rw [deliver_mkSt r b _ hv _ _ _ _ _ _ _ _ (by simp [ack, Kind.nibble])]
  rcases hv with rfl | rfl <;> msimp

/-! ### transport loss and resumption (any exchange state) -/

variable (st : Status) (pool : List Alloc.Iv) (store : List (Nat × Pkt)) (pa pr pc h prv : List Nat)

theorem step_closed :
    step ⟨r, 2⟩ (mkSt v b st pool store pa pr pc h prv) .closed =
      { cfg := ⟨r, 2⟩, s := mkSt v b .disconnected pool store pa pr pc h prv, ev := [] } := by
  msimp [Framing.PB.reset]

theorem step_send_connect (hv : v = 4 ∨ v = 5) :
    step ⟨.client, 2⟩ (mkSt v true .disconnected pool store pa pr pc h prv) (.send (connectPkt v false)) =
      { cfg := ⟨.client, 2⟩, s := mkSt v true .connecting pool store pa pr pc h [],
        ev := [.send (connectPkt v false) none] } := by
  rcases hv with rfl | rfl <;> msimp

theorem step_recv_connect (hv : v = 4 ∨ v = 5) :
    step ⟨.server, 2⟩ (mkSt v false .disconnected pool store pa pr pc h prv) (deliverOp (connectPkt v false)) =
      { cfg := ⟨.server, 2⟩, s := mkSt v false .connecting pool store pa pr pc h [],
        ev := [.recv (connectPkt v false)] } := by
  rw [deliver_eq _ _ _ rfl (by rcases hv with rfl | rfl <;> simp [mkSt])
    (by rcases hv with rfl | rfl <;> simp [canReceive, connectPkt, Kind.nibble]) (by simp [mkSt, noLimit])]
  rcases hv with rfl | rfl <;> msimp

theorem step_send_connack0 (hv : v = 4 ∨ v = 5) :
    step ⟨.server, 2⟩ (mkSt v false .connecting pool [] pa pr pc h prv) (.send (connackPkt v true)) =
      { cfg := ⟨.server, 2⟩, s := mkSt v false .connected pool [] pa pr pc h prv,
        ev := [.send (connackPkt v true) none] } := by
  rcases hv with rfl | rfl <;> msimp

theorem step_send_connack1 (hv : v = 4 ∨ v = 5) (X : Pkt) (hX : X.sz 2 ≤ noLimit) :
    step ⟨.server, 2⟩ (mkSt v false .connecting pool [(1, X)] pa pr pc h prv) (.send (connackPkt v true)) =
      { cfg := ⟨.server, 2⟩, s := mkSt v false .connected pool [(1, X)] pa pr pc h prv,
        ev := [.send (connackPkt v true) none, .send X none] } := by
  have hf : ¬ (268435461 < Pkt.sz 2 X) := by unfold noLimit at hX; omega
  rcases hv with rfl | rfl <;> msimp [hf]

theorem step_recv_connack0 (hv : v = 4 ∨ v = 5) :
    step ⟨.client, 2⟩ (mkSt v true .connecting pool [] pa pr pc h prv) (deliverOp (connackPkt v true)) =
      { cfg := ⟨.client, 2⟩, s := mkSt v true .connected pool [] pa pr pc h prv,
        ev := [.recv (connackPkt v true)] } := by
  rw [deliver_eq _ _ _ rfl (by rcases hv with rfl | rfl <;> simp [mkSt])
    (by rcases hv with rfl | rfl <;> simp [canReceive, connackPkt, Kind.nibble]) (by simp [mkSt, noLimit])]
  rcases hv with rfl | rfl <;> msimp

theorem step_recv_connack1 (hv : v = 4 ∨ v = 5) (X : Pkt) (hX : X.sz 2 ≤ noLimit) :
    step ⟨.client, 2⟩ (mkSt v true .connecting pool [(1, X)] pa pr pc h prv) (deliverOp (connackPkt v true)) =
      { cfg := ⟨.client, 2⟩, s := mkSt v true .connected pool [(1, X)] pa pr pc h prv,
        ev := [.send X none, .recv (connackPkt v true)] } := by
  have hf : ¬ (268435461 < Pkt.sz 2 X) := by unfold noLimit at hX; omega
  rw [deliver_eq _ _ _ rfl (by rcases hv with rfl | rfl <;> simp [mkSt])
    (by rcases hv with rfl | rfl <;> simp [canReceive, connackPkt, Kind.nibble]) (by simp [mkSt, noLimit])]
  rcases hv with rfl | rfl <;> msimp [hf]

theorem sz_ack (k : Kind) (hk : k ≠ .publish) : (ack v k).sz 2 ≤ noLimit := by
  rw [sz_of_not_pub _ _ (by simpa [ack] using hk)]; simp [ack, noLimit]

theorem connectPkt_kind (c : Bool) : (connectPkt v c).kind = .connect := by
  unfold connectPkt; split <;> rfl
theorem connackPkt_kind (c : Bool) : (connackPkt v c).kind = .connack := by
  unfold connackPkt; split <;> rfl
theorem pubcompAgain_kind : (pubcompAgain v).kind = .pubcomp := by
  unfold pubcompAgain; split <;> rfl

end steps

end MqttVerif.Conn.Pair
