import MqttVerif.Conn.Lemmas.Pend2
/-!
# C08 helper — the ghost `pend` against the model: the send side
-/
set_option linter.unusedSimpArgs false
set_option linter.unusedVariables false
namespace MqttVerif.Conn.Pend
open MqttVerif MqttVerif.Conn

/-! ## `store.add` followed by the wait-set insertion -/

theorem storeAdd_cases (c : C) (id : Nat) (q : Pkt) (x : String) :
    (storeAdd c id q x).ev = c.ev ∧ (storeAdd c id q x).s.status = c.s.status ∧
    (storeAdd c id q x).s.ver = c.s.ver ∧ (storeAdd c id q x).s.puback = c.s.puback ∧
    (storeAdd c id q x).s.pubrec = c.s.pubrec ∧ (storeAdd c id q x).s.pubcomp = c.s.pubcomp ∧
    (storeAdd c id q x).cfg = c.cfg ∧
    ((storeAdd c id q x).s.store = c.s.store ∨
      ((storeAdd c id q x).s.store = c.s.store ++ [(id, q)] ∧ storeHas id c.s.store = false)) := by
  unfold storeAdd
  split
  · exact ⟨rfl, rfl, rfl, rfl, rfl, rfl, rfl, .inl rfl⟩
  · rename_i h
    exact ⟨rfl, rfl, rfl, rfl, rfl, rfl, rfl, .inr ⟨rfl, by simpa using h⟩⟩

/-- `c1` = `c`, possibly after `store.add(id, q)`; `c2` = `c1` with `id` inserted into the wait
    set of `q`'s response packet -/
theorem inv_store_ins {m : Option Nat} {g : Gh} {c c2 : C} (h : InvM m g c) (id : Nat) (q : Pkt) (x : String) (b : Bool)
    (hq : q.pid.getD 0 = id) (hk : q.kind = .publish ∨ q.kind = .pubrel) (hv : q.ver = c.s.ver) (hv0 : c.s.ver ≠ 0)
    (hev : c2.ev = (if b then storeAdd c id q x else c).ev)
    (hst : c2.s.status = (if b then storeAdd c id q x else c).s.status)
    (hver : c2.s.ver = (if b then storeAdd c id q x else c).s.ver)
    (hstore : c2.s.store = (if b then storeAdd c id q x else c).s.store)
    (hpa : ∀ i ∈ (if b then storeAdd c id q x else c).s.puback, i ∈ c2.s.puback)
    (hpr : ∀ i ∈ (if b then storeAdd c id q x else c).s.pubrec, i ∈ c2.s.pubrec)
    (hpc : ∀ i ∈ (if b then storeAdd c id q x else c).s.pubcomp, i ∈ c2.s.pubcomp)
    (hin : id ∈ waitOf c2.s (respOf q)) : InvM m g c2 := by
  obtain ⟨a1, a2, a3, a4, a5, a6, _, a7⟩ := storeAdd_cases c id q x
  cases b with
  | false =>
    simp only [Bool.false_eq_true, if_false] at hev hst hver hstore hpa hpr hpc
    exact h.grow hev hst hver hpa hpr hpc (.inl hstore)
  | true =>
    simp only [if_true] at hev hst hver hstore hpa hpr hpc
    rw [a4] at hpa; rw [a5] at hpr; rw [a6] at hpc
    refine h.grow (hev.trans a1) (hst.trans a2) (hver.trans a3) hpa hpr hpc ?_
    rcases a7 with a7 | ⟨a7, hn⟩
    · exact .inl (hstore.trans a7)
    · exact .inr ⟨(id, q), hstore.trans a7, hn, fun _ => ⟨hq, by rw [hver, a3]; exact hv, by rw [hver, a3]; exact hv0, hin⟩⟩

/-- the tail of the PUBLISH / PUBREL senders -/
theorem inv_send_tail {m : Option Nat} {g : Gh} {c : C} (h : InvM m g c) (p : Pkt) (r : Option Nat)
    (hw : ∀ n, nibOf p = some n → p.pid.getD 0 ∈ waitN c.s n) :
    InvM m g (if c.s.status = .connected then sendPostProcess (c.push (.send p r)) else c) := by
  split
  · rename_i hc
    exact (h.send p r hc hw).fr (fr_sendPostProcess _)
  · exact h

theorem proper_of_nibOf {p : Pkt} {n : Nat} (h : nibOf p = some n) : p.kind = .publish ∨ p.kind = .pubrel := by
  unfold nibOf at h
  (repeat' split at h) <;> simp_all

theorem nibOf_cases {p : Pkt} {n : Nat} (h : nibOf p = some n) :
    (n = 4 ∧ p.kind = .publish ∧ p.qos = 1) ∨ (n = 5 ∧ p.kind = .publish ∧ p.qos = 2) ∨ (n = 7 ∧ p.kind = .pubrel) := by
  unfold nibOf at h
  (repeat' split at h) <;> simp_all

/-- the ghost nibble of a packet names the wait set of its response packet -/
theorem waitN_respOf {p : Pkt} {n : Nat} (h : nibOf p = some n) (s : St) : waitN s n = waitOf s (respOf p) := by
  rcases nibOf_cases h with ⟨rfl, hk, hq⟩ | ⟨rfl, hk, hq⟩ | ⟨rfl, hk⟩
  · simp [waitN, waitOf, respOf, hk, hq]
  · simp [waitN, waitOf, respOf, hk, hq]
  · simp [waitN, waitOf, respOf, hk]

/-! ## PUBLISH (v3.1.1) -/

theorem inv_psV3Publish {g : Gh} {c : C} (h : Inv g c) (p : Pkt) (hk : p.kind = .publish)
    (hv : p.ver = c.s.ver) (hv0 : c.s.ver ≠ 0) : Inv g (psV3Publish c p) := by
  unfold psV3Publish
  split
  · split
    · exact h.fr (fr_setPanic _ _)
    · rename_i id hp
      split
      · exact h.fr ((fr_err _ _).trans (fr_releaseIfUsed _ _))
      split
      · exact h.fr (fr_err _ _)
      · simp only []
        have hpid : p.pid.getD 0 = id := by simp [hp]
        have key : ∀ c2 : C, InvM none g c2 → id ∈ waitOf c2.s (respOf { p with dup := true }) →
            Inv g (if c2.s.status = .connected then sendPostProcess (c2.push (.send p (if willStore c.s = true then none else some id))) else c2) := by
          intro c2 h2 hin
          refine inv_send_tail h2 p _ ?_
          intro n hn
          rw [waitN_respOf hn, hpid]
          exact hin
        split
        · rename_i hq
          refine key _ (inv_store_ins (b := willStore c.s) h id { p with dup := true } _ (by simpa using hp ▸ rfl) (.inl hk) hv hv0
            rfl rfl rfl rfl (fun i hi => hi) (fun i hi => mem_ins_of_mem hi) (fun i hi => hi) ?_) ?_ <;>
          · simp only [waitOf, respOf, hk, hq]; exact mem_ins_self _ _
        · rename_i hq
          refine key _ (inv_store_ins (b := willStore c.s) h id { p with dup := true } _ (by simpa using hp ▸ rfl) (.inl hk) hv hv0
            rfl rfl rfl rfl (fun i hi => mem_ins_of_mem hi) (fun i hi => hi) (fun i hi => hi) ?_) ?_ <;>
          · simp only [waitOf, respOf, hk, hq]; exact mem_ins_self _ _
  · split
    · exact h.fr (fr_err _ _)
    · rename_i hq _
      exact h.fr (fr_send_tail c p none (nibOf_qos0 hk hq))

/-! ## PUBLISH (v5.0) -/

/-- the refusal cleanup deletes `id` from `puback` / `pubrec` and erases the stored PUBLISH — only
    when `id` is in use, and then `NotifyPacketIdReleased(id)` removes the ghost entry too -/
theorem inv_pubRefuseCleanup {g : Gh} {c : C} (h : Inv g c) (pid : Option Nat) : Inv g (pubRefuseCleanup c pid) := by
  unfold pubRefuseCleanup
  split
  · exact h
  · rename_i id
    split
    · simp only []
      have h1 : Inv g (releaseId c id) := h.fr (fr_releaseId c id)
      refine InvM.unmask_released (InvM.del (id := id) h1 rfl rfl rfl ?_ ?_ ?_ ?_ ?_)
      · intro i hi hm; exact mem_del.2 ⟨hm, hi⟩
      · intro i hi hm; exact mem_del.2 ⟨hm, hi⟩
      · intro i hi hm; exact hm
      · exact storeErasePublish_sublist _ _
      · intro x hx hid hkk
        have hx' : x ∈ (storeErasePublish id (releaseId c id).s.store).2 := hx
        have hne := storeErasePublish_keeps h1.store.nodup hx' hid
        have hm := (storeErasePublish_sublist _ _).subset hx'
        obtain ⟨_, _, _, hin⟩ := h1.store.ent x hm hkk
        have hpr : x.2.kind = .pubrel := by rcases hkk with e | e; exact absurd e hne; exact e
        simp only [respOf, hpr, if_true, waitOf] at hin ⊢
        exact hin
    · exact h

theorem inv_psV5PublishTail {g : Gh} {c : C} (h : Inv g c) (p : Pkt) (rel : Option Nat)
    (hw : ∀ n, nibOf p = some n → p.pid.getD 0 ∈ waitN c.s n) : Inv g (psV5PublishTail c p rel) := by
  unfold psV5PublishTail
  simp only []
  split
  · -- the counter update: a frame
    have f : Fr c ((fun c : C => ({ c with s := { c.s with sendCount := (c.s.sendCount + 1) % 4294967296 } } : C))
        (if c.s.sendCount ≥ 4294967295 then c.setPanic "core.rs:process_send_v5_0_publish:publish_send_count+=1" else c)) := by
      split <;> exact fr_of_eq rfl rfl rfl
    refine inv_send_tail (h.fr f) p rel ?_
    intro n hn
    have := hw n hn
    split <;> exact this
  · exact inv_send_tail h p rel hw


theorem waitN_fr {c c' : C} (f : Fr c c') (n : Nat) : waitN c'.s n = waitN c.s n := by
  unfold waitN
  split <;> first | exact f.puback | exact f.pubrec | exact f.pubcomp | rfl

theorem inv_psV5PublishAlias {g : Gh} {c : C} (h : Inv g c) (p : Pkt) (rel : Option Nat) (v : Bool)
    (hw : ∀ n, nibOf p = some n → p.pid.getD 0 ∈ waitN c.s n) : Inv g (psV5PublishAlias c p rel v) := by
  unfold psV5PublishAlias
  extract_lets blocked r r2
  have fr1 : Fr c r.2 := by
    simp only [r]
    split
    · exact Fr.refl c
    · exact fr_validateTopicAlias c _
  have fr2 : Fr c r2.1 := fr_autoAlias c p
  clear_value blocked r
  split
  · exact inv_pubRefuseCleanup (h.fr (fr_err _ _)) _
  split
  · split
    · exact inv_pubRefuseCleanup (h.fr (fr1.trans (fr_err _ _))) _
    · refine inv_psV5PublishTail (h.fr fr1) p rel ?_
      intro n hn
      rw [waitN_fr fr1]; exact hw n hn
  · split
    · rename_i a ha
      split
      · have f : Fr c (if c.s.status = .connected then tasInsert c p.topic a "topic_alias_send.rs:insert_or_update:assert" else c) := by
          split
          · exact fr_tasInsert _ _ _ _
          · exact Fr.refl c
        refine inv_psV5PublishTail (h.fr f) p rel ?_
        intro n hn
        rw [waitN_fr f]; exact hw n hn
      · exact inv_pubRefuseCleanup (h.fr (fr_err _ _)) _
    · refine inv_psV5PublishTail (h.fr fr2) _ rel ?_
      intro n hn
      simp only [r2] at hn ⊢
      rw [nibOf_autoAlias] at hn
      rw [waitN_fr (fr_autoAlias c p), autoAlias_pid]; exact hw n hn


/-- `store.add` (optional) and the wait-set insertion of a QoS>0 PUBLISH with identifier `id` -/
theorem inv_pub_ins {g : Gh} {c c2 : C} (h : Inv g c) (p q : Pkt) (id : Nat) (x : String) (b : Bool)
    (hp : p.pid = some id) (hk : p.kind = .publish) (hv : p.ver = c.s.ver) (hv0 : c.s.ver ≠ 0)
    (hq1 : q.pid = p.pid) (hq2 : q.kind = p.kind) (hq3 : q.qos = p.qos) (hq4 : q.ver = p.ver)
    (hc2 : c2 = if p.qos = 2
      then { (if b then storeAdd c id q x else c) with s := { (if b then storeAdd c id q x else c).s with pubrec := ins id (if b then storeAdd c id q x else c).s.pubrec } }
      else { (if b then storeAdd c id q x else c) with s := { (if b then storeAdd c id q x else c).s with puback := ins id (if b then storeAdd c id q x else c).s.puback } }) :
    Inv g c2 ∧ ∀ n, nibOf p = some n → p.pid.getD 0 ∈ waitN c2.s n := by
  have hpid : p.pid.getD 0 = id := by simp [hp]
  have hr : respOf q = respOf p := by simp only [respOf, hq2, hq3]
  have key : Inv g c2 ∧ id ∈ waitOf c2.s (respOf q) := by
    by_cases h2 : p.qos = 2
    · simp only [h2, if_true] at hc2
      subst hc2
      have hin : ∀ s' : St, id ∈ s'.pubrec → id ∈ waitOf s' (respOf q) := by
        intro s' hs; rw [hr]; simp only [waitOf, respOf, hk, h2]; exact hs
      exact ⟨inv_store_ins (b := b) h id q x (by rw [hq1]; exact hpid) (.inl (hq2.trans hk)) (hq4.trans hv) hv0
        rfl rfl rfl rfl (fun i hi => hi) (fun i hi => mem_ins_of_mem hi) (fun i hi => hi) (hin _ (mem_ins_self _ _)),
        hin _ (mem_ins_self _ _)⟩
    · simp only [h2, if_false] at hc2
      subst hc2
      have hin : ∀ s' : St, id ∈ s'.puback → id ∈ waitOf s' (respOf q) := by
        intro s' hs; rw [hr]; simp only [waitOf, respOf, hk, h2]; exact hs
      exact ⟨inv_store_ins (b := b) h id q x (by rw [hq1]; exact hpid) (.inl (hq2.trans hk)) (hq4.trans hv) hv0
        rfl rfl rfl rfl (fun i hi => mem_ins_of_mem hi) (fun i hi => hi) (fun i hi => hi) (hin _ (mem_ins_self _ _)),
        hin _ (mem_ins_self _ _)⟩
  refine ⟨key.1, ?_⟩
  intro n hn
  rw [waitN_respOf hn, hpid, ← hr]; exact key.2

theorem inv_psV5Publish {g : Gh} {c : C} (h : Inv g c) (p : Pkt) (hk : p.kind = .publish)
    (hv : p.ver = c.s.ver) (hv0 : c.s.ver ≠ 0) : Inv g (psV5Publish c p) := by
  have hw0 : ¬ p.qos > 0 → ∀ n, nibOf p = some n → p.pid.getD 0 ∈ waitN c.s n := by
    intro hq n hn; rw [nibOf_qos0 hk hq] at hn; cases hn
  unfold psV5Publish
  split
  · split
    · exact h.fr ((fr_err _ _).trans (fr_releaseIfUsed _ _))
    · exact h.fr (fr_err _ _)
  split
  · split
    · exact h.fr (fr_setPanic _ _)
    · rename_i id hp
      split
      · exact h.fr ((fr_err _ _).trans (fr_releaseIfUsed _ _))
      split
      · exact h.fr (fr_err _ _)
      split
      · split
        · simp only []
          split
          · exact h.fr ((fr_validateTopicAlias c _).trans ((fr_err _ _).trans (fr_releaseIfUsed _ _)))
          · rename_i t ht
            have f : Fr c (if hasWildcard t = true then (validateTopicAlias c p.alias).2.setPanic "core.rs:process_send_v5_0_publish:remove_topic_alias_add_topic().unwrap()" else (validateTopicAlias c p.alias).2) := by
              split
              · exact (fr_validateTopicAlias c _).trans (fr_setPanic _ _)
              · exact fr_validateTopicAlias c _
            obtain ⟨h2, hw⟩ := inv_pub_ins (b := true) (h.fr f) p { p with topic := t, alias := none, dup := true } id
              "core.rs:process_send_v5_0_publish:store.add().unwrap()" hp hk (by rw [f.ver]; exact hv) (by rw [f.ver]; exact hv0)
              rfl rfl rfl rfl rfl
            exact inv_psV5PublishAlias h2 p none true hw
        · simp only []
          obtain ⟨h2, hw⟩ := inv_pub_ins (b := true) h p { p with alias := none, dup := true } id
            "core.rs:process_send_v5_0_publish:store.add().unwrap()" hp hk hv hv0 rfl rfl rfl rfl rfl
          exact inv_psV5PublishAlias h2 p none false hw
      · simp only []
        obtain ⟨h2, hw⟩ := inv_pub_ins (b := false) h p p id "" hp hk hv hv0 rfl rfl rfl rfl rfl
        exact inv_psV5PublishAlias h2 p (some id) false hw
  · rename_i hq
    split
    · exact h.fr (fr_err _ _)
    · exact inv_psV5PublishAlias h p none false (hw0 hq)

/-! ## PUBREL -/

theorem inv_psPubrel {m : Option Nat} {g : Gh} {c : C} (h : InvM m g c) (p : Pkt) (hk : p.kind = .pubrel)
    (hv : p.ver = c.s.ver) (hv0 : c.s.ver ≠ 0) : InvM m g (psPubrel c p) := by
  unfold psPubrel
  split
  · exact h.fr (fr_err _ _)
  split
  · exact h.fr (fr_err _ _)
  · simp only []
    split
    · exact h.fr (fr_err _ _)
    · have hin : ∀ c1 : C, p.pid.getD 0 ∈ waitOf ({ c1 with s := { c1.s with pubcomp := ins (p.pid.getD 0) c1.s.pubcomp } } : C).s (respOf p) := by
        intro c1; simp only [waitOf, respOf, hk, if_true]; exact mem_ins_self _ _
      have h2 := inv_store_ins (b := c.s.needStore) (c2 := { (if c.s.needStore = true then storeAdd c (p.pid.getD 0) p "core.rs:process_send_pubrel:store.add().unwrap()" else c) with s := { (if c.s.needStore = true then storeAdd c (p.pid.getD 0) p "core.rs:process_send_pubrel:store.add().unwrap()" else c).s with pubcomp := ins (p.pid.getD 0) (if c.s.needStore = true then storeAdd c (p.pid.getD 0) p "core.rs:process_send_pubrel:store.add().unwrap()" else c).s.pubcomp } })
        h (p.pid.getD 0) p "core.rs:process_send_pubrel:store.add().unwrap()" rfl (.inr hk) hv hv0
        rfl rfl rfl rfl (fun i hi => hi) (fun i hi => hi) (fun i hi => mem_ins_of_mem hi) (hin _)
      refine inv_send_tail h2 p none ?_
      intro n hn
      rw [waitN_respOf hn]; exact hin _

end MqttVerif.Conn.Pend
