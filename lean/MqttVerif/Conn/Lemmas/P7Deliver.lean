import MqttVerif.Conn.Lemmas.P7Frame
/-!
# `recv` calls that hand one complete frame to a packet handler   (agent P7)
-/
namespace MqttVerif.Conn
open MqttVerif

/-- this `recv` call completes a frame `(fh, data)` that reaches the per-type handlers: within
    the local Maximum Packet Size, of a type the role may receive, protocol version known -/
structure Delivers (cfg : Cfg) (s : St) (inp : List Nat) (pb' : Framing.PB) (fh : Nat) (data : List Nat) : Prop where
  feed : ∃ rest, Framing.feed s.pb inp = (pb', some (.complete fh data), rest)
  size : totalSize data.length ≤ s.mpsRecv
  can : canReceive cfg s (fh / 16) = true
  ver : s.ver ≠ 0

theorem step_recv_of_delivers {cfg : Cfg} {s : St} {inp : List Nat} {pb' : Framing.PB} {fh : Nat} {data : List Nat}
    (h : Delivers cfg s inp pb' fh data) (parse : Nat → Nat → List Nat → Except Nat Pkt) :
    step cfg s (.recv inp parse) =
      dispatchRecv { cfg := cfg, s := { s with pb := pb' } } (fh / 16) (parse s.ver fh data) := by
  obtain ⟨⟨rest, hf⟩, hs, hc, hv⟩ := h
  have hs' : ¬ totalSize data.length > s.mpsRecv := by omega
  have hc' : canReceive cfg { s with pb := pb' } (fh / 16) = true := hc
  simp only [step, recv, hf, processRecvPacket]
  simp [hs', hv, hc']

end MqttVerif.Conn
