import MqttVerif.Conn.Lemmas.Store2
/-!
# `SL K` through the functions that change the store, up to `step`
-/
namespace MqttVerif.Conn
open MqttVerif

section
variable {K : Pkt → Prop}

theorem psV3Connect_sl (c : C) (p : Pkt) (h : SL K c.s.store) : SL K (psV3Connect c p).s.store := by
  by_cases hc : p.clean = true <;> simp [psV3Connect, hc, h]

theorem psV5Connect_sl (c : C) (p : Pkt) (h : SL K c.s.store) : SL K (psV5Connect c p).s.store := by
  by_cases hc : p.clean = true <;> by_cases hz : sizeOk c p = true <;> simp [psV5Connect, hc, hz, h]

theorem psV3Connack_sl (c : C) (p : Pkt) (h : SL K c.s.store) : SL K (psV3Connack c p).s.store := by
  by_cases hr : p.rc = some 0 <;> simp [psV3Connack, hr, h, sendStored_sl]

theorem psV5Connack_sl (c : C) (p : Pkt) (h : SL K c.s.store) : SL K (psV5Connack c p).s.store := by
  by_cases hr : p.rc = some 0 <;> by_cases hz : sizeOk c p = true <;>
    simp [psV5Connack, hr, hz, h, sendStored_sl]

theorem psV3Publish_sl (c : C) (p : Pkt) (hk : ∀ q : Pkt, q.kind = p.kind → K q) (h : SL K c.s.store) :
    SL K (psV3Publish c p).s.store := by
  cases hpid : p.pid <;> by_cases h1 : willStore c.s = true <;> by_cases h2 : p.qos = 2 <;>
    simp [psV3Publish, hpid, h1, h2, h, hk, storeAdd_sl]

theorem psV5PublishAlias_sl (c : C) (p : Pkt) (rel v) (h : SL K c.s.store) :
    SL K (psV5PublishAlias c p rel v).s.store := by
  unfold psV5PublishAlias
  extract_lets blocked r r2
  have hr : SL K r.2.s.store := by cases v <;> simp [r, h]
  have hr2 : SL K r2.1.s.store := by simp [r2, h]
  split
  · exact pubRefuseCleanup_sl _ _ (by simpa using h)
  · split
    · split
      · exact pubRefuseCleanup_sl _ _ (by simpa using hr)
      · simpa using hr
    · split
      · split
        · simp only [psV5PublishTail_store]
          split <;> simpa using h
        · exact pubRefuseCleanup_sl _ _ (by simpa using h)
      · simpa using hr2

theorem SL_pubset {c : C} {id : Nat} {b : Prop} [Decidable b] (h : SL K c.s.store) :
    SL K (if b then { c with s := { c.s with pubrec := ins id c.s.pubrec } }
          else { c with s := { c.s with puback := ins id c.s.puback } } : C).s.store := by
  split <;> exact h

theorem psV5Publish_sl (c : C) (p : Pkt) (hk : ∀ q : Pkt, q.kind = p.kind → K q) (h : SL K c.s.store) :
    SL K (psV5Publish c p).s.store := by
  unfold psV5Publish
  split
  · split <;> simpa using h
  · split
    · split
      · simpa using h
      · split
        · simpa using h
        · split
          · simpa using h
          · split
            · split
              · extract_lets r c1
                have hr : SL K r.2.s.store := by simp [r, h]
                split
                · simpa using hr
                · refine psV5PublishAlias_sl _ _ _ _ (SL_pubset (storeAdd_sl _ _ _ _ ?_ (hk _ rfl)))
                  split <;> simpa [c1] using hr
              · exact psV5PublishAlias_sl _ _ _ _ (SL_pubset (storeAdd_sl _ _ _ _ h (hk _ rfl)))
            · exact psV5PublishAlias_sl _ _ _ _ (SL_pubset h)
    · split
      · simpa using h
      · exact psV5PublishAlias_sl _ _ _ _ h

theorem psPubrel_sl (c : C) (p : Pkt) (hk : K p) (h : SL K c.s.store) : SL K (psPubrel c p).s.store := by
  by_cases hn : c.s.needStore = true <;> simp [psPubrel, hn, h, hk, storeAdd_sl]

/-- `K` holds of every PUBLISH and PUBREL -/
def KPub (K : Pkt → Prop) : Prop := ∀ q : Pkt, q.kind = .publish ∨ q.kind = .pubrel → K q

theorem processSend_sl (hK : KPub K) (c : C) (p : Pkt) (h : SL K c.s.store) :
    SL K (processSend c p).s.store := by
  unfold processSend
  split
  · cases hk : p.kind <;> simp only [] <;>
      first
        | (simpa using h)
        | exact psV3Connect_sl c p h
        | exact psV3Connack_sl c p h
        | exact psV3Publish_sl c p (fun q hq => hK q (.inl (hq.trans hk))) h
        | exact psPubrel_sl c p (hK _ (.inr hk)) h
  · cases hk : p.kind <;> simp only [] <;>
      first
        | (simpa using h)
        | exact psV5Connect_sl c p h
        | exact psV5Connack_sl c p h
        | exact psV5Publish_sl c p (fun q hq => hK q (.inl (hq.trans hk))) h
        | exact psPubrel_sl c p (hK _ (.inr hk)) h

theorem send_sl (hK : KPub K) (c : C) (p : Pkt) (h : SL K c.s.store) : SL K (send c p).s.store := by
  unfold send
  split
  · simpa using h
  · split
    · simpa using h
    · exact processSend_sl hK c p h

theorem prV3Connect_sl (c : C) (parsed) (h : SL K c.s.store) : SL K (prV3Connect c parsed).s.store := by
  unfold prV3Connect
  split
  · simpa using h
  · simp only []
    split
    · rename_i p
      by_cases h1 : p.keepAlive > 0 <;> by_cases h2 : p.clean = true <;> simp [h1, h2, h]
    · simpa using psV3Connack_sl _ _ (by simpa using h)

theorem prV5Connect_sl (c : C) (parsed) (h : SL K c.s.store) : SL K (prV5Connect c parsed).s.store := by
  unfold prV5Connect
  split
  · simpa using h
  · simp only []
    split
    · rename_i p
      by_cases h1 : p.keepAlive > 0 <;> by_cases h2 : p.clean = true <;> simp [h1, h2, h]
    · simpa using psV5Connack_sl _ _ (by simpa using h)

theorem prV3Connack_sl (c : C) (parsed) (h : SL K c.s.store) : SL K (prV3Connack c parsed).s.store := by
  unfold prV3Connack
  split
  · simpa using h
  · split
    · rename_i p
      by_cases h1 : p.rc = some 0 <;> by_cases h2 : p.sp = true <;> simp [h1, h2, h]
      exact resendStored_sl _ (by simpa using h)
    · simpa using h

theorem prV5Connack_sl (c : C) (parsed) (h : SL K c.s.store) : SL K (prV5Connack c parsed).s.store := by
  unfold prV5Connack
  split
  · simpa using h
  · split
    · rename_i p
      have hf := propsFold_sl (K := K) connackRecvProp_sl
      by_cases h1 : p.rc = some 0 <;> by_cases h2 : p.sp = true <;> simp [h1, h2, h]
      exact resendStored_sl _ (hf _ _ (by simpa using h))
    · simpa using h

theorem prPuback_sl (c : C) (parsed) (h : SL K c.s.store) : SL K (prPuback c parsed).s.store := by
  unfold prPuback
  split
  · simpa using h
  · rename_i p
    simp only []
    split
    · by_cases h5 : p.ver = 5 <;> simp [h5, SL_storeErase, h]
    · simpa using h

theorem prPubcomp_sl (c : C) (parsed) (h : SL K c.s.store) : SL K (prPubcomp c parsed).s.store := by
  unfold prPubcomp
  split
  · simpa using h
  · rename_i p
    simp only []
    split
    · by_cases h5 : p.ver = 5 <;> simp [h5, SL_storeErase, h]
    · simpa using h

theorem prPubrec_sl (hK : KPub K) (c : C) (parsed) (h : SL K c.s.store) :
    SL K (prPubrec c parsed).s.store := by
  unfold prPubrec
  split
  · simpa using h
  · rename_i p
    simp only []
    split
    · have hrel : ∀ (c' : C) (q : Pkt), q.kind = .pubrel → SL K c'.s.store → SL K (psPubrel c' q).s.store :=
        fun c' q hk h' => psPubrel_sl c' q (hK q (.inr hk)) h'
      by_cases hs : (p.ver = 4 ∨ p.rc = none ∨ p.rc = some 0) <;>
        simp (maxDischargeDepth := 8) [hs, SL_storeErase, h, hrel, mkAck]
    · simpa using h

theorem dispatchRecv_sl (hK : KPub K) (c : C) (t parsed) (h : SL K c.s.store) :
    SL K (dispatchRecv c t parsed).s.store := by
  unfold dispatchRecv
  (repeat' split) <;>
    first
      | (simpa using h)
      | exact prV3Connect_sl c _ h
      | exact prV5Connect_sl c _ h
      | exact prV3Connack_sl c _ h
      | exact prV5Connack_sl c _ h
      | exact prPuback_sl c _ h
      | exact prPubrec_sl hK c _ h
      | exact prPubcomp_sl c _ h

theorem processRecvPacket_sl (hK : KPub K) (c : C) (fh data parse) (h : SL K c.s.store) :
    SL K (processRecvPacket c fh data parse).s.store := by
  unfold processRecvPacket
  split
  · simpa using h
  · simp only []
    split
    · simpa using h
    · split
      · split
        · split
          · simpa using h
          · split
            · exact prV3Connect_sl _ _ (by simpa using h)
            · split
              · exact prV5Connect_sl _ _ (by simpa using h)
              · simpa using h
        · simpa using h
      · exact dispatchRecv_sl hK c _ _ h

theorem recv_sl (hK : KPub K) (c : C) (inp parse) (h : SL K c.s.store) :
    SL K (recv c inp parse).1.s.store := by
  unfold recv
  split
  simp only []
  split
  · simpa using h
  · exact processRecvPacket_sl hK _ _ _ _ (by simpa using h)
  · simpa using h

theorem notifyClosed_sl (c : C) (h : SL K c.s.store) : SL K (notifyClosed c).s.store := by
  unfold notifyClosed
  by_cases hn : c.s.needStore = true <;> simp [hn, h]

theorem eraseStoredPublish_sl (c : C) (id) (h : SL K c.s.store) : SL K (eraseStoredPublish c id).s.store := by
  unfold eraseStoredPublish
  simp [h, SL_storeErasePublish]

theorem restoreOne_sl (c : C) (p : Pkt) (hk : K p) (h : SL K c.s.store) : SL K (restoreOne c p).s.store := by
  unfold restoreOne register
  (repeat' split) <;> (try simp only []) <;> (repeat' split) <;>
    simp [h, SL_append, SL_single, hk]

theorem restorePackets_sl (c : C) (ps : List Pkt) (hk : ∀ p ∈ ps, K p) (h : SL K c.s.store) :
    SL K (restorePackets c ps).s.store := by
  induction ps generalizing c with
  | nil => exact h
  | cons x rest ih =>
    exact ih _ (fun p hp => hk p (List.mem_cons_of_mem _ hp)) (restoreOne_sl c x (hk x List.mem_cons_self) h)

end
end MqttVerif.Conn
