import MqttVerif.Conn.Lemmas.NoWedge
/-!
# C05 helpers — after `notify_closed` the object accepts a new connection
-/
set_option linter.unusedSimpArgs false
set_option linter.unusedVariables false
namespace MqttVerif.Conn
open MqttVerif

/-- the connection-scoped fields that gate a new CONNECT -/
def cv (s : St) : Status × Nat × Nat × Framing.PB × Nat := (s.status, s.mpsSend, s.mpsRecv, s.pb, s.ver)

theorem releaseId_cv (c : C) (id : Nat) : cv (releaseId c id).s = cv c.s := by
  simp only [releaseId]; split <;> rfl

theorem releaseIfUsed_cv (c : C) (id : Nat) : cv (releaseIfUsed c id).s = cv c.s := by
  unfold releaseIfUsed; split
  · rw [push_s, releaseId_cv]
  · rfl

theorem releaseAll_cv (c : C) (ids : List Nat) : cv (releaseAll c ids).s = cv c.s := by
  induction ids generalizing c with
  | nil => rfl
  | cons id rest ih => simp only [releaseAll]; rw [ih, releaseIfUsed_cv]

/-- `notify_closed` in ANY state (no invariant needed): disconnected, no size limits, empty
    packet builder (fix of finding #1), same version -/
theorem notifyClosed_cv (c : C) :
    cv (notifyClosed c).s = (.disconnected, noLimit, noLimit, Framing.PB.reset, c.s.ver) := by
  unfold notifyClosed
  extract_lets s8 c8 sub s7 c7 unsub s6 c6 s5 c5 a s4 c4 b s3 c3 d s2 c2 s1 c1 s0 c0
  rw [cancelTimers_s]
  have e7 : cv c7.s = (.disconnected, noLimit, noLimit, c.s.pb, c.s.ver) := by
    simp only [c7]; rw [releaseAll_cv]; rfl
  have e6 : cv c6.s = (.disconnected, noLimit, noLimit, c.s.pb, c.s.ver) := by
    simp only [c6]; rw [releaseAll_cv]; exact e7
  have e1 : cv c1.s = (.disconnected, noLimit, noLimit, c.s.pb, c.s.ver) := by
    simp only [c1]
    split
    · show cv c2.s = _
      simp only [c2]; rw [releaseAll_cv]
      show cv c3.s = _
      simp only [c3]; rw [releaseAll_cv]
      show cv c4.s = _
      simp only [c4]; rw [releaseAll_cv]
      exact e6
    · exact e6
  simp only [cv, Prod.mk.injEq] at e1 ⊢
  exact ⟨e1.1, e1.2.1, e1.2.2.1, rfl, e1.2.2.2.2⟩

theorem connectSendProp_ev (c : C) (id v : Nat) : (connectSendProp c id v).ev = c.ev := by
  unfold connectSendProp
  (repeat' split) <;> rfl

theorem propsFold_connectSendProp_ev (c : C) (l : List (Nat × Nat)) :
    (propsFold connectSendProp c l).ev = c.ev := by
  induction l generalizing c with
  | nil => rfl
  | cons x rest ih => obtain ⟨id, v⟩ := x; simp only [propsFold]; rw [ih, connectSendProp_ev]

theorem mem_spp_of_mem {c : C} {e : Ev} (h : e ∈ c.ev) : e ∈ (sendPostProcess c).ev := by
  obtain ⟨t, ht⟩ := sendPostProcess_ev c
  rw [ht]; exact List.mem_append_left _ h

/-- a CONNECT of the connection's version is accepted by `send` on a disconnected object
    without size limit (role Client/Any) -/
theorem send_connect_accepted {c : C} {p : Pkt} (hk : p.kind = .connect) (hv : c.s.ver = p.ver)
    (hr : c.cfg.role = .client ∨ c.cfg.role = .any) (hs : c.s.status = .disconnected)
    (hm : c.s.mpsSend = noLimit) (hsz : p.sz c.cfg.pw ≤ noLimit) :
    Ev.send p none ∈ (send c p).ev := by
  have hrole : roleMaySend c.cfg.role p = true := by
    simp only [roleMaySend, hk]; rcases hr with e | e <;> simp [e]
  have hso : sizeOk c p = true := by simp [sizeOk, hm]; omega
  unfold send
  simp only [hv, ne_eq, not_true_eq_false, if_false, hrole, Bool.not_true, Bool.false_eq_true]
  unfold processSend
  split
  · simp only [hk]
    unfold psV3Connect
    simp only [hs, ne_eq, not_true_eq_false, if_false]
    apply mem_spp_of_mem
    simp [C.push]
  · simp only [hk]
    unfold psV5Connect
    simp only [hso, hs, ne_eq, not_true_eq_false, if_false, Bool.not_true, Bool.false_eq_true]
    apply mem_spp_of_mem
    simp [C.push]

/-- a received CONNECT that parses is delivered on a disconnected object without size limit
    (role Server/Any), whatever was buffered before (`pb` is the builder state after reset) -/
theorem recv_connect_delivered {c : C} {inp : List Nat} {parse : Nat → Nat → List Nat → Except Nat Pkt}
    {pb' : Framing.PB} {fh : Nat} {data rest : List Nat} {p : Pkt}
    (hf : Framing.feed c.s.pb inp = (pb', some (.complete fh data), rest))
    (ht : fh / 16 = 1) (hsz : totalSize data.length ≤ noLimit)
    (hv : c.s.ver = 4 ∨ c.s.ver = 5) (hr : c.cfg.role = .server ∨ c.cfg.role = .any)
    (hs : c.s.status = .disconnected) (hm : c.s.mpsRecv = noLimit)
    (hp : parse c.s.ver fh data = .ok p) :
    Ev.recv p ∈ (recv c inp parse).1.ev := by
  have hcr : canReceive c.cfg { c.s with pb := pb' } 1 = true := by
    rcases hr with e | e <;> simp [canReceive, e]
  unfold recv
  rw [hf]
  dsimp only
  unfold processRecvPacket
  have h1 : ¬ (totalSize data.length > c.s.mpsRecv) := by rw [hm]; omega
  have h0 : ¬ (c.s.ver = 0) := by omega
  simp only [h1, if_false, ht, hcr, Bool.not_true, Bool.false_eq_true, h0]
  unfold dispatchRecv
  simp only
  rcases hv with e | e
  · simp only [e, if_true]
    unfold prV3Connect
    rw [e] at hp
    simp only [hs, ne_eq, not_true_eq_false, if_false, hp]
    simp [C.push]
  · have e4 : ¬ (c.s.ver = 4) := by omega
    simp only [e4, if_false]
    unfold prV5Connect
    rw [e] at hp
    simp only [hs, ne_eq, not_true_eq_false, if_false, e, hp]
    simp [C.push]

end MqttVerif.Conn
