import MqttVerif.Conn.Lemmas.PairSched
/-!
# Generated phase table (helper for `Props/C01L2c.lean`)

Two SAME-direction exchanges in flight: `startTwo v false P1 P2`, `P1` QoS 1 (identifier 1), `P2` QoS 2 (identifier 2).
`Ph`: the 18 shapes (with the notification / release counters) the pair passes through under ANY schedule of
`Act4` actions (found by a breadth-first search on concrete packets; that the table is right for arbitrary
packets and both versions is what `closure` proves, one lemma `cl_p<i>` per phase, by the step lemmas).
`sysOf`: the shape; `next`: the successor; `nS nC rC rS`: the PUBLISH notifications at the server / client application and
the identifiers released by the client / server in that step; `c1 c2 r1 r2`: has message 1 / 2 been notified, identifier
released (1 = yes; for a QoS 2 message and for the releases the counters are exact: `c?x`, `r?_step`).
-/
set_option linter.unusedSimpArgs false
set_option linter.unusedVariables false
namespace MqttVerif.Conn.Pair.G5_12f
open MqttVerif MqttVerif.Conn MqttVerif.Conn.Pair

inductive Ph
  | p0
  | p1
  | p2
  | p3
  | p4
  | p5
  | p6
  | p7
  | p8
  | p9
  | p10
  | p11
  | p12
  | p13
  | p14
  | p15
  | p16
  | p17
deriving DecidableEq, Repr

def sysOf (v : Nat) (P1 P2 : Pkt) : Ph → Sys
  | .p0 =>
    { c := mkSt v true .connected [⟨1, 65535⟩] [] [] [] [] [] [],
      s := mkSt v false .connected [⟨3, 65535⟩] [(1, P1.asDup), (2, P2.asDup)] [1] [2] [] [] [],
      c2s := [], s2c := [P1, P2] }
  | .p1 =>
    { c := mkSt v true .connected [⟨1, 65535⟩] [] [] [] [] [] [],
      s := mkSt v false .connected [⟨3, 65535⟩] [(1, P1.asDup), (2, P2.asDup)] [1] [2] [] [] [],
      c2s := [(ackN v .puback 1)], s2c := [P2] }
  | .p2 =>
    { c := mkSt v true .connected [⟨1, 65535⟩] [] [] [] [] [] [],
      s := mkSt v false .connected [⟨3, 65535⟩] [(1, P1.asDup), (2, P2.asDup)] [1] [2] [] [] [],
      c2s := [], s2c := [P1.asDup, P2.asDup] }
  | .p3 =>
    { c := mkSt v true .connected [⟨1, 65535⟩] [] [] [] [] [] [],
      s := mkSt v false .connected [⟨1, 1⟩, ⟨3, 65535⟩] [(2, P2.asDup)] [] [2] [] [] [],
      c2s := [], s2c := [P2] }
  | .p4 =>
    { c := mkSt v true .connected [⟨1, 65535⟩] [] [] [] [] [2] (prl v [2]),
      s := mkSt v false .connected [⟨3, 65535⟩] [(1, P1.asDup), (2, P2.asDup)] [1] [2] [] [] [],
      c2s := [(ackN v .puback 1), (ackN v .pubrec 2)], s2c := [] }
  | .p5 =>
    { c := mkSt v true .connected [⟨1, 65535⟩] [] [] [] [] [] [],
      s := mkSt v false .connected [⟨3, 65535⟩] [(1, P1.asDup), (2, P2.asDup)] [1] [2] [] [] [],
      c2s := [], s2c := [P1.asDup, P2.asDup] }
  | .p6 =>
    { c := mkSt v true .connected [⟨1, 65535⟩] [] [] [] [] [] [],
      s := mkSt v false .connected [⟨3, 65535⟩] [(1, P1.asDup), (2, P2.asDup)] [1] [2] [] [] [],
      c2s := [(ackN v .puback 1)], s2c := [P2.asDup] }
  | .p7 =>
    { c := mkSt v true .connected [⟨1, 65535⟩] [] [] [] [] [2] (prl v [2]),
      s := mkSt v false .connected [⟨1, 1⟩, ⟨3, 65535⟩] [(2, P2.asDup)] [] [2] [] [] [],
      c2s := [(ackN v .pubrec 2)], s2c := [] }
  | .p8 =>
    { c := mkSt v true .connected [⟨1, 65535⟩] [] [] [] [] [] [],
      s := mkSt v false .connected [⟨1, 1⟩, ⟨3, 65535⟩] [(2, P2.asDup)] [] [2] [] [] [],
      c2s := [], s2c := [P2.asDup] }
  | .p9 =>
    { c := mkSt v true .connected [⟨1, 65535⟩] [] [] [] [] [2] [],
      s := mkSt v false .connected [⟨3, 65535⟩] [(1, P1.asDup), (2, P2.asDup)] [1] [2] [] [] [],
      c2s := [], s2c := [P1.asDup, P2.asDup] }
  | .p10 =>
    { c := mkSt v true .connected [⟨1, 65535⟩] [] [] [] [] [2] (prl v [2]),
      s := mkSt v false .connected [⟨1, 1⟩, ⟨3, 65535⟩] [(2, (ackN v .pubrel 2))] [] [] [2] [] [],
      c2s := [], s2c := [(ackN v .pubrel 2)] }
  | .p11 =>
    { c := mkSt v true .connected [⟨1, 65535⟩] [] [] [] [] [2] [],
      s := mkSt v false .connected [⟨1, 1⟩, ⟨3, 65535⟩] [(2, P2.asDup)] [] [2] [] [] [],
      c2s := [], s2c := [P2.asDup] }
  | .p12 =>
    { c := mkSt v true .connected [⟨1, 65535⟩] [] [] [] [] [2] [],
      s := mkSt v false .connected [⟨3, 65535⟩] [(1, P1.asDup), (2, P2.asDup)] [1] [2] [] [] [],
      c2s := [(ackN v .puback 1)], s2c := [P2.asDup] }
  | .p13 =>
    { c := mkSt v true .connected [⟨1, 65535⟩] [] [] [] [] [] [],
      s := mkSt v false .connected [⟨1, 1⟩, ⟨3, 65535⟩] [(2, (ackN v .pubrel 2))] [] [] [2] [] [],
      c2s := [(ackN v .pubcomp 2)], s2c := [] }
  | .p14 =>
    { c := mkSt v true .connected [⟨1, 65535⟩] [] [] [] [] [2] [],
      s := mkSt v false .connected [⟨1, 1⟩, ⟨3, 65535⟩] [(2, (ackN v .pubrel 2))] [] [] [2] [] [],
      c2s := [], s2c := [(ackN v .pubrel 2)] }
  | .p15 =>
    { c := mkSt v true .connected [⟨1, 65535⟩] [] [] [] [] [] [],
      s := mkSt v false .connected [⟨1, 65535⟩] [] [] [] [] [] [],
      c2s := [], s2c := [] }
  | .p16 =>
    { c := mkSt v true .connected [⟨1, 65535⟩] [] [] [] [] [] [],
      s := mkSt v false .connected [⟨1, 1⟩, ⟨3, 65535⟩] [(2, (ackN v .pubrel 2))] [] [] [2] [] [],
      c2s := [], s2c := [(ackN v .pubrel 2)] }
  | .p17 =>
    { c := mkSt v true .connected [⟨1, 65535⟩] [] [] [] [] [] [],
      s := mkSt v false .connected [⟨1, 1⟩, ⟨3, 65535⟩] [(2, (ackN v .pubrel 2))] [] [] [2] [] [],
      c2s := [(pcA v 2)], s2c := [] }

def next (ph : Ph) (a : Act4) : Ph :=
  match ph with
  | .p0 => sel a .p0 .p1 .p1 .p2
  | .p1 => sel a .p3 .p4 .p3 .p5
  | .p2 => sel a .p2 .p6 .p6 .p2
  | .p3 => sel a .p3 .p7 .p7 .p8
  | .p4 => sel a .p7 .p4 .p7 .p9
  | .p5 => sel a .p5 .p6 .p6 .p5
  | .p6 => sel a .p8 .p4 .p8 .p5
  | .p7 => sel a .p10 .p7 .p10 .p11
  | .p8 => sel a .p8 .p7 .p7 .p8
  | .p9 => sel a .p9 .p12 .p12 .p9
  | .p10 => sel a .p10 .p13 .p13 .p14
  | .p11 => sel a .p11 .p7 .p7 .p11
  | .p12 => sel a .p11 .p4 .p11 .p9
  | .p13 => sel a .p15 .p13 .p15 .p16
  | .p14 => sel a .p14 .p13 .p13 .p14
  | .p15 => sel a .p15 .p15 .p15 .p15
  | .p16 => sel a .p16 .p17 .p17 .p16
  | .p17 => sel a .p15 .p17 .p15 .p16

def nS (P1 P2 : Pkt) (ph : Ph) (a : Act4) : List Pkt := []

def nC (P1 P2 : Pkt) (ph : Ph) (a : Act4) : List Pkt :=
  match ph with
  | .p0 => sel a [] [P1] [P1] []
  | .p1 => sel a [] [P2] [] []
  | .p2 => sel a [] [P1.asDup] [P1.asDup] []
  | .p3 => sel a [] [P2] [P2] []
  | .p5 => sel a [] [P1.asDup] [P1.asDup] []
  | .p6 => sel a [] [P2.asDup] [] []
  | .p8 => sel a [] [P2.asDup] [P2.asDup] []
  | .p9 => sel a [] [P1.asDup] [P1.asDup] []
  | _ => []

def rC (ph : Ph) (a : Act4) : List Nat := []

def rS (ph : Ph) (a : Act4) : List Nat :=
  match ph with
  | .p1 => sel a [1] [] [1] []
  | .p4 => sel a [1] [] [1] []
  | .p6 => sel a [1] [] [1] []
  | .p12 => sel a [1] [] [1] []
  | .p13 => sel a [2] [] [2] []
  | .p17 => sel a [2] [] [2] []
  | _ => []

def c1 : Ph → Nat
  | .p1 => 1
  | .p3 => 1
  | .p4 => 1
  | .p5 => 1
  | .p6 => 1
  | .p7 => 1
  | .p8 => 1
  | .p9 => 1
  | .p10 => 1
  | .p11 => 1
  | .p12 => 1
  | .p13 => 1
  | .p14 => 1
  | .p15 => 1
  | .p16 => 1
  | .p17 => 1
  | _ => 0

def c2 : Ph → Nat
  | .p4 => 1
  | .p7 => 1
  | .p9 => 1
  | .p10 => 1
  | .p11 => 1
  | .p12 => 1
  | .p13 => 1
  | .p14 => 1
  | .p15 => 1
  | .p16 => 1
  | .p17 => 1
  | _ => 0

def r1 : Ph → Nat
  | .p3 => 1
  | .p7 => 1
  | .p8 => 1
  | .p10 => 1
  | .p11 => 1
  | .p13 => 1
  | .p14 => 1
  | .p15 => 1
  | .p16 => 1
  | .p17 => 1
  | _ => 0

def r2 : Ph → Nat
  | .p15 => 1
  | _ => 0

def done : Ph := .p15

section
variable {v : Nat} {P1 P2 : Pkt} (hv : v = 4 ∨ v = 5) (hA : IsPub v 1 P1) (hB : IsPubN v 2 2 P2)
include hv hA hB

theorem cl_p0 (a : Act4) :
    Obs2 (sysOf v P1 P2 (next .p0 a)) (nS P1 P2 .p0 a) (nC P1 P2 .p0 a) (rC .p0 a) (rS .p0 a) (act4 v (sysOf v P1 P2 .p0) a) := by
  have hv' := hv; have h1 : (1 : Nat) = 1 ∨ (1 : Nat) = 2 := Or.inl rfl; have h2 : (2 : Nat) = 1 ∨ (2 : Nat) = 2 := Or.inr rfl
  rcases hv' with rfl | rfl <;> cases a <;> run5 hv h1 hA h2 hB [sysOf, next, sel, nS, nC, rC, rS, act4, pcA, prl]

theorem cl_p1 (a : Act4) :
    Obs2 (sysOf v P1 P2 (next .p1 a)) (nS P1 P2 .p1 a) (nC P1 P2 .p1 a) (rC .p1 a) (rS .p1 a) (act4 v (sysOf v P1 P2 .p1) a) := by
  have hv' := hv; have h1 : (1 : Nat) = 1 ∨ (1 : Nat) = 2 := Or.inl rfl; have h2 : (2 : Nat) = 1 ∨ (2 : Nat) = 2 := Or.inr rfl
  rcases hv' with rfl | rfl <;> cases a <;> run5 hv h1 hA h2 hB [sysOf, next, sel, nS, nC, rC, rS, act4, pcA, prl]

theorem cl_p2 (a : Act4) :
    Obs2 (sysOf v P1 P2 (next .p2 a)) (nS P1 P2 .p2 a) (nC P1 P2 .p2 a) (rC .p2 a) (rS .p2 a) (act4 v (sysOf v P1 P2 .p2) a) := by
  have hv' := hv; have h1 : (1 : Nat) = 1 ∨ (1 : Nat) = 2 := Or.inl rfl; have h2 : (2 : Nat) = 1 ∨ (2 : Nat) = 2 := Or.inr rfl
  rcases hv' with rfl | rfl <;> cases a <;> run5 hv h1 hA h2 hB [sysOf, next, sel, nS, nC, rC, rS, act4, pcA, prl]

theorem cl_p3 (a : Act4) :
    Obs2 (sysOf v P1 P2 (next .p3 a)) (nS P1 P2 .p3 a) (nC P1 P2 .p3 a) (rC .p3 a) (rS .p3 a) (act4 v (sysOf v P1 P2 .p3) a) := by
  have hv' := hv; have h1 : (1 : Nat) = 1 ∨ (1 : Nat) = 2 := Or.inl rfl; have h2 : (2 : Nat) = 1 ∨ (2 : Nat) = 2 := Or.inr rfl
  rcases hv' with rfl | rfl <;> cases a <;> run5 hv h1 hA h2 hB [sysOf, next, sel, nS, nC, rC, rS, act4, pcA, prl]

theorem cl_p4 (a : Act4) :
    Obs2 (sysOf v P1 P2 (next .p4 a)) (nS P1 P2 .p4 a) (nC P1 P2 .p4 a) (rC .p4 a) (rS .p4 a) (act4 v (sysOf v P1 P2 .p4) a) := by
  have hv' := hv; have h1 : (1 : Nat) = 1 ∨ (1 : Nat) = 2 := Or.inl rfl; have h2 : (2 : Nat) = 1 ∨ (2 : Nat) = 2 := Or.inr rfl
  rcases hv' with rfl | rfl <;> cases a <;> run5 hv h1 hA h2 hB [sysOf, next, sel, nS, nC, rC, rS, act4, pcA, prl]

theorem cl_p5 (a : Act4) :
    Obs2 (sysOf v P1 P2 (next .p5 a)) (nS P1 P2 .p5 a) (nC P1 P2 .p5 a) (rC .p5 a) (rS .p5 a) (act4 v (sysOf v P1 P2 .p5) a) := by
  have hv' := hv; have h1 : (1 : Nat) = 1 ∨ (1 : Nat) = 2 := Or.inl rfl; have h2 : (2 : Nat) = 1 ∨ (2 : Nat) = 2 := Or.inr rfl
  rcases hv' with rfl | rfl <;> cases a <;> run5 hv h1 hA h2 hB [sysOf, next, sel, nS, nC, rC, rS, act4, pcA, prl]

theorem cl_p6 (a : Act4) :
    Obs2 (sysOf v P1 P2 (next .p6 a)) (nS P1 P2 .p6 a) (nC P1 P2 .p6 a) (rC .p6 a) (rS .p6 a) (act4 v (sysOf v P1 P2 .p6) a) := by
  have hv' := hv; have h1 : (1 : Nat) = 1 ∨ (1 : Nat) = 2 := Or.inl rfl; have h2 : (2 : Nat) = 1 ∨ (2 : Nat) = 2 := Or.inr rfl
  rcases hv' with rfl | rfl <;> cases a <;> run5 hv h1 hA h2 hB [sysOf, next, sel, nS, nC, rC, rS, act4, pcA, prl]

theorem cl_p7 (a : Act4) :
    Obs2 (sysOf v P1 P2 (next .p7 a)) (nS P1 P2 .p7 a) (nC P1 P2 .p7 a) (rC .p7 a) (rS .p7 a) (act4 v (sysOf v P1 P2 .p7) a) := by
  have hv' := hv; have h1 : (1 : Nat) = 1 ∨ (1 : Nat) = 2 := Or.inl rfl; have h2 : (2 : Nat) = 1 ∨ (2 : Nat) = 2 := Or.inr rfl
  rcases hv' with rfl | rfl <;> cases a <;> run5 hv h1 hA h2 hB [sysOf, next, sel, nS, nC, rC, rS, act4, pcA, prl]

theorem cl_p8 (a : Act4) :
    Obs2 (sysOf v P1 P2 (next .p8 a)) (nS P1 P2 .p8 a) (nC P1 P2 .p8 a) (rC .p8 a) (rS .p8 a) (act4 v (sysOf v P1 P2 .p8) a) := by
  have hv' := hv; have h1 : (1 : Nat) = 1 ∨ (1 : Nat) = 2 := Or.inl rfl; have h2 : (2 : Nat) = 1 ∨ (2 : Nat) = 2 := Or.inr rfl
  rcases hv' with rfl | rfl <;> cases a <;> run5 hv h1 hA h2 hB [sysOf, next, sel, nS, nC, rC, rS, act4, pcA, prl]

theorem cl_p9 (a : Act4) :
    Obs2 (sysOf v P1 P2 (next .p9 a)) (nS P1 P2 .p9 a) (nC P1 P2 .p9 a) (rC .p9 a) (rS .p9 a) (act4 v (sysOf v P1 P2 .p9) a) := by
  have hv' := hv; have h1 : (1 : Nat) = 1 ∨ (1 : Nat) = 2 := Or.inl rfl; have h2 : (2 : Nat) = 1 ∨ (2 : Nat) = 2 := Or.inr rfl
  rcases hv' with rfl | rfl <;> cases a <;> run5 hv h1 hA h2 hB [sysOf, next, sel, nS, nC, rC, rS, act4, pcA, prl]

theorem cl_p10 (a : Act4) :
    Obs2 (sysOf v P1 P2 (next .p10 a)) (nS P1 P2 .p10 a) (nC P1 P2 .p10 a) (rC .p10 a) (rS .p10 a) (act4 v (sysOf v P1 P2 .p10) a) := by
  have hv' := hv; have h1 : (1 : Nat) = 1 ∨ (1 : Nat) = 2 := Or.inl rfl; have h2 : (2 : Nat) = 1 ∨ (2 : Nat) = 2 := Or.inr rfl
  rcases hv' with rfl | rfl <;> cases a <;> run5 hv h1 hA h2 hB [sysOf, next, sel, nS, nC, rC, rS, act4, pcA, prl]

theorem cl_p11 (a : Act4) :
    Obs2 (sysOf v P1 P2 (next .p11 a)) (nS P1 P2 .p11 a) (nC P1 P2 .p11 a) (rC .p11 a) (rS .p11 a) (act4 v (sysOf v P1 P2 .p11) a) := by
  have hv' := hv; have h1 : (1 : Nat) = 1 ∨ (1 : Nat) = 2 := Or.inl rfl; have h2 : (2 : Nat) = 1 ∨ (2 : Nat) = 2 := Or.inr rfl
  rcases hv' with rfl | rfl <;> cases a <;> run5 hv h1 hA h2 hB [sysOf, next, sel, nS, nC, rC, rS, act4, pcA, prl]

theorem cl_p12 (a : Act4) :
    Obs2 (sysOf v P1 P2 (next .p12 a)) (nS P1 P2 .p12 a) (nC P1 P2 .p12 a) (rC .p12 a) (rS .p12 a) (act4 v (sysOf v P1 P2 .p12) a) := by
  have hv' := hv; have h1 : (1 : Nat) = 1 ∨ (1 : Nat) = 2 := Or.inl rfl; have h2 : (2 : Nat) = 1 ∨ (2 : Nat) = 2 := Or.inr rfl
  rcases hv' with rfl | rfl <;> cases a <;> run5 hv h1 hA h2 hB [sysOf, next, sel, nS, nC, rC, rS, act4, pcA, prl]

theorem cl_p13 (a : Act4) :
    Obs2 (sysOf v P1 P2 (next .p13 a)) (nS P1 P2 .p13 a) (nC P1 P2 .p13 a) (rC .p13 a) (rS .p13 a) (act4 v (sysOf v P1 P2 .p13) a) := by
  have hv' := hv; have h1 : (1 : Nat) = 1 ∨ (1 : Nat) = 2 := Or.inl rfl; have h2 : (2 : Nat) = 1 ∨ (2 : Nat) = 2 := Or.inr rfl
  rcases hv' with rfl | rfl <;> cases a <;> run5 hv h1 hA h2 hB [sysOf, next, sel, nS, nC, rC, rS, act4, pcA, prl]

theorem cl_p14 (a : Act4) :
    Obs2 (sysOf v P1 P2 (next .p14 a)) (nS P1 P2 .p14 a) (nC P1 P2 .p14 a) (rC .p14 a) (rS .p14 a) (act4 v (sysOf v P1 P2 .p14) a) := by
  have hv' := hv; have h1 : (1 : Nat) = 1 ∨ (1 : Nat) = 2 := Or.inl rfl; have h2 : (2 : Nat) = 1 ∨ (2 : Nat) = 2 := Or.inr rfl
  rcases hv' with rfl | rfl <;> cases a <;> run5 hv h1 hA h2 hB [sysOf, next, sel, nS, nC, rC, rS, act4, pcA, prl]

theorem cl_p15 (a : Act4) :
    Obs2 (sysOf v P1 P2 (next .p15 a)) (nS P1 P2 .p15 a) (nC P1 P2 .p15 a) (rC .p15 a) (rS .p15 a) (act4 v (sysOf v P1 P2 .p15) a) := by
  have hv' := hv; have h1 : (1 : Nat) = 1 ∨ (1 : Nat) = 2 := Or.inl rfl; have h2 : (2 : Nat) = 1 ∨ (2 : Nat) = 2 := Or.inr rfl
  rcases hv' with rfl | rfl <;> cases a <;> run5 hv h1 hA h2 hB [sysOf, next, sel, nS, nC, rC, rS, act4, pcA, prl]

theorem cl_p16 (a : Act4) :
    Obs2 (sysOf v P1 P2 (next .p16 a)) (nS P1 P2 .p16 a) (nC P1 P2 .p16 a) (rC .p16 a) (rS .p16 a) (act4 v (sysOf v P1 P2 .p16) a) := by
  have hv' := hv; have h1 : (1 : Nat) = 1 ∨ (1 : Nat) = 2 := Or.inl rfl; have h2 : (2 : Nat) = 1 ∨ (2 : Nat) = 2 := Or.inr rfl
  rcases hv' with rfl | rfl <;> cases a <;> run5 hv h1 hA h2 hB [sysOf, next, sel, nS, nC, rC, rS, act4, pcA, prl]

theorem cl_p17 (a : Act4) :
    Obs2 (sysOf v P1 P2 (next .p17 a)) (nS P1 P2 .p17 a) (nC P1 P2 .p17 a) (rC .p17 a) (rS .p17 a) (act4 v (sysOf v P1 P2 .p17) a) := by
  have hv' := hv; have h1 : (1 : Nat) = 1 ∨ (1 : Nat) = 2 := Or.inl rfl; have h2 : (2 : Nat) = 1 ∨ (2 : Nat) = 2 := Or.inr rfl
  rcases hv' with rfl | rfl <;> cases a <;> run5 hv h1 hA h2 hB [sysOf, next, sel, nS, nC, rC, rS, act4, pcA, prl]

theorem closure (ph : Ph) (a : Act4) :
    Obs2 (sysOf v P1 P2 (next ph a)) (nS P1 P2 ph a) (nC P1 P2 ph a) (rC ph a) (rS ph a) (act4 v (sysOf v P1 P2 ph) a) := by
  cases ph
  · exact cl_p0 hv hA hB a
  · exact cl_p1 hv hA hB a
  · exact cl_p2 hv hA hB a
  · exact cl_p3 hv hA hB a
  · exact cl_p4 hv hA hB a
  · exact cl_p5 hv hA hB a
  · exact cl_p6 hv hA hB a
  · exact cl_p7 hv hA hB a
  · exact cl_p8 hv hA hB a
  · exact cl_p9 hv hA hB a
  · exact cl_p10 hv hA hB a
  · exact cl_p11 hv hA hB a
  · exact cl_p12 hv hA hB a
  · exact cl_p13 hv hA hB a
  · exact cl_p14 hv hA hB a
  · exact cl_p15 hv hA hB a
  · exact cl_p16 hv hA hB a
  · exact cl_p17 hv hA hB a

theorem start_obs : Obs2 (sysOf v P1 P2 .p0) [] [] [] [] (startTwo v false P1 P2) := by
  have hv' := hv; have h1 : (1 : Nat) = 1 ∨ (1 : Nat) = 2 := Or.inl rfl; have h2 : (2 : Nat) = 1 ∨ (2 : Nat) = 2 := Or.inr rfl
  rcases hv' with rfl | rfl <;> run5 hv h1 hA h2 hB [sysOf]

omit hA hB in
theorem sys_done : sysOf v P1 P2 done = established v := by
  rw [established_eq v hv]; rfl
end

theorem sysOf_logs (v : Nat) (P1 P2 : Pkt) (ph : Ph) : (sysOf v P1 P2 ph).logC = [] ∧ (sysOf v P1 P2 ph).logS = [] := by
  cases ph <;> exact ⟨rfl, rfl⟩

theorem h8 (ph : Ph) : phRunG next ph (List.replicate 8 .deliver) = done := by
  cases ph <;> rfl

section
variable {P1 P2 : Pkt} (a1 : P1.pid = some 1) (a2 : P2.pid = some 2)
include a1 a2

theorem hok : ∀ ph a, ∀ Q ∈ nC P1 P2 ph a, (Q.pid = some 1 ∧ sameMsg P1 Q) ∨ (Q.pid = some 2 ∧ sameMsg P2 Q) := by
  intro ph a; cases ph <;> cases a <;> simp [next, sel, nS, nC, rC, rS, c1, c2, r1, r2, cntOf, notesOf, sameMsg, a1, a2]

omit a1 a2 in
theorem hrel : ∀ ph a, ∀ id ∈ rS ph a, id = 1 ∨ id = 2 := by
  intro ph a; cases ph <;> cases a <;> simp [next, sel, nS, nC, rC, rS, c1, c2, r1, r2, cntOf, notesOf, sameMsg]

theorem c1_le : ∀ ph a, c1 (next ph a) ≤ c1 ph + cntOf 1 (nC P1 P2 ph a) := by
  intro ph a; cases ph <;> cases a <;> simp [next, sel, nS, nC, rC, rS, c1, c2, r1, r2, cntOf, notesOf, sameMsg, a1, a2]

theorem c2_le : ∀ ph a, c2 (next ph a) ≤ c2 ph + cntOf 2 (nC P1 P2 ph a) := by
  intro ph a; cases ph <;> cases a <;> simp [next, sel, nS, nC, rC, rS, c1, c2, r1, r2, cntOf, notesOf, sameMsg, a1, a2]

theorem c2x : ∀ ph a, c2 (next ph a) = c2 ph + cntOf 2 (nC P1 P2 ph a) := by
  intro ph a; cases ph <;> cases a <;> simp [next, sel, nS, nC, rC, rS, c1, c2, r1, r2, cntOf, notesOf, sameMsg, a1, a2]

omit a1 a2 in
theorem r1_step : ∀ ph a, r1 (next ph a) = r1 ph + (rS ph a).count 1 := by
  intro ph a; cases ph <;> cases a <;> simp [next, sel, nS, nC, rC, rS, c1, c2, r1, r2, cntOf, notesOf, sameMsg]

omit a1 a2 in
theorem r2_step : ∀ ph a, r2 (next ph a) = r2 ph + (rS ph a).count 2 := by
  intro ph a; cases ph <;> cases a <;> simp [next, sel, nS, nC, rC, rS, c1, c2, r1, r2, cntOf, notesOf, sameMsg]
end

section
variable {v : Nat} {P1 P2 : Pkt} (hv : v = 4 ∨ v = 5) (hA : IsPub v 1 P1) (hB : IsPubN v 2 2 P2)
include hv hA hB

/-- at any moment of any schedule: no `.error` event at either side -/
theorem safe (acts : List Act4) :
    errFree (runActs4 v (startTwo v false P1 P2) acts).logC ∧ errFree (runActs4 v (startTwo v false P1 P2) acts).logS :=
  sched_safe (sysOf v P1 P2) next (nS P1 P2) (nC P1 P2) rC rS .p0 _ (sysOf_logs v P1 P2) (closure hv hA hB) (start_obs hv hA hB) acts

/-- every schedule, then everything delivered -/
theorem main (acts : List Act4) (n : Nat) (hn : 8 ≤ n) :
    let y := drain n (runActs4 v (startTwo v false P1 P2) acts)
    Quiet v y ∧ errFree y.logC ∧ errFree y.logS ∧ pubNotes (sendLog false y) = [] ∧ releasedIds (recvLog false y) = [] ∧
    DeliverySpec 1 2 P1 P2 (pubNotes (recvLog false y)) ∧ RelSpec (releasedIds (sendLog false y)) :=
  sched5_main (sysOf v P1 P2) next (nS P1 P2) (nC P1 P2) rC rS .p0 done _ hv false (nC P1 P2) (nS P1 P2) rS rC (Or.inr ⟨rfl, rfl, rfl, rfl, rfl⟩) c1 c2 r1 r2
    (sysOf_logs v P1 P2) (closure hv hA hB) (start_obs hv hA hB) (sys_done hv) h8 rfl (fun _ _ => rfl) (fun _ _ => rfl)
    (hok hA.pid hB.pid) hrel (c1_le hA.pid hB.pid) (c2_le hA.pid hB.pid) (fun h => absurd h (by decide)) (fun _ => c2x hA.pid hB.pid) r1_step r2_step
    ⟨rfl, rfl, rfl, rfl⟩ ⟨rfl, rfl, rfl, rfl⟩ acts n hn
end

end MqttVerif.Conn.Pair.G5_12f
