import MqttVerif.Conn.Lemmas.PidsRecv
/-!
# Helper lemmas for C08 — part 5: id-management calls and the `step` level
-/
set_option linter.unusedSimpArgs false
set_option linter.unusedVariables false
namespace MqttVerif.Conn
open MqttVerif

/-- calls that only take ids: nothing is announced, nothing becomes free -/
structure Grow (c c' : C) : Prop where
  cfg : c'.cfg = c.cfg
  wf : Wf c'
  rel : Mon.releasedIds c'.ev = Mon.releasedIds c.ev
  mono : ∀ id, isUsed c.s id = true → isUsed c'.s id = true

theorem Grow.refl {c : C} (h : Wf c) : Grow c c := ⟨rfl, h, rfl, fun _ h => h⟩
theorem Grow.trans {a b c : C} (g1 : Grow a b) (g2 : Grow b c) : Grow a c :=
  ⟨g2.cfg.trans g1.cfg, g2.wf, g2.rel.trans g1.rel, fun id h => g2.mono id (g1.mono id h)⟩
theorem Grow.of_quiet {c c' : C} (h : Wf c) (q : Quiet c c') : Grow c c' :=
  ⟨q.1, h.quiet q, q.2.2, fun id hu => by rw [isUsed_congr q.2.1]; exact hu⟩

theorem acquire_grow {c : C} (h : Wf c) : Grow c (acquire c).2 := by
  refine ⟨rfl, ?_, rfl, ?_⟩
  · cases ha : (Alloc.allocate c.s.pidMan).1 with
    | none => 
      have := (h.2.w.alloc_none ha).1
      exact h.congr rfl (by simp [acquire, this])
    | some v => exact ⟨h.1, (h.2.w.alloc_some ha).2.2.2.1⟩
  · intro id hu
    cases ha : (Alloc.allocate c.s.pidMan).1 with
    | none =>
      have := (h.2.w.alloc_none ha).1
      simp only [acquire, isUsed, this]; exact hu
    | some v => exact ((h.2.w.alloc_some ha).2.2.2.2 id).2 (Or.inl hu)

theorem register_grow {c : C} (h : Wf c) (id : Nat) : Grow c (register c id).2 := by
  obtain ⟨_, w, u⟩ := h.2.w.use id
  exact ⟨rfl, ⟨h.1, w⟩, rfl, fun x hx => (u x).2 (Or.inl hx)⟩

theorem restoreOne_grow {c : C} (h : Wf c) (p : Pkt) : Grow c (restoreOne c p) := by
  unfold restoreOne
  split
  · exact Grow.refl h
  · simp only []
    have g := register_grow h (p.pid.getD 0)
    split
    · refine g.trans (Grow.of_quiet g.wf ?_)
      quiet_tac
    · exact g

theorem restorePackets_grow (ps : List Pkt) : ∀ c, Wf c → Grow c (restorePackets c ps) := by
  induction ps with
  | nil => intro c h; exact Grow.refl h
  | cons p rest ih =>
    intro c h
    rw [restorePackets]
    exact (restoreOne_grow h p).trans (ih _ (restoreOne_grow h p).wf)

/-! ## the step level -/

/-- the call runs `clearStoreRelated` (`Alloc.clear`): a new session starts.  Exactly:
    * `send` of a CONNECT with clean start that is accepted (version and role match, v5: size
      within the limit, status `disconnected`);
    * `send` of a CONNACK with reason code 0 and session present = false that is accepted
      (version and role match, v5: size within the limit, status `connecting`) — the new session
      started by the CONNACK we sent (fix 10ee029);
    * `recv` of a frame that is complete, not over the receive maximum packet size, of a
      receivable type, and is
      - a CONNECT (status `disconnected`) parsed successfully with clean start, or
      - a CONNACK (status not `connected`) parsed successfully with reason code 0 and
        session present = false, or (v5.0) carrying Session Expiry Interval = 0. -/
def startsNewSession (cfg : Cfg) (s : St) (op : Op) : Bool :=
  match op with
  | .send p => sendClears { cfg := cfg, s := s } p
  | .recv inp parse => recvClears { cfg := cfg, s := s } inp parse
  | _ => false

/-- the calls that take identifiers -/
def takesIds : Op → Bool
  | .acquire | .register _ | .restorePackets _ => true
  | _ => false

/-- `release_packet_id` (fix ba1a812): beyond `releaseIfUsed` only wait sets and the counter change -/
theorem releasePacketId_q (c : C) (id : Nat) : Quiet (releaseIfUsed c id) (releasePacketId c id) :=
  releasePacketId_ind (Q := fun c' => Quiet (releaseIfUsed c id) c') c id (Quiet.refl _)
    (fun _ => ⟨rfl, rfl, rfl⟩) (fun h => h.trans (decSendCount_q _))

theorem releasePacketId_eff {c : C} (h : Wf c) (id : Nat) : Eff false c (releasePacketId c id) :=
  (releaseIfUsed_eff h id).quiet_right (releasePacketId_q c id)

theorem step_eff {cfg : Cfg} {s : St} (h : Wf { cfg := cfg, s := s }) (op : Op) (hg : takesIds op = false) :
    Eff (startsNewSession cfg s op) { cfg := cfg, s := s } (step cfg s op) := by
  cases op with
  | send p => exact send_eff h p
  | recv inp parse => exact recv_eff h inp parse
  | timer k => exact Eff.of_quiet h (notifyTimerFired_q _ k)
  | closed => exact notifyClosed_eff h
  | setInterval d => exact Eff.of_quiet h (setPingreqSendInterval_q _ d)
  | setFlag f b => exact Eff.of_quiet h ⟨rfl, by cases f <;> rfl, rfl⟩
  | setRespTimeout ms => exact Eff.of_quiet h ⟨rfl, rfl, rfl⟩
  | acquire => simp [takesIds] at hg
  | register id => simp [takesIds] at hg
  | release id => exact releasePacketId_eff h id
  | erase id => exact eraseStoredPublish_eff h id
  | restoreHandled ids => exact Eff.of_quiet h ⟨rfl, rfl, rfl⟩
  | restorePackets ps => simp [takesIds] at hg

theorem step_grow {cfg : Cfg} {s : St} (h : Wf { cfg := cfg, s := s }) (op : Op) (hg : takesIds op = true) :
    Grow { cfg := cfg, s := s } (step cfg s op) := by
  cases op with
  | acquire => exact acquire_grow h
  | register id => exact register_grow h id
  | restorePackets ps => exact restorePackets_grow ps _ h
  | _ => simp [takesIds] at hg

theorem step_wf {cfg : Cfg} {s : St} (h : Wf { cfg := cfg, s := s }) (op : Op) : Wf (step cfg s op) := by
  cases hg : takesIds op with
  | false => exact (step_eff h op hg).wf
  | true => exact (step_grow h op hg).wf

theorem step_cfg {cfg : Cfg} {s : St} (h : Wf { cfg := cfg, s := s }) (op : Op) : (step cfg s op).cfg = cfg := by
  cases hg : takesIds op with
  | false => exact (step_eff h op hg).cfg
  | true => exact (step_grow h op hg).cfg

end MqttVerif.Conn
