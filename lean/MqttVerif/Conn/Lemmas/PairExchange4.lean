import MqttVerif.Props.C01L2b
import MqttVerif.Conn.Lemmas.PairExchange3
/-!
# Helpers for `Props/C01L2c.lean`: two-sided observations, the run evaluator

* `Obs2 tgt NS NC RC RS z`: `z` has the endpoint states and channels of `tgt`, no `.error` in either log,
  the server application was notified of the PUBLISH packets `NS`, the client application of `NC`,
  the client released the identifiers `RC`, the server `RS` (`Obs` of `PairExchange2.lean` is the
  one-directional special case: `obs_of_obs2`).
* `startBoth`: both applications publish (identifier 1 of their own allocator) before anything is delivered.
* `t5notes`, `t6notesS`, `t6notesC`: the notifications after one loss at point `k`, as tables.
* `run5`, `run4`: compute a run of the pair with the generic step lemmas of `PairExchange3.lean`.
-/
set_option linter.unusedSimpArgs false
set_option linter.unusedVariables false
namespace MqttVerif.Conn.Pair
open MqttVerif MqttVerif.Conn

structure Obs2 (tgt : Sys) (NS NC : List Pkt) (RC RS : List Nat) (z : Sys) : Prop where
  c : z.c = tgt.c
  s : z.s = tgt.s
  c2s : z.c2s = tgt.c2s
  s2c : z.s2c = tgt.s2c
  errC : errFree z.logC
  errS : errFree z.logS
  /-- the PUBLISH packets the server application was notified of, in order -/
  notesS : pubNotes z.logS = NS
  /-- ... the client application ... -/
  notesC : pubNotes z.logC = NC
  /-- the identifiers the client released (`NotifyPacketIdReleased`), in order -/
  relC : releasedIds z.logC = RC
  relS : releasedIds z.logS = RS

theorem obs_of_obs2 {d : Bool} {tgt : Sys} {N : List Pkt} {R : List Nat} {z : Sys}
    (h : Obs2 tgt (if d then N else []) (if d then [] else N) (if d then R else []) (if d then [] else R) z) :
    Obs d tgt N R z := by
  cases d
  · exact ⟨h.c, h.s, h.c2s, h.s2c, h.errC, h.errS, h.notesC, h.notesS, h.relS, h.relC⟩
  · exact ⟨h.c, h.s, h.c2s, h.s2c, h.errC, h.errS, h.notesS, h.notesC, h.relC, h.relS⟩

theorem Obs2.stable {t : Sys} {NS NC : List Pkt} {RC RS : List Nat} {y : Sys} {a : Nat}
    (h : Obs2 t NS NC RC RS (drain a y)) (h1 : t.c2s = []) (h2 : t.s2c = []) (n : Nat) (hn : a ≤ n) :
    drain n y = drain a y := by
  obtain ⟨m, rfl⟩ := Nat.exists_eq_add_of_le hn
  rw [drain_add, drain_empty _ _ (h.c2s.trans h1) (h.s2c.trans h2)]

/-- the client application publishes `P1`, the server application publishes `P2`, each with the
    identifier its own allocator handed out, before anything is delivered -/
def startBoth (v : Nat) (P1 P2 : Pkt) : Sys := startFromS (startFromC (established v) P1) P2

/-- the order of the two applications' calls is irrelevant -/
theorem startBoth_comm (v : Nat) (P1 P2 : Pkt) :
    startBoth v P1 P2 = startFromC (startFromS (established v) P2) P1 := by
  simp [startBoth, startFromC, startFromS, appC, appS]

/-- evaluate a run: unfold the pair operations, rewrite every call by its step lemma, evaluate the list functions -/
syntax "rsimp" "[" Lean.Parser.Tactic.simpLemma,* "]" : tactic
macro_rules
  | `(tactic| rsimp [$ts,*]) => `(tactic|
      simp [startBoth, startTwo, start, startFrom, startFromC, startFromS, appC, appS, deliverS, deliverC, deliver1, drain,
        cfgC, cfgS, sends, lose, resume, handshake, step_acquire2, step_closed,
        ins, del, storeErase, lookup, erase, respOf, storeHas,
        l2c_ok_2_1, l2c_ok_3_1, l2c_ok_3_2, l2c_ok_13_2, l2c_ok_2_1.1, l2c_ok_3_1.1, l2c_ok_3_2.1, l2c_ok_13_2.1,
        l2c_free_2_1, l2c_free_3_1, l2c_free_3_2, l2c_free_13_2, l2c_fits_nil, l2c_fits_cons, l2c_sz_ackN, $ts,*])

/-- read the observations off the computed system (`Obs` and `Obs2`: states and channels by `rfl`, the six log clauses by `simp`) -/
syntax "osimp" "[" Lean.Parser.Tactic.simpLemma,* "]" : tactic
macro_rules
  | `(tactic| osimp [$ts,*]) => `(tactic|
      (refine ⟨rfl, rfl, rfl, rfl, ?_, ?_, ?_, ?_, ?_, ?_⟩ <;>
         simp [pubNotes, releasedIds, errFree, isErr, connectPkt_kind, connackPkt_kind, $ts,*]))

/-- a run of two same-direction exchanges: `hA : IsPub v q1 P1`, `hB : IsPubN v q2 2 P2` -/
syntax "run5" ident ident ident ident ident "[" Lean.Parser.Tactic.simpLemma,* "]" : tactic
macro_rules
  | `(tactic| run5 $hv $h1 $hA $h2 $hB [$ts,*]) => `(tactic|
      (rsimp [established_eq _ $hv, step_acquire _ _ $hv, l2c_send_pub _ _ $hv $h1 $hA, l2c_send2 _ _ _ _ $hv $h2 $hB,
        l2c_recv_pub _ _ _ _ _ _ _ _ _ $hv $h1 (IsPub.toN $hA) (by decide),
        l2c_recv_pub _ _ _ _ _ _ _ _ _ $hv $h1 (IsPub.toN (IsPub.asDup $hA)) (by decide),
        l2c_recv_pub _ _ _ _ _ _ _ _ _ $hv $h2 $hB (by decide),
        l2c_recv_pub _ _ _ _ _ _ _ _ _ $hv $h2 (IsPubN.asDup $hB) (by decide),
        l2c_recv_puback _ _ _ _ _ _ _ _ _ $hv, l2c_recv_pubrec _ _ _ _ _ _ _ _ _ $hv,
        l2c_recv_pubrel _ _ _ _ _ _ _ _ _ $hv, l2c_recv_pubcomp _ _ _ _ _ _ _ _ _ $hv, l2c_recv_pubcompRc,
        step_send_connect _ _ _ _ _ _ _ $hv, step_recv_connect _ _ _ _ _ _ _ $hv,
        l2c_send_connack _ _ _ _ _ _ _ $hv, l2c_recv_connack _ _ _ _ _ _ _ $hv,
        IsPub.kind $hA, IsPub.qos $hA, IsPub.ver $hA, IsPubN.kind $hB, IsPubN.qos $hB, IsPubN.ver $hB,
        IsPub.fits (IsPub.asDup $hA), IsPubN.fits (IsPubN.asDup $hB), $ts,*]
       osimp [IsPub.kind $hA, IsPubN.kind $hB, $ts,*]))

/-- a run of two opposite exchanges: `hA : IsPub v q1 P1` (client), `hB : IsPub v q2 P2` (server) -/
syntax "run4" ident ident ident ident ident "[" Lean.Parser.Tactic.simpLemma,* "]" : tactic
macro_rules
  | `(tactic| run4 $hv $h1 $hA $h2 $hB [$ts,*]) => `(tactic|
      (rsimp [established_eq _ $hv, step_acquire _ _ $hv, l2c_send_pub _ _ $hv $h1 $hA, l2c_send_pub _ _ $hv $h2 $hB,
        l2c_recv_pub _ _ _ _ _ _ _ _ _ $hv $h1 (IsPub.toN $hA) (by decide),
        l2c_recv_pub _ _ _ _ _ _ _ _ _ $hv $h1 (IsPub.toN (IsPub.asDup $hA)) (by decide),
        l2c_recv_pub _ _ _ _ _ _ _ _ _ $hv $h2 (IsPub.toN $hB) (by decide),
        l2c_recv_pub _ _ _ _ _ _ _ _ _ $hv $h2 (IsPub.toN (IsPub.asDup $hB)) (by decide),
        l2c_recv_puback _ _ _ _ _ _ _ _ _ $hv, l2c_recv_pubrec _ _ _ _ _ _ _ _ _ $hv,
        l2c_recv_pubrel _ _ _ _ _ _ _ _ _ $hv, l2c_recv_pubcomp _ _ _ _ _ _ _ _ _ $hv, l2c_recv_pubcompRc,
        step_send_connect _ _ _ _ _ _ _ $hv, step_recv_connect _ _ _ _ _ _ _ $hv,
        l2c_send_connack _ _ _ _ _ _ _ $hv, l2c_recv_connack _ _ _ _ _ _ _ $hv,
        IsPub.kind $hA, IsPub.qos $hA, IsPub.ver $hA, IsPub.kind $hB, IsPub.qos $hB, IsPub.ver $hB,
        IsPub.fits (IsPub.asDup $hA), IsPub.fits (IsPub.asDup $hB), $ts,*]
       osimp [IsPub.kind $hA, IsPub.kind $hB, $ts,*]))

/-! ## the notifications after one loss, as tables -/

/-- T5 (`P1`, `P2` in flight in the same direction, loss after `k` deliveries of the loss-free
    schedule `drain`, resumption, everything delivered): the receiving application's notifications.
    The table depends on the direction because `drain` serves the client→server channel first:
    with the client as publisher (`d = true`) both PUBLISH packets are delivered before any
    acknowledgement, with the server as publisher each acknowledgement is delivered at once. -/
def t5notes (d : Bool) (q1 q2 k : Nat) (P1 P2 : Pkt) : List Pkt :=
  if k = 0 then [P1.asDup, P2.asDup]
  else if d then
    if q1 = 1 then
      if q2 = 1 then
        (if k = 1 then [P1, P1.asDup, P2.asDup] else if k = 2 then [P1, P2, P1.asDup, P2.asDup]
         else if k = 3 then [P1, P2, P2.asDup] else [P1, P2])
      else (if k = 1 then [P1, P1.asDup, P2.asDup] else if k = 2 then [P1, P2, P1.asDup] else [P1, P2])
    else
      if q2 = 1 then (if k = 1 then [P1, P2.asDup] else if k ≤ 4 then [P1, P2, P2.asDup] else [P1, P2])
      else (if k = 1 then [P1, P2.asDup] else [P1, P2])
  else
    if q1 = 1 then
      (if k = 1 then [P1, P1.asDup, P2.asDup] else if k = 2 then [P1, P2.asDup]
       else if q2 = 1 ∧ k = 3 then [P1, P2, P2.asDup] else [P1, P2])
    else
      (if k ≤ 2 then [P1, P2.asDup] else if q2 = 1 ∧ k = 3 then [P1, P2, P2.asDup] else [P1, P2])

/-- the order in which the publisher's two identifiers are released -/
def t5rel (q1 q2 : Nat) : List Nat := if q1 = 2 ∧ q2 = 1 then [2, 1] else [1, 2]

/-- T6 (`P1` client→server, `P2` server→client, loss after `k` deliveries): the server
    application's notifications -/
def t6notesS (q1 k : Nat) (P1 : Pkt) : List Pkt :=
  if k = 0 then [P1.asDup] else if q1 = 1 ∧ k ≤ 3 then [P1, P1.asDup] else [P1]

/-- ... the client application's -/
def t6notesC (q2 k : Nat) (P2 : Pkt) : List Pkt :=
  if k ≤ 1 then [P2.asDup] else if q2 = 1 ∧ k = 2 then [P2, P2.asDup] else [P2]

end MqttVerif.Conn.Pair
