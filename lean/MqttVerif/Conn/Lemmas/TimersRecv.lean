import MqttVerif.Conn.Lemmas.Timers
/-!
# Helper lemmas for C15, part 2: `process_recv_*`, the remaining public calls, `step`
-/
set_option linter.unusedSimpArgs false
set_option linter.unusedVariables false
namespace MqttVerif.Conn
open MqttVerif Mon

@[simp] theorem anyReset_cancel1 (k : Timer) : anyReset [.timerCancel k] = false := rfl
@[simp] theorem anyReset_reset1 (k : Timer) (ms : Nat) : anyReset [.timerReset k ms] = true := rfl

theorem prV3Connect_inv {a P c} (h : Inv0 a P c) (pp : Except Nat Pkt) : Inv a P (prV3Connect c pp) := by
  unfold prV3Connect
  split
  · exact (handleV3Error_inv0 h _).inv
  simp only []
  split
  · rename_i p
    by_cases hk : p.keepAlive > 0 <;> simp only [hk, if_true, if_false] <;> split <;>
      exact (refresh_inv (by frame_inv h.inv)).push _ rfl
  · exact (psV3Connack_inv (by frame_inv h) _).err _

theorem prV5Connect_inv {a P c} (h : Inv0 a P c) (pp : Except Nat Pkt) : Inv a P (prV5Connect c pp) := by
  unfold prV5Connect
  split
  · exact (handleV5Error_inv0 h _).inv
  simp only []
  split
  · rename_i p
    by_cases hk : p.keepAlive > 0 <;> simp only [hk, if_true, if_false] <;> split <;>
      exact (refresh_inv (by frame_inv h.inv)).push _ rfl
  · exact (psV5Connack_inv (by frame_inv h) _).err _

theorem prV3Connack_inv {a P c} (h : Inv0 a P c) (pp : Except Nat Pkt) : Inv a P (prV3Connack c pp) := by
  unfold prV3Connack
  split
  · exact (handleV3Error_inv0 h _).inv
  split
  · (repeat' split) <;>
      first
      | exact Inv.push (by frame_inv h.inv) _ rfl
      | exact Inv.push (resendStored_inv (by frame_inv h.inv) (by simp)) _ rfl
  · exact (handleV3Error_inv0 h _).inv

@[simp] theorem connackRecvProp_tv (c : C) (id v : Nat) :
    (connackRecvProp c id v).cfg = c.cfg ∧
    (connackRecvProp c id v).s.status = c.s.status ∧ (connackRecvProp c id v).s.isClient = c.s.isClient ∧
    (connackRecvProp c id v).s.userInterval = c.s.userInterval := by
  unfold connackRecvProp; (repeat' (first | split | simp only [])) <;> simp

theorem connackRecvProp_inv {a P c} (h : Inv a P c) (hs : c.s.status ≠ .disconnected) (id v : Nat) :
    Inv a P (connackRecvProp c id v) := by
  unfold connackRecvProp; (repeat' (first | split | simp only []))
  all_goals first
    | frame_inv h
    | (rename_i hr
       constructor
       · simp [timersStep_append, h.g, timersStep, flagsOf, Armed.set, Armed.get, hr]
       · intro _ q; exact absurd q hs
       · intro _ q; exact absurd q hs)
    | (constructor
       · simp [timersStep_append, h.g, timersStep, flagsOf, Armed.set]
       · intro _ q; exact absurd q hs
       · intro _ q; exact absurd q hs)

theorem propsFold_connackRecvProp_inv {a P c} (h : Inv a P c) (hs : c.s.status ≠ .disconnected)
    (l : List (Nat × Nat)) :
    Inv a P (propsFold connackRecvProp c l) ∧ (propsFold connackRecvProp c l).s.status = c.s.status ∧
    (propsFold connackRecvProp c l).cfg = c.cfg := by
  induction l generalizing c with
  | nil => exact ⟨h, rfl, rfl⟩
  | cons x l ih =>
    obtain ⟨id, v⟩ := x
    simp only [propsFold]
    have := ih (connackRecvProp_inv h hs id v) (by simpa using hs)
    simpa using this

theorem prV5Connack_inv {a P c} (h : Inv0 a P c) (pp : Except Nat Pkt) : Inv a P (prV5Connack c pp) := by
  unfold prV5Connack
  split
  · exact (handleV5Error_inv0 h _).inv
  split
  · rename_i p
    by_cases hr : p.rc = some 0
    · simp only [hr, if_true]
      obtain ⟨h1, h2, h3⟩ := propsFold_connackRecvProp_inv (a := a) (P := P)
        (c := { c with s := { c.s with status := .connected } }) (by frame_inv h.inv) (by simp) p.props
      split
      · exact Inv.push (resendStored_inv h1 (by rw [h2]; simp)) _ rfl
      · exact Inv.push (by frame_inv h1) _ rfl
    · simp only [hr, if_false]; exact h.inv.push _ rfl
  · exact (h.err _).inv

/-- automatic responses: `psV3Simple` etc. wrapped in the model's `if … then (panic?) |> send else c` -/
theorem prV3Publish_inv {a P c} (h : Inv0 a P c) (pp : Except Nat Pkt) : Inv a P (prV3Publish c pp) := by
  unfold prV3Publish
  (repeat' (first | split | simp only []))
  all_goals first
    | exact (handleV3Error_inv0 h _).inv
    | frame_inv h.inv
    | exact (refresh_inv (by frame_inv h.inv)).push _ rfl
    | exact (refresh_inv (psV3Simple_inv (by frame_inv h.inv) _)).push _ rfl
    | exact (refresh_inv (by frame_inv h.inv))
    | exact (refresh_inv (psV3Simple_inv (by frame_inv h.inv) _))

theorem prV5PublishAlias_inv0 {a P c} (h : Inv0 a P c) (p : Pkt) : Inv0 a P (prV5PublishAlias c p).1 := by
  unfold prV5PublishAlias
  (repeat' (first | split | simp only []))
  all_goals first
    | exact handleV5Error_inv0 h _
    | frame_inv h

theorem prV5Publish_inv {a P c} (h : Inv0 a P c) (pp : Except Nat Pkt) : Inv a P (prV5Publish c pp) := by
  unfold prV5Publish
  split
  · split
    · exact (handleV5Error_inv0 h _).inv
    · exact (h.err _).inv
  rename_i p
  extract_lets r c1 rmx id already src1 c2 src2 c3 pubackSend pubrecSend c4 c5 c6
  have h1 : Inv0 a P c1 := prV5PublishAlias_inv0 h p
  split
  · exact h1.inv
  have i2 : Inv a P c2 := by
    simp only [c2, src1]; split
    · frame_inv h1.inv
    · exact h1.inv
  have i3 : Inv a P c3 := by
    simp only [c3, src2]; split
    · frame_inv i2
    · exact i2
  have i4 : Inv a P c4 := by
    simp only [c4]; split
    · split
      · exact psV5Puback_inv (by frame_inv i3) _
      · exact psV5Puback_inv i3 _
    · exact i3
  have i5 : Inv a P c5 := by
    simp only [c5]; split
    · split
      · exact psV5Pubrec_inv (by frame_inv i4) _
      · exact psV5Pubrec_inv i4 _
    · exact i4
  have i6 : Inv a P c6 := refresh_inv i5
  split
  · frame_inv h1.inv
  split
  · exact (handleV5Error_inv0 h1 _).inv
  split
  · exact i6.push _ rfl
  · exact i6

theorem prPuback_inv {a P c} (h : Inv0 a P c) (pp : Except Nat Pkt) : Inv a P (prPuback c pp) := by
  unfold prPuback
  (repeat' (first | split | simp only []))
  all_goals first
    | exact (vErr_inv0 h _).inv
    | exact (refresh_inv (by frame_inv h.inv)).push _ rfl

theorem prPubcomp_inv {a P c} (h : Inv0 a P c) (pp : Except Nat Pkt) : Inv a P (prPubcomp c pp) := by
  unfold prPubcomp
  (repeat' (first | split | simp only []))
  all_goals first
    | exact (vErr_inv0 h _).inv
    | exact (refresh_inv (by frame_inv h.inv)).push _ rfl

theorem prPlain_inv {a P c} (h : Inv0 a P c) (pp : Except Nat Pkt) : Inv a P (prPlain c pp) := by
  unfold prPlain
  (repeat' (first | split | simp only []))
  all_goals first
    | exact (vErr_inv0 h _).inv
    | exact (refresh_inv (by frame_inv h.inv)).push _ rfl

theorem prSubUnsuback_inv {a P c} (h : Inv0 a P c) (b : Bool) (pp : Except Nat Pkt) :
    Inv a P (prSubUnsuback c b pp) := by
  unfold prSubUnsuback
  (repeat' (first | split | simp only []))
  all_goals first
    | exact (vErr_inv0 h _).inv
    | exact (refresh_inv (by frame_inv h.inv)).push _ rfl

theorem prPubrec_inv {a P c} (h : Inv0 a P c) (pp : Except Nat Pkt) : Inv a P (prPubrec c pp) := by
  unfold prPubrec
  (repeat' (first | split | simp only []))
  all_goals first
    | exact (vErr_inv0 h _).inv
    | exact (refresh_inv (by frame_inv h.inv)).push _ rfl
    | exact (refresh_inv (psPubrel_inv (by frame_inv h.inv) _)).push _ rfl

theorem prPubrel_inv {a P c} (h : Inv0 a P c) (pp : Except Nat Pkt) : Inv a P (prPubrel c pp) := by
  unfold prPubrel
  (repeat' (first | split | simp only []))
  all_goals first
    | exact (vErr_inv0 h _).inv
    | exact (refresh_inv (by frame_inv h.inv)).push _ rfl
    | exact (refresh_inv (psV3Simple_inv (by frame_inv h.inv) _)).push _ rfl
    | exact (refresh_inv (psV5Pubcomp_inv (by frame_inv h.inv) _)).push _ rfl

theorem prPingreq_inv {a P c} (h : Inv0 a P c) (pp : Except Nat Pkt) : Inv a P (prPingreq c pp) := by
  unfold prPingreq
  (repeat' (first | split | simp only []))
  all_goals first
    | exact (vErr_inv0 h _).inv
    | exact (refresh_inv (by frame_inv h.inv)).push _ rfl
    | exact (refresh_inv (psV3Simple_inv h.inv _)).push _ rfl
    | exact (refresh_inv (psV5Simple_inv h.inv _)).push _ rfl

theorem prPingresp_inv {a P c} (h : Inv0 a P c) (pp : Except Nat Pkt) : Inv a P (prPingresp c pp) := by
  unfold prPingresp
  split
  · exact (vErr_inv0 h _).inv
  simp only []
  split
  · rename_i hr
    refine Inv.push ?_ _ rfl
    refine ⟨?_, ?_, ?_⟩
    · simp [timersStep_append, h.g, timersStep, flagsOf, Armed.set, Armed.get, hr]
    · intro hp q
      have := h.d hp (by simpa using q)
      simp_all [flagsOf, unarmed]
    · simp [h.n0]
  · exact h.inv.push _ rfl

theorem prDisconnect_inv {a P c} (h : Inv0 a P c) (pp : Except Nat Pkt) : Inv a P (prDisconnect c pp) := by
  unfold prDisconnect
  split
  · exact (vErr_inv0 h _).inv
  · exact ((cancelTimers_inv0 h.g h.n0).push _ rfl).inv

theorem dispatchRecv_inv {a P c} (h : Inv0 a P c) (t : Nat) (pp : Except Nat Pkt) :
    Inv a P (dispatchRecv c t pp) := by
  unfold dispatchRecv
  (repeat' split)
  all_goals first
    | exact prV3Connect_inv h _
    | exact prV5Connect_inv h _
    | exact prV3Connack_inv h _
    | exact prV5Connack_inv h _
    | exact prV3Publish_inv h _
    | exact prV5Publish_inv h _
    | exact prPuback_inv h _
    | exact prPubrec_inv h _
    | exact prPubrel_inv h _
    | exact prPubcomp_inv h _
    | exact prPlain_inv h _
    | exact prSubUnsuback_inv h _ _
    | exact prPingreq_inv h _
    | exact prPingresp_inv h _
    | exact prDisconnect_inv h _
    | exact (h.err _).inv

theorem processRecvPacket_inv {a P c} (h : Inv0 a P c) (fh : Nat) (data : List Nat)
    (parse : Nat → Except Nat Pkt) : Inv a P (processRecvPacket c fh data parse) := by
  unfold processRecvPacket
  (repeat' (first | split | simp only []))
  all_goals first
    | exact ((v5DisconnectOrClose_inv0 h _).err _).inv
    | exact (h.err _).inv
    | exact prV3Connect_inv (by frame_inv h) _
    | exact prV5Connect_inv (by frame_inv h) _
    | exact dispatchRecv_inv h _ _

theorem recv_inv {a P c} (h : Inv0 a P c) (inp : List Nat)
    (parse : Nat → Nat → List Nat → Except Nat Pkt) : Inv a P (recv c inp parse).1 := by
  unfold recv
  (repeat' (first | split | simp only []))
  · frame_inv h.inv
  · exact processRecvPacket_inv (by frame_inv h) _ _ _
  · exact (((cancelTimers_inv0 (by simpa [flagsOf] using h.g) (by simpa using h.n0)).push _ rfl).err _).inv

/-! ## the remaining public calls -/

/-- what `notify_timer_fired k` does first: the flag of the fired timer is cleared -/
def clearFlag (c : C) : Timer → C
  | .pingreqSend => { c with s := { c.s with sendSet := false } }
  | .pingreqRecv => { c with s := { c.s with recvSet := false } }
  | .pingrespRecv => { c with s := { c.s with respSet := false } }

theorem notifyTimerFired_inv {a P c} (k : Timer) (h : Inv0 a P (clearFlag c k)) :
    Inv a P (notifyTimerFired c k) := by
  cases k
  · simp only [clearFlag] at h
    simp only [notifyTimerFired]
    (repeat' (first | split | simp only []))
    · exact psPingreq_inv h.inv _
    · exact psPingreq_inv h.inv _
    · frame_inv h.inv
    · exact h.inv
  · simp only [clearFlag] at h
    simp only [notifyTimerFired, if_true]
    (repeat' (first | split | simp only []))
    · exact (h.push _ rfl).inv
    · exact (v5DisconnectOrClose_inv0 h _).inv
    · exact h.inv
    · frame_inv h.inv
  · simp only [clearFlag] at h
    simp only [notifyTimerFired, reduceCtorEq, if_false]
    (repeat' (first | split | simp only []))
    · exact (h.push _ rfl).inv
    · exact (v5DisconnectOrClose_inv0 h _).inv
    · exact h.inv
    · frame_inv h.inv

/-- `notify_closed` up to (not including) the final `cancel_timers` -/
def closedPre (c : C) : C :=
  let c := { c with s := { c.s with mpsSend := noLimit, mpsRecv := noLimit, status := .disconnected,
                                      tas := none, tar := none } }
  let sub := c.s.suback
  let c := releaseAll { c with s := { c.s with suback := [] } } sub
  let unsub := c.s.unsuback
  let c := releaseAll { c with s := { c.s with unsuback := [] } } unsub
  let c := if !c.s.needStore then
      let c := { c with s := { c.s with handled := [] } }
      let a := c.s.puback
      let c := releaseAll { c with s := { c.s with puback := [] } } a
      let b := c.s.pubrec
      let c := releaseAll { c with s := { c.s with pubrec := [] } } b
      let d := c.s.pubcomp
      let c := releaseAll { c with s := { c.s with pubcomp := [] } } d
      { c with s := { c.s with store := [] } }
    else c
  { c with s := { c.s with pb := Framing.PB.reset } }

theorem notifyClosed_eq (c : C) : notifyClosed c = cancelTimers (closedPre c) := rfl

@[simp] theorem closedPre_tv (c : C) :
    (closedPre c).cfg = c.cfg ∧ tev (closedPre c).ev = tev c.ev ∧ (closedPre c).s.sendSet = c.s.sendSet ∧
    (closedPre c).s.recvSet = c.s.recvSet ∧ (closedPre c).s.respSet = c.s.respSet ∧
    (closedPre c).s.status = .disconnected ∧ (closedPre c).s.isClient = c.s.isClient ∧
    (closedPre c).s.userInterval = c.s.userInterval ∧ (closedPre c).s.keepAliveMs = c.s.keepAliveMs ∧
    (closedPre c).s.serverKeepAliveMs = c.s.serverKeepAliveMs ∧
    (closedPre c).s.recvTimeoutMs = c.s.recvTimeoutMs ∧ (closedPre c).s.respTimeoutMs = c.s.respTimeoutMs ∧
    (closedPre c).s.ver = c.s.ver := by
  simp only [closedPre]
  split <;> simp

theorem notifyClosed_inv0 {a P c} (h : Inv0 a P c) : Inv0 a P (notifyClosed c) := by
  rw [notifyClosed_eq]
  exact cancelTimers_inv0 (by simpa [flagsOf] using h.g) (by simpa using h.n0)

theorem setPingreqSendInterval_inv {a P c} (h : Inv0 a P c) (d : Option Nat) :
    Inv a P (setPingreqSendInterval c d) := by
  unfold setPingreqSendInterval
  (repeat' (first | split | simp only []))
  · frame_inv h.inv
  · rename_i hr
    refine ⟨?_, ?_, ?_⟩
    · simp [timersStep_append, h.g, timersStep, flagsOf, Armed.set, Armed.get, hr]
    · intro hp q
      have := h.d hp (by simpa using q)
      simp_all [flagsOf, unarmed]
    · simp [h.n0]
  · frame_inv h.inv
  · rename_i hs
    refine ⟨?_, ?_, ?_⟩
    · simp [timersStep_append, h.g, timersStep, flagsOf, Armed.set]
    · intro _ q; simp [hs] at q
    · intro _ q; simp [hs] at q
  · frame_inv h.inv

/-! ## `step` -/

/-- "disconnected means unarmed" -/
def DU (s : St) : Prop := s.status = .disconnected → flagsOf s = unarmed

instance (s : St) : Decidable (DU s) := by unfold DU; infer_instance

/-- the ghost flags an observer holds when the call starts: a fired timer is no longer armed -/
def startArmed (s : St) : Op → Armed
  | .timer k => (flagsOf s).set k false
  | _ => flagsOf s

theorem inv0_start (cfg : Cfg) (s : St) : Inv0 (flagsOf s) (DU s) { cfg := cfg, s := s } :=
  ⟨rfl, fun h => h, rfl⟩

@[simp] theorem setFlag_tv (s : St) (f : Flag) (b : Bool) :
    (setFlag s f b).sendSet = s.sendSet ∧ (setFlag s f b).recvSet = s.recvSet ∧
    (setFlag s f b).respSet = s.respSet ∧ (setFlag s f b).status = s.status := by
  cases f <;> simp [setFlag]

theorem step_inv (cfg : Cfg) (s : St) (op : Op) : Inv (startArmed s op) (DU s) (step cfg s op) := by
  have h0 := inv0_start cfg s
  cases op with
  | send p => exact send_inv h0 p
  | recv inp parse => exact recv_inv h0 inp parse
  | timer k =>
    apply notifyTimerFired_inv
    cases k <;> exact ⟨rfl, fun hp q => by have := hp q; simp_all [clearFlag, flagsOf, unarmed], rfl⟩
  | closed => exact (notifyClosed_inv0 h0).inv
  | setInterval d => exact setPingreqSendInterval_inv h0 d
  | setFlag f b => simp only [step, startArmed]; frame_inv h0.inv
  | setRespTimeout ms => simp only [step, startArmed]; frame_inv h0.inv
  | acquire => simp only [step, startArmed]; frame_inv h0.inv
  | register id => simp only [step, startArmed]; frame_inv h0.inv
  | release id => simp only [step, startArmed]; frame_inv h0.inv
  | erase id => simp only [step, startArmed]; frame_inv h0.inv
  | restoreHandled ids => simp only [step, startArmed]; frame_inv h0.inv
  | restorePackets ps => simp only [step, startArmed]; frame_inv h0.inv

end MqttVerif.Conn
