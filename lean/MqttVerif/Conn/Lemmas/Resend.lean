import MqttVerif.Conn.Step
/-!
# `resendStored` (fix 999e935) = `sendStored`, possibly followed by `sendPostProcess`

Shared by every lemma chain: a property that `sendStored` and `sendPostProcess` both preserve is
preserved by `resendStored`.  `sendPostProcess` only touches `sendSet` and pushes at most one
`.timerReset .pingreqSend`.
-/
namespace MqttVerif.Conn
open MqttVerif

theorem resendStored_eq (c : C) :
    resendStored c = sendStored c ∨ resendStored c = sendPostProcess (sendStored c) := by
  unfold resendStored
  simp only []
  split
  · exact .inr rfl
  · exact .inl rfl

/-- which of the two it is -/
theorem resendStored_eq_cond (c : C) :
    ((((sendStored c).ev.drop c.ev.length).any isSendEv = true ∧
        resendStored c = sendPostProcess (sendStored c)) ∨
      (((sendStored c).ev.drop c.ev.length).any isSendEv = false ∧ resendStored c = sendStored c)) := by
  unfold resendStored
  simp only []
  split
  · rename_i h; exact .inl ⟨h, rfl⟩
  · rename_i h; exact .inr ⟨by simpa using h, rfl⟩

/-- transfer principle -/
theorem resendStored_ind {Q : C → Prop} (c : C) (h1 : Q (sendStored c))
    (h2 : Q (sendStored c) → Q (sendPostProcess (sendStored c))) : Q (resendStored c) := by
  rcases resendStored_eq c with h | h <;> rw [h]
  · exact h1
  · exact h2 h1

/-- `sendPostProcess` changes no field but `sendSet` -/
theorem sendPostProcess_s_cases (c : C) :
    (sendPostProcess c).s = c.s ∨ (sendPostProcess c).s = { c.s with sendSet := true } := by
  unfold sendPostProcess
  split
  · extract_lets ms
    split
    · exact .inr rfl
    · exact .inl rfl
  · exact .inl rfl

theorem sendPostProcess_ev_cases (c : C) :
    (sendPostProcess c).ev = c.ev ∨ ∃ ms, (sendPostProcess c).ev = c.ev ++ [.timerReset .pingreqSend ms] := by
  unfold sendPostProcess
  split
  · extract_lets ms
    split
    · exact .inr ⟨_, rfl⟩
    · exact .inl rfl
  · exact .inl rfl

theorem sendPostProcess_cfg' (c : C) : (sendPostProcess c).cfg = c.cfg := by
  unfold sendPostProcess
  split
  · extract_lets ms
    split <;> rfl
  · rfl

/-- `resendStored` agrees with `sendStored` on every field except `sendSet` … -/
theorem resendStored_s_cases (c : C) :
    (resendStored c).s = (sendStored c).s ∨
      (resendStored c).s = { (sendStored c).s with sendSet := true } := by
  rcases resendStored_eq c with h | h <;> rw [h]
  · exact .inl rfl
  · exact sendPostProcess_s_cases _

/-- … and its events are those of `sendStored` followed by at most one re-arm request -/
theorem resendStored_ev_cases (c : C) :
    (resendStored c).ev = (sendStored c).ev ∨
      ∃ ms, (resendStored c).ev = (sendStored c).ev ++ [.timerReset .pingreqSend ms] := by
  rcases resendStored_eq c with h | h <;> rw [h]
  · exact .inl rfl
  · exact sendPostProcess_ev_cases _

theorem resendStored_cfg' (c : C) : (resendStored c).cfg = (sendStored c).cfg := by
  rcases resendStored_eq c with h | h <;> rw [h]
  exact sendPostProcess_cfg' _


/-! ## `releasePacketId` (fix ba1a812) = `releaseIfUsed`, then (if the id was in use) the id leaves
the four wait sets, then (if a PUBACK/PUBREC was awaited for it) `decSendCount` -/

/-- the identifier leaves `suback`, `unsuback`, `puback`, `pubrec` -/
def dropWaits (c : C) (id : Nat) : C :=
  { c with s := { c.s with suback := del id c.s.suback, unsuback := del id c.s.unsuback, puback := del id c.s.puback, pubrec := del id c.s.pubrec } }

theorem releasePacketId_def (c : C) (id : Nat) :
    releasePacketId c id =
      if isUsed c.s id then
        (if id ∈ (releaseIfUsed c id).s.puback ∨ id ∈ (releaseIfUsed c id).s.pubrec then
          decSendCount (dropWaits (releaseIfUsed c id) id)
        else dropWaits (releaseIfUsed c id) id)
      else c := by
  unfold releasePacketId releaseIfUsed dropWaits
  split
  · rfl
  · rfl

theorem releaseIfUsed_unused' {c : C} {id : Nat} (h : isUsed c.s id = false) : releaseIfUsed c id = c := by
  unfold releaseIfUsed; rw [h]; rfl

theorem releasePacketId_eq (c : C) (id : Nat) :
    (isUsed c.s id = false ∧ releasePacketId c id = releaseIfUsed c id) ∨
    (isUsed c.s id = true ∧ ¬ (id ∈ (releaseIfUsed c id).s.puback ∨ id ∈ (releaseIfUsed c id).s.pubrec) ∧
      releasePacketId c id = dropWaits (releaseIfUsed c id) id) ∨
    (isUsed c.s id = true ∧ (id ∈ (releaseIfUsed c id).s.puback ∨ id ∈ (releaseIfUsed c id).s.pubrec) ∧
      releasePacketId c id = decSendCount (dropWaits (releaseIfUsed c id) id)) := by
  rw [releasePacketId_def]
  by_cases h : isUsed c.s id = true
  · rw [if_pos h]
    split
    · rename_i h2; exact .inr (.inr ⟨h, h2, rfl⟩)
    · rename_i h2; exact .inr (.inl ⟨h, h2, rfl⟩)
  · rw [if_neg h]
    have h' : isUsed c.s id = false := by simpa using h
    exact .inl ⟨h', (releaseIfUsed_unused' h').symm⟩

/-- transfer principle: what dropping wait-set entries and `decSendCount` preserve of
    `releaseIfUsed`, `releasePacketId` has -/
theorem releasePacketId_ind {Q : C → Prop} (c : C) (id : Nat)
    (h1 : Q (releaseIfUsed c id))
    (h2 : Q (releaseIfUsed c id) → Q (dropWaits (releaseIfUsed c id) id))
    (h3 : Q (dropWaits (releaseIfUsed c id) id) → Q (decSendCount (dropWaits (releaseIfUsed c id) id))) :
    Q (releasePacketId c id) := by
  rcases releasePacketId_eq c id with ⟨_, h⟩ | ⟨_, _, h⟩ | ⟨_, _, h⟩ <;> rw [h]
  · exact h1
  · exact h2 h1
  · exact h3 (h2 h1)

/-- `decSendCount` changes no field but `sendCount` -/
theorem decSendCount_s_cases (c : C) :
    (decSendCount c).s = c.s ∨ (decSendCount c).s = { c.s with sendCount := c.s.sendCount - 1 } := by
  unfold decSendCount
  split
  · exact .inr rfl
  · exact .inl rfl

theorem decSendCount_ev' (c : C) : (decSendCount c).ev = c.ev := by
  unfold decSendCount; split <;> rfl

theorem decSendCount_cfg' (c : C) : (decSendCount c).cfg = c.cfg := by
  unfold decSendCount; split <;> rfl

/-- the events and the configuration are those of `releaseIfUsed` -/
theorem releasePacketId_ev' (c : C) (id : Nat) : (releasePacketId c id).ev = (releaseIfUsed c id).ev := by
  rcases releasePacketId_eq c id with ⟨hu, h⟩ | ⟨_, _, h⟩ | ⟨_, _, h⟩ <;> rw [h]
  · rfl
  · rw [decSendCount_ev']; rfl

theorem releasePacketId_cfg' (c : C) (id : Nat) : (releasePacketId c id).cfg = (releaseIfUsed c id).cfg := by
  rcases releasePacketId_eq c id with ⟨hu, h⟩ | ⟨_, _, h⟩ | ⟨_, _, h⟩ <;> rw [h]
  · rfl
  · rw [decSendCount_cfg']; rfl

end MqttVerif.Conn
