import MqttVerif.Conn.Step
/-!
# `resendStored` (fix 999e935) = `sendStored`, possibly followed by `sendPostProcess`

Shared by every lemma chain: a property that `sendStored` and `sendPostProcess` both preserve is
preserved by `resendStored`.  `sendPostProcess` only touches `sendSet` and pushes at most one
`.timerReset .pingreqSend`.
-/
namespace MqttVerif.Conn
open MqttVerif

theorem resendStored_eq (c : C) :
    resendStored c = sendStored c ∨ resendStored c = sendPostProcess (sendStored c) := by
  unfold resendStored
  simp only []
  split
  · exact .inr rfl
  · exact .inl rfl

/-- which of the two it is -/
theorem resendStored_eq_cond (c : C) :
    ((((sendStored c).ev.drop c.ev.length).any isSendEv = true ∧
        resendStored c = sendPostProcess (sendStored c)) ∨
      (((sendStored c).ev.drop c.ev.length).any isSendEv = false ∧ resendStored c = sendStored c)) := by
  unfold resendStored
  simp only []
  split
  · rename_i h; exact .inl ⟨h, rfl⟩
  · rename_i h; exact .inr ⟨by simpa using h, rfl⟩

/-- transfer principle -/
theorem resendStored_ind {Q : C → Prop} (c : C) (h1 : Q (sendStored c))
    (h2 : Q (sendStored c) → Q (sendPostProcess (sendStored c))) : Q (resendStored c) := by
  rcases resendStored_eq c with h | h <;> rw [h]
  · exact h1
  · exact h2 h1

/-- `sendPostProcess` changes no field but `sendSet` -/
theorem sendPostProcess_s_cases (c : C) :
    (sendPostProcess c).s = c.s ∨ (sendPostProcess c).s = { c.s with sendSet := true } := by
  unfold sendPostProcess
  split
  · extract_lets ms
    split
    · exact .inr rfl
    · exact .inl rfl
  · exact .inl rfl

theorem sendPostProcess_ev_cases (c : C) :
    (sendPostProcess c).ev = c.ev ∨ ∃ ms, (sendPostProcess c).ev = c.ev ++ [.timerReset .pingreqSend ms] := by
  unfold sendPostProcess
  split
  · extract_lets ms
    split
    · exact .inr ⟨_, rfl⟩
    · exact .inl rfl
  · exact .inl rfl

theorem sendPostProcess_cfg' (c : C) : (sendPostProcess c).cfg = c.cfg := by
  unfold sendPostProcess
  split
  · extract_lets ms
    split <;> rfl
  · rfl

/-- `resendStored` agrees with `sendStored` on every field except `sendSet` … -/
theorem resendStored_s_cases (c : C) :
    (resendStored c).s = (sendStored c).s ∨
      (resendStored c).s = { (sendStored c).s with sendSet := true } := by
  rcases resendStored_eq c with h | h <;> rw [h]
  · exact .inl rfl
  · exact sendPostProcess_s_cases _

/-- … and its events are those of `sendStored` followed by at most one re-arm request -/
theorem resendStored_ev_cases (c : C) :
    (resendStored c).ev = (sendStored c).ev ∨
      ∃ ms, (resendStored c).ev = (sendStored c).ev ++ [.timerReset .pingreqSend ms] := by
  rcases resendStored_eq c with h | h <;> rw [h]
  · exact .inl rfl
  · exact sendPostProcess_ev_cases _

theorem resendStored_cfg' (c : C) : (resendStored c).cfg = (sendStored c).cfg := by
  rcases resendStored_eq c with h | h <;> rw [h]
  exact sendPostProcess_cfg' _

end MqttVerif.Conn
