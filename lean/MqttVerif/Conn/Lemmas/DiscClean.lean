import MqttVerif.Conn.Step
import MqttVerif.Monitors
import MqttVerif.Conn.Lemmas.Resend
/-!
# C05 helper — a disconnected connection carries no size limit of a dead connection …

… unless the call that disconnected it asked for the transport to be closed (`RequestClose`) and
`notify_closed` has not been called yet.  `Good c`: a close was requested in this call, or the
status is not `disconnected`, or both Maximum Packet Size fields are at "no limit".  Every model
function keeps `Good` (the property handlers change the limits only while the status is
`connecting` / `connected`; every site that sets `disconnected` requests a close, except
`notify_closed`, which resets both limits).
Own namespace: may be imported next to any other lemma chain.
-/
set_option linter.unusedSimpArgs false
set_option linter.unusedVariables false
namespace MqttVerif.Conn.DC
open MqttVerif MqttVerif.Conn

/-- what the invariant reads -/
def K (c : C) : Bool × Status × Nat × Nat := (Mon.hasClose c.ev, c.s.status, c.s.mpsSend, c.s.mpsRecv)

def GoodK (k : Bool × Status × Nat × Nat) : Prop :=
  k.1 = true ∨ k.2.1 ≠ .disconnected ∨ (k.2.2.1 = noLimit ∧ k.2.2.2 = noLimit)

def Good (c : C) : Prop := GoodK (K c)

@[simp] theorem Good_def (c : C) : Good c ↔ GoodK (K c) := Iff.rfl

theorem hasClose_append (l : List Ev) (e : Ev) :
    Mon.hasClose (l ++ [e]) = (Mon.hasClose l || decide (e = .close)) := by
  simp [Mon.hasClose, List.any_append]

@[simp] theorem K_push_send (c : C) (p : Pkt) (r : Option Nat) : K (c.push (.send p r)) = K c := by
  simp [K, C.push, hasClose_append]
@[simp] theorem K_push_recv (c : C) (p : Pkt) : K (c.push (.recv p)) = K c := by
  simp [K, C.push, hasClose_append]
@[simp] theorem K_push_released (c : C) (id : Nat) : K (c.push (.released id)) = K c := by
  simp [K, C.push, hasClose_append]
@[simp] theorem K_push_tr (c : C) (k : Timer) (ms : Nat) : K (c.push (.timerReset k ms)) = K c := by
  simp [K, C.push, hasClose_append]
@[simp] theorem K_push_tc (c : C) (k : Timer) : K (c.push (.timerCancel k)) = K c := by
  simp [K, C.push, hasClose_append]
@[simp] theorem K_push_error (c : C) (e : Nat) : K (c.push (.error e)) = K c := by
  simp [K, C.push, hasClose_append]
@[simp] theorem K_err (c : C) (e : Nat) : K (c.err e) = K c := K_push_error c e
@[simp] theorem K_setPanic (c : C) (x : String) : K (c.setPanic x) = K c := rfl
@[simp] theorem GoodK_push_close (c : C) : GoodK (K (c.push .close)) := by
  left; simp [K, C.push, hasClose_append]

theorem ite_K (p : Prop) {_ : Decidable p} (a b : C) : K (if p then a else b) = if p then K a else K b :=
  apply_ite K _ _ _

theorem status_of_K {c c' : C} (h : K c' = K c) : c'.s.status = c.s.status := congrArg (·.2.1) h
theorem good_of_status {c : C} (h : c.s.status ≠ .disconnected) : GoodK (K c) := .inr (.inl h)
theorem good_congr {c c' : C} (h : K c' = K c) (g : GoodK (K c)) : GoodK (K c') := by rw [h]; exact g

theorem K_mk (cfg : Cfg) (s : St) (ev : List Ev) :
    K ⟨cfg, s, ev⟩ = (Mon.hasClose ev, s.status, s.mpsSend, s.mpsRecv) := rfl
theorem K_eta (x : C) : (Mon.hasClose x.ev, x.s.status, x.s.mpsSend, x.s.mpsRecv) = K x := rfl

theorem good_ite {p : Prop} [Decidable p] {a b : C} (ha : GoodK (K a)) (hb : GoodK (K b)) :
    GoodK (K (if p then a else b)) := by split <;> assumption

macro "dk" : tactic =>
  `(tactic| first
      | rfl
      | (simp [ite_K]; done)
      | (simp [ite_K]; rfl)
      | ((repeat' (first | split | (simp only []; split))) <;>
          first | rfl | (simp [ite_K]; done) | (simp [ite_K]; rfl) | (simp [ite_K, K_mk, K_eta]; done) | (simp [K]; done)))

/-! ## neutral functions -/

@[simp] theorem K_releaseId (c : C) (id : Nat) : K (releaseId c id) = K c := by unfold releaseId; dk
@[simp] theorem K_releaseIfUsed (c : C) (id : Nat) : K (releaseIfUsed c id) = K c := by unfold releaseIfUsed; dk
@[simp] theorem K_cancelTimers (c : C) : K (cancelTimers c) = K c := by unfold cancelTimers; dk
@[simp] theorem K_sendPostProcess (c : C) : K (sendPostProcess c) = K c := by
  unfold sendPostProcess
  split
  · extract_lets ms
    split
    · simp; rfl
    · rfl
  · rfl
@[simp] theorem K_refreshPingreqRecv (c : C) : K (refreshPingreqRecv c) = K c := by
  unfold refreshPingreqRecv; dk
@[simp] theorem K_initConn (c : C) (b : Bool) : K (initConn c b) = K c := rfl
@[simp] theorem K_clearStoreRelated (c : C) : K (clearStoreRelated c) = K c := rfl
@[simp] theorem K_decSendCount (c : C) : K (decSendCount c) = K c := by unfold decSendCount; dk
@[simp] theorem K_releasePacketId (c : C) (id : Nat) : K (releasePacketId c id) = K c :=
  releasePacketId_ind (Q := fun c' => K c' = K c) c id (K_releaseIfUsed _ _) (fun h => h)
    (fun h => (K_decSendCount _).trans h)
@[simp] theorem K_releaseAll (l : List Nat) : ∀ c, K (releaseAll c l) = K c := by
  induction l with
  | nil => intro c; rfl
  | cons x rest ih => intro c; rw [releaseAll, ih]; simp
@[simp] theorem K_validateTopicAlias (c : C) (ao : Option Nat) : K (validateTopicAlias c ao).2 = K c := by
  unfold validateTopicAlias; (repeat' split) <;> rfl
@[simp] theorem K_storeAdd (c : C) (id : Nat) (p : Pkt) (x : String) : K (storeAdd c id p x) = K c := by
  unfold storeAdd; split <;> rfl
@[simp] theorem K_tasInsert (c : C) (t : List Nat) (a : Nat) (x : String) : K (tasInsert c t a x) = K c := by
  unfold tasInsert; (repeat' split) <;> rfl
@[simp] theorem K_autoAlias (c : C) (p : Pkt) : K (autoAlias c p).1 = K c := by
  unfold autoAlias; (repeat' (first | split | (simp only []; split))) <;> simp

@[simp] theorem K_sendStoredLoop (l : List (Nat × Pkt)) : ∀ c, K (sendStoredLoop c l).1 = K c := by
  induction l with
  | nil => intro c; rfl
  | cons x rest ih =>
    intro c
    obtain ⟨id, p⟩ := x
    rw [sendStoredLoop]
    split
    · simp only []; rw [ih]; simp; rfl
    · simp only []; rw [ih]; simp only [K_push_send]; (repeat' split) <;> rfl
@[simp] theorem K_sendStored (c : C) : K (sendStored c) = K c := by
  unfold sendStored
  simp only []
  show K (sendStoredLoop _ _).1 = _
  rw [K_sendStoredLoop]
  split <;> rfl
@[simp] theorem K_resendStored (c : C) : K (resendStored c) = K c :=
  resendStored_ind (Q := fun x => K x = K c) c (K_sendStored c)
    (fun h => by rw [K_sendPostProcess]; exact h)

@[simp] theorem K_psV3Publish (c : C) (p : Pkt) : K (psV3Publish c p) = K c := by unfold psV3Publish; dk
@[simp] theorem K_pubRefuseCleanup (c : C) (pid : Option Nat) : K (pubRefuseCleanup c pid) = K c := by
  unfold pubRefuseCleanup; dk
@[simp] theorem K_psV5PublishTail (c : C) (p : Pkt) (r : Option Nat) : K (psV5PublishTail c p r) = K c := by
  unfold psV5PublishTail; dk
@[simp] theorem K_psV5PublishAlias (c : C) (p : Pkt) (r : Option Nat) (v : Bool) :
    K (psV5PublishAlias c p r v) = K c := by unfold psV5PublishAlias; dk
@[simp] theorem K_psV5Publish (c : C) (p : Pkt) : K (psV5Publish c p) = K c := by unfold psV5Publish; dk
@[simp] theorem K_psV3Simple (c : C) (p : Pkt) : K (psV3Simple c p) = K c := by unfold psV3Simple; dk
@[simp] theorem K_psV5Simple (c : C) (p : Pkt) : K (psV5Simple c p) = K c := by unfold psV5Simple; dk
@[simp] theorem K_psV5Puback (c : C) (p : Pkt) : K (psV5Puback c p) = K c := by unfold psV5Puback; dk
@[simp] theorem K_psV5Pubrec (c : C) (p : Pkt) : K (psV5Pubrec c p) = K c := by unfold psV5Pubrec; dk
@[simp] theorem K_psV5Pubcomp (c : C) (p : Pkt) : K (psV5Pubcomp c p) = K c := K_psV5Puback c p
@[simp] theorem K_psPubrel (c : C) (p : Pkt) : K (psPubrel c p) = K c := by unfold psPubrel; dk
@[simp] theorem K_psSubUnsub (c : C) (p : Pkt) : K (psSubUnsub c p) = K c := by unfold psSubUnsub; dk
@[simp] theorem K_psPingreq (c : C) (p : Pkt) : K (psPingreq c p) = K c := by unfold psPingreq; dk
@[simp] theorem K_psV5Auth (c : C) (p : Pkt) : K (psV5Auth c p) = K c := by unfold psV5Auth; dk
@[simp] theorem K_refuseSend (c : C) (e : Nat) (p : Pkt) : K (refuseSend c e p) = K c := by
  unfold refuseSend; dk
@[simp] theorem K_setPingreqSendInterval (c : C) (d : Option Nat) : K (setPingreqSendInterval c d) = K c := by
  unfold setPingreqSendInterval; dk
@[simp] theorem K_eraseStoredPublish (c : C) (id : Nat) : K (eraseStoredPublish c id) = K c := by
  unfold eraseStoredPublish; dk
@[simp] theorem K_restoreOne (c : C) (p : Pkt) : K (restoreOne c p) = K c := by
  unfold restoreOne register; dk
@[simp] theorem K_restorePackets (l : List Pkt) : ∀ c, K (restorePackets c l) = K c := by
  induction l with
  | nil => intro c; rfl
  | cons x rest ih => intro c; rw [restorePackets, ih]; simp

/-! ## the property handlers: limits change, status and events do not -/

theorem st_connectSendProp (c : C) (id v : Nat) :
    (connectSendProp c id v).s.status = c.s.status ∧ (connectSendProp c id v).ev = c.ev := by
  unfold connectSendProp; (repeat' split) <;> exact ⟨rfl, rfl⟩
theorem st_connectRecvProp (c : C) (id v : Nat) :
    (connectRecvProp c id v).s.status = c.s.status ∧ (connectRecvProp c id v).ev = c.ev := by
  unfold connectRecvProp; (repeat' split) <;> exact ⟨rfl, rfl⟩
theorem st_connackSendProp (c : C) (id v : Nat) : (connackSendProp c id v).s.status = c.s.status := by
  unfold connackSendProp; (repeat' (first | split | (simp only []; split))) <;> rfl
theorem st_connackRecvProp (c : C) (id v : Nat) : (connackRecvProp c id v).s.status = c.s.status := by
  unfold connackRecvProp; (repeat' (first | split | (simp only []; split))) <;> rfl

theorem st_propsFold (f : C → Nat → Nat → C) (hf : ∀ c id v, (f c id v).s.status = c.s.status) (c : C)
    (l : List (Nat × Nat)) : (propsFold f c l).s.status = c.s.status := by
  induction l generalizing c with
  | nil => rfl
  | cons x rest ih => obtain ⟨i, v⟩ := x; rw [propsFold, ih, hf]

/-! ## closing functions -/

theorem good_psV5Disconnect {c : C} (h : GoodK (K c)) (p : Pkt) : GoodK (K (psV5Disconnect c p)) := by
  unfold psV5Disconnect
  (repeat' split) <;> simp [h]
theorem good_psV3Disconnect {c : C} (h : GoodK (K c)) (p : Pkt) : GoodK (K (psV3Disconnect c p)) := by
  unfold psV3Disconnect
  (repeat' split) <;> simp [h]
theorem good_handleV3Error {c : C} (h : GoodK (K c)) (e : Nat) : GoodK (K (handleV3Error c e)) := by
  unfold handleV3Error; simp
theorem good_v5DisconnectOrClose {c : C} (h : GoodK (K c)) (p : Pkt) : GoodK (K (v5DisconnectOrClose c p)) := by
  unfold v5DisconnectOrClose
  split
  · simp
  · exact good_psV5Disconnect h p
theorem good_handleV5Error {c : C} (h : GoodK (K c)) (e : Nat) : GoodK (K (handleV5Error c e)) := by
  unfold handleV5Error; simp only [K_err]; exact good_v5DisconnectOrClose h _
theorem good_vErr {c : C} (h : GoodK (K c)) (e : Nat) : GoodK (K (vErr c e)) := by
  unfold vErr; split
  · exact good_handleV3Error h e
  · exact good_handleV5Error h e

/-! ## CONNECT / CONNACK, send side -/

theorem good_psV3Connect {c : C} (h : GoodK (K c)) (p : Pkt) : GoodK (K (psV3Connect c p)) := by
  unfold psV3Connect
  split
  · simpa using h
  · simp only [K_sendPostProcess, K_push_send]
    apply good_of_status
    split <;> simp [clearStoreRelated, initConn]

theorem good_psV5Connect {c : C} (h : GoodK (K c)) (p : Pkt) : GoodK (K (psV5Connect c p)) := by
  unfold psV5Connect
  split
  · simpa using h
  split
  · simpa using h
  · simp only [K_sendPostProcess, K_push_send]
    apply good_of_status
    rw [st_propsFold _ (fun c i v => (st_connectSendProp c i v).1)]
    split <;> simp [clearStoreRelated, initConn]

theorem good_connected_tail {c : C} (hs : c.s.status = .connected) (sp : Bool) :
    GoodK (K (sendPostProcess (if sp then sendStored c else clearStoreRelated c))) := by
  simp only [K_sendPostProcess]
  apply good_of_status
  cases sp
  · simp [clearStoreRelated, hs]
  · simp only [if_true]; rw [status_of_K (K_sendStored c), hs]; simp

theorem good_psV3Connack {c : C} (h : GoodK (K c)) (p : Pkt) : GoodK (K (psV3Connack c p)) := by
  unfold psV3Connack
  split
  · simpa using h
  · simp only []
    split
    · simp
    · exact good_connected_tail rfl _

theorem good_psV5Connack {c : C} (h : GoodK (K c)) (p : Pkt) : GoodK (K (psV5Connack c p)) := by
  unfold psV5Connack
  split
  · simpa using h
  split
  · simpa using h
  · simp only []
    split
    · simp
    · exact good_connected_tail rfl _

theorem good_processSend {c : C} (h : GoodK (K c)) (p : Pkt) : GoodK (K (processSend c p)) := by
  unfold processSend
  (repeat' split) <;>
    first
      | exact good_psV3Connect h p | exact good_psV5Connect h p | exact good_psV3Connack h p
      | exact good_psV5Connack h p | exact good_psV3Disconnect h p | exact good_psV5Disconnect h p
      | exact h | (simpa using h)

theorem good_send {c : C} (h : GoodK (K c)) (p : Pkt) : GoodK (K (send c p)) := by
  unfold send
  split
  · simpa using h
  split
  · simpa using h
  · exact good_processSend h p

/-! ## receive side -/

theorem good_prV3Connect {c : C} (h : GoodK (K c)) (x : Except Nat Pkt) : GoodK (K (prV3Connect c x)) := by
  unfold prV3Connect
  split
  · exact good_handleV3Error h _
  · simp only []
    split
    · simp only [K_push_recv, K_refreshPingreqRecv]
      apply good_of_status
      (repeat' split) <;> simp [clearStoreRelated, initConn]
    · simp only [K_err]
      exact good_psV3Connack (good_of_status (by simp)) _

theorem good_prV5Connect {c : C} (h : GoodK (K c)) (x : Except Nat Pkt) : GoodK (K (prV5Connect c x)) := by
  unfold prV5Connect
  split
  · exact good_handleV5Error h _
  · simp only []
    split
    · simp only [K_push_recv, K_refreshPingreqRecv]
      apply good_of_status
      rw [st_propsFold _ (fun c i v => (st_connectRecvProp c i v).1)]
      (repeat' split) <;> simp [clearStoreRelated, initConn]
    · simp only [K_err]
      exact good_psV5Connack (good_of_status (by simp)) _

theorem good_prV3Connack {c : C} (h : GoodK (K c)) (x : Except Nat Pkt) : GoodK (K (prV3Connack c x)) := by
  unfold prV3Connack
  split
  · exact good_handleV3Error h _
  · split
    · simp only [K_push_recv]
      split
      · apply good_of_status
        split
        · rw [status_of_K (K_resendStored _)]; simp
        · simp [clearStoreRelated]
      · exact h
    · exact good_handleV3Error h _

theorem good_prV5Connack {c : C} (h : GoodK (K c)) (x : Except Nat Pkt) : GoodK (K (prV5Connack c x)) := by
  unfold prV5Connack
  split
  · exact good_handleV5Error h _
  · split
    · simp only [K_push_recv]
      split
      · apply good_of_status
        split
        · rw [status_of_K (K_resendStored _)]
          rename_i p _ _
          rw [st_propsFold _ st_connackRecvProp]; simp
        · show (clearStoreRelated _).s.status ≠ _
          rename_i p _ _
          simp only [clearStoreRelated]
          rw [st_propsFold _ st_connackRecvProp]; simp
      · exact h
    · first | (simpa using h) | (split; · exact good_handleV5Error h _; · simpa using h)

macro "gk" h:ident : tactic =>
  `(tactic| first
      | exact $h
      | exact good_vErr $h _
      | exact good_handleV3Error $h _
      | exact good_handleV5Error $h _
      | (refine good_congr ?_ $h; dk))

macro "gk_handler" f:ident h:ident : tactic =>
  `(tactic| (unfold $f; (repeat' (first | split | (simp only []; split))) <;> gk $h))

theorem good_prV3Publish {c : C} (h : GoodK (K c)) (x : Except Nat Pkt) : GoodK (K (prV3Publish c x)) := by
  gk_handler prV3Publish h

theorem good_prV5PublishAlias {c : C} (h : GoodK (K c)) (p : Pkt) : GoodK (K (prV5PublishAlias c p).1) := by
  gk_handler prV5PublishAlias h

theorem good_prV5Publish {c : C} (h : GoodK (K c)) (x : Except Nat Pkt) : GoodK (K (prV5Publish c x)) := by
  unfold prV5Publish
  split
  · split
    · exact good_handleV5Error h _
    · simpa using h
  · rename_i p
    have h1 := good_prV5PublishAlias h p
    generalize prV5PublishAlias c p = r at h1 ⊢
    obtain ⟨c1, o⟩ := r
    cases o with
    | none => exact h1
    | some p' =>
      simp only [] at h1 ⊢
      refine good_ite h1 (good_ite (good_handleV5Error h1 _) (good_congr ?_ h1))
      simp [ite_K]
      (repeat' split) <;> simp [K, apply_ite C.s, apply_ite C.ev, apply_ite St.status, apply_ite St.mpsSend, apply_ite St.mpsRecv]

theorem good_prPuback {c : C} (h : GoodK (K c)) (x : Except Nat Pkt) : GoodK (K (prPuback c x)) := by
  gk_handler prPuback h
theorem good_prPubrec {c : C} (h : GoodK (K c)) (x : Except Nat Pkt) : GoodK (K (prPubrec c x)) := by
  gk_handler prPubrec h
theorem good_prPubrel {c : C} (h : GoodK (K c)) (x : Except Nat Pkt) : GoodK (K (prPubrel c x)) := by
  gk_handler prPubrel h
theorem good_prPubcomp {c : C} (h : GoodK (K c)) (x : Except Nat Pkt) : GoodK (K (prPubcomp c x)) := by
  gk_handler prPubcomp h
theorem good_prPlain {c : C} (h : GoodK (K c)) (x : Except Nat Pkt) : GoodK (K (prPlain c x)) := by
  gk_handler prPlain h
theorem good_prSubUnsuback {c : C} (h : GoodK (K c)) (b : Bool) (x : Except Nat Pkt) :
    GoodK (K (prSubUnsuback c b x)) := by
  gk_handler prSubUnsuback h
theorem good_prPingreq {c : C} (h : GoodK (K c)) (x : Except Nat Pkt) : GoodK (K (prPingreq c x)) := by
  gk_handler prPingreq h
theorem good_prPingresp {c : C} (h : GoodK (K c)) (x : Except Nat Pkt) : GoodK (K (prPingresp c x)) := by
  gk_handler prPingresp h
theorem good_prDisconnect {c : C} (h : GoodK (K c)) (x : Except Nat Pkt) : GoodK (K (prDisconnect c x)) := by
  gk_handler prDisconnect h

theorem good_dispatchRecv {c : C} (h : GoodK (K c)) (t : Nat) (x : Except Nat Pkt) :
    GoodK (K (dispatchRecv c t x)) := by
  unfold dispatchRecv
  (repeat' split) <;>
    first
      | exact good_prV3Connect h x | exact good_prV5Connect h x | exact good_prV3Connack h x
      | exact good_prV5Connack h x | exact good_prV3Publish h x | exact good_prV5Publish h x
      | exact good_prPuback h x | exact good_prPubrec h x | exact good_prPubrel h x
      | exact good_prPubcomp h x | exact good_prPlain h x | exact good_prSubUnsuback h _ x
      | exact good_prPingreq h x | exact good_prPingresp h x | exact good_prDisconnect h x
      | (simpa using h)

theorem good_processRecvPacket {c : C} (h : GoodK (K c)) (fh : Nat) (d : List Nat) (parse : Nat → Except Nat Pkt) :
    GoodK (K (processRecvPacket c fh d parse)) := by
  unfold processRecvPacket
  split
  · simp only [K_err]; exact good_v5DisconnectOrClose h _
  · simp only []
    split
    · simpa using h
    split
    · split
      · split
        · simpa using h
        · split
          · exact good_prV3Connect (c := { c with s := { c.s with ver := 4 } }) h _
          split
          · exact good_prV5Connect (c := { c with s := { c.s with ver := 5 } }) h _
          · simpa using h
      · simpa using h
    · exact good_dispatchRecv h _ _

theorem good_recv {c : C} (h : GoodK (K c)) (inp : List Nat) (parse : Nat → Nat → List Nat → Except Nat Pkt) :
    GoodK (K (recv c inp parse).1) := by
  unfold recv
  obtain ⟨pb, out, rest⟩ := Framing.feed c.s.pb inp
  simp only []
  cases out with
  | none => exact h
  | some o =>
    cases o with
    | complete fh data => exact good_processRecvPacket (c := { c with s := { c.s with pb := pb } }) h fh data _
    | error => simp

theorem good_notifyTimerFired {c : C} (h : GoodK (K c)) (k : Timer) : GoodK (K (notifyTimerFired c k)) := by
  unfold notifyTimerFired
  cases k <;> simp only [] <;>
    ((repeat' (first | split | (simp only []; split))) <;>
      first
        | exact h
        | (simp; done)
        | exact good_v5DisconnectOrClose (c := _) (by exact h) _
        | (refine good_congr ?_ h; dk))

/-- `notify_closed` resets both limits, from ANY state -/
theorem good_notifyClosed (c : C) : (notifyClosed c).s.mpsSend = noLimit ∧ (notifyClosed c).s.mpsRecv = noLimit := by
  have key : K (notifyClosed c) = (Mon.hasClose c.ev, .disconnected, noLimit, noLimit) := by
    unfold notifyClosed
    extract_lets s8 c8 sub s7 c7 unsub s6 c6 s5 c5 a s4 c4 b s3 c3 d s2 c2 s1 c1 s0 c0
    rw [K_cancelTimers]
    have e7 : K c7 = (Mon.hasClose c.ev, .disconnected, noLimit, noLimit) := by
      simp only [c7]; rw [K_releaseAll]; rfl
    have e6 : K c6 = (Mon.hasClose c.ev, .disconnected, noLimit, noLimit) := by
      simp only [c6]; rw [K_releaseAll]; exact e7
    have e1 : K c1 = (Mon.hasClose c.ev, .disconnected, noLimit, noLimit) := by
      simp only [c1]
      split
      · show K c2 = _
        simp only [c2]; rw [K_releaseAll]
        show K c3 = _
        simp only [c3]; rw [K_releaseAll]
        show K c4 = _
        simp only [c4]; rw [K_releaseAll]
        exact e6
      · exact e6
    exact e1
  exact ⟨congrArg (·.2.2.1) key, congrArg (·.2.2.2) key⟩

end MqttVerif.Conn.DC
