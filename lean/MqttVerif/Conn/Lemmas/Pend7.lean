import MqttVerif.Conn.Lemmas.Pend6
/-!
# C08 helper — the ghost `pend` against the model: `recv`, the remaining calls, `step`
-/
set_option linter.unusedSimpArgs false
set_option linter.unusedVariables false
namespace MqttVerif.Conn.Pend
open MqttVerif MqttVerif.Conn

/-- what the L1 parser guarantees about a parsed packet: it is a packet of the protocol version
    the frame was parsed for, and its kind is the frame's type nibble -/
def ParseOk (parse : Nat → Nat → List Nat → Except Nat Pkt) : Prop :=
  ∀ v fh data p, parse v fh data = .ok p → p.ver = v ∧ p.kind.nibble = fh / 16

theorem kind_of_nibble {k : Kind} {n : Nat} (h : k.nibble = n) : Kind.ofNibble n = some k := by
  subst h; cases k <;> rfl

theorem GoodP.mono {P Q : Gh → Prop} {c c' : C} (h : GoodP P c c') (hq : ∀ g, Q g → P g) : GoodP Q c c' := by
  rcases h with h | h
  · exact .inl (fun g hg => h g (hq g hg))
  · exact .inr h

/-- precompose with a step that keeps the invariant for every ghost and `StoreOk` -/
theorem GoodP.pre {P : Gh → Prop} {c c1 c' : C} (h : GoodP P c1 c') (h1 : ∀ g, Inv g c → Inv g c1)
    (h2 : StoreOk c.s → StoreOk c1.s) : GoodP P c c' := by
  rcases h with h | ⟨r, h⟩
  · exact .inl (fun g hg hi => h g hg (h1 g hi))
  · exact .inr ⟨r, fun hs => h (h2 hs)⟩

/-- the ghost restriction of a `recv` -/
abbrev RecvP (c : C) : Gh → Prop := fun g => c.s.status = .disconnected → g = [] ∨ 5 ≤ c.s.mpsSend

theorem good_prV5Connect' (c : C) (x : Except Nat Pkt) (hev : c.ev = [])
    (hx : ∀ p, x = .ok p → p.kind = .connect) : GoodP (RecvP c) c (prV5Connect c x) := by
  by_cases hst : c.s.status = .disconnected
  · exact (good_prV5Connect c x hev hx).mono (fun g hg => hg hst)
  · unfold prV5Connect
    rw [if_pos hst]
    exact .of_fr (fr_handleV5Error _ _)

theorem good_dispatchRecv (c : C) (t : Nat) (x : Except Nat Pkt) (hev : c.ev = []) (hv0 : c.s.ver ≠ 0)
    (hx : ∀ p, x = .ok p → p.ver = c.s.ver ∧ p.kind.nibble = t) : GoodP (RecvP c) c (dispatchRecv c t x) := by
  have hk : ∀ k : Kind, k.nibble = t → ∀ p, x = .ok p → p.kind = k := by
    intro k hk p hp
    have h1 := kind_of_nibble (hx p hp).2
    have h2 := kind_of_nibble hk
    rw [h1] at h2; exact Option.some.inj h2
  have hack : (t = 4 ∨ t = 5 ∨ t = 7) → ∀ p, x = .ok p → p.ver = c.s.ver ∧ isAck p = true := by
    intro ht p hp
    refine ⟨(hx p hp).1, ?_⟩
    rcases ht with rfl | rfl | rfl
    · simp [isAck, hk .puback rfl p hp]
    · simp [isAck, hk .pubrec rfl p hp]
    · simp [isAck, hk .pubcomp rfl p hp]
  unfold dispatchRecv
  split
  · split
    · exact (good_prV3Connect c x hev (hk .connect rfl)).toP
    · exact good_prV5Connect' c x hev (hk .connect rfl)
  · split
    · exact (good_prV3Connack c x hev (hk .connack rfl)).toP
    · exact (good_prV5Connack c x hev (hk .connack rfl)).toP
  · split
    · exact .of_fr (fr_prV3Publish c x)
    · exact .of_fr (fr_prV5Publish c x)
  · exact .inl (fun g _ h => inv_prPuback h x (hack (.inl rfl)))
  · exact .inl (fun g _ h => inv_prPubrec h x hv0 (hack (.inr (.inl rfl))))
  · exact .of_fr (fr_prPubrel c x)
  · exact .inl (fun g _ h => inv_prPubcomp h x (hack (.inr (.inr rfl))))
  · exact .of_fr (fr_prPlain c x)
  · exact .of_fr (fr_prSubUnsuback c true x)
  · exact .of_fr (fr_prPlain c x)
  · exact .of_fr (fr_prSubUnsuback c false x)
  · exact .of_fr (fr_prPingreq c x)
  · exact .of_fr (fr_prPingresp c x)
  · exact .of_fr (fr_prDisconnect c x)
  · split
    · exact .of_fr (fr_prPlain c x)
    · exact .of_fr (fr_err _ _)
  · exact .of_fr (fr_err _ _)

/-- an undetermined connection stores no PUBLISH / PUBREL, so fixing the version keeps the invariant -/
theorem storeOk_setVer {c : C} (h0 : c.s.ver = 0) (v : Nat) (hs : StoreOk c.s) :
    StoreOk ({ c with s := { c.s with ver := v } } : C).s := by
  refine ⟨hs.nodup, ?_⟩
  intro y hy hk
  exact absurd h0 (hs.ent y hy hk).2.2.1

theorem inv_setVer {g : Gh} {c : C} (h0 : c.s.ver = 0) (v : Nat) (h : Inv g c) :
    Inv g ({ c with s := { c.s with ver := v } } : C) :=
  ⟨h.agree, storeOk_setVer h0 v h.store, h.conn⟩

theorem good_processRecvPacket (c : C) (fh : Nat) (data : List Nat) (parse : Nat → Except Nat Pkt)
    (hev : c.ev = []) (hx : ∀ v p, parse v = .ok p → p.ver = v ∧ p.kind.nibble = fh / 16) :
    GoodP (RecvP c) c (processRecvPacket c fh data parse) := by
  unfold processRecvPacket
  split
  · exact .of_fr ((fr_v5DisconnectOrClose _ _ (by simp)).trans (fr_err _ _))
  simp only []
  split
  · exact .of_fr (fr_err _ _)
  split
  · rename_i h0
    split
    · rename_i ht
      split
      · exact .of_fr (fr_err _ _)
      split
      · refine GoodP.pre (c1 := { c with s := { c.s with ver := 4 } }) ?_ (fun g h => inv_setVer h0 4 h) (storeOk_setVer h0 4)
        exact (good_prV3Connect { c with s := { c.s with ver := 4 } } _ hev (fun p hp => by
          have := kind_of_nibble (hx 4 p hp).2
          rw [ht] at this; exact (Option.some.inj this).symm)).toP
      split
      · refine GoodP.pre (c1 := { c with s := { c.s with ver := 5 } }) ?_ (fun g h => inv_setVer h0 5 h) (storeOk_setVer h0 5)
        exact good_prV5Connect' { c with s := { c.s with ver := 5 } } _ hev (fun p hp => by
          have := kind_of_nibble (hx 5 p hp).2
          rw [ht] at this; exact (Option.some.inj this).symm)
      · exact .of_fr (fr_err _ _)
    · exact .of_fr (fr_err _ _)
  · rename_i h0
    exact good_dispatchRecv c _ _ hev h0 (fun p hp => hx _ p hp)

theorem good_recv (c : C) (inp : List Nat) (parse : Nat → Nat → List Nat → Except Nat Pkt)
    (hev : c.ev = []) (hp : ParseOk parse) : GoodP (RecvP c) c (recv c inp parse).1 := by
  unfold recv
  generalize Framing.feed c.s.pb inp = r
  obtain ⟨pb, out, rest⟩ := r
  simp only []
  split
  · exact .of_fr (fr_of_eq rfl rfl rfl)
  · rename_i fh data
    refine GoodP.pre (c1 := { c with s := { c.s with pb := pb } }) ?_ (fun g h => h.fr (fr_of_eq (c := c) rfl rfl rfl))
      (fun hs => hs.congr (c := c) rfl)
    exact good_processRecvPacket { c with s := { c.s with pb := pb } } fh data _ hev (fun v p h => hp v fh data p h)
  · refine .of_fr (Fr.trans (b := { c with s := { c.s with pb := pb } }) (fr_of_eq rfl rfl rfl) ?_)
    exact (fr_cancelTimers _).trans ((fr_push (fun g => List.Subset.refl _)).trans (fr_err _ _))

end MqttVerif.Conn.Pend
