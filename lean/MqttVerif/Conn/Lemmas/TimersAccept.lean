import MqttVerif.Conn.Lemmas.TimersSpec
/-!
# Helper lemmas for C15, part 4: the shape of every receive handler's outcome
-/
set_option linter.unusedSimpArgs false
set_option linter.unusedVariables false
namespace MqttVerif.Conn
open MqttVerif Mon

/-- the automatic responses keep the status and the receive timeout -/
macro "keepsRT(" a:term "," b:term ")" : term =>
  `(($a).cfg = ($b).cfg ∧ ($a).s.status = ($b).s.status ∧ ($a).s.recvTimeoutMs = ($b).s.recvTimeoutMs)

@[simp] theorem psV3Simple_rt (c : C) (p : Pkt) : keepsRT(psV3Simple c p, c) := by
  unfold psV3Simple; (repeat' split) <;> simp
@[simp] theorem psV5Simple_rt (c : C) (p : Pkt) : keepsRT(psV5Simple c p, c) := by
  unfold psV5Simple; (repeat' split) <;> simp
@[simp] theorem psV5Puback_rt (c : C) (p : Pkt) : keepsRT(psV5Puback c p, c) := by
  unfold psV5Puback; (repeat' split) <;> simp
@[simp] theorem psV5Pubcomp_rt (c : C) (p : Pkt) : keepsRT(psV5Pubcomp c p, c) := psV5Puback_rt c p
@[simp] theorem psV5Pubrec_rt (c : C) (p : Pkt) : keepsRT(psV5Pubrec c p, c) := by
  rcases hrc : p.rc with _ | rc
  · simp only [psV5Pubrec, hrc]; (repeat' split) <;> simp
  · by_cases hf : rc ≥ 0x80 <;> simp only [psV5Pubrec, hrc, hf, decide_true, decide_false] <;>
      (repeat' split) <;> simp
@[simp] theorem psPubrel_rt (c : C) (p : Pkt) : keepsRT(psPubrel c p, c) := by
  by_cases hn : c.s.needStore = true <;> simp only [psPubrel, hn] <;>
    (repeat' (first | split | simp only [])) <;> simp

/-- how a receive handler can end -/
inductive RecvOutcome (c : C) : C → Prop
  /-- refused: the last event is a `NotifyError` -/
  | rejected (m : C) (e : Nat) : RecvOutcome c (m.err e)
  /-- accepted: `refresh_pingreq_recv` runs immediately before the notification; the receive
      timeout and the status are those at the start of the call -/
  | accepted (m : C) (p : Pkt) (h : keepsRT(m, c)) :
      RecvOutcome c ((refreshPingreqRecv m).push (.recv p))
  /-- a QoS 2 duplicate: answered and re-armed, not notified again -/
  | duplicate (m : C) (h : keepsRT(m, c)) : RecvOutcome c (refreshPingreqRecv m)
  /-- a panic site (C05) -/
  | panic (m : C) (site : String) : RecvOutcome c (m.setPanic site)

theorem vErr_rejected (c : C) (e : Nat) : RecvOutcome c (vErr c e) := by
  unfold vErr handleV3Error handleV5Error; split <;> exact .rejected _ _

macro "outcome_cases" : tactic =>
  `(tactic| ((repeat' (first | split | simp only [])) <;> first
    | exact vErr_rejected _ _
    | exact .rejected _ _
    | exact .panic _ _
    | exact .accepted _ _ (by simp)
    | exact .duplicate _ (by simp)))

theorem prV3Publish_outcome (c : C) (pp : Except Nat Pkt) : RecvOutcome c (prV3Publish c pp) := by
  unfold prV3Publish handleV3Error; outcome_cases

theorem prPuback_outcome (c : C) (pp : Except Nat Pkt) : RecvOutcome c (prPuback c pp) := by
  unfold prPuback; outcome_cases

theorem prPubrec_outcome (c : C) (pp : Except Nat Pkt) : RecvOutcome c (prPubrec c pp) := by
  unfold prPubrec; outcome_cases

theorem prPubrel_outcome (c : C) (pp : Except Nat Pkt) : RecvOutcome c (prPubrel c pp) := by
  unfold prPubrel; outcome_cases

theorem prPubcomp_outcome (c : C) (pp : Except Nat Pkt) : RecvOutcome c (prPubcomp c pp) := by
  unfold prPubcomp; outcome_cases

theorem prPlain_outcome (c : C) (pp : Except Nat Pkt) : RecvOutcome c (prPlain c pp) := by
  unfold prPlain; outcome_cases

theorem prSubUnsuback_outcome (c : C) (b : Bool) (pp : Except Nat Pkt) :
    RecvOutcome c (prSubUnsuback c b pp) := by
  unfold prSubUnsuback; outcome_cases

theorem prPingreq_outcome (c : C) (pp : Except Nat Pkt) : RecvOutcome c (prPingreq c pp) := by
  unfold prPingreq; outcome_cases

theorem prV5PublishAlias_shape (c : C) (p : Pkt) :
    ((prV5PublishAlias c p).2 = none → ∃ m e, (prV5PublishAlias c p).1 = C.err m e) ∧
    ((prV5PublishAlias c p).2 ≠ none → keepsRT((prV5PublishAlias c p).1, c)) := by
  unfold prV5PublishAlias handleV5Error
  (repeat' (first | split | simp only [])) <;> simp
  all_goals exact ⟨_, _, rfl⟩

theorem prV5Publish_outcome (c : C) (pp : Except Nat Pkt) : RecvOutcome c (prV5Publish c pp) := by
  unfold prV5Publish
  split
  · unfold handleV5Error; split <;> exact .rejected _ _
  rename_i p
  extract_lets r c1 rmx id already src1 c2 src2 c3 pubackSend pubrecSend c4 c5 c6
  obtain ⟨s1, s2⟩ := prV5PublishAlias_shape c p
  split
  · rename_i hn
    obtain ⟨m, e, hm⟩ := s1 hn
    rw [show r.1 = m.err e from hm]; exact .rejected _ _
  rename_i p' hp
  have k1 : keepsRT(c1, c) := s2 (by rw [show (prV5PublishAlias c p).2 = some p' from hp]; simp)
  have k2 : keepsRT(c2, c) := by
    simp only [c2, src1]; split <;> simp [k1]
  have k3 : keepsRT(c3, c) := by
    simp only [c3, src2]; split <;> simp [k2]
  have k4 : keepsRT(c4, c) := by
    simp only [c4]; (repeat' split) <;> simp [k3]
  have k5 : keepsRT(c5, c) := by
    simp only [c5]; (repeat' split) <;> simp [k4]
  split
  · exact .panic _ _
  split
  · unfold handleV5Error; exact .rejected _ _
  split
  · exact .accepted _ _ k5
  · exact .duplicate _ k5

theorem dispatchRecv_outcome (c : C) (t : Nat) (pp : Except Nat Pkt)
    (ht : t ≠ 1 ∧ t ≠ 2 ∧ t ≠ 13 ∧ t ≠ 14) : RecvOutcome c (dispatchRecv c t pp) := by
  unfold dispatchRecv
  (repeat' split)
  all_goals first
    | omega
    | exact prV3Publish_outcome _ _
    | exact prV5Publish_outcome _ _
    | exact prPuback_outcome _ _
    | exact prPubrec_outcome _ _
    | exact prPubrel_outcome _ _
    | exact prPubcomp_outcome _ _
    | exact prPlain_outcome _ _
    | exact prSubUnsuback_outcome _ _ _
    | exact prPingreq_outcome _ _
    | exact .rejected _ _

/-- the keep-alive receive timeout a server derives from CONNECT: 1.5 × keep-alive, in ms -/
def recvTimeoutOf (keepAlive : Nat) : Nat := keepAlive * 1000 * 3 / 2

theorem recvTimeoutOf_zero : recvTimeoutOf 0 = 0 := rfl
theorem recvTimeoutOf_pos (k : Nat) (h : k ≠ 0) : recvTimeoutOf k ≠ 0 := by
  unfold recvTimeoutOf; omega

@[simp] theorem clearStoreRelated_ev (c : C) : (clearStoreRelated c).ev = c.ev := rfl

@[simp] theorem connectRecvProp_ev (c : C) (id v : Nat) : (connectRecvProp c id v).ev = c.ev := by
  unfold connectRecvProp; (repeat' split) <;> rfl

@[simp] theorem propsFold_connectRecvProp_ev (c : C) (l : List (Nat × Nat)) :
    (propsFold connectRecvProp c l).ev = c.ev := by
  induction l generalizing c with
  | nil => rfl
  | cons x l ih => obtain ⟨id, v⟩ := x; simp [propsFold, ih]

theorem prV3Connect_ok (c : C) (p : Pkt) (hs : c.s.status = .disconnected) :
    (prV3Connect c (.ok p)).ev = c.ev ++
      (if p.keepAlive ≠ 0 then [.timerReset .pingreqRecv (recvTimeoutOf p.keepAlive)] else []) ++ [.recv p] ∧
    (prV3Connect c (.ok p)).s.recvTimeoutMs = recvTimeoutOf p.keepAlive ∧
    (prV3Connect c (.ok p)).s.status = .connecting ∧ (prV3Connect c (.ok p)).s.isClient = false := by
  unfold prV3Connect
  rw [if_neg (by simp [hs])]
  by_cases hk : p.keepAlive = 0
  · by_cases hc : p.clean = true <;>
      simp [hk, hc, refresh_ev, rearmRecv, recvTimeoutOf]
  · have hk' : p.keepAlive > 0 := by omega
    have hne : p.keepAlive * 1000 * 3 / 2 ≠ 0 := by omega
    by_cases hc : p.clean = true <;>
      simp [hk, hk', hc, hne, refresh_ev, rearmRecv, recvTimeoutOf]

theorem prV5Connect_ok (c : C) (p : Pkt) (hs : c.s.status = .disconnected) :
    (prV5Connect c (.ok p)).ev = c.ev ++
      (if p.keepAlive ≠ 0 then [.timerReset .pingreqRecv (recvTimeoutOf p.keepAlive)] else []) ++ [.recv p] ∧
    (prV5Connect c (.ok p)).s.recvTimeoutMs = recvTimeoutOf p.keepAlive ∧
    (prV5Connect c (.ok p)).s.status = .connecting ∧ (prV5Connect c (.ok p)).s.isClient = false := by
  unfold prV5Connect
  rw [if_neg (by simp [hs])]
  by_cases hk : p.keepAlive = 0
  · by_cases hc : p.clean = true <;>
      simp [hk, hc, refresh_ev, rearmRecv, recvTimeoutOf]
  · have hk' : p.keepAlive > 0 := by omega
    have hne : p.keepAlive * 1000 * 3 / 2 ≠ 0 := by omega
    by_cases hc : p.clean = true <;>
      simp [hk, hk', hc, hne, refresh_ev, rearmRecv, recvTimeoutOf]

end MqttVerif.Conn
