import MqttVerif.Conn.Step
import MqttVerif.Monitors
import MqttVerif.Conn.Lemmas.Resend
/-!
# Helper lemmas for C15 — the keep-alive timer flags and timer events

`flagsOf s` = the model's three `*_set` flags as a `Mon.Armed`.  `tev` = the timer events of an
event list.  `Inv a P c` (`a` = ghost flags at the start of the call, `P` = "the
disconnected-means-unarmed invariant held at the start of the call"):

* `g` — folding the timer events pushed so far over `a` (`Mon.timersStep`) never meets a cancel
  of an unarmed timer and yields exactly the flags of the current state;
* `d` — if `P`, then `status = disconnected → all three flags clear`;
* `n` — if a `RequestTimerReset` has been pushed, the status is not `disconnected`.

`Inv0` = the same with "no `RequestTimerReset` pushed so far" (needed in front of the functions
that set `status := disconnected`).
-/
set_option linter.unusedSimpArgs false
set_option linter.unusedVariables false
namespace MqttVerif.Conn
open MqttVerif Mon

def flagsOf (s : St) : Armed := ⟨s.sendSet, s.recvSet, s.respSet⟩

def unarmed : Armed := ⟨false, false, false⟩

def isTimerEv : Ev → Bool
  | .timerReset _ _ => true
  | .timerCancel _ => true
  | _ => false

@[simp] theorem isTimerEv_reset (k ms) : isTimerEv (.timerReset k ms) = true := rfl
@[simp] theorem isTimerEv_cancel (k) : isTimerEv (.timerCancel k) = true := rfl
@[simp] theorem isTimerEv_send (p r) : isTimerEv (.send p r) = false := rfl
@[simp] theorem isTimerEv_recv (p) : isTimerEv (.recv p) = false := rfl
@[simp] theorem isTimerEv_released (i) : isTimerEv (.released i) = false := rfl
@[simp] theorem isTimerEv_error (e) : isTimerEv (.error e) = false := rfl
@[simp] theorem isTimerEv_close : isTimerEv .close = false := rfl

/-- the timer events of an event list -/
def tev (l : List Ev) : List Ev := l.filter isTimerEv

@[simp] theorem tev_nil : tev [] = [] := rfl
@[simp] theorem tev_append (l₁ l₂ : List Ev) : tev (l₁ ++ l₂) = tev l₁ ++ tev l₂ := by
  simp [tev]
@[simp] theorem tev_cons (e : Ev) (l : List Ev) :
    tev (e :: l) = if isTimerEv e then e :: tev l else tev l := by
  simp [tev, List.filter_cons]
theorem tev_idem (l : List Ev) : tev (tev l) = tev l := by simp [tev]

theorem timersStep_tev (a : Armed) (l : List Ev) : timersStep a (tev l) = timersStep a l := by
  induction l generalizing a with
  | nil => rfl
  | cons e l ih =>
    cases e <;> simp [timersStep, ih]

theorem anyReset_tev (l : List Ev) : anyReset (tev l) = anyReset l := by
  induction l with
  | nil => rfl
  | cons e l ih =>
    cases e <;> simp_all [anyReset]

theorem timersStep_append (a : Armed) (l₁ l₂ : List Ev) :
    timersStep a (l₁ ++ l₂) = (timersStep a l₁).bind (fun b => timersStep b l₂) := by
  induction l₁ generalizing a with
  | nil => simp [timersStep]
  | cons e l ih =>
    cases e <;> simp [timersStep, ih]
    split <;> simp [ih]

@[simp] theorem anyReset_append (l₁ l₂ : List Ev) :
    anyReset (l₁ ++ l₂) = (anyReset l₁ || anyReset l₂) := by
  simp [anyReset]

@[simp] theorem anyReset_nil : anyReset [] = false := rfl

/-! ## the invariant carried through one API call -/

structure Inv (a : Armed) (P : Prop) (c : C) : Prop where
  g : timersStep a (tev c.ev) = some (flagsOf c.s)
  d : P → c.s.status = .disconnected → flagsOf c.s = unarmed
  n : anyReset (tev c.ev) = true → c.s.status ≠ .disconnected

structure Inv0 (a : Armed) (P : Prop) (c : C) : Prop where
  g : timersStep a (tev c.ev) = some (flagsOf c.s)
  d : P → c.s.status = .disconnected → flagsOf c.s = unarmed
  n0 : anyReset (tev c.ev) = false

theorem Inv0.inv {a P c} (h : Inv0 a P c) : Inv a P c :=
  ⟨h.g, h.d, by simp [h.n0]⟩

/-- a step that pushes no timer event, keeps the flags, and does not move to `disconnected` -/
theorem Inv.frame {a P c c'} (h : Inv a P c) (he : tev c'.ev = tev c.ev)
    (hf : flagsOf c'.s = flagsOf c.s)
    (hs : c'.s.status = .disconnected → c.s.status = .disconnected) : Inv a P c' := by
  refine ⟨by rw [he, hf]; exact h.g, fun p q => by rw [hf]; exact h.d p (hs q), fun r q => ?_⟩
  rw [he] at r; exact h.n r (hs q)

theorem Inv0.frame {a P c c'} (h : Inv0 a P c) (he : tev c'.ev = tev c.ev)
    (hf : flagsOf c'.s = flagsOf c.s)
    (hs : c'.s.status = .disconnected → c.s.status = .disconnected) : Inv0 a P c' :=
  ⟨by rw [he, hf]; exact h.g, fun p q => by rw [hf]; exact h.d p (hs q), by rw [he]; exact h.n0⟩

@[simp] theorem push_ev (c : C) (e : Ev) : (c.push e).ev = c.ev ++ [e] := rfl
@[simp] theorem push_s (c : C) (e : Ev) : (c.push e).s = c.s := rfl
@[simp] theorem push_cfg (c : C) (e : Ev) : (c.push e).cfg = c.cfg := rfl
@[simp] theorem err_ev (c : C) (e : Nat) : (c.err e).ev = c.ev ++ [.error e] := rfl
@[simp] theorem err_s (c : C) (e : Nat) : (c.err e).s = c.s := rfl
@[simp] theorem err_cfg (c : C) (e : Nat) : (c.err e).cfg = c.cfg := rfl
@[simp] theorem setPanic_ev (c : C) (m : String) : (c.setPanic m).ev = c.ev := rfl
@[simp] theorem setPanic_cfg (c : C) (m : String) : (c.setPanic m).cfg = c.cfg := rfl

/-! ## frame lemmas: functions that neither touch the timer-related fields nor push timer events -/

/-- `a` and `b` agree on the configuration, the timer events pushed, and every field the timer
    logic reads or writes -/
macro "sameTV(" a:term "," b:term ")" : term =>
  `(($a).cfg = ($b).cfg ∧ tev ($a).ev = tev ($b).ev ∧ ($a).s.sendSet = ($b).s.sendSet ∧
    ($a).s.recvSet = ($b).s.recvSet ∧ ($a).s.respSet = ($b).s.respSet ∧
    ($a).s.status = ($b).s.status ∧ ($a).s.isClient = ($b).s.isClient ∧
    ($a).s.userInterval = ($b).s.userInterval ∧ ($a).s.keepAliveMs = ($b).s.keepAliveMs ∧
    ($a).s.serverKeepAliveMs = ($b).s.serverKeepAliveMs ∧
    ($a).s.recvTimeoutMs = ($b).s.recvTimeoutMs ∧ ($a).s.respTimeoutMs = ($b).s.respTimeoutMs ∧
    ($a).s.ver = ($b).s.ver)

@[simp] theorem setPanic_tv (c : C) (m : String) : sameTV(c.setPanic m, c) := by
  simp [C.setPanic]

@[simp] theorem releaseId_tv (c : C) (id : Nat) : sameTV(releaseId c id, c) := by
  cases h : (Alloc.deallocate c.s.pidMan id).1 <;> simp [releaseId, h]

@[simp] theorem releaseIfUsed_tv (c : C) (id : Nat) : sameTV(releaseIfUsed c id, c) := by
  unfold releaseIfUsed; split <;> simp

/-- fix 1d0ef05: a send refused before its handler pushes an error and possibly a release -/
@[simp] theorem refuseSend_tv (c : C) (e : Nat) (p : Pkt) : sameTV(refuseSend c e p, c) := by
  unfold refuseSend; split <;> simp

@[simp] theorem clearStoreRelated_tv (c : C) : sameTV(clearStoreRelated c, c) := by
  simp [clearStoreRelated]

@[simp] theorem decSendCount_tv (c : C) : sameTV(decSendCount c, c) := by
  unfold decSendCount; split <;> simp

/-- `release_packet_id` (fix ba1a812): wait sets and the counter are no timer-related fields -/
@[simp] theorem releasePacketId_tv (c : C) (id : Nat) : sameTV(releasePacketId c id, c) := by
  rcases releasePacketId_eq c id with ⟨_, e⟩ | ⟨_, _, e⟩ | ⟨_, _, e⟩ <;> rw [e] <;> simp [dropWaits]

@[simp] theorem storeAdd_tv (c : C) (id : Nat) (p : Pkt) (m : String) : sameTV(storeAdd c id p m, c) := by
  unfold storeAdd; split <;> simp

@[simp] theorem tasInsert_tv (c : C) (t : List Nat) (a : Nat) (m : String) : sameTV(tasInsert c t a m, c) := by
  unfold tasInsert; (repeat' split) <;> simp

@[simp] theorem validateTopicAlias_tv (c : C) (ao : Option Nat) : sameTV((validateTopicAlias c ao).2, c) := by
  unfold validateTopicAlias; (repeat' split) <;> simp

@[simp] theorem pubRefuseCleanup_tv (c : C) (pid : Option Nat) : sameTV(pubRefuseCleanup c pid, c) := by
  unfold pubRefuseCleanup; (repeat' split) <;> simp

@[simp] theorem autoAlias_tv (c : C) (p : Pkt) : sameTV((autoAlias c p).1, c) := by
  unfold autoAlias; (repeat' split) <;> simp
  all_goals (split <;> simp)

@[simp] theorem connectSendProp_tv (c : C) (id v : Nat) : sameTV(connectSendProp c id v, c) := by
  unfold connectSendProp; (repeat' split) <;> simp

@[simp] theorem connectRecvProp_tv (c : C) (id v : Nat) : sameTV(connectRecvProp c id v, c) := by
  unfold connectRecvProp; (repeat' split) <;> simp

theorem propsFold_tv (f : C → Nat → Nat → C) (hf : ∀ c id v, sameTV(f c id v, c)) (c : C)
    (l : List (Nat × Nat)) : sameTV(propsFold f c l, c) := by
  induction l generalizing c with
  | nil => simp [propsFold]
  | cons x l ih =>
    obtain ⟨id, v⟩ := x
    simp only [propsFold]
    have h1 := ih (f c id v)
    have h2 := hf c id v
    simp_all

@[simp] theorem propsFold_connectSendProp_tv (c : C) (l : List (Nat × Nat)) :
    sameTV(propsFold connectSendProp c l, c) := propsFold_tv _ connectSendProp_tv c l

@[simp] theorem propsFold_connectRecvProp_tv (c : C) (l : List (Nat × Nat)) :
    sameTV(propsFold connectRecvProp c l, c) := propsFold_tv _ connectRecvProp_tv c l

@[simp] theorem sendStoredLoop_tv (c : C) (l : List (Nat × Pkt)) : sameTV((sendStoredLoop c l).1, c) := by
  induction l generalizing c with
  | nil => simp [sendStoredLoop]
  | cons x l ih =>
    obtain ⟨id, p⟩ := x
    simp only [sendStoredLoop]
    split
    · have := ih (releaseIfUsed c id); simp_all
    · simp only []
      split
      · split
        · have := ih (({ c.setPanic "core.rs:send_stored:publish_send_count+=1" with s := { (c.setPanic "core.rs:send_stored:publish_send_count+=1").s with sendCount := ((c.setPanic "core.rs:send_stored:publish_send_count+=1").s.sendCount + 1) % 4294967296 } } : C).push (.send p none))
          simp_all
        · have := ih (({ c with s := { c.s with sendCount := (c.s.sendCount + 1) % 4294967296 } } : C).push (.send p none))
          simp_all
      · have := ih (c.push (.send p none)); simp_all

@[simp] theorem sendStored_tv (c : C) : sameTV(sendStored c, c) := by
  simp only [sendStored]
  split
  · have := sendStoredLoop_tv ({ c with s := { c.s with sendCount := 0 } } : C) c.s.store
    simp_all
  · have := sendStoredLoop_tv c c.s.store
    simp_all

@[simp] theorem releaseAll_tv (c : C) (l : List Nat) : sameTV(releaseAll c l, c) := by
  induction l generalizing c with
  | nil => simp [releaseAll]
  | cons x l ih => have := ih (releaseIfUsed c x); simp_all [releaseAll]

@[simp] theorem acquire_tv (c : C) : sameTV((acquire c).2, c) := by simp [acquire]
@[simp] theorem register_tv (c : C) (id : Nat) : sameTV((register c id).2, c) := by simp [register]

@[simp] theorem eraseStoredPublish_tv (c : C) (id : Nat) : sameTV(eraseStoredPublish c id, c) := by
  simp only [eraseStoredPublish]; split <;> simp

@[simp] theorem restoreOne_tv (c : C) (p : Pkt) : sameTV(restoreOne c p, c) := by
  simp only [restoreOne]; (repeat' split) <;> simp
  all_goals ((repeat' split) <;> simp)

@[simp] theorem restorePackets_tv (c : C) (l : List Pkt) : sameTV(restorePackets c l, c) := by
  induction l generalizing c with
  | nil => simp [restorePackets]
  | cons x l ih => have := ih (restoreOne c x); simp_all [restorePackets]

/-- `initialize` resets the interval sources but neither the flags nor the status -/
@[simp] theorem initConn_tv (c : C) (b : Bool) :
    (initConn c b).cfg = c.cfg ∧ (initConn c b).ev = c.ev ∧ (initConn c b).s.sendSet = c.s.sendSet ∧
    (initConn c b).s.recvSet = c.s.recvSet ∧ (initConn c b).s.respSet = c.s.respSet ∧
    (initConn c b).s.status = c.s.status ∧ (initConn c b).s.isClient = b ∧
    (initConn c b).s.userInterval = c.s.userInterval ∧ (initConn c b).s.keepAliveMs = 0 ∧
    (initConn c b).s.serverKeepAliveMs = none ∧ (initConn c b).s.recvTimeoutMs = 0 ∧
    (initConn c b).s.respTimeoutMs = c.s.respTimeoutMs ∧ (initConn c b).s.ver = c.s.ver := by
  simp [initConn]

/-! ## the functions that touch the timers -/

macro "frame_inv" h:term : tactic =>
  `(tactic| first
    | (refine Inv.frame $h ?_ ?_ ?_ <;> (simp [flagsOf]; done))
    | (refine Inv0.frame $h ?_ ?_ ?_ <;> (simp [flagsOf]; done)))


theorem Inv.push {a P c} (h : Inv a P c) (e : Ev) (he : isTimerEv e = false) : Inv a P (c.push e) :=
  h.frame (by simp [he]) rfl (by simp)
theorem Inv0.push {a P c} (h : Inv0 a P c) (e : Ev) (he : isTimerEv e = false) : Inv0 a P (c.push e) :=
  h.frame (by simp [he]) rfl (by simp)
theorem Inv.err {a P c} (h : Inv a P c) (e : Nat) : Inv a P (c.err e) := h.push _ rfl
theorem Inv0.err {a P c} (h : Inv0 a P c) (e : Nat) : Inv0 a P (c.err e) := h.push _ rfl

@[simp] theorem cancelTimers_tv (c : C) :
    (cancelTimers c).cfg = c.cfg ∧ (cancelTimers c).s.sendSet = false ∧
    (cancelTimers c).s.recvSet = false ∧ (cancelTimers c).s.respSet = false ∧
    (cancelTimers c).s.status = c.s.status ∧ (cancelTimers c).s.isClient = c.s.isClient ∧
    (cancelTimers c).s.userInterval = c.s.userInterval ∧ (cancelTimers c).s.keepAliveMs = c.s.keepAliveMs ∧
    (cancelTimers c).s.serverKeepAliveMs = c.s.serverKeepAliveMs ∧
    (cancelTimers c).s.recvTimeoutMs = c.s.recvTimeoutMs ∧ (cancelTimers c).s.respTimeoutMs = c.s.respTimeoutMs ∧
    (cancelTimers c).s.ver = c.s.ver := by
  unfold cancelTimers
  cases h1 : c.s.sendSet <;> cases h2 : c.s.recvSet <;> cases h3 : c.s.respSet <;> simp [h1, h2, h3]

theorem cancelTimers_inv0 {a P c} (hg : timersStep a (tev c.ev) = some (flagsOf c.s))
    (hn : anyReset (tev c.ev) = false) : Inv0 a P (cancelTimers c) := by
  unfold cancelTimers
  cases h1 : c.s.sendSet <;> cases h2 : c.s.recvSet <;> cases h3 : c.s.respSet <;>
    simp [h1, h2, h3] <;> constructor <;>
    simp_all [timersStep_append, flagsOf, timersStep, Armed.get, Armed.set, unarmed, anyReset]

/-- the interval `send_post_process` uses: override, then Server Keep Alive, then keep-alive -/
def pingInterval (s : St) : Nat :=
  match s.userInterval with
  | some t => t
  | none => match s.serverKeepAliveMs with
    | some t => t
    | none => s.keepAliveMs

theorem sendPostProcess_eq (c : C) : sendPostProcess c =
    if c.s.isClient ∧ pingInterval c.s > 0 then
      ({ c with s := { c.s with sendSet := true } }).push (.timerReset .pingreqSend (pingInterval c.s))
    else c := by
  have e : sendPostProcess c = if c.s.isClient then
      (if pingInterval c.s > 0 then
        ({ c with s := { c.s with sendSet := true } }).push (.timerReset .pingreqSend (pingInterval c.s))
       else c) else c := rfl
  rw [e]
  by_cases h : c.s.isClient = true
  · by_cases h2 : pingInterval c.s > 0
    · rw [if_pos h, if_pos h2, if_pos ⟨h, h2⟩]
    · rw [if_pos h, if_neg h2, if_neg (fun x => h2 x.2)]
  · rw [if_neg h, if_neg (fun x => h x.1)]

@[simp] theorem sendPostProcess_tv (c : C) :
    (sendPostProcess c).cfg = c.cfg ∧
    (sendPostProcess c).s.recvSet = c.s.recvSet ∧ (sendPostProcess c).s.respSet = c.s.respSet ∧
    (sendPostProcess c).s.status = c.s.status ∧ (sendPostProcess c).s.isClient = c.s.isClient ∧
    (sendPostProcess c).s.userInterval = c.s.userInterval ∧ (sendPostProcess c).s.keepAliveMs = c.s.keepAliveMs ∧
    (sendPostProcess c).s.serverKeepAliveMs = c.s.serverKeepAliveMs ∧
    (sendPostProcess c).s.recvTimeoutMs = c.s.recvTimeoutMs ∧ (sendPostProcess c).s.respTimeoutMs = c.s.respTimeoutMs ∧
    (sendPostProcess c).s.ver = c.s.ver := by
  rw [sendPostProcess_eq]; split <;> simp

theorem spp_inv {a P c} (h : Inv a P c) (hs : c.s.status ≠ .disconnected) :
    Inv a P (sendPostProcess c) := by
  rw [sendPostProcess_eq]; split
  · constructor
    · simp [timersStep_append, h.g, timersStep, flagsOf, Armed.set]
    · intro _ q; exact absurd q hs
    · intro _ q; exact absurd q hs
  · exact h

@[simp] theorem refreshPingreqRecv_tv (c : C) :
    (refreshPingreqRecv c).cfg = c.cfg ∧
    (refreshPingreqRecv c).s.sendSet = c.s.sendSet ∧ (refreshPingreqRecv c).s.respSet = c.s.respSet ∧
    (refreshPingreqRecv c).s.status = c.s.status ∧ (refreshPingreqRecv c).s.isClient = c.s.isClient ∧
    (refreshPingreqRecv c).s.userInterval = c.s.userInterval ∧ (refreshPingreqRecv c).s.keepAliveMs = c.s.keepAliveMs ∧
    (refreshPingreqRecv c).s.serverKeepAliveMs = c.s.serverKeepAliveMs ∧
    (refreshPingreqRecv c).s.recvTimeoutMs = c.s.recvTimeoutMs ∧ (refreshPingreqRecv c).s.respTimeoutMs = c.s.respTimeoutMs ∧
    (refreshPingreqRecv c).s.ver = c.s.ver := by
  unfold refreshPingreqRecv; split <;> simp

theorem refresh_inv {a P c} (h : Inv a P c) : Inv a P (refreshPingreqRecv c) := by
  unfold refreshPingreqRecv; split
  · rename_i hc
    constructor
    · simp [timersStep_append, h.g, timersStep, flagsOf, Armed.set]
    · intro _ q; exact absurd q hc.2
    · intro _ q; exact absurd q hc.2
  · exact h

/-- fix 999e935: `send_stored` followed, when something was resent, by the keep-alive re-arm -/
theorem resendStored_inv {a P c} (h : Inv a P c) (hs : c.s.status ≠ .disconnected) :
    Inv a P (resendStored c) :=
  resendStored_ind (Q := fun x => Inv a P x) c (by frame_inv h)
    (fun h' => spp_inv h' (by simpa using hs))

/-! ## process_send_* -/

/-- close `Inv a P (f …)` goals whose branches are frames or end in `sendPostProcess` -/
macro "inv_cases" h:term : tactic =>
  `(tactic| ((repeat' (first | split | simp only [])) <;> first
    | frame_inv $h
    | (refine spp_inv ?_ ?_ <;> (repeat' split) <;> first | frame_inv $h | (simp_all; done))))

theorem psV5Disconnect_inv0 {a P c} (h : Inv0 a P c) (p : Pkt) : Inv0 a P (psV5Disconnect c p) := by
  unfold psV5Disconnect; (repeat' split)
  · exact h.err _
  · exact h.err _
  · exact ((cancelTimers_inv0 (by simpa [flagsOf] using h.g) (by simpa using h.n0)).push _ rfl).push _ rfl

theorem psV3Disconnect_inv0 {a P c} (h : Inv0 a P c) (p : Pkt) : Inv0 a P (psV3Disconnect c p) := by
  unfold psV3Disconnect; (repeat' split)
  · exact h.err _
  · exact ((cancelTimers_inv0 (by simpa [flagsOf] using h.g) (by simpa using h.n0)).push _ rfl).push _ rfl

theorem handleV3Error_inv0 {a P c} (h : Inv0 a P c) (e : Nat) : Inv0 a P (handleV3Error c e) :=
  (h.push _ rfl).err _

theorem v5DisconnectOrClose_inv0 {a P c} (h : Inv0 a P c) (p : Pkt) : Inv0 a P (v5DisconnectOrClose c p) := by
  unfold v5DisconnectOrClose; split
  · exact (cancelTimers_inv0 (by simpa [flagsOf] using h.g) (by simpa using h.n0)).push _ rfl
  · exact psV5Disconnect_inv0 h p

theorem handleV5Error_inv0 {a P c} (h : Inv0 a P c) (e : Nat) : Inv0 a P (handleV5Error c e) :=
  (v5DisconnectOrClose_inv0 h _).err _

theorem vErr_inv0 {a P c} (h : Inv0 a P c) (e : Nat) : Inv0 a P (vErr c e) := by
  unfold vErr; split
  · exact handleV3Error_inv0 h e
  · exact handleV5Error_inv0 h e

theorem psV3Connect_inv {a P c} (h : Inv a P c) (p : Pkt) : Inv a P (psV3Connect c p) := by
  unfold psV3Connect; (repeat' split)
  · exact h.err _
  · exact spp_inv (by frame_inv h) (by simp)
  · exact spp_inv (by frame_inv h) (by simp)

theorem psV5Connect_inv {a P c} (h : Inv a P c) (p : Pkt) : Inv a P (psV5Connect c p) := by
  unfold psV5Connect; (repeat' split)
  · exact h.err _
  · exact h.err _
  · exact spp_inv (by frame_inv h) (by simp)
  · exact spp_inv (by frame_inv h) (by simp)

theorem psV3Connack_inv {a P c} (h : Inv0 a P c) (p : Pkt) : Inv a P (psV3Connack c p) := by
  unfold psV3Connack; (repeat' split)
  · exact (h.err _).inv
  · exact ((cancelTimers_inv0 (by simpa [flagsOf] using h.g) (by simpa using h.n0)).push _ rfl).inv
  · exact spp_inv (by frame_inv h.inv) (by simp)
  · exact spp_inv (by frame_inv h.inv) (by simp)

@[simp] theorem connackSendProp_tv (c : C) (id v : Nat) :
    (connackSendProp c id v).cfg = c.cfg ∧
    (connackSendProp c id v).s.status = c.s.status ∧ (connackSendProp c id v).s.isClient = c.s.isClient := by
  unfold connackSendProp; (repeat' split) <;> simp

theorem connackSendProp_inv {a P c} (h : Inv a P c) (hs : c.s.status ≠ .disconnected) (id v : Nat) :
    Inv a P (connackSendProp c id v) := by
  unfold connackSendProp; (repeat' split)
  all_goals first
    | frame_inv h
    | (rename_i hr
       constructor
       · simp [timersStep_append, h.g, timersStep, flagsOf, Armed.set, Armed.get, hr]
       · intro _ q; exact absurd q hs
       · intro _ q; exact absurd q hs)
    | (constructor
       · simp [timersStep_append, h.g, timersStep, flagsOf, Armed.set]
       · intro _ q; exact absurd q hs
       · intro _ q; exact absurd q hs)

theorem propsFold_connackSendProp_inv {a P c} (h : Inv a P c) (hs : c.s.status ≠ .disconnected)
    (l : List (Nat × Nat)) :
    Inv a P (propsFold connackSendProp c l) ∧ (propsFold connackSendProp c l).s.status = c.s.status ∧
    (propsFold connackSendProp c l).cfg = c.cfg := by
  induction l generalizing c with
  | nil => exact ⟨h, rfl, rfl⟩
  | cons x l ih =>
    obtain ⟨id, v⟩ := x
    simp only [propsFold]
    have := ih (connackSendProp_inv h hs id v) (by simpa using hs)
    simpa using this

theorem psV5Connack_inv {a P c} (h : Inv0 a P c) (p : Pkt) : Inv a P (psV5Connack c p) := by
  unfold psV5Connack
  split
  · exact (h.err _).inv
  split
  · exact (h.err _).inv
  rename_i hs
  have hs' : c.s.status ≠ .disconnected := by simp at hs; simp [hs]
  by_cases hr : p.rc = some 0
  · simp only [hr, if_true, ne_eq, not_true_eq_false, if_false]
    obtain ⟨h1, h2, h3⟩ := propsFold_connackSendProp_inv h.inv hs' p.props
    split
    · exact spp_inv (by frame_inv h1) (by simp)
    · exact spp_inv (by frame_inv h1) (by simp)
  · simp only [hr, if_false, ne_eq, not_false_eq_true, if_true]
    exact ((cancelTimers_inv0 (by simpa [flagsOf] using h.g) (by simpa using h.n0)).push _ rfl).inv

theorem psV3Publish_inv {a P c} (h : Inv a P c) (p : Pkt) : Inv a P (psV3Publish c p) := by
  by_cases hw : willStore c.s = true <;> by_cases hq : p.qos = 2 <;>
    simp only [psV3Publish, hw, hq, if_true, if_false] <;> inv_cases h

theorem psV3Simple_inv {a P c} (h : Inv a P c) (p : Pkt) : Inv a P (psV3Simple c p) := by
  unfold psV3Simple; inv_cases h

theorem psV5Simple_inv {a P c} (h : Inv a P c) (p : Pkt) : Inv a P (psV5Simple c p) := by
  unfold psV5Simple; inv_cases h

theorem psV5Puback_inv {a P c} (h : Inv a P c) (p : Pkt) : Inv a P (psV5Puback c p) := by
  unfold psV5Puback; inv_cases h

theorem psV5Pubrec_inv {a P c} (h : Inv a P c) (p : Pkt) : Inv a P (psV5Pubrec c p) := by
  rcases hrc : p.rc with _ | rc
  · simp only [psV5Pubrec, hrc]; inv_cases h
  · by_cases hf : rc ≥ 0x80 <;> simp only [psV5Pubrec, hrc, hf, decide_true, decide_false] <;> inv_cases h

theorem psV5Pubcomp_inv {a P c} (h : Inv a P c) (p : Pkt) : Inv a P (psV5Pubcomp c p) :=
  psV5Puback_inv h p

theorem psPubrel_inv {a P c} (h : Inv a P c) (p : Pkt) : Inv a P (psPubrel c p) := by
  by_cases hn : c.s.needStore = true <;> simp only [psPubrel, hn] <;> inv_cases h

theorem psSubUnsub_inv {a P c} (h : Inv a P c) (p : Pkt) : Inv a P (psSubUnsub c p) := by
  unfold psSubUnsub; inv_cases h

theorem psV5Auth_inv {a P c} (h : Inv a P c) (p : Pkt) : Inv a P (psV5Auth c p) := by
  unfold psV5Auth; inv_cases h

theorem psV5PublishTail_inv {a P c} (h : Inv a P c) (p : Pkt) (rel : Option Nat) :
    Inv a P (psV5PublishTail c p rel) := by
  by_cases h1 : p.qos > 0 ∧ c.s.sendMax.isSome = true <;> by_cases h2 : c.s.sendCount ≥ 4294967295 <;>
    simp only [psV5PublishTail, h1, h2, if_true, if_false] <;> inv_cases h

theorem psV5PublishAlias_inv {a P c} (h : Inv a P c) (p : Pkt) (rel : Option Nat) (v : Bool) :
    Inv a P (psV5PublishAlias c p rel v) := by
  unfold psV5PublishAlias
  (repeat' (first | split | simp only []))
  all_goals first
    | frame_inv h
    | (apply psV5PublishTail_inv; (repeat' split) <;> frame_inv h)

theorem psV5Publish_inv {a P c} (h : Inv a P c) (p : Pkt) : Inv a P (psV5Publish c p) := by
  unfold psV5Publish
  (repeat' (first | split | simp only []))
  all_goals first
    | frame_inv h
    | (apply psV5PublishAlias_inv; (repeat' split) <;> frame_inv h)

theorem psPingreq_inv {a P c} (h : Inv a P c) (p : Pkt) : Inv a P (psPingreq c p) := by
  unfold psPingreq
  split
  · exact h.err _
  split
  · exact h.err _
  rename_i hs
  have hs' : c.s.status ≠ .disconnected := by simp at hs; simp [hs]
  by_cases hr : c.s.respTimeoutMs = 0
  · simp only [push_s, ne_eq, hr, not_true_eq_false, if_false]
    exact spp_inv (h.push _ rfl) (by simpa using hs')
  · simp only [push_s, ne_eq, hr, not_false_eq_true, if_true]
    refine spp_inv ?_ (by simpa using hs')
    constructor
    · simp [timersStep_append, h.g, timersStep, flagsOf, Armed.set]
    · intro _ q; exact absurd q hs'
    · intro _ q; exact absurd q hs'

theorem processSend_inv {a P c} (h : Inv0 a P c) (p : Pkt) : Inv a P (processSend c p) := by
  unfold processSend
  split
  · split
    · exact psV3Connect_inv h.inv p
    · exact psV3Connack_inv h p
    · exact psV3Publish_inv h.inv p
    · exact psPubrel_inv h.inv p
    · exact psSubUnsub_inv h.inv p
    · exact psSubUnsub_inv h.inv p
    · exact psPingreq_inv h.inv p
    · exact (psV3Disconnect_inv0 h p).inv
    · exact h.inv
    · exact psV3Simple_inv h.inv p
  · split
    · exact psV5Connect_inv h.inv p
    · exact psV5Connack_inv h p
    · exact psV5Publish_inv h.inv p
    · exact psV5Puback_inv h.inv p
    · exact psV5Pubrec_inv h.inv p
    · exact psPubrel_inv h.inv p
    · exact psV5Pubcomp_inv h.inv p
    · exact psSubUnsub_inv h.inv p
    · exact psSubUnsub_inv h.inv p
    · exact psPingreq_inv h.inv p
    · exact (psV5Disconnect_inv0 h p).inv
    · exact psV5Auth_inv h.inv p
    · exact psV5Simple_inv h.inv p

theorem send_inv {a P c} (h : Inv0 a P c) (p : Pkt) : Inv a P (send c p) := by
  unfold send; (repeat' split)
  · exact (by frame_inv h : Inv0 a P (refuseSend c _ p)).inv
  · exact (by frame_inv h : Inv0 a P (refuseSend c _ p)).inv
  · exact processSend_inv h p

end MqttVerif.Conn
