import MqttVerif.Conn.Lemmas.FrameP6r
/-!
# Event-level specifications shared by C12 and C13 (agent P6): error handling, `send_stored`
-/
set_option linter.unusedSimpArgs false
set_option linter.unusedVariables false
namespace MqttVerif.Conn
open MqttVerif

/-! ## `cancel_timers`, the v5.0 error path -/

def IsTimerCancel (e : Ev) : Prop := ∃ k, e = .timerCancel k

def tcOf (s : St) : List Ev :=
  (if s.sendSet then [.timerCancel .pingreqSend] else []) ++
  (if s.recvSet then [.timerCancel .pingreqRecv] else []) ++
  (if s.respSet then [.timerCancel .pingrespRecv] else [])

theorem cancelTimers_ev' (c : C) : (cancelTimers c).ev = c.ev ++ tcOf c.s := by
  unfold cancelTimers tcOf; dsimp only
  (repeat' split) <;> simp_all

theorem cancelTimers_ev (c : C) :
    ∃ tc, (cancelTimers c).ev = c.ev ++ tc ∧ ∀ x ∈ tc, IsTimerCancel x := by
  refine ⟨tcOf c.s, cancelTimers_ev' c, ?_⟩
  intro x hx
  unfold tcOf at hx
  simp only [List.mem_append] at hx
  rcases hx with (hx | hx) | hx <;> (split at hx <;> simp at hx <;> exact ⟨_, hx⟩)

theorem cancelTimers_s_status (c : C) : (cancelTimers c).s.status = c.s.status := by simp

/-- while connected, an error ends in DISCONNECT(reason) + close (or just close when the peer's
    Maximum Packet Size does not allow the DISCONNECT), then the error notification -/
theorem handleV5Error_connected (c : C) (e : Nat) (h : c.s.status = .connected) :
    (handleV5Error c e).s.status = .disconnected ∧
    ∃ tc, (∀ x ∈ tc, IsTimerCancel x) ∧
      (handleV5Error c e).ev = c.ev ++ tc ++
        (if sizeOk c (mkV5Disconnect (errToDisconnectRc e)) then
          [.send (mkV5Disconnect (errToDisconnectRc e)) none, .close] else [.close]) ++ [.error e] := by
  unfold handleV5Error v5DisconnectOrClose
  by_cases hs : sizeOk c (mkV5Disconnect (errToDisconnectRc e)) = true
  · simp only [h, hs, Bool.not_true, Bool.false_eq_true, and_false, if_false, if_true]
    unfold psV5Disconnect
    simp only [hs, Bool.not_true, Bool.false_eq_true, if_false, h, ne_eq, not_true_eq_false]
    obtain ⟨tc, h1, h2⟩ := cancelTimers_ev { c with s := { c.s with status := .disconnected } }
    refine ⟨by simp, tc, h2, ?_⟩
    simp [h1]
  · simp only [h, hs, Bool.not_false, and_self, if_true, Bool.false_eq_true, if_false]
    obtain ⟨tc, h1, h2⟩ := cancelTimers_ev { c with s := { c.s with status := .disconnected } }
    refine ⟨by simp, tc, h2, ?_⟩
    simp [h1]

/-- while not connected an error only produces notifications -/
theorem handleV5Error_not_connected (c : C) (e : Nat) (h : c.s.status ≠ .connected) :
    (handleV5Error c e).s = c.s ∧
    (handleV5Error c e).ev = c.ev ++
      [.error (if sizeOk c (mkV5Disconnect (errToDisconnectRc e)) then eNotAllowed else eTooLarge), .error e] := by
  unfold handleV5Error v5DisconnectOrClose psV5Disconnect
  by_cases hs : sizeOk c (mkV5Disconnect (errToDisconnectRc e)) = true <;> simp [h, hs]

/-! ## `send_stored`: what is resent, how it is counted -/

def storeEvs (l : List (Nat × Pkt)) : List Ev := l.map (fun e => Ev.send e.2 none)

/-- the abandoned exchange of an oversize stored packet leaves no wait-set entry -/
def dropWait (c : C) (id : Nat) : C :=
  { c with s := { c.s with puback := del id c.s.puback, pubrec := del id c.s.pubrec,
                            pubcomp := del id c.s.pubcomp } }

/-- one resent entry is counted against the peer's Receive Maximum -/
def countOne (c : C) : C :=
  if c.s.sendMax.isSome then
    (if c.s.sendCount ≥ 4294967295 then c.setPanic "core.rs:send_stored:publish_send_count+=1" else c)
    |> fun c => { c with s := { c.s with sendCount := (c.s.sendCount + 1) % 4294967296 } }
  else c

theorem sendStoredLoop_cons (c : C) (id : Nat) (p : Pkt) (rest : List (Nat × Pkt)) :
    sendStoredLoop c ((id, p) :: rest) =
      if p.sz c.cfg.pw > c.s.mpsSend then sendStoredLoop (releaseIfUsed (dropWait c id) id) rest
      else ((sendStoredLoop ((countOne c).push (.send p none)) rest).1,
            (id, p) :: (sendStoredLoop ((countOne c).push (.send p none)) rest).2) := by
  rfl

@[simp] theorem dropWait_cfg (c : C) (id : Nat) : (dropWait c id).cfg = c.cfg := rfl
@[simp] theorem dropWait_ev (c : C) (id : Nat) : (dropWait c id).ev = c.ev := rfl
@[simp] theorem dropWait_sendMax (c : C) (id : Nat) : (dropWait c id).s.sendMax = c.s.sendMax := rfl
@[simp] theorem dropWait_sendCount (c : C) (id : Nat) : (dropWait c id).s.sendCount = c.s.sendCount := rfl
@[simp] theorem dropWait_panic (c : C) (id : Nat) : (dropWait c id).s.panic = c.s.panic := rfl
@[simp] theorem dropWait_mpsSend (c : C) (id : Nat) : (dropWait c id).s.mpsSend = c.s.mpsSend := rfl
@[simp] theorem countOne_cfg (c : C) : (countOne c).cfg = c.cfg := by
  unfold countOne; (repeat' split) <;> rfl
@[simp] theorem countOne_ev (c : C) : (countOne c).ev = c.ev := by
  unfold countOne; (repeat' split) <;> rfl
@[simp] theorem countOne_sendMax (c : C) : (countOne c).s.sendMax = c.s.sendMax := by
  unfold countOne; (repeat' split) <;> rfl
@[simp] theorem countOne_mpsSend (c : C) : (countOne c).s.mpsSend = c.s.mpsSend := by
  unfold countOne; (repeat' split) <;> rfl
theorem countOne_none (c : C) (h : c.s.sendMax = none) : countOne c = c := by
  unfold countOne; simp [h]
theorem countOne_some (c : C) (h : c.s.sendMax.isSome) (hlt : c.s.sendCount < 4294967295) :
    (countOne c).s.sendCount = c.s.sendCount + 1 ∧ (countOne c).s.panic = c.s.panic := by
  unfold countOne
  have h1 : ¬ c.s.sendCount ≥ 4294967295 := by omega
  have h2 : (c.s.sendCount + 1) % 4294967296 = c.s.sendCount + 1 := Nat.mod_eq_of_lt (by omega)
  simp [h, h1, h2]

theorem sendStoredLoop_sub (c : C) (l : List (Nat × Pkt)) : (sendStoredLoop c l).2.Sublist l := by
  induction l generalizing c with
  | nil => simp [sendStoredLoop]
  | cons e rest ih =>
    obtain ⟨id, p⟩ := e
    rw [sendStoredLoop_cons]
    split
    · exact (ih _).cons _
    · exact (ih _).cons_cons _

theorem sendStoredLoop_pubs (c : C) (l : List (Nat × Pkt)) :
    pubs (sendStoredLoop c l).1.ev = pubs c.ev ++ pubs (storeEvs (sendStoredLoop c l).2) := by
  induction l generalizing c with
  | nil => simp [sendStoredLoop, storeEvs]
  | cons e rest ih =>
    obtain ⟨id, p⟩ := e
    rw [sendStoredLoop_cons]
    split
    · rw [ih]; simp
    · dsimp only
      rw [ih]
      simp [storeEvs]

/-- all stored entries fit: nothing is dropped -/
theorem sendStoredLoop_all (c : C) (l : List (Nat × Pkt)) (h : ∀ e ∈ l, e.2.sz c.cfg.pw ≤ c.s.mpsSend) :
    (sendStoredLoop c l).2 = l := by
  induction l generalizing c with
  | nil => simp [sendStoredLoop]
  | cons e rest ih =>
    obtain ⟨id, p⟩ := e
    rw [sendStoredLoop_cons]
    have hp := h (id, p) (by simp)
    simp only at hp
    rw [if_neg (by omega)]
    dsimp only
    rw [ih]
    intro e he
    simpa using h e (by simp [he])

/-- counting: without Receive Maximum nothing is counted -/
theorem sendStoredLoop_count_none (c : C) (l : List (Nat × Pkt)) (h : c.s.sendMax = none) :
    (sendStoredLoop c l).1.s.sendCount = c.s.sendCount ∧
      cpOf (sendStoredLoop c l).1.s.panic = cpOf c.s.panic := by
  induction l generalizing c with
  | nil => simp [sendStoredLoop]
  | cons e rest ih =>
    obtain ⟨id, p⟩ := e
    rw [sendStoredLoop_cons]
    split
    · have := ih (releaseIfUsed (dropWait c id) id) (by simpa using h)
      simpa using this
    · dsimp only
      rw [countOne_none c h]
      have := ih (c.push (.send p none)) (by simpa using h)
      simpa using this

/-- counting: every resent entry is counted once; no wrap while the total stays ≤ 4294967295 -/
theorem sendStoredLoop_count (c : C) (l : List (Nat × Pkt)) (h : c.s.sendMax.isSome)
    (hb : c.s.sendCount + (sendStoredLoop c l).2.length ≤ 4294967295) :
    (sendStoredLoop c l).1.s.sendCount = c.s.sendCount + (sendStoredLoop c l).2.length ∧
      cpOf (sendStoredLoop c l).1.s.panic = cpOf c.s.panic := by
  induction l generalizing c with
  | nil => simp [sendStoredLoop]
  | cons e rest ih =>
    obtain ⟨id, p⟩ := e
    rw [sendStoredLoop_cons] at hb ⊢
    split
    · rename_i hsz
      rw [if_pos hsz] at hb
      have := ih (releaseIfUsed (dropWait c id) id) (by simpa using h) (by simpa using hb)
      simpa using this
    · rename_i hsz
      rw [if_neg hsz] at hb
      dsimp only at hb ⊢
      simp only [List.length_cons] at hb ⊢
      obtain ⟨h1, h2⟩ := countOne_some c h (by omega)
      have := ih ((countOne c).push (.send p none)) (by simpa using h) (by simp only [push_s]; omega)
      simp only [push_s] at this
      constructor
      · rw [this.1, h1]; omega
      · rw [this.2, h2]

/-! ## the Receive-Maximum gate of `process_send_v5_0_publish` -/

/-- the send gate: a QoS>0 PUBLISH while `publish_send_count ≥ publish_send_max` -/
def sendBlocked (s : St) (p : Pkt) : Bool :=
  decide (p.qos > 0) && (match s.sendMax with | some m => decide (s.sendCount ≥ m) | none => false)

theorem psV5PublishAlias_eq (c : C) (p : Pkt) (rel : Option Nat) (validated : Bool) :
    psV5PublishAlias c p rel validated =
      if sendBlocked c.s p then pubRefuseCleanup (c.err eRMExceeded) p.pid
      else if p.topic.isEmpty then
        if !validated ∧ (if validated then (some [], c) else validateTopicAlias c p.alias).1.isNone then
          pubRefuseCleanup ((if validated then (some [], c) else validateTopicAlias c p.alias).2.err eNotAllowed) p.pid
        else psV5PublishTail (if validated then (some [], c) else validateTopicAlias c p.alias).2 p rel
      else match p.alias with
        | some a =>
          if validateTopicAliasRange c.s a then
            psV5PublishTail (if c.s.status = .connected then
              tasInsert c p.topic a "topic_alias_send.rs:insert_or_update:assert" else c) p rel
          else pubRefuseCleanup (c.err eNotAllowed) p.pid
        | none => psV5PublishTail (autoAlias c p).1 (autoAlias c p).2 rel := by
  rfl

end MqttVerif.Conn
