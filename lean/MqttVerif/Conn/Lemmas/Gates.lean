import MqttVerif.Conn.Step
import MqttVerif.Spec.Gates
import MqttVerif.Props.C20
/-!
# Helper lemmas for C11 (send gate) and C17 (receive gate)

Per-function refusal lemmas: every `process_send_*` returns *before any write* when its
connection-state test (or, for v5.0, the size test that precedes it) fails.
-/
set_option linter.unusedSimpArgs false
set_option linter.unusedVariables false
namespace MqttVerif.Conn
open MqttVerif

/-! ## small frame lemmas -/

@[simp] theorem C.err_s (c : C) (e : Nat) : (c.err e).s = c.s := rfl
@[simp] theorem C.err_cfg (c : C) (e : Nat) : (c.err e).cfg = c.cfg := rfl
@[simp] theorem C.err_ev (c : C) (e : Nat) : (c.err e).ev = c.ev ++ [.error e] := rfl
@[simp] theorem C.push_s (c : C) (e : Ev) : (c.push e).s = c.s := rfl
@[simp] theorem C.push_cfg (c : C) (e : Ev) : (c.push e).cfg = c.cfg := rfl
@[simp] theorem C.push_ev (c : C) (e : Ev) : (c.push e).ev = c.ev ++ [e] := rfl

/-- the state after "release `id` if it is in use": only the allocator changes (and the sticky
    panic field if the allocator's own assertion fails — excluded by `Alloc.R`, see
    `releasedState_of_R`) -/
def releasedState (s : St) (id : Nat) : St :=
  if isUsed s id then
    let r := Alloc.deallocate s.pidMan id
    { s with pidMan := r.2,
             panic := match r.1 with | none => s.panic | some site => some (s.panic.getD site) }
  else s

def releasedEv (s : St) (id : Nat) : List Ev := if isUsed s id then [.released id] else []

theorem releaseIfUsed_eq (c : C) (id : Nat) :
    releaseIfUsed c id = { c with s := releasedState c.s id, ev := c.ev ++ releasedEv c.s id } := by
  unfold releaseIfUsed releasedState releasedEv
  by_cases h : isUsed c.s id = true
  · simp only [h, if_true, releaseId, C.push, C.setPanic]
    cases hd : (Alloc.deallocate c.s.pidMan id).1 <;> simp [hd]
  · simp [h]

/-- what `release_packet_id` (fix ba1a812) does beyond freeing the identifier: the exchange the
    identifier was obtained for is abandoned -/
def abandonExchange (s : St) (id : Nat) : St :=
  let s' : St := { s with suback := del id s.suback, unsuback := del id s.unsuback, puback := del id s.puback, pubrec := del id s.pubrec }
  if (id ∈ s.puback ∨ id ∈ s.pubrec) ∧ s.sendMax.isSome ∧ s.sendCount > 0 then { s' with sendCount := s.sendCount - 1 } else s'

/-- the state after `release_packet_id(id)` -/
def releasedStateP (s : St) (id : Nat) : St :=
  if isUsed s id then abandonExchange (releasedState s id) id else s

theorem releasePacketId_eqP (c : C) (id : Nat) :
    releasePacketId c id = { c with s := releasedStateP c.s id, ev := c.ev ++ releasedEv c.s id } := by
  unfold releasedStateP releasedEv
  by_cases h : isUsed c.s id = true
  · have e : (releaseId c id).push (.released id) =
        { c with s := releasedState c.s id, ev := c.ev ++ [.released id] } := by
      have := releaseIfUsed_eq c id
      unfold releaseIfUsed releasedEv at this
      simpa only [h, if_true] using this
    unfold releasePacketId
    simp only [h, if_true]
    rw [e]
    unfold abandonExchange decSendCount
    simp only []
    by_cases ha : id ∈ (releasedState c.s id).puback ∨ id ∈ (releasedState c.s id).pubrec
    · by_cases hc : (releasedState c.s id).sendMax.isSome = true ∧ (releasedState c.s id).sendCount > 0
      · simp only [ha, hc, and_self, if_true]
      · simp only [ha, hc, and_false, if_true, if_false]
    · simp only [ha, false_and, if_false]
  · have h' : isUsed c.s id = false := by simpa using h
    unfold releasePacketId
    rw [h']
    simp only [Bool.false_eq_true, if_false, List.append_nil]

/-! ## per-function gate refusals -/

/-- the v5.0 size test (`MaximumPacketSize` of the peer); v3.1.1 functions have none -/
def tooLarge (c : C) (p : Pkt) : Bool := decide (p.ver = 5) && !sizeOk c p

theorem psV3Connect_refuse (c : C) (p : Pkt) (h : c.s.status ≠ .disconnected) :
    psV3Connect c p = c.err eNotAllowed := by
  unfold psV3Connect; rw [if_pos h]

theorem psV5Connect_refuse (c : C) (p : Pkt) (h : c.s.status ≠ .disconnected) :
    psV5Connect c p = c.err (if !sizeOk c p then eTooLarge else eNotAllowed) := by
  unfold psV5Connect; by_cases hs : sizeOk c p = true <;> simp [hs, h]

theorem psV3Connack_refuse (c : C) (p : Pkt) (h : c.s.status ≠ .connecting) :
    psV3Connack c p = c.err eNotAllowed := by
  unfold psV3Connack; rw [if_pos h]

theorem psV5Connack_refuse (c : C) (p : Pkt) (h : c.s.status ≠ .connecting) :
    psV5Connack c p = c.err (if !sizeOk c p then eTooLarge else eNotAllowed) := by
  unfold psV5Connack; by_cases hs : sizeOk c p = true <;> simp [hs, h]

theorem psV3Simple_refuse (c : C) (p : Pkt) (h : c.s.status ≠ .connected) :
    psV3Simple c p = c.err eNotAllowed := by
  unfold psV3Simple; rw [if_pos h]

theorem psV5Simple_refuse (c : C) (p : Pkt) (h : c.s.status ≠ .connected) :
    psV5Simple c p = c.err (if !sizeOk c p then eTooLarge else eNotAllowed) := by
  unfold psV5Simple; by_cases hs : sizeOk c p = true <;> simp [hs, h]

theorem psV5Puback_refuse (c : C) (p : Pkt) (h : c.s.status ≠ .connected) :
    psV5Puback c p = c.err (if !sizeOk c p then eTooLarge else eNotAllowed) := by
  unfold psV5Puback; by_cases hs : sizeOk c p = true <;> simp [hs, h]

theorem psV5Pubrec_refuse (c : C) (p : Pkt) (h : c.s.status ≠ .connected) :
    psV5Pubrec c p = c.err (if !sizeOk c p then eTooLarge else eNotAllowed) := by
  unfold psV5Pubrec; by_cases hs : sizeOk c p = true <;> simp [hs, h]

theorem psV5Pubcomp_refuse (c : C) (p : Pkt) (h : c.s.status ≠ .connected) :
    psV5Pubcomp c p = c.err (if !sizeOk c p then eTooLarge else eNotAllowed) :=
  psV5Puback_refuse c p h

theorem psV3Disconnect_refuse (c : C) (p : Pkt) (h : c.s.status ≠ .connected) :
    psV3Disconnect c p = c.err eNotAllowed := by
  unfold psV3Disconnect; rw [if_pos h]

theorem psV5Disconnect_refuse (c : C) (p : Pkt) (h : c.s.status ≠ .connected) :
    psV5Disconnect c p = c.err (if !sizeOk c p then eTooLarge else eNotAllowed) := by
  unfold psV5Disconnect; by_cases hs : sizeOk c p = true <;> simp [hs, h]

theorem psV5Auth_refuse (c : C) (p : Pkt) (h : c.s.status = .disconnected) :
    psV5Auth c p = c.err (if !sizeOk c p then eTooLarge else eNotAllowed) := by
  unfold psV5Auth; by_cases hs : sizeOk c p = true <;> simp [hs, h]

theorem psPingreq_refuse (c : C) (p : Pkt) (h : c.s.status ≠ .connected) :
    psPingreq c p = c.err (if tooLarge c p then eTooLarge else eNotAllowed) := by
  unfold psPingreq tooLarge
  by_cases hv : p.ver = 5 <;> by_cases hs : sizeOk c p = true <;> simp [hs, h, hv]

theorem psPubrel_refuse (c : C) (p : Pkt) (h : c.s.status ≠ .connected) (hn : c.s.needStore = false) :
    psPubrel c p = c.err (if tooLarge c p then eTooLarge else eNotAllowed) := by
  unfold psPubrel tooLarge
  by_cases hv : p.ver = 5 <;> by_cases hs : sizeOk c p = true <;> simp [hs, h, hv, hn]

theorem psSubUnsub_refuse (c : C) (p : Pkt) (h : c.s.status ≠ .connected) :
    psSubUnsub c p =
      releaseIfUsed (c.err (if tooLarge c p then eTooLarge else eNotAllowed)) (p.pid.getD 0) := by
  unfold psSubUnsub tooLarge
  by_cases hv : p.ver = 5 <;> by_cases hs : sizeOk c p = true <;> simp [hs, h, hv]

/-- QoS 0 -/
theorem psV3Publish_refuse0 (c : C) (p : Pkt) (hq : p.qos = 0) (h : c.s.status ≠ .connected) :
    psV3Publish c p = c.err eNotAllowed := by
  unfold psV3Publish; simp [hq, h]

/-- QoS 1/2 that would neither be sent nor stored -/
theorem psV3Publish_refuse (c : C) (p : Pkt) (id : Nat) (hq : p.qos > 0) (hid : p.pid = some id)
    (h : pubNotAllowed c.s = true) :
    psV3Publish c p = releaseIfUsed (c.err eNotAllowed) id := by
  unfold psV3Publish; simp [hq, hid, h]

theorem psV5Publish_tooLarge (c : C) (p : Pkt) (hs : sizeOk c p = false) :
    psV5Publish c p = match p.pid with
      | some id => releaseIfUsed (c.err eTooLarge) id
      | none => c.err eTooLarge := by
  unfold psV5Publish; cases hp : p.pid <;> simp [hs, hp]

theorem psV5Publish_refuse0 (c : C) (p : Pkt) (hs : sizeOk c p = true) (hq : p.qos = 0)
    (h : c.s.status ≠ .connected) :
    psV5Publish c p = c.err eNotAllowed := by
  unfold psV5Publish; simp [hs, hq, h]

theorem psV5Publish_refuse (c : C) (p : Pkt) (id : Nat) (hs : sizeOk c p = true) (hq : p.qos > 0)
    (hid : p.pid = some id) (h : pubNotAllowed c.s = true) :
    psV5Publish c p = releaseIfUsed (c.err eNotAllowed) id := by
  unfold psV5Publish; simp [hs, hq, hid, h]

/-- the model's `pubNotAllowed` in terms of the three flags -/
theorem pubNotAllowed_iff (s : St) :
    pubNotAllowed s = (s.status != .connected &&
      !(s.needStore && (s.status != .disconnected || s.offline))) := by
  unfold pubNotAllowed
  cases s.status <;> cases s.needStore <;> cases s.offline <;> decide

/-! ## the gate of `send` -/

/-- the model's run-time role test is the specification's direction rule -/
theorem roleMaySend_eq_spec (r : Role) (p : Pkt) :
    roleMaySend r p = Spec.roleMaySend r p.kind p.ver := by
  unfold roleMaySend Spec.roleMaySend
  cases r <;> cases p.kind <;> simp [Spec.actsAsClient, Spec.actsAsServer]

/-- error reported by a gate refusal -/
def gateError (c : C) (p : Pkt) : Nat :=
  if c.s.ver ≠ p.ver then eVersionMismatch
  else if Spec.roleMaySend c.cfg.role p.kind p.ver = false then eNotAllowed
  else if tooLarge c p then eTooLarge
  else eNotAllowed

/-- identifier released by a gate refusal (fix 1d0ef05: a version or role refusal releases the
    identifier of a PUBLISH / SUBSCRIBE / UNSUBSCRIBE as the per-kind refusals do) -/
def gateRelease (c : C) (p : Pkt) : Option Nat :=
  if c.s.ver ≠ p.ver ∨ Spec.roleMaySend c.cfg.role p.kind p.ver = false then initiatingId p
  else match p.kind with
    | .publish => if tooLarge c p ∨ p.qos > 0 then p.pid else none
    | .subscribe | .unsubscribe => some (p.pid.getD 0)
    | _ => none

theorem processSend_refused (c : C) (p : Pkt) (wf : Spec.PktWf p)
    (hst : Spec.stateMaySend c.s.status p.kind p.qos c.s.needStore c.s.offline = false) :
    processSend c p =
      (let e := if tooLarge c p then eTooLarge else eNotAllowed
       match (match p.kind with
              | .publish => if tooLarge c p ∨ p.qos > 0 then p.pid else none
              | .subscribe | .unsubscribe => some (p.pid.getD 0)
              | _ => none) with
       | none => c.err e
       | some id => releaseIfUsed (c.err e) id) := by
  rcases wf.ver with h4 | h5
  · have hv : ¬ p.ver = 5 := by omega
    have ht : tooLarge c p = false := by simp [tooLarge, hv]
    cases hk : p.kind <;> simp only [hk, Spec.stateMaySend] at hst <;>
      simp only [processSend, h4, hk, ht, if_true, Bool.false_eq_true, if_false, false_or]
    case connect => exact psV3Connect_refuse c p (by simpa using hst)
    case connack => exact psV3Connack_refuse c p (by simpa using hst)
    case publish =>
      by_cases hq : p.qos > 0
      · obtain ⟨id, hid⟩ := Option.isSome_iff_exists.mp (wf.pubId hk hq)
        simp only [hq, if_true, hid]
        refine psV3Publish_refuse c p id hq hid ?_
        rw [pubNotAllowed_iff]; simp [hq] at hst; cases hn : c.s.needStore <;> simp_all
      · have hq0 : p.qos = 0 := by omega
        simp only [hq, if_false]
        exact psV3Publish_refuse0 c p hq0 (by simp [hq0] at hst; simpa using hst)
    case pubrel =>
      have := psPubrel_refuse c p (by simp at hst; exact hst.1) (by simp at hst; exact hst.2)
      simpa [ht] using this
    case subscribe => simpa [ht] using psSubUnsub_refuse c p (by simpa using hst)
    case unsubscribe => simpa [ht] using psSubUnsub_refuse c p (by simpa using hst)
    case pingreq => simpa [ht] using psPingreq_refuse c p (by simpa using hst)
    case disconnect => exact psV3Disconnect_refuse c p (by simpa using hst)
    case auth => exact absurd (wf.auth hk) hv
    all_goals exact psV3Simple_refuse c p (by simpa using hst)
  · have hv4 : ¬ p.ver = 4 := by omega
    have ht : tooLarge c p = !sizeOk c p := by simp [tooLarge, h5]
    cases hk : p.kind <;> simp only [hk, Spec.stateMaySend] at hst <;>
      simp only [processSend, hv4, hk, ht, if_false]
    case connect => exact psV5Connect_refuse c p (by simpa using hst)
    case connack => exact psV5Connack_refuse c p (by simpa using hst)
    case publish =>
      by_cases hs : sizeOk c p = true
      · simp only [hs, Bool.not_true, Bool.false_eq_true, if_false, false_or]
        by_cases hq : p.qos > 0
        · obtain ⟨id, hid⟩ := Option.isSome_iff_exists.mp (wf.pubId hk hq)
          simp only [hq, if_true, hid]
          refine psV5Publish_refuse c p id hs hq hid ?_
          rw [pubNotAllowed_iff]; simp [hq] at hst; cases hn : c.s.needStore <;> simp_all
        · have hq0 : p.qos = 0 := by omega
          simp only [hq, if_false]
          exact psV5Publish_refuse0 c p hs hq0 (by simp [hq0] at hst; simpa using hst)
      · have hs' : sizeOk c p = false := by simpa using hs
        rw [psV5Publish_tooLarge c p hs']
        simp only [hs', Bool.not_false, if_true, true_or]
        cases p.pid <;> rfl
    case puback => exact psV5Puback_refuse c p (by simpa using hst)
    case pubrec => exact psV5Pubrec_refuse c p (by simpa using hst)
    case pubcomp => exact psV5Pubcomp_refuse c p (by simpa using hst)
    case pubrel =>
      have := psPubrel_refuse c p (by simp at hst; exact hst.1) (by simp at hst; exact hst.2)
      rw [ht] at this; exact this
    case subscribe => have := psSubUnsub_refuse c p (by simpa using hst); rw [ht] at this; exact this
    case unsubscribe => have := psSubUnsub_refuse c p (by simpa using hst); rw [ht] at this; exact this
    case pingreq => have := psPingreq_refuse c p (by simpa using hst); rw [ht] at this; exact this
    case disconnect => exact psV5Disconnect_refuse c p (by simpa using hst)
    case auth => exact psV5Auth_refuse c p (by cases h : c.s.status <;> simp_all)
    all_goals exact psV5Simple_refuse c p (by simpa using hst)

/-- outcome of a call refused by the gate: one error event, then the release of the identifier -/
def refusedOutcome (c : C) (p : Pkt) : C :=
  match gateRelease c p with
  | none => c.err (gateError c p)
  | some id => releaseIfUsed (c.err (gateError c p)) id

theorem send_refused (c : C) (p : Pkt) (wf : Spec.PktWf p)
    (h : Spec.mayTransmit c.cfg.role c.s.ver c.s.status p c.s.needStore c.s.offline = false) :
    send c p = refusedOutcome c p := by
  unfold send refusedOutcome gateError gateRelease
  by_cases hv : c.s.ver = p.ver
  · by_cases hr : Spec.roleMaySend c.cfg.role p.kind p.ver = true
    · have hst : Spec.stateMaySend c.s.status p.kind p.qos c.s.needStore c.s.offline = false := by
        have hvm : Spec.versionMaySend c.s.ver p.ver = true := by
          unfold Spec.versionMaySend; rcases wf.ver with h | h <;> simp [hv, h]
        simpa [Spec.mayTransmit, hvm, hr] using h
      have := processSend_refused c p wf hst
      simp only [hv, ne_eq, not_true_eq_false, if_false, roleMaySend_eq_spec, hr, Bool.not_true,
        Bool.false_eq_true, false_or]
      exact this
    · have hr' : Spec.roleMaySend c.cfg.role p.kind p.ver = false := by simpa using hr
      simp only [hv, ne_eq, not_true_eq_false, if_false, roleMaySend_eq_spec, hr', Bool.not_false,
        if_true, or_true]
      unfold refuseSend; cases initiatingId p <;> rfl
  · simp only [ne_eq, hv, not_false_eq_true, if_true, true_or]
    unfold refuseSend; cases initiatingId p <;> rfl

/-- packets that cannot be constructed (a QoS>0 PUBLISH without identifier, a v3.1.1 AUTH)
    are never transmitted or stored either -/
theorem send_nonwf (c : C) (p : Pkt) (hver : p.ver = 4 ∨ p.ver = 5) (h : ¬ Spec.PktWf p) :
    (send c p).s.store = c.s.store ∧
    ((send c p).ev = c.ev ∨ ∃ e, (send c p).ev = c.ev ++ [.error e]) := by
  have h' : (p.kind = .auth ∧ p.ver = 4) ∨ (p.kind = .publish ∧ p.qos > 0 ∧ p.pid = none) := by
    by_cases h1 : p.kind = .auth ∧ p.ver = 4
    · exact Or.inl h1
    · right
      by_cases h2 : p.kind = .publish ∧ p.qos > 0 ∧ p.pid = none
      · exact h2
      · exfalso; apply h
        refine ⟨hver, fun hk => hver.elim (fun h4 => absurd ⟨hk, h4⟩ h1) id, fun hk hq => ?_⟩
        cases hp : p.pid with
        | none => exact absurd ⟨hk, hq, hp⟩ h2
        | some _ => rfl
  have hini : initiatingId p = none := by
    unfold initiatingId
    rcases h' with ⟨hk, _⟩ | ⟨_, _, hp⟩
    · simp [hk]
    · simp [hp]
  have href : ∀ e, refuseSend c e p = c.err e := by
    intro e; unfold refuseSend; rw [hini]
  unfold send
  by_cases hv : c.s.ver = p.ver
  · by_cases hr : roleMaySend c.cfg.role p = true
    · simp only [hv, ne_eq, not_true_eq_false, if_false, hr, Bool.not_true, Bool.false_eq_true]
      rcases h' with ⟨hk, h4⟩ | ⟨hk, hq, hp⟩
      · simp [processSend, h4, hk]
      · rcases hver with h4 | h5
        · simp [processSend, h4, hk, psV3Publish, hq, hp, C.setPanic]
        · have : ¬ p.ver = 4 := by omega
          by_cases hs : sizeOk c p = true <;>
            simp [processSend, this, hk, psV5Publish, hq, hp, C.setPanic, hs]
    · simp [hv, hr, href]
  · simp [hv, href]


/-! ## "this id is free afterwards": the allocator side (via the C20 refinement) -/

theorem isUsed_range {s : St} {id : Nat} (h : isUsed s id = true) :
    s.pidMan.lowest ≤ id ∧ id ≤ s.pidMan.highest := by
  simp only [isUsed, Alloc.isUsed, Bool.and_eq_true, decide_eq_true_eq] at h
  exact ⟨h.1.1, h.1.2⟩

/-- with the allocator in a state that refines a set `S` of used ids (every reachable one does,
    `Alloc.C20_representation_invariant`), releasing an in-use id changes *only* `pidMan`, the new
    allocator refines `S \ {id}`, and the id is free afterwards -/
theorem releasedState_of_R {s : St} {S : Alloc.S} (r : Alloc.R s.pidMan S) (id : Nat)
    (hu : isUsed s id = true) :
    releasedState s id = { s with pidMan := (Alloc.deallocate s.pidMan id).2 } ∧
    Alloc.R (Alloc.deallocate s.pidMan id).2 { S with used := S.used.filter (· ≠ id) } ∧
    isUsed (releasedState s id) id = false := by
  have hr := isUsed_range hu
  have hnone := Alloc.C20_release_total r id hr
  have hstep := (Alloc.step_refines r (.deallocate id)).2
  have hS : (S.step (.deallocate id)).1 = { S with used := S.used.filter (· ≠ id) } := by
    simp only [Alloc.S.step, ← r.lo, ← r.hi, hr, and_self, not_true_eq_false, if_false]
  have hA : (Alloc.step s.pidMan (.deallocate id)).1 = (Alloc.deallocate s.pidMan id).2 := rfl
  rw [hS, hA] at hstep
  have heq : releasedState s id = { s with pidMan := (Alloc.deallocate s.pidMan id).2 } := by
    simp only [releasedState, hu, if_true, hnone]
  refine ⟨heq, hstep, ?_⟩
  rw [heq]
  simp only [isUsed, Alloc.isUsed, Bool.and_eq_false_imp, Bool.and_eq_true, decide_eq_true_eq,
    Bool.not_eq_false', decide_eq_true_eq]
  intro _
  rw [hstep.free id]
  simp only [Alloc.S.free, List.mem_filter, ne_eq, not_true_eq_false, decide_false, and_false,
    Bool.false_eq_true, not_false_eq_true, and_true]
  rw [← r.lo, ← r.hi]; exact hr

/-- structure eta: the released state is `s` with a new `pidMan` (and `panic`, see
    `releasedState_of_R`) -/
theorem releasedState_eta (s : St) (id : Nat) :
    ∃ a pn, releasedState s id = { s with pidMan := a, panic := pn } := by
  unfold releasedState
  split
  · exact ⟨_, _, rfl⟩
  · exact ⟨s.pidMan, s.panic, rfl⟩

/-- field by field: the 33 fields other than `pidMan` and `panic` -/
theorem releasedState_fields (s : St) (id : Nat) :
    (releasedState s id).ver = s.ver ∧
    (releasedState s id).suback = s.suback ∧
    (releasedState s id).unsuback = s.unsuback ∧
    (releasedState s id).puback = s.puback ∧
    (releasedState s id).pubrec = s.pubrec ∧
    (releasedState s id).pubcomp = s.pubcomp ∧
    (releasedState s id).needStore = s.needStore ∧
    (releasedState s id).store = s.store ∧
    (releasedState s id).offline = s.offline ∧
    (releasedState s id).autoPub = s.autoPub ∧
    (releasedState s id).autoPing = s.autoPing ∧
    (releasedState s id).autoMap = s.autoMap ∧
    (releasedState s id).autoReplace = s.autoReplace ∧
    (releasedState s id).tar = s.tar ∧
    (releasedState s id).tas = s.tas ∧
    (releasedState s id).sendMax = s.sendMax ∧
    (releasedState s id).recvMax = s.recvMax ∧
    (releasedState s id).sendCount = s.sendCount ∧
    (releasedState s id).publishRecv = s.publishRecv ∧
    (releasedState s id).mpsSend = s.mpsSend ∧
    (releasedState s id).mpsRecv = s.mpsRecv ∧
    (releasedState s id).status = s.status ∧
    (releasedState s id).userInterval = s.userInterval ∧
    (releasedState s id).keepAliveMs = s.keepAliveMs ∧
    (releasedState s id).serverKeepAliveMs = s.serverKeepAliveMs ∧
    (releasedState s id).recvTimeoutMs = s.recvTimeoutMs ∧
    (releasedState s id).respTimeoutMs = s.respTimeoutMs ∧
    (releasedState s id).handled = s.handled ∧
    (releasedState s id).sendSet = s.sendSet ∧
    (releasedState s id).recvSet = s.recvSet ∧
    (releasedState s id).respSet = s.respSet ∧
    (releasedState s id).pb = s.pb ∧
    (releasedState s id).isClient = s.isClient := by
  obtain ⟨a, pn, h⟩ := releasedState_eta s id
  rw [h]; simp

/-! ## C17: the receive side -/

theorem canReceive_eq_spec (cfg : Cfg) (s : St) (t : Nat) :
    canReceive cfg s t = Spec.mayReceive cfg.role s.ver t := by
  unfold canReceive Spec.mayReceive
  cases cfg.role <;>
    simp [Spec.tCONNECT, Spec.tCONNACK, Spec.tSUBSCRIBE, Spec.tSUBACK, Spec.tUNSUBSCRIBE,
      Spec.tUNSUBACK, Spec.tPINGREQ, Spec.tPINGRESP, Spec.tDISCONNECT, Spec.tAUTH] <;>
    (rw [Bool.eq_iff_iff]; simp; omega)

theorem dispatchRecv_noType (c : C) (t : Nat) (parsed : Except Nat Pkt) (h : t = 0 ∨ t > 15) :
    dispatchRecv c t parsed = c.err eMalformed := by
  unfold dispatchRecv
  split <;> first | rfl | omega

theorem dispatchRecv_auth (c : C) (parsed : Except Nat Pkt) (h : c.s.ver ≠ 5) :
    dispatchRecv c 15 parsed = c.err eMalformed := by
  simp [dispatchRecv, h]

/-- timer cancellations requested by `cancelTimers` -/
def cancelEvs (s : St) : List Ev :=
  (if s.sendSet then [.timerCancel .pingreqSend] else []) ++
  (if s.recvSet then [.timerCancel .pingreqRecv] else []) ++
  (if s.respSet then [.timerCancel .pingrespRecv] else [])

theorem cancelTimers_eq (c : C) :
    cancelTimers c =
      { c with s := { c.s with sendSet := false, recvSet := false, respSet := false },
               ev := c.ev ++ cancelEvs c.s } := by
  unfold cancelTimers cancelEvs
  cases h1 : c.s.sendSet <;> cases h2 : c.s.recvSet <;> cases h3 : c.s.respSet <;>
    simp [C.push, h1, h2, h3] <;> (cases c; rename_i cfg s ev; cases s; simp_all)

theorem handleV3Error_eq (c : C) (e : Nat) :
    handleV3Error c e = { c with ev := c.ev ++ [.close, .error e] } := by
  simp [handleV3Error, C.push, C.err]

/-- does the DISCONNECT the library builds fit the peer's Maximum Packet Size? (3 bytes) -/
def v5DiscFits (s : St) : Bool := decide (3 ≤ s.mpsSend)

/-- state after a v5.0 error: when connected, the connection is taken down (status, the three
    timer flags); otherwise nothing changes -/
def v5ErrState (s : St) : St :=
  if s.status = .connected then
    { s with status := .disconnected, sendSet := false, recvSet := false, respSet := false }
  else s

def v5ErrEvs (s : St) (e : Nat) : List Ev :=
  if s.status = .connected then
    cancelEvs s ++
      (if v5DiscFits s then [.send (mkV5Disconnect (errToDisconnectRc e)) none] else []) ++
      [.close, .error e]
  else [.error (if v5DiscFits s then eNotAllowed else eTooLarge), .error e]

theorem sizeOk_disc (c : C) (rc : Nat) : sizeOk c (mkV5Disconnect rc) = v5DiscFits c.s := by
  simp [sizeOk, mkV5Disconnect, Pkt.sz, v5DiscFits]
  by_cases h : 3 ≤ c.s.mpsSend <;> simp [h] <;> omega

theorem handleV5Error_eq (c : C) (e : Nat) :
    handleV5Error c e = { c with s := v5ErrState c.s, ev := c.ev ++ v5ErrEvs c.s e } := by
  unfold handleV5Error v5DisconnectOrClose psV5Disconnect v5ErrState v5ErrEvs
  simp only [sizeOk_disc]
  by_cases hc : c.s.status = .connected <;> by_cases hf : v5DiscFits c.s = true <;>
    simp [hc, hf, cancelTimers_eq, C.push, C.err, cancelEvs]

/-! ## the version field is written by nobody but the adoption in `processRecvPacket` -/

@[simp] theorem releaseIfUsed_ver (c : C) (id : Nat) : (releaseIfUsed c id).s.ver = c.s.ver := by
  rw [releaseIfUsed_eq]; exact (releasedState_fields c.s id).1

@[simp] theorem cancelTimers_ver (c : C) : (cancelTimers c).s.ver = c.s.ver := by
  rw [cancelTimers_eq]

/-- the interval `send_post_process` arms the PINGREQ timer with -/
def ppMs (s : St) : Nat :=
  match s.userInterval with
  | some t => t
  | none => match s.serverKeepAliveMs with
    | some t => t
    | none => s.keepAliveMs

theorem sendPostProcess_eq (c : C) : sendPostProcess c =
    if c.s.isClient = true then
      if ppMs c.s > 0 then
        { c with s := { c.s with sendSet := true }, ev := c.ev ++ [.timerReset .pingreqSend (ppMs c.s)] }
      else c
    else c := rfl

@[simp] theorem sendPostProcess_ver (c : C) : (sendPostProcess c).s.ver = c.s.ver := by
  rw [sendPostProcess_eq]; (repeat' split) <;> rfl

@[simp] theorem refreshPingreqRecv_ver (c : C) : (refreshPingreqRecv c).s.ver = c.s.ver := by
  unfold refreshPingreqRecv; split <;> rfl

@[simp] theorem initConn_ver (c : C) (b : Bool) : (initConn c b).s.ver = c.s.ver := rfl
@[simp] theorem clearStoreRelated_ver (c : C) : (clearStoreRelated c).s.ver = c.s.ver := rfl
@[simp] theorem setPanic_ver (c : C) (m : String) : (c.setPanic m).s.ver = c.s.ver := rfl

theorem sendStoredLoop_ver (c : C) (l : List (Nat × Pkt)) : (sendStoredLoop c l).1.s.ver = c.s.ver := by
  induction l generalizing c with
  | nil => rfl
  | cons x rest ih =>
    obtain ⟨id, p⟩ := x
    unfold sendStoredLoop
    split
    · rw [ih]; simp
    · simp only []
      rw [ih]
      split <;> (try split) <;> rfl

@[simp] theorem sendStored_ver (c : C) : (sendStored c).s.ver = c.s.ver := by
  unfold sendStored; dsimp only; rw [sendStoredLoop_ver]; split <;> rfl

theorem propsFold_ver (f : C → Nat → Nat → C) (hf : ∀ c a b, (f c a b).s.ver = c.s.ver) (c : C)
    (l : List (Nat × Nat)) : (propsFold f c l).s.ver = c.s.ver := by
  induction l generalizing c with
  | nil => rfl
  | cons x rest ih => obtain ⟨a, b⟩ := x; unfold propsFold; rw [ih, hf]

theorem connackSendProp_ver (c : C) (a b : Nat) : (connackSendProp c a b).s.ver = c.s.ver := by
  unfold connackSendProp; (repeat' split) <;> rfl

theorem connectRecvProp_ver (c : C) (a b : Nat) : (connectRecvProp c a b).s.ver = c.s.ver := by
  unfold connectRecvProp; (repeat' split) <;> rfl

theorem psV3Connack_ver (c : C) (p : Pkt) : (psV3Connack c p).s.ver = c.s.ver := by
  unfold psV3Connack; (repeat' split) <;> simp

theorem psV5Connack_ver (c : C) (p : Pkt) : (psV5Connack c p).s.ver = c.s.ver := by
  unfold psV5Connack
  (repeat' split) <;> simp [propsFold_ver _ connackSendProp_ver]

theorem v5ErrState_ver (s : St) : (v5ErrState s).ver = s.ver := by
  unfold v5ErrState; split <;> rfl

theorem prV3Connect_ver (c : C) (parsed : Except Nat Pkt) : (prV3Connect c parsed).s.ver = c.s.ver := by
  unfold prV3Connect
  (repeat' split) <;> simp [handleV3Error_eq, psV3Connack_ver]

theorem prV5Connect_ver (c : C) (parsed : Except Nat Pkt) : (prV5Connect c parsed).s.ver = c.s.ver := by
  unfold prV5Connect
  (repeat' split) <;>
    simp [handleV5Error_eq, v5ErrState_ver, psV5Connack_ver, propsFold_ver _ connectRecvProp_ver]

end MqttVerif.Conn
