import MqttVerif.Conn.Lemmas.P7Frame
import MqttVerif.Conn.Lemmas.Resend
/-!
# Lemmas for C07 (inbound QoS 2 exactly once): who touches `handled`, who pushes `.recv`   (agent P7)
-/
namespace MqttVerif.Conn
open MqttVerif
set_option linter.unusedSimpArgs false

/-! ## set-like lists -/
theorem mem_ins {x y : Nat} {l : List Nat} : x ∈ ins y l ↔ x = y ∨ x ∈ l := by
  unfold ins; split <;> simp_all
theorem mem_del {x y : Nat} {l : List Nat} : x ∈ del y l ↔ x ∈ l ∧ x ≠ y := by
  simp [del]

/-! ## recursive helpers: `handled` and `.recv` events are not touched -/

@[simp] theorem propsFold_handled (f : C → Nat → Nat → C) (hf : ∀ c i v, (f c i v).s.handled = c.s.handled)
    (c : C) (l : List (Nat × Nat)) : (propsFold f c l).s.handled = c.s.handled := by
  induction l generalizing c with
  | nil => rfl
  | cons a t ih => obtain ⟨i, v⟩ := a; simp [propsFold, ih, hf]

theorem propsFold_recvs (f : C → Nat → Nat → C) (hf : ∀ c i v, recvs (f c i v).ev = recvs c.ev)
    (c : C) (l : List (Nat × Nat)) : recvs (propsFold f c l).ev = recvs c.ev := by
  induction l generalizing c with
  | nil => rfl
  | cons a t ih => obtain ⟨i, v⟩ := a; simp [propsFold, ih, hf]

@[simp] theorem sendStoredLoop_handled (c : C) (l : List (Nat × Pkt)) :
    (sendStoredLoop c l).1.s.handled = c.s.handled := by
  induction l generalizing c with
  | nil => rfl
  | cons a t ih =>
    obtain ⟨i, p⟩ := a
    simp only [sendStoredLoop]
    split
    · simp [ih]
    · simp [ih, apply_ite C.s, apply_ite St.handled, C.setPanic]

@[simp] theorem sendStoredLoop_recvs (c : C) (l : List (Nat × Pkt)) :
    recvs (sendStoredLoop c l).1.ev = recvs c.ev := by
  induction l generalizing c with
  | nil => rfl
  | cons a t ih =>
    obtain ⟨i, p⟩ := a
    simp only [sendStoredLoop]
    split
    · simp [ih]
    · simp [ih, apply_ite C.ev, apply_ite recvs, C.setPanic]

@[simp] theorem sendStored_handled (c : C) : (sendStored c).s.handled = c.s.handled := by
  simp [sendStored, apply_ite C.s, apply_ite St.handled]
@[simp] theorem sendStored_recvs (c : C) : recvs (sendStored c).ev = recvs c.ev := by
  simp [sendStored, apply_ite C.ev, apply_ite recvs]


/-! ## `refuseSend` (fix 1d0ef05): an error, then possibly the release of the packet's identifier -/
@[simp] theorem refuseSend_cfg (c : C) (e : Nat) (p : Pkt) : (refuseSend c e p).cfg = c.cfg := by
  simp only [refuseSend]; split <;> simp
@[simp] theorem refuseSend_handled (c : C) (e : Nat) (p : Pkt) : (refuseSend c e p).s.handled = c.s.handled := by
  simp only [refuseSend]; split <;> simp
@[simp] theorem refuseSend_store (c : C) (e : Nat) (p : Pkt) : (refuseSend c e p).s.store = c.s.store := by
  simp only [refuseSend]; split <;> simp
@[simp] theorem refuseSend_puback (c : C) (e : Nat) (p : Pkt) : (refuseSend c e p).s.puback = c.s.puback := by
  simp only [refuseSend]; split <;> simp
@[simp] theorem refuseSend_pubrec (c : C) (e : Nat) (p : Pkt) : (refuseSend c e p).s.pubrec = c.s.pubrec := by
  simp only [refuseSend]; split <;> simp
@[simp] theorem refuseSend_pubcomp (c : C) (e : Nat) (p : Pkt) : (refuseSend c e p).s.pubcomp = c.s.pubcomp := by
  simp only [refuseSend]; split <;> simp
@[simp] theorem refuseSend_suback (c : C) (e : Nat) (p : Pkt) : (refuseSend c e p).s.suback = c.s.suback := by
  simp only [refuseSend]; split <;> simp
@[simp] theorem refuseSend_unsuback (c : C) (e : Nat) (p : Pkt) : (refuseSend c e p).s.unsuback = c.s.unsuback := by
  simp only [refuseSend]; split <;> simp
@[simp] theorem refuseSend_status (c : C) (e : Nat) (p : Pkt) : (refuseSend c e p).s.status = c.s.status := by
  simp only [refuseSend]; split <;> simp
@[simp] theorem refuseSend_needStore (c : C) (e : Nat) (p : Pkt) : (refuseSend c e p).s.needStore = c.s.needStore := by
  simp only [refuseSend]; split <;> simp
@[simp] theorem refuseSend_ver (c : C) (e : Nat) (p : Pkt) : (refuseSend c e p).s.ver = c.s.ver := by
  simp only [refuseSend]; split <;> simp
@[simp] theorem refuseSend_autoPub (c : C) (e : Nat) (p : Pkt) : (refuseSend c e p).s.autoPub = c.s.autoPub := by
  simp only [refuseSend]; split <;> simp
@[simp] theorem refuseSend_mpsSend (c : C) (e : Nat) (p : Pkt) : (refuseSend c e p).s.mpsSend = c.s.mpsSend := by
  simp only [refuseSend]; split <;> simp
@[simp] theorem refuseSend_recvs (c : C) (e : Nat) (p : Pkt) : recvs (refuseSend c e p).ev = recvs c.ev := by
  simp only [refuseSend]; split <;> simp
@[simp] theorem refuseSend_sends (c : C) (e : Nat) (p : Pkt) : sends (refuseSend c e p).ev = sends c.ev := by
  simp only [refuseSend]; split <;> simp
@[simp] theorem refuseSend_errs (c : C) (e : Nat) (p : Pkt) : errs (refuseSend c e p).ev = errs c.ev ++ [e] := by
  simp only [refuseSend]; split <;> simp

/-! ## `resendStored` (fix 999e935): `sendStored`, then possibly `sendPostProcess` -/
@[simp] theorem resendStored_cfg (c : C) : (resendStored c).cfg = (sendStored c).cfg := by
  rcases resendStored_eq c with h | h <;> rw [h] <;> simp
@[simp] theorem resendStored_handled (c : C) : (resendStored c).s.handled = (sendStored c).s.handled := by
  rcases resendStored_eq c with h | h <;> rw [h] <;> simp
@[simp] theorem resendStored_store (c : C) : (resendStored c).s.store = (sendStored c).s.store := by
  rcases resendStored_eq c with h | h <;> rw [h] <;> simp
@[simp] theorem resendStored_puback (c : C) : (resendStored c).s.puback = (sendStored c).s.puback := by
  rcases resendStored_eq c with h | h <;> rw [h] <;> simp
@[simp] theorem resendStored_pubrec (c : C) : (resendStored c).s.pubrec = (sendStored c).s.pubrec := by
  rcases resendStored_eq c with h | h <;> rw [h] <;> simp
@[simp] theorem resendStored_pubcomp (c : C) : (resendStored c).s.pubcomp = (sendStored c).s.pubcomp := by
  rcases resendStored_eq c with h | h <;> rw [h] <;> simp
@[simp] theorem resendStored_suback (c : C) : (resendStored c).s.suback = (sendStored c).s.suback := by
  rcases resendStored_eq c with h | h <;> rw [h] <;> simp
@[simp] theorem resendStored_unsuback (c : C) : (resendStored c).s.unsuback = (sendStored c).s.unsuback := by
  rcases resendStored_eq c with h | h <;> rw [h] <;> simp
@[simp] theorem resendStored_status (c : C) : (resendStored c).s.status = (sendStored c).s.status := by
  rcases resendStored_eq c with h | h <;> rw [h] <;> simp
@[simp] theorem resendStored_needStore (c : C) : (resendStored c).s.needStore = (sendStored c).s.needStore := by
  rcases resendStored_eq c with h | h <;> rw [h] <;> simp
@[simp] theorem resendStored_ver (c : C) : (resendStored c).s.ver = (sendStored c).s.ver := by
  rcases resendStored_eq c with h | h <;> rw [h] <;> simp
@[simp] theorem resendStored_autoPub (c : C) : (resendStored c).s.autoPub = (sendStored c).s.autoPub := by
  rcases resendStored_eq c with h | h <;> rw [h] <;> simp
@[simp] theorem resendStored_mpsSend (c : C) : (resendStored c).s.mpsSend = (sendStored c).s.mpsSend := by
  rcases resendStored_eq c with h | h <;> rw [h] <;> simp
@[simp] theorem resendStored_pidMan (c : C) : (resendStored c).s.pidMan = (sendStored c).s.pidMan := by
  rcases resendStored_eq c with h | h <;> rw [h] <;> simp
@[simp] theorem resendStored_recvs (c : C) : recvs (resendStored c).ev = recvs (sendStored c).ev := by
  rcases resendStored_eq c with h | h <;> rw [h] <;> simp
@[simp] theorem resendStored_sends (c : C) : sends (resendStored c).ev = sends (sendStored c).ev := by
  rcases resendStored_eq c with h | h <;> rw [h] <;> simp
@[simp] theorem resendStored_errs (c : C) : errs (resendStored c).ev = errs (sendStored c).ev := by
  rcases resendStored_eq c with h | h <;> rw [h] <;> simp

@[simp] theorem releaseAll_handled (c : C) (l : List Nat) : (releaseAll c l).s.handled = c.s.handled := by
  induction l generalizing c with
  | nil => rfl
  | cons a t ih => simp [releaseAll, ih]
@[simp] theorem releaseAll_recvs (c : C) (l : List Nat) : recvs (releaseAll c l).ev = recvs c.ev := by
  induction l generalizing c with
  | nil => rfl
  | cons a t ih => simp [releaseAll, ih]

@[simp] theorem restorePackets_handled (c : C) (l : List Pkt) : (restorePackets c l).s.handled = c.s.handled := by
  induction l generalizing c with
  | nil => rfl
  | cons a t ih => simp [restorePackets, ih]
@[simp] theorem restorePackets_recvs (c : C) (l : List Pkt) : recvs (restorePackets c l).ev = recvs c.ev := by
  induction l generalizing c with
  | nil => rfl
  | cons a t ih => simp [restorePackets, ih]


/-! ## sending side -/

/-- a CONNACK(success) accepted for sending with session present = false starts a new session:
    `clearStoreRelated` empties `handled` (fix 10ee029) -/
theorem psV3Connack_handled (c : C) (p : Pkt) :
    (psV3Connack c p).s.handled =
      if c.s.status = .connecting ∧ p.rc = some 0 ∧ p.sp = false then [] else c.s.handled := by
  simp only [psV3Connack]
  by_cases h1 : c.s.status = .connecting <;> by_cases h2 : p.rc = some 0 <;> cases h3 : p.sp <;>
    simp [h1, h2, h3, clearStoreRelated]
@[simp] theorem psV3Connack_recvs (c : C) (p : Pkt) : recvs (psV3Connack c p).ev = recvs c.ev := by
  simp only [psV3Connack]
  by_cases h1 : c.s.status = .connecting <;> by_cases h2 : p.rc = some 0 <;> cases h3 : p.sp <;>
    simp [h1, h2, h3, clearStoreRelated]
theorem psV5Connack_handled (c : C) (p : Pkt) :
    (psV5Connack c p).s.handled =
      if sizeOk c p ∧ c.s.status = .connecting ∧ p.rc = some 0 ∧ p.sp = false then [] else c.s.handled := by
  simp only [psV5Connack]
  cases h0 : sizeOk c p <;> by_cases h1 : c.s.status = .connecting <;> by_cases h2 : p.rc = some 0 <;>
    cases h3 : p.sp <;>
    simp [h0, h1, h2, h3, clearStoreRelated, propsFold_handled, apply_ite C.s, apply_ite St.handled]
@[simp] theorem psV5Connack_recvs (c : C) (p : Pkt) : recvs (psV5Connack c p).ev = recvs c.ev := by
  simp only [psV5Connack]
  cases h0 : sizeOk c p <;> by_cases h1 : c.s.status = .connecting <;> by_cases h2 : p.rc = some 0 <;>
    cases h3 : p.sp <;>
    simp [h0, h1, h2, h3, clearStoreRelated, propsFold_recvs, apply_ite C.ev, apply_ite recvs]

/-- the CONNACK built for a refused CONNECT leaves `handled` alone -/
@[simp] theorem psV3Connack_handled_errRc (c : C) (e : Nat) :
    (psV3Connack c (mkV3Connack (v3ConnectErrRc e))).s.handled = c.s.handled := by
  have : (mkV3Connack (v3ConnectErrRc e)).rc ≠ some 0 := by
    simp only [mkV3Connack, v3ConnectErrRc]; repeat' split
    all_goals simp
  rw [psV3Connack_handled]; simp [this]
@[simp] theorem psV5Connack_handled_errRc (c : C) (e : Nat) :
    (psV5Connack c (mkV5Connack (v5ConnectErrRc e))).s.handled = c.s.handled := by
  have : (mkV5Connack (v5ConnectErrRc e)).rc ≠ some 0 := by
    simp only [mkV5Connack, v5ConnectErrRc]; repeat' split
    all_goals simp
  rw [psV5Connack_handled]; simp [this]

theorem psV3Connect_handled (c : C) (p : Pkt) :
    (psV3Connect c p).s.handled = if c.s.status = .disconnected ∧ p.clean then [] else c.s.handled := by
  simp only [psV3Connect]; split <;> (try split) <;> simp_all [clearStoreRelated, initConn, apply_ite C.s, apply_ite St.handled]
@[simp] theorem psV3Connect_recvs (c : C) (p : Pkt) : recvs (psV3Connect c p).ev = recvs c.ev := by
  simp [psV3Connect, clearStoreRelated, initConn, apply_ite C.ev, apply_ite recvs]

theorem psV5Connect_handled (c : C) (p : Pkt) :
    (psV5Connect c p).s.handled = if sizeOk c p ∧ c.s.status = .disconnected ∧ p.clean then [] else c.s.handled := by
  simp only [psV5Connect]; split <;> (try split) <;> (try split) <;>
    simp_all [propsFold_handled, clearStoreRelated, initConn, apply_ite C.s, apply_ite St.handled]
@[simp] theorem psV5Connect_recvs (c : C) (p : Pkt) : recvs (psV5Connect c p).ev = recvs c.ev := by
  simp [psV5Connect, propsFold_recvs, clearStoreRelated, initConn, apply_ite C.ev, apply_ite recvs]

@[simp] theorem psV3Publish_handled (c : C) (p : Pkt) : (psV3Publish c p).s.handled = c.s.handled := by
  frame_tac psV3Publish
@[simp] theorem psV3Publish_recvs (c : C) (p : Pkt) : recvs (psV3Publish c p).ev = recvs c.ev := by
  frame_tac psV3Publish
@[simp] theorem psV5PublishAlias_handled (c : C) (p : Pkt) (rel : Option Nat) (b : Bool) :
    (psV5PublishAlias c p rel b).s.handled = c.s.handled := by
  frame_tac psV5PublishAlias
@[simp] theorem psV5PublishAlias_recvs (c : C) (p : Pkt) (rel : Option Nat) (b : Bool) :
    recvs (psV5PublishAlias c p rel b).ev = recvs c.ev := by
  frame_tac psV5PublishAlias
@[simp] theorem psV5Publish_handled (c : C) (p : Pkt) : (psV5Publish c p).s.handled = c.s.handled := by
  frame_deep psV5Publish
@[simp] theorem psV5Publish_recvs (c : C) (p : Pkt) : recvs (psV5Publish c p).ev = recvs c.ev := by
  frame_tac psV5Publish


theorem psV5Pubrec_handled_eq (c : C) (p : Pkt) :
    (psV5Pubrec c p).s.handled =
      if sizeOk c p ∧ c.s.status = .connected ∧ (∃ rc, p.rc = some rc ∧ rc ≥ 0x80)
      then del (p.pid.getD 0) c.s.handled else c.s.handled := by
  simp only [psV5Pubrec]
  split
  · simp_all
  · split
    · simp_all
    · cases h : p.rc <;> simp_all [apply_ite C.s, apply_ite St.handled]

theorem psV5Pubrec_sent (c : C) (p : Pkt) (h1 : sizeOk c p) (h2 : c.s.status = .connected) :
    p ∈ sends (psV5Pubrec c p).ev := by
  simp only [psV5Pubrec]
  simp [h1, h2, apply_ite C.ev, apply_ite sends]

/-- what one `send` call does to `handled` -/
theorem send_handled (c : C) (p : Pkt) :
    (send c p).s.handled = c.s.handled ∨
    ((send c p).s.handled = [] ∧ p.kind = .connect ∧ p.clean = true) ∨
    ((send c p).s.handled = del (p.pid.getD 0) c.s.handled ∧ p.kind = .pubrec ∧ p.ver ≠ 4 ∧
      (∃ rc, p.rc = some rc ∧ rc ≥ 0x80) ∧ p ∈ sends (send c p).ev) ∨
    ((send c p).s.handled = [] ∧ p.kind = .connack ∧ p.rc = some 0 ∧ p.sp = false) := by
  simp only [send]
  split
  · simp
  · split
    · simp
    · simp only [processSend]
      split
      · cases hk : p.kind <;> simp [psV3Connect_handled, psV3Connack_handled]
        · by_cases h1 : c.s.status = .disconnected <;> cases h2 : p.clean <;> simp_all
        · by_cases h1 : c.s.status = .connecting <;> by_cases h2 : p.rc = some 0 <;> cases h3 : p.sp <;> simp_all
      · rename_i hv
        cases hk : p.kind <;> simp [psV5Connect_handled, psV5Connack_handled]
        · cases h0 : sizeOk c p <;> by_cases h1 : c.s.status = .disconnected <;> cases h2 : p.clean <;> simp_all
        · cases h0 : sizeOk c p <;> by_cases h1 : c.s.status = .connecting <;> by_cases h2 : p.rc = some 0 <;>
            cases h3 : p.sp <;> simp_all
        · by_cases hc : sizeOk c p ∧ c.s.status = .connected ∧ (∃ rc, p.rc = some rc ∧ rc ≥ 0x80)
          · right
            exact ⟨by rw [psV5Pubrec_handled_eq, if_pos hc], hv, hc.2.2, psV5Pubrec_sent c p hc.1 hc.2.1⟩
          · left; rw [psV5Pubrec_handled_eq, if_neg hc]

@[simp] theorem send_recvs (c : C) (p : Pkt) : recvs (send c p).ev = recvs c.ev := by
  simp only [send]
  split
  · simp
  · split
    · simp
    · simp only [processSend]
      split <;> split <;> simp

end MqttVerif.Conn
