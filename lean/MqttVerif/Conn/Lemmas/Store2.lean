import MqttVerif.Conn.Lemmas.Store
/-!
# Functions that leave the store untouched
-/
namespace MqttVerif.Conn
open MqttVerif

@[simp] theorem prV5PublishAlias_store (c : C) (p : Pkt) : (prV5PublishAlias c p).1.s.store = c.s.store := by
  unfold prV5PublishAlias
  (repeat' split) <;> (try simp only []) <;> (repeat' split) <;>
    simp [handleV5Error, v5DisconnectOrClose, psV5Disconnect, apply_ite C.s, apply_ite St.store]

@[simp] theorem psV5Disconnect_store (c : C) (p : Pkt) : (psV5Disconnect c p).s.store = c.s.store := by
  unfold psV5Disconnect
  (repeat' split) <;> (try simp only []) <;> (repeat' split) <;>
    simp [apply_ite C.s, apply_ite St.store]

@[simp] theorem psV3Disconnect_store (c : C) (p : Pkt) : (psV3Disconnect c p).s.store = c.s.store := by
  unfold psV3Disconnect
  (repeat' split) <;> (try simp only []) <;> (repeat' split) <;>
    simp [apply_ite C.s, apply_ite St.store]

@[simp] theorem handleV3Error_store (c : C) (e : Nat) : (handleV3Error c e).s.store = c.s.store := by
  unfold handleV3Error
  (repeat' split) <;> (try simp only []) <;> (repeat' split) <;>
    simp [apply_ite C.s, apply_ite St.store]

@[simp] theorem v5DisconnectOrClose_store (c : C) (d : Pkt) : (v5DisconnectOrClose c d).s.store = c.s.store := by
  unfold v5DisconnectOrClose
  (repeat' split) <;> (try simp only []) <;> (repeat' split) <;>
    simp [apply_ite C.s, apply_ite St.store]

@[simp] theorem handleV5Error_store (c : C) (e : Nat) : (handleV5Error c e).s.store = c.s.store := by
  unfold handleV5Error
  (repeat' split) <;> (try simp only []) <;> (repeat' split) <;>
    simp [apply_ite C.s, apply_ite St.store]

@[simp] theorem vErr_store (c : C) (e : Nat) : (vErr c e).s.store = c.s.store := by
  unfold vErr
  (repeat' split) <;> (try simp only []) <;> (repeat' split) <;>
    simp [apply_ite C.s, apply_ite St.store]

@[simp] theorem psV5PublishTail_store (c : C) (p : Pkt) (rel : Option Nat) : (psV5PublishTail c p rel).s.store = c.s.store := by
  unfold psV5PublishTail
  (repeat' split) <;> (try simp only []) <;> (repeat' split) <;>
    simp [apply_ite C.s, apply_ite St.store]

@[simp] theorem psV3Simple_store (c : C) (p : Pkt) : (psV3Simple c p).s.store = c.s.store := by
  unfold psV3Simple
  (repeat' split) <;> (try simp only []) <;> (repeat' split) <;>
    simp [apply_ite C.s, apply_ite St.store]

@[simp] theorem psV5Simple_store (c : C) (p : Pkt) : (psV5Simple c p).s.store = c.s.store := by
  unfold psV5Simple
  (repeat' split) <;> (try simp only []) <;> (repeat' split) <;>
    simp [apply_ite C.s, apply_ite St.store]

@[simp] theorem psV5Puback_store (c : C) (p : Pkt) : (psV5Puback c p).s.store = c.s.store := by
  unfold psV5Puback
  (repeat' split) <;> (try simp only []) <;> (repeat' split) <;>
    simp [apply_ite C.s, apply_ite St.store]

@[simp] theorem psV5Pubrec_store (c : C) (p : Pkt) : (psV5Pubrec c p).s.store = c.s.store := by
  unfold psV5Pubrec
  (repeat' split) <;> (try simp only []) <;> (repeat' split) <;>
    simp [apply_ite C.s, apply_ite St.store]

@[simp] theorem psV5Pubcomp_store (c : C) (p : Pkt) : (psV5Pubcomp c p).s.store = c.s.store := by
  unfold psV5Pubcomp
  (repeat' split) <;> (try simp only []) <;> (repeat' split) <;>
    simp [apply_ite C.s, apply_ite St.store]

@[simp] theorem psSubUnsub_store (c : C) (p : Pkt) : (psSubUnsub c p).s.store = c.s.store := by
  unfold psSubUnsub
  (repeat' split) <;> (try simp only []) <;> (repeat' split) <;>
    simp [apply_ite C.s, apply_ite St.store]

@[simp] theorem psPingreq_store (c : C) (p : Pkt) : (psPingreq c p).s.store = c.s.store := by
  unfold psPingreq
  (repeat' split) <;> (try simp only []) <;> (repeat' split) <;>
    simp [apply_ite C.s, apply_ite St.store]

@[simp] theorem psV5Auth_store (c : C) (p : Pkt) : (psV5Auth c p).s.store = c.s.store := by
  unfold psV5Auth
  (repeat' split) <;> (try simp only []) <;> (repeat' split) <;>
    simp [apply_ite C.s, apply_ite St.store]

@[simp] theorem prV3Publish_store (c : C) (x : Except Nat Pkt) : (prV3Publish c x).s.store = c.s.store := by
  unfold prV3Publish
  (repeat' split) <;> (try simp only []) <;> (repeat' split) <;>
    simp [apply_ite C.s, apply_ite St.store]

@[simp] theorem prV5Publish_store (c : C) (x : Except Nat Pkt) : (prV5Publish c x).s.store = c.s.store := by
  unfold prV5Publish
  (repeat' split) <;> (try simp only []) <;> (repeat' split) <;>
    simp [apply_ite C.s, apply_ite St.store]

@[simp] theorem prPubrel_store (c : C) (x : Except Nat Pkt) : (prPubrel c x).s.store = c.s.store := by
  unfold prPubrel
  (repeat' split) <;> (try simp only []) <;> (repeat' split) <;>
    simp [apply_ite C.s, apply_ite St.store]

@[simp] theorem prPlain_store (c : C) (x : Except Nat Pkt) : (prPlain c x).s.store = c.s.store := by
  unfold prPlain
  (repeat' split) <;> (try simp only []) <;> (repeat' split) <;>
    simp [apply_ite C.s, apply_ite St.store]

@[simp] theorem prSubUnsuback_store (c : C) (b : Bool) (x : Except Nat Pkt) : (prSubUnsuback c b x).s.store = c.s.store := by
  unfold prSubUnsuback
  (repeat' split) <;> (try simp only []) <;> (repeat' split) <;>
    simp [apply_ite C.s, apply_ite St.store]

@[simp] theorem prPingreq_store (c : C) (x : Except Nat Pkt) : (prPingreq c x).s.store = c.s.store := by
  unfold prPingreq
  (repeat' split) <;> (try simp only []) <;> (repeat' split) <;>
    simp [apply_ite C.s, apply_ite St.store]

@[simp] theorem prPingresp_store (c : C) (x : Except Nat Pkt) : (prPingresp c x).s.store = c.s.store := by
  unfold prPingresp
  (repeat' split) <;> (try simp only []) <;> (repeat' split) <;>
    simp [apply_ite C.s, apply_ite St.store]

@[simp] theorem prDisconnect_store (c : C) (x : Except Nat Pkt) : (prDisconnect c x).s.store = c.s.store := by
  unfold prDisconnect
  (repeat' split) <;> (try simp only []) <;> (repeat' split) <;>
    simp [apply_ite C.s, apply_ite St.store]

@[simp] theorem setPingreqSendInterval_store (c : C) (d : Option Nat) : (setPingreqSendInterval c d).s.store = c.s.store := by
  unfold setPingreqSendInterval
  (repeat' split) <;> (try simp only []) <;> (repeat' split) <;>
    simp [apply_ite C.s, apply_ite St.store]

@[simp] theorem notifyTimerFired_store (c : C) (k : Timer) : (notifyTimerFired c k).s.store = c.s.store := by
  cases k <;> by_cases h4 : c.s.ver = 4 <;> by_cases h5 : c.s.ver = 5 <;>
    by_cases hc : c.s.status = .connected <;> simp [notifyTimerFired, h4, h5, hc]

end MqttVerif.Conn
