import MqttVerif.Conn.Lemmas.TarGhost
/-!
# C13 helper — the CONNECT / CONNACK handlers, `notify_closed`, and the `step` level (agent R4)

`Out pi c c'`: the possible effects of one call on the receive alias table, on "status =
connecting", on `isClient` and on the events the receiver-side ghost reads (`tg`).
-/
set_option linter.unusedSimpArgs false
set_option linter.unusedVariables false
namespace MqttVerif.Conn.TarGhost
open MqttVerif MqttVerif.Conn

/-- `K` without the protocol version (which `process_recv_packet` determines on the first CONNECT) -/
abbrev KtT := Option TAR × Prop × Bool × List Ev
def Kt (c : C) : KtT := (c.s.tar, c.s.status = .connecting, c.s.isClient, tg c.ev)

theorem Kt_of_K {c c' : C} (h : K c' = K c) : Kt c' = Kt c := by
  simp only [K, Kt, Prod.mk.injEq] at h ⊢
  exact ⟨h.1, h.2.2.1, h.2.2.2.1, h.2.2.2.2⟩
theorem ver_of_K {c c' : C} (h : K c' = K c) : c'.s.ver = c.s.ver := by
  simp only [K, Prod.mk.injEq] at h; exact h.2.1

/-- the receive table a property list leaves: the LAST non-zero Topic Alias Maximum creates the
    (empty) table; a zero value and every other property leave it alone -/
def tamFold (o : Option TAR) : List (Nat × Nat) → Option TAR
  | [] => o
  | (id, v) :: rest => tamFold (if id = pTAM ∧ v ≠ 0 then some { max := v } else o) rest

theorem k_connectSendProp (c : C) (id v : Nat) :
    K (connectSendProp c id v) = (tamFold c.s.tar [(id, v)], (K c).2) := by
  unfold connectSendProp tamFold tamFold
  (repeat' split) <;> simp_all [K, pTAM, pRM, pMPS, pSEI]
theorem k_connackSendProp (c : C) (id v : Nat) :
    K (connackSendProp c id v) = (tamFold c.s.tar [(id, v)], (K c).2) := by
  unfold connackSendProp tamFold tamFold
  (repeat' (first | split | (simp only []; split))) <;> simp_all [K, pTAM, pRM, pMPS, pSKA]

theorem k_fold_send (f : C → Nat → Nat → C)
    (hf : ∀ c id v, K (f c id v) = (tamFold c.s.tar [(id, v)], (K c).2)) (l : List (Nat × Nat)) :
    ∀ c : C, K (propsFold f c l) = (tamFold c.s.tar l, (K c).2) := by
  induction l with
  | nil => intro c; rfl
  | cons x rest ih =>
    intro c
    obtain ⟨i, v⟩ := x
    rw [propsFold, ih, hf]
    simp [tamFold]
    have := hf c i v
    simp only [K, Prod.mk.injEq] at this
    simp [this.1, tamFold]

theorem k_fold_connectSendProp (c : C) (l : List (Nat × Nat)) :
    K (propsFold connectSendProp c l) = (tamFold c.s.tar l, (K c).2) := k_fold_send _ k_connectSendProp l c
theorem k_fold_connackSendProp (c : C) (l : List (Nat × Nat)) :
    K (propsFold connackSendProp c l) = (tamFold c.s.tar l, (K c).2) := k_fold_send _ k_connackSendProp l c

/-- a transition: receive table, status, `isClient` afterwards and the ghost-relevant events added -/
structure Tr (c c' : C) (tar' : Option TAR) (st' : Status) (ic' : Bool) (evs : List Ev) : Prop where
  tar : c'.s.tar = tar'
  st : c'.s.status = st'
  ic : c'.s.isClient = ic'
  ev : tg c'.ev = tg c.ev ++ evs

theorem not_sizeOk_false {c : C} {p : Pkt} (h : ¬ (!sizeOk c p) = true) : sizeOk c p = true := by
  simpa using h

/-! ## CONNECT / CONNACK sent -/

theorem connectTail (c0 : C) (p : Pkt) :
    K (sendPostProcess ((propsFold connectSendProp c0 p.props).push (.send p none))) =
      (tamFold c0.s.tar p.props, c0.s.ver, c0.s.status = .connecting, c0.s.isClient, tg c0.ev ++ tg [.send p none]) := by
  rw [k_sendPostProcess]
  have h := k_fold_connectSendProp c0 p.props
  simp only [K, Prod.mk.injEq] at h
  obtain ⟨h1, h2, h3, h4, h5⟩ := h
  simp only [K, push_s, push_ev, tg_append, h1, h2, h3, h4, h5]

theorem psV5Connect_out (c : C) (p : Pkt) :
    K (psV5Connect c p) = K c ∨
    (c.s.status = .disconnected ∧ (psV5Connect c p).s.ver = c.s.ver ∧
      Tr c (psV5Connect c p) (tamFold none p.props) .connecting true (tg [.send p none])) := by
  unfold psV5Connect
  split
  · left; simp [K]
  split
  · left; simp [K]
  · rename_i _ hs
    right
    refine ⟨by simpa using hs, ?_⟩
    simp only []
    have h := connectTail (if p.clean = true then clearStoreRelated { initConn c true with s := { (initConn c true).s with status := .connecting, keepAliveMs := p.keepAlive * 1000 } } else { initConn c true with s := { (initConn c true).s with status := .connecting, keepAliveMs := p.keepAlive * 1000 } }) p
    simp only [K, Prod.mk.injEq] at h
    obtain ⟨h1, h2, h3, h4, h5⟩ := h
    refine ⟨?_, ?_, ?_, ?_, ?_⟩
    · rw [h2]; split <;> rfl
    · rw [h1]; split <;> rfl
    · have : (if p.clean = true then clearStoreRelated { initConn c true with s := { (initConn c true).s with status := .connecting, keepAliveMs := p.keepAlive * 1000 } } else { initConn c true with s := { (initConn c true).s with status := .connecting, keepAliveMs := p.keepAlive * 1000 } }).s.status = .connecting := by split <;> rfl
      exact h3.mpr this
    · rw [h4]; split <;> rfl
    · rw [h5]; split <;> rfl

/-- a component of a state given by nested record updates and `if`s -/
macro "cmp_tac" : tactic =>
  `(tactic| first
      | rfl
      | (split <;> rfl)
      | (simp; done)
      | (simp <;> (repeat' split) <;> first | rfl | (simp_all; done)))

theorem psV3Connect_out (c : C) (p : Pkt) :
    K (psV3Connect c p) = K c ∨
    (c.s.status = .disconnected ∧ (psV3Connect c p).s.ver = c.s.ver ∧
      Tr c (psV3Connect c p) none .connecting true (tg [.send p none])) := by
  unfold psV3Connect
  split
  · left; simp [K]
  · rename_i hs
    right
    refine ⟨by simpa using hs, ?_⟩
    simp only []
    refine ⟨?_, ?_, ?_, ?_, ?_⟩ <;> cmp_tac

theorem store_fold_connackSendProp (l : List (Nat × Nat)) : ∀ c : C,
    (propsFold connackSendProp c l).s.store = c.s.store := by
  induction l with
  | nil => intro c; rfl
  | cons x rest ih =>
    intro c; obtain ⟨i, v⟩ := x
    rw [propsFold, ih]
    unfold connackSendProp; (repeat' (first | split | (simp only []; split))) <;> rfl

theorem storeTG_fold_connackRecvProp (l : List (Nat × Nat)) : ∀ c : C, StoreTG c.s →
    StoreTG (propsFold connackRecvProp c l).s := by
  induction l with
  | nil => intro c h; exact h
  | cons x rest ih =>
    intro c h; obtain ⟨i, v⟩ := x
    rw [propsFold]
    apply ih
    unfold connackRecvProp
    (repeat' (first | split | (simp only []; split))) <;>
      first
      | exact h
      | (intro y hy; exact h y hy)
      | (intro y hy; simp [clearStoreRelated] at hy)

/-- the part of `process_send_*_connack` after the CONNACK was pushed with reason code 0 -/
theorem connackTail (c : C) (sp : Bool) (hst : StoreTG c.s) :
    K (sendPostProcess (if sp = true then sendStored c else clearStoreRelated c)) = K c ∧
    (sendPostProcess (if sp = true then sendStored c else clearStoreRelated c)).s.status = c.s.status := by
  cases sp
  · simp [k_sendPostProcess]; rfl
  · simp [k_sendPostProcess, k_sendStored c hst]

theorem psV3Connack_out (c : C) (p : Pkt) (hst : StoreTG c.s) :
    K (psV3Connack c p) = K c ∨
    (c.s.status = .connecting ∧ (psV3Connack c p).s.ver = c.s.ver ∧
      ∃ st', st' ≠ .connecting ∧ Tr c (psV3Connack c p) c.s.tar st' c.s.isClient (tg [.send p none])) := by
  unfold psV3Connack
  split
  · left; simp [K]
  · rename_i hs
    right
    refine ⟨by simpa using hs, ?_⟩
    simp only []
    split
    · refine ⟨by simp, .disconnected, by decide, ?_, ?_, ?_, ?_⟩ <;> simp
    · have h := connackTail ({ (c.push (.send p none)) with s := { (c.push (.send p none)).s with status := .connected } }) p.sp hst
      obtain ⟨h1, h2⟩ := h
      simp only [K, Prod.mk.injEq] at h1
      obtain ⟨k1, k2, k3, k4, k5⟩ := h1
      exact ⟨k2, .connected, by decide, k1, h2, k4, by rw [k5]; simp⟩

theorem psV5Connack_out (c : C) (p : Pkt) (hst : StoreTG c.s) :
    K (psV5Connack c p) = K c ∨
    (c.s.status = .connecting ∧ (psV5Connack c p).s.ver = c.s.ver ∧
      ∃ st', st' ≠ .connecting ∧
        Tr c (psV5Connack c p) (if p.rc = some 0 then tamFold c.s.tar p.props else c.s.tar) st' c.s.isClient
          (tg [.send p none])) := by
  unfold psV5Connack
  split
  · left; simp [K]
  split
  · left; simp [K]
  · rename_i _ hs
    right
    refine ⟨by simpa using hs, ?_⟩
    simp only []
    by_cases hrc : p.rc = some 0
    · simp only [hrc, if_true, ne_eq, not_true_eq_false, if_false]
      have hf := k_fold_connackSendProp c p.props
      have hfs := connackSendProp_status c p.props
      have hstore : (propsFold connackSendProp c p.props).s.store = c.s.store :=
        store_fold_connackSendProp p.props c
      generalize propsFold connackSendProp c p.props = c1 at hf hfs hstore
      have h := connackTail ({ (c1.push (.send p none)) with s := { (c1.push (.send p none)).s with status := .connected } }) p.sp
        (by intro x hx; exact hst x (by simpa [hstore] using hx))
      obtain ⟨h1, h2⟩ := h
      simp only [K, Prod.mk.injEq] at h1 hf
      obtain ⟨k1, k2, k3, k4, k5⟩ := h1
      obtain ⟨f1, f2, f3, f4, f5⟩ := hf
      exact ⟨k2.trans f2, .connected, by decide, k1.trans f1, h2, k4.trans f4, by rw [k5]; simp [f5]⟩
    · simp only [hrc, if_false, ne_eq, not_false_eq_true, if_true]
      refine ⟨by simp, .disconnected, by decide, ?_, ?_, ?_, ?_⟩ <;> simp

/-! ## CONNECT / CONNACK received -/

theorem v3ConnectErrRc_ne (e : Nat) : v3ConnectErrRc e ≠ 0 := by
  unfold v3ConnectErrRc; (repeat' split) <;> decide
theorem v5ConnectErrRc_ne (e : Nat) : v5ConnectErrRc e ≠ 0 := by
  unfold v5ConnectErrRc; (repeat' split) <;> decide
theorem tg_v5ConnectErr (e : Nat) : tgSend (mkV5Connack (v5ConnectErrRc e)) = false := by
  simp [tgSend, mkV5Connack, v5ConnectErrRc_ne]

theorem prV3Connect_out (c : C) (x : Except Nat Pkt) :
    K (prV3Connect c x) = K c ∨
    (∃ p, x = .ok p ∧ c.s.status = .disconnected ∧ (prV3Connect c x).s.ver = c.s.ver ∧
      Tr c (prV3Connect c x) none .connecting false (tg [.recv p])) := by
  unfold prV3Connect
  split
  · left; simp [K]
  · rename_i hs
    have hs' : c.s.status = .disconnected := by simpa using hs
    simp only []
    split
    · rename_i p
      right
      refine ⟨p, rfl, hs', ?_, ?_, ?_, ?_, ?_⟩ <;> cmp_tac
    · rename_i e
      left
      unfold psV3Connack
      simp [K, v3ConnectErrRc_ne, mkV3Connack, tgSend, hs']

theorem prV5Connect_out (c : C) (x : Except Nat Pkt) :
    K (prV5Connect c x) = K c ∨
    (∃ p, x = .ok p ∧ c.s.status = .disconnected ∧ (prV5Connect c x).s.ver = c.s.ver ∧
      Tr c (prV5Connect c x) none .connecting false (tg [.recv p])) ∨
    (∃ e, x = .error e ∧ c.s.status = .disconnected ∧ c.s.mpsSend < 5 ∧ (prV5Connect c x).s.ver = c.s.ver ∧
      Tr c (prV5Connect c x) c.s.tar .connecting c.s.isClient []) := by
  unfold prV5Connect
  split
  · left; simp [K]
  · rename_i hs
    have hs' : c.s.status = .disconnected := by simpa using hs
    simp only []
    split
    · rename_i p
      right; left
      refine ⟨p, rfl, hs', ?_, ?_, ?_, ?_, ?_⟩ <;> cmp_tac
    · rename_i e
      by_cases hsz : c.s.mpsSend < 5
      · right; right
        have : sizeOk ({ c with s := { c.s with status := .connecting } } : C) (mkV5Connack (v5ConnectErrRc e)) = false := by
          simp [sizeOk, Pkt.sz, mkV5Connack]; omega
        refine ⟨e, rfl, hs', hsz, ?_⟩
        unfold psV5Connack
        simp only [this]
        refine ⟨by simp, ?_, ?_, ?_, ?_⟩ <;> simp
      · left
        have : sizeOk ({ c with s := { c.s with status := .connecting } } : C) (mkV5Connack (v5ConnectErrRc e)) = true := by
          simp [sizeOk, Pkt.sz, mkV5Connack]; omega
        unfold psV5Connack
        have hrc : (mkV5Connack (v5ConnectErrRc e)).rc ≠ some 0 := by simp [mkV5Connack, v5ConnectErrRc_ne]
        simp [this, hrc, K, tg_v5ConnectErr, hs']

theorem prV3Connack_out (c : C) (x : Except Nat Pkt) (hx : ∀ p, x = .ok p → p.kind = .connack) (hst : StoreTG c.s) :
    K (prV3Connack c x) = K c ∨
    (∃ p, x = .ok p ∧ p.rc = some 0 ∧ c.s.status ≠ .connected ∧ (prV3Connack c x).s.ver = c.s.ver ∧
      Tr c (prV3Connack c x) c.s.tar .connected c.s.isClient (tg [.recv p])) := by
  unfold prV3Connack
  split
  · left; simp [K]
  · rename_i hs
    split
    · rename_i p
      have hk := hx p rfl
      by_cases hrc : p.rc = some 0
      · right
        refine ⟨p, rfl, hrc, hs, ?_⟩
        simp only [hrc, if_true]
        cases p.sp
        · simp only [Bool.false_eq_true, if_false]
          exact ⟨rfl, rfl, rfl, rfl, by simp⟩
        · simp only [if_true]
          have h := k_resendStored ({ c with s := { c.s with status := .connected } } : C) hst
          simp only [K, Prod.mk.injEq] at h
          obtain ⟨k1, k2, k3, k4, k5⟩ := h
          exact ⟨k2, k1, by simp, k4, by simp [k5]⟩
      · left
        simp [hrc, K, tgRecv, hk]
    · left; simp [K]

theorem prV5Connack_out (c : C) (x : Except Nat Pkt) (hx : ∀ p, x = .ok p → p.kind = .connack) (hst : StoreTG c.s) :
    K (prV5Connack c x) = K c ∨
    (∃ p, x = .ok p ∧ p.rc = some 0 ∧ c.s.status ≠ .connected ∧ (prV5Connack c x).s.ver = c.s.ver ∧
      Tr c (prV5Connack c x) c.s.tar .connected c.s.isClient (tg [.recv p])) := by
  unfold prV5Connack
  split
  · left; simp [K]
  · rename_i hs
    split
    · rename_i p
      have hk := hx p rfl
      by_cases hrc : p.rc = some 0
      · right
        refine ⟨p, rfl, hrc, hs, ?_⟩
        simp only [hrc, if_true]
        have hf := k_fold_connackRecvProp ({ c with s := { c.s with status := .connected } } : C) p.props
        have hfs := connackRecvProp_status ({ c with s := { c.s with status := .connected } } : C) p.props
        have hfst := storeTG_fold_connackRecvProp p.props ({ c with s := { c.s with status := .connected } } : C) hst
        generalize propsFold connackRecvProp ({ c with s := { c.s with status := .connected } } : C) p.props = c1 at hf hfs hfst
        simp only [K, Prod.mk.injEq] at hf
        obtain ⟨f1, f2, f3, f4, f5⟩ := hf
        cases p.sp
        · simp only [Bool.false_eq_true, if_false]
          exact ⟨f2, f1, hfs, f4, by simp [f5]⟩
        · simp only [if_true]
          have h := k_resendStored c1 hfst
          simp only [K, Prod.mk.injEq] at h
          obtain ⟨k1, k2, k3, k4, k5⟩ := h
          exact ⟨k2.trans f2, k1.trans f1, by simp [hfs], k4.trans f4, by simp [k5, f5]⟩
      · left
        simp [hrc, K, tgRecv, hk]
    · left; simp [K, hs]

@[simp] theorem releaseAll_status (l : List Nat) : ∀ c : C, (releaseAll c l).s.status = c.s.status := by
  induction l with
  | nil => intro c; rfl
  | cons x rest ih => intro c; rw [releaseAll, ih, releaseIfUsed_status]

/-- `notify_closed`: both alias tables are dropped -/
theorem notifyClosed_out (c : C) :
    (notifyClosed c).s.ver = c.s.ver ∧ Tr c (notifyClosed c) none .disconnected c.s.isClient [] := by
  unfold notifyClosed
  simp only []
  refine ⟨?_, ?_, ?_, ?_, ?_⟩
  · simp only [cancelTimers_ver]; split <;> simp
  · simp only [cancelTimers_tar]; split <;> simp
  · simp only [cancelTimers_status]; split <;> simp
  · simp only [cancelTimers_ic]; split <;> simp
  · simp only [cancelTimers_tg]; split <;> simp

/-! ## the possible effects of one call -/

/-- the effect of a call that does not run the v5.0 PUBLISH receive handler on a parsed packet;
    `sp`: the packet handed to `send`, if the call is a `send`; `rcv`: the call is a `recv` -/
inductive Out (sp : Option Pkt) (rcv : Bool) (c c' : C) : Prop
  /-- nothing the invariants read changes, no ghost-relevant event -/
  | keep (h : Kt c' = Kt c)
  /-- `notify_closed` -/
  | closed (h : Tr c c' none .disconnected c.s.isClient [])
  /-- a CONNECT is accepted for sending: the table is created afresh from its properties -/
  | connectSent (p : Pkt) (hsp : sp = some p) (hk : p.kind = .connect) (hv : c.s.ver = p.ver) (hs : c.s.status = .disconnected)
      (h : Tr c c' (if p.ver = 4 then none else tamFold none p.props) .connecting true (tg [.send p none]))
  /-- a CONNACK is accepted for sending -/
  | connackSent (p : Pkt) (st' : Status) (hsp : sp = some p) (hk : p.kind = .connack) (hv : c.s.ver = p.ver)
      (hs : c.s.status = .connecting) (hst' : st' ≠ .connecting)
      (h : Tr c c' (if p.ver ≠ 4 ∧ p.rc = some 0 then tamFold c.s.tar p.props else c.s.tar) st' c.s.isClient
        (tg [.send p none]))
  /-- a CONNECT is delivered -/
  | connectRecv (p : Pkt) (hr : rcv = true) (hk : p.kind = .connect) (hs : c.s.status = .disconnected)
      (h : Tr c c' none .connecting false [.recv p])
  /-- a CONNECT that does not parse arrives while the peer's Maximum Packet Size (still in force:
      no `notify_closed` since) does not admit the 5-byte error CONNACK: the status stays
      `connecting`, nothing else is reset -/
  | connectErr (hr : rcv = true) (hs : c.s.status = .disconnected) (hm : c.s.mpsSend < 5)
      (h : Tr c c' c.s.tar .connecting c.s.isClient [])
  /-- a successful CONNACK is delivered: the receive table is NOT touched -/
  | connackRecv (p : Pkt) (hr : rcv = true) (hk : p.kind = .connack) (hrc : p.rc = some 0) (hs : c.s.status ≠ .connected)
      (h : Tr c c' c.s.tar .connected c.s.isClient [.recv p])

theorem Out.of_K {sp : Option Pkt} {rcv : Bool} {c c' : C} (h : K c' = K c) : Out sp rcv c c' := .keep (Kt_of_K h)

theorem tg_recv_connect {p : Pkt} (hk : p.kind = .connect) : tg [.recv p] = [.recv p] := by
  simp [tgRecv, hk]
theorem tg_recv_connack {p : Pkt} (hk : p.kind = .connack) (hrc : p.rc = some 0) : tg [.recv p] = [.recv p] := by
  simp [tgRecv, hk, hrc]

/-- `Out` reads of the first context only what `Kt`, the status and `mpsSend`, `ver` say -/
theorem Out.congr {sp : Option Pkt} {rcv : Bool} {c1 c c' : C} (h1 : c1.s.tar = c.s.tar) (h2 : c1.s.status = c.s.status)
    (h3 : c1.s.isClient = c.s.isClient) (h4 : c1.s.mpsSend = c.s.mpsSend) (h5 : c1.s.ver = c.s.ver)
    (h6 : c1.ev = c.ev) (h : Out sp rcv c1 c') : Out sp rcv c c' := by
  have hk : Kt c1 = Kt c := by simp [Kt, h1, h2, h3, h6]
  cases h with
  | keep h => exact .keep (h.trans hk)
  | closed h => exact .closed ⟨h.tar, h.st, h3 ▸ h.ic, h6 ▸ h.ev⟩
  | connectSent p hsp hk hv hs h => exact .connectSent p hsp hk (h5 ▸ hv) (h2 ▸ hs) ⟨h.tar, h.st, h.ic, h6 ▸ h.ev⟩
  | connackSent p st' hsp hk hv hs hst' h =>
    exact .connackSent p st' hsp hk (h5 ▸ hv) (h2 ▸ hs) hst' ⟨h1 ▸ h.tar, h.st, h3 ▸ h.ic, h6 ▸ h.ev⟩
  | connectRecv p hr hk hs h => exact .connectRecv p hr hk (h2 ▸ hs) ⟨h.tar, h.st, h.ic, h6 ▸ h.ev⟩
  | connectErr hr hs hm h => exact .connectErr hr (h2 ▸ hs) (h4 ▸ hm) ⟨h1 ▸ h.tar, h.st, h3 ▸ h.ic, h6 ▸ h.ev⟩
  | connackRecv p hr hk hrc hs h => exact .connackRecv p hr hk hrc (h2 ▸ hs) ⟨h1 ▸ h.tar, h.st, h3 ▸ h.ic, h6 ▸ h.ev⟩

/-! ## `send` -/

theorem send_out (c : C) (p : Pkt) (hst : StoreTG c.s) :
    (send c p).s.ver = c.s.ver ∧ Out (some p) false c (send c p) := by
  unfold send
  split
  · exact ⟨ver_of_K (k_refuseSend _ _ _), .of_K (k_refuseSend _ _ _)⟩
  split
  · exact ⟨ver_of_K (k_refuseSend _ _ _), .of_K (k_refuseSend _ _ _)⟩
  · rename_i hv _
    have hv' : c.s.ver = p.ver := by simpa using hv
    by_cases h1 : p.kind = .connect
    · unfold processSend
      split <;> simp only [h1]
      · rename_i h4
        rcases psV3Connect_out c p with h | ⟨hs, hver, h⟩
        · exact ⟨ver_of_K h, .of_K h⟩
        · exact ⟨hver, .connectSent p rfl h1 hv' hs (by simpa [h4] using h)⟩
      · rename_i h4
        rcases psV5Connect_out c p with h | ⟨hs, hver, h⟩
        · exact ⟨ver_of_K h, .of_K h⟩
        · exact ⟨hver, .connectSent p rfl h1 hv' hs (by simpa [h4] using h)⟩
    · by_cases h2 : p.kind = .connack
      · unfold processSend
        split <;> simp only [h2]
        · rename_i h4
          rcases psV3Connack_out c p hst with h | ⟨hs, hver, st', hst', h⟩
          · exact ⟨ver_of_K h, .of_K h⟩
          · exact ⟨hver, .connackSent p st' rfl h2 hv' hs hst' (by simpa [h4] using h)⟩
        · rename_i h4
          rcases psV5Connack_out c p hst with h | ⟨hs, hver, st', hst', h⟩
          · exact ⟨ver_of_K h, .of_K h⟩
          · exact ⟨hver, .connackSent p st' rfl h2 hv' hs hst' (by simpa [h4] using h)⟩
      · have h := k_processSend_other c p h1 h2
        exact ⟨ver_of_K h, .of_K h⟩

/-! ## `recv` -/

def okOf : Except Nat Pkt → Option Pkt
  | .ok p => some p
  | .error _ => none

theorem kind_of_nibble {k : Kind} {t : Nat} (h : k.nibble = t) :
    (t = 1 → k = .connect) ∧ (t = 2 → k = .connack) ∧ (t = 3 → k = .publish) ∧
    (t ≠ 1 → k ≠ .connect) ∧ (t ≠ 2 → k ≠ .connack) := by
  cases k <;> simp [Kind.nibble] at h <;> subst h <;> simp

/-- the result of the packet handlers: `pi` — the parsed PUBLISH handed to the v5.0 PUBLISH handler -/
def Res (pi : Option Pkt) (sp : Option Pkt) (rcv : Bool) (c c' : C) : Prop :=
  match pi with
  | some p => Kt c' = (aliasTar c.s.tar p, (Kt c).2)
  | none => Out sp rcv c c'

theorem dispatchRecv_out (c : C) (t : Nat) (x : Except Nat Pkt)
    (hx : ∀ p, x = .ok p → p.kind.nibble = t) (hst : StoreTG c.s) :
    (dispatchRecv c t x).s.ver = c.s.ver ∧
    Res (if t = 3 ∧ c.s.ver ≠ 4 then okOf x else none) none true c (dispatchRecv c t x) := by
  have hk : ∀ p, x = .ok p → t ≠ 1 → t ≠ 2 → tgRecv p = false := fun p hp h1 h2 =>
    tgRecv_kind ((kind_of_nibble (hx p hp)).2.2.2.1 h1) ((kind_of_nibble (hx p hp)).2.2.2.2 h2)
  have keep : ∀ {c' : C}, K c' = K c → t ≠ 3 → c'.s.ver = c.s.ver ∧
      Res (if t = 3 ∧ c.s.ver ≠ 4 then okOf x else none) none true c c' := by
    intro c' h h3
    simp only [h3, false_and, if_false, Res]
    exact ⟨ver_of_K h, .of_K h⟩
  unfold dispatchRecv
  split
  · -- CONNECT
    simp only [show ¬ (1 = 3) by decide, false_and, if_false, Res]
    split
    · rcases prV3Connect_out c x with h | ⟨p, hp, hs, hver, h⟩
      · exact ⟨ver_of_K h, .of_K h⟩
      · have hkc := (kind_of_nibble (hx p hp)).1 rfl
        exact ⟨hver, .connectRecv p rfl hkc hs (by rw [← tg_recv_connect hkc]; exact h)⟩
    · rcases prV5Connect_out c x with h | ⟨p, hp, hs, hver, h⟩ | ⟨e, he, hs, hm, hver, h⟩
      · exact ⟨ver_of_K h, .of_K h⟩
      · have hkc := (kind_of_nibble (hx p hp)).1 rfl
        exact ⟨hver, .connectRecv p rfl hkc hs (by rw [← tg_recv_connect hkc]; exact h)⟩
      · exact ⟨hver, .connectErr rfl hs hm h⟩
  · -- CONNACK
    simp only [show ¬ (2 = 3) by decide, false_and, if_false, Res]
    have hkk : ∀ p, x = .ok p → p.kind = .connack := fun p hp => (kind_of_nibble (hx p hp)).2.1 rfl
    split
    · rcases prV3Connack_out c x hkk hst with h | ⟨p, hp, hrc, hs, hver, h⟩
      · exact ⟨ver_of_K h, .of_K h⟩
      · exact ⟨hver, .connackRecv p rfl (hkk p hp) hrc hs (by rw [← tg_recv_connack (hkk p hp) hrc]; exact h)⟩
    · rcases prV5Connack_out c x hkk hst with h | ⟨p, hp, hrc, hs, hver, h⟩
      · exact ⟨ver_of_K h, .of_K h⟩
      · exact ⟨hver, .connackRecv p rfl (hkk p hp) hrc hs (by rw [← tg_recv_connack (hkk p hp) hrc]; exact h)⟩
  · -- PUBLISH
    split
    · rename_i h4
      have h := k_prV3Publish c x (fun p hp => hk p hp (by decide) (by decide))
      refine ⟨ver_of_K h, ?_⟩
      simp only [h4, ne_eq, not_true_eq_false, and_false, if_false, Res]
      exact .of_K h
    · rename_i h4
      simp only [ne_eq, h4, not_false_eq_true, and_self, if_true]
      cases x with
      | error e =>
        have h := k_prV5Publish_err c e
        exact ⟨ver_of_K h, .of_K h⟩
      | ok p =>
        have h := k_prV5Publish c p ((kind_of_nibble (hx p rfl)).2.2.1 rfl)
        simp only [K, Prod.mk.injEq] at h
        obtain ⟨k1, k2, k3, k4, k5⟩ := h
        exact ⟨k2, by simp only [okOf, Res, Kt, Prod.mk.injEq]; exact ⟨k1, k3, k4, k5⟩⟩
  · exact keep (k_prPuback c x (fun p hp => hk p hp (by decide) (by decide))) (by decide)
  · exact keep (k_prPubrec c x (fun p hp => hk p hp (by decide) (by decide))) (by decide)
  · exact keep (k_prPubrel c x (fun p hp => hk p hp (by decide) (by decide))) (by decide)
  · exact keep (k_prPubcomp c x (fun p hp => hk p hp (by decide) (by decide))) (by decide)
  · exact keep (k_prPlain c x (fun p hp => hk p hp (by decide) (by decide))) (by decide)
  · exact keep (k_prSubUnsuback c true x (fun p hp => hk p hp (by decide) (by decide))) (by decide)
  · exact keep (k_prPlain c x (fun p hp => hk p hp (by decide) (by decide))) (by decide)
  · exact keep (k_prSubUnsuback c false x (fun p hp => hk p hp (by decide) (by decide))) (by decide)
  · exact keep (k_prPingreq c x (fun p hp => hk p hp (by decide) (by decide))) (by decide)
  · exact keep (k_prPingresp c x (fun p hp => hk p hp (by decide) (by decide))) (by decide)
  · exact keep (k_prDisconnect c x (fun p hp => hk p hp (by decide) (by decide))) (by decide)
  · split
    · exact keep (k_prPlain c x (fun p hp => hk p hp (by decide) (by decide))) (by decide)
    · exact keep (by simp [K]) (by decide)
  · rename_i h1 h2 h3 _ _ _ _ _ _ _ _ _ _ _ _
    by_cases h33 : t = 3
    · exact absurd h33 (by intro h; subst h; exact h3 rfl)
    · exact keep (by simp [K]) h33

/-- the protocol version never changes once determined; the first CONNECT determines it -/
def VerStep (a b : Nat) : Prop := b = a ∨ (a = 0 ∧ (b = 4 ∨ b = 5))

/-- the parsed packet `process_recv_packet` hands to the v5.0 PUBLISH handler, if any: the frame is
    within the Maximum Packet Size we announced, the version is determined and not v3.1.1, the type
    nibble says PUBLISH, and the parser succeeds -/
def pubInFrame (s : St) (fh : Nat) (data : List Nat) (parse : Nat → Except Nat Pkt) : Option Pkt :=
  if totalSize data.length ≤ s.mpsRecv ∧ s.ver ≠ 0 ∧ fh / 16 = 3 ∧ s.ver ≠ 4 then okOf (parse s.ver) else none

theorem processRecvPacket_out (c : C) (fh : Nat) (data : List Nat) (parse : Nat → Except Nat Pkt)
    (hx : ∀ v p, parse v = .ok p → p.kind.nibble = fh / 16) (hst : StoreTG c.s) :
    VerStep c.s.ver (processRecvPacket c fh data parse).s.ver ∧
    Res (pubInFrame c.s fh data parse) none true c (processRecvPacket c fh data parse) := by
  have keep : ∀ {c' : C}, K c' = K c → pubInFrame c.s fh data parse = none →
      VerStep c.s.ver c'.s.ver ∧ Res (pubInFrame c.s fh data parse) none true c c' := by
    intro c' h hn
    rw [hn]
    exact ⟨.inl (ver_of_K h), .of_K h⟩
  unfold processRecvPacket
  split
  · rename_i hsz
    refine keep ?_ (by unfold pubInFrame; rw [if_neg]; omega)
    simp [K]
  · simp only []
    split
    · exact keep (by simp [K]) (by
        unfold pubInFrame; split
        · rename_i hcr h; exfalso; simp [canReceive, h.2.2.1] at hcr
        · rfl)
    split
    · rename_i h0
      have hn : pubInFrame c.s fh data parse = none := by unfold pubInFrame; rw [if_neg]; simp [h0]
      rw [hn]
      simp only [Res]
      split
      · rename_i h1
        split
        · exact ⟨.inl rfl, .of_K (by simp [K])⟩
        · split
          · rcases prV3Connect_out { c with s := { c.s with ver := 4 } } (parse 4) with h | ⟨p, hp, hs, hver, h⟩
            · refine ⟨.inr ⟨h0, .inl (ver_of_K h)⟩, .keep ?_⟩
              rw [Kt_of_K h]; rfl
            · have hkc := (kind_of_nibble (hx 4 p hp)).1 h1
              exact ⟨.inr ⟨h0, .inl hver⟩, .connectRecv p rfl hkc hs (by rw [← tg_recv_connect hkc]; exact ⟨h.tar, h.st, h.ic, h.ev⟩)⟩
          split
          · rcases prV5Connect_out { c with s := { c.s with ver := 5 } } (parse 5) with h | ⟨p, hp, hs, hver, h⟩ | ⟨e, he, hs, hm, hver, h⟩
            · refine ⟨.inr ⟨h0, .inr (ver_of_K h)⟩, .keep ?_⟩
              rw [Kt_of_K h]; rfl
            · have hkc := (kind_of_nibble (hx 5 p hp)).1 h1
              exact ⟨.inr ⟨h0, .inr hver⟩, .connectRecv p rfl hkc hs (by rw [← tg_recv_connect hkc]; exact ⟨h.tar, h.st, h.ic, h.ev⟩)⟩
            · exact ⟨.inr ⟨h0, .inr hver⟩, .connectErr rfl hs hm ⟨h.tar, h.st, h.ic, h.ev⟩⟩
          · exact ⟨.inl rfl, .of_K (by simp [K])⟩
      · exact ⟨.inl rfl, .of_K (by simp [K])⟩
    · rename_i hsz hcr h0
      have h := dispatchRecv_out c (fh / 16) (parse c.s.ver) (fun p hp => hx _ p hp) hst
      refine ⟨.inl h.1, ?_⟩
      have e : pubInFrame c.s fh data parse = (if fh / 16 = 3 ∧ c.s.ver ≠ 4 then okOf (parse c.s.ver) else none) := by
        unfold pubInFrame
        have hsz' : totalSize data.length ≤ c.s.mpsRecv := by omega
        simp only [hsz', h0, ne_eq, not_false_eq_true, true_and]
      rw [e]; exact h.2

/-- the parser answers with the packet type of the frame it was given -/
def ParseK (parse : Nat → Nat → List Nat → Except Nat Pkt) : Prop :=
  ∀ v fh d p, parse v fh d = .ok p → p.kind.nibble = fh / 16

/-- the parsed packet a `recv` call hands to the v5.0 PUBLISH handler, if any -/
def pubIn (s : St) : Op → Option Pkt
  | .recv inp parse =>
    match (Framing.feed s.pb inp).2.1 with
    | some (.complete fh data) => pubInFrame s fh data (fun v => parse v fh data)
    | _ => none
  | _ => none

/-- `recv` after the frame assembler answered `r` -/
def recvCore (c : C) (r : Framing.PB × Option Framing.Out × List Nat)
    (parse : Nat → Nat → List Nat → Except Nat Pkt) : C :=
  match r.2.1 with
  | none => { c with s := { c.s with pb := r.1 } }
  | some (.complete fh data) => processRecvPacket { c with s := { c.s with pb := r.1 } } fh data (fun v => parse v fh data)
  | some .error => ((cancelTimers { c with s := { c.s with pb := r.1 } }).push .close).err eMalformed

theorem recv_fst (c : C) (inp : List Nat) (parse : Nat → Nat → List Nat → Except Nat Pkt) :
    (recv c inp parse).1 = recvCore c (Framing.feed c.s.pb inp) parse := by
  unfold recv recvCore
  rcases Framing.feed c.s.pb inp with ⟨pb, out, rest⟩
  cases out with
  | none => rfl
  | some o => cases o <;> rfl

def pubInCore (s : St) (r : Framing.PB × Option Framing.Out × List Nat)
    (parse : Nat → Nat → List Nat → Except Nat Pkt) : Option Pkt :=
  match r.2.1 with
  | some (.complete fh data) => pubInFrame s fh data (fun v => parse v fh data)
  | _ => none

theorem pubIn_recv (s : St) (inp : List Nat) (parse : Nat → Nat → List Nat → Except Nat Pkt) :
    pubIn s (.recv inp parse) = pubInCore s (Framing.feed s.pb inp) parse := rfl

theorem recvCore_out (c : C) (r : Framing.PB × Option Framing.Out × List Nat)
    (parse : Nat → Nat → List Nat → Except Nat Pkt) (hp : ParseK parse) (hst : StoreTG c.s) :
    VerStep c.s.ver (recvCore c r parse).s.ver ∧ Res (pubInCore c.s r parse) none true c (recvCore c r parse) := by
  obtain ⟨pb, out, rest⟩ := r
  unfold recvCore pubInCore
  cases out with
  | none => dsimp only; exact ⟨.inl rfl, Out.keep rfl⟩
  | some o =>
    cases o with
    | complete fh data =>
      dsimp only
      have h := processRecvPacket_out { c with s := { c.s with pb := pb } } fh data (fun v => parse v fh data)
        (fun v p h => hp v fh data p h) hst
      refine ⟨h.1, ?_⟩
      have h2 := h.2
      have e : pubInFrame ({ c with s := { c.s with pb := pb } } : C).s fh data (fun v => parse v fh data) =
          pubInFrame c.s fh data (fun v => parse v fh data) := rfl
      rw [e] at h2
      revert h2
      simp only []
      cases pubInFrame c.s fh data (fun v => parse v fh data) with
      | none => exact fun h2 => Out.congr (c1 := { c with s := { c.s with pb := pb } }) rfl rfl rfl rfl rfl rfl h2
      | some p => exact fun h2 => h2
    | error => dsimp only; exact ⟨.inl (by simp), Out.of_K (by simp [K])⟩

theorem recv_out (c : C) (inp : List Nat) (parse : Nat → Nat → List Nat → Except Nat Pkt) (hp : ParseK parse)
    (hst : StoreTG c.s) :
    VerStep c.s.ver (recv c inp parse).1.s.ver ∧ Res (pubIn c.s (.recv inp parse)) none true c (recv c inp parse).1 := by
  rw [recv_fst, pubIn_recv]; exact recvCore_out c _ parse hp hst

/-- the packet handed to `send` -/
def sentOf : Op → Option Pkt
  | .send p => some p
  | _ => none

def isRecvOp : Op → Bool
  | .recv _ _ => true
  | _ => false

/-- **every call**: either the v5.0 PUBLISH handler ran on the parsed packet `pubIn s op` and only the
    receive table changed, exactly as the alias stage says; or one of the effects of `Out` -/
theorem step_out (cfg : Cfg) (s : St) (op : Op) (hp : ∀ inp parse, op = .recv inp parse → ParseK parse)
    (hst : StoreTG s) :
    VerStep s.ver (step cfg s op).s.ver ∧ Res (pubIn s op) (sentOf op) (isRecvOp op) { cfg := cfg, s := s } (step cfg s op) := by
  cases op with
  | send p => have h := send_out { cfg := cfg, s := s } p hst; exact ⟨.inl h.1, h.2⟩
  | recv inp parse => exact recv_out { cfg := cfg, s := s } inp parse (hp inp parse rfl) hst
  | timer k => exact ⟨.inl (ver_of_K (k_notifyTimerFired _ k)), .of_K (k_notifyTimerFired _ k)⟩
  | closed => have h := notifyClosed_out { cfg := cfg, s := s }; exact ⟨.inl h.1, .closed h.2⟩
  | setInterval d => exact ⟨.inl (ver_of_K (k_setPingreqSendInterval _ d)), .of_K (k_setPingreqSendInterval _ d)⟩
  | setFlag f b => exact ⟨.inl (by cases f <;> rfl), .keep (by cases f <;> rfl)⟩
  | setRespTimeout ms => exact ⟨.inl rfl, .keep rfl⟩
  | acquire => exact ⟨.inl rfl, .keep rfl⟩
  | register id => exact ⟨.inl rfl, .keep rfl⟩
  | release id => exact ⟨.inl (ver_of_K (k_releasePacketId _ id)), .of_K (k_releasePacketId _ id)⟩
  | erase id => exact ⟨.inl (ver_of_K (k_eraseStoredPublish _ id)), .of_K (k_eraseStoredPublish _ id)⟩
  | restoreHandled ids => exact ⟨.inl rfl, .keep rfl⟩
  | restorePackets ps => exact ⟨.inl (ver_of_K (k_restorePackets ps _)), .of_K (k_restorePackets ps _)⟩

/-- when `pubIn s op = some p` the call IS the v5.0 PUBLISH receive handler on `p` (on the state with
    the advanced frame assembler) -/
theorem step_pubIn_eq (cfg : Cfg) (s : St) (op : Op) (p : Pkt) (h : pubIn s op = some p) :
    ∃ pb, step cfg s op = prV5Publish { cfg := cfg, s := { s with pb := pb } } (.ok p) := by
  cases op with
  | recv inp parse =>
    rw [pubIn_recv] at h
    simp only [step]
    rw [recv_fst]
    generalize Framing.feed ({ cfg := cfg, s := s } : C).s.pb inp = r at h ⊢
    obtain ⟨pb, out, rest⟩ := r
    unfold pubInCore at h
    unfold recvCore
    cases out with
    | none => simp at h
    | some o =>
      cases o with
      | error => simp at h
      | complete fh data =>
        dsimp only at h ⊢
        unfold pubInFrame at h
        split at h
        · rename_i hc
          obtain ⟨h1, h2, h3, h4⟩ := hc
          refine ⟨pb, ?_⟩
          unfold processRecvPacket
          have hsz : ¬ totalSize data.length > s.mpsRecv := by omega
          have hcr : canReceive cfg { s with pb := pb } (fh / 16) = true := by simp [canReceive, h3]
          simp only [hsz, if_false, hcr, Bool.not_true, Bool.false_eq_true, h2]
          unfold dispatchRecv
          simp only [h3, h4, if_false]
          dsimp only at h
          cases hx : parse s.ver fh data with
          | error e => rw [hx] at h; simp [okOf] at h
          | ok q => rw [hx] at h; simp only [okOf, Option.some.injEq] at h; rw [h]
        · cases h
  | _ => simp [pubIn] at h

end MqttVerif.Conn.TarGhost
