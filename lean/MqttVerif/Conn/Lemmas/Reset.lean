import MqttVerif.Conn.Step
import MqttVerif.Props.C20
/-!
# Helper lemmas: what `notify_closed`, `initialize`, `clear_store_related` overwrite

Closed forms (up to the allocator pool, the sticky `panic` and the pushed events) of the
reset functions, for **every** state.
-/
set_option linter.unusedSimpArgs false
set_option linter.unusedVariables false
namespace MqttVerif.Conn
open MqttVerif

/-- same range (`lowest`, `highest`, `T::MAX`) — the allocator's construction-time part -/
def Bnd (a b : Alloc.A) : Prop := a.lowest = b.lowest ∧ a.highest = b.highest ∧ a.tmax = b.tmax

theorem Bnd.refl (a : Alloc.A) : Bnd a a := ⟨rfl, rfl, rfl⟩
theorem Bnd.trans {a b c : Alloc.A} (h : Bnd a b) (g : Bnd b c) : Bnd a c :=
  ⟨h.1.trans g.1, h.2.1.trans g.2.1, h.2.2.trans g.2.2⟩

theorem deallocate_bnd (a : Alloc.A) (v : Nat) : Bnd (Alloc.deallocate a v).2 a := by
  simp only [Alloc.deallocate]
  (repeat' split) <;> exact ⟨rfl, rfl, rfl⟩

theorem useValue_bnd (a : Alloc.A) (v : Nat) : Bnd (Alloc.useValue a v).2 a := by
  simp only [Alloc.useValue]
  (repeat' split) <;> exact ⟨rfl, rfl, rfl⟩

theorem clear_eq_of_bnd {a b : Alloc.A} (h : Bnd a b) : Alloc.clear a = Alloc.clear b := by
  obtain ⟨h1, h2, h3⟩ := h
  cases a; cases b; simp_all [Alloc.clear]

/-- `release_id` touches the allocator pool and `panic` only -/
theorem releaseId_eq (c : C) (id : Nat) : ∃ pm pn, Bnd pm c.s.pidMan ∧
    releaseId c id = ⟨c.cfg, { c.s with pidMan := pm, panic := pn }, c.ev⟩ := by
  have hb := deallocate_bnd c.s.pidMan id
  simp only [releaseId, C.setPanic]
  split
  · exact ⟨_, _, hb, rfl⟩
  · exact ⟨_, _, hb, rfl⟩

theorem releaseIfUsed_eq (c : C) (id : Nat) : ∃ pm pn ev, Bnd pm c.s.pidMan ∧
    releaseIfUsed c id = ⟨c.cfg, { c.s with pidMan := pm, panic := pn }, ev⟩ := by
  simp only [releaseIfUsed]
  split
  · obtain ⟨pm, pn, hb, h⟩ := releaseId_eq c id
    rw [h]; exact ⟨pm, pn, _, hb, rfl⟩
  · exact ⟨c.s.pidMan, c.s.panic, c.ev, Bnd.refl _, rfl⟩

theorem releaseAll_eq (c : C) (l : List Nat) : ∃ pm pn ev, Bnd pm c.s.pidMan ∧
    releaseAll c l = ⟨c.cfg, { c.s with pidMan := pm, panic := pn }, ev⟩ := by
  induction l generalizing c with
  | nil => exact ⟨c.s.pidMan, c.s.panic, c.ev, Bnd.refl _, rfl⟩
  | cons id rest ih =>
    obtain ⟨pm, pn, ev, hb, h⟩ := releaseIfUsed_eq c id
    obtain ⟨pm', pn', ev', hb', h'⟩ := ih (releaseIfUsed c id)
    refine ⟨pm', pn', ev', ?_, ?_⟩
    · rw [h] at hb'; exact hb'.trans hb
    · simp only [releaseAll]; rw [h'] ; rw [h]

theorem cancelTimers_cfg (c : C) : (cancelTimers c).cfg = c.cfg := by
  simp only [cancelTimers, C.push]
  (repeat' split) <;> rfl

theorem cancelTimers_s (c : C) :
    (cancelTimers c).s = { c.s with sendSet := false, recvSet := false, respSet := false } := by
  obtain ⟨cfg, s, ev⟩ := c
  simp only [cancelTimers, C.push]
  (repeat' split) <;> (cases s; simp_all)

/-! ## `notify_closed` in stages -/

def nc1 (c : C) : C :=
  { c with s := { c.s with mpsSend := noLimit, mpsRecv := noLimit, status := .disconnected,
                            tas := none, tar := none } }
def nc2 (c : C) : C := releaseAll { c with s := { c.s with suback := [] } } c.s.suback
def nc3 (c : C) : C := releaseAll { c with s := { c.s with unsuback := [] } } c.s.unsuback
def nc4a (c : C) : C := releaseAll { c with s := { c.s with puback := [] } } c.s.puback
def nc4b (c : C) : C := releaseAll { c with s := { c.s with pubrec := [] } } c.s.pubrec
def nc4c (c : C) : C := releaseAll { c with s := { c.s with pubcomp := [] } } c.s.pubcomp
def nc4 (c : C) : C :=
  if !c.s.needStore then
    let c := nc4c (nc4b (nc4a { c with s := { c.s with handled := [] } }))
    { c with s := { c.s with store := [] } }
  else c
def nc5 (c : C) : C := cancelTimers { c with s := { c.s with pb := Framing.PB.reset } }

theorem notifyClosed_stages (c : C) : notifyClosed c = nc5 (nc4 (nc3 (nc2 (nc1 c)))) := rfl

theorem nc2_eq (c : C) : ∃ pm pn ev, Bnd pm c.s.pidMan ∧
    nc2 c = ⟨c.cfg, { c.s with suback := [], pidMan := pm, panic := pn }, ev⟩ := by
  obtain ⟨pm, pn, ev, hb, h⟩ := releaseAll_eq { c with s := { c.s with suback := [] } } c.s.suback
  exact ⟨pm, pn, ev, hb, by rw [nc2, h]⟩

theorem nc3_eq (c : C) : ∃ pm pn ev, Bnd pm c.s.pidMan ∧
    nc3 c = ⟨c.cfg, { c.s with unsuback := [], pidMan := pm, panic := pn }, ev⟩ := by
  obtain ⟨pm, pn, ev, hb, h⟩ := releaseAll_eq { c with s := { c.s with unsuback := [] } } c.s.unsuback
  exact ⟨pm, pn, ev, hb, by rw [nc3, h]⟩

theorem nc4a_eq (c : C) : ∃ pm pn ev, Bnd pm c.s.pidMan ∧
    nc4a c = ⟨c.cfg, { c.s with puback := [], pidMan := pm, panic := pn }, ev⟩ := by
  obtain ⟨pm, pn, ev, hb, h⟩ := releaseAll_eq { c with s := { c.s with puback := [] } } c.s.puback
  exact ⟨pm, pn, ev, hb, by rw [nc4a, h]⟩

theorem nc4b_eq (c : C) : ∃ pm pn ev, Bnd pm c.s.pidMan ∧
    nc4b c = ⟨c.cfg, { c.s with pubrec := [], pidMan := pm, panic := pn }, ev⟩ := by
  obtain ⟨pm, pn, ev, hb, h⟩ := releaseAll_eq { c with s := { c.s with pubrec := [] } } c.s.pubrec
  exact ⟨pm, pn, ev, hb, by rw [nc4b, h]⟩

theorem nc4c_eq (c : C) : ∃ pm pn ev, Bnd pm c.s.pidMan ∧
    nc4c c = ⟨c.cfg, { c.s with pubcomp := [], pidMan := pm, panic := pn }, ev⟩ := by
  obtain ⟨pm, pn, ev, hb, h⟩ := releaseAll_eq { c with s := { c.s with pubcomp := [] } } c.s.pubcomp
  exact ⟨pm, pn, ev, hb, by rw [nc4c, h]⟩

/-- the session part of `notify_closed`: kept iff `need_store` -/
theorem nc4_eq (c : C) : ∃ pm pn ev, Bnd pm c.s.pidMan ∧
    nc4 c = ⟨c.cfg, { c.s with
      puback := if c.s.needStore then c.s.puback else [],
      pubrec := if c.s.needStore then c.s.pubrec else [],
      pubcomp := if c.s.needStore then c.s.pubcomp else [],
      store := if c.s.needStore then c.s.store else [],
      handled := if c.s.needStore then c.s.handled else [],
      pidMan := pm, panic := pn }, ev⟩ := by
  unfold nc4
  cases hn : c.s.needStore
  · obtain ⟨pm1, pn1, ev1, hb1, h1⟩ := nc4a_eq { c with s := { c.s with handled := [] } }
    obtain ⟨pm2, pn2, ev2, hb2, h2⟩ := nc4b_eq (nc4a { c with s := { c.s with handled := [] } })
    obtain ⟨pm3, pn3, ev3, hb3, h3⟩ :=
      nc4c_eq (nc4b (nc4a { c with s := { c.s with handled := [] } }))
    refine ⟨pm3, pn3, ev3, ?_, ?_⟩
    · rw [h2] at hb3; rw [h1] at hb2; exact hb3.trans (hb2.trans hb1)
    · simp only [Bool.not_false, if_true]
      rw [h3, h2, h1]; simp [hn]
  · refine ⟨c.s.pidMan, c.s.panic, c.ev, Bnd.refl _, ?_⟩
    obtain ⟨cfg, s, ev⟩ := c
    cases s; simp_all

/-- the state `notify_closed` leaves, up to the allocator pool `pm` and the sticky `panic` -/
def closedSt (s : St) (pm : Alloc.A) (pn : Option String) : St :=
  { s with
    mpsSend := noLimit, mpsRecv := noLimit, status := .disconnected, tas := none, tar := none,
    suback := [], unsuback := [], pb := Framing.PB.reset,
    sendSet := false, recvSet := false, respSet := false,
    puback := if s.needStore then s.puback else [],
    pubrec := if s.needStore then s.pubrec else [],
    pubcomp := if s.needStore then s.pubcomp else [],
    store := if s.needStore then s.store else [],
    handled := if s.needStore then s.handled else [],
    pidMan := pm, panic := pn }

/-- **closed form of `notify_closed`**, for every state -/
theorem notifyClosed_eq (c : C) : ∃ pm pn, Bnd pm c.s.pidMan ∧
    (notifyClosed c).cfg = c.cfg ∧ (notifyClosed c).s = closedSt c.s pm pn := by
  obtain ⟨pm2, pn2, ev2, hb2, h2⟩ := nc2_eq (nc1 c)
  obtain ⟨pm3, pn3, ev3, hb3, h3⟩ := nc3_eq (nc2 (nc1 c))
  obtain ⟨pm4, pn4, ev4, hb4, h4⟩ := nc4_eq (nc3 (nc2 (nc1 c)))
  refine ⟨pm4, pn4, ?_, ?_, ?_⟩
  · rw [h3] at hb4; rw [h2] at hb3; exact hb4.trans (hb3.trans hb2)
  · rw [notifyClosed_stages, nc5, cancelTimers_cfg, h4]
    show (nc3 (nc2 (nc1 c))).cfg = c.cfg
    rw [h3]
    show (nc2 (nc1 c)).cfg = c.cfg
    rw [h2]; rfl
  · rw [notifyClosed_stages, nc5, cancelTimers_s, h4, h3, h2]
    simp only [nc1, closedSt]; rfl

end MqttVerif.Conn
