import MqttVerif.Conn.Step
import MqttVerif.Monitors
import MqttVerif.Conn.Lemmas.Resend
/-!
# C11 helper — `need_store` is the persistence of the session as the packets exchanged define it

The driver monitor `C11 persistence_flag` keeps a ghost Boolean, updated from the events of every
call (`nsStep`): a CONNECT sent or delivered sets it (v3.1.1: `!clean`; v5.0: Session Expiry
Interval > 0), a delivered successful v5.0 CONNACK carrying a Session Expiry Interval overrides it.
`K c` = (`needStore`, `ver`, the relevant events of `c`); frame lemmas `K (f c) = K c` for every
model function that neither touches `needStore` nor pushes a relevant event; the CONNECT / CONNACK
handlers are analysed one by one (`g_*`).
Own namespace: may be imported next to any other lemma chain.
-/
set_option linter.unusedSimpArgs false
set_option linter.unusedVariables false
namespace MqttVerif.Conn.PF
open MqttVerif MqttVerif.Conn

/-! ## the ghost -/

/-- persistence announced by a CONNECT -/
def connectNs (q : Pkt) : Bool :=
  if q.ver = 4 then !q.clean else decide ((Mon.findProp q pSEI).getD 0 > 0)

/-- the driver's update of its ghost flag by one event -/
def nsEv (acc : Bool) : Ev → Bool
  | .send q _ => if q.kind = .connect then connectNs q else acc
  | .recv q =>
    if q.kind = .connect then connectNs q
    else if q.kind = .connack ∧ q.rc = some 0 ∧ q.ver = 5 then
      (match Mon.findProp q pSEI with | some v => decide (v > 0) | none => acc)
    else acc
  | _ => acc

/-- … by the events of one call, in order -/
def nsStep (ns : Bool) (evs : List Ev) : Bool := evs.foldl nsEv ns

def relRecv (p : Pkt) : Bool :=
  decide (p.kind = .connect) || (decide (p.kind = .connack) && decide (p.rc = some 0) && decide (p.ver = 5))

/-- the events the ghost looks at -/
def rel : Ev → Bool
  | .send p _ => decide (p.kind = .connect)
  | .recv p => relRecv p
  | _ => false

def relOf (l : List Ev) : List Ev := l.filter rel

theorem nsEv_irrel (acc : Bool) (e : Ev) (h : rel e = false) : nsEv acc e = acc := by
  cases e <;> simp_all [rel, nsEv, relRecv]

theorem nsStep_relOf (l : List Ev) : ∀ b, nsStep b l = nsStep b (relOf l) := by
  induction l with
  | nil => intro b; rfl
  | cons e rest ih =>
    intro b
    cases h : rel e
    · have : relOf (e :: rest) = relOf rest := by simp [relOf, List.filter, h]
      rw [this, ← ih]
      show nsStep (nsEv b e) rest = _
      rw [nsEv_irrel b e h]
    · have : relOf (e :: rest) = e :: relOf rest := by simp [relOf, List.filter, h]
      rw [this]
      show nsStep (nsEv b e) rest = nsStep (nsEv b e) (relOf rest)
      exact ih _

theorem nsStep_append (b : Bool) (l : List Ev) (e : Ev) : nsStep b (l ++ [e]) = nsEv (nsStep b l) e := by
  simp [nsStep, List.foldl_append]

@[simp] theorem relOf_nil : relOf [] = [] := rfl
theorem relOf_append (a b : List Ev) : relOf (a ++ b) = relOf a ++ relOf b := by simp [relOf]

/-! ## the projection -/

def K (c : C) : Bool × Nat × List Ev := (c.s.needStore, c.s.ver, relOf c.ev)

/-- the invariant inside a call: the flag equals the ghost started at `b0` and run over the events
    pushed so far -/
def GK (b0 : Bool) (k : Bool × Nat × List Ev) : Prop := k.1 = nsStep b0 k.2.2

theorem GK_iff (b0 : Bool) (c : C) : GK b0 (K c) ↔ c.s.needStore = nsStep b0 c.ev := by
  simp only [GK, K]; rw [← nsStep_relOf]

theorem K_push_irrel (c : C) (e : Ev) (h : rel e = false) : K (c.push e) = K c := by
  simp [K, C.push, relOf_append, relOf, List.filter, h]

@[simp] theorem K_push_send (c : C) (p : Pkt) (r : Option Nat) (h : p.kind ≠ .connect) :
    K (c.push (.send p r)) = K c := K_push_irrel c _ (by simp [rel, h])
@[simp] theorem K_push_recv (c : C) (p : Pkt) (h : relRecv p = false) : K (c.push (.recv p)) = K c :=
  K_push_irrel c _ (by simp [rel, h])
@[simp] theorem K_push_released (c : C) (id : Nat) : K (c.push (.released id)) = K c := K_push_irrel c _ rfl
@[simp] theorem K_push_tr (c : C) (k : Timer) (ms : Nat) : K (c.push (.timerReset k ms)) = K c :=
  K_push_irrel c _ rfl
@[simp] theorem K_push_tc (c : C) (k : Timer) : K (c.push (.timerCancel k)) = K c := K_push_irrel c _ rfl
@[simp] theorem K_push_error (c : C) (e : Nat) : K (c.push (.error e)) = K c := K_push_irrel c _ rfl
@[simp] theorem K_push_close (c : C) : K (c.push .close) = K c := K_push_irrel c _ rfl
@[simp] theorem K_err (c : C) (e : Nat) : K (c.err e) = K c := K_push_error c e
@[simp] theorem K_setPanic (c : C) (x : String) : K (c.setPanic x) = K c := rfl

theorem K_push_rel (c : C) (e : Ev) (h : rel e = true) :
    K (c.push e) = (c.s.needStore, c.s.ver, relOf c.ev ++ [e]) := by
  simp [K, C.push, relOf_append, relOf, List.filter, h]

theorem ite_K (p : Prop) {_ : Decidable p} (a b : C) : K (if p then a else b) = if p then K a else K b :=
  apply_ite K _ _ _
theorem K_mk (cfg : Cfg) (s : St) (ev : List Ev) : K ⟨cfg, s, ev⟩ = (s.needStore, s.ver, relOf ev) := rfl
theorem K_eta (x : C) : (x.s.needStore, x.s.ver, relOf x.ev) = K x := rfl

theorem ver_of_K {c c' : C} (h : K c' = K c) : c'.s.ver = c.s.ver := congrArg (·.2.1) h
theorem gk_congr {b0 : Bool} {c c' : C} (h : K c' = K c) (g : GK b0 (K c)) : GK b0 (K c') := by rw [h]; exact g

@[simp] theorem kind_mkAck (cfg : Cfg) (v : Nat) (k : Kind) (id : Nat) : (mkAck cfg v k id).kind = k := by simp [mkAck]
@[simp] theorem kind_mkV5PubcompRc (cfg : Cfg) (id rc : Nat) : (mkV5PubcompRc cfg id rc).kind = .pubcomp := by simp [mkV5PubcompRc]
@[simp] theorem kind_mkV5Disconnect (rc : Nat) : (mkV5Disconnect rc).kind = .disconnect := by simp [mkV5Disconnect]
@[simp] theorem kind_mkPingreq (v : Nat) : (mkPingreq v).kind = .pingreq := by simp [mkPingreq]
@[simp] theorem kind_mkPingresp (v : Nat) : (mkPingresp v).kind = .pingresp := by simp [mkPingresp]
@[simp] theorem kind_mkV3Connack (rc : Nat) : (mkV3Connack rc).kind = .connack := by simp [mkV3Connack]
@[simp] theorem kind_mkV5Connack (rc : Nat) : (mkV5Connack rc).kind = .connack := by simp [mkV5Connack]

macro "dk" : tactic =>
  `(tactic| first
      | rfl
      | (simp [ite_K]; done)
      | (simp [ite_K]; rfl)
      | (simp_all [ite_K]; done)
      | ((repeat' (first | split | (simp only []; split))) <;>
          first | rfl | (simp [ite_K]; done) | (simp [ite_K]; rfl) | (simp [ite_K, K_mk, K_eta]; done) | (simp [ite_K, K_mk, K_eta, (by assumption : _ ≠ Kind.connect)]; done) | (simp_all [ite_K]; done) | (simp_all [ite_K, K_mk, K_eta]; done) | (simp_all [K]; done)))

/-! ## neutral functions -/

@[simp] theorem K_releaseId (c : C) (id : Nat) : K (releaseId c id) = K c := by unfold releaseId; dk
@[simp] theorem K_releaseIfUsed (c : C) (id : Nat) : K (releaseIfUsed c id) = K c := by unfold releaseIfUsed; dk
@[simp] theorem K_cancelTimers (c : C) : K (cancelTimers c) = K c := by unfold cancelTimers; dk
@[simp] theorem K_sendPostProcess (c : C) : K (sendPostProcess c) = K c := by
  unfold sendPostProcess
  split
  · extract_lets ms
    split
    · simp; rfl
    · rfl
  · rfl
@[simp] theorem K_refreshPingreqRecv (c : C) : K (refreshPingreqRecv c) = K c := by
  unfold refreshPingreqRecv; dk
@[simp] theorem K_clearStoreRelated (c : C) : K (clearStoreRelated c) = K c := rfl
@[simp] theorem K_decSendCount (c : C) : K (decSendCount c) = K c := by unfold decSendCount; dk
@[simp] theorem K_releasePacketId (c : C) (id : Nat) : K (releasePacketId c id) = K c :=
  releasePacketId_ind (Q := fun c' => K c' = K c) c id (K_releaseIfUsed _ _) (fun h => h)
    (fun h => (K_decSendCount _).trans h)
@[simp] theorem K_releaseAll (l : List Nat) : ∀ c, K (releaseAll c l) = K c := by
  induction l with
  | nil => intro c; rfl
  | cons x rest ih => intro c; rw [releaseAll, ih]; simp
@[simp] theorem K_validateTopicAlias (c : C) (ao : Option Nat) : K (validateTopicAlias c ao).2 = K c := by
  unfold validateTopicAlias; (repeat' split) <;> rfl
@[simp] theorem K_storeAdd (c : C) (id : Nat) (p : Pkt) (x : String) : K (storeAdd c id p x) = K c := by
  unfold storeAdd; split <;> rfl
@[simp] theorem K_tasInsert (c : C) (t : List Nat) (a : Nat) (x : String) : K (tasInsert c t a x) = K c := by
  unfold tasInsert; (repeat' split) <;> rfl
@[simp] theorem K_autoAlias (c : C) (p : Pkt) : K (autoAlias c p).1 = K c := by
  unfold autoAlias; (repeat' (first | split | (simp only []; split))) <;> simp
theorem autoAlias_kind (c : C) (p : Pkt) : (autoAlias c p).2.kind = p.kind := by
  unfold autoAlias; (repeat' (first | split | (simp only []; split))) <;> rfl
@[simp] theorem K_connackSendProp (c : C) (id v : Nat) : K (connackSendProp c id v) = K c := by
  unfold connackSendProp; dk

theorem K_propsFold (f : C → Nat → Nat → C) (hf : ∀ c id v, K (f c id v) = K c) (c : C)
    (l : List (Nat × Nat)) : K (propsFold f c l) = K c := by
  induction l generalizing c with
  | nil => rfl
  | cons x rest ih => obtain ⟨i, v⟩ := x; rw [propsFold, ih, hf]
@[simp] theorem K_fold_connackSendProp (c : C) (l : List (Nat × Nat)) :
    K (propsFold connackSendProp c l) = K c := K_propsFold _ K_connackSendProp c l

@[simp] theorem K_psV5Disconnect (c : C) (p : Pkt) (h : p.kind ≠ .connect) : K (psV5Disconnect c p) = K c := by
  unfold psV5Disconnect; dk
@[simp] theorem K_psV3Disconnect (c : C) (p : Pkt) (h : p.kind ≠ .connect) : K (psV3Disconnect c p) = K c := by
  unfold psV3Disconnect; dk
@[simp] theorem K_handleV3Error (c : C) (e : Nat) : K (handleV3Error c e) = K c := by
  unfold handleV3Error; dk
@[simp] theorem K_v5DisconnectOrClose (c : C) (p : Pkt) (h : p.kind ≠ .connect) :
    K (v5DisconnectOrClose c p) = K c := by unfold v5DisconnectOrClose; dk
@[simp] theorem K_handleV5Error (c : C) (e : Nat) : K (handleV5Error c e) = K c := by
  unfold handleV5Error; rw [K_err, K_v5DisconnectOrClose _ _ (by simp)]
@[simp] theorem K_vErr (c : C) (e : Nat) : K (vErr c e) = K c := by unfold vErr; dk

/-! ## `send_stored`: the resent packets are the stored ones -/

theorem K_sendStoredLoop (l : List (Nat × Pkt)) (hl : ∀ x ∈ l, x.2.kind ≠ .connect) :
    ∀ c, K (sendStoredLoop c l).1 = K c := by
  induction l with
  | nil => intro c; rfl
  | cons x rest ih =>
    intro c
    obtain ⟨id, p⟩ := x
    have hp : p.kind ≠ .connect := hl (id, p) (by simp)
    have ih' := ih (fun x hx => hl x (by simp [hx]))
    rw [sendStoredLoop]
    split
    · simp only []; rw [ih']; simp; rfl
    · simp only []; rw [ih']; simp only [K_push_send _ _ _ hp]; (repeat' split) <;> rfl

theorem K_sendStored (c : C) (hl : ∀ x ∈ c.s.store, x.2.kind ≠ .connect) : K (sendStored c) = K c := by
  unfold sendStored
  simp only []
  show K (sendStoredLoop _ _).1 = _
  rw [K_sendStoredLoop]
  · split <;> rfl
  · split <;> exact hl

theorem K_resendStored (c : C) (hl : ∀ x ∈ c.s.store, x.2.kind ≠ .connect) : K (resendStored c) = K c :=
  resendStored_ind (Q := fun x => K x = K c) c (K_sendStored c hl)
    (fun h => by rw [K_sendPostProcess]; exact h)

/-! ## the send side -/

@[simp] theorem K_psV3Publish (c : C) (p : Pkt) (h : p.kind ≠ .connect) : K (psV3Publish c p) = K c := by
  unfold psV3Publish; dk
@[simp] theorem K_pubRefuseCleanup (c : C) (pid : Option Nat) : K (pubRefuseCleanup c pid) = K c := by
  unfold pubRefuseCleanup; dk
@[simp] theorem K_psV5PublishTail (c : C) (p : Pkt) (r : Option Nat) (h : p.kind ≠ .connect) :
    K (psV5PublishTail c p r) = K c := by unfold psV5PublishTail; dk
theorem K_psV5PublishAlias (c : C) (p : Pkt) (r : Option Nat) (v : Bool) (hk : p.kind = .publish) :
    K (psV5PublishAlias c p r v) = K c := by
  have h : p.kind ≠ .connect := by simp [hk]
  have h' : (autoAlias c p).2.kind ≠ .connect := by rw [autoAlias_kind]; exact h
  unfold psV5PublishAlias
  (repeat' (first | split | (simp only []; split))) <;> simp_all [ite_K]
theorem K_psV5Publish (c : C) (p : Pkt) (hk : p.kind = .publish) : K (psV5Publish c p) = K c := by
  unfold psV5Publish
  (repeat' (first | split | (simp only []; split))) <;> simp_all [ite_K, K_psV5PublishAlias, K_mk, K_eta]
@[simp] theorem K_psV3Simple (c : C) (p : Pkt) (h : p.kind ≠ .connect) : K (psV3Simple c p) = K c := by
  unfold psV3Simple; dk
@[simp] theorem K_psV5Simple (c : C) (p : Pkt) (h : p.kind ≠ .connect) : K (psV5Simple c p) = K c := by
  unfold psV5Simple; dk
@[simp] theorem K_psV5Puback (c : C) (p : Pkt) (h : p.kind ≠ .connect) : K (psV5Puback c p) = K c := by
  unfold psV5Puback; dk
@[simp] theorem K_psV5Pubrec (c : C) (p : Pkt) (h : p.kind ≠ .connect) : K (psV5Pubrec c p) = K c := by
  unfold psV5Pubrec; dk
@[simp] theorem K_psV5Pubcomp (c : C) (p : Pkt) (h : p.kind ≠ .connect) : K (psV5Pubcomp c p) = K c :=
  K_psV5Puback c p h
@[simp] theorem K_psPubrel (c : C) (p : Pkt) (h : p.kind ≠ .connect) : K (psPubrel c p) = K c := by
  unfold psPubrel; dk
@[simp] theorem K_psSubUnsub (c : C) (p : Pkt) (h : p.kind ≠ .connect) : K (psSubUnsub c p) = K c := by
  unfold psSubUnsub; dk
@[simp] theorem K_psPingreq (c : C) (p : Pkt) (h : p.kind ≠ .connect) : K (psPingreq c p) = K c := by
  unfold psPingreq; dk
@[simp] theorem K_psV5Auth (c : C) (p : Pkt) (h : p.kind ≠ .connect) : K (psV5Auth c p) = K c := by
  unfold psV5Auth; dk
@[simp] theorem K_refuseSend (c : C) (e : Nat) (p : Pkt) : K (refuseSend c e p) = K c := by
  unfold refuseSend; dk

theorem K_connackTail (c : C) (sp : Bool) (hl : ∀ x ∈ c.s.store, x.2.kind ≠ .connect) :
    K (sendPostProcess (if sp then sendStored c else clearStoreRelated c)) = K c := by
  rw [K_sendPostProcess]
  cases sp
  · rfl
  · exact K_sendStored c hl

theorem K_psV3Connack (c : C) (p : Pkt) (h : p.kind ≠ .connect) (hl : ∀ x ∈ c.s.store, x.2.kind ≠ .connect) :
    K (psV3Connack c p) = K c := by
  unfold psV3Connack
  split
  · simp
  · simp only []
    split
    · simp [h, K_mk, K_eta]
    · refine (K_connackTail _ _ (by exact hl)).trans ?_
      simp [h, K_mk, K_eta]

theorem store_fold_connackSendProp (l : List (Nat × Nat)) : ∀ c : C, (propsFold connackSendProp c l).s.store = c.s.store := by
  induction l with
  | nil => intro c; rfl
  | cons x rest ih =>
    intro c
    obtain ⟨i, v⟩ := x
    rw [propsFold, ih]
    unfold connackSendProp; (repeat' (first | split | (simp only []; split))) <;> rfl

theorem K_psV5Connack (c : C) (p : Pkt) (h : p.kind ≠ .connect) (hl : ∀ x ∈ c.s.store, x.2.kind ≠ .connect) :
    K (psV5Connack c p) = K c := by
  unfold psV5Connack
  split
  · simp
  split
  · simp
  · simp only []
    have h1 : K (if p.rc = some 0 then propsFold connackSendProp c p.props else c) = K c := by split <;> simp
    have h2 : (if p.rc = some 0 then propsFold connackSendProp c p.props else c).s.store = c.s.store := by
      split
      · exact store_fold_connackSendProp _ _
      · rfl
    generalize (if p.rc = some 0 then propsFold connackSendProp c p.props else c) = c1 at h1 h2
    split
    · simp [h, K_mk, K_eta, h1]
    · refine (K_connackTail _ _ (by show ∀ x ∈ c1.s.store, _; rw [h2]; exact hl)).trans ?_
      simp [h, K_mk, K_eta, h1]

/-- `process_send_*` of a packet that is no CONNECT -/
theorem K_processSend_other (c : C) (p : Pkt) (h : p.kind ≠ .connect)
    (hl : ∀ x ∈ c.s.store, x.2.kind ≠ .connect) : K (processSend c p) = K c := by
  unfold processSend
  by_cases hv : p.ver = 4 <;> cases hk : p.kind <;> simp only [hv, if_true, if_false] <;>
    first
    | exact absurd hk h
    | rfl
    | exact K_psV5Publish c p hk
    | exact K_psV3Connack c p h hl
    | exact K_psV5Connack c p h hl
    | (simp [h]; done)

/-! ## the receive side (everything but CONNECT and the v5.0 CONNACK) -/

/-- the ok-branch of a receive handler: `hp` — the parsed packet is not looked at by the ghost -/
macro "k_recv_tac" f:ident hp:ident : tactic =>
  `(tactic| (unfold $f; simp only []
             (repeat' (first | split | (simp only []; split))) <;>
               first | rfl | (simp [ite_K, K_mk, K_eta, $hp:ident]; done) | (simp [ite_K, K_mk, K_eta, $hp:ident]; rfl)))

theorem K_prV3Connack (c : C) (x : Except Nat Pkt) (hx : ∀ p, x = .ok p → relRecv p = false)
    (hl : ∀ x ∈ c.s.store, x.2.kind ≠ .connect) : K (prV3Connack c x) = K c := by
  unfold prV3Connack
  split
  · simp
  · split
    · rename_i p
      rw [K_push_recv _ _ (hx p rfl)]
      split
      · split
        · exact (K_resendStored _ (by exact hl)).trans rfl
        · rfl
      · rfl
    · simp

theorem K_prV3Publish_ok (c : C) (p : Pkt) (hp : relRecv p = false) : K (prV3Publish c (.ok p)) = K c := by
  k_recv_tac prV3Publish hp
@[simp] theorem K_prV5PublishAlias (c : C) (p : Pkt) : K (prV5PublishAlias c p).1 = K c := by
  unfold prV5PublishAlias
  (repeat' (first | split | (simp only []; split))) <;> first | rfl | (simp [ite_K, K_mk, K_eta]; done)
theorem prV5PublishAlias_kind (c : C) (p p' : Pkt) (h : (prV5PublishAlias c p).2 = some p') :
    p'.kind = p.kind ∧ p'.rc = p.rc ∧ p'.ver = p.ver := by
  unfold prV5PublishAlias at h
  simp only [] at h
  (repeat' split at h) <;> simp_all <;> (subst h; exact ⟨rfl, rfl, rfl⟩)

theorem K_prV5Publish (c : C) (x : Except Nat Pkt) (hx : ∀ p, x = .ok p → p.kind = .publish) :
    K (prV5Publish c x) = K c := by
  unfold prV5Publish
  split
  · simp [ite_K]
  · rename_i p
    have hk := hx p rfl
    have h1 := K_prV5PublishAlias c p
    have h2 := prV5PublishAlias_kind c p
    generalize prV5PublishAlias c p = r at h1 h2 ⊢
    obtain ⟨c1, o⟩ := r
    cases o with
    | none => exact h1
    | some p' =>
      have hp' : relRecv p' = false := by simp [relRecv, (h2 p' rfl).1, hk]
      simp only [] at h1 ⊢
      rw [← h1]
      simp [ite_K, hp']
      (repeat' split) <;> simp [K, apply_ite C.s, apply_ite C.ev, apply_ite St.needStore, apply_ite St.ver]

theorem K_prPuback_ok (c : C) (p : Pkt) (hp : relRecv p = false) : K (prPuback c (.ok p)) = K c := by
  k_recv_tac prPuback hp
theorem K_prPubrec_ok (c : C) (p : Pkt) (hp : relRecv p = false) : K (prPubrec c (.ok p)) = K c := by
  k_recv_tac prPubrec hp
theorem K_prPubrel_ok (c : C) (p : Pkt) (hp : relRecv p = false) : K (prPubrel c (.ok p)) = K c := by
  k_recv_tac prPubrel hp
theorem K_prPubcomp_ok (c : C) (p : Pkt) (hp : relRecv p = false) : K (prPubcomp c (.ok p)) = K c := by
  k_recv_tac prPubcomp hp
theorem K_prPlain_ok (c : C) (p : Pkt) (hp : relRecv p = false) : K (prPlain c (.ok p)) = K c := by
  k_recv_tac prPlain hp
theorem K_prSubUnsuback_ok (c : C) (b : Bool) (p : Pkt) (hp : relRecv p = false) :
    K (prSubUnsuback c b (.ok p)) = K c := by k_recv_tac prSubUnsuback hp
theorem K_prPingreq_ok (c : C) (p : Pkt) (hp : relRecv p = false) : K (prPingreq c (.ok p)) = K c := by
  k_recv_tac prPingreq hp
theorem K_prPingresp_ok (c : C) (p : Pkt) (hp : relRecv p = false) : K (prPingresp c (.ok p)) = K c := by
  k_recv_tac prPingresp hp
theorem K_prDisconnect_ok (c : C) (p : Pkt) (hp : relRecv p = false) : K (prDisconnect c (.ok p)) = K c := by
  k_recv_tac prDisconnect hp

theorem K_prV3Publish (c : C) (x : Except Nat Pkt) (hx : ∀ p, x = .ok p → relRecv p = false) :
    K (prV3Publish c x) = K c := by
  cases x with
  | ok p => exact K_prV3Publish_ok c p (hx p rfl)
  | error e => simp [prV3Publish]
theorem K_prPuback (c : C) (x : Except Nat Pkt) (hx : ∀ p, x = .ok p → relRecv p = false) :
    K (prPuback c x) = K c := by
  cases x with
  | ok p => exact K_prPuback_ok c p (hx p rfl)
  | error e => simp [prPuback]
theorem K_prPubrec (c : C) (x : Except Nat Pkt) (hx : ∀ p, x = .ok p → relRecv p = false) :
    K (prPubrec c x) = K c := by
  cases x with
  | ok p => exact K_prPubrec_ok c p (hx p rfl)
  | error e => simp [prPubrec]
theorem K_prPubrel (c : C) (x : Except Nat Pkt) (hx : ∀ p, x = .ok p → relRecv p = false) :
    K (prPubrel c x) = K c := by
  cases x with
  | ok p => exact K_prPubrel_ok c p (hx p rfl)
  | error e => simp [prPubrel]
theorem K_prPubcomp (c : C) (x : Except Nat Pkt) (hx : ∀ p, x = .ok p → relRecv p = false) :
    K (prPubcomp c x) = K c := by
  cases x with
  | ok p => exact K_prPubcomp_ok c p (hx p rfl)
  | error e => simp [prPubcomp]
theorem K_prPlain (c : C) (x : Except Nat Pkt) (hx : ∀ p, x = .ok p → relRecv p = false) :
    K (prPlain c x) = K c := by
  cases x with
  | ok p => exact K_prPlain_ok c p (hx p rfl)
  | error e => simp [prPlain]
theorem K_prSubUnsuback (c : C) (b : Bool) (x : Except Nat Pkt) (hx : ∀ p, x = .ok p → relRecv p = false) :
    K (prSubUnsuback c b x) = K c := by
  cases x with
  | ok p => exact K_prSubUnsuback_ok c b p (hx p rfl)
  | error e => simp [prSubUnsuback]
theorem K_prPingreq (c : C) (x : Except Nat Pkt) (hx : ∀ p, x = .ok p → relRecv p = false) :
    K (prPingreq c x) = K c := by
  cases x with
  | ok p => exact K_prPingreq_ok c p (hx p rfl)
  | error e => simp [prPingreq]
theorem K_prPingresp (c : C) (x : Except Nat Pkt) (hx : ∀ p, x = .ok p → relRecv p = false) :
    K (prPingresp c x) = K c := by
  cases x with
  | ok p => exact K_prPingresp_ok c p (hx p rfl)
  | error e => simp [prPingresp]
theorem K_prDisconnect (c : C) (x : Except Nat Pkt) (hx : ∀ p, x = .ok p → relRecv p = false) :
    K (prDisconnect c x) = K c := by
  cases x with
  | ok p => exact K_prDisconnect_ok c p (hx p rfl)
  | error e => simp [prDisconnect]

/-! ## the remaining calls -/

theorem K_notifyTimerFired (c : C) (k : Timer) : K (notifyTimerFired c k) = K c := by
  unfold notifyTimerFired
  (repeat' (first | split | (simp only []; split))) <;> first | rfl | (simp_all [ite_K]; done) | (simp [ite_K]; rfl)
theorem K_notifyClosed (c : C) : K (notifyClosed c) = K c := by
  unfold notifyClosed
  simp only [K_cancelTimers]
  split <;> simp [K_mk, K_eta] <;> rfl
theorem K_setPingreqSendInterval (c : C) (d : Option Nat) : K (setPingreqSendInterval c d) = K c := by
  unfold setPingreqSendInterval; dk
theorem K_eraseStoredPublish (c : C) (id : Nat) : K (eraseStoredPublish c id) = K c := by
  unfold eraseStoredPublish; dk
theorem K_restoreOne (c : C) (p : Pkt) : K (restoreOne c p) = K c := by
  unfold restoreOne register; dk
theorem K_restorePackets (ps : List Pkt) : ∀ c, K (restorePackets c ps) = K c := by
  induction ps with
  | nil => intro c; rfl
  | cons p rest ih => intro c; rw [restorePackets, ih, K_restoreOne]

end MqttVerif.Conn.PF
