import MqttVerif.Conn.Lemmas.Restore
import MqttVerif.Conn.Lemmas.Session
/-!
# Helper lemmas: `send_stored` on two objects that hold the same store
-/
set_option linter.unusedSimpArgs false
set_option linter.unusedVariables false
namespace MqttVerif.Conn
open MqttVerif

/-- releasing a used identifier of a well-formed allocator: no panic, exactly that id freed -/
theorem deallocate_spec {cfg : Cfg} {a : Alloc.A} (h : PidWf cfg a) (ht : a.highest ≤ a.tmax) {v : Nat}
    (hv : Alloc.isUsed a v = true) :
    (Alloc.deallocate a v).1 = none ∧ PidWf cfg (Alloc.deallocate a v).2 ∧
    (Alloc.deallocate a v).2.highest ≤ (Alloc.deallocate a v).2.tmax ∧
    (∀ w, Alloc.isUsed (Alloc.deallocate a v).2 w = true ↔ (Alloc.isUsed a w = true ∧ w ≠ v)) := by
  have hv' := hv
  simp only [Alloc.isUsed, Bool.and_eq_true, decide_eq_true_eq, Bool.not_eq_true',
    decide_eq_false_iff_not] at hv'
  obtain ⟨⟨r1, r2⟩, hnf⟩ := hv'
  have hmax : ∀ iv ∈ a.pool, iv.hi ≤ a.tmax := fun iv hm => by
    have := Alloc.hi_le_of_free h.ok h.le iv hm
    have := h.hi; omega
  obtain ⟨p', hd, hf, hok⟩ := Alloc.deallocRaw_used (tmax := a.tmax) h.ok hnf (by have := h.lo; omega)
    hmax (by omega)
  have hr : (a.lowest ≤ v ∧ v ≤ a.highest) := ⟨r1, r2⟩
  simp only [Alloc.deallocate, hr, and_self, not_true_eq_false, if_false, hv, Bool.not_true,
    Bool.false_eq_true, hd]
  refine ⟨trivial, ⟨h.lo, h.hi, hok, ?_⟩, ht, ?_⟩
  · intro w hw
    rcases (hf w).1 hw with hw | hw
    · exact h.le w hw
    · have := h.hi; omega
  · intro w
    simp only [Alloc.isUsed, hf, Bool.and_eq_true, decide_eq_true_eq, Bool.not_eq_true',
      decide_eq_false_iff_not]
    constructor
    · rintro ⟨hr', hn⟩
      exact ⟨⟨hr', fun c => hn (Or.inl c)⟩, fun c => hn (Or.inr c)⟩
    · rintro ⟨⟨hr', hn⟩, hne⟩
      exact ⟨hr', fun c => c.elim hn hne⟩

/-- `releaseIfUsed` on a well-formed allocator -/
theorem releaseIfUsed_wf {cfg : Cfg} (c : C) (id : Nat) (h : PidWf cfg c.s.pidMan)
    (ht : c.s.pidMan.highest ≤ c.s.pidMan.tmax) :
    ∃ pm, PidWf cfg pm ∧ pm.highest ≤ pm.tmax ∧
      (∀ w, Alloc.isUsed pm w = true ↔ (isUsed c.s w = true ∧ w ≠ id)) ∧
      releaseIfUsed c id = ⟨c.cfg, { c.s with pidMan := pm }, 
        if isUsed c.s id then c.ev ++ [.released id] else c.ev⟩ := by
  unfold releaseIfUsed
  by_cases hu : isUsed c.s id = true
  · obtain ⟨d1, d2, d3, d4⟩ := deallocate_spec h ht (v := id) hu
    refine ⟨(Alloc.deallocate c.s.pidMan id).2, d2, d3, d4, ?_⟩
    simp only [hu, if_true, releaseId, d1, C.push]
  · refine ⟨c.s.pidMan, h, ht, ?_, ?_⟩
    · intro w
      simp only [isUsed] at hu ⊢
      constructor
      · intro hw; exact ⟨hw, fun e => hu (e ▸ hw)⟩
      · exact fun hw => hw.1
    · simp only [hu, if_false, Bool.false_eq_true]

/-! ## `send_stored` -/

/-- the non-oversize arm of the `send_stored` loop: count the exchange, request the send -/
def bump (c : C) (p : Pkt) : C :=
  let c := if c.s.sendMax.isSome then
      (if c.s.sendCount ≥ 4294967295 then c.setPanic "core.rs:send_stored:publish_send_count+=1" else c)
      |> fun c => { c with s := { c.s with sendCount := (c.s.sendCount + 1) % 4294967296 } }
    else c
  c.push (.send p none)

/-- the oversize arm first deletes the id from the three wait sets -/
def dropWait (c : C) (id : Nat) : C :=
  { c with s := { c.s with puback := del id c.s.puback, pubrec := del id c.s.pubrec,
                            pubcomp := del id c.s.pubcomp } }

theorem sendStoredLoop_cons (c : C) (id : Nat) (p : Pkt) (rest : List (Nat × Pkt)) :
    sendStoredLoop c ((id, p) :: rest) =
      if p.sz c.cfg.pw > c.s.mpsSend then sendStoredLoop (releaseIfUsed (dropWait c id) id) rest
      else ((sendStoredLoop (bump c p) rest).1, (id, p) :: (sendStoredLoop (bump c p) rest).2) := rfl

/-- delete all ids of `D` from a wait set -/
def delAll (D : List Nat) (l : List Nat) : List Nat := D.foldl (fun l d => del d l) l

/-- session bookkeeping `X` after `send_stored` dropped the (oversize) ids `D`: allocator `pm`,
    store `st`, the dropped ids deleted from the three wait sets, handled untouched -/
def dropSess (D : List Nat) (X : Sess) (pm : Alloc.A) (st : List (Nat × Pkt)) : Sess :=
  ⟨pm, delAll D X.puback, delAll D X.pubrec, delAll D X.pubcomp, st, X.handled⟩

theorem bump_ws (c : C) (X : Sess) (p : Pkt) : bump (c.ws X) p = (bump c p).ws X := by
  unfold bump
  have e1 : (c.ws X).s.sendMax = c.s.sendMax := rfl
  have e2 : (c.ws X).s.sendCount = c.s.sendCount := rfl
  simp only [e1, e2]
  by_cases h1 : c.s.sendMax.isSome = true
  · by_cases h2 : c.s.sendCount ≥ 4294967295
    · simp only [h1, h2, if_true]; rfl
    · simp only [h1, h2, if_true, if_false]; rfl
  · simp only [h1, if_false, Bool.false_eq_true]; rfl

theorem bump_sess (c : C) (p : Pkt) : (bump c p).s.sess = c.s.sess ∧ (bump c p).cfg = c.cfg := by
  unfold bump
  by_cases h1 : c.s.sendMax.isSome = true
  · by_cases h2 : c.s.sendCount ≥ 4294967295
    · simp only [h1, h2, if_true]; exact ⟨rfl, rfl⟩
    · simp only [h1, h2, if_true, if_false]; exact ⟨rfl, rfl⟩
  · simp only [h1, if_false, Bool.false_eq_true]; exact ⟨rfl, rfl⟩

/-- well-formed allocator including `highest ≤ T::MAX` -/
def PidWfT (cfg : Cfg) (a : Alloc.A) : Prop := PidWf cfg a ∧ a.highest ≤ a.tmax

/-- **`send_stored` on two objects that differ only in the session bookkeeping** (`c` and
    `c.ws X`), whose allocators are well-formed and agree on the identifiers of the list:
    same kept list, same events, same non-session state, the same ids `D` dropped (deleted
    from the wait sets on both sides); the allocators stay well-formed, keep agreeing wherever
    they agreed, and change only at identifiers of the list. -/
theorem sendStoredLoop_rel {cfg : Cfg} (l : List (Nat × Pkt)) (c : C) (X : Sess)
    (w1 : PidWfT cfg c.s.pidMan) (w2 : PidWfT cfg X.pidMan)
    (hag : ∀ e ∈ l, (isUsed c.s e.1 = true ↔ Alloc.isUsed X.pidMan e.1 = true)) :
    (sendStoredLoop c l).2 = (sendStoredLoop (c.ws X) l).2 ∧
    ∃ pm2 D, (sendStoredLoop (c.ws X) l).1 = (sendStoredLoop c l).1.ws (dropSess D X pm2 X.store) ∧
      PidWfT cfg pm2 ∧ PidWfT cfg (sendStoredLoop c l).1.s.pidMan ∧
      (sendStoredLoop c l).1.s.sess = dropSess D c.s.sess (sendStoredLoop c l).1.s.pidMan c.s.store ∧
      (sendStoredLoop c l).1.cfg = c.cfg ∧
      (∀ x, (isUsed c.s x = true ↔ Alloc.isUsed X.pidMan x = true) →
        (isUsed (sendStoredLoop c l).1.s x = true ↔ Alloc.isUsed pm2 x = true)) ∧
      (∀ x, x ∉ l.map (·.1) →
        (isUsed (sendStoredLoop c l).1.s x = true ↔ isUsed c.s x = true) ∧
        (Alloc.isUsed pm2 x = true ↔ Alloc.isUsed X.pidMan x = true)) ∧
      (∀ d ∈ D, d ∈ l.map (·.1)) := by
  induction l generalizing c X with
  | nil =>
    refine ⟨rfl, X.pidMan, [], ?_, w2, w1, ?_, rfl, fun x h => h, fun x _ => ⟨Iff.rfl, Iff.rfl⟩, by simp⟩
    · cases X; rfl
    · simp only [sendStoredLoop]; cases c.s; rfl
  | cons e rest ih =>
    obtain ⟨id, p⟩ := e
    rw [sendStoredLoop_cons, sendStoredLoop_cons]
    have e1 : (c.ws X).cfg = c.cfg := rfl
    have e2 : (c.ws X).s.mpsSend = c.s.mpsSend := rfl
    rw [e1, e2]
    by_cases hov : p.sz c.cfg.pw > c.s.mpsSend
    · simp only [hov, if_true]
      have hid := hag (id, p) (by simp)
      simp only at hid
      -- the wait-set deletion, on both sides
      let X1 : Sess := ⟨X.pidMan, del id X.puback, del id X.pubrec, del id X.pubcomp, X.store, X.handled⟩
      have hd : dropWait (c.ws X) id = (dropWait c id).ws X1 := rfl
      rw [hd]
      have hdu : ∀ x, isUsed (dropWait c id).s x = isUsed c.s x := fun _ => rfl
      have w1d : PidWfT cfg (dropWait c id).s.pidMan := w1
      obtain ⟨pm, a1, a2, a3, a4⟩ := releaseIfUsed_wf (dropWait c id) id w1d.1 w1d.2
      obtain ⟨pm', b1, b2, b3, b4⟩ := releaseIfUsed_wf ((dropWait c id).ws X1) id w2.1 w2.2
      have hev : (if isUsed ((dropWait c id).ws X1).s id = true then ((dropWait c id).ws X1).ev ++ [Ev.released id]
            else ((dropWait c id).ws X1).ev) =
          (if isUsed (dropWait c id).s id = true then (dropWait c id).ev ++ [Ev.released id] else (dropWait c id).ev) := by
        have : (isUsed ((dropWait c id).ws X1).s id = true) ↔ (isUsed (dropWait c id).s id = true) := by
          rw [hdu, hid]; rfl
        by_cases hh : isUsed (dropWait c id).s id = true
        · simp only [hh, this.2 hh, if_true]; rfl
        · have h2 : ¬ (isUsed ((dropWait c id).ws X1).s id = true) := fun c' => hh (this.1 c')
          simp only [hh, h2, if_false]; rfl
      have hc2 : releaseIfUsed ((dropWait c id).ws X1) id =
          (releaseIfUsed (dropWait c id) id).ws { X1 with pidMan := pm' } := by
        rw [b4, a4, hev]; rfl
      rw [hc2]
      have hag' : ∀ e ∈ rest, (isUsed (releaseIfUsed (dropWait c id) id).s e.1 = true ↔
          Alloc.isUsed ({ X1 with pidMan := pm' } : Sess).pidMan e.1 = true) := by
        intro e he
        have := hag e (by simp [he])
        rw [a4]
        simp only [isUsed]
        rw [a3, b3]
        have hx : isUsed ((dropWait c id).ws X1).s e.1 = Alloc.isUsed X.pidMan e.1 := rfl
        rw [hx, hdu, this]
      have w1' : PidWfT cfg (releaseIfUsed (dropWait c id) id).s.pidMan := by rw [a4]; exact ⟨a1, a2⟩
      obtain ⟨i1, pm2, D, i2, i3, i4, i5, i6, i7, i8, i9⟩ :=
        ih (releaseIfUsed (dropWait c id) id) { X1 with pidMan := pm' } w1' ⟨b1, b2⟩ hag'
      refine ⟨i1, pm2, id :: D, ?_, i3, i4, ?_, ?_, ?_, ?_, ?_⟩
      · rw [i2]; rfl
      · rw [i5, a4]; rfl
      · rw [i6, a4]; rfl
      · intro x hx
        apply i7
        rw [a4]; simp only [isUsed]; rw [a3, b3]
        have hx' : isUsed ((dropWait c id).ws X1).s x = Alloc.isUsed X.pidMan x := rfl
        rw [hx', hdu, hx]
      · intro x hx
        simp only [List.map_cons, List.mem_cons, not_or] at hx
        obtain ⟨j1, j2⟩ := i8 x hx.2
        constructor
        · rw [j1, a4]; simp only [isUsed]; rw [a3]
          exact ⟨fun h => h.1, fun h => ⟨h, hx.1⟩⟩
        · rw [j2]; simp only; rw [b3]
          exact ⟨fun h => h.1, fun h => ⟨h, hx.1⟩⟩
      · intro d hd'
        simp only [List.map_cons, List.mem_cons] at hd' ⊢
        rcases hd' with rfl | hd'
        · exact Or.inl rfl
        · exact Or.inr (i9 d hd')
    · simp only [hov, if_false]
      rw [bump_ws]
      obtain ⟨s1, s2⟩ := bump_sess c p
      have hpm : (bump c p).s.pidMan = c.s.pidMan := congrArg Sess.pidMan s1
      have hus : ∀ x, isUsed (bump c p).s x = isUsed c.s x := fun x => by simp only [isUsed, hpm]
      obtain ⟨i1, pm2, D, i2, i3, i4, i5, i6, i7, i8, i9⟩ := ih (bump c p) X (by rw [hpm]; exact w1) w2
        (fun e he => by rw [hus]; exact hag e (by simp [he]))
      refine ⟨by rw [i1], pm2, D, i2, i3, i4, ?_, ?_, ?_, ?_, ?_⟩
      · have hsto' : (bump c p).s.store = c.s.store := congrArg Sess.store s1
        rw [i5, s1, hsto']
      · rw [i6, s2]
      · intro x hx; apply i7; rw [hus]; exact hx
      · intro x hx
        simp only [List.map_cons, List.mem_cons, not_or] at hx
        obtain ⟨j1, j2⟩ := i8 x hx.2
        exact ⟨by rw [j1, hus], j2⟩
      · intro d hd'
        simp only [List.map_cons, List.mem_cons]
        exact Or.inr (i9 d hd')

/-- what `sendStoredLoop_rel` says about two allocators, packaged: `a` is the reference run's
    result, `pm2` the other run's -/
structure UsedRel (cfg : Cfg) (ids : List Nat) (a0 x0 a pm2 : Alloc.A) : Prop where
  wf1 : PidWfT cfg a
  wf2 : PidWfT cfg pm2
  agree : ∀ x, (Alloc.isUsed a0 x = true ↔ Alloc.isUsed x0 x = true) →
    (Alloc.isUsed a x = true ↔ Alloc.isUsed pm2 x = true)
  frame : ∀ x, x ∉ ids → (Alloc.isUsed a x = true ↔ Alloc.isUsed a0 x = true) ∧
    (Alloc.isUsed pm2 x = true ↔ Alloc.isUsed x0 x = true)

/-- `send_stored` after the counter reset -/
def sendStoredCore (c : C) : C :=
  let r := sendStoredLoop c c.s.store
  { r.1 with s := { r.1.s with store := r.2 } }

/-- the counter reset at the start of `send_stored` -/
def resetCount (c : C) : C :=
  if c.s.sendMax.isSome then { c with s := { c.s with sendCount := 0 } } else c

theorem sendStored_eq (c : C) : sendStored c = sendStoredCore (resetCount c) := rfl

theorem resetCount_ws (c : C) (X : Sess) : resetCount (c.ws X) = (resetCount c).ws X := by
  unfold resetCount
  have e : (c.ws X).s.sendMax = c.s.sendMax := rfl
  rw [e]
  by_cases h : c.s.sendMax.isSome = true
  · simp only [h, if_true]; rfl
  · simp only [h, if_false, Bool.false_eq_true]

theorem sendStoredCore_rel {cfg : Cfg} (c : C) (X : Sess) (hst : X.store = c.s.store)
    (w1 : PidWfT cfg c.s.pidMan) (w2 : PidWfT cfg X.pidMan)
    (hag : ∀ e ∈ c.s.store, (isUsed c.s e.1 = true ↔ Alloc.isUsed X.pidMan e.1 = true)) :
    ∃ pm2 D, sendStoredCore (c.ws X) = (sendStoredCore c).ws (dropSess D X pm2 (sendStoredCore c).s.store) ∧
      (sendStoredCore c).s.sess = dropSess D c.s.sess (sendStoredCore c).s.pidMan (sendStoredCore c).s.store ∧
      (∀ d ∈ D, d ∈ c.s.store.map (·.1)) ∧
      UsedRel cfg (c.s.store.map (·.1)) c.s.pidMan X.pidMan (sendStoredCore c).s.pidMan pm2 := by
  obtain ⟨i1, pm2, D, i2, i3, i4, i5, i6, i7, i8, i9⟩ := sendStoredLoop_rel c.s.store c X w1 w2 hag
  refine ⟨pm2, D, ?_, ?_, i9, ⟨i4, i3, i7, i8⟩⟩
  · unfold sendStoredCore
    have : (c.ws X).s.store = c.s.store := hst
    simp only [this]
    rw [i2, ← i1]; rfl
  · unfold sendStoredCore
    simp only []
    have := i5
    simp only [St.sess, dropSess, Sess.mk.injEq] at this ⊢
    obtain ⟨_, a2, a3, a4, _, a6⟩ := this
    exact ⟨trivial, a2, a3, a4, trivial, a6⟩

/-! ## the resume tail shared by the four CONNACK handlers -/

/-- `g` neither reads nor writes the session bookkeeping -/
def Blind (g : C → C) : Prop := ∀ (c : C) (X : Sess), g (c.ws X) = (g c).ws X

theorem ws_self (c : C) : c.ws c.s.sess = c := by
  obtain ⟨cfg, s, ev⟩ := c
  simp [C.ws]

theorem Blind.sess {g : C → C} (hg : Blind g) (c : C) : (g c).s.sess = c.s.sess := by
  have h := hg c c.s.sess
  rw [ws_self] at h
  have := congrArg (fun c : C => c.s.sess) h
  simp only [C.ws, sess_setSess] at this
  exact this

theorem Blind.comp {g h : C → C} (hg : Blind g) (hh : Blind h) : Blind (fun c => g (h c)) := by
  intro c X; simp only [hh c X]; exact hg (h c) X

theorem blind_push (e : Ev) : Blind (fun c => c.push e) := fun _ _ => rfl
theorem blind_sendPostProcess : Blind sendPostProcess := sendPostProcess_ws
theorem blind_setConnected : Blind (fun c => { c with s := { c.s with status := .connected } }) :=
  fun _ _ => rfl
theorem blind_propsFold {f : C → Nat → Nat → C} (hf : ∀ c X id v, f (C.ws c X) id v = (f c id v).ws X)
    (ps : List (Nat × Nat)) : Blind (fun c => propsFold f c ps) := fun c X => propsFold_ws hf c X ps

/-- `pre` (session-blind), then `send_stored`, then `post` (session-blind), on `c` and on
    `c.ws X` -/
theorem resume_core {cfg : Cfg} (pre post : C → C) (hpre : Blind pre) (hpost : Blind post)
    (c : C) (X : Sess) (hst : X.store = c.s.store)
    (w1 : PidWfT cfg c.s.pidMan) (w2 : PidWfT cfg X.pidMan)
    (hag : ∀ e ∈ c.s.store, (isUsed c.s e.1 = true ↔ Alloc.isUsed X.pidMan e.1 = true)) :
    let r := post (sendStored (pre c))
    ∃ pm2 D, post (sendStored (pre (c.ws X))) = r.ws (dropSess D X pm2 r.s.store) ∧
      r.s.sess = dropSess D c.s.sess r.s.pidMan r.s.store ∧
      (∀ d ∈ D, d ∈ c.s.store.map (·.1)) ∧
      UsedRel cfg (c.s.store.map (·.1)) c.s.pidMan X.pidMan r.s.pidMan pm2 := by
  have hpre' : Blind (fun c => resetCount (pre c)) := fun c X => by
    show resetCount (pre (c.ws X)) = _
    rw [hpre c X, resetCount_ws]
  have p1 := hpre'.sess c
  have hpm : (resetCount (pre c)).s.pidMan = c.s.pidMan := congrArg Sess.pidMan p1
  have hsto : (resetCount (pre c)).s.store = c.s.store := congrArg Sess.store p1
  obtain ⟨pm2, D, s1, s2, s3, s4⟩ := sendStoredCore_rel (cfg := cfg) (resetCount (pre c)) X (by rw [hsto]; exact hst)
    (by rw [hpm]; exact w1) w2 (by
      intro e he; rw [hsto] at he
      have := hag e he
      simp only [isUsed, hpm] at this ⊢; exact this)
  have q1 := hpost.sess (sendStoredCore (resetCount (pre c)))
  have hpm2 : (post (sendStoredCore (resetCount (pre c)))).s.pidMan = (sendStoredCore (resetCount (pre c))).s.pidMan :=
    congrArg Sess.pidMan q1
  have hsto2 : (post (sendStoredCore (resetCount (pre c)))).s.store = (sendStoredCore (resetCount (pre c))).s.store :=
    congrArg Sess.store q1
  simp only [sendStored_eq]
  refine ⟨pm2, D, ?_, ?_, ?_, ?_⟩
  · have e : resetCount (pre (c.ws X)) = (resetCount (pre c)).ws X := hpre' c X
    rw [e, s1, hpost, hsto2]
  · rw [q1, s2, p1, hpm2, hsto2]
  · rw [hsto] at s3; exact s3
  · rw [hpm2]; rw [hsto, hpm] at s4; exact s4

/-! ### `resendStored` (fix 999e935): `send_stored`, then the keep-alive re-arm iff something was resent -/

/-- "at least one stored packet was requested for sending again" -/
def resendCond (c : C) : Bool := ((sendStored c).ev.drop c.ev.length).any isSendEv

def rearmIf (b : Bool) (c : C) : C := if b then sendPostProcess c else c

theorem resendStored_eq_rearm (c : C) : resendStored c = rearmIf (resendCond c) (sendStored c) := by
  unfold resendStored rearmIf resendCond
  rfl

theorem blind_rearmIf (b : Bool) : Blind (rearmIf b) := by
  intro c X
  unfold rearmIf
  cases b
  · rfl
  · exact sendPostProcess_ws c X

/-- the re-arm decision is the same on two objects that differ only in the session bookkeeping
    and hold the same store -/
theorem resendCond_ws {cfg : Cfg} (pre : C → C) (hpre : Blind pre)
    (c : C) (X : Sess) (hst : X.store = c.s.store)
    (w1 : PidWfT cfg c.s.pidMan) (w2 : PidWfT cfg X.pidMan)
    (hag : ∀ e ∈ c.s.store, (isUsed c.s e.1 = true ↔ Alloc.isUsed X.pidMan e.1 = true)) :
    resendCond (pre (c.ws X)) = resendCond (pre c) := by
  obtain ⟨pm2, D, a, _⟩ := resume_core (cfg := cfg) pre id hpre (fun _ _ => rfl) c X hst w1 w2 hag
  simp only [id] at a
  unfold resendCond
  rw [a, hpre c X]
  rfl

theorem connackSendProp_ws (c : C) (X : Sess) (id v : Nat) :
    connackSendProp (c.ws X) id v = (connackSendProp c id v).ws X := by
  obtain ⟨cfg, s, ev⟩ := c
  simp only [connackSendProp, C.ws, setSess, C.push]
  (repeat' split) <;> simp_all <;> (repeat' split) <;> simp_all

/-- `connackRecvProp` is session-blind except for Session Expiry Interval 0 -/
theorem connackRecvProp_ws (c : C) (X : Sess) (id v : Nat) (h : ¬ (id = pSEI ∧ v = 0)) :
    connackRecvProp (c.ws X) id v = (connackRecvProp c id v).ws X := by
  obtain ⟨cfg, s, ev⟩ := c
  simp only [connackRecvProp, C.ws, setSess, C.setPanic, clearStoreRelated, C.push]
  (repeat' split) <;> simp_all <;> (repeat' split) <;> simp_all

theorem propsFold_ws' {f : C → Nat → Nat → C} (ps : List (Nat × Nat))
    (hf : ∀ e ∈ ps, ∀ c X, f (C.ws c X) e.1 e.2 = (f c e.1 e.2).ws X) :
    Blind (fun c => propsFold f c ps) := by
  induction ps with
  | nil => intro c X; rfl
  | cons e rest ih =>
    obtain ⟨id, v⟩ := e
    intro c X
    simp only [propsFold]
    rw [hf (id, v) (by simp) c X]
    exact ih (fun e he => hf e (by simp [he])) _ X

end MqttVerif.Conn
