import MqttVerif.Conn.Lemmas.PairExchange4
/-!
# Helpers for `Props/C01L2c.lean` (T5): two same-direction exchanges in flight, one loss after `k` deliveries

`l2c_t5_k<k>`, `k = 0 … 8`: for both versions, the four QoS combinations and both directions, the run
`drain 8 (resume v (lose (drain k (startTwo v d P1 P2))))` computed with the step lemmas
(`run5`, `PairExchange4.lean`): it ends in the idle established session with the notifications `t5notes`.
-/
set_option linter.unusedSimpArgs false
set_option linter.unusedVariables false
namespace MqttVerif.Conn.Pair
open MqttVerif MqttVerif.Conn
section
variable {v q1 q2 : Nat} {P1 P2 : Pkt}

theorem l2c_t5_k0 (hv : v = 4 ∨ v = 5) (h1 : q1 = 1 ∨ q1 = 2) (h2 : q2 = 1 ∨ q2 = 2)
    (hA : IsPub v q1 P1) (hB : IsPubN v q2 2 P2) (d : Bool) :
    Obs d (established v) (t5notes d q1 q2 0 P1 P2) (t5rel q1 q2)
      (drain 8 (resume v (lose (drain 0 (startTwo v d P1 P2))))) := by
  have hv' := hv; have h1' := h1; have h2' := h2
  rcases hv' with rfl | rfl <;> rcases h1' with rfl | rfl <;> rcases h2' with rfl | rfl <;> cases d <;>
    run5 hv h1 hA h2 hB [t5notes, t5rel]

theorem l2c_t5_k1 (hv : v = 4 ∨ v = 5) (h1 : q1 = 1 ∨ q1 = 2) (h2 : q2 = 1 ∨ q2 = 2)
    (hA : IsPub v q1 P1) (hB : IsPubN v q2 2 P2) (d : Bool) :
    Obs d (established v) (t5notes d q1 q2 1 P1 P2) (t5rel q1 q2)
      (drain 8 (resume v (lose (drain 1 (startTwo v d P1 P2))))) := by
  have hv' := hv; have h1' := h1; have h2' := h2
  rcases hv' with rfl | rfl <;> rcases h1' with rfl | rfl <;> rcases h2' with rfl | rfl <;> cases d <;>
    run5 hv h1 hA h2 hB [t5notes, t5rel]

theorem l2c_t5_k2 (hv : v = 4 ∨ v = 5) (h1 : q1 = 1 ∨ q1 = 2) (h2 : q2 = 1 ∨ q2 = 2)
    (hA : IsPub v q1 P1) (hB : IsPubN v q2 2 P2) (d : Bool) :
    Obs d (established v) (t5notes d q1 q2 2 P1 P2) (t5rel q1 q2)
      (drain 8 (resume v (lose (drain 2 (startTwo v d P1 P2))))) := by
  have hv' := hv; have h1' := h1; have h2' := h2
  rcases hv' with rfl | rfl <;> rcases h1' with rfl | rfl <;> rcases h2' with rfl | rfl <;> cases d <;>
    run5 hv h1 hA h2 hB [t5notes, t5rel]

theorem l2c_t5_k3 (hv : v = 4 ∨ v = 5) (h1 : q1 = 1 ∨ q1 = 2) (h2 : q2 = 1 ∨ q2 = 2)
    (hA : IsPub v q1 P1) (hB : IsPubN v q2 2 P2) (d : Bool) :
    Obs d (established v) (t5notes d q1 q2 3 P1 P2) (t5rel q1 q2)
      (drain 8 (resume v (lose (drain 3 (startTwo v d P1 P2))))) := by
  have hv' := hv; have h1' := h1; have h2' := h2
  rcases hv' with rfl | rfl <;> rcases h1' with rfl | rfl <;> rcases h2' with rfl | rfl <;> cases d <;>
    run5 hv h1 hA h2 hB [t5notes, t5rel]

theorem l2c_t5_k4 (hv : v = 4 ∨ v = 5) (h1 : q1 = 1 ∨ q1 = 2) (h2 : q2 = 1 ∨ q2 = 2)
    (hA : IsPub v q1 P1) (hB : IsPubN v q2 2 P2) (d : Bool) :
    Obs d (established v) (t5notes d q1 q2 4 P1 P2) (t5rel q1 q2)
      (drain 8 (resume v (lose (drain 4 (startTwo v d P1 P2))))) := by
  have hv' := hv; have h1' := h1; have h2' := h2
  rcases hv' with rfl | rfl <;> rcases h1' with rfl | rfl <;> rcases h2' with rfl | rfl <;> cases d <;>
    run5 hv h1 hA h2 hB [t5notes, t5rel]

theorem l2c_t5_k5 (hv : v = 4 ∨ v = 5) (h1 : q1 = 1 ∨ q1 = 2) (h2 : q2 = 1 ∨ q2 = 2)
    (hA : IsPub v q1 P1) (hB : IsPubN v q2 2 P2) (d : Bool) :
    Obs d (established v) (t5notes d q1 q2 5 P1 P2) (t5rel q1 q2)
      (drain 8 (resume v (lose (drain 5 (startTwo v d P1 P2))))) := by
  have hv' := hv; have h1' := h1; have h2' := h2
  rcases hv' with rfl | rfl <;> rcases h1' with rfl | rfl <;> rcases h2' with rfl | rfl <;> cases d <;>
    run5 hv h1 hA h2 hB [t5notes, t5rel]

theorem l2c_t5_k6 (hv : v = 4 ∨ v = 5) (h1 : q1 = 1 ∨ q1 = 2) (h2 : q2 = 1 ∨ q2 = 2)
    (hA : IsPub v q1 P1) (hB : IsPubN v q2 2 P2) (d : Bool) :
    Obs d (established v) (t5notes d q1 q2 6 P1 P2) (t5rel q1 q2)
      (drain 8 (resume v (lose (drain 6 (startTwo v d P1 P2))))) := by
  have hv' := hv; have h1' := h1; have h2' := h2
  rcases hv' with rfl | rfl <;> rcases h1' with rfl | rfl <;> rcases h2' with rfl | rfl <;> cases d <;>
    run5 hv h1 hA h2 hB [t5notes, t5rel]

theorem l2c_t5_k7 (hv : v = 4 ∨ v = 5) (h1 : q1 = 1 ∨ q1 = 2) (h2 : q2 = 1 ∨ q2 = 2)
    (hA : IsPub v q1 P1) (hB : IsPubN v q2 2 P2) (d : Bool) :
    Obs d (established v) (t5notes d q1 q2 7 P1 P2) (t5rel q1 q2)
      (drain 8 (resume v (lose (drain 7 (startTwo v d P1 P2))))) := by
  have hv' := hv; have h1' := h1; have h2' := h2
  rcases hv' with rfl | rfl <;> rcases h1' with rfl | rfl <;> rcases h2' with rfl | rfl <;> cases d <;>
    run5 hv h1 hA h2 hB [t5notes, t5rel]

theorem l2c_t5_k8 (hv : v = 4 ∨ v = 5) (h1 : q1 = 1 ∨ q1 = 2) (h2 : q2 = 1 ∨ q2 = 2)
    (hA : IsPub v q1 P1) (hB : IsPubN v q2 2 P2) (d : Bool) :
    Obs d (established v) (t5notes d q1 q2 8 P1 P2) (t5rel q1 q2)
      (drain 8 (resume v (lose (drain 8 (startTwo v d P1 P2))))) := by
  have hv' := hv; have h1' := h1; have h2' := h2
  rcases hv' with rfl | rfl <;> rcases h1' with rfl | rfl <;> rcases h2' with rfl | rfl <;> cases d <;>
    run5 hv h1 hA h2 hB [t5notes, t5rel]

end
end MqttVerif.Conn.Pair
