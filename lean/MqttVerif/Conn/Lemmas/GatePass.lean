import MqttVerif.Conn.Lemmas.Gates
/-!
# Helper lemmas for C11: a call that passes the gate emits no gate error

`Ext c c'`: the events of `c'` are those of `c` followed by events none of which is
`NotifyError(VersionMismatch)` / `NotifyError(PacketNotAllowedToSend)`.
-/
set_option linter.unusedSimpArgs false
set_option linter.unusedVariables false
namespace MqttVerif.Conn
open MqttVerif

/-- the two error events by which the gate of `send` refuses -/
def gateErr : Ev → Bool
  | .error e => e == eVersionMismatch || e == eNotAllowed
  | _ => false

def gateFree (t : List Ev) : Bool := t.all (fun e => !gateErr e)

/-- the first event is a gate error -/
def gateRefusedEv : List Ev → Bool
  | e :: _ => gateErr e
  | [] => false

theorem gateRefusedEv_of_free {t : List Ev} (h : gateFree t = true) : gateRefusedEv t = false := by
  cases t with
  | nil => rfl
  | cons e r => simp [gateFree] at h; simp [gateRefusedEv, h.1]

def Ext (c c' : C) : Prop := ∃ t, c'.ev = c.ev ++ t ∧ gateFree t = true

theorem Ext.refl (c : C) : Ext c c := ⟨[], by simp, rfl⟩
theorem Ext.of_ev {c c' : C} (h : c'.ev = c.ev) : Ext c c' := ⟨[], by simp [h], rfl⟩
theorem Ext.trans {a b c : C} (h1 : Ext a b) (h2 : Ext b c) : Ext a c := by
  obtain ⟨t1, e1, f1⟩ := h1; obtain ⟨t2, e2, f2⟩ := h2
  refine ⟨t1 ++ t2, by rw [e2, e1, List.append_assoc], ?_⟩
  simp [gateFree] at *; exact ⟨f1, f2⟩
theorem Ext.push {a b : C} (h : Ext a b) (e : Ev) (he : gateErr e = false) : Ext a (b.push e) :=
  Ext.trans h ⟨[e], rfl, by simp [gateFree, he]⟩
theorem Ext.err {a b : C} (h : Ext a b) (e : Nat) (h1 : e ≠ eVersionMismatch) (h2 : e ≠ eNotAllowed) :
    Ext a (b.err e) :=
  Ext.push h (.error e) (by simp [gateErr, h1, h2])
theorem Ext.setS {a b : C} (h : Ext a b) (s : St) : Ext a { b with s := s } := Ext.trans h (Ext.of_ev rfl)
theorem Ext.setPanic {a b : C} (h : Ext a b) (m : String) : Ext a (b.setPanic m) :=
  Ext.trans h (Ext.of_ev rfl)

theorem ext_cancelTimers (c : C) : Ext c (cancelTimers c) := by
  rw [cancelTimers_eq]
  refine ⟨cancelEvs c.s, rfl, ?_⟩
  unfold cancelEvs gateFree
  cases c.s.sendSet <;> cases c.s.recvSet <;> cases c.s.respSet <;> rfl

theorem ext_sendPostProcess (c : C) : Ext c (sendPostProcess c) := by
  rw [sendPostProcess_eq]
  split
  · split
    · exact ⟨_, rfl, rfl⟩
    · exact Ext.refl c
  · exact Ext.refl c

theorem ext_releaseIfUsed (c : C) (id : Nat) : Ext c (releaseIfUsed c id) := by
  rw [releaseIfUsed_eq]
  refine ⟨releasedEv c.s id, rfl, ?_⟩
  unfold releasedEv; split <;> rfl

theorem ext_sendStoredLoop (c : C) (l : List (Nat × Pkt)) : Ext c (sendStoredLoop c l).1 := by
  induction l generalizing c with
  | nil => exact Ext.refl c
  | cons x rest ih =>
    obtain ⟨id, p⟩ := x
    unfold sendStoredLoop
    split
    · dsimp only
      refine Ext.trans ?_ (ih _)
      refine Ext.trans ?_ (ext_releaseIfUsed _ _)
      exact Ext.of_ev rfl
    · simp only []
      refine Ext.trans ?_ (ih _)
      refine Ext.push ?_ _ rfl
      split
      · exact Ext.of_ev (by split <;> rfl)
      · exact Ext.refl c

theorem ext_sendStored (c : C) : Ext c (sendStored c) := by
  unfold sendStored; dsimp only
  refine Ext.setS (Ext.trans ?_ (ext_sendStoredLoop _ _)) _
  split
  · exact Ext.of_ev rfl
  · exact Ext.refl c

theorem propsFold_ev (f : C → Nat → Nat → C) (hf : ∀ c a b, Ext c (f c a b)) (c : C)
    (l : List (Nat × Nat)) : Ext c (propsFold f c l) := by
  induction l generalizing c with
  | nil => exact Ext.refl c
  | cons x rest ih => obtain ⟨a, b⟩ := x; unfold propsFold; exact Ext.trans (hf c a b) (ih _)

theorem ext_connackSendProp (c : C) (a b : Nat) : Ext c (connackSendProp c a b) := by
  unfold connackSendProp
  (repeat' split) <;> first
    | exact Ext.refl c
    | exact Ext.of_ev rfl
    | exact ⟨_, rfl, rfl⟩

theorem ext_connectSendProp (c : C) (a b : Nat) : Ext c (connectSendProp c a b) := by
  unfold connectSendProp
  (repeat' split) <;> first
    | exact Ext.refl c
    | exact Ext.of_ev rfl

theorem ext_storeAdd (c : C) (id : Nat) (p : Pkt) (m : String) : Ext c (storeAdd c id p m) := by
  unfold storeAdd; split <;> exact Ext.of_ev rfl

theorem storeAdd_tas (c : C) (id : Nat) (p : Pkt) (m : String) : (storeAdd c id p m).s.tas = c.s.tas := by
  unfold storeAdd; split <;> rfl
theorem storeAdd_status (c : C) (id : Nat) (p : Pkt) (m : String) :
    (storeAdd c id p m).s.status = c.s.status := by
  unfold storeAdd; split <;> rfl

theorem ext_tasInsert (c : C) (t : List Nat) (a : Nat) (m : String) : Ext c (tasInsert c t a m) := by
  unfold tasInsert; (repeat' split) <;> exact Ext.of_ev rfl

theorem ext_autoAlias (c : C) (p : Pkt) : Ext c (autoAlias c p).1 := by
  unfold autoAlias
  (repeat' split) <;> (try dsimp only) <;> (repeat' split) <;> first
    | exact Ext.refl c
    | exact ext_tasInsert c _ _ _

theorem releaseId_ev (c : C) (id : Nat) : (releaseId c id).ev = c.ev := by
  unfold releaseId; dsimp only; split <;> rfl

theorem ext_pubRefuseCleanup (c : C) (pid : Option Nat) : Ext c (pubRefuseCleanup c pid) := by
  unfold pubRefuseCleanup
  split
  · exact Ext.refl c
  · split
    · exact Ext.push (Ext.of_ev (releaseId_ev c _)) _ rfl
    · exact Ext.refl c

/-! ## every `process_send_*` past its gate -/

theorem Ext.push' {a b : C} (e : Ev) (he : gateErr e = false) (h : Ext a b) : Ext a (b.push e) :=
  Ext.push h e he
theorem Ext.err' {a b : C} (e : Nat) (he : gateErr (.error e) = false) (h : Ext a b) : Ext a (b.err e) :=
  Ext.push h _ he

/-- one structural step of an `Ext` proof (`setS` last: by structure eta it always applies) -/
macro "ext_step" : tactic => `(tactic| first
  | (with_reducible exact Ext.refl _)
  | (with_reducible exact ext_storeAdd _ _ _ _)
  | (with_reducible exact ext_tasInsert _ _ _ _)
  | (with_reducible exact Ext.of_ev rfl)
  | (with_reducible refine Ext.trans ?_ (ext_sendPostProcess _))
  | (with_reducible refine Ext.trans ?_ (ext_cancelTimers _))
  | (with_reducible refine Ext.trans ?_ (ext_storeAdd _ _ _ _))
  | (with_reducible refine Ext.trans ?_ (ext_tasInsert _ _ _ _))
  | (with_reducible refine Ext.trans ?_ (ext_releaseIfUsed _ _))
  | (with_reducible refine Ext.trans ?_ (ext_pubRefuseCleanup _ _))
  | ((with_reducible refine Ext.err' _ ?_ ?_); (rfl))
  | ((with_reducible refine Ext.push' _ ?_ ?_); (rfl))
  | (with_reducible refine Ext.setPanic ?_ _)
  | split
  | (with_reducible refine Ext.setS ?_ _))

macro "ext_auto" : tactic => `(tactic| iterate 60 (try (any_goals ext_step)))

theorem pass_psV3Connect (c : C) (p : Pkt) (h : c.s.status = .disconnected) : Ext c (psV3Connect c p) := by
  unfold psV3Connect
  rw [if_neg (by simp [h])]
  dsimp only
  refine Ext.trans ?_ (ext_sendPostProcess _)
  refine Ext.push ?_ _ rfl
  refine Ext.setS ?_ _
  split <;> exact Ext.of_ev rfl

theorem pass_psV5Connect (c : C) (p : Pkt) (hs : sizeOk c p = true) (h : c.s.status = .disconnected) :
    Ext c (psV5Connect c p) := by
  unfold psV5Connect
  rw [if_neg (by simp [hs]), if_neg (by simp [h])]
  dsimp only
  refine Ext.trans ?_ (ext_sendPostProcess _)
  refine Ext.push ?_ _ rfl
  refine Ext.trans ?_ (propsFold_ev _ ext_connectSendProp _ _)
  split <;> exact Ext.of_ev rfl

theorem pass_connackTail (c c0 : C) (p : Pkt) (h : Ext c0 c) :
    Ext c0 (if p.rc ≠ some 0 then
        (cancelTimers { c with s := { c.s with status := .disconnected } }).push .close
      else sendPostProcess (if p.sp then sendStored { c with s := { c.s with status := .connected } }
        else clearStoreRelated { c with s := { c.s with status := .connected } })) := by
  split
  · exact Ext.push (Ext.trans (Ext.setS h _) (ext_cancelTimers _)) _ rfl
  · refine Ext.trans ?_ (ext_sendPostProcess _)
    split
    · exact Ext.trans (Ext.setS h _) (ext_sendStored _)
    · exact Ext.trans (Ext.setS h _) (Ext.of_ev rfl)

theorem pass_psV3Connack (c : C) (p : Pkt) (h : c.s.status = .connecting) : Ext c (psV3Connack c p) := by
  unfold psV3Connack
  rw [if_neg (by simp [h])]
  exact pass_connackTail _ c p (Ext.push (Ext.refl c) _ rfl)

theorem pass_psV5Connack (c : C) (p : Pkt) (hs : sizeOk c p = true) (h : c.s.status = .connecting) :
    Ext c (psV5Connack c p) := by
  unfold psV5Connack
  rw [if_neg (by simp [hs]), if_neg (by simp [h])]
  refine pass_connackTail _ c p (Ext.push ?_ _ rfl)
  split
  · exact propsFold_ev _ ext_connackSendProp _ _
  · exact Ext.refl c

theorem pass_psV3Simple (c : C) (p : Pkt) (h : c.s.status = .connected) : Ext c (psV3Simple c p) := by
  unfold psV3Simple
  rw [if_neg (by simp [h])]
  exact Ext.trans (Ext.push (Ext.refl c) _ rfl) (ext_sendPostProcess _)

theorem pass_psV5Simple (c : C) (p : Pkt) (hs : sizeOk c p = true) (h : c.s.status = .connected) :
    Ext c (psV5Simple c p) := by
  unfold psV5Simple
  rw [if_neg (by simp [hs]), if_neg (by simp [h])]
  exact Ext.trans (Ext.push (Ext.refl c) _ rfl) (ext_sendPostProcess _)

theorem pass_psV5Puback (c : C) (p : Pkt) (hs : sizeOk c p = true) (h : c.s.status = .connected) :
    Ext c (psV5Puback c p) := by
  unfold psV5Puback
  rw [if_neg (by simp [hs]), if_neg (by simp [h])]
  exact Ext.trans (Ext.push (Ext.setS (Ext.refl c) _) _ rfl) (ext_sendPostProcess _)

theorem pass_psV5Pubrec (c : C) (p : Pkt) (hs : sizeOk c p = true) (h : c.s.status = .connected) :
    Ext c (psV5Pubrec c p) := by
  unfold psV5Pubrec
  rw [if_neg (by simp [hs]), if_neg (by simp [h])]
  dsimp only
  ext_auto

theorem pass_psV3Disconnect (c : C) (p : Pkt) (h : c.s.status = .connected) : Ext c (psV3Disconnect c p) := by
  unfold psV3Disconnect
  rw [if_neg (by simp [h])]
  exact Ext.push (Ext.push (Ext.trans (Ext.setS (Ext.refl c) _) (ext_cancelTimers _)) _ rfl) _ rfl

theorem pass_psV5Disconnect (c : C) (p : Pkt) (hs : sizeOk c p = true) (h : c.s.status = .connected) :
    Ext c (psV5Disconnect c p) := by
  unfold psV5Disconnect
  rw [if_neg (by simp [hs]), if_neg (by simp [h])]
  exact Ext.push (Ext.push (Ext.trans (Ext.setS (Ext.refl c) _) (ext_cancelTimers _)) _ rfl) _ rfl

theorem pass_psV5Auth (c : C) (p : Pkt) (hs : sizeOk c p = true) (h : c.s.status ≠ .disconnected) :
    Ext c (psV5Auth c p) := by
  unfold psV5Auth
  rw [if_neg (by simp [hs]), if_neg h]
  exact Ext.trans (Ext.push (Ext.refl c) _ rfl) (ext_sendPostProcess _)

theorem pass_psPingreq (c : C) (p : Pkt) (hs : tooLarge c p = false) (h : c.s.status = .connected) :
    Ext c (psPingreq c p) := by
  unfold psPingreq
  have h1 : ¬ (p.ver = 5 ∧ (!sizeOk c p) = true) := by
    simp only [tooLarge, Bool.and_eq_false_imp, decide_eq_true_eq] at hs
    intro ⟨a, b⟩; simp [hs a] at b
  rw [if_neg h1, if_neg (by simp [h])]
  dsimp only
  refine Ext.trans ?_ (ext_sendPostProcess _)
  split
  · exact Ext.push (Ext.setS (Ext.push (Ext.refl c) _ rfl) _) _ rfl
  · exact Ext.push (Ext.refl c) _ rfl

theorem pass_psPubrel (c : C) (p : Pkt) (hs : tooLarge c p = false)
    (h : c.s.status = .connected ∨ c.s.needStore = true) : Ext c (psPubrel c p) := by
  unfold psPubrel
  have h1 : ¬ (p.ver = 5 ∧ (!sizeOk c p) = true) := by
    simp only [tooLarge, Bool.and_eq_false_imp, decide_eq_true_eq] at hs
    intro ⟨a, b⟩; simp [hs a] at b
  have h2 : ¬ (c.s.status ≠ .connected ∧ (!c.s.needStore) = true) := by
    intro ⟨a, b⟩; rcases h with h | h
    · exact a h
    · simp [h] at b
  rw [if_neg h1, if_neg h2]
  dsimp only
  ext_auto

theorem pass_psSubUnsub (c : C) (p : Pkt) (hs : tooLarge c p = false) (h : c.s.status = .connected) :
    Ext c (psSubUnsub c p) := by
  unfold psSubUnsub
  have h1 : ¬ (p.ver = 5 ∧ (!sizeOk c p) = true) := by
    simp only [tooLarge, Bool.and_eq_false_imp, decide_eq_true_eq] at hs
    intro ⟨a, b⟩; simp [hs a] at b
  dsimp only
  rw [if_neg h1, if_neg (by simp [h])]
  split
  · exact Ext.err (Ext.refl c) _ (by decide) (by decide)
  · refine Ext.trans (Ext.push ?_ _ rfl) (ext_sendPostProcess _)
    split <;> exact Ext.of_ev rfl

theorem pass_psV3Publish (c : C) (p : Pkt) (hid : p.qos > 0 → p.pid.isSome = true)
    (h : if p.qos > 0 then pubNotAllowed c.s = false else c.s.status = .connected) :
    Ext c (psV3Publish c p) := by
  unfold psV3Publish
  by_cases hq : p.qos > 0
  · rw [if_pos hq] at h; rw [if_pos hq]
    obtain ⟨id, hp⟩ := Option.isSome_iff_exists.mp (hid hq)
    rw [hp]; dsimp only
    rw [if_neg (by simp [h])]
    ext_auto
  · rw [if_neg hq] at h; rw [if_neg hq, if_neg (by simp [h])]
    exact Ext.trans (Ext.push (Ext.refl c) _ rfl) (ext_sendPostProcess _)

/-! ### v5.0 PUBLISH -/

theorem ext_psV5PublishTail (c : C) (p : Pkt) (rel : Option Nat) : Ext c (psV5PublishTail c p rel) := by
  unfold psV5PublishTail
  dsimp only
  ext_auto

theorem validateTopicAliasRange_tas {s s' : St} (h : s'.tas = s.tas) (a : Nat) :
    validateTopicAliasRange s' a = validateTopicAliasRange s a := by
  unfold validateTopicAliasRange; rw [h]

macro "ext_step2" : tactic => `(tactic| first
  | assumption
  | (with_reducible refine Ext.trans ?_ (ext_psV5PublishTail _ _ _))
  | (with_reducible refine Ext.trans ?_ (ext_autoAlias _ _))
  | ext_step)

macro "ext_auto2" : tactic => `(tactic| iterate 60 (try (any_goals ext_step2)))

/-- a PUBLISH with a topic name whose alias (if any) is within the peer's Topic Alias Maximum -/
theorem pass_psV5PublishAlias (c0 c : C) (s0 : St) (p : Pkt) (rel : Option Nat) (validated : Bool)
    (h0 : Ext c0 c) (htas : c.s.tas = s0.tas) (ht : p.topic.isEmpty = false)
    (hal : ∀ a, p.alias = some a → validateTopicAliasRange s0 a = true) :
    Ext c0 (psV5PublishAlias c p rel validated) := by
  unfold psV5PublishAlias
  dsimp only
  rw [ht]
  simp only [Bool.false_eq_true, if_false]
  cases hp : p.alias with
  | none =>
    dsimp only
    ext_auto2
  | some a =>
    dsimp only
    rw [validateTopicAliasRange_tas htas, hal a hp]
    simp only [if_true]
    ext_auto2

/-- what `validate_topic_alias` answers: a function of the alias and the send-side table only -/
def aliasLookup (tas : Option TAS) (ao : Option Nat) : Option (List Nat) :=
  match ao, tas with
  | some a, some t => if a = 0 ∨ a > t.max then none else (t.get a).1
  | _, _ => none

theorem validateTopicAlias_fst (c : C) (ao : Option Nat) :
    (validateTopicAlias c ao).1 = aliasLookup c.s.tas ao := by
  unfold validateTopicAlias aliasLookup validateTopicAliasRange
  cases ao with
  | none => rfl
  | some a =>
    cases ht : c.s.tas with
    | none => simp
    | some t =>
      by_cases hr : a = 0 ∨ a > t.max
      · simp [hr]
      · simp [hr]

theorem ext_validateTopicAlias (c : C) (ao : Option Nat) : Ext c (validateTopicAlias c ao).2 := by
  unfold validateTopicAlias
  (repeat' split) <;> first
    | exact Ext.refl c
    | exact Ext.of_ev rfl

/-- a PUBLISH without topic name whose alias resolves (or was resolved before storing) -/
theorem pass_psV5PublishAlias_empty (c0 c : C) (p : Pkt) (rel : Option Nat) (validated : Bool)
    (h0 : Ext c0 c) (ht : p.topic.isEmpty = true)
    (hv : validated = true ∨ (aliasLookup c.s.tas p.alias).isSome = true) :
    Ext c0 (psV5PublishAlias c p rel validated) := by
  unfold psV5PublishAlias
  dsimp only
  rw [ht]
  simp only [if_true]
  cases validated with
  | true =>
    simp only [Bool.not_true, Bool.false_eq_true, false_and, if_false, if_true]
    ext_auto2
  | false =>
    have hl : (aliasLookup c.s.tas p.alias).isSome = true := by
      rcases hv with hv | hv
      · exact absurd hv (by simp)
      · exact hv
    have hn : (validateTopicAlias c p.alias).1.isNone = false := by
      rw [validateTopicAlias_fst]; cases h : aliasLookup c.s.tas p.alias <;> simp_all
    simp only [Bool.false_eq_true, if_false, hn, and_false]
    have h1 : Ext c0 (validateTopicAlias c p.alias).2 := Ext.trans h0 (ext_validateTopicAlias _ _)
    ext_auto2

theorem pass_psV5Publish (c : C) (p : Pkt) (hs : sizeOk c p = true)
    (hid : p.qos > 0 → p.pid.isSome = true)
    (h : if p.qos > 0 then pubNotAllowed c.s = false else c.s.status = .connected)
    (hal : if p.topic.isEmpty then (aliasLookup c.s.tas p.alias).isSome = true
           else ∀ a, p.alias = some a → validateTopicAliasRange c.s a = true) :
    Ext c (psV5Publish c p) := by
  unfold psV5Publish
  rw [if_neg (by simp [hs])]
  by_cases ht : p.topic.isEmpty = true
  · rw [if_pos ht] at hal
    by_cases hq : p.qos > 0
    · rw [if_pos hq] at h; rw [if_pos hq]
      obtain ⟨id, hp⟩ := Option.isSome_iff_exists.mp (hid hq)
      rw [hp]; dsimp only
      rw [if_neg (by simp [h])]
      split
      · exact Ext.err (Ext.refl c) _ (by decide) (by decide)
      · split
        · try rw [if_pos ht]
          obtain ⟨t, htp⟩ := Option.isSome_iff_exists.mp hal
          have hf : (validateTopicAlias c p.alias).1 = some t := by rw [validateTopicAlias_fst, htp]
          rw [hf]
          dsimp only
          refine pass_psV5PublishAlias_empty c _ p none true ?_ ht (Or.inl rfl)
          have h1 : Ext c (validateTopicAlias c p.alias).2 := ext_validateTopicAlias _ _
          ext_auto2
        · refine pass_psV5PublishAlias_empty c _ p (some id) false ?_ ht (Or.inr ?_)
          · ext_auto
          · split <;> exact hal
    · rw [if_neg hq] at h; rw [if_neg hq, if_neg (by simp [h])]
      exact pass_psV5PublishAlias_empty c c p none false (Ext.refl c) ht (Or.inr hal)
  · have ht' : p.topic.isEmpty = false := by simpa using ht
    rw [if_neg ht] at hal
    by_cases hq : p.qos > 0
    · rw [if_pos hq] at h; rw [if_pos hq]
      obtain ⟨id, hp⟩ := Option.isSome_iff_exists.mp (hid hq)
      rw [hp]; dsimp only
      rw [if_neg (by simp [h])]
      split
      · exact Ext.err (Ext.refl c) _ (by decide) (by decide)
      · split
        · try rw [if_neg ht]
          refine pass_psV5PublishAlias c _ c.s p none false ?_ ?_ ht' hal
          · ext_auto
          · split <;> exact storeAdd_tas _ _ _ _
        · refine pass_psV5PublishAlias c _ c.s p (some id) false ?_ ?_ ht' hal
          · ext_auto
          · split <;> rfl
    · rw [if_neg hq] at h; rw [if_neg hq, if_neg (by simp [h])]
      exact pass_psV5PublishAlias c c c.s p none false (Ext.refl c) rfl ht' hal

/-! ## `processSend` / `send` past the gate -/

/-- the packet is not a v5.0 PUBLISH that depends on the Topic Alias table being in a
    particular state (alias refusals are C13's subject): either it has a topic name and its
    alias, if any, is within the peer's Topic Alias Maximum; or it has none and its alias
    resolves in the send-side alias table -/
def AliasFine (s : St) (p : Pkt) : Prop :=
  p.ver = 5 → p.kind = .publish →
    if p.topic.isEmpty then (aliasLookup s.tas p.alias).isSome = true
    else ∀ a, p.alias = some a → validateTopicAliasRange s a = true

theorem pub_gate_of_spec (s : St) (qos : Nat)
    (h : Spec.stateMaySend s.status .publish qos s.needStore s.offline = true) :
    if qos > 0 then pubNotAllowed s = false else s.status = .connected := by
  simp only [Spec.stateMaySend] at h
  by_cases hq : qos > 0
  · rw [if_pos hq, pubNotAllowed_iff]
    simp only [hq, decide_true, Bool.true_and] at h
    cases hst : s.status <;> cases hn : s.needStore <;> cases ho : s.offline <;> simp_all
  · rw [if_neg hq]
    simp only [hq, decide_false, Bool.false_and, Bool.or_false, beq_iff_eq] at h
    exact h

theorem processSend_pass (c : C) (p : Pkt) (wf : Spec.PktWf p) (hs : tooLarge c p = false)
    (hst : Spec.stateMaySend c.s.status p.kind p.qos c.s.needStore c.s.offline = true)
    (ha : AliasFine c.s p) : Ext c (processSend c p) := by
  rcases wf.ver with h4 | h5
  · have hv : ¬ p.ver = 5 := by omega
    cases hk : p.kind <;> simp only [hk, Spec.stateMaySend] at hst <;>
      simp only [processSend, h4, hk, if_true]
    case connect => exact pass_psV3Connect c p (by simpa using hst)
    case connack => exact pass_psV3Connack c p (by simpa using hst)
    case publish =>
      exact pass_psV3Publish c p (wf.pubId hk) (pub_gate_of_spec c.s p.qos (by simpa [Spec.stateMaySend] using hst))
    case pubrel => exact pass_psPubrel c p hs (by simpa using hst)
    case subscribe => exact pass_psSubUnsub c p hs (by simpa using hst)
    case unsubscribe => exact pass_psSubUnsub c p hs (by simpa using hst)
    case pingreq => exact pass_psPingreq c p hs (by simpa using hst)
    case disconnect => exact pass_psV3Disconnect c p (by simpa using hst)
    case auth => exact absurd (wf.auth hk) hv
    all_goals exact pass_psV3Simple c p (by simpa using hst)
  · have hv4 : ¬ p.ver = 4 := by omega
    have hz : sizeOk c p = true := by simpa [tooLarge, h5] using hs
    cases hk : p.kind <;> simp only [hk, Spec.stateMaySend] at hst <;>
      simp only [processSend, hv4, hk, if_false]
    case connect => exact pass_psV5Connect c p hz (by simpa using hst)
    case connack => exact pass_psV5Connack c p hz (by simpa using hst)
    case publish =>
      exact pass_psV5Publish c p hz (wf.pubId hk)
        (pub_gate_of_spec c.s p.qos (by simpa [Spec.stateMaySend] using hst)) (ha h5 hk)
    case puback => exact pass_psV5Puback c p hz (by simpa using hst)
    case pubrec => exact pass_psV5Pubrec c p hz (by simpa using hst)
    case pubcomp => exact pass_psV5Puback c p hz (by simpa using hst)
    case pubrel => exact pass_psPubrel c p hs (by simpa using hst)
    case subscribe => exact pass_psSubUnsub c p hs (by simpa using hst)
    case unsubscribe => exact pass_psSubUnsub c p hs (by simpa using hst)
    case pingreq => exact pass_psPingreq c p hs (by simpa using hst)
    case disconnect => exact pass_psV5Disconnect c p hz (by simpa using hst)
    case auth => exact pass_psV5Auth c p hz (by cases h : c.s.status <;> simp_all)
    all_goals exact pass_psV5Simple c p hz (by simpa using hst)

theorem send_pass (c : C) (p : Pkt) (wf : Spec.PktWf p) (hs : tooLarge c p = false)
    (h : Spec.mayTransmit c.cfg.role c.s.ver c.s.status p c.s.needStore c.s.offline = true)
    (ha : AliasFine c.s p) : Ext c (send c p) := by
  simp only [Spec.mayTransmit, Bool.and_eq_true] at h
  obtain ⟨⟨hv, hr⟩, hst⟩ := h
  have hv' : c.s.ver = p.ver := by
    simp only [Spec.versionMaySend, Bool.and_eq_true, beq_iff_eq] at hv; exact hv.1
  unfold send
  rw [if_neg (by simp [hv']), if_neg (by rw [roleMaySend_eq_spec, hr]; simp)]
  exact processSend_pass c p wf hs hst ha

end MqttVerif.Conn
