import MqttVerif.Conn.Step
import MqttVerif.Monitors
import MqttVerif.Conn.Lemmas.Resend
/-!
# C07 helper — which calls request an *error PUBREC* for sending

`nsOf l`: the `RequestSendPacket` events of `l` that carry a PUBREC with an error reason code
(≥ 0x80) — the only send events the driver's ghost of open inbound QoS 2 exchanges (`Mon.q2Step`)
reacts to.  Frame lemmas `nsOf (f c).ev = nsOf c.ev` for every model function; the one function
that pushes such an event is `process_send_v5_0_pubrec` for the packet handed to `send`.
Same scheme (and lemma names, in its own namespace) as `NewSession.lean`.
-/
set_option linter.unusedSimpArgs false
set_option linter.unusedVariables false
namespace MqttVerif.Conn.EPn
open MqttVerif MqttVerif.Conn

def nsSend (p : Pkt) : Bool := decide (p.kind = .pubrec) && Mon.isErrorRc p.rc
def nsRecv (_ : Pkt) : Bool := false
def NSev : Ev → Bool
  | .send p _ => nsSend p
  | .recv p => nsRecv p
  | _ => false

def nsOf (l : List Ev) : List Ev := l.filter NSev

@[simp] theorem nsOf_nil : nsOf [] = [] := rfl
@[simp] theorem nsOf_append (a b : List Ev) : nsOf (a ++ b) = nsOf a ++ nsOf b := by simp [nsOf]
@[simp] theorem nsOf_cons (e : Ev) (l : List Ev) :
    nsOf (e :: l) = (if NSev e = true then [e] else []) ++ nsOf l := by
  cases h : NSev e <;> simp [nsOf, List.filter, h]
@[simp] theorem NSev_send (p : Pkt) (r : Option Nat) : NSev (.send p r) = nsSend p := rfl
@[simp] theorem NSev_recv (p : Pkt) : NSev (.recv p) = nsRecv p := rfl
@[simp] theorem NSev_error (e : Nat) : NSev (.error e) = false := rfl
@[simp] theorem NSev_close : NSev .close = false := rfl
@[simp] theorem NSev_released (id : Nat) : NSev (.released id) = false := rfl
@[simp] theorem NSev_tr (k : Timer) (ms : Nat) : NSev (.timerReset k ms) = false := rfl
@[simp] theorem NSev_tc (k : Timer) : NSev (.timerCancel k) = false := rfl

theorem nsSend_kind {p : Pkt} (h1 : p.kind ≠ .pubrec) : nsSend p = false := by
  simp [nsSend, h1]
theorem nsSend_rc {p : Pkt} (h1 : Mon.isErrorRc p.rc = false) : nsSend p = false := by
  simp [nsSend, h1]
@[simp] theorem nsRecv_all (p : Pkt) : nsRecv p = false := rfl

@[simp] theorem ns_mkAck (cfg : Cfg) (v : Nat) (k : Kind) (id : Nat) :
    nsSend (mkAck cfg v k id) = false := nsSend_rc rfl
@[simp] theorem ns_mkV5PubcompRc (cfg : Cfg) (id rc : Nat) : nsSend (mkV5PubcompRc cfg id rc) = false := by
  simp [nsSend, mkV5PubcompRc]
@[simp] theorem ns_mkV5Disconnect (rc : Nat) : nsSend (mkV5Disconnect rc) = false := by
  simp [nsSend, mkV5Disconnect]
@[simp] theorem ns_mkPingreq (v : Nat) : nsSend (mkPingreq v) = false := by simp [nsSend, mkPingreq]
@[simp] theorem ns_mkPingresp (v : Nat) : nsSend (mkPingresp v) = false := by simp [nsSend, mkPingresp]

@[simp] theorem push_ev (c : C) (e : Ev) : (c.push e).ev = c.ev ++ [e] := rfl
@[simp] theorem push_s (c : C) (e : Ev) : (c.push e).s = c.s := rfl
@[simp] theorem err_ev (c : C) (e : Nat) : (c.err e).ev = c.ev ++ [.error e] := rfl
@[simp] theorem err_s (c : C) (e : Nat) : (c.err e).s = c.s := rfl
@[simp] theorem setPanic_ev (c : C) (x : String) : (c.setPanic x).ev = c.ev := rfl

theorem ite_ev (p : Prop) {_ : Decidable p} (a b : C) : (if p then a else b).ev = if p then a.ev else b.ev :=
  apply_ite _ _ _ _
theorem ite_nsOf (p : Prop) {_ : Decidable p} (a b : List Ev) :
    nsOf (if p then a else b) = if p then nsOf a else nsOf b := apply_ite _ _ _ _

/-- `nsOf (f c).ev = nsOf c.ev` by unfolding, pushing through `if`s -/
macro "ns_tac" : tactic =>
  `(tactic| first
      | (simp [ite_ev, ite_nsOf, apply_ite Prod.fst, apply_ite Prod.snd]; done)
      | ((repeat' (first | split | (simp only []; split))) <;> simp_all [ite_ev, ite_nsOf]; done))

@[simp] theorem ns_cancelTimers (c : C) : nsOf (cancelTimers c).ev = nsOf c.ev := by
  unfold cancelTimers; ns_tac
@[simp] theorem ns_sendPostProcess (c : C) : nsOf (sendPostProcess c).ev = nsOf c.ev := by
  rcases sendPostProcess_ev_cases c with h | ⟨ms, h⟩ <;> simp [h]
@[simp] theorem ns_refreshPingreqRecv (c : C) : nsOf (refreshPingreqRecv c).ev = nsOf c.ev := by
  unfold refreshPingreqRecv; ns_tac
@[simp] theorem ns_initConn (c : C) (b : Bool) : (initConn c b).ev = c.ev := rfl
@[simp] theorem ns_clearStoreRelated (c : C) : (clearStoreRelated c).ev = c.ev := rfl
@[simp] theorem ns_decSendCount (c : C) : (decSendCount c).ev = c.ev := by unfold decSendCount; split <;> rfl
@[simp] theorem ns_releaseId (c : C) (id : Nat) : (releaseId c id).ev = c.ev := by
  unfold releaseId; simp only []; split <;> rfl
@[simp] theorem ns_releaseIfUsed (c : C) (id : Nat) : nsOf (releaseIfUsed c id).ev = nsOf c.ev := by
  unfold releaseIfUsed; ns_tac
@[simp] theorem ns_releaseAll (l : List Nat) : ∀ c, nsOf (releaseAll c l).ev = nsOf c.ev := by
  induction l with
  | nil => intro c; rfl
  | cons x rest ih => intro c; rw [releaseAll, ih]; simp
@[simp] theorem ns_validateTopicAlias (c : C) (ao : Option Nat) : (validateTopicAlias c ao).2.ev = c.ev := by
  unfold validateTopicAlias; (repeat' split) <;> rfl
@[simp] theorem ns_storeAdd (c : C) (id : Nat) (p : Pkt) (x : String) : (storeAdd c id p x).ev = c.ev := by
  unfold storeAdd; split <;> rfl
@[simp] theorem ns_tasInsert (c : C) (t : List Nat) (a : Nat) (x : String) : (tasInsert c t a x).ev = c.ev := by
  unfold tasInsert; (repeat' split) <;> rfl
@[simp] theorem ns_autoAlias (c : C) (p : Pkt) : (autoAlias c p).1.ev = c.ev := by
  unfold autoAlias; (repeat' (first | split | (simp only []; split))) <;> simp
theorem autoAlias_kind (c : C) (p : Pkt) : (autoAlias c p).2.kind = p.kind := by
  unfold autoAlias; (repeat' (first | split | (simp only []; split))) <;> rfl
@[simp] theorem ns_connectSendProp (c : C) (id v : Nat) : (connectSendProp c id v).ev = c.ev := by
  unfold connectSendProp; (repeat' split) <;> rfl
@[simp] theorem ns_connectRecvProp (c : C) (id v : Nat) : (connectRecvProp c id v).ev = c.ev := by
  unfold connectRecvProp; (repeat' split) <;> rfl
@[simp] theorem ns_connackSendProp (c : C) (id v : Nat) : nsOf (connackSendProp c id v).ev = nsOf c.ev := by
  unfold connackSendProp; ns_tac
@[simp] theorem ns_connackRecvProp (c : C) (id v : Nat) : nsOf (connackRecvProp c id v).ev = nsOf c.ev := by
  unfold connackRecvProp; ns_tac

theorem ns_propsFold (f : C → Nat → Nat → C) (hf : ∀ c id v, nsOf (f c id v).ev = nsOf c.ev) (c : C)
    (l : List (Nat × Nat)) : nsOf (propsFold f c l).ev = nsOf c.ev := by
  induction l generalizing c with
  | nil => rfl
  | cons x rest ih => obtain ⟨i, v⟩ := x; rw [propsFold, ih, hf]
@[simp] theorem ns_fold_connectSendProp (c : C) (l : List (Nat × Nat)) :
    nsOf (propsFold connectSendProp c l).ev = nsOf c.ev := ns_propsFold _ (fun c i v => by simp) c l
@[simp] theorem ns_fold_connectRecvProp (c : C) (l : List (Nat × Nat)) :
    nsOf (propsFold connectRecvProp c l).ev = nsOf c.ev := ns_propsFold _ (fun c i v => by simp) c l
@[simp] theorem ns_fold_connackSendProp (c : C) (l : List (Nat × Nat)) :
    nsOf (propsFold connackSendProp c l).ev = nsOf c.ev := ns_propsFold _ ns_connackSendProp c l
@[simp] theorem ns_fold_connackRecvProp (c : C) (l : List (Nat × Nat)) :
    nsOf (propsFold connackRecvProp c l).ev = nsOf c.ev := ns_propsFold _ ns_connackRecvProp c l

@[simp] theorem ns_psV5Disconnect (c : C) (p : Pkt) (h : nsSend p = false) :
    nsOf (psV5Disconnect c p).ev = nsOf c.ev := by unfold psV5Disconnect; ns_tac
@[simp] theorem ns_psV3Disconnect (c : C) (p : Pkt) (h : nsSend p = false) :
    nsOf (psV3Disconnect c p).ev = nsOf c.ev := by unfold psV3Disconnect; ns_tac
@[simp] theorem ns_handleV3Error (c : C) (e : Nat) : nsOf (handleV3Error c e).ev = nsOf c.ev := by
  unfold handleV3Error; ns_tac
@[simp] theorem ns_v5DisconnectOrClose (c : C) (p : Pkt) (h : nsSend p = false) :
    nsOf (v5DisconnectOrClose c p).ev = nsOf c.ev := by unfold v5DisconnectOrClose; ns_tac
@[simp] theorem ns_handleV5Error (c : C) (e : Nat) : nsOf (handleV5Error c e).ev = nsOf c.ev := by
  unfold handleV5Error; ns_tac
@[simp] theorem ns_vErr (c : C) (e : Nat) : nsOf (vErr c e).ev = nsOf c.ev := by unfold vErr; ns_tac


/-! ## `send_stored`: the resent packets are the stored ones -/

theorem ns_sendStoredLoop (l : List (Nat × Pkt)) (hl : ∀ x ∈ l, nsSend x.2 = false) :
    ∀ c, nsOf (sendStoredLoop c l).1.ev = nsOf c.ev := by
  induction l with
  | nil => intro c; rfl
  | cons x rest ih =>
    intro c
    obtain ⟨id, p⟩ := x
    have hp : nsSend p = false := hl (id, p) (by simp)
    have ih' := ih (fun x hx => hl x (by simp [hx]))
    rw [sendStoredLoop]
    split
    · simp only []; rw [ih']; simp
    · simp only []; rw [ih']; simp [ite_ev, hp]

theorem ns_sendStored (c : C) (hl : ∀ x ∈ c.s.store, nsSend x.2 = false) :
    nsOf (sendStored c).ev = nsOf c.ev := by
  unfold sendStored
  simp only []
  rw [ns_sendStoredLoop]
  · split <;> rfl
  · split <;> exact hl

theorem ns_resendStored (c : C) (hl : ∀ x ∈ c.s.store, nsSend x.2 = false) :
    nsOf (resendStored c).ev = nsOf c.ev :=
  resendStored_ind (Q := fun x => nsOf x.ev = nsOf c.ev) c (ns_sendStored c hl)
    (fun h => by rw [ns_sendPostProcess]; exact h)

/-! ## the send side (everything but CONNECT / CONNACK) -/

@[simp] theorem ns_psV3Publish (c : C) (p : Pkt) (h : nsSend p = false) :
    nsOf (psV3Publish c p).ev = nsOf c.ev := by unfold psV3Publish; ns_tac
@[simp] theorem ns_pubRefuseCleanup (c : C) (pid : Option Nat) :
    nsOf (pubRefuseCleanup c pid).ev = nsOf c.ev := by unfold pubRefuseCleanup; ns_tac
@[simp] theorem ns_psV5PublishTail (c : C) (p : Pkt) (r : Option Nat) (h : nsSend p = false) :
    nsOf (psV5PublishTail c p r).ev = nsOf c.ev := by unfold psV5PublishTail; ns_tac
theorem ns_psV5PublishAlias (c : C) (p : Pkt) (r : Option Nat) (v : Bool) (hk : p.kind = .publish) :
    nsOf (psV5PublishAlias c p r v).ev = nsOf c.ev := by
  have h : nsSend p = false := nsSend_kind (by simp [hk])
  have h' : nsSend (autoAlias c p).2 = false :=
    nsSend_kind (by rw [autoAlias_kind]; simp [hk])
  unfold psV5PublishAlias
  (repeat' (first | split | (simp only []; split))) <;> simp_all [ite_ev, ite_nsOf]
theorem ns_psV5Publish (c : C) (p : Pkt) (hk : p.kind = .publish) :
    nsOf (psV5Publish c p).ev = nsOf c.ev := by
  unfold psV5Publish
  (repeat' (first | split | (simp only []; split))) <;>
    simp_all [ite_ev, ite_nsOf, ns_psV5PublishAlias]
@[simp] theorem ns_psV3Simple (c : C) (p : Pkt) (h : nsSend p = false) :
    nsOf (psV3Simple c p).ev = nsOf c.ev := by unfold psV3Simple; ns_tac
@[simp] theorem ns_psV5Simple (c : C) (p : Pkt) (h : nsSend p = false) :
    nsOf (psV5Simple c p).ev = nsOf c.ev := by unfold psV5Simple; ns_tac
@[simp] theorem ns_psV5Puback (c : C) (p : Pkt) (h : nsSend p = false) :
    nsOf (psV5Puback c p).ev = nsOf c.ev := by unfold psV5Puback; ns_tac
@[simp] theorem ns_psV5Pubrec (c : C) (p : Pkt) (h : nsSend p = false) :
    nsOf (psV5Pubrec c p).ev = nsOf c.ev := by unfold psV5Pubrec; ns_tac
@[simp] theorem ns_psV5Pubcomp (c : C) (p : Pkt) (h : nsSend p = false) :
    nsOf (psV5Pubcomp c p).ev = nsOf c.ev := ns_psV5Puback c p h
@[simp] theorem ns_psPubrel (c : C) (p : Pkt) (h : nsSend p = false) :
    nsOf (psPubrel c p).ev = nsOf c.ev := by unfold psPubrel; ns_tac
@[simp] theorem ns_psSubUnsub (c : C) (p : Pkt) (h : nsSend p = false) :
    nsOf (psSubUnsub c p).ev = nsOf c.ev := by unfold psSubUnsub; ns_tac
@[simp] theorem ns_psPingreq (c : C) (p : Pkt) (h : nsSend p = false) :
    nsOf (psPingreq c p).ev = nsOf c.ev := by unfold psPingreq; ns_tac
@[simp] theorem ns_psV5Auth (c : C) (p : Pkt) (h : nsSend p = false) :
    nsOf (psV5Auth c p).ev = nsOf c.ev := by unfold psV5Auth; ns_tac
@[simp] theorem ns_refuseSend (c : C) (e : Nat) (p : Pkt) : nsOf (refuseSend c e p).ev = nsOf c.ev := by
  unfold refuseSend; ns_tac

theorem ns_psV3Connect (c : C) (p : Pkt) (h : nsSend p = false) : nsOf (psV3Connect c p).ev = nsOf c.ev := by
  unfold psV3Connect
  (repeat' (first | split | (simp only []; split))) <;> simp_all [ite_ev, ite_nsOf]
theorem ns_psV5Connect (c : C) (p : Pkt) (h : nsSend p = false) : nsOf (psV5Connect c p).ev = nsOf c.ev := by
  unfold psV5Connect
  (repeat' (first | split | (simp only []; split))) <;> simp_all [ite_ev, ite_nsOf]

theorem ns_connackTail (c : C) (p : Pkt) (hst : ∀ x ∈ c.s.store, nsSend x.2 = false) :
    nsOf (sendPostProcess (if p.sp then sendStored c else clearStoreRelated c)).ev = nsOf c.ev := by
  rw [ns_sendPostProcess]
  split
  · exact ns_sendStored c hst
  · rfl

theorem ns_psV3Connack (c : C) (p : Pkt) (h : nsSend p = false) (hst : ∀ x ∈ c.s.store, nsSend x.2 = false) :
    nsOf (psV3Connack c p).ev = nsOf c.ev := by
  unfold psV3Connack
  split
  · simp
  · simp only []
    split
    · simp [h]
    · refine (ns_connackTail _ p ?_).trans ?_
      · exact hst
      · show nsOf (c.ev ++ [.send p none]) = nsOf c.ev
        simp [h]

theorem sendStore_connackSendProp (c : C) (id v : Nat) : (connackSendProp c id v).s.store = c.s.store := by
  unfold connackSendProp; (repeat' (first | split | (simp only []; split))) <;> rfl
theorem store_fold_connackSendProp (c : C) (l : List (Nat × Nat)) :
    (propsFold connackSendProp c l).s.store = c.s.store := by
  induction l generalizing c with
  | nil => rfl
  | cons x rest ih => obtain ⟨i, v⟩ := x; rw [propsFold, ih, sendStore_connackSendProp]

theorem ns_psV5Connack (c : C) (p : Pkt) (h : nsSend p = false) (hst : ∀ x ∈ c.s.store, nsSend x.2 = false) :
    nsOf (psV5Connack c p).ev = nsOf c.ev := by
  unfold psV5Connack
  split
  · simp
  split
  · simp
  · simp only []
    have h1 : nsOf (if p.rc = some 0 then propsFold connackSendProp c p.props else c).ev = nsOf c.ev := by
      split <;> simp
    have h2 : (if p.rc = some 0 then propsFold connackSendProp c p.props else c).s.store = c.s.store := by
      split
      · exact store_fold_connackSendProp _ _
      · rfl
    generalize (if p.rc = some 0 then propsFold connackSendProp c p.props else c) = c1 at h1 h2
    split
    · simp [h, h1]
    · refine (ns_connackTail _ p ?_).trans ?_
      · show ∀ x ∈ c1.s.store, _; rw [h2]; exact hst
      · show nsOf (c1.ev ++ [.send p none]) = nsOf c.ev
        simp [h, h1]

/-- `process_send_*` of a packet that is no error PUBREC pushes no error PUBREC -/
theorem ns_processSend (c : C) (p : Pkt) (h : nsSend p = false) (hst : ∀ x ∈ c.s.store, nsSend x.2 = false) :
    nsOf (processSend c p).ev = nsOf c.ev := by
  unfold processSend
  by_cases hv : p.ver = 4 <;> cases hk : p.kind <;> simp only [hv, if_true, if_false] <;>
    first
    | rfl
    | exact ns_psV3Connect c p h
    | exact ns_psV5Connect c p h
    | exact ns_psV3Connack c p h hst
    | exact ns_psV5Connack c p h hst
    | exact ns_psV5Publish c p hk
    | (simp [h]; done)

theorem ns_send (c : C) (p : Pkt) (h : nsSend p = false) (hst : ∀ x ∈ c.s.store, nsSend x.2 = false) :
    nsOf (send c p).ev = nsOf c.ev := by
  unfold send
  split
  · simp
  split
  · simp
  · exact ns_processSend c p h hst

/-! ## the receive side (everything but CONNECT / CONNACK) -/

theorem ns_prV3Publish (c : C) (p : Pkt) (h : nsRecv p = false) :
    nsOf (prV3Publish c (.ok p)).ev = nsOf c.ev := by
  unfold prV3Publish
  (repeat' (first | split | (simp only []; split))) <;> simp_all [ite_ev, ite_nsOf]
theorem ns_prV3Publish_err (c : C) (e : Nat) : nsOf (prV3Publish c (.error e)).ev = nsOf c.ev := by
  simp [prV3Publish]
@[simp] theorem ns_prV5PublishAlias (c : C) (p : Pkt) : nsOf (prV5PublishAlias c p).1.ev = nsOf c.ev := by
  unfold prV5PublishAlias
  (repeat' (first | split | (simp only []; split))) <;> simp_all [ite_ev, ite_nsOf]
theorem prV5PublishAlias_kind (c : C) (p p' : Pkt) (h : (prV5PublishAlias c p).2 = some p') :
    p'.kind = p.kind := by
  unfold prV5PublishAlias at h
  simp only [] at h
  (repeat' split at h) <;> simp_all <;> (subst h; rfl)


theorem ns_prV5Publish (c : C) (x : Except Nat Pkt) :
    nsOf (prV5Publish c x).ev = nsOf c.ev := by
  unfold prV5Publish
  split
  · simp [ite_ev, ite_nsOf]
  · rename_i p
    have h1 := ns_prV5PublishAlias c p
    have h2 := prV5PublishAlias_kind c p
    generalize prV5PublishAlias c p = r at h1 h2 ⊢
    obtain ⟨c1, o⟩ := r
    cases o with
    | none => exact h1
    | some p' =>
      have hp' : nsRecv p' = false := rfl
      simp only [] at h1 ⊢
      rw [← h1]
      first
        | (simp [ite_ev, ite_nsOf, hp']; done)
        | ((repeat' (first | split | (simp only []; split))) <;> simp [ite_ev, ite_nsOf, hp'])

/-- the acknowledgement / plain handlers: `hx` — the parsed packet is no new-session packet -/
macro "ns_recv_tac" f:ident : tactic =>
  `(tactic| (unfold $f; (repeat' (first | split | (simp only []; split))) <;> simp_all [ite_ev, ite_nsOf]))

theorem ns_prPuback (c : C) (x : Except Nat Pkt) (hx : ∀ p, x = .ok p → nsRecv p = false) :
    nsOf (prPuback c x).ev = nsOf c.ev := by ns_recv_tac prPuback
theorem ns_prPubrec (c : C) (x : Except Nat Pkt) (hx : ∀ p, x = .ok p → nsRecv p = false) :
    nsOf (prPubrec c x).ev = nsOf c.ev := by ns_recv_tac prPubrec
theorem ns_prPubrel (c : C) (x : Except Nat Pkt) (hx : ∀ p, x = .ok p → nsRecv p = false) :
    nsOf (prPubrel c x).ev = nsOf c.ev := by ns_recv_tac prPubrel
theorem ns_prPubcomp (c : C) (x : Except Nat Pkt) (hx : ∀ p, x = .ok p → nsRecv p = false) :
    nsOf (prPubcomp c x).ev = nsOf c.ev := by ns_recv_tac prPubcomp
theorem ns_prPlain (c : C) (x : Except Nat Pkt) (hx : ∀ p, x = .ok p → nsRecv p = false) :
    nsOf (prPlain c x).ev = nsOf c.ev := by ns_recv_tac prPlain
theorem ns_prSubUnsuback (c : C) (b : Bool) (x : Except Nat Pkt) (hx : ∀ p, x = .ok p → nsRecv p = false) :
    nsOf (prSubUnsuback c b x).ev = nsOf c.ev := by ns_recv_tac prSubUnsuback
theorem ns_prPingreq (c : C) (x : Except Nat Pkt) (hx : ∀ p, x = .ok p → nsRecv p = false) :
    nsOf (prPingreq c x).ev = nsOf c.ev := by ns_recv_tac prPingreq
theorem ns_prPingresp (c : C) (x : Except Nat Pkt) (hx : ∀ p, x = .ok p → nsRecv p = false) :
    nsOf (prPingresp c x).ev = nsOf c.ev := by ns_recv_tac prPingresp
theorem ns_prDisconnect (c : C) (x : Except Nat Pkt) (hx : ∀ p, x = .ok p → nsRecv p = false) :
    nsOf (prDisconnect c x).ev = nsOf c.ev := by ns_recv_tac prDisconnect
theorem ns_prV3Publish' (c : C) (x : Except Nat Pkt) (hx : ∀ p, x = .ok p → nsRecv p = false) :
    nsOf (prV3Publish c x).ev = nsOf c.ev := by
  cases x with
  | ok p => exact ns_prV3Publish c p (hx p rfl)
  | error e => exact ns_prV3Publish_err c e

/-! ## the remaining calls -/

theorem ns_notifyTimerFired (c : C) (k : Timer) : nsOf (notifyTimerFired c k).ev = nsOf c.ev := by
  unfold notifyTimerFired
  (repeat' (first | split | (simp only []; split))) <;> simp_all [ite_ev, ite_nsOf]
theorem ns_notifyClosed (c : C) : nsOf (notifyClosed c).ev = nsOf c.ev := by
  unfold notifyClosed
  simp only [ns_cancelTimers]
  split <;> simp
theorem ns_setPingreqSendInterval (c : C) (d : Option Nat) :
    nsOf (setPingreqSendInterval c d).ev = nsOf c.ev := by
  unfold setPingreqSendInterval
  (repeat' (first | split | (simp only []; split))) <;> simp_all [ite_ev, ite_nsOf]
theorem ns_eraseStoredPublish (c : C) (id : Nat) : nsOf (eraseStoredPublish c id).ev = nsOf c.ev := by
  unfold eraseStoredPublish
  (repeat' (first | split | (simp only []; split))) <;> simp_all [ite_ev, ite_nsOf]
theorem ns_restoreOne (c : C) (p : Pkt) : (restoreOne c p).ev = c.ev := by
  unfold restoreOne register
  (repeat' (first | split | (simp only []; split))) <;> rfl
theorem ns_restorePackets (ps : List Pkt) : ∀ c, (restorePackets c ps).ev = c.ev := by
  induction ps with
  | nil => intro c; rfl
  | cons p rest ih => intro c; rw [restorePackets, ih, ns_restoreOne]



end MqttVerif.Conn.EPn
