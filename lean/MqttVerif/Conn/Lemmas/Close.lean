import MqttVerif.Conn.Lemmas.Send
import MqttVerif.Monitors
/-!
# C19 helper lemmas: shape of the event list of one call

`EvAll P l` with `P` a *close-free* predicate (`CP P`: lax, excludes `.close`, allows every
sent packet that is neither a DISCONNECT nor a refusing CONNACK), or `F l`: the list contains
a close request and no send after any close request.  Every model function maps a `P`-list to
a `P`-list or an `F`-list, and an `F`-list is only ever extended by error notifications.
-/
namespace MqttVerif.Conn
open MqttVerif

def notClose (e : Ev) : Prop := e ≠ .close
def quietEv (e : Ev) : Prop :=
  e ≠ .close ∧ Mon.isSentDisconnect e = false ∧ Mon.isSentRefusingConnack e = false

structure CP (P : Ev → Prop) : Prop where
  lax : Lax P
  nc : ∀ e, P e → e ≠ .close
  snd : ∀ q r, q.kind ≠ .disconnect → (q.kind = .connack → q.rc = some 0) → P (.send q r)

theorem CP_notClose : CP notClose :=
  ⟨fun e h => by cases e <;> simp_all [Ev.passive, notClose], fun _ h => h, fun _ _ _ _ => by simp [notClose]⟩

theorem CP_quietEv : CP quietEv := by
  refine ⟨fun e h => ?_, fun _ h => h.1, fun q r h1 h2 => ?_⟩
  · cases e <;> simp_all [Ev.passive, quietEv, Mon.isSentDisconnect, Mon.isSentRefusingConnack]
  · simp only [quietEv, Mon.isSentDisconnect, Mon.isSentRefusingConnack]
    by_cases hk : q.kind = .connack <;> simp_all

/-- final shape: a close request is present and no send follows any close request -/
def F (l : List Ev) : Prop := Mon.closeAfterSend l = true ∧ Mon.hasClose l = true

def PF (P : Ev → Prop) (l : List Ev) : Prop := EvAll P l ∨ F l

def isSend : Ev → Bool
  | .send _ _ => true
  | _ => false

theorem cas_cons_notClose (e : Ev) (l : List Ev) (h : e ≠ .close) :
    Mon.closeAfterSend (e :: l) = Mon.closeAfterSend l := by
  cases e <;> simp_all [Mon.closeAfterSend]

theorem cas_of_NC (l : List Ev) (h : EvAll notClose l) : Mon.closeAfterSend l = true := by
  induction l with
  | nil => rfl
  | cons e rest ih =>
    simp only [EvAll_cons] at h
    rw [cas_cons_notClose e rest h.1]; exact ih h.2

theorem cas_append_NC_close (l : List Ev) (h : EvAll notClose l) :
    Mon.closeAfterSend (l ++ [.close]) = true := by
  induction l with
  | nil => rfl
  | cons e rest ih =>
    simp only [EvAll_cons] at h
    rw [List.cons_append, cas_cons_notClose e _ h.1]; exact ih h.2

theorem cas_append_nonsend (l : List Ev) (e : Ev) (he : isSend e = false)
    (h : Mon.closeAfterSend l = true) : Mon.closeAfterSend (l ++ [e]) = true := by
  induction l with
  | nil => cases e <;> simp_all [Mon.closeAfterSend, isSend]
  | cons x rest ih =>
    by_cases hx : x = .close
    · subst hx
      simp only [Mon.closeAfterSend, List.cons_append, Bool.and_eq_true, List.all_append] at h ⊢
      refine ⟨⟨h.1, ?_⟩, ih h.2⟩
      cases e <;> simp_all [isSend]
    · rw [List.cons_append, cas_cons_notClose x _ hx]
      rw [cas_cons_notClose x _ hx] at h
      exact ih h

theorem F_of_NC_close {l : List Ev} (h : EvAll notClose l) : F (l ++ [.close]) :=
  ⟨cas_append_NC_close l h, by simp [Mon.hasClose]⟩

theorem F_push {l : List Ev} (h : F l) (e : Ev) (he : isSend e = false) : F (l ++ [e]) :=
  ⟨cas_append_nonsend l e he h.1, by have := h.2; simp_all [Mon.hasClose]⟩

theorem F_err {l : List Ev} (h : F l) (e : Nat) : F (l ++ [.error e]) := F_push h _ rfl

theorem F_cas {l} (h : F l) : Mon.closeAfterSend l = true := h.1
theorem F_dhc {l} (h : F l) : Mon.disconnectHasClose l = true := by
  simp [Mon.disconnectHasClose, h.2]
theorem Q_dhc {l} (h : EvAll quietEv l) : Mon.disconnectHasClose l = true := by
  simp only [Mon.disconnectHasClose, Bool.or_eq_true, Bool.not_eq_true', List.any_eq_false]
  left
  intro e he
  have := h.h e he
  simp_all [quietEv]

section
variable {P : Ev → Prop}

theorem CP.toNC (hP : CP P) {l} (h : EvAll P l) : EvAll notClose l := ⟨fun e he => hP.nc e (h.h e he)⟩

theorem PF_cas (hP : CP P) {l} (h : PF P l) : Mon.closeAfterSend l = true :=
  h.elim (fun h => cas_of_NC l (hP.toNC h)) F_cas

theorem PF_err (hP : CP P) {l} (h : PF P l) (e : Nat) : PF P (l ++ [.error e]) :=
  h.elim (fun h => .inl (by simp [h, hP.lax.er])) (fun h => .inr (F_err h e))

theorem PF.of (h : EvAll P l) : PF P l := .inl h


/-! ## the closing functions -/

theorem closeTail_F (hP : CP P) (c : C) (h : EvAll notClose c.ev) : F ((cancelTimers c).push .close).ev :=
  F_of_NC_close (cancelTimers_all CP_notClose.lax c h)

theorem psV5Disconnect_PF (hP : CP P) (c : C) (p : Pkt) (h : EvAll P c.ev) : PF P (psV5Disconnect c p).ev := by
  unfold psV5Disconnect
  split
  · exact PF_err hP (.inl h) _
  · split
    · exact PF_err hP (.inl h) _
    · refine .inr (F_of_NC_close ?_)
      simp only [push_ev, EvAll_append, EvAll_single]
      exact ⟨cancelTimers_all CP_notClose.lax _ (hP.toNC h), by simp [notClose]⟩

theorem psV5Disconnect_F (hP : CP P) (c : C) (p : Pkt) (h : EvAll P c.ev)
    (hc : c.s.status = .connected) (hs : sizeOk c p = true) : F (psV5Disconnect c p).ev := by
  unfold psV5Disconnect
  simp only [hs, hc]
  refine F_of_NC_close ?_
  simp only [push_ev, EvAll_append, EvAll_single]
  exact ⟨cancelTimers_all CP_notClose.lax _ (hP.toNC h), by simp [notClose]⟩

theorem psV3Disconnect_PF (hP : CP P) (c : C) (p : Pkt) (h : EvAll P c.ev) : PF P (psV3Disconnect c p).ev := by
  unfold psV3Disconnect
  split
  · exact PF_err hP (.inl h) _
  · refine .inr (F_of_NC_close ?_)
    simp only [push_ev, EvAll_append, EvAll_single]
    exact ⟨cancelTimers_all CP_notClose.lax _ (hP.toNC h), by simp [notClose]⟩

theorem handleV3Error_F (hP : CP P) (c : C) (e : Nat) (h : EvAll P c.ev) : F (handleV3Error c e).ev :=
  F_err (F_of_NC_close (hP.toNC h)) e

theorem v5DisconnectOrClose_PF (hP : CP P) (c : C) (d : Pkt) (h : EvAll P c.ev) :
    PF P (v5DisconnectOrClose c d).ev := by
  unfold v5DisconnectOrClose
  split
  · exact .inr (closeTail_F hP _ (hP.toNC h))
  · exact psV5Disconnect_PF hP c d h

theorem v5DisconnectOrClose_F (hP : CP P) (c : C) (d : Pkt) (h : EvAll P c.ev)
    (hc : c.s.status = .connected) : F (v5DisconnectOrClose c d).ev := by
  unfold v5DisconnectOrClose
  split
  · exact closeTail_F hP _ (hP.toNC h)
  · rename_i hn
    refine psV5Disconnect_F hP c d h hc ?_
    simp_all

theorem handleV5Error_PF (hP : CP P) (c : C) (e : Nat) (h : EvAll P c.ev) : PF P (handleV5Error c e).ev :=
  PF_err hP (v5DisconnectOrClose_PF hP c _ h) e

theorem vErr_PF (hP : CP P) (c : C) (e : Nat) (h : EvAll P c.ev) : PF P (vErr c e).ev := by
  unfold vErr
  split
  · exact .inr (handleV3Error_F hP c e h)
  · exact handleV5Error_PF hP c e h


/-! ## `send` -/

theorem CP.sendOk (hP : CP P) {p : Pkt} (h1 : p.kind ≠ .disconnect) (h2 : p.kind ≠ .connack) (r) :
    P (.send p r) := hP.snd p r h1 (fun h => absurd h h2)

theorem CP.sok (hP : CP P) (c : C) {p : Pkt} (h1 : p.kind ≠ .disconnect) (h2 : p.kind ≠ .connack) :
    SOk P c p := fun q r hk _ _ _ => hP.snd q r (hk ▸ h1) (fun h => absurd (hk ▸ h) h2)

theorem psV3Connack_PF (hP : CP P) (c : C) (p : Pkt) (hk : p.kind = .connack)
    (hst : ∀ x ∈ c.s.store, P (.send x.2 none)) (h : EvAll P c.ev) : PF P (psV3Connack c p).ev := by
  unfold psV3Connack
  split
  · exact PF_err hP (.inl h) _
  · simp only []
    split
    · refine .inr (F_of_NC_close (cancelTimers_all CP_notClose.lax _ ?_))
      simp [hP.toNC h, notClose]
    · rename_i hr
      have hp : P (.send p none) := hP.snd p none (by simp [hk]) (fun _ => by simpa using hr)
      refine .inl (sendPostProcess_all hP.lax _ ?_)
      split
      · exact sendStored_all hP.lax _ (by simp [h, hp]) (fun x hx _ => hst x (by simpa using hx))
      · simp [clearStoreRelated, h, hp]

theorem psV5Connack_PF (hP : CP P) (c : C) (p : Pkt) (hk : p.kind = .connack)
    (hst : ∀ x ∈ c.s.store, P (.send x.2 none)) (h : EvAll P c.ev) : PF P (psV5Connack c p).ev := by
  unfold psV5Connack
  split
  · exact PF_err hP (.inl h) _
  · split
    · exact PF_err hP (.inl h) _
    · simp only []
      split
      · refine .inr (F_of_NC_close (cancelTimers_all CP_notClose.lax _ ?_))
        rename_i hr
        simp [hr, hP.toNC h, notClose]
      · rename_i hr
        simp only [ne_eq, Decidable.not_not] at hr
        have hp : P (.send p none) := hP.snd p none (by simp [hk]) (fun _ => hr)
        refine .inl (sendPostProcess_all hP.lax _ ?_)
        split
        · refine sendStored_all hP.lax _ ?_ ?_
          · simp [hr, hp, propsFold_all (connackSendProp_all hP.lax) c p.props h]
          · intro x hx _
            refine hst x ?_
            simpa [hr, propsFold_store connackSendProp_store c p.props] using hx
        · simp [clearStoreRelated, hr, hp, propsFold_all (connackSendProp_all hP.lax) c p.props h]

theorem processSend_PF (hP : CP P) (c : C) (p : Pkt)
    (hst : ∀ x ∈ c.s.store, P (.send x.2 none)) (h : EvAll P c.ev) : PF P (processSend c p).ev := by
  unfold processSend
  split
  · cases hk : p.kind <;> simp only []
    · exact .inl (psV3Connect_all hP.lax c p (hP.sendOk (by simp [hk]) (by simp [hk]) _) h)
    · exact psV3Connack_PF hP c p hk hst h
    · exact .inl (psV3Publish_all hP.lax c p (hP.sendOk (by simp [hk]) (by simp [hk])) h)
    · exact .inl (psV3Simple_all hP.lax c p (hP.sendOk (by simp [hk]) (by simp [hk]) _) h)
    · exact .inl (psV3Simple_all hP.lax c p (hP.sendOk (by simp [hk]) (by simp [hk]) _) h)
    · exact .inl (psPubrel_all hP.lax c p (fun _ => hP.sendOk (by simp [hk]) (by simp [hk]) _) h)
    · exact .inl (psV3Simple_all hP.lax c p (hP.sendOk (by simp [hk]) (by simp [hk]) _) h)
    · exact .inl (psSubUnsub_all hP.lax c p (fun _ => hP.sendOk (by simp [hk]) (by simp [hk])) h)
    · exact .inl (psV3Simple_all hP.lax c p (hP.sendOk (by simp [hk]) (by simp [hk]) _) h)
    · exact .inl (psSubUnsub_all hP.lax c p (fun _ => hP.sendOk (by simp [hk]) (by simp [hk])) h)
    · exact .inl (psV3Simple_all hP.lax c p (hP.sendOk (by simp [hk]) (by simp [hk]) _) h)
    · exact .inl (psPingreq_all hP.lax c p (fun _ => hP.sendOk (by simp [hk]) (by simp [hk]) _) h)
    · exact .inl (psV3Simple_all hP.lax c p (hP.sendOk (by simp [hk]) (by simp [hk]) _) h)
    · exact psV3Disconnect_PF hP c p h
    · exact .inl h
  · cases hk : p.kind <;> simp only []
    · exact .inl (psV5Connect_all hP.lax c p (fun _ => hP.sendOk (by simp [hk]) (by simp [hk]) _) h)
    · exact psV5Connack_PF hP c p hk hst h
    · exact .inl (psV5Publish_all hP.lax c p (hP.sok c (by simp [hk]) (by simp [hk])) h)
    · exact .inl (psV5Puback_all hP.lax c p (fun _ => hP.sendOk (by simp [hk]) (by simp [hk]) _) h)
    · exact .inl (psV5Pubrec_all hP.lax c p (fun _ => hP.sendOk (by simp [hk]) (by simp [hk]) _) h)
    · exact .inl (psPubrel_all hP.lax c p (fun _ => hP.sendOk (by simp [hk]) (by simp [hk]) _) h)
    · exact .inl (psV5Pubcomp_all hP.lax c p (fun _ => hP.sendOk (by simp [hk]) (by simp [hk]) _) h)
    · exact .inl (psSubUnsub_all hP.lax c p (fun _ => hP.sendOk (by simp [hk]) (by simp [hk])) h)
    · exact .inl (psV5Simple_all hP.lax c p (fun _ => hP.sendOk (by simp [hk]) (by simp [hk]) _) h)
    · exact .inl (psSubUnsub_all hP.lax c p (fun _ => hP.sendOk (by simp [hk]) (by simp [hk])) h)
    · exact .inl (psV5Simple_all hP.lax c p (fun _ => hP.sendOk (by simp [hk]) (by simp [hk]) _) h)
    · exact .inl (psPingreq_all hP.lax c p (fun _ => hP.sendOk (by simp [hk]) (by simp [hk]) _) h)
    · exact .inl (psV5Simple_all hP.lax c p (fun _ => hP.sendOk (by simp [hk]) (by simp [hk]) _) h)
    · exact psV5Disconnect_PF hP c p h
    · exact .inl (psV5Auth_all hP.lax c p (fun _ => hP.sendOk (by simp [hk]) (by simp [hk]) _) h)

theorem send_PF (hP : CP P) (c : C) (p : Pkt)
    (hst : ∀ x ∈ c.s.store, P (.send x.2 none)) (h : EvAll P c.ev) : PF P (send c p).ev := by
  unfold send
  split
  · exact .inl (refuseSend_all hP.lax c _ p h)
  · split
    · exact .inl (refuseSend_all hP.lax c _ p h)
    · exact processSend_PF hP c p hst h

end
end MqttVerif.Conn
