import MqttVerif.Conn.Lemmas.Q2Sends
/-!
# C07 helper — error-PUBREC send events: receive side and the `step` level
-/
set_option linter.unusedSimpArgs false
set_option linter.unusedVariables false
namespace MqttVerif.Conn.EPn
open MqttVerif MqttVerif.Conn

@[simp] theorem ns_mkV3Connack (rc : Nat) : nsSend (mkV3Connack rc) = false := by simp [nsSend, mkV3Connack]
@[simp] theorem ns_mkV5Connack (rc : Nat) : nsSend (mkV5Connack rc) = false := by simp [nsSend, mkV5Connack]

theorem store_clear_sub (c : C) : ∀ x ∈ (clearStoreRelated c).s.store, x ∈ c.s.store := by
  intro x hx; simp [clearStoreRelated] at hx

theorem ns_prV3Connect (c : C) (x : Except Nat Pkt) (hst : ∀ x ∈ c.s.store, nsSend x.2 = false) :
    nsOf (prV3Connect c x).ev = nsOf c.ev := by
  unfold prV3Connect
  split
  · simp
  · simp only []
    split
    · simp only [push_ev, nsOf_append, ns_refreshPingreqRecv]
      split <;> simp <;> split <;> rfl
    · simp only [err_ev, nsOf_append]
      rename_i e
      have := ns_psV3Connack ({ c with s := { c.s with status := .connecting } } : C) (mkV3Connack (v3ConnectErrRc e))
        (ns_mkV3Connack _) hst
      rw [this]
      simp

theorem ns_prV5Connect (c : C) (x : Except Nat Pkt) (hst : ∀ x ∈ c.s.store, nsSend x.2 = false) :
    nsOf (prV5Connect c x).ev = nsOf c.ev := by
  unfold prV5Connect
  split
  · simp
  · simp only []
    split
    · simp only [push_ev, nsOf_append, ns_refreshPingreqRecv, ns_fold_connectRecvProp]
      split <;> simp <;> split <;> rfl
    · simp only [err_ev, nsOf_append]
      rename_i e
      have := ns_psV5Connack ({ c with s := { c.s with status := .connecting } } : C) (mkV5Connack (v5ConnectErrRc e))
        (ns_mkV5Connack _) hst
      rw [this]
      simp

theorem ns_prV3Connack (c : C) (x : Except Nat Pkt) (hst : ∀ x ∈ c.s.store, nsSend x.2 = false) :
    nsOf (prV3Connack c x).ev = nsOf c.ev := by
  unfold prV3Connack
  split
  · simp
  · split
    · simp only [push_ev, nsOf_append]
      split
      · split
        · have := ns_resendStored ({ c with s := { c.s with status := .connected } } : C) hst
          rw [this]; simp
        · simp
      · simp
    · simp

theorem store_connackRecvProp (c : C) (id v : Nat) : ∀ x ∈ (connackRecvProp c id v).s.store, x ∈ c.s.store := by
  unfold connackRecvProp
  (repeat' (first | split | (simp only []; split))) <;> first | (intro x hx; exact hx) | (intro x hx; simp [clearStoreRelated] at hx)
theorem store_fold_connackRecvProp (l : List (Nat × Nat)) :
    ∀ c : C, ∀ x ∈ (propsFold connackRecvProp c l).s.store, x ∈ c.s.store := by
  induction l with
  | nil => intro c x hx; exact hx
  | cons y rest ih =>
    intro c x hx; obtain ⟨i, v⟩ := y
    rw [propsFold] at hx
    exact store_connackRecvProp c i v x (ih _ x hx)

theorem ns_prV5Connack (c : C) (x : Except Nat Pkt) (hst : ∀ x ∈ c.s.store, nsSend x.2 = false) :
    nsOf (prV5Connack c x).ev = nsOf c.ev := by
  unfold prV5Connack
  split
  · simp
  · split
    · rename_i p
      simp only [push_ev, nsOf_append]
      split
      · have hs := store_fold_connackRecvProp p.props { c with s := { c.s with status := .connected } }
        have hn : nsOf (propsFold connackRecvProp { c with s := { c.s with status := .connected } } p.props).ev
            = nsOf c.ev := by simp
        generalize propsFold connackRecvProp { c with s := { c.s with status := .connected } } p.props = c1 at hs hn
        split
        · rw [ns_resendStored _ (fun x hx => hst x (hs x hx)), hn]; simp
        · simp [hn]
      · simp
    · first | (simp; done) | (split <;> simp)

theorem ns_dispatchRecv (c : C) (t : Nat) (x : Except Nat Pkt) (hst : ∀ x ∈ c.s.store, nsSend x.2 = false) :
    nsOf (dispatchRecv c t x).ev = nsOf c.ev := by
  have hk : ∀ p, x = .ok p → nsRecv p = false := fun _ _ => rfl
  unfold dispatchRecv
  (repeat' split) <;>
    first
    | exact ns_prV3Connect c x hst | exact ns_prV5Connect c x hst
    | exact ns_prV3Connack c x hst | exact ns_prV5Connack c x hst
    | exact ns_prV3Publish' c x hk
    | exact ns_prV5Publish c x
    | exact ns_prPuback c x hk | exact ns_prPubrec c x hk | exact ns_prPubrel c x hk
    | exact ns_prPubcomp c x hk | exact ns_prPlain c x hk | exact ns_prSubUnsuback c _ x hk
    | exact ns_prPingreq c x hk | exact ns_prPingresp c x hk | exact ns_prDisconnect c x hk
    | (simp; done)
    | skip


theorem ns_processRecvPacket (c : C) (fh : Nat) (data : List Nat) (parse : Nat → Except Nat Pkt)
    (hst : ∀ x ∈ c.s.store, nsSend x.2 = false) :
    nsOf (processRecvPacket c fh data parse).ev = nsOf c.ev := by
  unfold processRecvPacket
  (repeat' (first | split | (simp only []; split))) <;>
    first
    | exact ns_dispatchRecv c _ _ hst
    | exact ns_prV3Connect ({ c with s := { c.s with ver := 4 } } : C) _ hst
    | exact ns_prV5Connect ({ c with s := { c.s with ver := 5 } } : C) _ hst
    | (simp; done)

theorem ns_recv (c : C) (inp : List Nat) (parse : Nat → Nat → List Nat → Except Nat Pkt)
    (hst : ∀ x ∈ c.s.store, nsSend x.2 = false) : nsOf (recv c inp parse).1.ev = nsOf c.ev := by
  unfold recv
  obtain ⟨pb, out, rest⟩ := Framing.feed c.s.pb inp
  simp only []
  cases out with
  | none => rfl
  | some o =>
    cases o with
    | complete fh data => exact ns_processRecvPacket ({ c with s := { c.s with pb := pb } } : C) fh data _ hst
    | error => simp

/-- no stored packet is an error PUBREC (the store holds PUBLISH / PUBREL only) -/
def StoreNoPubrec (s : St) : Prop := ∀ x ∈ s.store, x.2.kind ≠ .pubrec

/-- **every call but the `send` of an error PUBREC** requests no error PUBREC for sending -/
theorem ns_step (cfg : Cfg) (s : St) (op : Op) (hst : StoreNoPubrec s)
    (hop : ∀ p, op = .send p → nsSend p = false) : nsOf (step cfg s op).ev = [] := by
  have hst' : ∀ x ∈ s.store, nsSend x.2 = false := fun x hx => nsSend_kind (hst x hx)
  cases op with
  | send p => exact ns_send { cfg := cfg, s := s } p (hop p rfl) hst'
  | recv inp parse => exact ns_recv { cfg := cfg, s := s } inp parse hst'
  | timer k => exact ns_notifyTimerFired _ k
  | closed => exact ns_notifyClosed _
  | setInterval d => exact ns_setPingreqSendInterval _ d
  | setFlag f b => rfl
  | setRespTimeout ms => rfl
  | acquire => rfl
  | register id => rfl
  | release id => show nsOf (releasePacketId _ id).ev = _; rw [releasePacketId_ev']; exact ns_releaseIfUsed _ id
  | erase id => exact ns_eraseStoredPublish _ id
  | restoreHandled ids => rfl
  | restorePackets ps => show nsOf (restorePackets _ ps).ev = _; rw [ns_restorePackets]; rfl

end MqttVerif.Conn.EPn
