import MqttVerif.Conn.Lemmas.NoPanicHeld4
import MqttVerif.Conn.Lemmas.NoPanicStep
/-!
# C06 / C05 helper — `Held ∧ Disj`: `recv`, the remaining calls, `step`, `run`
-/
set_option linter.unusedSimpArgs false
set_option linter.unusedVariables false
namespace MqttVerif.Conn.Hd
open MqttVerif MqttVerif.Conn

theorem w_processRecvPacket {c : C} (h : W c) (hs : StoreInv c.s.ver c.s.store c.s.puback c.s.pubrec c.s.pubcomp)
    (fh : Nat) (data : List Nat) (parse : Nat → Except Nat Pkt) (hv : ∀ v p, parse v = .ok p → p.ver = v) :
    W (processRecvPacket c fh data parse) := by
  have hn := hs.2.2.2.2
  unfold processRecvPacket
  (repeat' (first | split | (simp only []; split))) <;>
    first
    | exact w_dispatchRecv h hs _ _ (fun p hp => hv _ p hp)
    | exact w_prV3Connect (c := { c with s := { c.s with ver := 4 } }) (h.congr rfl) hn _
    | exact w_prV5Connect (c := { c with s := { c.s with ver := 5 } }) (h.congr rfl) hn _
    | exact h.congr (by simp)

theorem w_recv {c : C} (h : W c) (hs : StoreInv c.s.ver c.s.store c.s.puback c.s.pubrec c.s.pubcomp)
    (inp : List Nat) (parse : Nat → Nat → List Nat → Except Nat Pkt)
    (hv : ∀ v fh d p, parse v fh d = .ok p → p.ver = v) : W (recv c inp parse).1 := by
  unfold recv
  obtain ⟨pb, out, rest⟩ := Framing.feed c.s.pb inp
  simp only []
  cases out with
  | none => exact h.congr rfl
  | some o =>
    cases o with
    | complete fh data =>
      exact w_processRecvPacket (c := { c with s := { c.s with pb := pb } }) (h.congr rfl) hs fh data _
        (fun v p hp => hv v fh data p hp)
    | error => exact h.congr (by simp; rfl)

theorem w_releaseAll (l : List Nat) : ∀ c : C, W c → (∀ id ∈ l, storeHas id c.s.store = false) → W (releaseAll c l) := by
  induction l with
  | nil => intro c h _; exact h
  | cons x rest ih =>
    intro c h hl
    rw [releaseAll]
    refine ih _ (h.release (hl x (by simp))) ?_
    intro id hid
    rw [(releaseIfUsed_sets c x).1]
    exact hl id (by simp [hid])

theorem releaseAll_sets (l : List Nat) : ∀ c : C,
    (releaseAll c l).s.store = c.s.store ∧ (releaseAll c l).s.suback = c.s.suback ∧
    (releaseAll c l).s.unsuback = c.s.unsuback ∧ (releaseAll c l).s.puback = c.s.puback ∧
    (releaseAll c l).s.pubrec = c.s.pubrec ∧ (releaseAll c l).s.pubcomp = c.s.pubcomp ∧
    (releaseAll c l).s.needStore = c.s.needStore := by
  induction l with
  | nil => intro c; exact ⟨rfl, rfl, rfl, rfl, rfl, rfl, rfl⟩
  | cons x rest ih =>
    intro c
    rw [releaseAll]
    obtain ⟨a1, a2, a3, a4, a5, a6, a7⟩ := ih (releaseIfUsed c x)
    obtain ⟨b1, b2, b3, b4, b5, b6⟩ := releaseIfUsed_sets c x
    have b7 : (releaseIfUsed c x).s.needStore = c.s.needStore := by
      unfold releaseIfUsed releaseId
      (repeat' (first | split | (simp only []; split))) <;> rfl
    exact ⟨a1.trans b1, a2.trans b2, a3.trans b3, a4.trans b4, a5.trans b5, a6.trans b6, a7.trans b7⟩

@[simp] theorem releaseAll_store' (l : List Nat) (c : C) : (releaseAll c l).s.store = c.s.store := (releaseAll_sets l c).1
@[simp] theorem releaseAll_suback' (l : List Nat) (c : C) : (releaseAll c l).s.suback = c.s.suback := (releaseAll_sets l c).2.1
@[simp] theorem releaseAll_unsuback' (l : List Nat) (c : C) : (releaseAll c l).s.unsuback = c.s.unsuback :=
  (releaseAll_sets l c).2.2.1
@[simp] theorem releaseAll_puback' (l : List Nat) (c : C) : (releaseAll c l).s.puback = c.s.puback :=
  (releaseAll_sets l c).2.2.2.1
@[simp] theorem releaseAll_pubrec' (l : List Nat) (c : C) : (releaseAll c l).s.pubrec = c.s.pubrec :=
  (releaseAll_sets l c).2.2.2.2.1
@[simp] theorem releaseAll_pubcomp' (l : List Nat) (c : C) : (releaseAll c l).s.pubcomp = c.s.pubcomp :=
  (releaseAll_sets l c).2.2.2.2.2.1
@[simp] theorem releaseAll_needStore' (l : List Nat) (c : C) : (releaseAll c l).s.needStore = c.s.needStore :=
  (releaseAll_sets l c).2.2.2.2.2.2

/-! ### `notify_closed` in stages -/

def nc1 (c : C) : C :=
  { c with s := { c.s with mpsSend := noLimit, mpsRecv := noLimit, status := .disconnected, tas := none, tar := none } }
def nc2 (c : C) : C := releaseAll { c with s := { c.s with suback := [] } } c.s.suback
def nc3 (c : C) : C := releaseAll { c with s := { c.s with unsuback := [] } } c.s.unsuback
def nc4a (c : C) : C := releaseAll { c with s := { c.s with puback := [] } } c.s.puback
def nc4b (c : C) : C := releaseAll { c with s := { c.s with pubrec := [] } } c.s.pubrec
def nc4c (c : C) : C := releaseAll { c with s := { c.s with pubcomp := [] } } c.s.pubcomp
def nc4 (c : C) : C :=
  if !c.s.needStore then
    let c := nc4c (nc4b (nc4a { c with s := { c.s with handled := [] } }))
    { c with s := { c.s with store := [] } }
  else c
def nc5 (c : C) : C := cancelTimers { c with s := { c.s with pb := Framing.PB.reset } }

theorem notifyClosed_stages (c : C) : notifyClosed c = nc5 (nc4 (nc3 (nc2 (nc1 c)))) := rfl

theorem w_nc2 {c : C} (h : W c) (hf : ∀ id ∈ c.s.suback, storeHas id c.s.store = false) : W (nc2 c) :=
  w_releaseAll _ _
    (h.shrink (c' := { c with s := { c.s with suback := [] } }) rfl (fun x hx => hx) (by intro i hi; cases hi)
      (fun i hi => hi) (fun i hi => hi) (fun i hi => hi) (fun i hi => hi)) hf

theorem w_nc3 {c : C} (h : W c) (hf : ∀ id ∈ c.s.unsuback, storeHas id c.s.store = false) : W (nc3 c) :=
  w_releaseAll _ _
    (h.shrink (c' := { c with s := { c.s with unsuback := [] } }) rfl (fun x hx => hx) (fun i hi => hi)
      (by intro i hi; cases hi) (fun i hi => hi) (fun i hi => hi) (fun i hi => hi)) hf

theorem pidWf_releaseAll {c : C} (hp : PidWf c.s.pidMan) (l : List Nat) : PidWf (releaseAll c l).s.pidMan := by
  obtain ⟨a, wa, e⟩ := releaseAll_s hp l
  rw [e]; exact wa

theorem w_nc4 {c : C} (h : W c) : W (nc4 c) := by
  unfold nc4
  split
  · refine ⟨?_, ?_, ?_⟩
    · show PidWf (nc4c (nc4b (nc4a _))).s.pidMan
      have a1 : ∀ X : C, PidWf X.s.pidMan → PidWf (nc4a X).s.pidMan := fun X hX => pidWf_releaseAll (c := { X with s := { X.s with puback := [] } }) hX _
      have a2 : ∀ X : C, PidWf X.s.pidMan → PidWf (nc4b X).s.pidMan := fun X hX => pidWf_releaseAll (c := { X with s := { X.s with pubrec := [] } }) hX _
      have a3 : ∀ X : C, PidWf X.s.pidMan → PidWf (nc4c X).s.pidMan := fun X hX => pidWf_releaseAll (c := { X with s := { X.s with pubcomp := [] } }) hX _
      exact a3 _ (a2 _ (a1 _ h.1))
    · intro x hx; cases hx
    · intro i _
      simp [nc4c, nc4b, nc4a]
  · exact h

theorem nc2_sets (c : C) : (nc2 c).s.store = c.s.store ∧ (nc2 c).s.unsuback = c.s.unsuback := by
  simp [nc2]

theorem w_notifyClosed {c : C} (h : W c) (hs : StoreInv c.s.ver c.s.store c.s.puback c.s.pubrec c.s.pubcomp) :
    W (notifyClosed c) := by
  have hd := h.2.2
  have hfree : ∀ id, id ∈ c.s.suback ∨ id ∈ c.s.unsuback → storeHas id c.s.store = false := fun id hin =>
    hs.fresh_not_stored (hd _ hin).1 (hd _ hin).2.1 (hd _ hin).2.2
  rw [notifyClosed_stages]
  have h1 : W (nc1 c) := h.congr rfl
  have h2 : W (nc2 (nc1 c)) := w_nc2 h1 (fun id hid => hfree id (.inl hid))
  have h3 : W (nc3 (nc2 (nc1 c))) := w_nc3 h2 (fun id hid => by
    rw [(nc2_sets _).1]
    rw [(nc2_sets _).2] at hid
    exact hfree id (.inr hid))
  have h4 := w_nc4 h3
  exact h4.congr (by unfold nc5; simp; rfl)

theorem w_eraseStoredPublish {c : C} (h : W c) (id : Nat) : W (eraseStoredPublish c id) := by
  unfold eraseStoredPublish
  simp only []
  split
  · rename_i hr
    -- the erased entry was a PUBLISH: `erase` removed every entry with this identifier
    have hgone : storeHas id (storeErasePublish id c.s.store).2 = false := by
      unfold storeErasePublish at hr ⊢
      cases hl : lookup id c.s.store with
      | none => simp [hl] at hr
      | some q =>
        simp only [hl] at hr ⊢
        split at hr
        · rename_i hk
          simp only [hk, if_true]
          rw [storeHas_false]; intro q' hq'; exact (mem_erase.1 hq').2 rfl
        · cases hr
    have h1 : W ({ c with s := { c.s with store := (storeErasePublish id c.s.store).2, puback := del id c.s.puback, pubrec := del id c.s.pubrec } } : C) :=
      h.shrink rfl (fun x hx => Rng.mem_storeErasePublish hx) (fun i hi => hi) (fun i hi => hi)
        (fun i hi => (mem_del.1 hi).1) (fun i hi => (mem_del.1 hi).1) (fun i hi => hi)
    refine W.release (h1.congr (by simp)) ?_
    have : (decSendCount ({ c with s := { c.s with store := (storeErasePublish id c.s.store).2, puback := del id c.s.puback, pubrec := del id c.s.pubrec } } : C)).s.store = (storeErasePublish id c.s.store).2 := by
      have := K2_decSendCount ({ c with s := { c.s with store := (storeErasePublish id c.s.store).2, puback := del id c.s.puback, pubrec := del id c.s.pubrec } } : C)
      exact congrArg (·.2.1) this
    rw [this]; exact hgone
  · exact h

theorem w_restoreOne {c : C} (h : W c) (p : Pkt) (hsub : c.s.suback = [] ∧ c.s.unsuback = []) :
    W (restoreOne c p) ∧ (restoreOne c p).s.suback = [] ∧ (restoreOne c p).s.unsuback = [] := by
  unfold restoreOne
  split
  · exact ⟨h, hsub⟩
  · simp only []
    obtain ⟨w, hh, hd⟩ := h
    have hp0 : PidWf (register c (p.pid.getD 0)).2.s.pidMan := w.useValue _
    have hmono : ∀ x, isUsed c.s x = true → isUsed (register c (p.pid.getD 0)).2.s x = true :=
      fun x hx => use_mono w _ x hx
    split
    · rename_i hr
      have hnew : isUsed (register c (p.pid.getD 0)).2.s (p.pid.getD 0) = true := use_true w hr
      have key : ∀ c1 : C, c1.s.pidMan = (register c (p.pid.getD 0)).2.s.pidMan → c1.s.store = c.s.store →
          c1.s.suback = [] → c1.s.unsuback = [] →
          W (if storeHas (p.pid.getD 0) c1.s.store = true then c1
             else { c1 with s := { c1.s with store := c1.s.store ++ [(p.pid.getD 0, p)] } }) ∧
          (if storeHas (p.pid.getD 0) c1.s.store = true then c1
             else { c1 with s := { c1.s with store := c1.s.store ++ [(p.pid.getD 0, p)] } }).s.suback = [] ∧
          (if storeHas (p.pid.getD 0) c1.s.store = true then c1
             else { c1 with s := { c1.s with store := c1.s.store ++ [(p.pid.getD 0, p)] } }).s.unsuback = [] := by
        intro c1 e1 e2 e3 e4
        have hh1 : ∀ x ∈ c1.s.store, isUsed c1.s x.1 = true := by
          intro x hx; rw [e2] at hx
          have := hmono x.1 (hh x hx); simp only [isUsed] at this ⊢; rw [e1]; exact this
        have hd1 : Disj c1.s := by intro i hi; rw [e3, e4] at hi; simp at hi
        split
        · exact ⟨⟨by rw [e1]; exact hp0, hh1, hd1⟩, e3, e4⟩
        · refine ⟨⟨by show PidWf c1.s.pidMan; rw [e1]; exact hp0, ?_, ?_⟩, e3, e4⟩
          · intro x hx
            simp only [List.mem_append, List.mem_singleton] at hx
            rcases hx with hx | rfl
            · exact hh1 x hx
            · show Alloc.isUsed c1.s.pidMan (p.pid.getD 0) = true
              rw [e1]; exact hnew
          · intro i hi; have : i ∈ c1.s.suback ∨ i ∈ c1.s.unsuback := hi; rw [e3, e4] at this; simp at this
      split
      · exact key _ rfl rfl hsub.1 hsub.2
      split
      · exact key _ rfl rfl hsub.1 hsub.2
      · exact key _ rfl rfl hsub.1 hsub.2
    · refine ⟨⟨hp0, ?_, ?_⟩, hsub⟩
      · intro x hx; exact hmono x.1 (hh x hx)
      · intro i hi; exact hd i hi

theorem w_restorePackets (ps : List Pkt) : ∀ c : C, W c → c.s.suback = [] ∧ c.s.unsuback = [] →
    W (restorePackets c ps) := by
  induction ps with
  | nil => intro c h _; exact h
  | cons p rest ih =>
    intro c h hs
    rw [restorePackets]
    obtain ⟨h1, h2⟩ := w_restoreOne h p hs
    exact ih _ h1 h2

/-- **the ownership rule**: what the application must respect so that a stored packet keeps its
    identifier — it does not release an identifier a stored packet carries, does not start an
    exchange (`send` of a QoS>0 PUBLISH / PUBREL / SUBSCRIBE / UNSUBSCRIBE) with an identifier that is
    still owned, and restores packets only while no SUBSCRIBE / UNSUBSCRIBE is in flight (before the
    first connection) -/
def LegalIds (s : St) : Op → Prop
  | .send p => IdsOk s p
  | .release id => storeHas id s.store = false
  | .restorePackets _ => s.suback = [] ∧ s.unsuback = []
  | _ => True

/-- **every call keeps `Held ∧ Disj`** in the invariant class, under `Legal` and `LegalIds` -/
theorem step_w {cfg : Cfg} {s : St} {op : Op} (hg : Good s) (h : HD s) (hl : Legal cfg s op) (hi : LegalIds s op) :
    HD (step cfg s op).s := by
  have hw : W { cfg := cfg, s := s } := ⟨hg.pid, h⟩
  have hs := hg.store
  have hn := hs.2.2.2.2
  cases op with
  | send p => exact (w_send hw hn p hi).2
  | recv inp parse => exact (w_recv hw hs inp parse (fun v fh d p hp => (hl v fh d p hp).1)).2
  | timer k => exact (hw.congr (c' := notifyTimerFired _ k) (by simp)).2
  | closed => exact (w_notifyClosed hw hs).2
  | setInterval d => exact (hw.congr (c' := setPingreqSendInterval _ d) (by simp)).2
  | setFlag f b => cases f <;> exact h
  | setRespTimeout ms => exact h
  | acquire =>
    refine ⟨?_, h.2⟩
    intro x hx
    exact alloc_mono hg.pid x.1 (h.1 x hx)
  | register id =>
    refine ⟨?_, h.2⟩
    intro x hx
    exact use_mono hg.pid id x.1 (h.1 x hx)
  | release id =>
    -- fix ba1a812: after the allocator, the wait sets shrink (same store, same allocator)
    refine (releasePacketId_ind (Q := W) _ id (hw.release hi) (fun h1 => ?_)
      (fun h2 => h2.congr (K2_decSendCount _))).2
    exact h1.shrink rfl (fun _ hx => hx) (fun _ hx => (mem_del.1 hx).1) (fun _ hx => (mem_del.1 hx).1)
      (fun _ hx => (mem_del.1 hx).1) (fun _ hx => (mem_del.1 hx).1) (fun _ hx => hx)
  | erase id => exact (w_eraseStoredPublish hw id).2
  | restoreHandled ids => exact h
  | restorePackets ps => exact (w_restorePackets ps _ hw hi).2

end MqttVerif.Conn.Hd
