import MqttVerif.Conn.Lemmas.Pend7
/-!
# C08 helper — the ghost `pend` against the model: timers, `closed`, `erase`, `restorePackets`,
and the step theorem
-/
set_option linter.unusedSimpArgs false
set_option linter.unusedVariables false
namespace MqttVerif.Conn.Pend
open MqttVerif MqttVerif.Conn

theorem fr_notifyTimerFired (c : C) (k : Timer) : Fr c (notifyTimerFired c k) := by
  have tail : ∀ c1 : C, Fr c c1 → Fr c (if c1.s.ver = 4 then c1.push .close
      else if c1.s.ver = 5 then
        (if c1.s.status = .connected then v5DisconnectOrClose c1 (mkV5Disconnect eKeepAliveTimeout) else c1)
      else c1.setPanic "core.rs:notify_timer_fired:unreachable!(undetermined)") := by
    intro c1 f
    refine f.trans ?_
    split
    · exact fr_push (fun g => List.Subset.refl _)
    split
    · split
      · exact fr_v5DisconnectOrClose _ _ (by simp)
      · exact Fr.refl _
    · exact fr_setPanic _ _
  cases k with
  | pingreqSend =>
    unfold notifyTimerFired
    simp only []
    split
    · split
      · exact Fr.trans (b := { c with s := { c.s with sendSet := false } }) (fr_of_eq rfl rfl rfl) (fr_psPingreq _ _ (by simp))
      split
      · exact Fr.trans (b := { c with s := { c.s with sendSet := false } }) (fr_of_eq rfl rfl rfl) (fr_psPingreq _ _ (by simp))
      · exact Fr.trans (b := { c with s := { c.s with sendSet := false } }) (fr_of_eq rfl rfl rfl) (fr_setPanic _ _)
    · exact fr_of_eq rfl rfl rfl
  | pingreqRecv => exact tail { c with s := { c.s with recvSet := false } } (fr_of_eq rfl rfl rfl)
  | pingrespRecv => exact tail { c with s := { c.s with respSet := false } } (fr_of_eq rfl rfl rfl)

/-! ## `notify_closed`: the driver empties the ghost -/

theorem inv_setPb {g : Gh} {c : C} (h : Inv g c) (pb : Framing.PB) : Inv g ({ c with s := { c.s with pb := pb } } : C) :=
  h.fr (fr_of_eq (c := c) rfl rfl rfl)

theorem storeOk_of_nil {s : St} (h : s.store = []) : StoreOk s :=
  ⟨by rw [h]; simp, fun x hx => by rw [h] at hx; cases hx⟩

/-- only the ghost part of a frame -/
def Gs (c c' : C) : Prop := ∀ g, pendStep g c'.ev ⊆ pendStep g c.ev
theorem Gs.trans {a b c : C} (h1 : Gs a b) (h2 : Gs b c) : Gs a c := fun g => List.Subset.trans (h2 g) (h1 g)
theorem Gs.of_ev {a b : C} (h : b.ev = a.ev) : Gs a b := fun g => by rw [h]; exact List.Subset.refl _

/-- `notify_closed`, first part (copied from the model): the SUBACK / UNSUBACK releases -/
def closeA (c : C) : C :=
  let c := { c with s := { c.s with mpsSend := noLimit, mpsRecv := noLimit, status := .disconnected,
                                      tas := none, tar := none } }
  let sub := c.s.suback
  let c := releaseAll { c with s := { c.s with suback := [] } } sub
  let unsub := c.s.unsuback
  releaseAll { c with s := { c.s with unsuback := [] } } unsub

/-- `notify_closed`, the cleanup of a non-persistent session (copied from the model) -/
def closeB (c : C) : C :=
      let c := { c with s := { c.s with handled := [] } }
      let a := c.s.puback
      let c := releaseAll { c with s := { c.s with puback := [] } } a
      let b := c.s.pubrec
      let c := releaseAll { c with s := { c.s with pubrec := [] } } b
      let d := c.s.pubcomp
      let c := releaseAll { c with s := { c.s with pubcomp := [] } } d
      { c with s := { c.s with store := [] } }

theorem notifyClosed_eq (c : C) :
    notifyClosed c = cancelTimers { (if !(closeA c).s.needStore then closeB (closeA c) else closeA c) with
      s := { (if !(closeA c).s.needStore then closeB (closeA c) else closeA c).s with pb := Framing.PB.reset } } := rfl

theorem fr_closeA (c : C) : Fr c (closeA c) := by
  unfold closeA
  extract_lets s0 c1 sub s1 c2 unsub s2
  have f1 : Fr c c1 := ⟨rfl, .inr rfl, fun g => List.Subset.refl _⟩
  have f2 : Fr c1 c2 := Fr.trans (b := { c1 with s := { c1.s with suback := [] } }) (fr_of_eq rfl rfl rfl) (fr_releaseAll _ _)
  exact (f1.trans f2).trans (Fr.trans (b := { c2 with s := { c2.s with unsuback := [] } }) (fr_of_eq rfl rfl rfl) (fr_releaseAll _ _))

theorem closeB_spec (c : C) : (closeB c).s.store = [] ∧ Gs c (closeB c) := by
  unfold closeB
  extract_lets s0 c1 a s1 c2 b s2 c3 d s3 c4 s4
  refine ⟨rfl, ?_⟩
  have g1 : Gs c c1 := Gs.of_ev rfl
  have g2 : Gs c1 c2 := Gs.trans (b := { c1 with s := { c1.s with puback := [] } }) (Gs.of_ev rfl) (fr_releaseAll _ _).gh
  have g3 : Gs c2 c3 := Gs.trans (b := { c2 with s := { c2.s with pubrec := [] } }) (Gs.of_ev rfl) (fr_releaseAll _ _).gh
  have g4 : Gs c3 c4 := Gs.trans (b := { c3 with s := { c3.s with pubcomp := [] } }) (Gs.of_ev rfl) (fr_releaseAll _ _).gh
  exact (g1.trans (g2.trans (g3.trans g4))).trans (Gs.of_ev rfl)

theorem inv_notifyClosed (c : C) (hev : c.ev = []) (hs : StoreOk c.s) : Inv [] (notifyClosed c) := by
  rw [notifyClosed_eq]
  refine InvM.fr (fr_cancelTimers _) (inv_setPb ?_ _)
  have f1 := fr_closeA c
  have h2 : Inv [] (closeA c) := InvM.fr f1 (inv_of_empty (by rw [hev]; rfl) hs)
  have g2 : pendStep [] (closeA c).ev = [] := by
    have := f1.gh []
    rw [hev] at this
    exact List.eq_nil_of_subset_nil this
  split
  · obtain ⟨k1, k2⟩ := closeB_spec (closeA c)
    refine inv_of_empty ?_ (storeOk_of_nil k1)
    have := k2 []
    rw [g2] at this
    exact List.eq_nil_of_subset_nil this
  · exact h2


/-! ## `erase_stored_publish` (application) -/

theorem decSendCount_isUsed (c : C) (id : Nat) : isUsed (decSendCount c).s id = isUsed c.s id := by
  unfold decSendCount; split <;> rfl

/-- contract: the identifier is in use (then `NotifyPacketIdReleased` removes the ghost entry), or
    the ghost holds no entry of it -/
theorem inv_eraseStoredPublish {g : Gh} {c : C} (h : Inv g c) (id : Nat)
    (hc : isUsed c.s id = true ∨ ∀ n, (id, n) ∉ pendStep g c.ev) : Inv g (eraseStoredPublish c id) := by
  unfold eraseStoredPublish
  simp only []
  split
  · have h1 : InvM (some id) g ({ c with s := { c.s with store := (storeErasePublish id c.s.store).2, puback := del id c.s.puback, pubrec := del id c.s.pubrec } } : C) := by
      refine InvM.del h rfl rfl rfl (fun i hi hm => mem_del.2 ⟨hm, hi⟩) (fun i hi hm => mem_del.2 ⟨hm, hi⟩) (fun i hi hm => hm)
        (storeErasePublish_sublist _ _) ?_
      intro x hx hid hkk
      have hne := storeErasePublish_keeps h.store.nodup hx hid
      have hm := (storeErasePublish_sublist _ _).subset hx
      obtain ⟨_, _, _, hin⟩ := h.store.ent x hm hkk
      have hpr : x.2.kind = .pubrel := by rcases hkk with e | e; exact absurd e hne; exact e
      simp only [respOf, hpr, if_true, waitOf] at hin ⊢
      exact hin
    have h2 := h1.fr (fr_decSendCount _)
    unfold releaseIfUsed
    split
    · exact InvM.unmask_released (h2.fr (fr_releaseId _ _))
    · rename_i hu
      rw [decSendCount_isUsed] at hu
      rcases hc with hc | hc
      · exact absurd hc hu
      · refine InvM.unmask_absent h2 ?_
        intro n hm
        exact hc n (by have := (fr_decSendCount _).gh g hm; exact this)
  · exact h

/-! ## `restore_packets` -/

theorem inv_restoreOne {g : Gh} {c : C} (h : Inv g c) (p : Pkt)
    (hk : (p.kind = .publish ∨ p.kind = .pubrel) → p.ver = c.s.ver ∧ c.s.ver ≠ 0) :
    Inv g (restoreOne c p) ∧ (restoreOne c p).s.ver = c.s.ver := by
  unfold restoreOne
  split
  · exact ⟨h, rfl⟩
  · simp only []
    split
    · have key : ∀ c2 : C, c2.ev = c.ev → c2.s.status = c.s.status → c2.s.ver = c.s.ver → c2.s.store = c.s.store →
          (∀ i ∈ c.s.puback, i ∈ c2.s.puback) → (∀ i ∈ c.s.pubrec, i ∈ c2.s.pubrec) → (∀ i ∈ c.s.pubcomp, i ∈ c2.s.pubcomp) →
          p.pid.getD 0 ∈ waitOf c2.s (respOf p) →
          Inv g (if storeHas (p.pid.getD 0) c2.s.store = true then c2 else { c2 with s := { c2.s with store := c2.s.store ++ [(p.pid.getD 0, p)] } }) ∧
          (if storeHas (p.pid.getD 0) c2.s.store = true then c2 else { c2 with s := { c2.s with store := c2.s.store ++ [(p.pid.getD 0, p)] } }).s.ver = c.s.ver := by
        intro c2 e1 e2 e3 e4 e5 e6 e7 e8
        split
        · exact ⟨h.grow e1 e2 e3 e5 e6 e7 (.inl e4), e3⟩
        · rename_i hn
          refine ⟨h.grow e1 e2 e3 e5 e6 e7 (.inr ⟨(p.pid.getD 0, p), ?_, ?_, ?_⟩), e3⟩
          · show c2.s.store ++ _ = _; rw [e4]
          · rw [← e4]; simpa using hn
          · exact fun hkk => ⟨rfl, (hk hkk).1.trans e3.symm, by show c2.s.ver ≠ 0; rw [e3]; exact (hk hkk).2, e8⟩
      split
      · rename_i hpr
        exact key _ rfl rfl rfl rfl (fun i hi => hi) (fun i hi => hi) (fun i hi => mem_ins_of_mem hi)
          (by simp only [waitOf, respOf, hpr, if_true]; exact mem_ins_self _ _)
      split
      · rename_i hpr hq
        exact key _ rfl rfl rfl rfl (fun i hi => hi) (fun i hi => mem_ins_of_mem hi) (fun i hi => hi)
          (by simp only [waitOf, respOf, hpr, hq, if_true, if_false]; exact mem_ins_self _ _)
      · rename_i hpr hq
        exact key _ rfl rfl rfl rfl (fun i hi => mem_ins_of_mem hi) (fun i hi => hi) (fun i hi => hi)
          (by simp only [waitOf, respOf, hpr, hq, if_false]; exact mem_ins_self _ _)
    · exact ⟨h.fr (fr_of_eq (c := c) rfl rfl rfl), rfl⟩

theorem inv_restorePackets {g : Gh} : ∀ (ps : List Pkt) (c : C), Inv g c →
    (∀ p ∈ ps, (p.kind = .publish ∨ p.kind = .pubrel) → p.ver = c.s.ver ∧ c.s.ver ≠ 0) →
    Inv g (restorePackets c ps) := by
  intro ps
  induction ps with
  | nil => intro c h _; exact h
  | cons p rest ih =>
    intro c h hl
    obtain ⟨h1, hv1⟩ := inv_restoreOne h p (hl p (by simp))
    rw [restorePackets]
    refine ih _ h1 ?_
    intro q hq
    rw [hv1]
    exact hl q (by simp [hq])

/-! ## the step theorem -/

/-- **the invariant between calls**, on the model state and the driver's ghost:
    * `agree`: every ghost entry `(id, n)` is awaited by the model — `id` is in the wait set of the
      acknowledgement with type nibble `n`;
    * `store`: the stored packets are pairwise distinct incomplete exchanges that are awaited;
    * `conn`: while a connection is being established (`connecting`) the ghost is empty. -/
structure PInv (s : St) (pend : Gh) : Prop where
  agree : PendAgree s pend
  store : StoreOk s
  conn : s.status = .connecting → pend = []

instance (s : St) (pend : Gh) : Decidable (PInv s pend) :=
  decidable_of_iff (PendAgree s pend ∧ StoreOk s ∧ (s.status = .connecting → pend = []))
    ⟨fun h => ⟨h.1, h.2.1, h.2.2⟩, fun h => ⟨h.agree, h.store, h.conn⟩⟩

theorem PInv.toInv {cfg : Cfg} {s : St} {pend : Gh} (h : PInv s pend) : Inv pend ({ cfg := cfg, s := s } : C) :=
  ⟨h.agree, h.store, h.conn⟩
theorem PInv.ofInv {g : Gh} {c : C} (h : Inv g c) : PInv c.s (pendStep g c.ev) := ⟨h.agree, h.store, h.conn⟩

/-- **the contract** of one call, given the state and the ghost before it:
    * `send p`: `p` is a v3.1.1 or v5.0 packet (`p.ver ≠ 0`);
    * `recv`: the parser returns packets of the version it was asked for, whose kind is the frame's
      type nibble (`ParseOk`); and between connections the closed transport was reported (the
      ghost is empty) or the previous peer's Maximum Packet Size admits a 5-byte CONNACK;
    * `erase id`: `id` is in use, or the ghost holds no entry of it;
    * `release id`: no stored packet carries `id` (since fix ba1a812 `release_packet_id` removes
      `id` from the wait sets `puback` / `pubrec` but leaves the store alone: a stored packet would no
      longer be awaited — `StoreOk`);
    * `restorePackets`: the PUBLISH / PUBREL packets are of the connection's (determined) version.
    Nothing is required of `acquire`, `register`, timers, settings, `closed`. -/
def Legal (s : St) (pend : Gh) : Op → Prop
  | .send p => p.ver ≠ 0
  | .recv _ parse => ParseOk parse ∧ (s.status = .disconnected → pend = [] ∨ 5 ≤ s.mpsSend)
  | .erase id => isUsed s id = true ∨ ∀ n, (id, n) ∉ pend
  | .release id => storeHas id s.store = false
  | .restorePackets ps => ∀ p ∈ ps, (p.kind = .publish ∨ p.kind = .pubrel) → p.ver = s.ver ∧ s.ver ≠ 0
  | _ => True

/-- `release_packet_id` (fix ba1a812): the identifier leaves `puback` / `pubrec` together with its
    ghost entry (event `released id`); no stored packet carries it -/
theorem inv_releasePacketId {g : Gh} {c : C} (h : Inv g c) (id : Nat) (hst : storeHas id c.s.store = false) :
    Inv g (releasePacketId c id) := by
  have hne : ∀ x ∈ c.s.store, x.1 ≠ id := by
    simpa only [storeHas, List.any_eq_false, decide_eq_true_eq] using hst
  have key : isUsed c.s id = true → Inv g (dropWaits (releaseIfUsed c id) id) := by
    intro hu
    have e : releaseIfUsed c id = (releaseId c id).push (.released id) := by
      unfold releaseIfUsed; rw [if_pos hu]
    have f := fr_releaseId c id
    have hev : (releaseId c id).ev = c.ev := by unfold releaseId; simp only []; split <;> rfl
    have hs : (releaseId c id).s.status = c.s.status := by unfold releaseId; simp only []; split <;> rfl
    rw [e]
    show Inv g ((dropWaits (releaseId c id) id).push (.released id))
    refine InvM.unmask_released (InvM.del (c' := dropWaits (releaseId c id) id) h hev hs f.ver ?_ ?_ ?_ ?_ ?_)
    · intro i hi hm; exact mem_del.2 ⟨by rw [f.puback]; exact hm, hi⟩
    · intro i hi hm; exact mem_del.2 ⟨by rw [f.pubrec]; exact hm, hi⟩
    · intro i _ hm; show i ∈ (releaseId c id).s.pubcomp; rw [f.pubcomp]; exact hm
    · show (releaseId c id).s.store.Sublist c.s.store; rw [f.store]; exact List.Sublist.refl _
    · intro x hx hid
      have hx' : x ∈ c.s.store := by rw [← f.store]; exact hx
      exact absurd hid (hne x hx')
  rcases releasePacketId_eq c id with ⟨_, e⟩ | ⟨hu, _, e⟩ | ⟨hu, _, e⟩ <;> rw [e]
  · exact h.fr (fr_releaseIfUsed c id)
  · exact key hu
  · exact (key hu).fr (fr_decSendCount _)

theorem pendReset_cases (op : Op) (evs : List Ev) (pend : Gh) :
    pendReset op evs pend = [] ∨ pendReset op evs pend = pend := by
  unfold pendReset
  (repeat' split) <;> simp

theorem pendReset_of_resets {op : Op} {evs : List Ev} (h : Resets evs) (pend : Gh) : pendReset op evs pend = [] := by
  unfold pendReset
  split
  · rfl
  · rw [if_pos]
    rcases h with h | h
    · exact .inl h
    · exact .inr h

/-- from `GoodP` to the ghost the driver computes -/
theorem PInv.of_good {cfg : Cfg} {s : St} {pend : Gh} {op : Op} {P : Gh → Prop} {c' : C}
    (h : PInv s pend) (hg : GoodP P ({ cfg := cfg, s := s } : C) c') (hP : P [] ∧ P pend) :
    PInv c'.s (pendNext op c'.ev pend) := by
  unfold pendNext
  rcases hg with hg | ⟨r, hg⟩
  · rcases pendReset_cases op c'.ev pend with e | e <;> rw [e]
    · exact .ofInv (hg [] hP.1 (inv_of_empty rfl h.store))
    · exact .ofInv (hg pend hP.2 h.toInv)
  · rw [pendReset_of_resets r]
    exact .ofInv (hg h.store)

theorem PInv.of_fr {cfg : Cfg} {s : St} {pend : Gh} {op : Op} {c' : C}
    (h : PInv s pend) (f : Fr ({ cfg := cfg, s := s } : C) c') : PInv c'.s (pendNext op c'.ev pend) :=
  h.of_good (P := fun _ => True) (GoodP.of_fr f) ⟨trivial, trivial⟩

/-- **preservation** (justifies the ghost bookkeeping of `VIOL sig=C08 completion_not_released@<site>`):
    every call of the API keeps the invariant, the ghost being updated exactly as the driver does
    (`pendNext` = reset by the whole event list, then the fold) -/
theorem PInv_step {cfg : Cfg} {s : St} {pend : Gh} (h : PInv s pend) (op : Op) (hl : Legal s pend op) :
    PInv (step cfg s op).s (pendNext op (step cfg s op).ev pend) := by
  cases op with
  | send p => exact h.of_good (P := fun _ => True) (good_send _ p rfl hl).toP ⟨trivial, trivial⟩
  | recv inp parse =>
    refine h.of_good (good_recv { cfg := cfg, s := s } inp parse rfl hl.1) ⟨fun _ => .inl rfl, hl.2⟩
  | timer k => exact h.of_fr (cfg := cfg) (fr_notifyTimerFired _ k)
  | closed =>
    show PInv (notifyClosed _).s (pendStep [] (notifyClosed _).ev)
    exact .ofInv (inv_notifyClosed { cfg := cfg, s := s } rfl h.store)
  | setInterval d =>
    refine h.of_fr (cfg := cfg) ?_
    show Fr _ (setPingreqSendInterval _ d)
    unfold setPingreqSendInterval
    fr_handler
  | setFlag f b => cases f <;> exact h.of_fr (cfg := cfg) (fr_of_eq rfl rfl rfl)
  | setRespTimeout ms => exact h.of_fr (cfg := cfg) (fr_of_eq rfl rfl rfl)
  | acquire => exact h.of_fr (cfg := cfg) (fr_of_eq rfl rfl rfl)
  | register id => exact h.of_fr (cfg := cfg) (fr_of_eq rfl rfl rfl)
  | release id =>
    exact h.of_good (P := fun _ => True) (.inl (fun g _ hi => inv_releasePacketId hi id hl)) ⟨trivial, trivial⟩
  | erase id =>
    refine h.of_good (P := fun g => isUsed s id = true ∨ ∀ n, (id, n) ∉ g)
      (.inl (fun g hP hi => inv_eraseStoredPublish hi id hP)) ⟨.inr (fun n => by simp), hl⟩
  | restoreHandled ids => exact h.of_fr (cfg := cfg) (fr_of_eq rfl rfl rfl)
  | restorePackets ps =>
    exact h.of_good (P := fun _ => True) (.inl (fun g _ hi => inv_restorePackets ps _ hi hl)) ⟨trivial, trivial⟩

end MqttVerif.Conn.Pend
